(* Replicate.v -- prover / verifier agreement for Merkle proofs (property C03).
   R1: nothing in a created proof is fabricated (every node comes from the writer's own lookup).
   R2: block-only requests: shape of the proof, the verifier's climb succeeds on it, the root it
       computes carries the writer's hash, verify_proof accepts, the changeset is commitable.
   R3: what the replica's missing-node count says about the replica's store.
   R4: upgrade-only proofs sent to an empty replica. *)
From HC Require Import Base NMap Codec CodecFacts Crypto FlatTree Storage Oplog Merkle Core.
From HC Require Import FlatTreeFacts Sound NoPanic TreeRef CoreFacts.
From Coq Require Import FMapPositive ZifyN ZifyNat ZifyBool.
Ltac Zify.zify_post_hook ::= Z.div_mod_to_equations.
Arguments N.add : simpl never.
Arguments N.sub : simpl never.
Arguments N.mul : simpl never.
Arguments N.div : simpl never.
Arguments N.modulo : simpl never.
Arguments N.pow : simpl never.
Arguments N.eqb : simpl never.
Arguments N.ltb : simpl never.
Arguments N.leb : simpl never.

(* ====================================================================================== *)
(* R1. no fabrication                                                                      *)
(* ====================================================================================== *)

(* the node was obtained from the writer's own lookup *)
Definition from_writer (t : mtree) (tf : file) (n : node) : Prop :=
  exists i, required_node t tf i = Ok n.

Definition opt_all (P : node -> Prop) (o : option (list node)) : Prop :=
  match o with Some l => Forall P l | None => True end.

Definition lp_all (P : node -> Prop) (p : local_proof) : Prop :=
  opt_all P (lp_seek p) /\ opt_all P (lp_nodes p) /\ opt_all P (lp_upgrade p) /\
  opt_all P (lp_additional p).

Lemma lp_all_empty P : lp_all P lp_empty.
Proof. unfold lp_all, lp_empty. cbn. tauto. Qed.

Section NoFabrication.
  Variable t : mtree.
  Variable tf : file.
  Let P := from_writer t tf.

  Lemma from_writer_intro i n : required_node t tf i = Ok n -> P n.
  Proof. intros H. exists i. exact H. Qed.

  Lemma seek_proof_loop_from fuel : forall it root acc l,
    Forall P acc -> seek_proof_loop fuel t tf it root acc = Ok l -> Forall P l.
  Proof.
    induction fuel as [|f IH]; intros it root acc l Ha H; [discriminate H|].
    cbn [seek_proof_loop] in H. destruct (it_index it =? root).
    - injection H as <-. apply Forall_rev. exact Ha.
    - apply bind_ok in H. destruct H as (n & Hn & H).
      apply (IH _ _ _ _ (Forall_cons n (from_writer_intro _ _ Hn) Ha) H).
  Qed.

  Lemma seek_proof_from seek_root root p p' :
    lp_all P p -> seek_proof t tf seek_root root p = Ok p' -> lp_all P p'.
  Proof.
    intros (H1 & H2 & H3 & H4) H. unfold seek_proof in H.
    apply bind_ok in H. destruct H as (n & Hn & H).
    apply bind_ok in H. destruct H as (l & Hl & H). injection H as <-.
    unfold lp_all. cbn [lp_seek lp_nodes lp_upgrade lp_additional opt_all].
    repeat split; try assumption.
    apply (seek_proof_loop_from _ _ _ _ _ (Forall_cons n (from_writer_intro _ _ Hn) (Forall_nil _)) Hl).
  Qed.

  Lemma block_proof_loop_from fuel : forall it root is_seek seek_root p acc p' l,
    lp_all P p -> Forall P acc ->
    block_proof_loop fuel t tf it root is_seek seek_root p acc = Ok (p', l) ->
    lp_all P p' /\ Forall P l.
  Proof.
    induction fuel as [|f IH]; intros it root is_seek seek_root p acc p' l Hp Ha H; [discriminate H|].
    cbn [block_proof_loop] in H. destruct (it_index it =? root).
    - injection H as <- <-. split; [exact Hp | apply Forall_rev; exact Ha].
    - destruct (is_seek && it_contains (it_sibling it) seek_root &&
                negb (it_index (it_sibling it) =? seek_root)).
      + apply bind_ok in H. destruct H as (p1 & Hs & H).
        apply (IH _ _ _ _ _ _ _ _ (seek_proof_from _ _ _ _ Hp Hs) Ha H).
      + apply bind_ok in H. destruct H as (n & Hn & H).
        apply (IH _ _ _ _ _ _ _ _ Hp (Forall_cons n (from_writer_intro _ _ Hn) Ha) H).
  Qed.

  Lemma block_and_seek_proof_from ix is_seek seek_root root p p' :
    lp_all P p -> block_and_seek_proof t tf ix is_seek seek_root root p = Ok p' -> lp_all P p'.
  Proof.
    intros Hp H. unfold block_and_seek_proof in H. destruct ix as [i|].
    - destruct (negb (it_contains (it_new root) (ix_index i))); [discriminate H|].
      apply bind_ok in H. destruct H as (acc0 & H0 & H).
      apply bind_ok in H. destruct H as ([p1 l] & Hl & H). injection H as <-.
      assert (Ha : Forall P acc0).
      { destruct (ix_value i).
        - injection H0 as <-. constructor.
        - apply bind_ok in H0. destruct H0 as (n & Hn & H0). injection H0 as <-.
          constructor; [exact (from_writer_intro _ _ Hn) | constructor]. }
      destruct (block_proof_loop_from _ _ _ _ _ _ _ _ _ Hp Ha Hl) as ((A1 & A2 & A3 & A4) & B).
      unfold lp_all. cbn [lp_seek lp_nodes lp_upgrade lp_additional opt_all]. tauto.
    - exact (seek_proof_from _ _ _ _ Hp H).
  Qed.

  Lemma connect_loop_from fuel : forall it root target ix is_seek sub_tree with_sub p acc p' acc',
    lp_all P p -> Forall P acc ->
    connect_loop fuel t tf it root target ix is_seek sub_tree with_sub p acc = Ok (p', acc') ->
    lp_all P p' /\ Forall P acc'.
  Proof.
    induction fuel as [|f IH]; intros it root target ix is_seek sub_tree with_sub p acc p' acc' Hp Ha H;
      [discriminate H|].
    cbn [connect_loop] in H. destruct (it_index it =? root).
    - injection H as <- <-. auto.
    - apply bind_ok in H. destruct H as ([p1 acc1] & H1 & H).
      assert (lp_all P p1 /\ Forall P acc1) as [Hp1 Ha1].
      { destruct (target <? it_index (it_sibling it)).
        - destruct (with_sub && match lp_nodes p, lp_seek p with None, None => true | _, _ => false end
                    && it_contains (it_sibling it) sub_tree).
          + apply bind_ok in H1. destruct H1 as (p2 & H2 & H1). injection H1 as <- <-.
            split; [exact (block_and_seek_proof_from _ _ _ _ _ _ Hp H2) | exact Ha].
          + apply bind_ok in H1. destruct H1 as (n & Hn & H1). injection H1 as <- <-.
            split; [exact Hp|]. apply Forall_app. split; [exact Ha|].
            constructor; [exact (from_writer_intro _ _ Hn) | constructor].
        - injection H1 as <- <-. auto. }
      apply (IH _ _ _ _ _ _ _ _ _ _ _ Hp1 Ha1 H).
  Qed.

  Lemma upgrade_loop_from fuel : forall it from to ix is_seek sub_tree with_sub has p acc p' acc' has',
    lp_all P p -> Forall P acc ->
    upgrade_loop fuel t tf it from to ix is_seek sub_tree with_sub has p acc = Ok (p', acc', has') ->
    lp_all P p' /\ Forall P acc'.
  Proof.
    induction fuel as [|f IH]; intros it from to ix is_seek sub_tree with_sub has p acc p' acc' has' Hp Ha H;
      [discriminate H|].
    cbn [upgrade_loop] in H. destruct (it_full_root it to) as [found it1].
    destruct (negb found).
    { injection H as <- <- <-. auto. }
    destruct (it_index it1 + it_factor it1 / 2 <? from).
    { apply (IH _ _ _ _ _ _ _ _ _ _ _ _ _ Hp Ha H). }
    destruct (negb has && it_contains it1 (from - 2)).
    { apply bind_ok in H. destruct H as ([p1 acc1] & H1 & H).
      destruct (connect_loop_from _ _ _ _ _ _ _ _ _ _ _ _ Hp Ha H1) as [Hp1 Ha1].
      apply (IH _ _ _ _ _ _ _ _ _ _ _ _ _ Hp1 Ha1 H). }
    destruct (with_sub && match lp_nodes p, lp_seek p with None, None => true | _, _ => false end
              && it_contains it1 sub_tree).
    { apply bind_ok in H. destruct H as (p1 & H1 & H).
      apply (IH _ _ _ _ _ _ _ _ _ _ _ _ _ (block_and_seek_proof_from _ _ _ _ _ _ Hp H1) Ha H). }
    apply bind_ok in H. destruct H as (n & Hn & H).
    refine (IH _ _ _ _ _ _ _ _ _ _ _ _ _ Hp _ H).
    apply Forall_app. split; [exact Ha|]. constructor; [exact (from_writer_intro _ _ Hn) | constructor].
  Qed.

  Lemma upgrade_proof_from ix is_seek from to sub_tree p p' :
    lp_all P p -> upgrade_proof t tf ix is_seek from to sub_tree p = Ok p' -> lp_all P p'.
  Proof.
    intros Hp. unfold upgrade_proof. intros H. (* unfold in the goal: keeps Qed from unrolling CLIMB *)
    apply bind_ok in H. destruct H as ([[p1 acc] has] & H1 & H). injection H as <-.
    destruct (upgrade_loop_from _ _ _ _ _ _ _ _ _ _ _ _ _ _ Hp (Forall_nil _) H1) as ((A1 & A2 & A3 & A4) & B).
    destruct has; unfold lp_all; cbn [lp_seek lp_nodes lp_upgrade lp_additional opt_all]; tauto.
  Qed.

  Lemma additional_upgrade_proof_from from to p p' :
    lp_all P p -> additional_upgrade_proof t tf from to p = Ok p' -> lp_all P p'.
  Proof.
    intros Hp. unfold additional_upgrade_proof. intros H.
    apply bind_ok in H. destruct H as ([[p1 acc] has] & H1 & H). injection H as <-.
    destruct (upgrade_loop_from _ _ _ _ _ _ _ _ _ _ _ _ _ _ Hp (Forall_nil _) H1) as ((A1 & A2 & A3 & A4) & B).
    destruct has; unfold lp_all; cbn [lp_seek lp_nodes lp_upgrade lp_additional opt_all]; tauto.
  Qed.
End NoFabrication.

(* every node list of the valueless proof satisfies P *)
Definition vp_all (P : node -> Prop) (vp : vproof) : Prop :=
  (forall b, vp_block vp = Some b -> Forall P (dh_nodes b)) /\
  (forall h, vp_hash vp = Some h -> Forall P (dh_nodes h)) /\
  (forall s, vp_seek vp = Some s -> Forall P (ds_nodes s)) /\
  (forall u, vp_upgrade vp = Some u -> Forall P (du_nodes u) /\ Forall P (du_additional u)).

Theorem create_proof_no_fabrication t tf block hash seek upgrade vp :
  create_valueless_proof t tf block hash seek upgrade = Ok vp ->
  vp_all (from_writer t tf) vp /\
  vp_fork vp = t_fork t /\
  (forall b, vp_block vp = Some b -> exists rb, block = Some rb /\ dh_index b = rb_index rb) /\
  (forall h, vp_hash vp = Some h -> exists rh, block = None /\ hash = Some rh /\ dh_index h = rb_index rh) /\
  (forall s, vp_seek vp = Some s -> exists rs, seek = Some rs /\ ds_bytes s = rs_bytes rs) /\
  (forall u, vp_upgrade vp = Some u ->
     exists ru, upgrade = Some ru /\ du_start u = ru_start ru /\ du_length u = ru_length ru /\
                t_signature t = Some (du_signature u)) /\
  (upgrade = None -> vp_upgrade vp = None).
Proof.
  intros H. unfold create_valueless_proof in H.
  apply bind_ok in H. destruct H as ([from to] & _ & H).
  apply bind_ok in H. destruct H as (ixo & _ & H).
  destruct ((to <=? from) || (2 * t_length t <? to)); [discriminate H|].
  apply bind_ok in H. destruct H as ([[sub_tree p0] untrusted] & H0 & H).
  apply bind_ok in H. destruct H as (sub_tree' & _ & H).
  apply bind_ok in H. destruct H as (p & Hp & H).
  apply bind_ok in H. destruct H as ([dblock dhash] & Hbh & H).
  apply bind_ok in H. destruct H as (dup & Hup & H). injection H as <-.
  (* the local proof after the block / seek stage *)
  assert (A0 : lp_all (from_writer t tf) p0).
  { destruct ixo as [ix|].
    - destruct ((match seek with Some _ => true | None => false end) &&
                (match upgrade with Some _ => true | None => false end) && (from <=? ix_index ix));
        [discriminate H0|].
      destruct (match upgrade with Some u => ix_last ix <? ru_start u | None => true end).
      + apply bind_ok in H0. destruct H0 as (sub & _ & H0).
        apply bind_ok in H0. destruct H0 as (seek_root & _ & H0).
        apply bind_ok in H0. destruct H0 as (p1 & H1 & H0). injection H0 as _ <- _.
        exact (block_and_seek_proof_from _ _ _ _ _ _ _ _ (lp_all_empty _) H1).
      + injection H0 as _ <- _. apply lp_all_empty.
    - injection H0 as _ <- _. apply lp_all_empty. }
  (* ... and after the upgrade stage *)
  assert (A : lp_all (from_writer t tf) p).
  { destruct upgrade as [u|].
    - apply bind_ok in Hp. destruct Hp as (p1 & H1 & Hp).
      pose proof (upgrade_proof_from _ _ _ _ _ _ _ _ _ A0 H1) as A1.
      destruct (to <? 2 * t_length t).
      + exact (additional_upgrade_proof_from _ _ _ _ _ _ A1 Hp).
      + injection Hp as <-. exact A1.
    - injection Hp as <-. exact A0. }
  destruct A as (As & An & Au & Aa).
  unfold vp_all. cbn [vp_fork vp_block vp_hash vp_seek vp_upgrade].
  (* block / hash sections *)
  assert (B : (forall b, dblock = Some b ->
                 Forall (from_writer t tf) (dh_nodes b) /\
                 exists rb, block = Some rb /\ dh_index b = rb_index rb) /\
              (forall h, dhash = Some h ->
                 Forall (from_writer t tf) (dh_nodes h) /\
                 exists rh, block = None /\ hash = Some rh /\ dh_index h = rb_index rh)).
  { destruct block as [rb|].
    - destruct (lp_nodes p) as [ns|]; [|discriminate Hbh]. injection Hbh as <- <-.
      split; [|intros h [=]]. intros b [= <-]. cbn [dh_nodes dh_index]. split; [exact An|].
      exists rb. auto.
    - destruct hash as [rh|].
      + destruct (lp_nodes p) as [ns|]; [|discriminate Hbh]. injection Hbh as <- <-.
        split; [intros b [=]|]. intros h [= <-]. cbn [dh_nodes dh_index]. split; [exact An|].
        exists rh. auto.
      + injection Hbh as <- <-. split; intros ? [=]. }
  destruct B as [Bb Bh].
  (* seek section *)
  assert (S : forall s, match seek, lp_seek p with
                        | Some s0, Some ns => Some (mkDataSeek (rs_bytes s0) ns)
                        | _, _ => None
                        end = Some s ->
              Forall (from_writer t tf) (ds_nodes s) /\ exists rs, seek = Some rs /\ ds_bytes s = rs_bytes rs).
  { intros s Hs. destruct seek as [s0|]; [|discriminate Hs].
    destruct (lp_seek p) as [ns|]; [|discriminate Hs]. injection Hs as <-.
    cbn [ds_nodes ds_bytes]. split; [exact As|]. exists s0. auto. }
  (* upgrade section *)
  assert (U : (forall u, dup = Some u ->
                (Forall (from_writer t tf) (du_nodes u) /\ Forall (from_writer t tf) (du_additional u)) /\
                exists ru, upgrade = Some ru /\ du_start u = ru_start ru /\ du_length u = ru_length ru /\
                           t_signature t = Some (du_signature u)) /\
              (upgrade = None -> dup = None)).
  { destruct upgrade as [ru|].
    - split; [|intros [=]].
      destruct (lp_upgrade p) as [ns|]; [|discriminate Hup].
      destruct (t_signature t) as [sg|]; [|discriminate Hup]. injection Hup as <-.
      intros u [= <-]. cbn [du_nodes du_additional du_start du_length du_signature].
      split.
      + split; [exact Au|]. destruct (lp_additional p); [exact Aa | constructor].
      + exists ru. auto.
    - injection Hup as <-. split; [intros u [=] | reflexivity]. }
  destruct U as [U1 U2].
  split; [|split; [reflexivity|]].
  - repeat split.
    + intros b Hb. apply (Bb b Hb).
    + intros h Hh. apply (Bh h Hh).
    + intros s Hs. apply (S s Hs).
    + apply (U1 u H).
    + apply (U1 u H).
  - split; [intros b Hb; apply (Bb b Hb)|].
    split; [intros h Hh; apply (Bh h Hh)|].
    split; [intros s Hs; apply (S s Hs)|].
    split; [intros u Hu; apply (U1 u Hu) | exact U2].
Qed.

(* Corollary with Core: a created proof carries the valueless proof's nodes, and its block value is
   what core_get returned for that index (None = block not held: no proof) *)
Theorem core_create_proof_inv block hash seek upgrade c w c' w' r :
  core_create_proof block hash seek upgrade c w = (c', w', Ok r) ->
  exists vp,
    create_valueless_proof (c_tree c) (d_tree (w_disk w)) block hash seek upgrade = Ok vp /\
    vp_all (from_writer (c_tree c) (d_tree (w_disk w))) vp /\
    match vp_block vp with
    | Some b =>
        exists v, core_get (dh_index b) c w = (c', w', Ok v) /\
          r = match v with
              | None => None
              | Some value =>
                  Some (mkProof (vp_fork vp) (Some (mkDataBlock (dh_index b) value (dh_nodes b)))
                          (vp_hash vp) (vp_seek vp) (vp_upgrade vp))
              end
    | None =>
        c' = c /\ w' = w /\
        r = Some (mkProof (vp_fork vp) None (vp_hash vp) (vp_seek vp) (vp_upgrade vp))
    end.
Proof.
  unfold core_create_proof. rewrite mbind_get_core, mbind_get_disk, mbind_lift.
  destruct (create_valueless_proof (c_tree c) (d_tree (w_disk w)) block hash seek upgrade) as [vp| | |] eqn:E;
    intros H; try (inversion H; fail).
  exists vp. split; [reflexivity|]. split; [apply (create_proof_no_fabrication _ _ _ _ _ _ _ E)|].
  destruct (vp_block vp) as [b|].
  - mstep H. exists a. split.
    + destruct a as [value|]; prim_inv H; exact Hm.
    + destruct a as [value|]; prim_inv H; reflexivity.
  - prim_inv H. auto.
Qed.

(* ====================================================================================== *)
(* R2. block-only requests                                                                 *)
(* ====================================================================================== *)

(* ---------- the upward path of an iterator ---------- *)

(* indices of the siblings met while climbing m levels from it *)
Fixpoint sib_indices (m : nat) (it : fiter) : list N :=
  match m with
  | O => []
  | S m' => it_index (it_sibling it) :: sib_indices m' (it_parent (it_sibling it))
  end.

Lemma sib_indices_length m : forall it, length (sib_indices m it) = m.
Proof. induction m as [|m IH]; intros it; cbn [sib_indices length]; [reflexivity | now rewrite IH]. Qed.

Lemma sib_indices_nth m : forall it k, (k < m)%nat ->
  nth_error (sib_indices m it) k = Some (it_index (it_sibling (it_up_n k it))).
Proof.
  induction m as [|m IH]; intros it k Hk; [lia|].
  destruct k as [|k]; cbn [sib_indices nth_error it_up_n]; [reflexivity|]. apply IH. lia.
Qed.

(* k-th element of a list related by Forall2 *)
Lemma Forall2_nth {A B} (R : A -> B -> Prop) : forall la lb k b,
  Forall2 R la lb -> nth_error lb k = Some b -> exists a, nth_error la k = Some a /\ R a b.
Proof.
  intros la lb k b H. revert k. induction H as [|x y la lb Hxy H IH]; intros k Hk.
  - destruct k; discriminate Hk.
  - destruct k as [|k]; cbn [nth_error] in *.
    + injection Hk as <-. exists x. auto.
    + apply IH. exact Hk.
Qed.

Lemma Forall2_len {A B} (R : A -> B -> Prop) la lb : Forall2 R la lb -> length la = length lb.
Proof. induction 1; cbn [length]; congruence. Qed.

Lemma it_up_n_S k : forall it, it_up_n (S k) it = it_parent (it_sibling (it_up_n k it)).
Proof. induction k as [|k IH]; intros it; [reflexivity|]. cbn [it_up_n] in *. now rewrite <- IH. Qed.

Lemma wf_up_n k : forall it, wf it -> wf (it_up_n k it).
Proof. induction k as [|k IH]; intros it H; cbn [it_up_n]; [exact H|]. apply IH, wf_parent, wf_sibling, H. Qed.

(* the prover's nodes_to_root climbs with it_parent alone, block_proof_loop and the verifier with
   it_parent after it_sibling: the same thing on well-formed iterators *)
Lemma it_up_up_n k : forall it, wf it -> it_up k it = it_up_n k it.
Proof.
  induction k as [|k IH]; intros it H; cbn [it_up it_up_n]; [reflexivity|].
  rewrite (it_parent_sibling it H). apply IH, wf_parent, H.
Qed.

(* positions: after k levels the iterator sits at depth d + k *)
Lemma it_step_at d o : exists o', it_parent (it_sibling (it_at d o)) = it_at (d + 1) o'.
Proof.
  rewrite (it_parent_sibling _ (wf_at d o)), it_parent_at. eexists. reflexivity.
Qed.

Lemma it_up_n_at k : forall d o, exists o', it_up_n k (it_at d o) = it_at (d + N.of_nat k) o'.
Proof.
  induction k as [|k IH]; intros d o; cbn [it_up_n].
  - exists o. f_equal. lia.
  - destruct (it_step_at d o) as [o1 ->]. destruct (IH (d + 1) o1) as [o2 ->].
    exists o2. f_equal. lia.
Qed.

Lemma it_at_index_inj d o d' o' : it_index (it_at d o) = it_index (it_at d' o') -> d = d' /\ o = o'.
Proof. unfold it_at. cbn [it_index]. apply ft_index_inj. Qed.

(* the indices along an upward path are pairwise different *)
Lemma it_up_n_index_neq k it0 : (0 < k)%nat -> (exists d o, it0 = it_at d o) ->
  it_index it0 <> it_index (it_up_n k it0).
Proof.
  intros Hk (d & o & ->). destruct (it_up_n_at k d o) as [o' ->].
  intros E. apply it_at_index_inj in E. lia.
Qed.

Lemma it_new_is_at i : exists d o, it_new i = it_at d o.
Proof. exists (ft_depth i), (ft_offset i). apply it_new_at. Qed.

Lemma it_step_is_at it : (exists d o, it = it_at d o) -> exists d o, it_parent (it_sibling it) = it_at d o.
Proof. intros (d & o & ->). destruct (it_step_at d o) as [o' E]. eauto. Qed.

(* ---------- the prover ---------- *)

Lemma nodes_to_root_loop_inv fuel : forall it rem head r,
  nodes_to_root_loop fuel it rem head = Ok r ->
  r = it_index (it_up (N.to_nat rem) it) /\ (N.to_nat rem < fuel)%nat /\
  (forall j, (0 < j <= N.to_nat rem)%nat -> it_contains (it_up j it) head = false).
Proof.
  induction fuel as [|f IH]; intros it rem head r H; [discriminate H|].
  cbn [nodes_to_root_loop] in H. destruct (rem =? 0) eqn:E.
  - injection H as <-. apply N.eqb_eq in E. subst rem. cbn [N.to_nat it_up].
    repeat split; [lia|]. intros j Hj. lia.
  - destruct (it_contains (it_parent it) head) eqn:Ec; [discriminate H|].
    apply IH in H. destruct H as (-> & Hf & Hc).
    assert (En : N.to_nat rem = S (N.to_nat (rem - 1))) by lia.
    rewrite En. cbn [it_up]. repeat split; [lia|].
    intros j Hj. destruct j as [|j]; [lia|]. cbn [it_up].
    destruct j as [|j]; [exact Ec|]. apply (Hc (S j)). lia.
Qed.

(* the converse: enough fuel and no ancestor containing the head *)
Lemma nodes_to_root_loop_ok fuel : forall it rem head,
  (N.to_nat rem < fuel)%nat ->
  (forall j, (0 < j <= N.to_nat rem)%nat -> it_contains (it_up j it) head = false) ->
  nodes_to_root_loop fuel it rem head = Ok (it_index (it_up (N.to_nat rem) it)).
Proof.
  induction fuel as [|f IH]; intros it rem head Hf Hc; [lia|].
  cbn [nodes_to_root_loop]. destruct (rem =? 0) eqn:E.
  - apply N.eqb_eq in E. subst rem. reflexivity.
  - assert (En : N.to_nat rem = S (N.to_nat (rem - 1))) by lia.
    assert (H1 : it_contains (it_parent it) head = false) by (apply (Hc 1%nat); lia).
    rewrite H1, En. cbn [it_up]. apply IH; [lia|].
    intros j Hj. apply (Hc (S j)). lia.
Qed.

(* block_proof_loop without a seek: climbs exactly the m levels up to the root, pushing the
   writer's node at each sibling position *)
Lemma block_proof_loop_shape (t : mtree) (tf : file) fuel : forall m it root sr p acc p' l,
  (exists d o, it = it_at d o) ->
  root = it_index (it_up_n m it) ->
  block_proof_loop fuel t tf it root false sr p acc = Ok (p', l) ->
  p' = p /\ exists sibs, l = rev acc ++ sibs /\
    Forall2 (fun idx n => required_node t tf idx = Ok n) (sib_indices m it) sibs.
Proof.
  induction fuel as [|f IH]; intros m it root sr p acc p' l Hat Hr H; [discriminate H|].
  cbn [block_proof_loop andb] in H. destruct (it_index it =? root) eqn:E.
  - injection H as <- <-. split; [reflexivity|]. exists []. rewrite app_nil_r. split; [reflexivity|].
    destruct m as [|m]; [constructor|]. exfalso. apply N.eqb_eq in E. subst root.
    apply (it_up_n_index_neq (S m) it); [lia | exact Hat | exact E].
  - destruct m as [|m]; [cbn [it_up_n] in Hr; lia|].
    apply bind_ok in H. destruct H as (n & Hn & H).
    apply (IH m) in H; [|apply it_step_is_at, Hat | exact Hr].
    destruct H as (-> & sibs & -> & HF). split; [reflexivity|].
    exists (n :: sibs). cbn [rev]. rewrite <- app_assoc. split; [reflexivity|].
    cbn [sib_indices]. constructor; assumption.
Qed.

(* (definitions whose body mentions CLIMB are unfolded in the goal, never in a hypothesis: the
   conversion check at Qed otherwise unrolls the fuel) *)
Lemma nodes_to_root_inv index nodes head r :
  nodes_to_root index nodes head = Ok r ->
  r = it_index (it_up (N.to_nat nodes) (it_new index)) /\ (N.to_nat nodes < CLIMB)%nat /\
  (forall j, (0 < j <= N.to_nat nodes)%nat -> it_contains (it_up j (it_new index)) head = false).
Proof. unfold nodes_to_root. apply nodes_to_root_loop_inv. Qed.

Lemma block_and_seek_proof_value_inv t tf ix nodes last sr root p p1 :
  block_and_seek_proof t tf (Some (mkIndexed true ix nodes last)) false sr root p = Ok p1 ->
  exists p' l, block_proof_loop CLIMB t tf (it_new ix) root false sr p [] = Ok (p', l) /\
    p1 = mkLp (lp_seek p') (Some l) (lp_upgrade p') (lp_additional p').
Proof.
  unfold block_and_seek_proof. cbn [ix_index ix_value].
  destruct (negb (it_contains (it_new root) ix)); [discriminate|]. cbn [bind]. intros H.
  apply bind_ok in H. destruct H as ([p' l] & Hl & H). injection H as <-. eauto.
Qed.

(* the shape of a block-only proof *)
Theorem block_only_proof_shape t tf i nodes vp :
  create_valueless_proof t tf (Some (mkReqBlock i nodes)) None None None = Ok vp ->
  exists ns,
    vp = mkVproof (t_fork t) (Some (mkDataHash i ns)) None None None /\
    length ns = N.to_nat nodes /\
    Forall2 (fun idx n => required_node t tf idx = Ok n)
            (sib_indices (N.to_nat nodes) (it_new (2 * i))) ns /\
    (forall k n, nth_error ns k = Some n ->
       required_node t tf (it_index (it_sibling (it_up_n k (it_new (2 * i))))) = Ok n) /\
    nodes_to_root (2 * i) nodes (2 * t_length t)
      = Ok (it_index (it_up_n (N.to_nat nodes) (it_new (2 * i)))) /\
    (forall j, (0 < j <= N.to_nat nodes)%nat ->
       it_contains (it_up_n j (it_new (2 * i))) (2 * t_length t) = false) /\
    fits_u64 (i * 2) = true /\ 0 < t_length t.
Proof.
  unfold create_valueless_proof, normalize_indexed, mul64. cbn [bind rb_index rb_nodes].
  destruct (fits_u64 (i * 2)) eqn:F; [|discriminate]. cbn [bind].
  destruct ((2 * t_length t <=? 0) || (2 * t_length t <? 2 * t_length t)) eqn:E0; [discriminate|].
  cbn [andb ix_index ix_nodes ix_value ix_last]. rewrite (N.mul_comm i 2).
  intros H.
  apply bind_ok in H. destruct H as ([[sub_tree p0] untrusted] & H0 & H).
  apply bind_ok in H0. destruct H0 as (sub & Hsub & H0). cbn [bind] in H0.
  apply bind_ok in H0. destruct H0 as (p1 & H1 & H0). injection H0 as <- <- <-.
  cbn [negb bind] in H.
  (* nodes_to_root *)
  pose proof Hsub as Hsub0.
  apply nodes_to_root_inv in Hsub.
  destruct Hsub as (Es & _ & Hc).
  assert (Eup : forall j, it_up j (it_new (2 * i)) = it_up_n j (it_new (2 * i)))
    by (intros j; apply it_up_up_n, wf_new).
  rewrite Eup in Es.
  (* block_and_seek_proof *)
  apply block_and_seek_proof_value_inv in H1. destruct H1 as (p' & l & Hl & ->).
  apply (block_proof_loop_shape t tf CLIMB (N.to_nat nodes)) in Hl;
    [|apply it_new_is_at | exact Es].
  destruct Hl as (-> & sibs & -> & HF). cbn [rev app] in *.
  cbn [lp_nodes lp_seek lp_upgrade lp_additional lp_empty bind] in H. injection H as <-.
  exists sibs. split; [reflexivity|].
  pose proof (Forall2_len _ _ _ HF) as HL. rewrite sib_indices_length in HL.
  split; [now symmetry|]. split; [exact HF|].
  split.
  { intros k n Hk. destruct (Forall2_nth _ _ _ _ _ HF Hk) as (idx & Hi & Hr).
    rewrite sib_indices_nth in Hi.
    - injection Hi as <-. exact Hr.
    - rewrite HL. apply nth_error_Some. rewrite Hk. discriminate. }
  split; [now rewrite Hsub0, Es|].
  split; [intros j Hj; rewrite <- Eup; apply Hc, Hj|].
  split; [reflexivity|]. apply orb_false_iff in E0. lia.
Qed.

(* ---------- nodes are stored under their own index ---------- *)

Definition unflushed_indexed (t : mtree) : Prop :=
  forall k n, nm_get k (t_unflushed t) = Some n -> n_index n = k.

Lemma node_get_index t tf i am n :
  unflushed_indexed t -> node_get t tf i am = Ok (Some n) -> n_index n = i.
Proof.
  intros U. unfold node_get. destruct (nm_get i (t_unflushed t)) as [m|] eqn:E.
  - destruct (node_blank m).
    + destruct am; discriminate.
    + intros [= <-]. apply (U _ _ E).
  - intros H. apply bind_ok in H. destruct H as (off & _ & H).
    destruct (f_read tf off NODE_SIZE) as [data|].
    + destruct (node_blank (node_from_bytes i data)).
      * destruct am; discriminate H.
      * injection H as <-. reflexivity.
    + destruct am; discriminate H.
Qed.

Lemma required_node_index t tf i n :
  unflushed_indexed t -> required_node t tf i = Ok n -> n_index n = i.
Proof.
  intros U H. unfold required_node in H. apply bind_ok in H. destruct H as ([m|] & Hg & H); [|discriminate H].
  injection H as <-. apply (node_get_index _ _ _ _ _ U Hg).
Qed.

Lemma optional_node_index t tf i n :
  unflushed_indexed t -> optional_node t tf i = Ok (Some n) -> n_index n = i.
Proof. intros U H. apply (node_get_index _ _ _ _ _ U H). Qed.

(* maintenance: every way the model changes t_unflushed inserts under n_index *)
Lemma add_nodes_indexed l : forall m,
  (forall k n, nm_get k m = Some n -> n_index n = k) ->
  forall k n, nm_get k (add_nodes m l) = Some n -> n_index n = k.
Proof.
  unfold add_nodes. induction l as [|x l IH]; intros m Hm; cbn [fold_left]; [exact Hm|].
  apply IH. intros k n. rewrite nm_get_set. destruct (k =? n_index x) eqn:E.
  - intros [= <-]. apply N.eqb_eq in E. now symmetry.
  - apply Hm.
Qed.

Lemma unflushed_indexed_add_node t n : unflushed_indexed t -> unflushed_indexed (tree_add_node t n).
Proof.
  intros U. unfold unflushed_indexed, tree_add_node. cbn [t_unflushed].
  apply (add_nodes_indexed [n]). exact U.
Qed.

Lemma unflushed_indexed_add_all l : forall t,
  unflushed_indexed t -> unflushed_indexed (fold_left tree_add_node l t).
Proof.
  induction l as [|n l IH]; intros t U; cbn [fold_left]; [exact U|].
  apply IH, unflushed_indexed_add_node, U.
Qed.

Lemma unflushed_indexed_commit t c t' :
  unflushed_indexed t -> tree_commit t c = Ok t' -> unflushed_indexed t'.
Proof.
  intros U. unfold tree_commit. destruct (negb (commitable t c)); [discriminate|].
  destruct (cs_upgraded c).
  - destruct (cs_ancestors c <? cs_orig_length c); [discriminate|].
    intros [= <-]. unfold unflushed_indexed. cbn [t_unflushed]. apply add_nodes_indexed, U.
  - intros [= <-]. unfold unflushed_indexed. cbn [t_unflushed]. apply add_nodes_indexed, U.
Qed.

Lemma unflushed_indexed_empty roots l bl fk sg : unflushed_indexed (mkTree roots l bl fk sg nm_empty).
Proof. intros k n. cbn [t_unflushed]. rewrite nm_get_empty. discriminate. Qed.

Lemma unflushed_indexed_flush t t' ops :
  tree_flush t = Ok (t', ops) -> unflushed_indexed t'.
Proof.
  unfold tree_flush. destruct (forallb _ _); [|discriminate]. intros [= <- _].
  apply unflushed_indexed_empty.
Qed.

Lemma unflushed_indexed_open ht tf t : tree_open ht tf = Ok t -> unflushed_indexed t.
Proof.
  unfold tree_open. intros H. apply bind_ok in H. destruct H as ([[roots bl] l2] & _ & H).
  apply bind_ok in H. destruct H as (sg & _ & H). injection H as <-. apply unflushed_indexed_empty.
Qed.

(* ---------- the verifier on an honest block-only proof ---------- *)

Section Verifier.
  Variable cr : crypto.

  (* what the climb computes when nothing fails *)
  Fixpoint climb_ref (ns : list node) (it : fiter) (cur : node) (acc : list node) : node * list node :=
    match ns with
    | [] => (cur, acc)
    | n :: r =>
        let p := it_parent (it_sibling it) in
        let pn := mkNode (it_index p) (n_length cur + n_length n) (parent_hash cr cur n) in
        climb_ref r p pn (acc ++ [n; pn])
    end.

  Lemma q_length_plain ns : q_length (mkQ ns None) = N.of_nat (length ns).
  Proof. unfold q_length. cbn [q_nodes q_extra]. lia. Qed.

  (* structural success: each sibling sits at the index q_shift is asked for, sums fit in u64 *)
  Lemma climb_plain_ok : forall ns fuel it cur acc,
    (length ns < fuel)%nat ->
    Forall2 (fun idx n => n_index n = idx) (sib_indices (length ns) it) ns ->
    n_length cur + lens ns <= u64_max ->
    climb cr fuel (mkQ ns None) it cur acc = Ok (climb_ref ns it cur acc).
  Proof.
    induction ns as [|n ns IH]; intros fuel it cur acc Hf HF Hs;
      (destruct fuel as [|f]; [cbn [length] in Hf; lia|]); rewrite climb_S, q_length_plain.
    - reflexivity.
    - cbn [length] in *. destruct (N.of_nat (S (length ns)) =? 0) eqn:E; [lia|].
      cbn [sib_indices] in HF. inversion HF as [|? ? ? ? Hn HF']; subst.
      cbv zeta. unfold q_shift. cbn [q_extra q_nodes]. rewrite Hn, N.eqb_refl. cbn [bind].
      rewrite lens_cons in Hs. rewrite NoPanic.add64_ok by lia. cbn [bind climb_ref].
      apply IH; [lia | exact HF' | cbn [n_length]; lia].
  Qed.

  Lemma climb_ref_index : forall ns it cur acc,
    n_index cur = it_index it ->
    n_index (fst (climb_ref ns it cur acc)) = it_index (it_up_n (length ns) it).
  Proof.
    induction ns as [|n ns IH]; intros it cur acc Hi; cbn [climb_ref length it_up_n fst]; [exact Hi|].
    apply IH. reflexivity.
  Qed.

  Lemma climb_ref_length : forall ns it cur acc,
    n_length (fst (climb_ref ns it cur acc)) = n_length cur + lens ns.
  Proof.
    induction ns as [|n ns IH]; intros it cur acc; cbn [climb_ref fst].
    - unfold lens. cbn [map sumN]. lia.
    - rewrite IH, lens_cons. cbn [n_length]. lia.
  Qed.

  Lemma climb_ref_visited : forall ns it cur acc, exists ext,
    snd (climb_ref ns it cur acc) = acc ++ ext /\ length ext = (2 * length ns)%nat /\
    (forall n, In n ns -> In n ext).
  Proof.
    induction ns as [|n ns IH]; intros it cur acc; cbn [climb_ref snd].
    - exists []. rewrite app_nil_r. repeat split. intros n [].
    - destruct (IH (it_parent (it_sibling it))
                   (mkNode (it_index (it_parent (it_sibling it))) (n_length cur + n_length n)
                           (parent_hash cr cur n))
                   (acc ++ [n; mkNode (it_index (it_parent (it_sibling it))) (n_length cur + n_length n)
                                      (parent_hash cr cur n)])) as (ext & E & L & I).
      eexists. rewrite E, <- app_assoc. split; [reflexivity|]. split.
      + rewrite app_length, L. cbn [length]. lia.
      + intros m [<-|Hm]; [apply in_or_app; left; left; reflexivity|].
        apply in_or_app. right. apply I, Hm.
  Qed.

  (* the converse direction of Sound.climb_all_sound: honest inputs give the honest root *)
  Lemma climb_ref_honest T : forall ns it cur acc,
    consistent_path cr T (length ns) it ->
    n_index cur = it_index it ->
    n_hash cur = n_hash (T (it_index it)) -> n_length cur = n_length (T (it_index it)) ->
    Forall (fun n => n = T (n_index n)) ns ->
    Forall2 (fun idx n => n_index n = idx) (sib_indices (length ns) it) ns ->
    let r := fst (climb_ref ns it cur acc) in
    n_hash r = n_hash (T (n_index r)) /\ n_length r = n_length (T (n_index r)).
  Proof.
    induction ns as [|n ns IH]; intros it cur acc Hp Hi Hh Hl Hn HF; cbn [climb_ref fst].
    - cbv zeta. cbn [climb_ref fst]. rewrite Hi. auto.
    - cbn [length sib_indices] in *. inversion Hp as [|k it0 Hat Hp' Ek Eit]; subst k it0.
      inversion Hn as [|? ? Hn1 Hn']; subst. inversion HF as [|? ? ? ? Hi1 HF']; subst.
      destruct Hat as (Ah & Al & Ai & Ais & _).
      apply IH; try assumption; cbn [n_index n_hash n_length]; try reflexivity.
      + rewrite Ah. apply parent_hash_length_split.
        * now rewrite Hi, Ai.
        * now rewrite Hi1, Ais.
        * now rewrite Hh.
        * rewrite Hn1 at 1. now rewrite Hi1.
        * rewrite Hl. rewrite Hn1 at 1. now rewrite Hi1.
      + rewrite Al, Hl. rewrite Hn1 at 1. now rewrite Hi1.
  Qed.

  (* verify_tree on a block section whose sibling list has the right indices *)
  Theorem block_only_climb_agrees i v ns c :
    Forall2 (fun idx n => n_index n = idx) (sib_indices (length ns) (it_new (2 * i))) ns ->
    i * 2 <= u64_max ->
    len v + lens ns <= u64_max ->
    exists r visited,
      verify_tree cr (Some (mkDataBlock i v ns)) None None c = Ok (Some r, cs_push_nodes c visited) /\
      (r, visited) = climb_ref ns (it_new (2 * i)) (block_node cr (2 * i) v) [block_node cr (2 * i) v] /\
      n_index r = it_index (it_up_n (length ns) (it_new (2 * i))) /\
      n_length r = len v + lens ns /\
      (exists ext, visited = block_node cr (2 * i) v :: ext /\ length ext = (2 * length ns)%nat /\
                   forall n, In n ns -> In n ext).
  Proof.
    intros HF Hi Hs.
    destruct (climb_ref ns (it_new (2 * i)) (block_node cr (2 * i) v) [block_node cr (2 * i) v])
      as [r visited] eqn:E.
    exists r, visited.
    split.
    { unfold verify_tree. cbn [db_index db_value db_nodes]. rewrite NoPanic.mul64_ok by exact Hi.
      cbn [bind]. rewrite Sound.it_index_it_new, (N.mul_comm i 2).
      rewrite climb_plain_ok; [rewrite E; reflexivity | lia | exact HF | cbn [block_node n_length]; exact Hs]. }
    split; [reflexivity|].
    pose proof (climb_ref_index ns (it_new (2 * i)) (block_node cr (2 * i) v) [block_node cr (2 * i) v]) as H1.
    pose proof (climb_ref_length ns (it_new (2 * i)) (block_node cr (2 * i) v) [block_node cr (2 * i) v]) as H2.
    destruct (climb_ref_visited ns (it_new (2 * i)) (block_node cr (2 * i) v) [block_node cr (2 * i) v])
      as (ext & H3 & H4 & H5).
    rewrite E in H1, H2, H3. cbn [fst snd] in *.
    split; [apply H1; cbn [block_node n_index]; now rewrite Sound.it_index_it_new|].
    split; [exact H2|]. exists ext. auto.
  Qed.

  (* ... the root it computes carries the writer's hash (and length) *)
  Theorem block_only_root_honest T i v ns :
    consistent_path cr T (length ns) (it_new (2 * i)) ->
    T (2 * i) = block_node cr (2 * i) v ->
    Forall (fun n => n = T (n_index n)) ns ->
    Forall2 (fun idx n => n_index n = idx) (sib_indices (length ns) (it_new (2 * i))) ns ->
    let r := fst (climb_ref ns (it_new (2 * i)) (block_node cr (2 * i) v) [block_node cr (2 * i) v]) in
    n_hash r = n_hash (T (n_index r)) /\ n_length r = n_length (T (n_index r)).
  Proof.
    intros Hp HT Hn HF. apply climb_ref_honest; try assumption.
    - cbn [block_node n_index]. now rewrite Sound.it_index_it_new.
    - now rewrite Sound.it_index_it_new, HT.
    - now rewrite Sound.it_index_it_new, HT.
  Qed.

  (* the honest block-only proof is accepted by verify_proof *)
  Theorem block_only_accepted T rt rtf fork i v ns pk :
    consistent_path cr T (length ns) (it_new (2 * i)) ->
    T (2 * i) = block_node cr (2 * i) v ->
    Forall (fun n => n = T (n_index n)) ns ->
    Forall2 (fun idx n => n_index n = idx) (sib_indices (length ns) (it_new (2 * i))) ns ->
    i * 2 <= u64_max -> len v + lens ns <= u64_max ->
    (forall ri, ri = it_index (it_up_n (length ns) (it_new (2 * i))) ->
       exists n, required_node rt rtf ri = Ok n /\ n_hash n = n_hash (T ri)) ->
    exists r visited,
      (r, visited) = climb_ref ns (it_new (2 * i)) (block_node cr (2 * i) v) [block_node cr (2 * i) v] /\
      n_index r = it_index (it_up_n (length ns) (it_new (2 * i))) /\
      n_hash r = n_hash (T (n_index r)) /\ n_length r = n_length (T (n_index r)) /\
      verify_proof cr rt rtf (mkProof fork (Some (mkDataBlock i v ns)) None None None) pk
        = Ok (cs_push_nodes (tree_changeset rt) visited).
  Proof.
    intros Hp HT Hn HF Hi Hs Hst.
    destruct (block_only_climb_agrees i v ns (tree_changeset rt) HF Hi Hs)
      as (r & visited & Hv & E & Hri & _ & _).
    pose proof (block_only_root_honest T i v ns Hp HT Hn HF) as Hh. cbv zeta in Hh.
    rewrite <- E in Hh. cbn [fst] in Hh. destruct Hh as [Hh Hl].
    exists r, visited. split; [exact E|]. split; [exact Hri|]. split; [exact Hh|]. split; [exact Hl|].
    unfold verify_proof. cbn [p_block p_hash p_seek p_upgrade p_fork]. rewrite Hv. cbn [bind].
    destruct (Hst (n_index r) Hri) as (n & Hr & Hnh). rewrite Hr. cbn [bind].
    assert (B : bytes_eqb (n_hash n) (n_hash r) = true) by (apply bytes_eqb_eq; congruence).
    rewrite B. reflexivity.
  Qed.

  (* verify_tree only pushes nodes: every other field of the changeset is kept *)
  Definition cs_frame (c c' : changeset) : Prop :=
    cs_length c' = cs_length c /\ cs_ancestors c' = cs_ancestors c /\
    cs_byte_length c' = cs_byte_length c /\ cs_batch_length c' = cs_batch_length c /\
    cs_fork c' = cs_fork c /\ cs_roots c' = cs_roots c /\ cs_hash c' = cs_hash c /\
    cs_signature c' = cs_signature c /\ cs_upgraded c' = cs_upgraded c /\
    cs_orig_length c' = cs_orig_length c /\ cs_orig_fork c' = cs_orig_fork c.

  Lemma cs_frame_refl c : cs_frame c c.
  Proof. unfold cs_frame. tauto. Qed.

  Lemma cs_frame_push c l : cs_frame c (cs_push_nodes c l).
  Proof. unfold cs_frame, cs_push_nodes. cbn. tauto. Qed.

  Lemma cs_frame_trans a b c : cs_frame a b -> cs_frame b c -> cs_frame a c.
  Proof. unfold cs_frame. intros H1 H2. repeat split; (etransitivity; [apply H2 | apply H1]). Qed.

  Lemma vt_seek_frame c sn root c' : vt_seek cr c sn = Ok (root, c') -> cs_frame c c'.
  Proof.
    unfold vt_seek. destruct sn as [|n0 rest].
    - intros [= _ <-]. apply cs_frame_refl.
    - cbv zeta. intros H. apply bind_ok in H. destruct H as ([n q] & _ & H).
      apply bind_ok in H. destruct H as ([r visited] & _ & H). injection H as _ <-.
      apply cs_frame_push.
  Qed.

  Lemma vt_main_frame root c u root' c' : vt_main cr root c u = Ok (root', c') -> cs_frame c c'.
  Proof.
    unfold vt_main. destruct u as [[[value index] nodes]|].
    - cbv zeta. intros H. apply bind_ok in H. destruct H as ([n q] & _ & H).
      apply bind_ok in H. destruct H as ([r visited] & _ & H). injection H as _ <-.
      apply cs_frame_push.
    - intros [= _ <-]. apply cs_frame_refl.
  Qed.

  Lemma verify_tree_frame block hash seek c root c' :
    verify_tree cr block hash seek c = Ok (root, c') -> cs_frame c c'.
  Proof.
    rewrite verify_tree_eq. intros H. apply bind_ok in H. destruct H as (u & _ & H). cbv zeta in H.
    assert (B : ('(root, c1) <- vt_seek cr c (match seek with Some s => ds_nodes s | None => [] end) ;;
                 vt_main cr root c1 u) = Ok (root, c') -> cs_frame c c').
    { intros H'. apply bind_ok in H'. destruct H' as ([r1 c1] & H1 & H2).
      apply (cs_frame_trans _ c1); [apply (vt_seek_frame _ _ _ _ H1) | apply (vt_main_frame _ _ _ _ _ H2)]. }
    destruct u as [x|]; [exact (B H)|].
    destruct (match seek with Some s => ds_nodes s | None => [] end) as [|n0 rest] eqn:E.
    - injection H as _ <-. apply cs_frame_refl.
    - exact (B H).
  Qed.

  (* the changeset of an accepted proof without upgrade section is commitable, and committing it
     only adds its nodes to the replica's unflushed map *)
  Theorem verify_proof_commitable_block_only rt rtf fork ob oh os pk cs :
    verify_proof cr rt rtf (mkProof fork ob oh os None) pk = Ok cs ->
    cs_upgraded cs = false /\ cs_orig_length cs = t_length rt /\ cs_orig_fork cs = t_fork rt /\
    cs_roots cs = t_roots rt /\ cs_length cs = t_length rt /\
    commitable rt cs = true /\
    tree_commit rt cs = Ok (mkTree (t_roots rt) (t_length rt) (t_byte_length rt) (t_fork rt)
                              (t_signature rt) (add_nodes (t_unflushed rt) (cs_nodes cs))).
  Proof.
    intros H. apply verify_proof_accept_inv in H. cbn [p_block p_hash p_seek p_upgrade] in H.
    destruct H as (root & c1 & Hv & -> & _).
    apply verify_tree_frame in Hv.
    destruct Hv as (F1 & F2 & F3 & F4 & F5 & F6 & F7 & F8 & F9 & F10 & F11).
    cbn [tree_changeset cs_length cs_ancestors cs_byte_length cs_batch_length cs_fork cs_roots cs_hash
         cs_signature cs_upgraded cs_orig_length cs_orig_fork] in *.
    assert (C : commitable rt c1 = true).
    { unfold commitable. rewrite F9, F10, F11, N.eqb_refl. cbn [andb]. lia. }
    repeat split; try assumption.
    unfold tree_commit. rewrite C, F9. reflexivity.
  Qed.
End Verifier.

Lemma cs_nodes_push_fresh t l : cs_nodes (cs_push_nodes (tree_changeset t) l) = l.
Proof.
  unfold cs_nodes, cs_push_nodes, tree_changeset. cbn [cs_rnodes].
  rewrite !rev_append_rev, !app_nil_r. apply rev_involutive.
Qed.

(* R1 + R2 together: the writer's own block-only proof, completed with the writer's block, is
   accepted by a replica that stores (a node with) the writer's hash where the climb ends *)
Theorem block_only_end_to_end cr T t tf rt rtf i nodes v pk vp :
  unflushed_indexed t ->
  (forall j n, required_node t tf j = Ok n -> n = T j) ->
  create_valueless_proof t tf (Some (mkReqBlock i nodes)) None None None = Ok vp ->
  consistent_path cr T (N.to_nat nodes) (it_new (2 * i)) ->
  T (2 * i) = block_node cr (2 * i) v ->
  (forall ns, vp_block vp = Some (mkDataHash i ns) -> len v + lens ns <= u64_max) ->
  (exists n, required_node rt rtf (it_index (it_up_n (N.to_nat nodes) (it_new (2 * i)))) = Ok n /\
             n_hash n = n_hash (T (it_index (it_up_n (N.to_nat nodes) (it_new (2 * i)))))) ->
  exists ns cs,
    vp = mkVproof (t_fork t) (Some (mkDataHash i ns)) None None None /\
    length ns = N.to_nat nodes /\
    verify_proof cr rt rtf (mkProof (vp_fork vp) (Some (mkDataBlock i v ns)) None None None) pk = Ok cs /\
    cs_upgraded cs = false /\ commitable rt cs = true /\
    (forall n, In n ns -> In n (cs_nodes cs)) /\
    In (block_node cr (2 * i) v) (cs_nodes cs) /\
    Forall (fun n => n = T (n_index n)) ns.
Proof.
  intros U HT Hc Hp HT0 Hs Hst.
  apply block_only_proof_shape in Hc.
  destruct Hc as (ns & -> & HL & HF & _ & _ & _ & Fi & _).
  cbn [vp_block vp_fork] in *. specialize (Hs ns eq_refl).
  assert (HF' : Forall2 (fun idx n => n_index n = idx) (sib_indices (length ns) (it_new (2 * i))) ns).
  { rewrite HL. clear -HF U. induction HF as [|idx n li ln Hr HF IH]; constructor; [|exact IH].
    apply (required_node_index _ _ _ _ U Hr). }
  assert (Hn : Forall (fun n => n = T (n_index n)) ns).
  { clear -HF U HT. induction HF as [|idx n li ln Hr HF IH]; constructor; [|exact IH].
    rewrite (required_node_index _ _ _ _ U Hr). apply (HT _ _ Hr). }
  rewrite <- HL in Hp, Hst.
  assert (Hi : i * 2 <= u64_max) by (unfold fits_u64 in Fi; lia).
  destruct (block_only_accepted cr T rt rtf (t_fork t) i v ns pk Hp HT0 Hn HF' Hi Hs)
    as (r & visited & E & _ & _ & _ & Hv).
  { intros ri ->. exact Hst. }
  exists ns, (cs_push_nodes (tree_changeset rt) visited).
  split; [reflexivity|]. split; [exact HL|]. split; [exact Hv|].
  destruct (verify_proof_commitable_block_only cr _ _ _ _ _ _ _ _ Hv) as (C1 & _ & _ & _ & _ & C2 & _).
  split; [exact C1|]. split; [exact C2|].
  rewrite cs_nodes_push_fresh.
  destruct (climb_ref_visited cr ns (it_new (2 * i)) (block_node cr (2 * i) v) [block_node cr (2 * i) v])
    as (ext & E1 & _ & E2).
  rewrite <- E in E1. cbn [snd] in E1. subst visited.
  split; [|split; [|exact Hn]].
  - intros n Hin. apply in_or_app. right. apply E2, Hin.
  - apply in_or_app. left. left. reflexivity.
Qed.

(* ====================================================================================== *)
(* R3. the replica's missing-node count                                                    *)
(* ====================================================================================== *)

(* missing_loop climbs (with it_parent) while the node is absent and the span misses the head *)
Lemma missing_loop_inv fuel : forall t tf it head count k,
  missing_loop fuel t tf it head count = Ok k ->
  exists m, k = count + N.of_nat m /\ (m < fuel)%nat /\
    (forall j, (j < m)%nat -> it_contains (it_up j it) head = false /\
                               optional_node t tf (it_index (it_up j it)) = Ok None) /\
    (it_contains (it_up m it) head = true \/
     (it_contains (it_up m it) head = false /\
      exists n, optional_node t tf (it_index (it_up m it)) = Ok (Some n))).
Proof.
  induction fuel as [|f IH]; intros t tf it head count k H; [discriminate H|].
  cbn [missing_loop] in H. destruct (it_contains it head) eqn:Ec.
  - injection H as <-. exists 0%nat. cbn [it_up].
    split; [lia|]. split; [lia|]. split; [intros j Hj; lia | left; exact Ec].
  - apply bind_ok in H. destruct H as ([n|] & Ho & H).
    + injection H as <-. exists 0%nat. cbn [it_up].
      split; [lia|]. split; [lia|]. split; [intros j Hj; lia|].
      right. split; [exact Ec|]. exists n. exact Ho.
    + apply IH in H. destruct H as (m & -> & Hm & Hj & Hend).
      exists (S m). cbn [it_up]. split; [lia|]. split; [lia|]. split; [|exact Hend].
      intros j Hlt. destruct j as [|j]; cbn [it_up]; [auto|]. apply Hj. lia.
Qed.

(* the count returned for a block below the replica's length: the replica holds nothing on the
   first k levels above the block, and at level k either the span reaches the replica's head or
   the replica stores the node.  Levels are those of the prover / verifier climb (it_up_n). *)
Theorem missing_nodes_gives_stored_root rt rtf i k :
  missing_nodes rt rtf (2 * i) = Ok k ->
  2 * i < 2 * t_length rt ->
  let itk := it_up_n (N.to_nat k) (it_new (2 * i)) in
  (N.to_nat k < CLIMB)%nat /\
  (forall j, (j < N.to_nat k)%nat ->
     it_contains (it_up_n j (it_new (2 * i))) (2 * t_length rt) = false /\
     optional_node rt rtf (it_index (it_up_n j (it_new (2 * i)))) = Ok None) /\
  (it_contains itk (2 * t_length rt) = true \/
   (it_contains itk (2 * t_length rt) = false /\
    exists n, optional_node rt rtf (it_index itk) = Ok (Some n))).
Proof.
  unfold missing_nodes. intros H Hlt.
  assert (E : it_right_span_index (it_new (2 * i)) = 2 * i).
  { unfold it_right_span_index, it_new.
    replace (N.odd (2 * i)) with false by (rewrite FlatTreeFacts.odd_mod; lia).
    cbn [it_index it_factor]. lia. }
  rewrite E in H. destruct (2 * t_length rt <=? 2 * i) eqn:E1; [lia|].
  apply missing_loop_inv in H. destruct H as (m & -> & Hm & Hj & Hend).
  cbv zeta. replace (N.to_nat (0 + N.of_nat m)) with m by lia.
  assert (Eup : forall j, it_up j (it_new (2 * i)) = it_up_n j (it_new (2 * i)))
    by (intros j; apply it_up_up_n, wf_new).
  split; [exact Hm|]. split.
  - intros j Hlj. rewrite <- Eup. apply Hj, Hlj.
  - rewrite <- Eup. exact Hend.
Qed.

Lemma wf_up j : forall it, wf it -> wf (it_up j it).
Proof. induction j as [|j IH]; intros it H; cbn [it_up]; [exact H|]. apply IH, wf_parent, H. Qed.

Lemma inspan_up j : forall it x, wf it -> inspan it x -> inspan (it_up j it) x.
Proof.
  induction j as [|j IH]; intros it x H Hs; cbn [it_up]; [exact Hs|].
  apply IH; [apply wf_parent, H | apply inspan_parent; assumption].
Qed.

(* a span that holds x but not head, with x < head, lies entirely below head *)
Lemma span_below (it : fiter) (x head head' : N) :
  wf it -> inspan it x -> x < head -> head <= head' ->
  it_contains it head = false -> it_contains it head' = false.
Proof.
  intros H Hs Hx Hh Hc.
  destruct (it_contains it head') eqn:E; [|reflexivity]. exfalso.
  apply (it_contains_spec it head' H) in E.
  assert (N : ~ (lo it <= head /\ head <= hi it)).
  { intros C. apply (it_contains_spec it head H) in C. congruence. }
  unfold inspan in Hs. unfold lo, hi, it_half in *.
  destruct H as (h & Hf & Hh0 & _). rewrite Hf in *. replace (2 * h / 2) with h in * by lia. lia.
Qed.

(* R3, continued: in the stored-node case the count is a well-formed node count for the writer:
   the prover's nodes_to_root (with the writer's head, the writer being at least as long as the
   replica) succeeds and ends exactly at the index of the node the replica stores *)
Theorem missing_nodes_request_wellformed rt rtf i k L :
  missing_nodes rt rtf (2 * i) = Ok k ->
  2 * i < 2 * t_length rt -> t_length rt <= L ->
  it_contains (it_up_n (N.to_nat k) (it_new (2 * i))) (2 * t_length rt) = false ->
  nodes_to_root (2 * i) k (2 * L) = Ok (it_index (it_up_n (N.to_nat k) (it_new (2 * i)))) /\
  exists n, optional_node rt rtf (it_index (it_up_n (N.to_nat k) (it_new (2 * i)))) = Ok (Some n).
Proof.
  intros H Hlt HL Hnc.
  destruct (missing_nodes_gives_stored_root rt rtf i k H Hlt) as (Hf & Hj & Hend). cbv zeta in Hend.
  destruct Hend as [Hend|[_ Hend]]; [congruence|]. split; [|exact Hend].
  assert (Eup : forall j, it_up j (it_new (2 * i)) = it_up_n j (it_new (2 * i)))
    by (intros j; apply it_up_up_n, wf_new).
  unfold nodes_to_root. rewrite <- Eup. apply nodes_to_root_loop_ok; [exact Hf|].
  intros j Hjr.
  apply (span_below _ (2 * i) (2 * t_length rt) (2 * L)).
  - apply wf_up, wf_new.
  - apply inspan_up; [apply wf_new | apply inspan_new].
  - exact Hlt.
  - lia.
  - rewrite Eup. destruct (Nat.eq_dec j (N.to_nat k)) as [->|Hne]; [exact Hnc|].
    apply Hj. lia.
Qed.

(* ====================================================================================== *)
(* R4. upgrade-only proofs for an empty replica                                            *)
(* ====================================================================================== *)

(* ---------- the full-root iteration shared by prover and verifier ---------- *)

(* the loop of it_full_root, started on the tree of half-width h whose leftmost leaf is x, grows it
   while it still fits below [to]: it ends on a tree that fits and whose double does not *)
Lemma it_full_root_loop_spec (to : N) fuel : forall it x h,
  it_index it = x + h - 1 -> it_factor it = 2 * h -> 0 < h -> x + 2 * h <= to ->
  to < 2 * h * 2 ^ N.of_nat fuel ->
  exists h', h <= h' /\ it_index (it_full_root_loop fuel it to) = x + h' - 1 /\
    it_factor (it_full_root_loop fuel it to) = 2 * h' /\ x + 2 * h' <= to /\ to < x + 4 * h'.
Proof.
  induction fuel as [|f IH]; intros it x h Hi Hf Hh Hfit Hfuel.
  { cbn [N.of_nat] in Hfuel. rewrite N.pow_0_r in Hfuel. lia. }
  cbn [it_full_root_loop]. rewrite Hi, Hf. replace (2 * h / 2) with h by lia.
  destruct (x + h - 1 + 2 * h + h <? to) eqn:E.
  - destruct (IH (mkIter (x + h - 1 + h) (it_offset it / 2) (2 * h * 2)) x (2 * h)) as (h' & H1 & H2 & H3 & H4 & H5);
      cbn [it_index it_factor]; try lia.
    { rewrite Nat2N.inj_succ, N.pow_succ_r' in Hfuel. lia. }
    exists h'. repeat split; try assumption. lia.
  - exists h. repeat split; try lia; try assumption.
Qed.

Lemma it_full_root_tree (x to : N) found it' :
  x mod 2 = 0 -> to mod 2 = 0 ->
  it_full_root (mkIter x (x / 2) 2) to = (found, it') ->
  (found = false /\ to <= x) \/
  (found = true /\ x < to /\ exists h, 0 < h /\ it_index it' = x + h - 1 /\ it_factor it' = 2 * h /\
                                      x + 2 * h <= to /\ to < x + 4 * h).
Proof.
  intros Hx Ht. unfold it_full_root. cbn [it_index].
  replace (N.odd x) with false by (rewrite FlatTreeFacts.odd_mod; lia). rewrite orb_false_r.
  destruct (to <=? x) eqn:E.
  - intros [= <- <-]. left. split; [reflexivity | lia].
  - intros [= <- <-]. right. split; [reflexivity|]. split; [lia|].
    destruct (it_full_root_loop_spec to (N.size_nat to) (mkIter x (x / 2) 2) x 1) as (h' & H1 & H2 & H3 & H4 & H5);
      cbn [it_index it_factor]; try lia.
    { pose proof (size_nat_spec to). lia. }
    exists h'. repeat split; try assumption. lia.
Qed.

Section UpgradeOnly.
  Variable cr : crypto.

  (* append_root when the new root is not the sibling of the last one: no merge *)
  Lemma append_root_no_merge c n it :
    cs_byte_length c + n_length n <= u64_max ->
    match rev (cs_roots c) with b :: _ => it_index (it_sibling it) <> n_index b | [] => True end ->
    append_root cr c n it =
    Ok (mkCs (cs_length c + it_factor it / 2) (cs_ancestors c) (cs_byte_length c + n_length n)
             (cs_batch_length c) (cs_fork c) (cs_roots c ++ [n]) (n :: cs_rnodes c) (cs_hash c)
             (cs_signature c) true (cs_orig_length c) (cs_orig_fork c), it).
  Proof.
    intros Hb Hs. unfold append_root. rewrite NoPanic.add64_ok by exact Hb. cbn [bind].
    rewrite merge_stop by exact Hs. cbn [bind rev]. rewrite rev_involutive. reflexivity.
  Qed.

  (* state of the verifier's changeset when the iteration stands at leaf x: x/2 blocks are covered,
     all roots lie left of x, and the last root is a tree ending at x whose double did not fit *)
  Definition uinv (x to : N) (c : changeset) : Prop :=
    2 * cs_length c = x /\
    Forall (fun r => n_index r < x) (cs_roots c) /\
    match rev (cs_roots c) with
    | [] => True
    | b :: _ => exists hp, n_index b + hp + 1 = x /\ 2 * hp <= x /\ to < x + 2 * hp
    end.

  (* prover and verifier in lockstep over the full roots of [to] *)
  Lemma upgrade_lockstep (t : mtree) (tf : file) (to : N) :
    unflushed_indexed t -> to mod 2 = 0 ->
    forall fuel x acc p' acc' has',
    x mod 2 = 0 -> x <= to ->
    upgrade_loop fuel t tf (mkIter x (x / 2) 2) 0 to None false to true true lp_empty acc
      = Ok (p', acc', has') ->
    exists sent, acc' = acc ++ sent /\ p' = lp_empty /\ has' = true /\ (x < to -> sent <> []) /\
      forall c, uinv x to c -> cs_byte_length c + lens sent <= u64_max ->
        exists c' it',
          upgrade_roots_loop cr fuel c (mkQ sent None) (mkIter x (x / 2) 2) to 0 false
            = Ok (c', mkQ [] None, it') /\
          2 * cs_length c' = to /\ cs_roots c' = cs_roots c ++ sent /\
          cs_byte_length c' = cs_byte_length c + lens sent /\
          cs_rnodes c' = rev sent ++ cs_rnodes c /\
          cs_ancestors c' = cs_ancestors c /\ cs_batch_length c' = cs_batch_length c /\
          cs_fork c' = cs_fork c /\ cs_hash c' = cs_hash c /\ cs_signature c' = cs_signature c /\
          cs_upgraded c' = (match sent with [] => cs_upgraded c | _ => true end) /\
          cs_orig_length c' = cs_orig_length c /\ cs_orig_fork c' = cs_orig_fork c.
  Proof.
    intros U Hto. induction fuel as [|f IH]; intros x acc p' acc' has' Hx Hle H; [discriminate H|].
    cbn [upgrade_loop] in H.
    destruct (it_full_root (mkIter x (x / 2) 2) to) as [found it1] eqn:Efr.
    destruct (it_full_root_tree x to found it1 Hx Hto Efr) as [(-> & Hge)|(-> & Hlt & h & Hh & Hi & Hf & Hfit & Hstop)].
    - (* no further root *)
      cbn [negb] in H. injection H as <- <- <-.
      exists []. rewrite app_nil_r. split; [reflexivity|]. split; [reflexivity|]. split; [reflexivity|].
      split; [lia|]. intros c (I1 & I2 & I3) _.
      exists c, it1. cbn [upgrade_roots_loop]. rewrite Efr. cbn [negb].
      split; [reflexivity|]. unfold lens. cbn [map sumN rev app]. rewrite app_nil_r.
      repeat split; lia.
    - (* a root of half-width h starting at x *)
      cbn [negb] in H.
      destruct (it_index it1 + it_factor it1 / 2 <? 0) eqn:E0; [lia|].
      cbn [negb andb lp_nodes lp_seek lp_empty] in H.
      assert (Ec : it_contains it1 to = false).
      { unfold it_contains. rewrite Hi, Hf. replace (2 * h / 2) with h by lia.
        destruct (x + h - 1 <? to) eqn:E1; lia. }
      rewrite Ec in H. apply bind_ok in H. destruct H as (n & Hn & H).
      assert (Ent : it_next_tree it1 = mkIter (x + 2 * h) ((x + 2 * h) / 2) 2).
      { unfold it_next_tree. rewrite Hi, Hf. replace (2 * h / 2) with h by lia.
        replace (x + h - 1 + h + 1) with (x + 2 * h) by lia. reflexivity. }
      rewrite Ent in H. apply IH in H; [|lia|lia].
      destruct H as (sent & -> & -> & -> & _ & Hver).
      exists (n :: sent). rewrite <- app_assoc. split; [reflexivity|]. split; [reflexivity|].
      split; [reflexivity|]. split; [discriminate|].
      intros c (I1 & I2 & I3) Hbl. rewrite lens_cons in Hbl.
      pose proof (required_node_index _ _ _ _ U Hn) as Hni.
      (* the verifier's step *)
      assert (Hstep : ('(n0, q') <- q_shift (mkQ (n :: sent) None) (it_index it1) ;;
                       '(c', it') <- append_root cr c n0 it1 ;;
                       upgrade_roots_loop cr f c' q' (it_next_tree it') to 0 false) =
                      upgrade_roots_loop cr f
                        (mkCs (cs_length c + h) (cs_ancestors c) (cs_byte_length c + n_length n)
                              (cs_batch_length c) (cs_fork c) (cs_roots c ++ [n]) (n :: cs_rnodes c)
                              (cs_hash c) (cs_signature c) true (cs_orig_length c) (cs_orig_fork c))
                        (mkQ sent None) (mkIter (x + 2 * h) ((x + 2 * h) / 2) 2) to 0 false).
      { unfold q_shift. cbn [q_extra q_nodes]. rewrite Hni, N.eqb_refl. cbn [bind].
        rewrite append_root_no_merge.
        - cbn [bind]. rewrite Ent, Hf. replace (2 * h / 2) with h by lia. reflexivity.
        - lia.
        - destruct (rev (cs_roots c)) as [|b rest]; [exact I|].
          destruct I3 as (hp & P1 & P2 & P3).
          unfold it_sibling, it_next, it_prev. destruct (N.even (it_offset it1)); cbn [it_index].
          + lia.
          + destruct (it_offset it1 =? 0); cbn [it_index]; lia. }
      set (c1 := mkCs (cs_length c + h) (cs_ancestors c) (cs_byte_length c + n_length n)
                      (cs_batch_length c) (cs_fork c) (cs_roots c ++ [n]) (n :: cs_rnodes c)
                      (cs_hash c) (cs_signature c) true (cs_orig_length c) (cs_orig_fork c)) in *.
      destruct (Hver c1) as (c' & it' & Hrun & F1 & F2 & F3 & F4 & F5 & F6 & F7 & F8 & F9 & F10 & F11 & F12).
      { unfold uinv, c1. cbn [cs_length cs_roots]. split; [lia|]. split.
        - apply Forall_app. split.
          + eapply Forall_impl; [|exact I2]. cbn beta. intros r Hr. lia.
          + constructor; [lia | constructor].
        - rewrite rev_app_distr. cbn [rev app]. exists h. lia. }
      { unfold c1. cbn [cs_byte_length]. lia. }
      exists c', it'. split.
      { cbn [upgrade_roots_loop]. rewrite Efr. cbn [negb].
        destruct (cs_roots c) as [|r0 rs] eqn:Er; cbn [nth_error].
        - exact (eq_trans Hstep Hrun).
        - inversion I2 as [|? ? Hr0 _]; subst.
          destruct (n_index r0 =? it_index it1) eqn:E1; [lia|].
          exact (eq_trans Hstep Hrun). }
      unfold c1 in F2, F3, F4, F5, F6, F7, F8, F9, F10, F11, F12.
      cbn [cs_length cs_ancestors cs_byte_length cs_batch_length cs_fork cs_roots cs_rnodes cs_hash
           cs_signature cs_upgraded cs_orig_length cs_orig_fork] in *.
      split; [exact F1|]. split; [rewrite F2, <- app_assoc; reflexivity|].
      split; [rewrite F3, lens_cons; lia|].
      split; [rewrite F4; cbn [rev]; rewrite <- app_assoc; reflexivity|].
      repeat split; try assumption.
      rewrite F10. destruct sent; reflexivity.
  Qed.

  (* goal-side unfoldings (see the remark on CLIMB above) *)
  Lemma upgrade_proof_inv t tf ix is_seek from to sub_tree p p1 :
    upgrade_proof t tf ix is_seek from to sub_tree p = Ok p1 ->
    exists p' acc has,
      upgrade_loop CLIMB t tf (it_new 0) from to ix is_seek sub_tree true (from =? 0) p [] = Ok (p', acc, has) /\
      p1 = if has then mkLp (lp_seek p') (lp_nodes p') (Some acc) (lp_additional p') else p'.
  Proof.
    unfold upgrade_proof. intros H. apply bind_ok in H. destruct H as ([[p' acc] has] & H1 & H).
    injection H as <-. eauto.
  Qed.

  (* shape of the writer's upgrade-only proof for the whole log *)
  Theorem upgrade_only_proof_shape t tf vp :
    unflushed_indexed t ->
    create_valueless_proof t tf None None None (Some (mkReqUpgrade 0 (t_length t))) = Ok vp ->
    exists roots sg p' has,
      vp = mkVproof (t_fork t) None None None (Some (mkDataUpgrade 0 (t_length t) roots [] sg)) /\
      t_signature t = Some sg /\ 0 < t_length t /\ t_length t * 2 <= u64_max /\
      upgrade_loop CLIMB t tf (mkIter 0 (0 / 2) 2) 0 (2 * t_length t) None false (2 * t_length t)
                   true true lp_empty [] = Ok (p', roots, has).
  Proof.
    intros U. unfold create_valueless_proof, normalize_indexed, mul64, add64. cbn [bind ru_start ru_length].
    change (fits_u64 (0 * 2)) with true. cbn [bind].
    destruct (fits_u64 (t_length t * 2)) eqn:F1; [|discriminate]. cbn [bind].
    destruct (fits_u64 (0 * 2 + t_length t * 2)) eqn:F2; [|discriminate]. cbn [bind].
    replace (0 * 2 + t_length t * 2) with (2 * t_length t) by lia.
    change (0 * 2) with 0.
    destruct ((2 * t_length t <=? 0) || (2 * t_length t <? 2 * t_length t)) eqn:E0; [discriminate|].
    cbn [negb bind].
    destruct (2 * t_length t <? 2 * t_length t) eqn:E1; [lia|].
    intros H. apply bind_ok in H. destruct H as (p & Hp & H).
    apply bind_ok in Hp. destruct Hp as (p1 & H1 & Hp). injection Hp as <-.
    apply upgrade_proof_inv in H1. destruct H1 as (p' & acc & has & Hloop & ->).
    change (0 =? 0) with true in Hloop. change (it_new 0) with (mkIter 0 (0 / 2) 2) in Hloop.
    pose proof Hloop as Hloop0.
    apply (upgrade_lockstep t tf (2 * t_length t) U) in Hloop; [|lia|reflexivity|lia].
    destruct Hloop as (sent & Eacc & -> & -> & _). cbn [app] in Eacc. subst acc.
    cbn [bind lp_nodes lp_seek lp_upgrade lp_additional lp_empty] in H.
    destruct (t_signature t) as [sg|] eqn:Es; [|discriminate H]. cbn [bind] in H. injection H as <-.
    exists sent, sg, lp_empty, true. split; [reflexivity|]. split; [reflexivity|].
    apply orb_false_iff in E0. unfold fits_u64 in F1. repeat split; try lia. exact Hloop0.
  Qed.

  (* the verifier accepts it on an empty replica, with exactly the roots sent *)
  Theorem upgrade_only_accepted t tf rt rtf pk vp :
    unflushed_indexed t ->
    create_valueless_proof t tf None None None (Some (mkReqUpgrade 0 (t_length t))) = Ok vp ->
    t_roots rt = [] -> t_length rt = 0 ->
    exists roots sg,
      vp = mkVproof (t_fork t) None None None (Some (mkDataUpgrade 0 (t_length t) roots [] sg)) /\
      t_signature t = Some sg /\ roots <> [] /\
      Forall (from_writer t tf) roots /\
      (t_byte_length rt + lens roots <= u64_max ->
       length sg = 64%nat ->
       cr_verify cr pk (signable (tree_hash cr roots) (t_length t) (t_fork t)) sg = true ->
       exists cs,
         verify_proof cr rt rtf
           (mkProof (t_fork t) None None None (Some (mkDataUpgrade 0 (t_length t) roots [] sg))) pk = Ok cs /\
         cs_roots cs = roots /\ cs_length cs = t_length t /\ cs_fork cs = t_fork t /\
         cs_byte_length cs = t_byte_length rt + lens roots /\
         cs_upgraded cs = true /\ cs_signature cs = Some sg /\
         cs_hash cs = Some (tree_hash cr roots) /\ cs_nodes cs = roots /\
         cs_ancestors cs = 0 /\ commitable rt cs = true).
  Proof.
    intros U Hc Hr Hl.
    pose proof (create_proof_no_fabrication _ _ _ _ _ _ _ Hc) as ((_ & _ & _ & NF) & _).
    destruct (upgrade_only_proof_shape t tf vp U Hc) as (roots & sg & p' & has & -> & Hsg & HL & HL64 & Hloop).
    cbn [vp_upgrade] in NF. destruct (NF _ eq_refl) as [NF1 _]. cbn [du_nodes] in NF1.
    apply (upgrade_lockstep t tf (2 * t_length t) U) in Hloop; [|lia|reflexivity|lia].
    destruct Hloop as (sent & Eacc & _ & _ & Hne & Hver). cbn [app] in Eacc. subst sent.
    exists roots, sg. split; [reflexivity|]. split; [exact Hsg|]. split; [apply Hne; lia|].
    split; [exact NF1|]. intros Hbl Hs64 Hsig.
    destruct (Hver (tree_changeset rt)) as (c' & it' & Hrun & F1 & F2 & F3 & F4 & F5 & F6 & F7 & F8 & F9 & F10 & F11 & F12).
    { unfold uinv, tree_changeset. cbn [cs_length cs_roots]. rewrite Hl, Hr. cbn [rev].
      split; [reflexivity|]. split; [constructor | exact I]. }
    { exact Hbl. }
    cbn [tree_changeset cs_length cs_ancestors cs_byte_length cs_batch_length cs_fork cs_roots cs_rnodes
         cs_hash cs_signature cs_upgraded cs_orig_length cs_orig_fork] in F2, F3, F4, F5, F6, F7, F8, F9, F10, F11, F12.
    rewrite Hr in F2. cbn [app] in F2. rewrite app_nil_r in F4.
    destruct roots as [|r0 rs] eqn:Eroots; [exfalso; apply Hne; [lia | reflexivity]|].
    rewrite <- Eroots in *.
    assert (Hlast : exists b rest, rev (cs_roots c') = b :: rest).
    { rewrite F2, Eroots. cbn [rev]. destruct (rev rs) as [|b rest]; cbn [app]; eauto. }
    destruct Hlast as (b & rest & Hlast).
    set (c4 := cs_set_hash_sig (cs_set_fork c' (t_fork t)) (tree_hash cr roots) sg).
    assert (Hvu : verify_upgrade cr (t_fork t) (mkDataUpgrade 0 (t_length t) roots [] sg) None pk
                    (tree_changeset rt) = Ok (true, c4)).
    { unfold verify_upgrade. cbn [du_nodes du_start du_length du_additional du_signature tree_changeset cs_roots].
      rewrite Hr. rewrite NoPanic.add64_ok by lia. cbn [bind].
      rewrite NoPanic.mul64_ok by lia. cbn [bind].
      replace (2 * (0 + t_length t)) with (2 * t_length t) by lia.
      change (it_new 0) with (mkIter 0 (0 / 2) 2).
      rewrite Hrun. cbn [bind].
      unfold last_root_index. rewrite Hlast. cbn [bind extra_siblings extra_rest q_extra].
      unfold cs_verify_and_set_signature, parse_signature. rewrite Hs64. cbn [Nat.eqb bind].
      change (Nat.eqb 64 64) with true. cbn [bind].
      unfold cs_signable, cs_tree_hash. cbn [cs_set_fork cs_length cs_fork cs_roots].
      rewrite F2. replace (cs_length c') with (t_length t) by lia.
      rewrite Hsig. reflexivity. }
    exists c4. split.
    { unfold verify_proof. cbn [p_block p_hash p_seek p_upgrade p_fork verify_tree bind].
      rewrite Hvu. cbn [bind]. reflexivity. }
    unfold c4. cbn [cs_set_hash_sig cs_set_fork cs_roots cs_length cs_fork cs_byte_length cs_upgraded
                    cs_signature cs_hash cs_ancestors].
    split; [exact F2|]. split; [lia|]. split; [reflexivity|]. split; [exact F3|].
    split; [exact F10|]. split; [reflexivity|]. split; [reflexivity|].
    split.
    { unfold cs_nodes. cbn [cs_set_hash_sig cs_set_fork cs_rnodes]. rewrite F4, rev_append_rev, app_nil_r. apply rev_involutive. }
    split; [rewrite F5; exact Hl|].
    unfold commitable. cbn [cs_set_hash_sig cs_set_fork cs_orig_fork cs_orig_length cs_upgraded].
    rewrite F12, F11, F10, !N.eqb_refl. reflexivity.
  Qed.
End UpgradeOnly.

(* ---------- R4, continued: the roots sent are the writer's nodes at ft_full_roots ---------- *)

Lemma it_full_root_loop_pow2 (to : N) fuel : forall it k,
  it_factor it = 2 * 2 ^ k -> exists k', it_factor (it_full_root_loop fuel it to) = 2 * 2 ^ k'.
Proof.
  induction fuel as [|f IH]; intros it k Hf; cbn [it_full_root_loop]; [eauto|].
  destruct (it_index it + it_factor it + it_factor it / 2 <? to); [|eauto].
  apply (IH _ (k + 1)). cbn [it_factor]. rewrite Hf, FlatTreeFacts.pow2_succ. lia.
Qed.

Lemma it_full_root_pow2 (x to : N) it' :
  it_full_root (mkIter x (x / 2) 2) to = (true, it') -> exists k, it_factor it' = 2 * 2 ^ k.
Proof.
  unfold it_full_root. destruct ((to <=? it_index (mkIter x (x / 2) 2)) || N.odd (it_index (mkIter x (x / 2) 2)));
    [discriminate|].
  intros [= <-]. apply (it_full_root_loop_pow2 to _ _ 0). cbn [it_factor]. rewrite N.pow_0_r. lia.
Qed.

(* the upgrade loop of an upgrade-only request emits the writer's nodes at the indices computed by
   flat-tree's full_roots (any sufficient fuel g) *)
Lemma upgrade_loop_full_roots (t : mtree) (tf : file) (to : N) :
  to mod 2 = 0 ->
  forall fuel x acc p' acc' has',
  x mod 2 = 0 -> x <= to ->
  upgrade_loop fuel t tf (mkIter x (x / 2) 2) 0 to None false to true true lp_empty acc
    = Ok (p', acc', has') ->
  exists sent, acc' = acc ++ sent /\ p' = lp_empty /\ has' = true /\
    forall g, (to - x) / 2 < 2 ^ N.of_nat g ->
      Forall2 (fun idx n => required_node t tf idx = Ok n) (full_roots_aux g ((to - x) / 2) x) sent.
Proof.
  intros Hto. induction fuel as [|f IH]; intros x acc p' acc' has' Hx Hle H; [discriminate H|].
  cbn [upgrade_loop] in H.
  destruct (it_full_root (mkIter x (x / 2) 2) to) as [found it1] eqn:Efr.
  destruct (it_full_root_tree x to found it1 Hx Hto Efr) as [(-> & Hge)|(-> & Hlt & h & Hh & Hi & Hf & Hfit & Hstop)].
  - cbn [negb] in H. injection H as <- <- <-. exists []. rewrite app_nil_r. split; [reflexivity|].
    split; [reflexivity|]. split; [reflexivity|].
    intros g _. replace ((to - x) / 2) with 0 by lia. rewrite fra_zero. constructor.
  - cbn [negb] in H.
    destruct (it_index it1 + it_factor it1 / 2 <? 0) eqn:E0; [lia|].
    cbn [negb andb lp_nodes lp_seek lp_empty] in H.
    assert (Ec : it_contains it1 to = false).
    { unfold it_contains. rewrite Hi, Hf. replace (2 * h / 2) with h by lia.
      destruct (x + h - 1 <? to) eqn:E1; lia. }
    rewrite Ec in H. apply bind_ok in H. destruct H as (n & Hn & H).
    assert (Ent : it_next_tree it1 = mkIter (x + 2 * h) ((x + 2 * h) / 2) 2).
    { unfold it_next_tree. rewrite Hi, Hf. replace (2 * h / 2) with h by lia.
      replace (x + h - 1 + h + 1) with (x + 2 * h) by lia. reflexivity. }
    rewrite Ent in H. apply IH in H; [|lia|lia].
    destruct H as (sent & -> & -> & -> & Hall).
    exists (n :: sent). rewrite <- app_assoc. split; [reflexivity|].
    split; [reflexivity|]. split; [reflexivity|].
    intros g Hg.
    destruct (it_full_root_pow2 x to it1 Efr) as (k & Hk).
    assert (Ehk : h = 2 ^ k) by lia.
    assert (Htmp : h <= (to - x) / 2 /\ (to - x) / 2 < 2 * h) by lia.
    set (tmp := (to - x) / 2) in *.
    assert (Elog : N.log2 tmp = k).
    { apply (N.log2_unique' tmp k (tmp - 2 ^ k)); lia. }
    destruct g as [|g'].
    { cbn [N.of_nat] in Hg. rewrite N.pow_0_r in Hg. lia. }
    rewrite fra_step by lia. rewrite Elog, <- Ehk.
    replace (x + h - 1) with (it_index it1) by lia.
    constructor; [exact Hn|].
    replace (tmp - h) with ((to - (x + 2 * h)) / 2) by (unfold tmp; lia).
    apply Hall.
    (* fuel: h = 2^k <= tmp < 2^(S g') gives k <= g', hence tmp - h < h <= 2^g' *)
    assert (Hkg : k < N.of_nat (S g')).
    { apply (N.pow_lt_mono_r_iff 2); [lia|]. lia. }
    assert (Hkg' : 2 ^ k <= 2 ^ N.of_nat g') by (apply N.pow_le_mono_r; lia).
    lia.
Qed.

(* for the whole log: the upgrade nodes are the writer's nodes at ft_full_roots (2 * length) *)
Theorem upgrade_only_roots_are_full_roots t tf vp :
  create_valueless_proof t tf None None None (Some (mkReqUpgrade 0 (t_length t))) = Ok vp ->
  exists u, vp_upgrade vp = Some u /\
    Forall2 (fun idx n => required_node t tf idx = Ok n) (ft_full_roots (2 * t_length t)) (du_nodes u) /\
    (unflushed_indexed t -> map n_index (du_nodes u) = ft_full_roots (2 * t_length t)).
Proof.
  unfold create_valueless_proof, normalize_indexed, mul64, add64. cbn [bind ru_start ru_length].
  change (fits_u64 (0 * 2)) with true. cbn [bind].
  destruct (fits_u64 (t_length t * 2)) eqn:F1; [|discriminate]. cbn [bind].
  destruct (fits_u64 (0 * 2 + t_length t * 2)) eqn:F2; [|discriminate]. cbn [bind].
  replace (0 * 2 + t_length t * 2) with (2 * t_length t) by lia.
  change (0 * 2) with 0.
  destruct ((2 * t_length t <=? 0) || (2 * t_length t <? 2 * t_length t)) eqn:E0; [discriminate|].
  cbn [negb bind].
  destruct (2 * t_length t <? 2 * t_length t) eqn:E1; [lia|].
  intros H. apply bind_ok in H. destruct H as (p & Hp & H).
  apply bind_ok in Hp. destruct Hp as (p1 & H1 & Hp). injection Hp as <-.
  apply upgrade_proof_inv in H1. destruct H1 as (p' & acc & has & Hloop & ->).
  change (0 =? 0) with true in Hloop. change (it_new 0) with (mkIter 0 (0 / 2) 2) in Hloop.
  pose proof Hloop as Hloop0.
  apply (upgrade_loop_full_roots t tf (2 * t_length t)) in Hloop; [|lia|reflexivity|lia].
  destruct Hloop as (sent & Eacc & -> & -> & Hall). cbn [app] in Eacc. subst acc.
  cbn [bind lp_nodes lp_seek lp_upgrade lp_additional lp_empty] in H.
  destruct (t_signature t) as [sg|] eqn:Es; [|discriminate H]. cbn [bind] in H. injection H as <-.
  cbn [vp_upgrade]. eexists. split; [reflexivity|]. cbn [du_nodes].
  assert (HF : Forall2 (fun idx n => required_node t tf idx = Ok n) (ft_full_roots (2 * t_length t)) sent).
  { unfold ft_full_roots. replace (2 * t_length t / 2) with (t_length t) by lia.
    specialize (Hall (N.size_nat (t_length t))).
    replace ((2 * t_length t - 0) / 2) with (t_length t) in Hall by lia.
    apply Hall, size_nat_spec. }
  split; [exact HF|]. intros U. clear -HF U.
  induction HF as [|idx n li ln Hr HF IH]; cbn [map]; [reflexivity|].
  rewrite IH. f_equal. apply (required_node_index _ _ _ _ U Hr).
Qed.

(* R3, the other case: when the climb of missing_nodes stopped because the span reached the
   replica's head, a writer of the same length refuses the request (no proof is fabricated) *)
Lemma nodes_to_root_loop_err fuel : forall it rem head,
  (N.to_nat rem < fuel)%nat ->
  (exists j, (0 < j <= N.to_nat rem)%nat /\ it_contains (it_up j it) head = true) ->
  nodes_to_root_loop fuel it rem head = Err InvalidOperation.
Proof.
  induction fuel as [|f IH]; intros it rem head Hf (j & Hj & Hc); [lia|].
  cbn [nodes_to_root_loop]. destruct (rem =? 0) eqn:E; [lia|].
  destruct (it_contains (it_parent it) head) eqn:Ec; [reflexivity|].
  apply IH; [lia|]. destruct j as [|j]; [lia|]. cbn [it_up] in Hc.
  destruct j as [|j]; [cbn [it_up] in Hc; congruence|].
  exists (S j). split; [lia | exact Hc].
Qed.

Theorem missing_nodes_head_case_rejected rt rtf i k :
  missing_nodes rt rtf (2 * i) = Ok k ->
  2 * i < 2 * t_length rt ->
  it_contains (it_up_n (N.to_nat k) (it_new (2 * i))) (2 * t_length rt) = true ->
  nodes_to_root (2 * i) k (2 * t_length rt) = Err InvalidOperation.
Proof.
  intros H Hlt Hc.
  destruct (missing_nodes_gives_stored_root rt rtf i k H Hlt) as (Hf & _ & _).
  unfold nodes_to_root. apply nodes_to_root_loop_err; [exact Hf|].
  exists (N.to_nat k). rewrite (it_up_up_n _ _ (wf_new _)). split; [|exact Hc].
  destruct (N.to_nat k) as [|k'] eqn:Ek; [|lia]. exfalso. cbn [it_up_n] in Hc.
  apply (it_contains_spec _ _ (wf_new _)) in Hc. unfold lo, hi, it_half, it_new in Hc.
  replace (N.odd (2 * i)) with false in Hc by (rewrite FlatTreeFacts.odd_mod; lia).
  cbn [it_index it_factor] in Hc. lia.
Qed.

(* ====================================================================================== *)
(* R2 + R3 together: a block request built from the replica's own count is served            *)
(* ====================================================================================== *)

(* block_proof_loop succeeds when the writer can read every sibling on the way *)
Lemma block_proof_loop_ok (t : mtree) (tf : file) : forall m fuel it sr p acc,
  (m < fuel)%nat -> (exists d o, it = it_at d o) ->
  (forall idx, In idx (sib_indices m it) -> exists n, required_node t tf idx = Ok n) ->
  exists sibs, block_proof_loop fuel t tf it (it_index (it_up_n m it)) false sr p acc = Ok (p, rev acc ++ sibs).
Proof.
  induction m as [|m IH]; intros fuel it sr p acc Hf Hat Hall;
    (destruct fuel as [|f]; [lia|]); cbn [block_proof_loop it_up_n andb].
  - rewrite N.eqb_refl. exists []. now rewrite app_nil_r.
  - destruct (it_index it =? it_index (it_up_n m (it_parent (it_sibling it)))) eqn:E.
    { exfalso. apply N.eqb_eq in E. apply (it_up_n_index_neq (S m) it); [lia | exact Hat | exact E]. }
    destruct (Hall (it_index (it_sibling it))) as (n & Hn); [left; reflexivity|].
    rewrite Hn. cbn [bind].
    destruct (IH f (it_parent (it_sibling it)) sr p (n :: acc)) as (sibs & Hs);
      [lia | apply it_step_is_at, Hat | intros idx Hin; apply Hall; right; exact Hin|].
    exists (n :: sibs). rewrite Hs. cbn [rev]. now rewrite <- app_assoc.
Qed.

Lemma it_new_of_at it : (exists d o, it = it_at d o) -> it_new (it_index it) = it.
Proof. intros (d & o & ->). unfold it_at at 1. cbn [it_index]. apply FlatTreeFacts.it_new_index. Qed.

Lemma it_up_n_is_at k : forall it, (exists d o, it = it_at d o) -> exists d o, it_up_n k it = it_at d o.
Proof.
  induction k as [|k IH]; intros it H; cbn [it_up_n]; [exact H|]. apply IH, it_step_is_at, H.
Qed.

(* the prover does create the proof: enough is that nodes_to_root accepts the count and that the
   writer can read the siblings (its store holds the whole tree) *)
Theorem block_only_proof_created t tf i nodes :
  i * 2 <= u64_max -> 0 < t_length t ->
  nodes_to_root (2 * i) nodes (2 * t_length t)
    = Ok (it_index (it_up_n (N.to_nat nodes) (it_new (2 * i)))) ->
  (N.to_nat nodes < CLIMB)%nat ->
  (forall idx, In idx (sib_indices (N.to_nat nodes) (it_new (2 * i))) ->
     exists n, required_node t tf idx = Ok n) ->
  exists vp, create_valueless_proof t tf (Some (mkReqBlock i nodes)) None None None = Ok vp.
Proof.
  intros Hi HL Hroot Hfuel Hall.
  unfold create_valueless_proof, normalize_indexed. cbn [bind rb_index rb_nodes].
  rewrite NoPanic.mul64_ok by exact Hi. cbn [bind].
  destruct ((2 * t_length t <=? 0) || (2 * t_length t <? 2 * t_length t)) eqn:E0.
  { apply orb_true_iff in E0. lia. }
  cbn [andb ix_index ix_nodes ix_value ix_last]. rewrite (N.mul_comm i 2), Hroot. cbn [bind].
  set (root := it_index (it_up_n (N.to_nat nodes) (it_new (2 * i)))).
  assert (Hbs : exists sibs,
             block_and_seek_proof t tf (Some (mkIndexed true (2 * i) nodes i)) false (2 * t_length t) root lp_empty
             = Ok (mkLp None (Some sibs) None None)).
  { unfold block_and_seek_proof. cbn [ix_index ix_value].
    assert (Enew : it_new root = it_up_n (N.to_nat nodes) (it_new (2 * i)))
      by (apply it_new_of_at, it_up_n_is_at, it_new_is_at).
    assert (Hc : it_contains (it_new root) (2 * i) = true).
    { rewrite Enew, <- (it_up_up_n _ _ (wf_new _)).
      apply it_contains_spec; [apply wf_up, wf_new|].
      pose proof (inspan_up (N.to_nat nodes) (it_new (2 * i)) (2 * i) (wf_new _) (inspan_new _)) as Hs.
      pose proof (wf_up (N.to_nat nodes) _ (wf_new (2 * i))) as (h & Hf & Hh & _).
      unfold inspan in Hs. unfold lo, hi, it_half. rewrite Hf in *.
      replace (2 * h / 2) with h in * by lia. lia. }
    rewrite Hc. cbn [negb bind].
    destruct (block_proof_loop_ok t tf (N.to_nat nodes) CLIMB (it_new (2 * i)) (2 * t_length t) lp_empty [])
      as (sibs & Hs); [exact Hfuel | apply it_new_is_at | exact Hall|].
    fold root in Hs. rewrite Hs. cbn [bind rev app lp_seek lp_upgrade lp_additional lp_empty].
    exists sibs. reflexivity. }
  destruct Hbs as (sibs & ->). cbn [bind negb lp_nodes lp_seek]. eexists. reflexivity.
Qed.

Lemma optional_required t tf i n : optional_node t tf i = Ok (Some n) -> required_node t tf i = Ok n.
Proof.
  unfold optional_node, required_node, node_get.
  destruct (nm_get i (t_unflushed t)) as [m|].
  - destruct (node_blank m); [discriminate|]. intros [= <-]. reflexivity.
  - destruct (mul64 "40 * index" NODE_SIZE i) as [off| | |]; cbn [bind]; try discriminate.
    destruct (f_read tf off NODE_SIZE) as [data|]; [|discriminate].
    destruct (node_blank (node_from_bytes i data)); [discriminate|]. intros [= <-]. reflexivity.
Qed.

(* Capstone for block requests.  Writer t (store = the tree function T on the indices needed),
   replica rt no longer than the writer, whose stored nodes carry T's hashes; the replica asks for a
   block below its length with its own missing-node count, and that count ended on a stored node.
   Then the writer creates the proof and the replica's verifier accepts it with a commitable
   changeset that contains the block's leaf and every sibling sent. *)
Theorem block_request_served cr T t tf rt rtf i k v pk :
  unflushed_indexed t ->
  (forall j n, required_node t tf j = Ok n -> n = T j) ->
  (forall idx, In idx (sib_indices (N.to_nat k) (it_new (2 * i))) ->
     exists n, required_node t tf idx = Ok n) ->
  (forall j n, optional_node rt rtf j = Ok (Some n) -> n_hash n = n_hash (T j)) ->
  missing_nodes rt rtf (2 * i) = Ok k ->
  2 * i < 2 * t_length rt -> t_length rt <= t_length t -> i * 2 <= u64_max ->
  it_contains (it_up_n (N.to_nat k) (it_new (2 * i))) (2 * t_length rt) = false ->
  consistent_path cr T (N.to_nat k) (it_new (2 * i)) ->
  T (2 * i) = block_node cr (2 * i) v ->
  len v + sumN (map (fun idx => n_length (T idx)) (sib_indices (N.to_nat k) (it_new (2 * i)))) <= u64_max ->
  exists ns cs,
    create_valueless_proof t tf (Some (mkReqBlock i k)) None None None
      = Ok (mkVproof (t_fork t) (Some (mkDataHash i ns)) None None None) /\
    length ns = N.to_nat k /\
    verify_proof cr rt rtf (mkProof (t_fork t) (Some (mkDataBlock i v ns)) None None None) pk = Ok cs /\
    cs_upgraded cs = false /\ commitable rt cs = true /\
    (forall n, In n ns -> In n (cs_nodes cs)) /\ In (block_node cr (2 * i) v) (cs_nodes cs).
Proof.
  intros U HT Hall Hrep Hm Hlt HL Hi Hnc Hp HT0 Hsz.
  destruct (missing_nodes_request_wellformed rt rtf i k (t_length t) Hm Hlt HL Hnc) as (Hroot & n0 & Hn0).
  destruct (missing_nodes_gives_stored_root rt rtf i k Hm Hlt) as (Hfuel & _ & _).
  destruct (block_only_proof_created t tf i k Hi) as (vp & Hc); [lia | exact Hroot | exact Hfuel | exact Hall|].
  pose proof (block_only_proof_shape _ _ _ _ _ Hc) as (ns0 & Evp & HL0 & HF0 & _).
  destruct (block_only_end_to_end cr T t tf rt rtf i k v pk vp U HT Hc Hp HT0)
    as (ns & cs & -> & HLn & Hv & Hu & Hcm & Hin & Hleaf & Hns).
  - intros ns Hb. rewrite Evp in Hb. cbn [vp_block] in Hb. injection Hb as <-.
    assert (E : lens ns0 = sumN (map (fun idx => n_length (T idx)) (sib_indices (N.to_nat k) (it_new (2 * i))))).
    { clear -HF0 HT. induction HF0 as [|idx n li ln Hr HF IH]; [reflexivity|].
      rewrite lens_cons. cbn [map sumN]. rewrite IH, (HT _ _ Hr). reflexivity. }
    rewrite E. exact Hsz.
  - exists n0. split; [apply optional_required, Hn0 | apply (Hrep _ _ Hn0)].
  - exists ns, cs. cbn [vp_fork] in Hv. repeat split; assumption.
Qed.

(* ====================================================================================== *)
(* Non-vacuity: a toy crypto, a 5-block writer, a replica synced by an upgrade-only proof,  *)
(* a block-only proof created from the replica's own missing-node count and verified         *)
(* ====================================================================================== *)

Definition ex_hash (x : bytes) : bytes :=
  map (fun j => (fold_left (fun a b => (a * 31 + b + j) mod 65521) x 7) mod 256) (nrange 0 32).
Definition ex_sign (k m : bytes) : bytes := ex_hash (k ++ m) ++ ex_hash (m ++ k).
Definition ex_cr : crypto :=
  mkCrypto ex_hash (fun _ => 0) ex_sign (fun pk m s => bytes_eqb s (ex_sign pk m)).
Definition ex_key : bytes := repeat 5 32.
Definition ex_blocks : list bytes := [[1; 2; 3]; []; [4]; [5; 6; 7; 8]; [9; 10]].

(* the writer: five appends and one commit on the empty tree; nothing flushed (empty tree file) *)
Definition ex_writer : res mtree :=
  cs <- cs_append_all ex_cr (tree_changeset empty_tree) ex_blocks ;;
  tree_commit empty_tree (cs_hash_and_sign ex_cr cs ex_key).
Definition ex_wt : mtree := match ex_writer with Ok t => t | _ => empty_tree end.

Definition vp_to_proof (vp : vproof) (v : option bytes) : proof :=
  mkProof (vp_fork vp)
          (match vp_block vp, v with
           | Some b, Some v => Some (mkDataBlock (dh_index b) v (dh_nodes b))
           | _, _ => None
           end) (vp_hash vp) (vp_seek vp) (vp_upgrade vp).

(* the replica: empty, then synced to length 5 by the writer's upgrade-only proof *)
Definition ex_up_proof : res vproof :=
  create_valueless_proof ex_wt file_empty None None None (Some (mkReqUpgrade 0 5)).
Definition ex_replica : res mtree :=
  vp <- ex_up_proof ;;
  cs <- verify_proof ex_cr empty_tree file_empty (vp_to_proof vp None) ex_key ;;
  tree_commit empty_tree cs.
Definition ex_rt : mtree := match ex_replica with Ok t => t | _ => empty_tree end.

Example ex_writer_ok :
  is_ok ex_writer = true /\ t_length ex_wt = 5 /\ t_byte_length ex_wt = 10 /\
  map n_index (t_roots ex_wt) = [3; 8] /\
  map fst (nm_elements (t_unflushed ex_wt)) = [3; 1; 5; 0; 8; 4; 2; 6].
Proof. vm_compute. repeat split. Qed.

Lemma nm_get_elements {A} (m : nmap A) k v : nm_get k m = Some v -> In (k, v) (nm_elements m).
Proof.
  unfold nm_get. intros Hg. apply PositiveMap.elements_correct in Hg.
  unfold nm_elements. apply in_map_iff. exists (N.succ_pos k, v). split; [|exact Hg].
  cbn [fst snd]. now rewrite N.pos_pred_succ.
Qed.

(* a decidable check for unflushed_indexed (closed trees are then handled by vm_compute) *)
Lemma unflushed_indexed_check t :
  forallb (fun kv => fst kv =? n_index (snd kv)) (nm_elements (t_unflushed t)) = true ->
  unflushed_indexed t.
Proof.
  intros H k n Hg. rewrite forallb_forall in H.
  assert (Hin : In (k, n) (nm_elements (t_unflushed t))).
  { apply nm_get_elements, Hg. }
  apply H in Hin. cbn [fst snd] in Hin. apply N.eqb_eq in Hin. now symmetry.
Qed.

Example ex_writer_indexed : unflushed_indexed ex_wt.
Proof. apply unflushed_indexed_check. vm_compute. reflexivity. Qed.

Example ex_replica_synced :
  is_ok ex_replica = true /\ t_length ex_rt = 5 /\ map n_index (t_roots ex_rt) = [3; 8] /\
  t_roots ex_rt = t_roots ex_wt /\ t_signature ex_rt = t_signature ex_wt /\
  map fst (nm_elements (t_unflushed ex_rt)) = [3; 8].
Proof. vm_compute. repeat split. Qed.

(* the replica asks for block 2 with its own missing-node count: 2 nodes (flat 6 and 1) *)
Example ex_missing : missing_nodes ex_rt file_empty (2 * 2) = Ok 2.
Proof. vm_compute. reflexivity. Qed.

Definition ex_block_proof : res vproof :=
  create_valueless_proof ex_wt file_empty (Some (mkReqBlock 2 2)) None None None.

Example ex_block_proof_shape :
  match ex_block_proof with
  | Ok vp => vp_hash vp = None /\ vp_seek vp = None /\ vp_upgrade vp = None /\
             option_map (fun b => (dh_index b, map n_index (dh_nodes b))) (vp_block vp) = Some (2, [6; 1])
  | _ => False
  end.
Proof. vm_compute. repeat split. Qed.

(* accepted, commitable; the committed replica holds the path 4, 6, 5, 1 (and re-stores root 3) *)
Example ex_block_proof_accepted :
  match (vp <- ex_block_proof ;;
         cs <- verify_proof ex_cr ex_rt file_empty (vp_to_proof vp (Some [4])) ex_key ;;
         t <- tree_commit ex_rt cs ;; Ok (cs, t)) with
  | Ok (cs, t) =>
      map n_index (cs_nodes cs) = [4; 6; 5; 1; 3] /\ commitable ex_rt cs = true /\
      cs_upgraded cs = false /\
      map fst (nm_elements (t_unflushed t)) = [3; 1; 5; 8; 4; 6] /\
      required_node t file_empty 4 = required_node ex_wt file_empty 4
  | _ => False
  end.
Proof. vm_compute. repeat split. Qed.

(* the same proof with another block value is refused *)
Example ex_block_proof_tampered :
  (vp <- ex_block_proof ;;
   verify_proof ex_cr ex_rt file_empty (vp_to_proof vp (Some [5])) ex_key) = Err InvalidChecksum.
Proof. vm_compute. reflexivity. Qed.

(* the premises of block_only_end_to_end hold together on this instance *)
Definition ex_T (i : N) : node :=
  match required_node ex_wt file_empty i with Ok n => n | _ => mkNode i 0 [] end.

Example ex_end_to_end_applies :
  exists vp ns cs,
    create_valueless_proof ex_wt file_empty (Some (mkReqBlock 2 2)) None None None = Ok vp /\
    vp = mkVproof (t_fork ex_wt) (Some (mkDataHash 2 ns)) None None None /\
    verify_proof ex_cr ex_rt file_empty
      (mkProof (vp_fork vp) (Some (mkDataBlock 2 [4] ns)) None None None) ex_key = Ok cs /\
    cs_upgraded cs = false /\ commitable ex_rt cs = true.
Proof.
  assert (E : exists vp, create_valueless_proof ex_wt file_empty (Some (mkReqBlock 2 2)) None None None = Ok vp /\
                         forall ns, vp_block vp = Some (mkDataHash 2 ns) -> len [4] + lens ns <= u64_max).
  { eexists. split; [vm_compute; reflexivity|]. intros ns [= <-]. apply N.leb_le. vm_compute. reflexivity. }
  destruct E as (vp & E & Hsz). exists vp.
  destruct (block_only_end_to_end ex_cr ex_T ex_wt file_empty ex_rt file_empty 2 2 [4] ex_key vp)
    as (ns & cs & Hvp & _ & Hv & Hu & Hc & _).
  - exact ex_writer_indexed.
  - intros j n H. unfold ex_T. now rewrite H.
  - exact E.
  - constructor; [|constructor; [|constructor]]; unfold consistent_at; vm_compute; repeat split; discriminate.
  - vm_compute. reflexivity.
  - exact Hsz.
  - eexists. split; vm_compute; reflexivity.
  - exists ns, cs. auto.
Qed.

(* R3 on the instance: the replica's count for block 2 is a well-formed node count for the writer *)
Example ex_missing_nodes_applies :
  nodes_to_root (2 * 2) 2 (2 * 5) = Ok (it_index (it_up_n (N.to_nat 2) (it_new (2 * 2)))) /\
  exists n, optional_node ex_rt file_empty (it_index (it_up_n (N.to_nat 2) (it_new (2 * 2)))) = Ok (Some n).
Proof.
  apply (missing_nodes_request_wellformed ex_rt file_empty 2 2 5).
  - vm_compute. reflexivity.
  - vm_compute. reflexivity.
  - apply N.leb_le. vm_compute. reflexivity.
  - vm_compute. reflexivity.
Qed.

(* the capstone on the instance: every premise of block_request_served holds together *)
Lemma optional_node_empty_file t j n :
  optional_node t file_empty j = Ok (Some n) -> nm_get j (t_unflushed t) = Some n.
Proof.
  unfold optional_node, node_get. destruct (nm_get j (t_unflushed t)) as [m|].
  - destruct (node_blank m); [discriminate|]. intros [= <-]. reflexivity.
  - destruct (mul64 "40 * index" NODE_SIZE j) as [off| | |]; cbn [bind]; try discriminate.
    unfold f_read, file_empty. cbn [f_len]. destruct (off + NODE_SIZE <=? 0) eqn:E; [|discriminate].
    unfold NODE_SIZE in E. lia.
Qed.

Example ex_block_request_served :
  exists ns cs,
    create_valueless_proof ex_wt file_empty (Some (mkReqBlock 2 2)) None None None
      = Ok (mkVproof (t_fork ex_wt) (Some (mkDataHash 2 ns)) None None None) /\
    length ns = N.to_nat 2 /\
    verify_proof ex_cr ex_rt file_empty (mkProof (t_fork ex_wt) (Some (mkDataBlock 2 [4] ns)) None None None)
                 ex_key = Ok cs /\
    cs_upgraded cs = false /\ commitable ex_rt cs = true /\
    (forall n, In n ns -> In n (cs_nodes cs)) /\ In (block_node ex_cr (2 * 2) [4]) (cs_nodes cs).
Proof.
  apply (block_request_served ex_cr ex_T ex_wt file_empty ex_rt file_empty 2 2 [4] ex_key).
  - exact ex_writer_indexed.
  - intros j n H. unfold ex_T. now rewrite H.
  - assert (E : sib_indices (N.to_nat 2) (it_new (2 * 2)) = [6; 1]) by (vm_compute; reflexivity).
    rewrite E. intros idx [<-|[<-|[]]]; eexists; vm_compute; reflexivity.
  - intros j n H. apply optional_node_empty_file, nm_get_elements in H.
    assert (C : forallb (fun kv => bytes_eqb (n_hash (snd kv)) (n_hash (ex_T (fst kv))))
                        (nm_elements (t_unflushed ex_rt)) = true) by (vm_compute; reflexivity).
    rewrite forallb_forall in C. apply C in H. cbn [fst snd] in H. now apply bytes_eqb_eq.
  - vm_compute. reflexivity.
  - vm_compute. reflexivity.
  - apply N.leb_le. vm_compute. reflexivity.
  - apply N.leb_le. vm_compute. reflexivity.
  - vm_compute. reflexivity.
  - constructor; [|constructor; [|constructor]]; unfold consistent_at; vm_compute; repeat split; discriminate.
  - vm_compute. reflexivity.
  - apply N.leb_le. vm_compute. reflexivity.
Qed.

(* R4 on the instance: all premises of upgrade_only_accepted hold, the replica accepts *)
Example ex_upgrade_only_applies :
  exists roots sg cs,
    create_valueless_proof ex_wt file_empty None None None (Some (mkReqUpgrade 0 (t_length ex_wt)))
      = Ok (mkVproof (t_fork ex_wt) None None None (Some (mkDataUpgrade 0 (t_length ex_wt) roots [] sg))) /\
    verify_proof ex_cr empty_tree file_empty
      (mkProof (t_fork ex_wt) None None None (Some (mkDataUpgrade 0 (t_length ex_wt) roots [] sg))) ex_key = Ok cs /\
    cs_roots cs = roots /\ cs_length cs = t_length ex_wt /\ map n_index roots = [3; 8] /\
    commitable empty_tree cs = true.
Proof.
  assert (E : exists vp, create_valueless_proof ex_wt file_empty None None None
                           (Some (mkReqUpgrade 0 (t_length ex_wt))) = Ok vp /\
              match vp_upgrade vp with
              | Some u => map n_index (du_nodes u) = [3; 8] /\ length (du_signature u) = 64%nat /\
                          t_byte_length empty_tree + lens (du_nodes u) <=? u64_max = true /\
                          cr_verify ex_cr ex_key (signable (tree_hash ex_cr (du_nodes u)) (t_length ex_wt)
                                                           (t_fork ex_wt)) (du_signature u) = true
              | None => False
              end).
  { eexists. split; [vm_compute; reflexivity|]. vm_compute. repeat split. }
  destruct E as (vp & E & Hu).
  destruct (upgrade_only_accepted ex_cr ex_wt file_empty empty_tree file_empty ex_key vp
              ex_writer_indexed E eq_refl eq_refl) as (roots & sg & -> & _ & _ & _ & Hacc).
  cbn [vp_upgrade du_nodes du_signature] in Hu. destruct Hu as (H1 & H2 & H3 & H4).
  destruct Hacc as (cs & Hv & R1 & R2 & _ & _ & _ & _ & _ & _ & _ & R3); [lia | exact H2 | exact H4 |].
  exists roots, sg, cs. repeat split; assumption.
Qed.

(* Core level: a writer core with five blocks; a read-only replica core (public key only) applies
   the writer's upgrade-only proof, asks for block 2 with its own missing-node count, applies the
   writer's block proof, and reads back the writer's block *)
Definition ex_open (kp : keypair) : option (core * world) :=
  match core_open ex_cr (Some kp) false disk_empty with
  | (d, _, Ok c0) => Some (c0, mkWorld d [] [])
  | _ => None
  end.
Definition ex_run {A} (s : option (core * world)) (k : M A) : option (core * world) * option (res A) :=
  match s with
  | Some (c, w) => match k c w with (c', w', r) => (Some (c', w'), Some r) end
  | None => (None, None)
  end.
Definition ex_W := fst (ex_run (ex_open (mkKeypair ex_key (Some ex_key))) (core_append ex_cr (Some true) ex_blocks)).
Definition ex_R0 := ex_open (mkKeypair ex_key None).
Definition ex_R1 :=
  match snd (ex_run ex_W (core_create_proof None None None (Some (mkReqUpgrade 0 5)))) with
  | Some (Ok (Some pf)) => ex_run ex_R0 (core_apply_proof ex_cr (Some false) pf)
  | _ => (None, None)
  end.
Definition ex_R2 :=
  match snd (ex_run (fst ex_R1) (core_missing_nodes 2)) with
  | Some (Ok k) =>
      match snd (ex_run ex_W (core_create_proof (Some (mkReqBlock 2 k)) None None None)) with
      | Some (Ok (Some pf)) => ex_run (fst ex_R1) (core_apply_proof ex_cr (Some false) pf)
      | _ => (None, None)
      end
  | _ => (None, None)
  end.

Example ex_core_replication :
  snd ex_R1 = Some (Ok true) /\
  snd (ex_run (fst ex_R1) (core_missing_nodes 2)) = Some (Ok 2) /\
  snd ex_R2 = Some (Ok true) /\
  snd (ex_run (fst ex_R2) (core_get 2)) = Some (Ok (Some [4])) /\
  snd (ex_run ex_W (core_get 2)) = Some (Ok (Some [4])) /\
  snd (ex_run (fst ex_R2) (core_get 3)) = Some (Ok None).
Proof. vm_compute. repeat split. Qed.

(* ====================================================================================== *)
Print Assumptions create_proof_no_fabrication.
Print Assumptions core_create_proof_inv.
Print Assumptions block_only_proof_shape.
Print Assumptions required_node_index.
Print Assumptions unflushed_indexed_add_node.
Print Assumptions unflushed_indexed_add_all.
Print Assumptions unflushed_indexed_commit.
Print Assumptions unflushed_indexed_flush.
Print Assumptions unflushed_indexed_open.
Print Assumptions climb_plain_ok.
Print Assumptions climb_ref_honest.
Print Assumptions block_only_climb_agrees.
Print Assumptions block_only_root_honest.
Print Assumptions block_only_accepted.
Print Assumptions verify_tree_frame.
Print Assumptions verify_proof_commitable_block_only.
Print Assumptions block_only_end_to_end.
Print Assumptions missing_loop_inv.
Print Assumptions missing_nodes_gives_stored_root.
Print Assumptions missing_nodes_request_wellformed.
Print Assumptions it_full_root_tree.
Print Assumptions upgrade_lockstep.
Print Assumptions upgrade_only_proof_shape.
Print Assumptions upgrade_only_accepted.
Print Assumptions upgrade_loop_full_roots.
Print Assumptions upgrade_only_roots_are_full_roots.
Print Assumptions missing_nodes_head_case_rejected.
Print Assumptions block_only_proof_created.
Print Assumptions block_request_served.
Print Assumptions ex_writer_ok.
Print Assumptions ex_writer_indexed.
Print Assumptions ex_replica_synced.
Print Assumptions ex_missing.
Print Assumptions ex_block_proof_shape.
Print Assumptions ex_block_proof_accepted.
Print Assumptions ex_block_proof_tampered.
Print Assumptions ex_end_to_end_applies.
Print Assumptions ex_missing_nodes_applies.
Print Assumptions ex_block_request_served.
Print Assumptions ex_upgrade_only_applies.
Print Assumptions ex_core_replication.

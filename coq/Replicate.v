(* Replicate.v -- prover / verifier agreement for Merkle proofs (property C03).
   R1: nothing in a created proof is fabricated (every node comes from the writer's own lookup).
   R2: block-only requests: shape of the proof, the verifier's climb succeeds on it, the root it
       computes carries the writer's hash, verify_proof accepts, the changeset is commitable.
   R3: what the replica's missing-node count says about the replica's store.
   R4: upgrade-only proofs sent to an empty replica. *)
From HC Require Import Base NMap Codec CodecFacts Crypto FlatTree Storage Oplog Merkle Core.
From HC Require Import FlatTreeFacts Sound NoPanic TreeRef CoreFacts.
From Coq Require Import ZifyN ZifyNat ZifyBool.
Ltac Zify.zify_post_hook ::= Z.div_mod_to_equations.
Arguments N.add : simpl never.
Arguments N.sub : simpl never.
Arguments N.mul : simpl never.
Arguments N.div : simpl never.
Arguments N.modulo : simpl never.
Arguments N.pow : simpl never.
Arguments N.eqb : simpl never.
Arguments N.ltb : simpl never.
Arguments N.leb : simpl never.

(* ====================================================================================== *)
(* R1. no fabrication                                                                      *)
(* ====================================================================================== *)

(* the node was obtained from the writer's own lookup *)
Definition from_writer (t : mtree) (tf : file) (n : node) : Prop :=
  exists i, required_node t tf i = Ok n.

Definition opt_all (P : node -> Prop) (o : option (list node)) : Prop :=
  match o with Some l => Forall P l | None => True end.

Definition lp_all (P : node -> Prop) (p : local_proof) : Prop :=
  opt_all P (lp_seek p) /\ opt_all P (lp_nodes p) /\ opt_all P (lp_upgrade p) /\
  opt_all P (lp_additional p).

Lemma lp_all_empty P : lp_all P lp_empty.
Proof. unfold lp_all, lp_empty. cbn. tauto. Qed.

Section NoFabrication.
  Variable t : mtree.
  Variable tf : file.
  Let P := from_writer t tf.

  Lemma from_writer_intro i n : required_node t tf i = Ok n -> P n.
  Proof. intros H. exists i. exact H. Qed.

  Lemma seek_proof_loop_from fuel : forall it root acc l,
    Forall P acc -> seek_proof_loop fuel t tf it root acc = Ok l -> Forall P l.
  Proof.
    induction fuel as [|f IH]; intros it root acc l Ha H; [discriminate H|].
    cbn [seek_proof_loop] in H. destruct (it_index it =? root).
    - injection H as <-. apply Forall_rev. exact Ha.
    - apply bind_ok in H. destruct H as (n & Hn & H).
      apply (IH _ _ _ _ (Forall_cons n (from_writer_intro _ _ Hn) Ha) H).
  Qed.

  Lemma seek_proof_from seek_root root p p' :
    lp_all P p -> seek_proof t tf seek_root root p = Ok p' -> lp_all P p'.
  Proof.
    intros (H1 & H2 & H3 & H4) H. unfold seek_proof in H.
    apply bind_ok in H. destruct H as (n & Hn & H).
    apply bind_ok in H. destruct H as (l & Hl & H). injection H as <-.
    unfold lp_all. cbn [lp_seek lp_nodes lp_upgrade lp_additional opt_all].
    repeat split; try assumption.
    apply (seek_proof_loop_from _ _ _ _ _ (Forall_cons n (from_writer_intro _ _ Hn) (Forall_nil _)) Hl).
  Qed.

  Lemma block_proof_loop_from fuel : forall it root is_seek seek_root p acc p' l,
    lp_all P p -> Forall P acc ->
    block_proof_loop fuel t tf it root is_seek seek_root p acc = Ok (p', l) ->
    lp_all P p' /\ Forall P l.
  Proof.
    induction fuel as [|f IH]; intros it root is_seek seek_root p acc p' l Hp Ha H; [discriminate H|].
    cbn [block_proof_loop] in H. destruct (it_index it =? root).
    - injection H as <- <-. split; [exact Hp | apply Forall_rev; exact Ha].
    - destruct (is_seek && it_contains (it_sibling it) seek_root &&
                negb (it_index (it_sibling it) =? seek_root)).
      + apply bind_ok in H. destruct H as (p1 & Hs & H).
        apply (IH _ _ _ _ _ _ _ _ (seek_proof_from _ _ _ _ Hp Hs) Ha H).
      + apply bind_ok in H. destruct H as (n & Hn & H).
        apply (IH _ _ _ _ _ _ _ _ Hp (Forall_cons n (from_writer_intro _ _ Hn) Ha) H).
  Qed.

  Lemma block_and_seek_proof_from ix is_seek seek_root root p p' :
    lp_all P p -> block_and_seek_proof t tf ix is_seek seek_root root p = Ok p' -> lp_all P p'.
  Proof.
    intros Hp H. unfold block_and_seek_proof in H. destruct ix as [i|].
    - destruct (negb (it_contains (it_new root) (ix_index i))); [discriminate H|].
      apply bind_ok in H. destruct H as (acc0 & H0 & H).
      apply bind_ok in H. destruct H as ([p1 l] & Hl & H). injection H as <-.
      assert (Ha : Forall P acc0).
      { destruct (ix_value i).
        - injection H0 as <-. constructor.
        - apply bind_ok in H0. destruct H0 as (n & Hn & H0). injection H0 as <-.
          constructor; [exact (from_writer_intro _ _ Hn) | constructor]. }
      destruct (block_proof_loop_from _ _ _ _ _ _ _ _ _ Hp Ha Hl) as ((A1 & A2 & A3 & A4) & B).
      unfold lp_all. cbn [lp_seek lp_nodes lp_upgrade lp_additional opt_all]. tauto.
    - exact (seek_proof_from _ _ _ _ Hp H).
  Qed.

  Lemma connect_loop_from fuel : forall it root target ix is_seek sub_tree with_sub p acc p' acc',
    lp_all P p -> Forall P acc ->
    connect_loop fuel t tf it root target ix is_seek sub_tree with_sub p acc = Ok (p', acc') ->
    lp_all P p' /\ Forall P acc'.
  Proof.
    induction fuel as [|f IH]; intros it root target ix is_seek sub_tree with_sub p acc p' acc' Hp Ha H;
      [discriminate H|].
    cbn [connect_loop] in H. destruct (it_index it =? root).
    - injection H as <- <-. auto.
    - apply bind_ok in H. destruct H as ([p1 acc1] & H1 & H).
      assert (lp_all P p1 /\ Forall P acc1) as [Hp1 Ha1].
      { destruct (target <? it_index (it_sibling it)).
        - destruct (with_sub && match lp_nodes p, lp_seek p with None, None => true | _, _ => false end
                    && it_contains (it_sibling it) sub_tree).
          + apply bind_ok in H1. destruct H1 as (p2 & H2 & H1). injection H1 as <- <-.
            split; [exact (block_and_seek_proof_from _ _ _ _ _ _ Hp H2) | exact Ha].
          + apply bind_ok in H1. destruct H1 as (n & Hn & H1). injection H1 as <- <-.
            split; [exact Hp|]. apply Forall_app. split; [exact Ha|].
            constructor; [exact (from_writer_intro _ _ Hn) | constructor].
        - injection H1 as <- <-. auto. }
      apply (IH _ _ _ _ _ _ _ _ _ _ _ Hp1 Ha1 H).
  Qed.

  Lemma upgrade_loop_from fuel : forall it from to ix is_seek sub_tree with_sub has p acc p' acc' has',
    lp_all P p -> Forall P acc ->
    upgrade_loop fuel t tf it from to ix is_seek sub_tree with_sub has p acc = Ok (p', acc', has') ->
    lp_all P p' /\ Forall P acc'.
  Proof.
    induction fuel as [|f IH]; intros it from to ix is_seek sub_tree with_sub has p acc p' acc' has' Hp Ha H;
      [discriminate H|].
    cbn [upgrade_loop] in H. destruct (it_full_root it to) as [found it1].
    destruct (negb found).
    { injection H as <- <- <-. auto. }
    destruct (it_index it1 + it_factor it1 / 2 <? from).
    { apply (IH _ _ _ _ _ _ _ _ _ _ _ _ _ Hp Ha H). }
    destruct (negb has && it_contains it1 (from - 2)).
    { apply bind_ok in H. destruct H as ([p1 acc1] & H1 & H).
      destruct (connect_loop_from _ _ _ _ _ _ _ _ _ _ _ _ Hp Ha H1) as [Hp1 Ha1].
      apply (IH _ _ _ _ _ _ _ _ _ _ _ _ _ Hp1 Ha1 H). }
    destruct (with_sub && match lp_nodes p, lp_seek p with None, None => true | _, _ => false end
              && it_contains it1 sub_tree).
    { apply bind_ok in H. destruct H as (p1 & H1 & H).
      apply (IH _ _ _ _ _ _ _ _ _ _ _ _ _ (block_and_seek_proof_from _ _ _ _ _ _ Hp H1) Ha H). }
    apply bind_ok in H. destruct H as (n & Hn & H).
    refine (IH _ _ _ _ _ _ _ _ _ _ _ _ _ Hp _ H).
    apply Forall_app. split; [exact Ha|]. constructor; [exact (from_writer_intro _ _ Hn) | constructor].
  Qed.

  Lemma upgrade_proof_from ix is_seek from to sub_tree p p' :
    lp_all P p -> upgrade_proof t tf ix is_seek from to sub_tree p = Ok p' -> lp_all P p'.
  Proof.
    intros Hp. unfold upgrade_proof. intros H. (* unfold in the goal: keeps Qed from unrolling CLIMB *)
    apply bind_ok in H. destruct H as ([[p1 acc] has] & H1 & H). injection H as <-.
    destruct (upgrade_loop_from _ _ _ _ _ _ _ _ _ _ _ _ _ _ Hp (Forall_nil _) H1) as ((A1 & A2 & A3 & A4) & B).
    destruct has; unfold lp_all; cbn [lp_seek lp_nodes lp_upgrade lp_additional opt_all]; tauto.
  Qed.

  Lemma additional_upgrade_proof_from from to p p' :
    lp_all P p -> additional_upgrade_proof t tf from to p = Ok p' -> lp_all P p'.
  Proof.
    intros Hp. unfold additional_upgrade_proof. intros H.
    apply bind_ok in H. destruct H as ([[p1 acc] has] & H1 & H). injection H as <-.
    destruct (upgrade_loop_from _ _ _ _ _ _ _ _ _ _ _ _ _ _ Hp (Forall_nil _) H1) as ((A1 & A2 & A3 & A4) & B).
    destruct has; unfold lp_all; cbn [lp_seek lp_nodes lp_upgrade lp_additional opt_all]; tauto.
  Qed.
End NoFabrication.

(* every node list of the valueless proof satisfies P *)
Definition vp_all (P : node -> Prop) (vp : vproof) : Prop :=
  (forall b, vp_block vp = Some b -> Forall P (dh_nodes b)) /\
  (forall h, vp_hash vp = Some h -> Forall P (dh_nodes h)) /\
  (forall s, vp_seek vp = Some s -> Forall P (ds_nodes s)) /\
  (forall u, vp_upgrade vp = Some u -> Forall P (du_nodes u) /\ Forall P (du_additional u)).

Theorem create_proof_no_fabrication t tf block hash seek upgrade vp :
  create_valueless_proof t tf block hash seek upgrade = Ok vp ->
  vp_all (from_writer t tf) vp /\
  vp_fork vp = t_fork t /\
  (forall b, vp_block vp = Some b -> exists rb, block = Some rb /\ dh_index b = rb_index rb) /\
  (forall h, vp_hash vp = Some h -> exists rh, block = None /\ hash = Some rh /\ dh_index h = rb_index rh) /\
  (forall s, vp_seek vp = Some s -> exists rs, seek = Some rs /\ ds_bytes s = rs_bytes rs) /\
  (forall u, vp_upgrade vp = Some u ->
     exists ru, upgrade = Some ru /\ du_start u = ru_start ru /\ du_length u = ru_length ru /\
                t_signature t = Some (du_signature u)) /\
  (upgrade = None -> vp_upgrade vp = None).
Proof.
  intros H. unfold create_valueless_proof in H.
  apply bind_ok in H. destruct H as ([from to] & _ & H).
  apply bind_ok in H. destruct H as (ixo & _ & H).
  destruct ((to <=? from) || (2 * t_length t <? to)); [discriminate H|].
  apply bind_ok in H. destruct H as ([[sub_tree p0] untrusted] & H0 & H).
  apply bind_ok in H. destruct H as (sub_tree' & _ & H).
  apply bind_ok in H. destruct H as (p & Hp & H).
  apply bind_ok in H. destruct H as ([dblock dhash] & Hbh & H).
  apply bind_ok in H. destruct H as (dup & Hup & H). injection H as <-.
  (* the local proof after the block / seek stage *)
  assert (A0 : lp_all (from_writer t tf) p0).
  { destruct ixo as [ix|].
    - destruct ((match seek with Some _ => true | None => false end) &&
                (match upgrade with Some _ => true | None => false end) && (from <=? ix_index ix));
        [discriminate H0|].
      destruct (match upgrade with Some u => ix_last ix <? ru_start u | None => true end).
      + apply bind_ok in H0. destruct H0 as (sub & _ & H0).
        apply bind_ok in H0. destruct H0 as (seek_root & _ & H0).
        apply bind_ok in H0. destruct H0 as (p1 & H1 & H0). injection H0 as _ <- _.
        exact (block_and_seek_proof_from _ _ _ _ _ _ _ _ (lp_all_empty _) H1).
      + injection H0 as _ <- _. apply lp_all_empty.
    - injection H0 as _ <- _. apply lp_all_empty. }
  (* ... and after the upgrade stage *)
  assert (A : lp_all (from_writer t tf) p).
  { destruct upgrade as [u|].
    - apply bind_ok in Hp. destruct Hp as (p1 & H1 & Hp).
      pose proof (upgrade_proof_from _ _ _ _ _ _ _ _ _ A0 H1) as A1.
      destruct (to <? 2 * t_length t).
      + exact (additional_upgrade_proof_from _ _ _ _ _ _ A1 Hp).
      + injection Hp as <-. exact A1.
    - injection Hp as <-. exact A0. }
  destruct A as (As & An & Au & Aa).
  unfold vp_all. cbn [vp_fork vp_block vp_hash vp_seek vp_upgrade].
  (* block / hash sections *)
  assert (B : (forall b, dblock = Some b ->
                 Forall (from_writer t tf) (dh_nodes b) /\
                 exists rb, block = Some rb /\ dh_index b = rb_index rb) /\
              (forall h, dhash = Some h ->
                 Forall (from_writer t tf) (dh_nodes h) /\
                 exists rh, block = None /\ hash = Some rh /\ dh_index h = rb_index rh)).
  { destruct block as [rb|].
    - destruct (lp_nodes p) as [ns|]; [|discriminate Hbh]. injection Hbh as <- <-.
      split; [|intros h [=]]. intros b [= <-]. cbn [dh_nodes dh_index]. split; [exact An|].
      exists rb. auto.
    - destruct hash as [rh|].
      + destruct (lp_nodes p) as [ns|]; [|discriminate Hbh]. injection Hbh as <- <-.
        split; [intros b [=]|]. intros h [= <-]. cbn [dh_nodes dh_index]. split; [exact An|].
        exists rh. auto.
      + injection Hbh as <- <-. split; intros ? [=]. }
  destruct B as [Bb Bh].
  (* seek section *)
  assert (S : forall s, match seek, lp_seek p with
                        | Some s0, Some ns => Some (mkDataSeek (rs_bytes s0) ns)
                        | _, _ => None
                        end = Some s ->
              Forall (from_writer t tf) (ds_nodes s) /\ exists rs, seek = Some rs /\ ds_bytes s = rs_bytes rs).
  { intros s Hs. destruct seek as [s0|]; [|discriminate Hs].
    destruct (lp_seek p) as [ns|]; [|discriminate Hs]. injection Hs as <-.
    cbn [ds_nodes ds_bytes]. split; [exact As|]. exists s0. auto. }
  (* upgrade section *)
  assert (U : (forall u, dup = Some u ->
                (Forall (from_writer t tf) (du_nodes u) /\ Forall (from_writer t tf) (du_additional u)) /\
                exists ru, upgrade = Some ru /\ du_start u = ru_start ru /\ du_length u = ru_length ru /\
                           t_signature t = Some (du_signature u)) /\
              (upgrade = None -> dup = None)).
  { destruct upgrade as [ru|].
    - split; [|intros [=]].
      destruct (lp_upgrade p) as [ns|]; [|discriminate Hup].
      destruct (t_signature t) as [sg|]; [|discriminate Hup]. injection Hup as <-.
      intros u [= <-]. cbn [du_nodes du_additional du_start du_length du_signature].
      split.
      + split; [exact Au|]. destruct (lp_additional p); [exact Aa | constructor].
      + exists ru. auto.
    - injection Hup as <-. split; [intros u [=] | reflexivity]. }
  destruct U as [U1 U2].
  split; [|split; [reflexivity|]].
  - repeat split.
    + intros b Hb. apply (Bb b Hb).
    + intros h Hh. apply (Bh h Hh).
    + intros s Hs. apply (S s Hs).
    + apply (U1 u H).
    + apply (U1 u H).
  - split; [intros b Hb; apply (Bb b Hb)|].
    split; [intros h Hh; apply (Bh h Hh)|].
    split; [intros s Hs; apply (S s Hs)|].
    split; [intros u Hu; apply (U1 u Hu) | exact U2].
Qed.

(* Corollary with Core: a created proof carries the valueless proof's nodes, and its block value is
   what core_get returned for that index (None = block not held: no proof) *)
Theorem core_create_proof_inv block hash seek upgrade c w c' w' r :
  core_create_proof block hash seek upgrade c w = (c', w', Ok r) ->
  exists vp,
    create_valueless_proof (c_tree c) (d_tree (w_disk w)) block hash seek upgrade = Ok vp /\
    vp_all (from_writer (c_tree c) (d_tree (w_disk w))) vp /\
    match vp_block vp with
    | Some b =>
        exists v, core_get (dh_index b) c w = (c', w', Ok v) /\
          r = match v with
              | None => None
              | Some value =>
                  Some (mkProof (vp_fork vp) (Some (mkDataBlock (dh_index b) value (dh_nodes b)))
                          (vp_hash vp) (vp_seek vp) (vp_upgrade vp))
              end
    | None =>
        c' = c /\ w' = w /\
        r = Some (mkProof (vp_fork vp) None (vp_hash vp) (vp_seek vp) (vp_upgrade vp))
    end.
Proof.
  unfold core_create_proof. rewrite mbind_get_core, mbind_get_disk, mbind_lift.
  destruct (create_valueless_proof (c_tree c) (d_tree (w_disk w)) block hash seek upgrade) as [vp| | |] eqn:E;
    intros H; try (inversion H; fail).
  exists vp. split; [reflexivity|]. split; [apply (create_proof_no_fabrication _ _ _ _ _ _ _ E)|].
  destruct (vp_block vp) as [b|].
  - mstep H. exists a. split.
    + destruct a as [value|]; prim_inv H; exact Hm.
    + destruct a as [value|]; prim_inv H; reflexivity.
  - prim_inv H. auto.
Qed.

(* ====================================================================================== *)
(* R2. block-only requests                                                                 *)
(* ====================================================================================== *)

(* ---------- the upward path of an iterator ---------- *)

(* indices of the siblings met while climbing m levels from it *)
Fixpoint sib_indices (m : nat) (it : fiter) : list N :=
  match m with
  | O => []
  | S m' => it_index (it_sibling it) :: sib_indices m' (it_parent (it_sibling it))
  end.

Lemma sib_indices_length m : forall it, length (sib_indices m it) = m.
Proof. induction m as [|m IH]; intros it; cbn [sib_indices length]; [reflexivity | now rewrite IH]. Qed.

Lemma sib_indices_nth m : forall it k, (k < m)%nat ->
  nth_error (sib_indices m it) k = Some (it_index (it_sibling (it_up_n k it))).
Proof.
  induction m as [|m IH]; intros it k Hk; [lia|].
  destruct k as [|k]; cbn [sib_indices nth_error it_up_n]; [reflexivity|]. apply IH. lia.
Qed.

(* k-th element of a list related by Forall2 *)
Lemma Forall2_nth {A B} (R : A -> B -> Prop) : forall la lb k b,
  Forall2 R la lb -> nth_error lb k = Some b -> exists a, nth_error la k = Some a /\ R a b.
Proof.
  intros la lb k b H. revert k. induction H as [|x y la lb Hxy H IH]; intros k Hk.
  - destruct k; discriminate Hk.
  - destruct k as [|k]; cbn [nth_error] in *.
    + injection Hk as <-. exists x. auto.
    + apply IH. exact Hk.
Qed.

Lemma Forall2_len {A B} (R : A -> B -> Prop) la lb : Forall2 R la lb -> length la = length lb.
Proof. induction 1; cbn [length]; congruence. Qed.

Lemma it_up_n_S k : forall it, it_up_n (S k) it = it_parent (it_sibling (it_up_n k it)).
Proof. induction k as [|k IH]; intros it; [reflexivity|]. cbn [it_up_n] in *. now rewrite <- IH. Qed.

Lemma wf_up_n k : forall it, wf it -> wf (it_up_n k it).
Proof. induction k as [|k IH]; intros it H; cbn [it_up_n]; [exact H|]. apply IH, wf_parent, wf_sibling, H. Qed.

(* the prover's nodes_to_root climbs with it_parent alone, block_proof_loop and the verifier with
   it_parent after it_sibling: the same thing on well-formed iterators *)
Lemma it_up_up_n k : forall it, wf it -> it_up k it = it_up_n k it.
Proof.
  induction k as [|k IH]; intros it H; cbn [it_up it_up_n]; [reflexivity|].
  rewrite (it_parent_sibling it H). apply IH, wf_parent, H.
Qed.

(* positions: after k levels the iterator sits at depth d + k *)
Lemma it_step_at d o : exists o', it_parent (it_sibling (it_at d o)) = it_at (d + 1) o'.
Proof.
  rewrite (it_parent_sibling _ (wf_at d o)), it_parent_at. eexists. reflexivity.
Qed.

Lemma it_up_n_at k : forall d o, exists o', it_up_n k (it_at d o) = it_at (d + N.of_nat k) o'.
Proof.
  induction k as [|k IH]; intros d o; cbn [it_up_n].
  - exists o. f_equal. lia.
  - destruct (it_step_at d o) as [o1 ->]. destruct (IH (d + 1) o1) as [o2 ->].
    exists o2. f_equal. lia.
Qed.

Lemma it_at_index_inj d o d' o' : it_index (it_at d o) = it_index (it_at d' o') -> d = d' /\ o = o'.
Proof. unfold it_at. cbn [it_index]. apply ft_index_inj. Qed.

(* the indices along an upward path are pairwise different *)
Lemma it_up_n_index_neq k it0 : (0 < k)%nat -> (exists d o, it0 = it_at d o) ->
  it_index it0 <> it_index (it_up_n k it0).
Proof.
  intros Hk (d & o & ->). destruct (it_up_n_at k d o) as [o' ->].
  intros E. apply it_at_index_inj in E. lia.
Qed.

Lemma it_new_is_at i : exists d o, it_new i = it_at d o.
Proof. exists (ft_depth i), (ft_offset i). apply it_new_at. Qed.

Lemma it_step_is_at it : (exists d o, it = it_at d o) -> exists d o, it_parent (it_sibling it) = it_at d o.
Proof. intros (d & o & ->). destruct (it_step_at d o) as [o' E]. eauto. Qed.

(* ---------- the prover ---------- *)

Lemma nodes_to_root_loop_inv fuel : forall it rem head r,
  nodes_to_root_loop fuel it rem head = Ok r ->
  r = it_index (it_up (N.to_nat rem) it) /\ (N.to_nat rem < fuel)%nat /\
  (forall j, (0 < j <= N.to_nat rem)%nat -> it_contains (it_up j it) head = false).
Proof.
  induction fuel as [|f IH]; intros it rem head r H; [discriminate H|].
  cbn [nodes_to_root_loop] in H. destruct (rem =? 0) eqn:E.
  - injection H as <-. apply N.eqb_eq in E. subst rem. cbn [N.to_nat it_up].
    repeat split; [lia|]. intros j Hj. lia.
  - destruct (it_contains (it_parent it) head) eqn:Ec; [discriminate H|].
    apply IH in H. destruct H as (-> & Hf & Hc).
    assert (En : N.to_nat rem = S (N.to_nat (rem - 1))) by lia.
    rewrite En. cbn [it_up]. repeat split; [lia|].
    intros j Hj. destruct j as [|j]; [lia|]. cbn [it_up].
    destruct j as [|j]; [exact Ec|]. apply (Hc (S j)). lia.
Qed.

(* the converse: enough fuel and no ancestor containing the head *)
Lemma nodes_to_root_loop_ok fuel : forall it rem head,
  (N.to_nat rem < fuel)%nat ->
  (forall j, (0 < j <= N.to_nat rem)%nat -> it_contains (it_up j it) head = false) ->
  nodes_to_root_loop fuel it rem head = Ok (it_index (it_up (N.to_nat rem) it)).
Proof.
  induction fuel as [|f IH]; intros it rem head Hf Hc; [lia|].
  cbn [nodes_to_root_loop]. destruct (rem =? 0) eqn:E.
  - apply N.eqb_eq in E. subst rem. reflexivity.
  - assert (En : N.to_nat rem = S (N.to_nat (rem - 1))) by lia.
    assert (H1 : it_contains (it_parent it) head = false) by (apply (Hc 1%nat); lia).
    rewrite H1, En. cbn [it_up]. apply IH; [lia|].
    intros j Hj. apply (Hc (S j)). lia.
Qed.

(* block_proof_loop without a seek: climbs exactly the m levels up to the root, pushing the
   writer's node at each sibling position *)
Lemma block_proof_loop_shape (t : mtree) (tf : file) fuel : forall m it root sr p acc p' l,
  (exists d o, it = it_at d o) ->
  root = it_index (it_up_n m it) ->
  block_proof_loop fuel t tf it root false sr p acc = Ok (p', l) ->
  p' = p /\ exists sibs, l = rev acc ++ sibs /\
    Forall2 (fun idx n => required_node t tf idx = Ok n) (sib_indices m it) sibs.
Proof.
  induction fuel as [|f IH]; intros m it root sr p acc p' l Hat Hr H; [discriminate H|].
  cbn [block_proof_loop andb] in H. destruct (it_index it =? root) eqn:E.
  - injection H as <- <-. split; [reflexivity|]. exists []. rewrite app_nil_r. split; [reflexivity|].
    destruct m as [|m]; [constructor|]. exfalso. apply N.eqb_eq in E. subst root.
    apply (it_up_n_index_neq (S m) it); [lia | exact Hat | exact E].
  - destruct m as [|m]; [cbn [it_up_n] in Hr; lia|].
    apply bind_ok in H. destruct H as (n & Hn & H).
    apply (IH m) in H; [|apply it_step_is_at, Hat | exact Hr].
    destruct H as (-> & sibs & -> & HF). split; [reflexivity|].
    exists (n :: sibs). cbn [rev]. rewrite <- app_assoc. split; [reflexivity|].
    cbn [sib_indices]. constructor; assumption.
Qed.

(* the shape of a block-only proof *)
Theorem block_only_proof_shape t tf i nodes vp :
  create_valueless_proof t tf (Some (mkReqBlock i nodes)) None None None = Ok vp ->
  exists ns,
    vp = mkVproof (t_fork t) (Some (mkDataHash i ns)) None None None /\
    length ns = N.to_nat nodes /\
    Forall2 (fun idx n => required_node t tf idx = Ok n)
            (sib_indices (N.to_nat nodes) (it_new (2 * i))) ns /\
    (forall k n, nth_error ns k = Some n ->
       required_node t tf (it_index (it_sibling (it_up_n k (it_new (2 * i))))) = Ok n) /\
    nodes_to_root (2 * i) nodes (2 * t_length t)
      = Ok (it_index (it_up_n (N.to_nat nodes) (it_new (2 * i)))) /\
    (forall j, (0 < j <= N.to_nat nodes)%nat ->
       it_contains (it_up_n j (it_new (2 * i))) (2 * t_length t) = false) /\
    fits_u64 (i * 2) = true /\ 0 < t_length t.
Proof.
  unfold create_valueless_proof, normalize_indexed, mul64. cbn [bind rb_index rb_nodes].
  destruct (fits_u64 (i * 2)) eqn:F; [|discriminate]. cbn [bind].
  destruct ((2 * t_length t <=? 0) || (2 * t_length t <? 2 * t_length t)) eqn:E0; [discriminate|].
  cbn [andb ix_index ix_nodes ix_value ix_last]. rewrite (N.mul_comm i 2).
  intros H.
  apply bind_ok in H. destruct H as ([[sub_tree p0] untrusted] & H0 & H).
  apply bind_ok in H0. destruct H0 as (sub & Hsub & H0). cbn [bind] in H0.
  apply bind_ok in H0. destruct H0 as (p1 & H1 & H0). injection H0 as <- <- <-.
  cbn [negb bind] in H.
  (* nodes_to_root *)
  pose proof Hsub as Hsub0.
  unfold nodes_to_root in Hsub. apply nodes_to_root_loop_inv in Hsub.
  destruct Hsub as (Es & _ & Hc).
  assert (Eup : forall j, it_up j (it_new (2 * i)) = it_up_n j (it_new (2 * i)))
    by (intros j; apply it_up_up_n, wf_new).
  rewrite Eup in Es.
  (* block_and_seek_proof *)
  unfold block_and_seek_proof in H1. cbn [ix_index ix_value] in H1.
  destruct (negb (it_contains (it_new sub) (2 * i))); [discriminate H1|]. cbn [bind] in H1.
  apply bind_ok in H1. destruct H1 as ([p' l] & Hl & H1). injection H1 as <-.
  apply (block_proof_loop_shape t tf CLIMB (N.to_nat nodes)) in Hl;
    [|apply it_new_is_at | exact Es].
  destruct Hl as (-> & sibs & -> & HF). cbn [rev app] in *.
  cbn [lp_nodes lp_seek lp_upgrade lp_additional lp_empty bind] in H. injection H as <-.
  exists sibs. split; [reflexivity|].
  pose proof (Forall2_len _ _ _ HF) as HL. rewrite sib_indices_length in HL.
  split; [now symmetry|]. split; [exact HF|].
  split.
  { intros k n Hk. destruct (Forall2_nth _ _ _ _ _ HF Hk) as (idx & Hi & Hr).
    rewrite sib_indices_nth in Hi.
    - injection Hi as <-. exact Hr.
    - rewrite HL. apply nth_error_Some. rewrite Hk. discriminate. }
  split; [now rewrite Hsub0, Es|].
  split; [intros j Hj; rewrite <- Eup; apply Hc, Hj|].
  split; [reflexivity|]. apply orb_false_iff in E0. lia.
Qed.

(* SoundCore.v -- C04/C03 at the Core level: an accepted proof keeps the replica consistent with the
   writer.  The writer is described by its list of blocks [bs] (reference tree: TreeRef.ref_node);
   a replica satisfies [RInv] when every node it can look up is the writer's node (hash AND size) and
   lies inside the replica's tree, its roots are the writer's roots at the replica's length, and every
   held block is readable and equals the writer's block.  Library lemmas: SoundCoreLib.v.
   Security statements are reductions: accepted => invariant kept \/ explicit hash collision. *)
From HC Require Import Base NMap Codec CodecFacts Crypto FlatTree Storage Bitfield Oplog Merkle Core.
From HC Require Import FlatTreeFacts StorageFacts BitfieldFacts OplogFacts TreeRef OffsetFacts CoreFacts
                       Sound NoPanic Refine Replicate SoundCoreLib.
From Coq Require Import FMapPositive ZifyN ZifyNat ZifyBool.
Ltac Zify.zify_post_hook ::= Z.div_mod_to_equations.
Arguments N.add : simpl never.
Arguments N.sub : simpl never.
Arguments N.mul : simpl never.
Arguments N.div : simpl never.
Arguments N.modulo : simpl never.
Arguments N.pow : simpl never.
Arguments N.eqb : simpl never.
Arguments N.ltb : simpl never.
Arguments N.leb : simpl never.
Arguments N.of_nat : simpl never.
Arguments N.to_nat : simpl never.

Lemma u64_63 n : NODE_SIZE * (2 * n) <= u64_max -> n <= 2 ^ 63.
Proof. change (2 ^ 63) with 9223372036854775808. unfold NODE_SIZE, u64_max. lia. Qed.

Lemma prefix_size_mono bs k : forall a, prefix_size bs a <= prefix_size bs (a + N.of_nat k).
Proof.
  induction k as [|k IH]; intros a.
  - replace (a + N.of_nat 0) with a by lia. lia.
  - replace (a + N.of_nat (S k)) with (a + N.of_nat k + 1) by lia.
    rewrite prefix_size_succ. specialize (IH a). lia.
Qed.

Lemma prefix_size_le_mono bs a b : a <= b -> prefix_size bs a <= prefix_size bs b.
Proof.
  intros H. replace b with (a + N.of_nat (N.to_nat (b - a))) by lia. apply prefix_size_mono.
Qed.

(* like CoreFacts.mstep, for a computation that ended with Ok: names are chosen by the caller *)
Ltac mstep_ok H Hm c1 w1 a :=
  apply mbind_inv in H; destruct H as (c1 & w1 & [a| | |] & Hm & H);
  [ | destruct H as (_ & _ & H); discriminate H
    | destruct H as (_ & _ & H); discriminate H
    | destruct H as (_ & _ & H); discriminate H ].

Section Replica.
  Variable cr : crypto.
  Hypothesis Hhash32 : forall x, length (cr_hash cr x) = 32%nat.
  Hypothesis Hnonblank : forall x, all_zero (cr_hash cr x) = false.
  Variable bs : list bytes.               (* the writer's blocks *)
  Hypothesis Hw : writer_fits bs.          (* u64 guards of the writer: total size, tree store offsets *)

  Let n := N.of_nat (length bs).
  Let R := ref_node cr bs.

  (* the messages the writer signed: its tree at every length it went through, fork 0 *)
  Definition signed_by_writer (msg : bytes) : Prop :=
    exists m, m <= N.of_nat (length bs) /\ msg = signable (tree_hash cr (ref_roots cr bs m)) m 0.

  (* a signature that verifies under pk on a message the writer never signed *)
  Definition forged_signature (pk : bytes) : Prop :=
    exists msg sg, cr_verify cr pk msg sg = true /\ ~ signed_by_writer msg.

  Definition RInv (c : core) (d : disk) : Prop :=
    let t := c_tree c in let tf := d_tree d in let r := t_length t in
    r <= N.of_nat (length bs) /\ t_fork t = 0 /\
    t_roots t = ref_roots cr bs r /\ t_byte_length t = prefix_size bs r /\
    (* every node that can be looked up is the writer's node and lies in the tree over r blocks *)
    unfl_sound cr bs t r /\ file_sound cr bs tf r /\
    (* the roots themselves can be looked up *)
    (forall x, In x (t_roots t) -> required_node t tf (n_index x) = Ok x) /\
    (* held blocks: below the length, leaf and left siblings of the path are stored, data in place *)
    (forall i, bf_get (c_bitfield c) i = true ->
       i < r /\ required_node t tf (2 * i) = Ok (ref_node cr bs 0 i) /\ left_avail cr bs t tf i r /\
       (len (blk bs i) <> 0 ->
        f_read (d_data d) (prefix_size bs i) (len (blk bs i)) = Some (blk bs i))).

  Lemma RInv_ext c c' d d' :
    c_tree c' = c_tree c -> (forall i, bf_get (c_bitfield c') i = bf_get (c_bitfield c) i) ->
    d_tree d' = d_tree d -> d_data d' = d_data d -> RInv c d -> RInv c' d'.
  Proof.
    intros Ht Hb Hdt Hdd H. unfold RInv in *. rewrite Ht, Hdt, Hdd.
    destruct H as (H1 & H2 & H3 & H4 & H5 & H6 & H7 & H8).
    repeat (split; [assumption|]). intros i Hi. rewrite Hb in Hi. apply H8, Hi.
  Qed.

  (* ---------- reads ---------- *)

  Lemma byte_range_held c d i :
    RInv c d -> bf_get (c_bitfield c) i = true ->
    byte_range (c_tree c) (d_tree d) i = Ok (prefix_size bs i, len (blk bs i)).
  Proof.
    intros (H1 & H2 & H3 & H4 & H5 & H6 & H7 & H8) Hi.
    destruct (H8 i Hi) as (Hlt & Hleaf & Hav & _). destruct Hw as [Hw1 Hw2].
    unfold byte_range, validate_hypercore_index, mul64.
    assert (fits_u64 (2 * i) = true) as -> by (unfold fits_u64, NODE_SIZE, u64_max in *; lia).
    cbn [bind]. destruct (N.leb_spec (2 * t_length (c_tree c)) (2 * i)) as [L|L]; [lia|]. cbn [bind].
    rewrite Hleaf. cbn [bind].
    rewrite (offset_leaf_ok cr bs (c_tree c) (d_tree d) (t_length (c_tree c)) i H3); try assumption.
    - reflexivity.
    - apply u64_63. unfold NODE_SIZE in *. lia.
  Qed.

  (* (4) what a read returns: nothing for a block the replica does not hold, the writer's block
     otherwise *)
  Theorem get_replica c d j ev i :
    RInv c d ->
    core_get i c (mkWorld d j ev) =
    if bf_get (c_bitfield c) i
    then (c, mkWorld d j ev, Ok (Some (blk bs i)))
    else (c, mkWorld d j (EvGet i :: ev), Ok None).
  Proof.
    intros W. unfold core_get. rewrite mbind_get_core.
    destruct (bf_get (c_bitfield c) i) eqn:Hi; cbn [negb]; [|reflexivity].
    rewrite mbind_get_disk. cbn [w_disk]. rewrite mbind_lift, (byte_range_held c d i W Hi).
    destruct W as (_ & _ & _ & _ & _ & _ & _ & H8). destruct (H8 i Hi) as (_ & _ & _ & Hd).
    destruct (N.eqb_spec (len (blk bs i)) 0) as [E|E].
    - apply len_zero_nil in E. rewrite E. reflexivity.
    - rewrite (Hd E). reflexivity.
  Qed.

  Corollary get_replica_sound c d j ev i c' w' v :
    RInv c d -> core_get i c (mkWorld d j ev) = (c', w', Ok (Some v)) -> v = nth (N.to_nat i) bs [].
  Proof.
    intros W H. rewrite (get_replica c d j ev i W) in H.
    destruct (bf_get (c_bitfield c) i); inversion H. reflexivity.
  Qed.

  (* ---------- (1) a fresh replica ---------- *)

  Theorem RInv_fresh kp :
    len (enc_header (header_new kp)) < 1073741824 ->
    exists d' ops c,
      core_open cr (Some kp) false disk_empty = (d', ops, Ok c) /\ RInv c d' /\ c_keypair c = kp.
  Proof.
    intros Hsmall. destruct (oplog_fresh_ok cr kp Hsmall) as [buf Hf].
    unfold core_open. cbv iota.
    change (f_content (d_oplog disk_empty)) with (@nil N).
    rewrite (oplog_open_empty cr kp _ _ _ Hf). cbn [oo_ops oo_header oo_entries oo_oplog].
    cbn [apply_sops apply_sop]. cbn [d_set d_get d_tree d_data d_bitfield d_oplog disk_empty].
    cbn [header_new hd_tree].
    assert (Tr : tree_open (mkHeaderTree 0 0 [] []) file_empty = Ok (mkTree [] 0 0 0 None nm_empty))
      by reflexivity.
    rewrite Tr. cbn [bind].
    assert (Bo : bf_open file_empty = mkBf nm_empty []) by reflexivity.
    rewrite Bo. cbn [replay_entries bind hd_keypair].
    do 3 eexists. split; [reflexivity|]. split; [|reflexivity].
    unfold RInv. cbn [c_tree c_bitfield t_length t_byte_length t_fork t_roots d_tree d_data].
    split; [lia|]. split; [reflexivity|]. split; [reflexivity|].
    split; [symmetry; apply prefix_size_0|].
    split. { intros i x H. cbn [t_unflushed] in H. rewrite nm_get_empty in H. discriminate H. }
    split. { split; [reflexivity|]. intros i data H. unfold f_read, file_empty in H. cbn [f_len] in H.
             destruct (N.leb_spec (NODE_SIZE * i + NODE_SIZE) 0); [unfold NODE_SIZE in *; lia|discriminate H]. }
    split. { intros x []. }
    intros i H. unfold bf_get in H. cbn [bf_bits] in H. rewrite nm_mem_empty in H. discriminate H.
  Qed.

  (* ---------- (3) refusal at a gate is a no-op; what else can happen ---------- *)

  Definition verifier_says (c : core) (w : world) (pf : proof) : res changeset :=
    verify_proof cr (c_tree c) (d_tree (w_disk w)) pf (kp_public (c_keypair c)).

  (* the three gates of core_apply_proof: fork, verifier, commitability *)
  Definition refused_at_gate (c : core) (w : world) (pf : proof) : Prop :=
    p_fork pf <> t_fork (c_tree c) \/
    (forall cs, verifier_says c w pf <> Ok cs) \/
    (exists cs, verifier_says c w pf = Ok cs /\ commitable (c_tree c) cs = false).

  Theorem apply_refusal_noop f pf c w :
    refused_at_gate c w pf ->
    exists r, core_apply_proof cr f pf c w = (c, w, r) /\
      (r = Ok false \/ (p_fork pf = t_fork (c_tree c) /\ (forall b, r <> Ok b) /\
                         match r, verifier_says c w pf with
                         | Err e, Err e' => e = e'
                         | Panic s, Panic s' => s = s'
                         | OutOfFuel, OutOfFuel => True
                         | _, _ => False
                         end)).
  Proof.
    intros [Hf|[Hv|(cs & Hv & Hc)]].
    - exists (Ok false). split; [apply apply_fork_mismatch, Hf|left; reflexivity].
    - destruct (N.eq_dec (p_fork pf) (t_fork (c_tree c))) as [E|E].
      + unfold verifier_says in Hv. rewrite (apply_verify_fail cr f pf c w E).
        destruct (verify_proof cr (c_tree c) (d_tree (w_disk w)) pf (kp_public (c_keypair c))) as [cs|e|s|] eqn:V.
        * exfalso. apply (Hv cs). reflexivity.
        * exists (Err e). split; [reflexivity|]. right. split; [exact E|]. split; [discriminate|].
          unfold verifier_says. rewrite V. reflexivity.
        * exists (Panic s). split; [reflexivity|]. right. split; [exact E|]. split; [discriminate|].
          unfold verifier_says. rewrite V. reflexivity.
        * exists OutOfFuel. split; [reflexivity|]. right. split; [exact E|]. split; [discriminate|].
          unfold verifier_says. rewrite V. exact I.
      + exists (Ok false). split; [apply apply_fork_mismatch, E|left; reflexivity].
    - exists (Ok false). split; [apply (apply_not_commitable cr f pf c w cs Hv Hc)|left; reflexivity].
  Qed.

  (* the part of core_apply_proof behind the gates *)
  Definition apply_tail (f : option bool) (pf : proof) (c0 : core) (d0 : disk) (cs : changeset) : M bool :=
    bu <-- (match p_block pf with
            | Some b =>
                off <-- lift (byte_offset_in_changeset (c_tree c0) (d_tree d0) (db_index b) cs) ;;;
                emit [SW Data off (db_value b)] ;;;
                ret (Some (mkBfUpdate false (db_index b) 1))
            | None => ret None
            end) ;;;
    log_and_commit cr cs bu ;;;
    maybe_flush cr f ;;;
    (match p_upgrade pf with Some _ => send EvUpgrade | None => ret tt end) ;;;
    (match bu with Some u => send (EvHave (bu_start u) (bu_length u) false) | None => ret tt end) ;;;
    ret true.

  Lemma apply_gates_pass f pf c w cs :
    p_fork pf = t_fork (c_tree c) -> verifier_says c w pf = Ok cs -> commitable (c_tree c) cs = true ->
    core_apply_proof cr f pf c w = apply_tail f pf c (w_disk w) cs c w.
  Proof.
    intros Hf Hv Hc. unfold core_apply_proof. rewrite mbind_get_core.
    apply N.eqb_eq in Hf. rewrite Hf. cbn [negb]. rewrite mbind_get_disk, mbind_lift.
    unfold verifier_says in Hv. rewrite Hv, Hc. reflexivity.
  Qed.

  Lemma send_opt_inv {X} (o : option X) (e : X -> event) c w c' w' r :
    (match o with Some x => send (e x) | None => ret tt end) c w = (c', w', r) ->
    c' = c /\ w_disk w' = w_disk w /\ w_journal w' = w_journal w /\ r = Ok tt.
  Proof. destruct o; intros H; inversion H; subst; repeat split. Qed.

  Lemma apply_tail_inv f pf c0 d0 cs c w c' w' b :
    apply_tail f pf c0 d0 cs c w = (c', w', Ok b) ->
    b = true /\
    exists bu c1 w1 c2 w2 w3,
      (match p_block pf with
       | Some b =>
           off <-- lift (byte_offset_in_changeset (c_tree c0) (d_tree d0) (db_index b) cs) ;;;
           emit [SW Data off (db_value b)] ;;;
           ret (Some (mkBfUpdate false (db_index b) 1))
       | None => ret None
       end) c w = (c1, w1, Ok bu) /\
      log_and_commit cr cs bu c1 w1 = (c2, w2, Ok tt) /\
      maybe_flush cr f c2 w2 = (c', w3, Ok tt) /\ w_disk w' = w_disk w3.
  Proof.
    unfold apply_tail. intros H.
    mstep_ok H H1 c1 w1 bu. mstep_ok H H2 c2 w2 u2. mstep_ok H H3 c3 w3 u3.
    mstep_ok H H4 c4 w4 u4. mstep_ok H H5 c5 w5 u5.
    inversion H; subst.
    apply (send_opt_inv (p_upgrade pf) (fun _ => EvUpgrade)) in H4. destruct H4 as (-> & D4 & _ & _).
    apply (send_opt_inv bu (fun u => EvHave (bu_start u) (bu_length u) false)) in H5.
    destruct H5 as (-> & D5 & _ & _).
    split; [reflexivity|]. destruct u2, u3.
    exists bu, c1, w1, c2, w2, w3. repeat split; try assumption. congruence.
  Qed.

  Theorem apply_not_accepted f pf c w c' w' r :
    core_apply_proof cr f pf c w = (c', w', r) -> r <> Ok true ->
    (c' = c /\ w' = w /\ refused_at_gate c w pf) \/
    (exists cs, p_fork pf = t_fork (c_tree c) /\ verifier_says c w pf = Ok cs /\
                commitable (c_tree c) cs = true /\ forall b, r <> Ok b).
  Proof.
    intros H Hr.
    destruct (N.eq_dec (p_fork pf) (t_fork (c_tree c))) as [E|E].
    2:{ left. rewrite (apply_fork_mismatch cr f pf c w E) in H. inversion H; subst.
        repeat split. left. exact E. }
    destruct (verifier_says c w pf) as [cs|e|s|] eqn:V.
    - destruct (commitable (c_tree c) cs) eqn:Cm.
      + right. exists cs. repeat split; try assumption.
        intros b Hb. subst r. rewrite (apply_gates_pass f pf c w cs E V Cm) in H.
        apply apply_tail_inv in H. destruct H as [-> _]. apply Hr. reflexivity.
      + left. rewrite (apply_not_commitable cr f pf c w cs V Cm) in H. inversion H; subst.
        repeat split. right. right. exists cs. split; assumption.
    - left. rewrite (apply_verify_error cr f pf c w e E V) in H. inversion H; subst.
      repeat split. right. left. intros cs. rewrite V. discriminate.
    - left. rewrite (apply_verify_panic cr f pf c w s E V) in H. inversion H; subst.
      repeat split. right. left. intros cs. rewrite V. discriminate.
    - left. rewrite (apply_verify_out_of_fuel cr f pf c w E V) in H. inversion H; subst.
      repeat split. right. left. intros cs. rewrite V. discriminate.
  Qed.

  (* ---------- stepping log_and_commit and maybe_flush backwards from success ---------- *)

  Lemma log_and_commit_inv cs bu c w c' w' u :
    log_and_commit cr cs bu c w = (c', w', Ok u) ->
    exists t', tree_commit (c_tree c) cs = Ok t' /\ c_tree c' = t' /\ c_keypair c' = c_keypair c /\
      c_bitfield c' = (match bu with Some x => bf_apply (c_bitfield c) x | None => c_bitfield c end) /\
      d_tree (w_disk w') = d_tree (w_disk w) /\ d_data (w_disk w') = d_data (w_disk w).
  Proof.
    unfold log_and_commit. rewrite mbind_get_core, mbind_lift. intros H.
    destruct (entry_of_changeset cs bu (c_header c)) as [[e h']| | |]; try discriminate H.
    rewrite mbind_lift in H.
    destruct (oplog_append cr (c_oplog c) e) as [[o' ops]| | |] eqn:OA; try discriminate H.
    apply oplog_append_shape in OA. destruct OA as (fr & ->).
    rewrite mbind_put_oplog, mbind_emit_SW, mbind_put_header in H.
    cbn [w_disk w_journal w_events c_keypair c_oplog c_tree c_bitfield c_header c_skip] in H.
    mstep_ok H H4 c4 w4 u4.
    rewrite mbind_get_core, mbind_lift in H.
    destruct (tree_commit (c_tree c4) cs) as [t'| | |] eqn:TC; try discriminate H.
    unfold put_tree in H. inversion H; subst c' w'. clear H.
    assert (E4 : c_tree c4 = c_tree c /\ c_keypair c4 = c_keypair c /\
                 c_bitfield c4 = (match bu with Some x => bf_apply (c_bitfield c) x | None => c_bitfield c end) /\
                 w_disk w4 = d_set (w_disk w) Oplog (f_write (d_get (w_disk w) Oplog) (ENTRIES_OFFSET + ol_entries_bytes (c_oplog c)) fr)).
    { destruct bu as [x|].
      - rewrite mbind_get_core, mbind_put_bitfield in H4. unfold put_header in H4.
        inversion H4; subst. cbn. repeat split.
      - unfold ret in H4. inversion H4; subst. cbn. repeat split. }
    destruct E4 as (E1 & E2 & E3 & E5).
    exists t'. rewrite <- E1. split; [exact TC|]. cbn [c_tree c_keypair c_bitfield].
    split; [reflexivity|]. split; [exact E2|]. split; [exact E3|].
    rewrite E5. destruct (w_disk w); split; reflexivity.
  Qed.

  (* what a successful maybe_flush keeps *)
  Lemma maybe_flush_inv f c w c' w' u r :
    maybe_flush cr f c w = (c', w', Ok u) ->
    unfl_sound cr bs (c_tree c) r -> file_sound cr bs (d_tree (w_disk w)) r ->
    c_keypair c' = c_keypair c /\
    (forall i, bf_get (c_bitfield c') i = bf_get (c_bitfield c) i) /\
    t_roots (c_tree c') = t_roots (c_tree c) /\ t_length (c_tree c') = t_length (c_tree c) /\
    t_byte_length (c_tree c') = t_byte_length (c_tree c) /\ t_fork (c_tree c') = t_fork (c_tree c) /\
    d_data (w_disk w') = d_data (w_disk w) /\
    unfl_sound cr bs (c_tree c') r /\ file_sound cr bs (d_tree (w_disk w')) r /\
    (forall j x, NODE_SIZE * j <= u64_max ->
       required_node (c_tree c) (d_tree (w_disk w)) j = Ok x ->
       required_node (c_tree c') (d_tree (w_disk w')) j = Ok x).
  Proof.
    intros H Hu Hf. destruct Hw as [Hw1 Hw2].
    unfold maybe_flush in H. rewrite mbind_get_core in H.
    match type of H with (if ?b then _ else _) _ _ = _ => destruct b end.
    - rewrite mbind_put_skip in H.
      set (c1 := mkCore (c_keypair c) (c_oplog c) (c_tree c) (c_bitfield c) (c_header c) 3) in *.
      pose proof (unfl_sound_ok cr Hhash32 bs (c_tree c) r Hw1 Hu) as Hok.
      destruct (flush_all_spec cr Hhash32 Hnonblank c1 w Hok)
        as [(c2 & w2 & E)|(o' & d' & jn & t' & tops & d1 & d2 & E & TF & T1 & D1 & A2 & T3 & D3)];
        rewrite E in H; [discriminate H|]. inversion H; subst c' w'. clear H E.
      cbn [c_keypair c_tree c_bitfield w_disk] in *.
      destruct (tree_flush_other_stores (c_tree c) t' tops d1 d2 TF A2 Hok)
        as (Q1 & _ & _ & R1 & R2 & R3 & R4 & _).
      rewrite <- T1 in Hf.
      destruct (tree_flush_sound cr Hhash32 Hnonblank bs (c_tree c) t' tops d1 d2 r Hw1 TF A2 Hu Hf) as [S1 S2].
      split; [reflexivity|]. split; [intros i; reflexivity|].
      split; [exact R1|]. split; [exact R2|]. split; [exact R3|]. split; [exact R4|].
      split; [congruence|]. split; [exact S1|]. split; [rewrite T3; exact S2|].
      intros j x Hj Hr. rewrite T3.
      apply (tree_flush_preserves_lookups (c_tree c) t' tops d1 d2 j x TF A2 Hok Hj).
      rewrite T1. exact Hr.
    - unfold put_skip in H. inversion H; subst c' w'. cbn [c_keypair c_tree c_bitfield].
      split; [reflexivity|]. split; [intros i; reflexivity|].
      do 5 (split; [reflexivity|]). split; [exact Hu|]. split; [exact Hf|].
      intros k x _ Hr. exact Hr.
  Qed.

  (* ---------- preservation: flush ---------- *)

  Lemma index_fits d o r :
    (o + 1) * p2 d <= r -> r <= N.of_nat (length bs) -> NODE_SIZE * ft_index (N.of_nat d) o <= u64_max.
  Proof.
    intros H1 H2. destruct Hw as [_ Hw2].
    pose proof (ft_index_succ (N.of_nat d) o) as S. rewrite p2_N in S. pose proof (p2_pos d).
    unfold NODE_SIZE in *. nia.
  Qed.

  Lemma root_is_ref r x :
    In x (ref_roots cr bs r) -> exists D P, x = ref_node cr bs D P /\ is_root r D P.
  Proof.
    rewrite ref_roots_rrl. intros H. apply in_map_iff in H. destruct H as ([D P] & <- & Hin).
    exists D, P. split; [reflexivity|]. apply rrl0_in. apply in_rev. exact Hin.
  Qed.

  Lemma RInv_flush f c d j ev c' w' u :
    RInv c d -> maybe_flush cr f c (mkWorld d j ev) = (c', w', Ok u) -> RInv c' (w_disk w').
  Proof.
    intros (H1 & H2 & H3 & H4 & H5 & H6 & H7 & H8) H.
    destruct (maybe_flush_inv f c _ c' w' u _ H H5 H6)
      as (_ & Gb & Gr & Gl & Gbl & Gf & Gd & Gu & Gfs & Gav).
    cbn [w_disk] in *.
    unfold RInv. rewrite Gr, Gl, Gbl, Gf, Gd.
    split; [exact H1|]. split; [exact H2|]. split; [exact H3|]. split; [exact H4|].
    split; [exact Gu|]. split; [exact Gfs|]. split.
    - intros x Hx. apply Gav; [|apply H7, Hx].
      rewrite H3 in Hx. destruct (root_is_ref _ _ Hx) as (D & P & -> & Hroot).
      rewrite ref_node_index. apply (index_fits D P (t_length (c_tree c))); [|exact H1].
      apply is_root_bounds, Hroot.
    - intros i Hi. rewrite Gb in Hi. destruct (H8 i Hi) as (A1 & A2 & A3 & A4).
      split; [exact A1|]. split; [|split; [|exact A4]].
      + apply Gav; [|exact A2]. replace (2 * i) with (ft_index (N.of_nat 0) i)
          by (change (N.of_nat 0) with 0; apply ft_index_leaf).
        apply (index_fits 0 i (t_length (c_tree c))); [rewrite p2_0; lia|exact H1].
      + intros dd oo C1 C2 C3. apply Gav; [|apply A3; assumption].
        apply (index_fits dd (2 * oo) (t_length (c_tree c))); [|exact H1].
        pose proof (p2_pos dd). nia.
  Qed.

  (* ---------- preservation: a verified block is stored ---------- *)

  Lemma RInv_block_step c d c2 d2 i k :
    RInv c d ->
    let t := c_tree c in let r := t_length t in
    span_end k (i / p2 k) <= r ->
    (forall dd oo, (k <= dd)%nat -> (2 * oo + 1) * p2 dd <= i -> i < (2 * oo + 2) * p2 dd ->
       (2 * oo + 2) * p2 dd <= r ->
       required_node t (d_tree d) (ft_index (N.of_nat dd) (2 * oo)) = Ok (ref_node cr bs dd (2 * oo))) ->
    c_tree c2 = mkTree (t_roots t) (t_length t) (t_byte_length t) (t_fork t) (t_signature t)
                  (add_nodes (t_unflushed t) (ref_node cr bs 0 i :: ref_path cr bs k 0 i)) ->
    (forall i', bf_get (c_bitfield c2) i' = bf_get (bf_apply (c_bitfield c) (mkBfUpdate false i 1)) i') ->
    d_tree d2 = d_tree d ->
    d_data d2 = f_write (d_data d) (prefix_size bs i) (blk bs i) ->
    RInv c2 d2.
  Proof.
    intros (H1 & H2 & H3 & H4 & H5 & H6 & H7 & H8) t r Hspan Hhigh Ht Hb Hdt Hdd.
    destruct Hw as [Hw1 Hw2].
    destruct (div_p2_bounds i k) as [B1 B2]. unfold span_end in Hspan.
    assert (Hir : i < r) by lia.
    set (l := ref_node cr bs 0 i :: ref_path cr bs k 0 i) in *.
    assert (Hauth : forall x, In x l -> authentic cr bs r x).
    { intros x [<-|Hx].
      - unfold authentic. rewrite ref_node_index. split; [symmetry; apply ref_at_index|].
        apply in_len_index. pose proof (span_end_up k 0 i) as U. unfold span_end in U.
        cbn [Nat.add] in U. lia.
      - pose proof (ref_path_authentic cr bs Hw1 r k 0 i) as A. cbn [Nat.add] in A.
        specialize (A Hspan). rewrite Forall_forall in A. apply A, Hx. }
    assert (Hu : t_unflushed (c_tree c2) = add_nodes (t_unflushed t) l) by (rewrite Ht; reflexivity).
    assert (Hlook : forall jx, (required_node t (d_tree d) jx = Ok (ref_at cr bs jx) \/
                                exists x, In x l /\ n_index x = jx) ->
                               required_node (c_tree c2) (d_tree d) jx = Ok (ref_at cr bs jx)).
    { intros jx. apply (add_nodes_lookup cr Hnonblank bs t (c_tree c2) (d_tree d) r l jx Hauth Hu). }
    assert (El : t_length (c_tree c2) = r) by (rewrite Ht; reflexivity).
    assert (Ef : t_fork (c_tree c2) = t_fork t) by (rewrite Ht; reflexivity).
    assert (Er : t_roots (c_tree c2) = t_roots t) by (rewrite Ht; reflexivity).
    assert (Eb : t_byte_length (c_tree c2) = t_byte_length t) by (rewrite Ht; reflexivity).
    unfold RInv. cbv zeta. rewrite El, Ef, Er, Eb, Hdt, Hdd. fold t r.
    split; [exact H1|]. split; [exact H2|]. split; [exact H3|]. split; [exact H4|].
    split; [apply (add_nodes_sound cr bs t (c_tree c2) r l H5 Hauth Hu)|].
    split; [exact H6|]. split.
    { intros x Hx. pose proof (H7 x Hx) as Hreq. fold t in Hreq.
      fold t r in H3. rewrite H3 in Hx. destruct (root_is_ref _ _ Hx) as (D & P & -> & _).
      rewrite ref_node_index in *. rewrite <- (T_at cr bs D P) in *. apply Hlook. left. exact Hreq. }
    intros i' Hi'. rewrite Hb, bf_get_apply in Hi'. cbn [bu_start bu_length bu_drop negb] in Hi'.
    destruct (N.eq_dec i' i) as [->|Hne].
    - (* the block just stored *)
      split; [exact Hir|]. split; [|split].
      + replace (2 * i) with (ft_index (N.of_nat 0) i) by (change (N.of_nat 0) with 0; apply ft_index_leaf).
        rewrite <- (T_at cr bs 0 i). apply Hlook. right. exists (ref_node cr bs 0 i).
        split; [left; reflexivity|apply ref_node_index].
      + intros dd oo C1 C2 C3. rewrite <- (T_at cr bs dd (2 * oo)). apply Hlook.
        destruct (Nat.lt_ge_cases dd k) as [L|L].
        * right. exists (ref_node cr bs dd (2 * oo)). split; [|apply ref_node_index].
          right. pose proof (ref_path_sib_in cr bs Hw1 k 0 i dd L) as Hin. cbn [Nat.add] in Hin.
          rewrite (div_p2_unique i dd oo C1 C2) in Hin.
          replace (sib (2 * oo + 1)) with (2 * oo) in Hin; [exact Hin|].
          unfold sib. assert (N.even (2 * oo + 1) = false) as -> by (rewrite even_mod; lia). lia.
        * left. rewrite (T_at cr bs dd (2 * oo)). apply Hhigh; assumption.
      + intros _. apply f_read_write_same.
    - (* a block held before *)
      assert (Hold : bf_get (c_bitfield c) i' = true).
      { destruct ((i <=? i') && (i' <? i + 1)) eqn:E; [lia|exact Hi']. }
      destruct (H8 i' Hold) as (A1 & A2 & A3 & A4). fold t r in A1, A2, A3.
      split; [exact A1|]. split; [|split].
      + replace (2 * i') with (ft_index (N.of_nat 0) i') in * by (change (N.of_nat 0) with 0; apply ft_index_leaf).
        rewrite <- (T_at cr bs 0 i') in *. apply Hlook. left. exact A2.
      + intros dd oo C1 C2 C3. specialize (A3 dd oo C1 C2 C3).
        rewrite <- (T_at cr bs dd (2 * oo)) in *. apply Hlook. left. exact A3.
      + intros Hlen. specialize (A4 Hlen). pose proof A4 as A4'. apply f_read_spec in A4'.
        destruct A4' as (Bd & _ & _).
        rewrite f_read_write_other; [exact A4|exact Bd|].
        destruct (N.lt_ge_cases i' i) as [L|L].
        * left. rewrite <- prefix_size_succ. apply prefix_size_le_mono. lia.
        * right. rewrite <- prefix_size_succ. apply prefix_size_le_mono. lia.
  Qed.

  (* ---------- MAIN, block section only ---------- *)

  Lemma accepted_gates f pf c w c' w' :
    core_apply_proof cr f pf c w = (c', w', Ok true) ->
    exists cs, p_fork pf = t_fork (c_tree c) /\ verifier_says c w pf = Ok cs /\
      commitable (c_tree c) cs = true /\ apply_tail f pf c (w_disk w) cs c w = (c', w', Ok true).
  Proof.
    intros H.
    destruct (N.eq_dec (p_fork pf) (t_fork (c_tree c))) as [E|E].
    2:{ rewrite (apply_fork_mismatch cr f pf c w E) in H. discriminate H. }
    destruct (verifier_says c w pf) as [cs|e|s|] eqn:V.
    - destruct (commitable (c_tree c) cs) eqn:Cm.
      + exists cs. rewrite <- (apply_gates_pass f pf c w cs E V Cm). auto.
      + rewrite (apply_not_commitable cr f pf c w cs V Cm) in H. discriminate H.
    - rewrite (apply_verify_error cr f pf c w e E V) in H. discriminate H.
    - rewrite (apply_verify_panic cr f pf c w s E V) in H. discriminate H.
    - rewrite (apply_verify_out_of_fuel cr f pf c w E V) in H. discriminate H.
  Qed.

  Theorem apply_keeps_replica_consistent_block f fork b c d j ev c' w' :
    RInv c d ->
    core_apply_proof cr f (mkProof fork (Some b) None None None) c (mkWorld d j ev) = (c', w', Ok true) ->
    RInv c' (w_disk w') \/ some_collision cr.
  Proof.
    intros W H. pose proof W as (H1 & H2 & H3 & H4 & H5 & H6 & H7 & H8).
    destruct Hw as [Hw1 Hw2].
    destruct (accepted_gates _ _ _ _ _ _ H) as (cs & Ef & V & Cm & Ht). clear H.
    apply apply_tail_inv in Ht. destruct Ht as (_ & bu & c1 & w1 & c2 & w2 & w3 & Hbu & Hlc & Hmf & Hd3).
    cbn [p_block w_disk] in Hbu, V. unfold verifier_says in V. cbn [w_disk] in V.
    destruct (verify_block_inv cr Hhash32 Hnonblank bs Hw1 _ _ _ _ _ _ _ H5 H6 V)
      as [(k & Hvb)|C]; [|right; exact C].
    cbv zeta in Hvb. destruct Hvb as (Ev & Ecs & Htop & Hspan & Hi2).
    set (i := db_index b) in *. set (t := c_tree c) in *. set (r := t_length t) in *.
    assert (Hr63 : r <= 2 ^ 63) by (apply u64_63; unfold NODE_SIZE in *; lia).
    rewrite mbind_lift in Hbu.
    destruct (byte_offset_in_changeset t (d_tree d) i cs) as [off| | |] eqn:Hoff; try discriminate Hbu.
    rewrite mbind_emit_SW in Hbu. unfold ret in Hbu. inversion Hbu; subst c1 w1 bu. clear Hbu.
    rewrite Ecs in Hoff.
    destruct (block_offset_inv cr bs Hw1 t (d_tree d) r i k off H5 H6 H3 eq_refl Hr63 Hi2 Hspan Hoff)
      as (-> & Hhigh).
    apply log_and_commit_inv in Hlc.
    destruct Hlc as (t' & Htc & Et' & _ & Ebf & Edt & Edd). cbn [w_disk d_set d_get d_tree d_data] in Edt, Edd.
    assert (Et : t' = mkTree (t_roots t) (t_length t) (t_byte_length t) (t_fork t) (t_signature t)
                       (add_nodes (t_unflushed t) (ref_node cr bs 0 i :: ref_path cr bs k 0 i))).
    { fold t in Htc. unfold tree_commit in Htc. rewrite Cm in Htc. cbn [negb] in Htc.
      rewrite Ecs in Htc. cbn [cs_push_nodes cs_upgraded tree_changeset] in Htc.
      injection Htc as <-. f_equal. rewrite cs_nodes_push_fresh. reflexivity. }
    assert (W2 : RInv c2 (w_disk w2)).
    { pose proof (RInv_block_step c d c2 (w_disk w2) i k W) as Step. cbv zeta in Step.
      apply Step; clear Step.
      - exact Hspan.
      - exact Hhigh.
      - rewrite Et'. exact Et.
      - intros i'. rewrite Ebf. reflexivity.
      - rewrite Edt. destruct d; reflexivity.
      - rewrite Edd, Ev. destruct d; reflexivity. }
    left. rewrite Hd3. destruct w2 as [d2 j2 ev2]. apply (RInv_flush f c2 d2 j2 ev2 c' w3 tt W2 Hmf).
  Qed.
End Replica.

(* ====================================================================================== *)
(* 9. The size carve-out is NOT harmless (counterexamples on the toy instance of Replicate.v) *)
(* ====================================================================================== *)

(* The parent hash binds only the SUM of the sizes of its two children (Sound.parent_hash_length_split).
   A proof in which two supplied sibling nodes carry sizes shifted by +1 / -1 is accepted, and the two
   nodes are stored as they came.  The unrestricted reading of C04
       "after ANY accepted proof, every held block equals the writer's"
   (and RInv preserved by every accepted proof with a hash / seek section, or with an upgrade section
   carrying additional nodes) is FALSE:

   history A (hash section; writer = 5 blocks [1;2;3] [] [4] [5;6;7;8] [9;10], replica synced to 5):
     1. hash-section proof for flat index 4 = the writer's own proof with node 4 size 1 -> 2 and
        node 6 size 4 -> 3: accepted (Ok true);
     2. the writer's honest block proof for block 3 (the replica asks for 0 nodes: leaf 6 is stored):
        accepted, the block is written at byte 5 instead of 4; get(3) = [5;6;7;8];
     3. the writer's honest block proof for block 2: accepted, leaf 4 is overwritten with its true size;
     now get(3) = Some [0;5;6;7] although the writer's block 3 is [5;6;7;8].
   history B (upgrade section with additional nodes, fresh replica): the writer's proof for the
     partial upgrade 0..3 carries nodes [1;4] and additional nodes [6;8]; with node 4 size 1 -> 2 and
     node 6 size 4 -> 3 it is accepted; then steps 2 and 3 as above give the same wrong read.
   /repo/src/tree/merkle_tree.rs verify_proof compares only `.hash` of the stored node with the
   computed root, so the crate behaves in the same way. *)

Definition co_fetch (s : option (core * world)) (i : N) : option (core * world) * option (res bool) :=
  match snd (ex_run s (core_missing_nodes i)) with
  | Some (Ok k) =>
      match snd (ex_run ex_W (core_create_proof (Some (mkReqBlock i k)) None None None)) with
      | Some (Ok (Some pf)) => ex_run s (core_apply_proof ex_cr (Some false) pf)
      | _ => (None, None)
      end
  | _ => (None, None)
  end.

Definition co_resize (x : node) (l : N) : node := mkNode (n_index x) l (n_hash x).

(* history A *)
Definition co_hash_proof : option proof :=
  match snd (ex_run ex_W (core_create_proof None (Some (mkReqBlock 4 2)) None None)) with
  | Some (Ok (Some pf)) =>
      match p_hash pf with
      | Some h =>
          match dh_nodes h with
          | n4 :: n6 :: rest =>
              Some (mkProof (p_fork pf) None
                      (Some (mkDataHash (dh_index h)
                               (co_resize n4 (n_length n4 + 1) :: co_resize n6 (n_length n6 - 1) :: rest)))
                      None None)
          | _ => None
          end
      | None => None
      end
  | _ => None
  end.

Definition co_A1 := match co_hash_proof with
                    | Some pf => ex_run (fst ex_R1) (core_apply_proof ex_cr (Some false) pf)
                    | None => (None, None)
                    end.
Definition co_A2 := co_fetch (fst co_A1) 3.
Definition co_A3 := co_fetch (fst co_A2) 2.

Example size_carveout_refuted :
  snd co_A1 = Some (Ok true) /\
  snd co_A2 = Some (Ok true) /\ snd (ex_run (fst co_A2) (core_get 3)) = Some (Ok (Some [5; 6; 7; 8])) /\
  snd co_A3 = Some (Ok true) /\
  snd (ex_run (fst co_A3) (core_get 3)) = Some (Ok (Some [0; 5; 6; 7])) /\
  snd (ex_run ex_W (core_get 3)) = Some (Ok (Some [5; 6; 7; 8])).
Proof. vm_compute. repeat split. Qed.

(* history B *)
Definition co_upgrade_proof : option proof :=
  match snd (ex_run ex_W (core_create_proof None None None (Some (mkReqUpgrade 0 3)))) with
  | Some (Ok (Some pf)) =>
      match p_upgrade pf with
      | Some u =>
          match du_nodes u, du_additional u with
          | [n1; n4], n6 :: rest =>
              Some (mkProof (p_fork pf) None None None
                      (Some (mkDataUpgrade (du_start u) (du_length u)
                               [n1; co_resize n4 (n_length n4 + 1)]
                               (co_resize n6 (n_length n6 - 1) :: rest) (du_signature u))))
          | _, _ => None
          end
      | None => None
      end
  | _ => None
  end.

Definition co_B1 := match co_upgrade_proof with
                    | Some pf => ex_run ex_R0 (core_apply_proof ex_cr (Some false) pf)
                    | None => (None, None)
                    end.
Definition co_B2 := co_fetch (fst co_B1) 3.
Definition co_B3 := co_fetch (fst co_B2) 2.

Example size_carveout_upgrade_additional_refuted :
  snd co_B1 = Some (Ok true) /\
  snd co_B2 = Some (Ok true) /\ snd (ex_run (fst co_B2) (core_get 3)) = Some (Ok (Some [5; 6; 7; 8])) /\
  snd co_B3 = Some (Ok true) /\
  snd (ex_run (fst co_B3) (core_get 3)) = Some (Ok (Some [0; 5; 6; 7])) /\
  snd (ex_run ex_W (core_get 3)) = Some (Ok (Some [5; 6; 7; 8])).
Proof. vm_compute. repeat split. Qed.

(* ====================================================================================== *)
(* 10. Non-vacuity: a toy instance on which all hypotheses hold together                    *)
(* ====================================================================================== *)

(* a 32-byte hash that is never blank (first byte 1) and depends on every input byte *)
Definition sc_hash (x : bytes) : bytes :=
  1 :: map (fun j => (fold_left (fun a b => (a * 31 + b + j) mod 65521) x 7) mod 256) (nrange 0 31).
Definition sc_sign (k m : bytes) : bytes := sc_hash (k ++ m) ++ sc_hash (m ++ k).
Definition sc_cr : crypto :=
  mkCrypto sc_hash (fun _ => 0) sc_sign (fun pk m s => bytes_eqb s (sc_sign pk m)).

Lemma sc_hash32 : forall x, length (cr_hash sc_cr x) = 32%nat.
Proof. intros x. cbn [cr_hash sc_cr]. unfold sc_hash. cbn [length]. rewrite map_length, nrange_length. reflexivity. Qed.

Lemma sc_nonblank : forall x, all_zero (cr_hash sc_cr x) = false.
Proof. intros x. reflexivity. Qed.

Definition sc_key : bytes := repeat 5 32.
Definition sc_blocks : list bytes := [[1; 2; 3]; []; [4]; [5; 6; 7; 8]; [9; 10]; [11]].

Lemma sc_writer_fits : writer_fits sc_blocks.
Proof. split; vm_compute; discriminate. Qed.

Definition sc_open (kp : keypair) : option (core * world) :=
  match core_open sc_cr (Some kp) false disk_empty with
  | (d, _, Ok c0) => Some (c0, mkWorld d [] [])
  | _ => None
  end.
(* writer: six blocks; replica: public key only, synced by the writer's upgrade proof *)
Definition sc_W := fst (ex_run (sc_open (mkKeypair sc_key (Some sc_key))) (core_append sc_cr (Some true) sc_blocks)).
Definition sc_R0 := sc_open (mkKeypair sc_key None).
Definition sc_R1 :=
  match snd (ex_run sc_W (core_create_proof None None None (Some (mkReqUpgrade 0 6)))) with
  | Some (Ok (Some pf)) => ex_run sc_R0 (core_apply_proof sc_cr (Some false) pf)
  | _ => (None, None)
  end.
(* the writer's proof for block i, with the number of nodes the replica asks for *)
Definition sc_block_proof (s : option (core * world)) (i : N) : option proof :=
  match snd (ex_run s (core_missing_nodes i)) with
  | Some (Ok k) =>
      match snd (ex_run sc_W (core_create_proof (Some (mkReqBlock i k)) None None None)) with
      | Some (Ok (Some pf)) => Some pf
      | _ => None
      end
  | _ => None
  end.
Definition sc_fetch (s : option (core * world)) (i : N) :=
  match sc_block_proof s i with
  | Some pf => ex_run s (core_apply_proof sc_cr (Some false) pf)
  | None => (None, None)
  end.

(* the replica fetches blocks 4, 1, 5 in this order and reads them back *)
Example sc_replication :
  snd sc_R1 = Some (Ok true) /\
  snd (sc_fetch (fst sc_R1) 4) = Some (Ok true) /\
  snd (sc_fetch (fst (sc_fetch (fst sc_R1) 4)) 1) = Some (Ok true) /\
  (let s := fst (sc_fetch (fst (sc_fetch (fst (sc_fetch (fst sc_R1) 4)) 1)) 5) in
   snd (ex_run s (core_get 4)) = Some (Ok (Some [9; 10])) /\
   snd (ex_run s (core_get 1)) = Some (Ok (Some [])) /\
   snd (ex_run s (core_get 5)) = Some (Ok (Some [11])) /\
   snd (ex_run s (core_get 0)) = Some (Ok None)).
Proof. vm_compute. repeat split. Qed.

(* the synced replica (no block held yet) satisfies the invariant: a non-trivial state, with two
   roots (flat 3 and 9) among its unflushed nodes *)
Example sc_RInv_synced :
  match fst sc_R1 with
  | Some (c, w) => RInv sc_cr sc_blocks c (w_disk w) /\ t_length (c_tree c) = 6 /\
                   map n_index (t_roots (c_tree c)) = [3; 9]
  | None => False
  end.
Proof.
  destruct (fst sc_R1) as [[c w]|] eqn:E; [|vm_compute in E; discriminate E].
  vm_compute in E. injection E as <- <-.
  split; [|split; vm_compute; reflexivity].
  unfold RInv. cbv zeta.
  split; [vm_compute; discriminate|]. split; [reflexivity|].
  split; [vm_compute; reflexivity|]. split; [vm_compute; reflexivity|].
  split.
  { intros j nd G. apply nm_elements_in in G. vm_compute in G.
    destruct G as [G|[G|[]]]; injection G as <- <-; (split; [vm_compute; reflexivity|vm_compute; intros Hx; discriminate Hx]). }
  split.
  { split; [reflexivity|]. intros j data H. cbn [d_tree w_disk] in H. unfold f_read in H. cbn [f_len] in H.
    destruct (N.leb_spec (NODE_SIZE * j + NODE_SIZE) 0); [unfold NODE_SIZE in *; lia|discriminate H]. }
  split.
  { intros x Hx. cbn [c_tree t_roots] in Hx.
    destruct Hx as [<-|[<-|[]]]; vm_compute; reflexivity. }
  intros i Hi. exfalso. unfold bf_get in Hi. cbn [c_bitfield bf_bits] in Hi.
  rewrite nm_mem_empty in Hi. discriminate Hi.
Qed.

(* the block theorem applies to the synced replica and the writer's proof for block 4 (one sibling
   node, verified against the stored node 9): all hypotheses hold, the proof is accepted *)
Example sc_block_theorem_applies :
  match fst sc_R1, sc_block_proof (fst sc_R1) 4 with
  | Some (c, w), Some pf =>
      exists b c' w',
        pf = mkProof 0 (Some b) None None None /\ db_index b = 4 /\ db_value b = [9; 10] /\
        map n_index (db_nodes b) = [10] /\
        core_apply_proof sc_cr (Some false) pf c w = (c', w', Ok true) /\
        (RInv sc_cr sc_blocks c' (w_disk w') \/ some_collision sc_cr)
  | _, _ => False
  end.
Proof.
  pose proof sc_RInv_synced as HR.
  destruct (fst sc_R1) as [[c w]|] eqn:E; [|destruct HR].
  destruct HR as [HR _].
  destruct (sc_block_proof (Some (c, w)) 4) as [pf|] eqn:Ep.
  2:{ vm_compute in E. injection E as <- <-. vm_compute in Ep. discriminate Ep. }
  destruct (core_apply_proof sc_cr (Some false) pf c w) as [[c' w'] r] eqn:Ea.
  assert (Hshape : exists b, pf = mkProof 0 (Some b) None None None /\ db_index b = 4 /\
                             db_value b = [9; 10] /\ map n_index (db_nodes b) = [10] /\ r = Ok true).
  { vm_compute in E. injection E as <- <-. vm_compute in Ep. injection Ep as <-.
    vm_compute in Ea. injection Ea as _ _ <-. eexists. repeat split. }
  destruct Hshape as (b & -> & H1 & H2 & H3 & ->).
  exists b, c', w'. repeat split; try assumption.
  destruct w as [d j ev].
  apply (apply_keeps_replica_consistent_block sc_cr sc_hash32 sc_nonblank sc_blocks sc_writer_fits
           (Some false) 0 b c d j ev c' w' HR Ea).
Qed.

(* reads on the synced replica follow get_replica: nothing is held yet *)
Example sc_get_applies :
  match fst sc_R1 with
  | Some (c, w) => forall i, exists ev', core_get i c w = (c, mkWorld (w_disk w) (w_journal w) ev', Ok None)
  | None => False
  end.
Proof.
  pose proof sc_RInv_synced as HR.
  destruct (fst sc_R1) as [[c w]|] eqn:E; [|destruct HR]. destruct HR as [HR _].
  intros i. destruct w as [d j ev].
  rewrite (get_replica sc_cr sc_blocks sc_writer_fits c d j ev i HR).
  assert (Hb : bf_get (c_bitfield c) i = false).
  { vm_compute in E. injection E as <- _. unfold bf_get. cbn [c_bitfield bf_bits]. apply nm_mem_empty. }
  rewrite Hb. eexists. reflexivity.
Qed.

(* a refused proof: the same block proof with one byte of the value changed is refused at the
   verifier gate, nothing changes *)
Example sc_refusal_applies :
  match fst sc_R1, sc_block_proof (fst sc_R1) 4 with
  | Some (c, w), Some pf =>
      match p_block pf with
      | Some b =>
          let pf' := mkProof 0 (Some (mkDataBlock (db_index b) [9; 11] (db_nodes b))) None None None in
          refused_at_gate sc_cr c w pf' /\
          core_apply_proof sc_cr (Some false) pf' c w = (c, w, Err InvalidChecksum)
      | None => False
      end
  | _, _ => False
  end.
Proof.
  destruct (fst sc_R1) as [[c w]|] eqn:E; [|vm_compute in E; discriminate E].
  vm_compute in E. injection E as <- <-.
  vm_compute (sc_block_proof _ 4). cbv iota beta. cbn [p_block]. cbv zeta.
  split.
  - right. left. intros cs. unfold verifier_says. vm_compute. discriminate.
  - vm_compute. reflexivity.
Qed.

Print Assumptions get_replica.
Print Assumptions get_replica_sound.
Print Assumptions RInv_fresh.
Print Assumptions apply_refusal_noop.
Print Assumptions apply_not_accepted.
Print Assumptions RInv_flush.
Print Assumptions RInv_block_step.
Print Assumptions apply_keeps_replica_consistent_block.
Print Assumptions size_carveout_refuted.
Print Assumptions size_carveout_upgrade_additional_refuted.
Print Assumptions sc_replication.
Print Assumptions sc_RInv_synced.
Print Assumptions sc_block_theorem_applies.
Print Assumptions sc_get_applies.
Print Assumptions sc_refusal_applies.

(* CrashCore3.v — C02 over all four stores, part 3: histories with crashes.
   Operations: append/batch, get, has, info, reopen, and CRASH k = the next append is cut after k
   operations of its journal and the core is reopened from the disk reached.  Every observation is the
   list model's, where a crashed append took effect completely (k >= 2: its oplog entry reached the
   store) or not at all (k = 0, 1). *)
From HC Require Import Base NMap Codec CodecFacts Crypto FlatTree Storage Bitfield Oplog Merkle Core.
From HC Require Import FlatTreeFacts StorageFacts BitfieldFacts OplogFacts TreeRef OffsetFacts CoreFacts Crash Refine Reopen.
From HC Require Import ContigBridge CrashCore1 CrashCore2.
From Coq Require Import FMapPositive ZifyN ZifyNat ZifyBool.
Ltac Zify.zify_post_hook ::= Z.div_mod_to_equations.
Arguments N.add : simpl never.
Arguments N.sub : simpl never.
Arguments N.mul : simpl never.
Arguments N.div : simpl never.
Arguments N.modulo : simpl never.
Arguments N.pow : simpl never.
Arguments N.eqb : simpl never.
Arguments N.ltb : simpl never.
Arguments N.leb : simpl never.
Arguments N.of_nat : simpl never.
Arguments N.to_nat : simpl never.

Inductive xop :=
| XAppend (f : option bool) (batch : list bytes)   (* f: the forced flush decision *)
| XGet (i : N)
| XHas (i : N)
| XInfo
| XReopen                                           (* drop the writer, open the same storage again *)
| XCrash (f : option bool) (batch : list bytes) (k : nat).
    (* the process dies during this append, after k operations of its journal; then the storage is opened *)

Inductive xobs :=
| XOAppend (r : res (N * N))
| XOGet (r : res (option bytes))
| XOHas (b : bool)
| XOInfo (i : info)
| XOReopen (r : res unit)
| XOCrash (r : res unit).        (* the result of the open after the crash *)

(* does an append cut after k journal operations take effect?  Its journal is: data write, oplog
   entry write, then the flush group.  The entry write is the commit point. *)
Definition took_effect (k : nat) : bool := negb (k <? 2)%nat.

(* the list model *)
Fixpoint xspec_obs (ops : list xop) (bs : list bytes) : list xobs :=
  match ops with
  | [] => []
  | XAppend _ batch :: rest =>
      XOAppend (Ok (N.of_nat (length (bs ++ batch)), sumN (map len (bs ++ batch)))) :: xspec_obs rest (bs ++ batch)
  | XGet i :: rest =>
      XOGet (Ok (if i <? N.of_nat (length bs) then Some (nth (N.to_nat i) bs []) else None)) :: xspec_obs rest bs
  | XHas i :: rest => XOHas (i <? N.of_nat (length bs)) :: xspec_obs rest bs
  | XInfo :: rest =>
      XOInfo (mkInfo (N.of_nat (length bs)) (sumN (map len bs)) (N.of_nat (length bs)) 0 true) :: xspec_obs rest bs
  | XReopen :: rest => XOReopen (Ok tt) :: xspec_obs rest bs
  | XCrash _ batch k :: rest =>
      XOCrash (Ok tt) :: xspec_obs rest (if took_effect k then bs ++ batch else bs)
  end.

(* the same with the effect of each crashed append given by a list of booleans *)
Fixpoint xspec_choice (ops : list xop) (ch : list bool) (bs : list bytes) : list xobs :=
  match ops with
  | [] => []
  | XAppend _ batch :: rest =>
      XOAppend (Ok (N.of_nat (length (bs ++ batch)), sumN (map len (bs ++ batch)))) :: xspec_choice rest ch (bs ++ batch)
  | XGet i :: rest =>
      XOGet (Ok (if i <? N.of_nat (length bs) then Some (nth (N.to_nat i) bs []) else None)) :: xspec_choice rest ch bs
  | XHas i :: rest => XOHas (i <? N.of_nat (length bs)) :: xspec_choice rest ch bs
  | XInfo :: rest =>
      XOInfo (mkInfo (N.of_nat (length bs)) (sumN (map len bs)) (N.of_nat (length bs)) 0 true) :: xspec_choice rest ch bs
  | XReopen :: rest => XOReopen (Ok tt) :: xspec_choice rest ch bs
  | XCrash _ batch k :: rest =>
      match ch with
      | b :: ch' => XOCrash (Ok tt) :: xspec_choice rest ch' (if b then bs ++ batch else bs)
      | [] => []
      end
  end.

Fixpoint xchoices (ops : list xop) : list bool :=
  match ops with
  | [] => []
  | XCrash _ _ k :: rest => took_effect k :: xchoices rest
  | _ :: rest => xchoices rest
  end.

Lemma xspec_choice_det ops : forall bs, xspec_choice ops (xchoices ops) bs = xspec_obs ops bs.
Proof.
  induction ops as [|op ops IH]; intros bs; [reflexivity|].
  destruct op; cbn [xspec_choice xspec_obs xchoices]; rewrite ?IH; reflexivity.
Qed.

(* all blocks any operation of the history tries to append *)
Fixpoint xappended (ops : list xop) : list bytes :=
  match ops with
  | [] => []
  | XAppend _ batch :: rest => batch ++ xappended rest
  | XCrash _ batch _ :: rest => batch ++ xappended rest
  | _ :: rest => xappended rest
  end.

(* the operations a call added to the journal (oldest first), from the journals before and after *)
Definition journal_delta (j j' : list sop) : list sop := rev (firstn (length j' - length j) j').

Lemma journal_delta_spec delta j : journal_delta j (rev delta ++ j) = delta.
Proof.
  unfold journal_delta. rewrite app_length.
  replace (length (rev delta) + length j - length j)%nat with (length (rev delta)) by lia.
  rewrite firstn_app, firstn_all, Nat.sub_diag. cbn [firstn]. rewrite app_nil_r. apply rev_involutive.
Qed.

Lemma sum_app3 (a b c : list bytes) : sumN (map len (a ++ c)) <= sumN (map len (a ++ b ++ c)).
Proof. rewrite !map_app, !TreeRef.sumN_app. lia. Qed.

Lemma length_app3 (a b c : list bytes) : (length (a ++ c) <= length (a ++ b ++ c))%nat.
Proof. rewrite !app_length. lia. Qed.

Section HistoryCrash.
  Variable cr : crypto.
  Hypothesis Hcrc : crc_ok cr.
  Hypothesis Hhash32 : forall x, length (cr_hash cr x) = 32%nat.
  Hypothesis Hnonblank : forall x, all_zero (cr_hash cr x) = false.
  Hypothesis Hhashbytes : forall x, bytes_ok (cr_hash cr x) = true.
  Hypothesis Hsig64 : forall sk m, length (cr_sign cr sk m) = 64%nat.
  Hypothesis Hsigbytes : forall sk m, bytes_ok (cr_sign cr sk m) = true.

  (* the model.  A history stops after an append or an open that does not return a value.
     XCrash f batch k: the append is run to find its journal; the disk is the old disk after the first
     k journalled operations; memory is lost (and the events of the dead process with it);
     core_open (open mode, no key pair) runs on that disk. *)
  Fixpoint xrun_obs (ops : list xop) (c : core) (w : world) : list xobs :=
    match ops with
    | [] => []
    | XAppend f batch :: rest =>
        let '(c', w', r) := core_append cr f batch c w in
        XOAppend r :: (match r with Ok _ => xrun_obs rest c' w' | _ => [] end)
    | XGet i :: rest =>
        let '(c', w', r) := core_get i c w in XOGet r :: xrun_obs rest c' w'
    | XHas i :: rest => XOHas (core_has c i) :: xrun_obs rest c w
    | XInfo :: rest => XOInfo (core_info c) :: xrun_obs rest c w
    | XReopen :: rest =>
        let '(d', sops, r) := core_open cr None true (w_disk w) in
        XOReopen (res_unit r) ::
        (match r with
         | Ok c' => xrun_obs rest c' (mkWorld d' (rev sops ++ w_journal w) (w_events w))
         | _ => []
         end)
    | XCrash f batch k :: rest =>
        let '(c', w', r) := core_append cr f batch c w in
        match r with
        | Ok _ =>
            let cut := firstn k (journal_delta (w_journal w) (w_journal w')) in
            match apply_sops (w_disk w) cut with
            | Some dk =>
                let '(d', sops, ro) := core_open cr None true dk in
                XOCrash (res_unit ro) ::
                (match ro with
                 | Ok c'' => xrun_obs rest c'' (mkWorld d' (rev sops ++ rev cut ++ w_journal w) (w_events w))
                 | _ => []
                 end)
            | None => [XOCrash (Err InvalidOperation)]
            end
        | _ => [XOAppend r]     (* the append fails by itself (30-bit frame limit): as for XAppend *)
        end
    end.

  (* (6) histories with crashes, from any XInv state *)
  Theorem history_with_crashes_correct (ops : list xop) : forall c d j ev bs sk,
    XInv cr c d bs -> kp_secret (c_keypair c) = Some sk ->
    sumN (map len (bs ++ xappended ops)) <= u64_max ->
    NODE_SIZE * (2 * N.of_nat (length (bs ++ xappended ops))) <= u64_max ->
    xrun_obs ops c (mkWorld d j ev) = xspec_obs ops bs \/
    exists k, xrun_obs ops c (mkWorld d j ev) = firstn k (xspec_obs ops bs) ++ [XOAppend (Panic frame_msg)].
  Proof.
    induction ops as [|op ops IH]; intros c d j ev bs sk X Hsk Hfit Hidx.
    - left. reflexivity.
    - pose proof (XInv_XW cr c d bs X) as W.
      destruct op as [f batch|i|i| | |f batch k]; cbn [xrun_obs xspec_obs xappended] in *.
      + rewrite app_assoc in Hfit, Hidx.
        assert (Hfit1 : sumN (map len (bs ++ batch)) <= u64_max).
        { rewrite map_app, TreeRef.sumN_app in Hfit. lia. }
        assert (Hidx1 : NODE_SIZE * (2 * N.of_nat (length (bs ++ batch))) <= u64_max).
        { rewrite (app_length (bs ++ batch)) in Hidx. unfold NODE_SIZE in *. lia. }
        destruct (append_X cr Hcrc Hhash32 Hnonblank Hhashbytes Hsig64 Hsigbytes f batch c d j ev bs sk X Hsk Hfit1 Hidx1)
          as [(d1 & E & _)|(c1 & d1 & delta & ev1 & E & A & X1 & K1 & _)]; rewrite E.
        * right. exists 0%nat. reflexivity.
        * rewrite <- K1 in Hsk.
          destruct (IH c1 d1 (rev delta ++ j) ev1 (bs ++ batch) sk X1 Hsk Hfit Hidx) as [->|[k0 ->]].
          -- left. reflexivity.
          -- right. exists (S k0). reflexivity.
      + rewrite (X_get cr Hhash32 Hnonblank c d bs j ev i W).
        destruct (i <? N.of_nat (length bs)).
        * destruct (IH c d j ev bs sk X Hsk Hfit Hidx) as [->|[k0 ->]];
            [left; reflexivity|right; exists (S k0); reflexivity].
        * destruct (IH c d j (EvGet i :: ev) bs sk X Hsk Hfit Hidx) as [->|[k0 ->]];
            [left; reflexivity|right; exists (S k0); reflexivity].
      + rewrite (X_has cr c d bs i W).
        destruct (IH c d j ev bs sk X Hsk Hfit Hidx) as [->|[k0 ->]];
          [left; reflexivity|right; exists (S k0); reflexivity].
      + rewrite (X_info cr c d bs W), Hsk.
        destruct (IH c d j ev bs sk X Hsk Hfit Hidx) as [->|[k0 ->]];
          [left; reflexivity|right; exists (S k0); reflexivity].
      + destruct (reopen_XInv cr Hcrc Hhash32 Hnonblank Hhashbytes c d bs X) as (c1 & d1 & ops1 & E & X1 & K1 & -> & ->).
        cbn [w_disk w_journal w_events]. rewrite E. cbn [res_unit rev app]. rewrite <- K1 in Hsk.
        destruct (IH c1 d j ev bs sk X1 Hsk Hfit Hidx) as [->|[k0 ->]];
          [left; reflexivity|right; exists (S k0); reflexivity].
      + rewrite app_assoc in Hfit, Hidx.
        assert (Hfit1 : sumN (map len (bs ++ batch)) <= u64_max).
        { rewrite map_app, TreeRef.sumN_app in Hfit. lia. }
        assert (Hidx1 : NODE_SIZE * (2 * N.of_nat (length (bs ++ batch))) <= u64_max).
        { rewrite (app_length (bs ++ batch)) in Hidx. unfold NODE_SIZE in *. lia. }
        destruct (append_X cr Hcrc Hhash32 Hnonblank Hhashbytes Hsig64 Hsigbytes f batch c d j ev bs sk X Hsk Hfit1 Hidx1)
          as [(d1 & E & _)|(c1 & d1 & delta & ev1 & E & A & X1 & K1 & C1)]; rewrite E.
        * right. exists 0%nat. reflexivity.
        * cbn [w_journal w_disk w_events]. rewrite journal_delta_spec.
          destruct (C1 k) as (dk & Ak & XD). rewrite Ak.
          destruct (reopen_X cr Hcrc Hhash32 Hnonblank Hhashbytes (c_keypair c) dk _ XD)
            as (ck & dk' & ops1 & Eo & Xk & Kk & _).
          rewrite Eo. cbn [res_unit]. rewrite <- Kk in Hsk.
          unfold took_effect.
          assert (Hb : sumN (map len ((if (k <? 2)%nat then bs else bs ++ batch) ++ xappended ops)) <= u64_max /\
                       NODE_SIZE * (2 * N.of_nat (length ((if (k <? 2)%nat then bs else bs ++ batch) ++ xappended ops))) <= u64_max).
          { destruct (k <? 2)%nat; [|split; assumption].
            rewrite <- app_assoc in Hfit, Hidx.
            pose proof (sum_app3 bs batch (xappended ops)). pose proof (length_app3 bs batch (xappended ops)).
            unfold NODE_SIZE in *. split; lia. }
          destruct Hb as [Hb1 Hb2].
          destruct (IH ck dk' (rev ops1 ++ rev (firstn k delta) ++ j) ev _ sk Xk Hsk Hb1 Hb2) as [E1|[k0 E1]].
          -- left. rewrite E1. destruct (k <? 2)%nat; reflexivity.
          -- right. exists (S k0). rewrite E1. destruct (k <? 2)%nat; reflexivity.
  Qed.
End HistoryCrash.

Section HistoryCrashCorollaries.
  Variable cr : crypto.
  Hypothesis Hcrc : crc_ok cr.
  Hypothesis Hhash32 : forall x, length (cr_hash cr x) = 32%nat.
  Hypothesis Hnonblank : forall x, all_zero (cr_hash cr x) = false.
  Hypothesis Hhashbytes : forall x, bytes_ok (cr_hash cr x) = true.
  Hypothesis Hsig64 : forall sk m, length (cr_sign cr sk m) = 64%nat.
  Hypothesis Hsigbytes : forall sk m, bytes_ok (cr_sign cr sk m) = true.

  (* the form with one boolean per crash: each crashed append took effect completely or not at all *)
  Corollary history_with_crashes_choice ops c d j ev bs sk :
    XInv cr c d bs -> kp_secret (c_keypair c) = Some sk ->
    sumN (map len (bs ++ xappended ops)) <= u64_max ->
    NODE_SIZE * (2 * N.of_nat (length (bs ++ xappended ops))) <= u64_max ->
    exists ch : list bool,
      xrun_obs cr ops c (mkWorld d j ev) = xspec_choice ops ch bs \/
      exists k, xrun_obs cr ops c (mkWorld d j ev) = firstn k (xspec_choice ops ch bs) ++ [XOAppend (Panic frame_msg)].
  Proof.
    intros X Hsk Hfit Hidx. exists (xchoices ops). rewrite xspec_choice_det.
    apply (history_with_crashes_correct cr Hcrc Hhash32 Hnonblank Hhashbytes Hsig64 Hsigbytes ops c d j ev bs sk);
      assumption.
  Qed.

  (* from creation *)
  Theorem fresh_history_with_crashes_correct kp sk ops :
    keypair_ok kp = true -> kp_secret kp = Some sk ->
    sumN (map len (xappended ops)) <= u64_max ->
    NODE_SIZE * (2 * N.of_nat (length (xappended ops))) <= u64_max ->
    exists d0 ops0 c0,
      core_open cr (Some kp) false disk_empty = (d0, ops0, Ok c0) /\
      (xrun_obs cr ops c0 (mkWorld d0 [] []) = xspec_obs ops [] \/
       exists k, xrun_obs cr ops c0 (mkWorld d0 [] []) =
                 firstn k (xspec_obs ops []) ++ [XOAppend (Panic frame_msg)]).
  Proof.
    intros Hkp Hsk Hfit Hidx.
    destruct (DInv_init cr Hcrc Hhash32 Hnonblank Hhashbytes kp Hkp) as (d0 & ops0 & c0 & Ho & D & K).
    exists d0, ops0, c0. split; [exact Ho|].
    apply (history_with_crashes_correct cr Hcrc Hhash32 Hnonblank Hhashbytes Hsig64 Hsigbytes ops c0 d0 [] [] [] sk);
      [apply DInv_XInv, D|rewrite K; exact Hsk|exact Hfit|exact Hidx].
  Qed.

  (* when no append hits the 30-bit frame guard, every observation is the list model's *)
  Corollary fresh_history_with_crashes_no_frame_panic kp sk ops :
    keypair_ok kp = true -> kp_secret kp = Some sk ->
    sumN (map len (xappended ops)) <= u64_max ->
    NODE_SIZE * (2 * N.of_nat (length (xappended ops))) <= u64_max ->
    exists d0 ops0 c0,
      core_open cr (Some kp) false disk_empty = (d0, ops0, Ok c0) /\
      (~ In (XOAppend (Panic frame_msg)) (xrun_obs cr ops c0 (mkWorld d0 [] [])) ->
       xrun_obs cr ops c0 (mkWorld d0 [] []) = xspec_obs ops []).
  Proof.
    intros Hkp Hsk Hfit Hidx.
    destruct (fresh_history_with_crashes_correct kp sk ops Hkp Hsk Hfit Hidx) as (d0 & ops0 & c0 & Ho & [E|[k E]]);
      exists d0, ops0, c0; (split; [exact Ho|]); intros Hno; [exact E|].
    exfalso. apply Hno. rewrite E. apply in_or_app. right. left. reflexivity.
  Qed.
End HistoryCrashCorollaries.

(* ====================================================================================== *)
(* Non-vacuity on the toy crypto instance                                                  *)
(* ====================================================================================== *)

(* a history with crashes at every kind of place:
   - XCrash .. 1: between the data write and the oplog entry write (junk stays in the data store; the
     next append overwrites it);
   - XCrash (Some true) .. 3 / 6: inside the flush group, after the first bitfield page write / in the
     middle of the tree node writes;
   - XCrash (Some true) .. 10: after the header slot write, before the truncate (open repairs the oplog:
     the journal of that append has 11 operations, the last two on the oplog store);
   - XCrash .. 0 and a cut beyond the end of the journal (= the complete append). *)
Definition toy_xops : list xop :=
  [XAppend (Some false) [[1; 2; 3]; []; [4]];
   XCrash (Some false) [[5; 6]; [7]] 1; XInfo; XGet 3; XHas 3; XGet 2;
   XAppend (Some false) [[8]]; XGet 3; XInfo;
   XCrash (Some true) [[9; 10]] 3; XInfo; XGet 4; XGet 3; XHas 4; XHas 5;
   XAppend None [[11]]; XGet 5;
   XCrash (Some true) [[12]; [13; 14]] 6; XInfo; XGet 6; XGet 7; XGet 0;
   XReopen; XGet 7;
   XCrash (Some true) [[15]] 0; XInfo; XHas 8;
   XCrash (Some true) [[16]] 10; XInfo; XGet 8; XHas 8;
   XCrash (Some true) [[17]] 2; XInfo; XGet 9;
   XCrash (Some true) [[18]] 100; XInfo; XGet 10;
   XAppend (Some true) [[19]; [20]]; XReopen; XGet 12; XGet 11; XInfo; XGet 1].

Example toy_history_with_crashes :
  keypair_ok toy_keypair = true /\
  match core_open toy_cr (Some toy_keypair) false disk_empty with
  | (d0, _, Ok c0) => xrun_obs toy_cr toy_xops c0 (mkWorld d0 [] []) = xspec_obs toy_xops []
  | _ => False
  end.
Proof. split; vm_compute; reflexivity. Qed.

(* the instance of the history theorem for the toy crypto *)
Example toy_crash_instance ops sk :
  kp_secret toy_keypair = Some sk ->
  sumN (map len (xappended ops)) <= u64_max ->
  NODE_SIZE * (2 * N.of_nat (length (xappended ops))) <= u64_max ->
  exists d0 ops0 c0,
    core_open toy_cr (Some toy_keypair) false disk_empty = (d0, ops0, Ok c0) /\
    (xrun_obs toy_cr ops c0 (mkWorld d0 [] []) = xspec_obs ops [] \/
     exists k, xrun_obs toy_cr ops c0 (mkWorld d0 [] []) =
               firstn k (xspec_obs ops []) ++ [XOAppend (Panic frame_msg)]).
Proof.
  apply (fresh_history_with_crashes_correct toy_cr toy_crc_ok' toy_hash32 toy_nonblank toy_hashbytes
           toy_sig64 toy_sigbytes toy_keypair sk ops). reflexivity.
Qed.

(* One flushing append looked at cut by cut.  State: 4 blocks appended without a flush, then an append
   of one block with a flush.  Its journal has 13 operations: data write, oplog entry write, one
   bitfield page, eight tree nodes, header slot write, truncate.  After EVERY cut k = 0 .. 13 the
   storage reopens; the observations are those of the 4-block list for k = 0, 1 and those of the
   5-block list for k >= 2. *)
Definition toy_bs : list bytes := [[1; 2; 3]; []; [4]; [5; 6]].
Definition toy_batch : list bytes := [[7; 8; 9]].
Definition toy_probes : list xop :=
  [XInfo; XGet 0; XGet 1; XGet 2; XGet 3; XGet 4; XGet 5; XHas 3; XHas 4; XHas 5].

Definition obs_after_cut (d : disk) (delta : list sop) (k : nat) : option (list sop * list xobs) :=
  match apply_sops d (firstn k delta) with
  | Some dk =>
      match core_open toy_cr None true dk with
      | (dk', ops, Ok ck) => Some (ops, xrun_obs toy_cr toy_probes ck (mkWorld dk' [] []))
      | _ => None
      end
  | None => None
  end.

Example toy_every_cut_of_a_flushing_append :
  match core_open toy_cr (Some toy_keypair) false disk_empty with
  | (d0, _, Ok c0) =>
      match core_append toy_cr (Some false) toy_bs c0 (mkWorld d0 [] []) with
      | (c1, w1, Ok _) =>
          match core_append toy_cr (Some true) toy_batch c1 w1 with
          | (c2, w2, Ok _) =>
              let delta := journal_delta (w_journal w1) (w_journal w2) in
              map sop_store delta =
                [Data; Oplog; Bitfield; Tree; Tree; Tree; Tree; Tree; Tree; Tree; Tree; Oplog; Oplog] /\
              map (obs_after_cut (w_disk w1) delta) (seq 0 14) =
              map (fun k => Some (if (k =? 12)%nat then [ST Oplog ENTRIES_OFFSET] else [],
                                  xspec_obs toy_probes (if (k <? 2)%nat then toy_bs else toy_bs ++ toy_batch)))
                  (seq 0 14)
          | _ => False
          end
      | _ => False
      end
  | _ => False
  end.
Proof. vm_compute. split; reflexivity. Qed.

(* the hypotheses of append_X / append_XInv / append_cut_recovers_X / history_with_crashes_correct are
   met by a concrete non-trivial state: the toy writer after appending four blocks without a flush (one
   pending entry, unflushed nodes, a dirty page), about to append a fifth block with a flush, whose
   journal has 13 operations *)
Example toy_XInv_state_met :
  exists c d sk c' w' x delta,
    XInv toy_cr c d toy_bs /\ kp_secret (c_keypair c) = Some sk /\
    sumN (map len (toy_bs ++ toy_batch)) <= u64_max /\
    NODE_SIZE * (2 * N.of_nat (length (toy_bs ++ toy_batch))) <= u64_max /\
    core_append toy_cr (Some true) toy_batch c (mkWorld d [] []) = (c', w', Ok x) /\
    w_journal w' = rev delta ++ [] /\ length delta = 13%nat.
Proof.
  destruct (DInv_init toy_cr toy_crc_ok' toy_hash32 toy_nonblank toy_hashbytes toy_keypair eq_refl)
    as (d0 & ops0 & c0 & Ho & D & K).
  assert (Hcomp : match core_open toy_cr (Some toy_keypair) false disk_empty with
     | (d0, _, Ok c0) =>
         match core_append toy_cr (Some false) toy_bs c0 (mkWorld d0 [] []) with
         | (c1, w1, Ok _) =>
             match core_append toy_cr (Some true) toy_batch c1 (mkWorld (w_disk w1) [] []) with
             | (c2, w2, Ok _) => length (w_journal w2) = 13%nat
             | _ => False
             end
         | _ => False
         end
     | _ => False
     end) by (vm_compute; reflexivity).
  rewrite Ho in Hcomp.
  destruct (core_append toy_cr (Some false) toy_bs c0 (mkWorld d0 [] [])) as [[c1 w1] r1] eqn:E1.
  destruct r1 as [x1| | |]; try contradiction.
  apply DInv_XInv in D.
  assert (Hsk0 : kp_secret (c_keypair c0) = Some (repeat 2 32%nat)) by (rewrite K; reflexivity).
  destruct (append_XInv toy_cr toy_crc_ok' toy_hash32 toy_nonblank toy_hashbytes toy_sig64 toy_sigbytes
              (Some false) toy_bs c0 d0 [] [] [] (repeat 2 32%nat) c1 w1 (Ok x1) D Hsk0)
    as [Hp|(_ & X1 & K1)]; [vm_compute; discriminate|vm_compute; discriminate|exact E1|discriminate Hp|].
  destruct (core_append toy_cr (Some true) toy_batch c1 (mkWorld (w_disk w1) [] [])) as [[c2 w2] r2] eqn:E2.
  destruct r2 as [x2| | |]; try contradiction.
  exists c1, (w_disk w1), (repeat 2 32%nat), c2, w2, x2, (rev (w_journal w2)).
  split; [exact X1|]. split; [rewrite K1; exact Hsk0|].
  split; [vm_compute; discriminate|]. split; [vm_compute; discriminate|].
  split; [exact E2|]. split; [rewrite rev_involutive, app_nil_r; reflexivity|].
  rewrite rev_length. exact Hcomp.
Qed.

(* the hypothesis of reopen_X is met by concrete crash disks: one with junk after the blocks in the data
   store (cut after the data write), one whose oplog has the new header slot but still the stale entries
   (cut after the slot write): open succeeds and issues the repairing truncate *)
Example toy_XDisk_states_met :
  (exists kp d, XDisk toy_cr kp d toy_bs /\ sumN (map len toy_bs) < f_len (d_data d)) /\
  (exists kp d d' c', XDisk toy_cr kp d (toy_bs ++ toy_batch) /\
                      core_open toy_cr None true d = (d', [ST Oplog ENTRIES_OFFSET], Ok c')).
Proof.
  destruct (DInv_init toy_cr toy_crc_ok' toy_hash32 toy_nonblank toy_hashbytes toy_keypair eq_refl)
    as (d0 & ops0 & c0 & Ho & D & K).
  assert (Hcomp : match core_open toy_cr (Some toy_keypair) false disk_empty with
     | (d0, _, Ok c0) =>
         match core_append toy_cr (Some false) toy_bs c0 (mkWorld d0 [] []) with
         | (c1, w1, Ok _) =>
             match core_append toy_cr (Some true) toy_batch c1 (mkWorld (w_disk w1) [] []) with
             | (c2, w2, Ok _) =>
                 let delta := journal_delta [] (w_journal w2) in
                 match apply_sops (w_disk w1) (firstn 1 delta), apply_sops (w_disk w1) (firstn 12 delta) with
                 | Some dk1, Some dk12 =>
                     (sumN (map len toy_bs) <? f_len (d_data dk1)) = true /\
                     snd (fst (core_open toy_cr None true dk12)) = [ST Oplog ENTRIES_OFFSET]
                 | _, _ => False
                 end
             | _ => False
             end
         | _ => False
         end
     | _ => False
     end) by (vm_compute; split; reflexivity).
  rewrite Ho in Hcomp.
  destruct (core_append toy_cr (Some false) toy_bs c0 (mkWorld d0 [] [])) as [[c1 w1] r1] eqn:E1.
  destruct r1 as [x1| | |]; try contradiction.
  apply DInv_XInv in D.
  assert (Hsk0 : kp_secret (c_keypair c0) = Some (repeat 2 32%nat)) by (rewrite K; reflexivity).
  destruct (append_XInv toy_cr toy_crc_ok' toy_hash32 toy_nonblank toy_hashbytes toy_sig64 toy_sigbytes
              (Some false) toy_bs c0 d0 [] [] [] (repeat 2 32%nat) c1 w1 (Ok x1) D Hsk0)
    as [Hp|(_ & X1 & K1)]; [vm_compute; discriminate|vm_compute; discriminate|exact E1|discriminate Hp|].
  assert (Hsk1 : kp_secret (c_keypair c1) = Some (repeat 2 32%nat)) by (rewrite K1; exact Hsk0).
  destruct (append_X toy_cr toy_crc_ok' toy_hash32 toy_nonblank toy_hashbytes toy_sig64 toy_sigbytes
              (Some true) toy_batch c1 (w_disk w1) [] [] toy_bs (repeat 2 32%nat) X1 Hsk1)
    as [(dp & E2 & _)|(c2 & d2 & delta & ev2 & E2 & A2 & X2 & K2 & C2)];
    [vm_compute; discriminate|vm_compute; discriminate|rewrite E2 in Hcomp; contradiction|].
  rewrite E2 in Hcomp. cbn [w_journal] in Hcomp. cbv zeta in Hcomp. rewrite journal_delta_spec in Hcomp.
  destruct (C2 1%nat) as (dk1 & A1 & XD1). destruct (C2 12%nat) as (dk12 & A12 & XD12).
  rewrite A1, A12 in Hcomp. destruct Hcomp as [Hjunk Hops].
  split.
  - exists (c_keypair c1), dk1. split; [exact XD1|]. apply N.ltb_lt. exact Hjunk.
  - destruct (reopen_X toy_cr toy_crc_ok' toy_hash32 toy_nonblank toy_hashbytes (c_keypair c1) dk12 _ XD12)
      as (ck & dk' & ops & Eo & _).
    rewrite Eo in Hops. cbn [fst snd] in Hops. subst ops.
    exists (c_keypair c1), dk12, dk', ck. split; [exact XD12|exact Eo].
Qed.

Print Assumptions history_with_crashes_correct.
Print Assumptions history_with_crashes_choice.
Print Assumptions fresh_history_with_crashes_correct.
Print Assumptions fresh_history_with_crashes_no_frame_panic.
Print Assumptions toy_history_with_crashes.
Print Assumptions toy_crash_instance.
Print Assumptions toy_every_cut_of_a_flushing_append.
Print Assumptions toy_XInv_state_met.
Print Assumptions toy_XDisk_states_met.

(* AnyProof.v -- C04 for proofs of ANY shape (block, hash, seek, upgrade with additional nodes, sibling
   pairs, every combination the verifier accepts).  Libraries: AnyProofLib.v, AnyProofUp.v; examples and
   counterexamples: AnyProofEx.v.

   What stays true, whatever the sizes the peer puts into the nodes it supplies:
     HASHES  every node the replica can look up carries the writer's hash at its index and lies inside the
             replica's tree (invariant HInv, weaker than SoundCore.RInv: sizes of stored nodes unconstrained);
     ROOTS   the replica's roots, length and BYTE LENGTH in memory are the writer's at a length whose
             (roots hash, length, fork 0) message the writer signed;
     VALUES  the block of an accepted block section is the writer's block at the claimed index;
   or else a hash collision / a forged signature is exhibited (apply_any_proof; for every outcome of
   core_apply_proof, failures half-way included: apply_any_proof_any_outcome).

   Sizes (section Sizes): a stored size is bound exactly when the node is a signed root, a root the replica
   held, the leaf computed from the block value, a parent computed by the verifier, or was merged with a
   node whose size is bound (size_bound, size_bound_sound); the others were supplied by the proof and are
   either the lone top of the tree sections (compared by hash only) or come in sibling pairs bound in sum
   (unbound_sizes_alone_or_in_sibling_pairs).

   Reads (section Reads): under HInv and "the visible sizes up to block i are the writer's" a read looks
   at the writer's byte range (get_reads_writer_range); it returns the writer's block when the bytes are
   in place (get_under_sizes) -- a hypothesis that cannot be dropped (AnyProofEx, 7.).

   What does NOT stay true (AnyProofEx.v; the Rust crate behaves in the same way):
     - a hash section consisting of ONE node with the stored hash and ANY size is accepted (the verifier
       compares only hashes with the stored node) and overwrites the stored size: reads return a wrong
       number of bytes; done at a root index, the byte length reported after the next REOPEN is wrong
       (the roots in memory are signed, their stored copies are not protected): HInv does not survive
       a reopen;
     - sizes of two supplied nodes at sibling positions are bound only in sum (SoundCore refutations). *)
From HC Require Import Base NMap Codec CodecFacts Crypto FlatTree Storage Bitfield Oplog Merkle Core.
From HC Require Import FlatTreeFacts StorageFacts BitfieldFacts OplogFacts TreeRef OffsetFacts CoreFacts
                       Sound NoPanic Refine Replicate SoundCoreLib SoundCore SoundCoreUp AnyProofLib AnyProofUp.
From HC Require CacheOps.
From Coq Require Import FMapPositive ZifyN ZifyNat ZifyBool.
Ltac Zify.zify_post_hook ::= Z.div_mod_to_equations.
Arguments N.add : simpl never.
Arguments N.sub : simpl never.
Arguments N.mul : simpl never.
Arguments N.div : simpl never.
Arguments N.modulo : simpl never.
Arguments N.pow : simpl never.
Arguments N.eqb : simpl never.
Arguments N.ltb : simpl never.
Arguments N.leb : simpl never.
Arguments N.of_nat : simpl never.
Arguments N.to_nat : simpl never.

(* the nodes a proof supplies *)
Definition proof_supplied (pf : proof) (x : node) : Prop :=
  vt_supplied (p_block pf) (p_hash pf) (p_seek pf) x \/
  exists u, p_upgrade pf = Some u /\ (In x (du_nodes u) \/ In x (du_additional u)).

(* what the wire decoder guarantees: 32-byte hashes, u64 indices and sizes, a u64 block length *)
Definition proof_wire (pf : proof) : Prop :=
  vt_wire (p_block pf) (p_hash pf) (p_seek pf) /\
  (forall u, p_upgrade pf = Some u -> Forall node_wire (du_nodes u) /\ Forall node_wire (du_additional u)).

Lemma proof_ok_wire pf :
  (forall b, p_block pf = Some b -> data_block_ok b = true) ->
  (forall h, p_hash pf = Some h -> data_hash_ok h = true) ->
  (forall s, p_seek pf = Some s -> data_seek_ok s = true) ->
  (forall u, p_upgrade pf = Some u -> data_upgrade_ok u = true) ->
  proof_wire pf.
Proof.
  intros Hb Hh Hs Hu. split; [split; [|split]|].
  - intros b E. specialize (Hb b E). unfold data_block_ok in Hb.
    apply andb_prop in Hb as [Hb H3]. apply andb_prop in Hb as [_ H2].
    split; [apply nodes_ok_wire, H3|]. unfold buffer_ok in H2. apply andb_prop in H2 as [H2 _].
    unfold fits_u64 in H2. lia.
  - intros h E. specialize (Hh h E). unfold data_hash_ok in Hh. apply andb_prop in Hh as [_ H2].
    apply nodes_ok_wire, H2.
  - intros s E. specialize (Hs s E). unfold data_seek_ok in Hs. apply andb_prop in Hs as [_ H2].
    apply nodes_ok_wire, H2.
  - intros u E. specialize (Hu u E). unfold data_upgrade_ok in Hu.
    apply andb_prop in Hu as [Hu _]. apply andb_prop in Hu as [Hu H4]. apply andb_prop in Hu as [_ H3].
    split; apply nodes_ok_wire; assumption.
Qed.

Section Verifier.
  Variable cr : crypto.
  Hypothesis Hhash32 : forall x, length (cr_hash cr x) = 32%nat.
  Variable bs : list bytes.               (* the writer's blocks *)
  Hypothesis Hw : writer_fits bs.

  (* the flat index of the node the block / hash / seek sections climb to is a u64 (in the crate every
     flat index is one); only needed when an upgrade section may take that node over *)
  Definition tree_root_fits (pf : proof) (t : mtree) : Prop :=
    forall u root c1, p_upgrade pf = Some u ->
      verify_tree cr (p_block pf) (p_hash pf) (p_seek pf) (tree_changeset t) = Ok (Some root, c1) ->
      n_index root <= u64_max.

  (* everything an accepted proof is known to satisfy; m is the length after the proof *)
  Record accepted (t : mtree) (tf : file) (pf : proof) (pk : bytes) (cs : changeset) (m : N) : Prop :=
    mkAccepted {
    ac_ge : t_length t <= m;
    ac_le : m <= N.of_nat (length bs);
    ac_len : cs_length cs = m;
    ac_roots : cs_roots cs = ref_roots cr bs m;
    ac_bytes : cs_byte_length cs = prefix_size bs m;
    (* every node that will be stored: the writer's hash, inside the tree over m blocks, a valid record *)
    ac_nodes : Forall (fun x => hauth cr bs m x /\ node_fit x) (cs_nodes cs);
    (* where the stored nodes come from *)
    ac_made : Forall (fun P => proof_supplied pf P \/ vt_leaf cr (p_block pf) P \/
                               exists a b, merged_of cr a b P /\ In a (t_roots t ++ cs_nodes cs) /\
                                           In b (t_roots t ++ cs_nodes cs)) (cs_nodes cs);
    (* what vouches for them: a signed root, the parent they were merged into, or (hash only) the
       stored node they were compared with *)
    ac_closure : Forall (fun x => In x (cs_roots cs) \/ child_of cr (t_roots t ++ cs_nodes cs) (cs_nodes cs) x \/
                                  stored_check t tf x) (t_roots t ++ cs_nodes cs);
    ac_block : forall b, p_block pf = Some b ->
                 db_value b = blk bs (db_index b) /\ db_index b < m /\
                 In (block_node cr (2 * db_index b) (db_value b)) (cs_nodes cs);
    ac_frame : cs_ancestors cs = t_length t /\ cs_orig_length cs = t_length t /\ cs_orig_fork cs = t_fork t;
    ac_same : cs_upgraded cs = false -> m = t_length t;
    ac_noup : p_upgrade pf = None -> cs_upgraded cs = false;
    ac_up : forall u, p_upgrade pf = Some u ->
              cs_fork cs = p_fork pf /\
              cr_verify cr pk (signable (tree_hash cr (ref_roots cr bs m)) m (p_fork pf)) (du_signature u) = true }.

  (* the guard is void for a proof without upgrade section, and for one without tree sections *)
  Lemma tree_root_fits_no_upgrade pf t : p_upgrade pf = None -> tree_root_fits pf t.
  Proof. intros E u root c1 Eu _. rewrite E in Eu. discriminate Eu. Qed.

  Lemma tree_root_fits_upgrade_only pf t :
    p_block pf = None -> p_hash pf = None -> p_seek pf = None -> tree_root_fits pf t.
  Proof. intros E1 E2 E3 u root c1 _ Hv. rewrite E1, E2, E3 in Hv. discriminate Hv. Qed.

  Lemma stored_hauth t tf r x :
    hunfl_sound cr bs t r -> hfile_sound cr bs tf r -> stored_check t tf x -> hauth cr bs r x.
  Proof.
    intros Hu Hf Hs. apply stored_check_eq in Hs. destruct Hs as (nn & Hreq & Hh).
    destruct (required_node_hsound cr bs t tf r _ _ Hu Hf Hreq) as [Hi [A B]].
    split; [|rewrite <- Hi; exact B]. unfold hagree in *. rewrite <- Hh, A, Hi. reflexivity.
  Qed.

  Lemma ref_root_hauth r x :
    r <= N.of_nat (length bs) -> In x (ref_roots cr bs r) -> hauth cr bs r x.
  Proof.
    intros Hr Hx. destruct (ref_root_facts cr Hhash32 bs Hw r x Hr Hx) as (_ & A & B).
    split; [|exact B]. unfold hagree. unfold Tn in A. rewrite A at 1. reflexivity.
  Qed.

  Lemma cs_nodes_rnodes c : cs_nodes c = rev (cs_rnodes c).
  Proof. unfold cs_nodes. rewrite rev_append_rev, app_nil_r. reflexivity. Qed.

  Theorem verify_proof_accepted t tf pf pk cs :
    t_length t <= N.of_nat (length bs) -> t_roots t = ref_roots cr bs (t_length t) ->
    t_byte_length t = prefix_size bs (t_length t) ->
    hunfl_sound cr bs t (t_length t) -> hfile_sound cr bs tf (t_length t) ->
    proof_wire pf -> tree_root_fits pf t ->
    verify_proof cr t tf pf pk = Ok cs ->
    (exists m, accepted t tf pf pk cs m) \/ some_collision cr \/ forged_signature cr bs pk.
  Proof.
    set (r := t_length t). intros Hr HR HB Hu Hf [Wvt Wup] Hfits H.
    destruct Hw as [Hw1 Hw2].
    apply verify_proof_accept_inv in H. destruct H as (root & c1 & Hv & H).
    destruct (verify_tree_shape cr Hhash32 _ _ _ _ _ _ Hv Wvt) as (vis & Rv & Fr & Sh & Hr32 & Hleaf).
    destruct Fr as (F1 & F2 & F3 & F4 & F5 & F6 & F7 & F8 & F9 & F10 & F11).
    cbn [tree_changeset cs_length cs_ancestors cs_byte_length cs_batch_length cs_fork cs_roots cs_hash
         cs_signature cs_upgraded cs_orig_length cs_orig_fork cs_rnodes] in *.
    rewrite app_nil_r in Rv. fold r in F1, F2, F10.
    destruct Sh as (S1 & S2 & S3 & S4 & S5).
    (* what remains once the final roots, the pushed nodes and the closure are known *)
    assert (Hfinish : forall m total,
      r <= m -> m <= N.of_nat (length bs) -> cs_length cs = m -> cs_roots cs = ref_roots cr bs m ->
      cs_byte_length cs = prefix_size bs m -> cs_nodes cs = total ->
      (forall x, In x vis -> In x total) ->
      Forall node_fit total ->
      Forall (fun P => proof_supplied pf P \/ vt_leaf cr (p_block pf) P \/
                       exists a b, merged_of cr a b P /\ In a (t_roots t ++ total) /\ In b (t_roots t ++ total)) total ->
      Forall (fun x => In x (cs_roots cs) \/ child_of cr (t_roots t ++ total) total x \/ stored_check t tf x)
             (t_roots t ++ total) ->
      cs_ancestors cs = r /\ cs_orig_length cs = r /\ cs_orig_fork cs = t_fork t ->
      (cs_upgraded cs = false -> m = r) -> (p_upgrade pf = None -> cs_upgraded cs = false) ->
      (forall u, p_upgrade pf = Some u -> cs_fork cs = p_fork pf /\
         cr_verify cr pk (signable (tree_hash cr (ref_roots cr bs m)) m (p_fork pf)) (du_signature u) = true) ->
      (exists m, accepted t tf pf pk cs m) \/ some_collision cr).
    { intros m total Hrm Hmn El Er Eb En Hvis Hfit Hmade Hcl Hframe Hsame Hnoup Hupg.
      assert (Htops : Forall (fun x => hauth cr bs m x \/ child_of cr (t_roots t ++ total) total x) (t_roots t ++ total)).
      { eapply Forall_impl; [|exact Hcl]. intros x [A|[A|A]].
        - left. rewrite Er in A. apply (ref_root_hauth m x Hmn A).
        - right. exact A.
        - left. apply (hauth_mono cr bs r m x Hrm). apply (stored_hauth t tf r x Hu Hf A). }
      destruct (backward_hauth cr Hhash32 bs Hw1 (t_roots t ++ total) total m) as [Hall|C];
        [intros x Hx; apply in_or_app; right; exact Hx|exact Htops| |right; exact C].
      apply Forall_app in Hall. destruct Hall as [_ Hall]. rewrite Forall_forall in Hall, Hfit.
      (* the block value *)
      assert (Hblk : (forall b, p_block pf = Some b ->
                        db_value b = blk bs (db_index b) /\ db_index b < m /\
                        In (block_node cr (2 * db_index b) (db_value b)) (cs_nodes cs)) \/ some_collision cr).
      { destruct (p_block pf) as [b|] eqn:Eb0; [|left; intros b Eb1; discriminate Eb1].
        destruct (Hleaf b eq_refl) as [Hin Hi2].
        pose proof (Hall _ (Hvis _ Hin)) as [Hag Hil]. cbn [block_node n_index] in Hil.
        unfold hagree in Hag. cbn [block_node n_index n_hash] in Hag.
        replace (2 * db_index b) with (ft_index (N.of_nat 0) (db_index b)) in Hag, Hil
          by (change (N.of_nat 0) with 0; apply ft_index_leaf).
        rewrite ref_at_index in Hag. cbn [ref_node n_hash block_node] in Hag.
        apply in_len_index in Hil. rewrite p2_0 in Hil.
        apply leaf_hash_binds in Hag. destruct Hag as [Ev|C]; [left|right; exact C].
        intros b' [= <-]. split; [exact Ev|]. split; [lia|]. rewrite En. apply Hvis, Hin. }
      destruct Hblk as [Hblk|C]; [|right; exact C].
      left. exists m. constructor; try assumption.
      - rewrite En. apply Forall_forall. intros x Hx. split; [apply Hall, Hx|apply Hfit, Hx].
      - rewrite En. exact Hmade.
      - rewrite En. exact Hcl. }
    assert (Hold : forall x, In x (t_roots t) -> In x (ref_roots cr bs r)) by (intros x Hx; rewrite <- HR; exact Hx).
    destruct (p_upgrade pf) as [u|] eqn:Eu.
    - (* with an upgrade section *)
      destruct H as (consumed & c3 & Hvu & _ & _ & _ & _ & _ & Hst).
      destruct (Wup u eq_refl) as [Wn Wa].
      assert (Hroot : forall r0, root = Some r0 -> hash32 r0 /\ n_index r0 < 2 ^ 64).
      { intros r0 ->. split; [apply (Hr32 r0 eq_refl)|]. apply u64_lt. apply (Hfits u r0 c1 Eu Hv). }
      assert (HB1 : cs_byte_length c1 = lens (cs_roots c1)).
      { rewrite F3, F6, HB, HR. symmetry. apply ref_roots_size. }
      assert (HL1 : cs_length c1 = spans (cs_roots c1)).
      { rewrite F1, F6, HR. symmetry. apply spans_ref_roots. }
      assert (HW1 : Forall root_wf (cs_roots c1)).
      { rewrite F6, HR. apply Forall_forall. intros x Hx. apply (ref_root_facts cr Hhash32 bs (conj Hw1 Hw2) r x Hr Hx). }
      destruct (verify_upgrade_shape cr Hhash32 c1 (p_fork pf) u root pk consumed cs HB1 HL1 HW1 Wn Wa Hroot Hvu)
        as (new & Rn & Umade & Ufit & Uin & Ucl & UB & UL & UW & Ufk & Uanc & Uol & Uof & Ugrow & Uup & UV & _ & _ & Ucons & Unone).
      rewrite F6 in Umade, Uin, Ucl, Uup. rewrite Rv in Rn.
      assert (Hgate : (exists m, m <= N.of_nat (length bs) /\ cs_roots cs = ref_roots cr bs m /\ cs_length cs = m) \/
                      some_collision cr \/ forged_signature cr bs pk).
      { apply (signature_gate cr Hhash32 bs (conj Hw1 Hw2) cs pk (du_signature u) UW UL). rewrite Ufk. exact UV. }
      destruct Hgate as [(m & Hmn & Er & El)|[C|Fg]]; [|right; left; exact C|right; right; exact Fg].
      set (total := vis ++ rev new).
      assert (En : cs_nodes cs = total).
      { rewrite cs_nodes_rnodes, Rn, rev_app_distr, rev_involutive. reflexivity. }
      assert (Hnew_total : forall x, In x new -> In x total).
      { intros x Hx. apply in_or_app. right. apply -> in_rev. exact Hx. }
      assert (Hvis_total : forall x, In x vis -> In x total) by (intros x Hx; apply in_or_app; left; exact Hx).
      assert (Hup_pool : forall x, In x (t_roots t ++ new) -> In x (t_roots t ++ total)).
      { intros x Hx. apply in_app_or in Hx. apply in_or_app. destruct Hx as [Hx|Hx]; [left; exact Hx|right; apply Hnew_total, Hx]. }
      assert (Hvis_pool : forall x, In x vis -> In x (t_roots t ++ total)).
      { intros x Hx. apply in_or_app. right. apply Hvis_total, Hx. }
      (* made, for a node of the tree sections *)
      assert (Hmade_vis : forall P, In P vis ->
                proof_supplied pf P \/ vt_leaf cr (p_block pf) P \/
                exists a b, merged_of cr a b P /\ In a (t_roots t ++ total) /\ In b (t_roots t ++ total)).
      { intros P HP. rewrite Forall_forall in S2. destruct (S2 P HP) as [[A|A]|(a & b & M & Ha & Hb)].
        - left. left. exact A.
        - right. left. exact A.
        - right. right. exists a, b. split; [exact M|]. split; apply Hvis_pool; assumption. }
      destruct (Hfinish m total) as [A|C]; try assumption.
      + rewrite <- El, <- F1. exact Ugrow.
      + rewrite UB, Er. apply ref_roots_size.
      + apply Forall_app. split; [exact S1|]. apply Forall_rev. exact Ufit.
      + apply Forall_app. split; [apply Forall_forall; exact Hmade_vis|].
        apply Forall_rev. eapply Forall_impl; [|exact Umade].
        intros P [[A|[A|A]]|(a & b & M & Ha & Hb)].
        * left. right. exists u. split; [exact Eu|left; exact A].
        * left. right. exists u. split; [exact Eu|right; exact A].
        * apply Hmade_vis. apply S4. symmetry. exact A.
        * right. right. exists a, b. split; [exact M|]. split; apply Hup_pool; assumption.
      + (* closure *)
        assert (Hupcl : forall x, In x (t_roots t ++ new) ->
                  In x (cs_roots cs) \/ child_of cr (t_roots t ++ total) total x \/ stored_check t tf x).
        { intros x Hx. rewrite Forall_forall in Ucl. destruct (Ucl x Hx) as [A|A]; [left; exact A|].
          right. left. apply (child_of_incl cr (t_roots t ++ new) new); [exact Hup_pool|exact Hnew_total|exact A]. }
        apply Forall_forall. intros x Hx. apply in_app_or in Hx. destruct Hx as [Hx|Hx].
        * apply Hupcl. apply in_or_app. left. exact Hx.
        * apply in_app_or in Hx. destruct Hx as [Hx|Hx].
          -- rewrite Forall_forall in S3. destruct (S3 x Hx) as [A|A].
             ++ symmetry in A. destruct consumed.
                ** apply Hupcl. apply in_or_app. right. apply (Ucons x A eq_refl).
                ** right. right. apply (Hst eq_refl x A).
             ++ right. left. apply (child_of_incl cr vis vis); [exact Hvis_pool|exact Hvis_total|exact A].
          -- apply Hupcl. apply in_or_app. right. apply in_rev. exact Hx.
      + rewrite Uanc, Uol, Uof, F2, F10, F11. auto.
      + intros Hup. destruct (Uup Hup) as [Er0 _]. rewrite <- El, UL, Er0, HR. apply spans_ref_roots.
      + discriminate.
      + intros u' [= <-]. split; [exact Ufk|]. rewrite <- Er, <- El. exact UV.
      + left. exact A.
      + right. left. exact C.
    - (* no upgrade section *)
      destruct H as [-> Hst].
      assert (En : cs_nodes c1 = vis) by (rewrite cs_nodes_rnodes, Rv; apply rev_involutive).
      assert (Hvis_pool : forall x, In x vis -> In x (t_roots t ++ vis)) by (intros x Hx; apply in_or_app; right; exact Hx).
      assert (P1 : cs_roots c1 = ref_roots cr bs r) by (rewrite F6; exact HR).
      assert (P2 : cs_byte_length c1 = prefix_size bs r) by (rewrite F3; exact HB).
      assert (P3 : Forall (fun P => proof_supplied pf P \/ vt_leaf cr (p_block pf) P \/
                       exists a b, merged_of cr a b P /\ In a (t_roots t ++ vis) /\ In b (t_roots t ++ vis)) vis).
      { eapply Forall_impl; [|exact S2]. intros P [[A|A]|(a & b & M & Ha & Hb)].
        * left. left. exact A.
        * right. left. exact A.
        * right. right. exists a, b. split; [exact M|]. split; apply Hvis_pool; assumption. }
      assert (P4 : Forall (fun x => In x (cs_roots c1) \/ child_of cr (t_roots t ++ vis) vis x \/ stored_check t tf x)
                          (t_roots t ++ vis)).
      { apply Forall_forall. intros x Hx. apply in_app_or in Hx. destruct Hx as [Hx|Hx].
        * left. rewrite F6. exact Hx.
        * rewrite Forall_forall in S3. destruct (S3 x Hx) as [A|A].
          -- right. right. apply (Hst x). symmetry. exact A.
          -- right. left. apply (child_of_incl cr vis vis); [exact Hvis_pool|intros y Hy; exact Hy|exact A]. }
      assert (P5 : cs_ancestors c1 = r /\ cs_orig_length c1 = r /\ cs_orig_fork c1 = t_fork t)
        by (rewrite F2, F10, F11; auto).
      assert (P6 : forall u, @None data_upgrade = Some u -> cs_fork c1 = p_fork pf /\
         cr_verify cr pk (signable (tree_hash cr (ref_roots cr bs r)) r (p_fork pf)) (du_signature u) = true)
        by (intros u Eu'; discriminate Eu').
      destruct (Hfinish r vis (N.le_refl r) Hr F1 P1 P2 En (fun x Hx => Hx) S1 P3 P4 P5 (fun _ => eq_refl)
                  (fun _ => F9) P6) as [A|C].
      + left. exact A.
      + right. left. exact C.
  Qed.
End Verifier.

(* ====================================================================================== *)
(* The replica invariant at the hash level, and MAIN                                        *)
(* ====================================================================================== *)

Section Replica.
  Variable cr : crypto.
  Hypothesis Hhash32 : forall x, length (cr_hash cr x) = 32%nat.
  Hypothesis Hnonblank : forall x, all_zero (cr_hash cr x) = false.
  Variable bs : list bytes.               (* the writer's blocks *)
  Hypothesis Hw : writer_fits bs.

  (* every node the replica can look up (unflushed or stored) carries the writer's HASH at its index and
     lies inside the tree over r blocks -- its size is unconstrained; the roots in memory, the length,
     the byte length are the writer's at length r; fork 0 *)
  Definition HInv (c : core) (d : disk) : Prop :=
    let t := c_tree c in let r := t_length t in
    r <= N.of_nat (length bs) /\ t_fork t = 0 /\
    t_roots t = ref_roots cr bs r /\ t_byte_length t = prefix_size bs r /\
    hunfl_sound cr bs t r /\ hfile_sound cr bs (d_tree d) r.

  Lemma RInv_HInv c d : RInv cr bs c d -> HInv c d.
  Proof.
    intros (H1 & H2 & H3 & H4 & H5 & H6 & _). destruct Hw as [Hw1 _].
    split; [exact H1|]. split; [exact H2|]. split; [exact H3|]. split; [exact H4|].
    split; [apply (unfl_sound_h cr bs _ _ Hw1 H5)|apply (file_sound_h cr bs _ _ H6)].
  Qed.

  (* the (roots hash, length, fork) message of a replica satisfying HInv is one the writer signed *)
  Lemma HInv_signed c d :
    HInv c d ->
    signed_by_writer cr bs (signable (tree_hash cr (t_roots (c_tree c))) (t_length (c_tree c)) (t_fork (c_tree c))).
  Proof.
    intros (H1 & H2 & H3 & _). exists (t_length (c_tree c)). split; [exact H1|]. rewrite H2, H3. reflexivity.
  Qed.

  (* the reported length and byte length are the writer's *)
  Lemma HInv_info c d :
    HInv c d ->
    i_length (core_info c) <= N.of_nat (length bs) /\
    i_byte_length (core_info c) = prefix_size bs (i_length (core_info c)) /\ i_fork (core_info c) = 0.
  Proof. intros (H1 & H2 & H3 & H4 & _). cbn [core_info i_length i_byte_length i_fork]. auto. Qed.

  Lemma maybe_flush_hinv f c w c' w' u r :
    maybe_flush cr f c w = (c', w', Ok u) ->
    hunfl_sound cr bs (c_tree c) r -> hfile_sound cr bs (d_tree (w_disk w)) r ->
    c_keypair c' = c_keypair c /\
    (forall i, bf_get (c_bitfield c') i = bf_get (c_bitfield c) i) /\
    t_roots (c_tree c') = t_roots (c_tree c) /\ t_length (c_tree c') = t_length (c_tree c) /\
    t_byte_length (c_tree c') = t_byte_length (c_tree c) /\ t_fork (c_tree c') = t_fork (c_tree c) /\
    d_data (w_disk w') = d_data (w_disk w) /\
    hunfl_sound cr bs (c_tree c') r /\ hfile_sound cr bs (d_tree (w_disk w')) r.
  Proof.
    intros H Hu Hf.
    unfold maybe_flush in H. rewrite mbind_get_core in H.
    match type of H with (if ?b then _ else _) _ _ = _ => destruct b end.
    - rewrite mbind_put_skip in H.
      set (c1 := mkCore (c_keypair c) (c_oplog c) (c_tree c) (c_bitfield c) (c_header c) 3) in *.
      pose proof (hunfl_sound_ok cr Hhash32 bs (c_tree c) r Hu) as Hok.
      destruct (flush_all_spec cr Hhash32 Hnonblank c1 w Hok)
        as [(c2 & w2 & E)|(o' & d' & jn & t' & tops & d1 & d2 & E & TF & T1 & D1 & A2 & T3 & D3)];
        rewrite E in H; [discriminate H|]. inversion H; subst c' w'. clear H E.
      cbn [c_keypair c_tree c_bitfield w_disk] in *.
      destruct (tree_flush_other_stores (c_tree c) t' tops d1 d2 TF A2 Hok)
        as (Q1 & _ & _ & R1 & R2 & R3 & R4 & _).
      rewrite <- T1 in Hf.
      destruct (tree_flush_hsound cr Hhash32 bs (c_tree c) t' tops d1 d2 r TF A2 Hu Hf) as [S1 S2].
      split; [reflexivity|]. split; [intros i; reflexivity|].
      split; [exact R1|]. split; [exact R2|]. split; [exact R3|]. split; [exact R4|].
      split; [congruence|]. split; [exact S1|]. rewrite T3. exact S2.
    - unfold put_skip in H. inversion H; subst c' w'. cbn [c_keypair c_tree c_bitfield].
      split; [reflexivity|]. split; [intros i; reflexivity|].
      do 5 (split; [reflexivity|]). split; [exact Hu|exact Hf].
  Qed.

  Lemma HInv_flush f c d j ev c' w' u :
    HInv c d -> maybe_flush cr f c (mkWorld d j ev) = (c', w', Ok u) -> HInv c' (w_disk w').
  Proof.
    intros (H1 & H2 & H3 & H4 & H5 & H6) H.
    destruct (maybe_flush_hinv f c _ c' w' u _ H H5 H6) as (_ & _ & Gr & Gl & Gbl & Gf & _ & Gu & Gfs).
    cbn [w_disk] in *. unfold HInv. rewrite Gr, Gl, Gbl, Gf. auto 10.
  Qed.

  (* committing the changeset of an accepted proof *)
  Lemma tree_commit_hinv t tf pf pk cs m t' :
    accepted cr bs t tf pf pk cs m -> p_fork pf = 0 -> t_fork t = 0 ->
    t_roots t = ref_roots cr bs (t_length t) -> t_byte_length t = prefix_size bs (t_length t) ->
    hunfl_sound cr bs t (t_length t) ->
    tree_commit t cs = Ok t' ->
    t_length t' = m /\ t_roots t' = ref_roots cr bs m /\ t_byte_length t' = prefix_size bs m /\ t_fork t' = 0 /\
    hunfl_sound cr bs t' m.
  Proof.
    intros [A1 A2 A3 A4 A5 A6 _ _ _ (A7 & A8 & A9) A10 A11 A12] Hpf Hfk HR HB Hu H.
    assert (Hnodes : forall x, In x (cs_nodes cs) -> hauth cr bs m x /\ n_length x <= u64_max).
    { intros x Hx. rewrite Forall_forall in A6. destruct (A6 x Hx) as [B1 [_ B2]]. auto. }
    assert (Hu' : hunfl_sound cr bs t m) by (apply (hunfl_sound_mono cr bs t _ m A1 Hu)).
    unfold tree_commit in H. destruct (commitable t cs); [|discriminate H]. cbn [negb] in H.
    destruct (cs_upgraded cs) eqn:Up.
    - rewrite A7, A8, N.ltb_irrefl in H. injection H as <-.
      cbn [t_length t_roots t_byte_length t_fork t_unflushed].
      split; [exact A3|]. split; [exact A4|]. split; [exact A5|]. split.
      + destruct (p_upgrade pf) as [u|] eqn:Eu.
        * destruct (A12 u eq_refl) as [B _]. rewrite B. exact Hpf.
        * discriminate (A11 eq_refl).
      + apply (add_nodes_hsound cr bs t _ m (cs_nodes cs) Hu' Hnodes). reflexivity.
    - injection H as <-. cbn [t_length t_roots t_byte_length t_fork t_unflushed].
      pose proof (A10 eq_refl) as Em. rewrite <- Em in *.
      split; [reflexivity|]. split; [exact HR|]. split; [exact HB|]. split; [exact Hfk|].
      apply (add_nodes_hsound cr bs t _ m (cs_nodes cs) Hu' Hnodes). reflexivity.
  Qed.

  (* MAIN: whatever the shape of the proof and whatever the sizes in its nodes, an accepted proof keeps the
     hash-level invariant, the accepted block value is the writer's block at the claimed index, the new
     length is one whose (roots hash, length, fork 0) message the writer signed -- or a hash collision or
     a forged signature is exhibited *)
  Theorem apply_any_proof f pf c d j ev c' w' :
    HInv c d -> proof_wire pf -> tree_root_fits cr pf (c_tree c) ->
    core_apply_proof cr f pf c (mkWorld d j ev) = (c', w', Ok true) ->
    (HInv c' (w_disk w') /\
     t_length (c_tree c) <= t_length (c_tree c') /\
     (forall b, p_block pf = Some b ->
        db_value b = blk bs (db_index b) /\ db_index b < t_length (c_tree c')) /\
     signed_by_writer cr bs (signable (tree_hash cr (t_roots (c_tree c'))) (t_length (c_tree c')) 0) /\
     i_byte_length (core_info c') = prefix_size bs (i_length (core_info c')))
    \/ some_collision cr \/ forged_signature cr bs (kp_public (c_keypair c)).
  Proof.
    intros W Hwire Hfits H. pose proof W as (H1 & H2 & H3 & H4 & H5 & H6).
    destruct (accepted_gates cr _ _ _ _ _ _ H) as (cs & Ef & V & Cm & Ht). clear H.
    unfold verifier_says in V. cbn [w_disk] in V.
    destruct (verify_proof_accepted cr Hhash32 bs Hw _ _ _ _ _ H1 H3 H4 H5 H6 Hwire Hfits V)
      as [(m & Acc)|[C|Fg]]; [|right; left; exact C|right; right; exact Fg].
    left.
    apply apply_tail_inv in Ht. destruct Ht as (_ & bu & c1 & w1 & c2 & w2 & w3 & Hbu & Hlc & Hmf & Hd3).
    assert (E1 : c1 = c /\ d_tree (w_disk w1) = d_tree d).
    { destruct (p_block pf) as [b|].
      - rewrite mbind_lift in Hbu. cbn [w_disk] in Hbu.
        destruct (byte_offset_in_changeset (c_tree c) (d_tree d) (db_index b) cs) as [off| | |]; try discriminate Hbu.
        rewrite mbind_emit_SW in Hbu. unfold ret in Hbu. inversion Hbu; subst. cbn [w_disk].
        split; [reflexivity|]. destruct d; reflexivity.
      - unfold ret in Hbu. inversion Hbu; subst. split; reflexivity. }
    destruct E1 as [-> Edt1].
    apply log_and_commit_inv in Hlc. destruct Hlc as (t' & Htc & Et' & _ & _ & Edt & _).
    destruct (tree_commit_hinv _ _ _ _ _ _ _ Acc (eq_trans Ef H2) H2 H3 H4 H5 Htc) as (T1 & T2 & T3 & T4 & T5).
    assert (W2 : HInv c2 (w_disk w2)).
    { unfold HInv. rewrite Et', T1, T2, T3, T4, Edt, Edt1.
      split; [apply (ac_le _ _ _ _ _ _ _ _ Acc)|]. split; [reflexivity|]. split; [reflexivity|]. split; [reflexivity|].
      split; [exact T5|]. apply (hfile_sound_mono cr bs _ _ m (ac_ge _ _ _ _ _ _ _ _ Acc) H6). }
    destruct w2 as [d2 j2 ev2].
    pose proof (HInv_flush f c2 d2 j2 ev2 c' w3 tt W2 Hmf) as W3.
    destruct (maybe_flush_hinv f c2 _ c' w3 tt m Hmf) as (_ & _ & Gr & Gl & _).
    { rewrite Et'. exact T5. }
    { destruct W2 as (_ & _ & _ & _ & _ & X). rewrite Et', T1 in X. exact X. }
    rewrite Hd3. split; [exact W3|].
    rewrite Gl, Et', T1. split; [apply (ac_ge _ _ _ _ _ _ _ _ Acc)|]. split.
    - intros b Eb. destruct (ac_block _ _ _ _ _ _ _ _ Acc b Eb) as (B1 & B2 & _). auto.
    - split.
      + pose proof (HInv_signed c' (w_disk w3) W3) as S. destruct W3 as (_ & Fk & _). rewrite Fk in S.
        rewrite Gl, Et', T1 in S. exact S.
      + apply (HInv_info c' (w_disk w3) W3).
  Qed.

  (* EVERY outcome: accepted, refused at a gate, or failed half-way (an error or a panic after the gates,
     possibly in the middle of a flush) -- the hash-level invariant is kept *)
  Theorem apply_any_proof_any_outcome f pf c d j ev c' w' r :
    HInv c d -> proof_wire pf -> tree_root_fits cr pf (c_tree c) ->
    core_apply_proof cr f pf c (mkWorld d j ev) = (c', w', r) ->
    HInv c' (w_disk w') \/ some_collision cr \/ forged_signature cr bs (kp_public (c_keypair c)).
  Proof.
    intros W Hwire Hfits H. pose proof W as (H1 & H2 & H3 & H4 & H5 & H6).
    destruct (N.eq_dec (p_fork pf) (t_fork (c_tree c))) as [Ef|Ef].
    2:{ rewrite (apply_fork_mismatch cr f pf c _ Ef) in H. inversion H; subst. left. exact W. }
    destruct (CacheOps.apply_proof_effect_any cr f pf c _ c' w' r H) as [[T D]|(cs & t1 & V & Hc & R)];
      cbn [w_disk] in *.
    { left. unfold HInv. cbv zeta. rewrite T. rewrite D. exact (conj H1 (conj H2 (conj H3 (conj H4 (conj H5 H6))))). }
    (* the tree before the flush *)
    assert (S1 : (exists m, t_length t1 = m /\ m <= N.of_nat (length bs) /\ t_fork t1 = 0 /\
                            t_roots t1 = ref_roots cr bs m /\ t_byte_length t1 = prefix_size bs m /\
                            hunfl_sound cr bs t1 m /\ hfile_sound cr bs (d_tree d) m) \/
                 some_collision cr \/ forged_signature cr bs (kp_public (c_keypair c))).
    { destruct Hc as [->|Htc].
      - left. exists (t_length (c_tree c)). auto 10.
      - destruct (verify_proof_accepted cr Hhash32 bs Hw _ _ _ _ _ H1 H3 H4 H5 H6 Hwire Hfits V)
          as [(m & Acc)|[C|Fg]]; [left|right; left; exact C|right; right; exact Fg].
        destruct (tree_commit_hinv _ _ _ _ _ _ _ Acc (eq_trans Ef H2) H2 H3 H4 H5 Htc) as (T1 & T2 & T3 & T4 & T5).
        exists m. split; [exact T1|]. split; [apply (ac_le _ _ _ _ _ _ _ _ Acc)|]. split; [exact T4|].
        split; [exact T2|]. split; [exact T3|]. split; [exact T5|].
        apply (hfile_sound_mono cr bs _ _ m (ac_ge _ _ _ _ _ _ _ _ Acc) H6). }
    destruct S1 as [(m & L1 & L2 & L3 & L4 & L5 & L6 & L7)|[C|Fg]]; [left|right; left; exact C|right; right; exact Fg].
    destruct R as [[Et Ed]|(tops & d1 & d2 & Hfl & Ed1 & Ha & Ed2)].
    - unfold HInv. cbv zeta. rewrite Et, Ed, L1. exact (conj L2 (conj L3 (conj L4 (conj L5 (conj L6 L7))))).
    - pose proof (hunfl_sound_ok cr Hhash32 bs t1 m L6) as Hok.
      destruct (tree_flush_other_stores t1 (c_tree c') tops d1 d2 Hfl Ha Hok) as (_ & _ & _ & R1 & R2 & R3 & R4 & _).
      rewrite <- Ed1 in L7.
      destruct (tree_flush_hsound cr Hhash32 bs t1 (c_tree c') tops d1 d2 m Hfl Ha L6 L7) as [S2 S3].
      unfold HInv. cbv zeta. rewrite Ed2, R1, R2, R3, R4, L1.
      exact (conj L2 (conj L3 (conj L4 (conj L5 (conj S2 S3))))).
  Qed.
End Replica.

(* ====================================================================================== *)
(* Sizes: exactly which sizes an accepted proof binds                                       *)
(* ====================================================================================== *)

Section Sizes.
  Variable cr : crypto.
  Hypothesis Hhash32 : forall x, length (cr_hash cr x) = 32%nat.
  Variable bs : list bytes.
  Hypothesis Hw : writer_fits bs.
  Variables (t : mtree) (tf : file) (pf : proof) (pk : bytes) (cs : changeset) (m : N).
  Hypothesis Acc : accepted cr bs t tf pf pk cs m.
  Hypothesis HR : t_roots t = ref_roots cr bs (t_length t).

  (* the node has the writer's size *)
  Definition wsize (x : node) : Prop := n_length x = n_length (ref_at cr bs (n_index x)).

  Definition spool : list node := t_roots t ++ cs_nodes cs.

  (* the sizes the hash chain determines: a root of the signed tree, a root the replica held, the leaf
     computed from the block value, a parent computed by the verifier, and a node merged with a partner
     whose size is determined *)
  Inductive size_bound : node -> Prop :=
  | sb_signed x : In x (cs_roots cs) -> size_bound x
  | sb_held x : In x (t_roots t) -> size_bound x
  | sb_leaf x : vt_leaf cr (p_block pf) x -> size_bound x
  | sb_computed a b x : merged_of cr a b x -> size_bound x
  | sb_partner x s P : (merged_of cr x s P \/ merged_of cr s x P) -> In P (cs_nodes cs) -> In s spool ->
                       size_bound s -> size_bound x.

  Lemma ref_root_wsize r x : In x (ref_roots cr bs r) -> wsize x.
  Proof.
    intros Hx. destruct (root_is_ref cr bs _ _ Hx) as (D & P & -> & _).
    unfold wsize. rewrite ref_node_index, ref_at_index. reflexivity.
  Qed.

  Lemma spool_hauth x : In x spool -> hauth cr bs m x \/ wsize x.
  Proof.
    intros Hx. apply in_app_or in Hx. destruct Hx as [Hx|Hx].
    - right. rewrite HR in Hx. apply (ref_root_wsize _ _ Hx).
    - left. pose proof (ac_nodes _ _ _ _ _ _ _ _ Acc) as A. rewrite Forall_forall in A. apply (A x Hx).
  Qed.

  (* what one merge says about sizes: the parent has the writer's size, the children the writer's sum *)
  Lemma merge_sizes a b P :
    merged_of cr a b P -> In P (cs_nodes cs) ->
    (wsize P /\ n_length a + n_length b =
                n_length (ref_at cr bs (n_index a)) + n_length (ref_at cr bs (n_index b))) \/ some_collision cr.
  Proof.
    intros M HP. destruct Hw as [Hw1 _].
    pose proof (ac_nodes _ _ _ _ _ _ _ _ Acc) as A. rewrite Forall_forall in A. destruct (A P HP) as [AP _].
    destruct (merge_one_h cr Hhash32 bs Hw1 a b P m M AP) as [(_ & _ & S1 & S2)|C]; [left|right; exact C].
    split; assumption.
  Qed.

  (* every size_bound node has the writer's size *)
  Theorem size_bound_sound x : size_bound x -> In x spool -> wsize x \/ some_collision cr.
  Proof.
    intros Hb. induction Hb as [x Hx|x Hx|x Hx|a b x M|x s P M HP Hs Hb IH]; intros Hin.
    - left. rewrite (ac_roots _ _ _ _ _ _ _ _ Acc) in Hx. apply (ref_root_wsize _ _ Hx).
    - left. rewrite HR in Hx. apply (ref_root_wsize _ _ Hx).
    - left. destruct Hx as (b & Eb & ->). destruct (ac_block _ _ _ _ _ _ _ _ Acc b Eb) as (Ev & _ & _).
      unfold wsize. cbn [block_node n_index n_length].
      replace (2 * db_index b) with (ft_index (N.of_nat 0) (db_index b))
        by (change (N.of_nat 0) with 0; apply ft_index_leaf).
      rewrite ref_at_index. cbn [ref_node block_node n_length]. rewrite Ev. reflexivity.
    - apply in_app_or in Hin. destruct Hin as [Hin|Hin].
      + left. rewrite HR in Hin. apply (ref_root_wsize _ _ Hin).
      + destruct (merge_sizes a b x M Hin) as [[A _]|C]; [left; exact A|right; exact C].
    - destruct (IH Hs) as [Ws|C]; [|right; exact C]. unfold wsize in *.
      destruct M as [M|M]; destruct (merge_sizes _ _ _ M HP) as [[_ S]|C]; try (right; exact C); left; lia.
  Qed.

  (* the complement.  The statement asked for was
       unbound_sizes_come_in_sibling_pairs: a stored node that is not size_bound is one of two supplied
       nodes at sibling positions (the pairs of SoundCore.size_carveout_refuted /
       size_carveout_upgrade_additional_refuted).
     It is FALSE: AnyProofEx.lone_node_size_refuted -- a hash section made of ONE node is accepted with any
     size (only its hash is compared with the stored node), no sibling involved.  The closest true form:
     a node whose size is NOT determined was supplied by the proof, and either it was only compared -- by
     hash -- with the stored node (the lone top of the tree sections), or it was merged with another
     supplied node: these come in sibling pairs, bound in sum (sibling_pair_sum) *)
  Theorem unbound_sizes_alone_or_in_sibling_pairs x :
    In x (cs_nodes cs) ->
    size_bound x \/
    (proof_supplied pf x /\ stored_check t tf x) \/
    (proof_supplied pf x /\ exists s P, proof_supplied pf s /\ In s (cs_nodes cs) /\ In P (cs_nodes cs) /\
                                        (merged_of cr x s P \/ merged_of cr s x P)).
  Proof.
    intros Hx.
    pose proof (ac_made _ _ _ _ _ _ _ _ Acc) as Hmade. rewrite Forall_forall in Hmade.
    pose proof (ac_closure _ _ _ _ _ _ _ _ Acc) as Hcl. rewrite Forall_forall in Hcl.
    destruct (Hmade x Hx) as [Sx|[Lx|(a & b & M & _)]];
      [|left; apply sb_leaf, Lx|left; apply (sb_computed a b x M)].
    assert (Hxp : In x (t_roots t ++ cs_nodes cs)) by (apply in_or_app; right; exact Hx).
    destruct (Hcl x Hxp) as [A|[(s & P & M & Hs & HP)|A]].
    - left. apply sb_signed, A.
    - apply in_app_or in Hs. destruct Hs as [Hs|Hs].
      + left. apply (sb_partner x s P M HP); [apply in_or_app; left; exact Hs|apply sb_held, Hs].
      + destruct (Hmade s Hs) as [Ss|[Ls|(a & b & Ms & _)]].
        * right. right. split; [exact Sx|]. exists s, P. auto.
        * left. apply (sb_partner x s P M HP); [apply in_or_app; right; exact Hs|apply sb_leaf, Ls].
        * left. apply (sb_partner x s P M HP); [apply in_or_app; right; exact Hs|apply (sb_computed a b s Ms)].
    - right. left. split; assumption.
  Qed.

  (* the two sizes of such a pair have the writer's sum *)
  Corollary sibling_pair_sum x s P :
    (merged_of cr x s P \/ merged_of cr s x P) -> In P (cs_nodes cs) ->
    n_length x + n_length s = n_length (ref_at cr bs (n_index x)) + n_length (ref_at cr bs (n_index s))
    \/ some_collision cr.
  Proof.
    intros [M|M] HP; destruct (merge_sizes _ _ _ M HP) as [[_ S]|C]; try (right; exact C); left; lia.
  Qed.

  (* a stored node whose size is determined is the writer's node: index, size and hash *)
  Corollary bound_node_authentic x :
    In x (cs_nodes cs) -> size_bound x -> authentic cr bs m x \/ some_collision cr.
  Proof.
    intros Hx Hb.
    pose proof (ac_nodes _ _ _ _ _ _ _ _ Acc) as A. rewrite Forall_forall in A. destruct (A x Hx) as [[Ah Ai] _].
    destruct (size_bound_sound x Hb) as [Wx|C]; [apply in_or_app; right; exact Hx| |right; exact C].
    left. split; [|exact Ai]. apply node_eq; [symmetry; apply ref_at_index_id|exact Wx|exact Ah].
  Qed.

  (* when every stored node is size_bound, every stored node is the writer's node (index, size, hash) *)
  Corollary all_bound_authentic :
    (forall x, In x (cs_nodes cs) -> size_bound x) ->
    Forall (authentic cr bs m) (cs_nodes cs) \/ some_collision cr.
  Proof.
    intros Hall. apply Forall_or_ext. intros x Hx.
    pose proof (ac_nodes _ _ _ _ _ _ _ _ Acc) as A. rewrite Forall_forall in A. destruct (A x Hx) as [[Ah Ai] _].
    destruct (size_bound_sound x (Hall x Hx)) as [Wx|C]; [apply in_or_app; right; exact Hx| |right; exact C].
    left. split; [|exact Ai]. apply node_eq; [symmetry; apply ref_at_index_id|exact Wx|exact Ah].
  Qed.
End Sizes.

(* the size statements for the proofs verify_proof accepts *)
Theorem accepted_sizes cr (Hhash32 : forall x, length (cr_hash cr x) = 32%nat) bs (Hw : writer_fits bs)
        t tf pf pk cs :
  t_length t <= N.of_nat (length bs) -> t_roots t = ref_roots cr bs (t_length t) ->
  t_byte_length t = prefix_size bs (t_length t) ->
  hunfl_sound cr bs t (t_length t) -> hfile_sound cr bs tf (t_length t) ->
  proof_wire pf -> tree_root_fits cr pf t ->
  verify_proof cr t tf pf pk = Ok cs ->
  ((forall x, In x (cs_nodes cs) -> size_bound cr t pf cs x -> wsize cr bs x \/ some_collision cr) /\
   (forall x, In x (cs_nodes cs) ->
      size_bound cr t pf cs x \/
      (proof_supplied pf x /\ stored_check t tf x) \/
      (proof_supplied pf x /\ exists s P, proof_supplied pf s /\ In s (cs_nodes cs) /\ In P (cs_nodes cs) /\
                                          (merged_of cr x s P \/ merged_of cr s x P))) /\
   (forall x s P, (merged_of cr x s P \/ merged_of cr s x P) -> In P (cs_nodes cs) ->
      n_length x + n_length s = n_length (ref_at cr bs (n_index x)) + n_length (ref_at cr bs (n_index s))
      \/ some_collision cr))
  \/ some_collision cr \/ forged_signature cr bs pk.
Proof.
  intros Hr HR HB Hu Hf Hwire Hfits H.
  destruct (verify_proof_accepted cr Hhash32 bs Hw t tf pf pk cs Hr HR HB Hu Hf Hwire Hfits H)
    as [(m & Acc)|[C|F]]; [left|right; left; exact C|right; right; exact F].
  split; [|split].
  - intros x Hx Hb. apply (size_bound_sound cr Hhash32 bs Hw t tf pf pk cs m Acc HR x Hb).
    apply in_or_app. right. exact Hx.
  - intros x Hx. apply (unbound_sizes_alone_or_in_sibling_pairs cr bs t tf pf pk cs m Acc x Hx).
  - intros x s P M HP. apply (sibling_pair_sum cr Hhash32 bs Hw t tf pf pk cs m Acc x s P M HP).
Qed.

(* ====================================================================================== *)
(* Reads                                                                                    *)
(* ====================================================================================== *)

Section Reads.
  Variable cr : crypto.
  Variable bs : list bytes.
  Hypothesis Hw : writer_fits bs.

  (* every node that can be looked up and whose span ends at or before block i (inclusive) has the
     writer's size: these are the only sizes a read of block i uses *)
  Definition sizes_ok_upto (c : core) (d : disk) (i : N) : Prop :=
    forall dd oo nd, (oo + 1) * p2 dd <= i + 1 ->
      required_node (c_tree c) (d_tree d) (ft_index (N.of_nat dd) oo) = Ok nd ->
      n_length nd = n_length (ref_node cr bs dd oo).

  Lemma descend_local (t : mtree) (tf : file) (i : N) (d : nat) : forall fuel o off res,
    (forall dd oo nd, (oo + 1) * p2 dd <= i + 1 ->
       required_node t tf (ft_index (N.of_nat dd) oo) = Ok nd -> n_length nd = n_length (ref_node cr bs dd oo)) ->
    o * p2 d <= i -> i < (o + 1) * p2 d ->
    offset_descend fuel t tf (it_at (N.of_nat d) o) (2 * i) off = Ok res ->
    res + prefix_size bs (o * p2 d) = off + prefix_size bs i.
  Proof.
    induction d as [|d IH]; intros fuel o off res Hsz H1 H2 H;
      (destruct fuel as [|fuel]; [discriminate H|]); cbn [offset_descend] in H.
    - rewrite p2_0 in *. assert (i = o) as -> by lia.
      cbn [it_at it_index] in H. change (N.of_nat 0) with 0 in H. rewrite ft_index_leaf, N.eqb_refl in H.
      injection H as <-. rewrite N.mul_1_r. lia.
    - rewrite p2_S in *. pose proof (p2_pos d) as Hp. set (P := p2 d) in *.
      replace (N.of_nat (S d)) with (N.of_nat d + 1) in H by lia.
      pose proof (ft_index_succ (N.of_nat d + 1) o) as S. rewrite pow2_succ in S. fold (p2 d) in S. fold P in S.
      cbn [it_at it_index] in H. fold (it_at (N.of_nat d + 1) o) in H.
      destruct (N.eqb_spec (ft_index (N.of_nat d + 1) o) (2 * i)) as [E|E]; [nia|].
      rewrite it_left_child_at in H.
      destruct (N.ltb_spec (2 * i) (ft_index (N.of_nat d + 1) o)) as [L|L].
      + pose proof (IH fuel (2 * o) off res Hsz) as R. fold P in R.
        replace (o * (2 * P)) with (2 * o * P) by lia. apply R; [nia|nia|exact H].
      + change (it_index (it_at (N.of_nat d) (2 * o))) with (ft_index (N.of_nat d) (2 * o)) in H.
        apply bind_ok in H. destruct H as (nd & Hn & H).
        rewrite it_sibling_at_even in H by (rewrite even_mod; lia).
        assert (Hl : n_length nd = n_length (ref_node cr bs d (2 * o))).
        { apply (Hsz d (2 * o) nd); [fold P; nia|exact Hn]. }
        pose proof (IH fuel (2 * o + 1) (off + n_length nd) res Hsz) as R. fold P in R.
        specialize (R ltac:(nia) ltac:(nia) H).
        rewrite Hl, ref_node_length in R. pose proof (ref_size_prefix bs d (2 * o)) as Q. fold (p2 d) in Q. fold P in Q.
        replace (o * (2 * P)) with (2 * o * P) by lia. lia.
  Qed.

  (* under HInv and the size condition, a read of block i looks at the writer's byte range *)
  Theorem get_reads_writer_range c d j ev i c' w' v :
    HInv cr bs c d -> sizes_ok_upto c d i ->
    core_get i c (mkWorld d j ev) = (c', w', Ok (Some v)) ->
    i < t_length (c_tree c) /\
    ((len (blk bs i) = 0 /\ v = []) \/
     (len (blk bs i) <> 0 /\ f_read (d_data d) (prefix_size bs i) (len (blk bs i)) = Some v)).
  Proof.
    intros (H1 & H2 & H3 & H4 & H5 & H6) Hsz H. destruct Hw as [Hw1 Hw2].
    unfold core_get in H. rewrite mbind_get_core in H.
    destruct (bf_get (c_bitfield c) i); cbn [negb] in H.
    2:{ unfold send, ret, mbind in H. inversion H. }
    rewrite mbind_get_disk in H. cbn [w_disk] in H. rewrite mbind_lift in H.
    destruct (byte_range (c_tree c) (d_tree d) i) as [[off l]| | |] eqn:Hbr; try discriminate H.
    unfold byte_range in Hbr. apply bind_ok in Hbr. destruct Hbr as (idx & Hv & Hbr).
    apply bind_ok in Hbr. destruct Hbr as (nd & Hn & Hbr).
    apply bind_ok in Hbr. destruct Hbr as (off0 & Hoff & Hbr). injection Hbr as <- <-.
    unfold validate_hypercore_index in Hv. apply bind_ok in Hv. destruct Hv as (idx0 & Hm & Hv).
    unfold mul64 in Hm. destruct (fits_u64 (2 * i)); [|discriminate Hm]. injection Hm as <-.
    destruct (N.leb_spec (2 * t_length (c_tree c)) (2 * i)) as [L|L]; [discriminate Hv|]. injection Hv as <-.
    assert (Hir : i < t_length (c_tree c)) by lia.
    split; [exact Hir|].
    assert (Hl : n_length nd = len (blk bs i)).
    { replace (2 * i) with (ft_index (N.of_nat 0) i) in Hn by (change (N.of_nat 0) with 0; apply ft_index_leaf).
      rewrite (Hsz 0%nat i nd ltac:(rewrite p2_0; lia) Hn). reflexivity. }
    assert (Hr63 : t_length (c_tree c) <= 2 ^ 63) by (apply u64_63; unfold NODE_SIZE in *; lia).
    destruct (offset_leaf_split cr bs (c_tree c) (d_tree d) _ i H3 Hr63 Hir) as (D & P & _ & B1 & B2 & _ & E).
    rewrite E in Hoff.
    pose proof (descend_local (c_tree c) (d_tree d) i D CLIMB P _ _ Hsz B1 B2 Hoff) as R.
    assert (off0 = prefix_size bs i) as -> by lia.
    rewrite Hl in H. destruct (N.eqb_spec (len (blk bs i)) 0) as [E0|E0].
    - unfold ret in H. left. split; [exact E0|]. inversion H. reflexivity.
    - right. split; [exact E0|].
      destruct (f_read (d_data d) (prefix_size bs i) (len (blk bs i))) as [data|]; [|inversion H].
      unfold ret in H. inversion H. reflexivity.
  Qed.

  (* ... hence, when the block's bytes are where the writer has them, it returns the writer's block *)
  Corollary get_under_sizes c d j ev i c' w' v :
    HInv cr bs c d -> sizes_ok_upto c d i ->
    (len (blk bs i) <> 0 -> f_read (d_data d) (prefix_size bs i) (len (blk bs i)) = Some (blk bs i)) ->
    core_get i c (mkWorld d j ev) = (c', w', Ok (Some v)) -> v = blk bs i.
  Proof.
    intros W Hsz Hd H. destruct (get_reads_writer_range c d j ev i c' w' v W Hsz H) as [_ [[E ->]|[E R]]].
    - symmetry. apply len_zero_nil, E.
    - rewrite (Hd E) in R. injection R as <-. reflexivity.
  Qed.

  (* the size-level invariant of SoundCore gives the size condition for every block, and the data
     condition for every held block: get_under_sizes generalises SoundCore.get_replica_sound *)
  Lemma RInv_sizes_ok c d i : RInv cr bs c d -> sizes_ok_upto c d i.
  Proof.
    intros (_ & _ & _ & _ & H5 & H6 & _) dd oo nd _ Hreq.
    destruct (required_node_sound cr bs _ _ _ _ _ H5 H6 Hreq) as [-> _]. rewrite ref_at_index. reflexivity.
  Qed.

  Lemma RInv_data_in_place c d i :
    RInv cr bs c d -> bf_get (c_bitfield c) i = true ->
    len (blk bs i) <> 0 -> f_read (d_data d) (prefix_size bs i) (len (blk bs i)) = Some (blk bs i).
  Proof. intros (_ & _ & _ & _ & _ & _ & _ & H8) Hi. destruct (H8 i Hi) as (_ & _ & _ & A). exact A. Qed.
End Reads.

Print Assumptions verify_proof_accepted.
Print Assumptions apply_any_proof.
Print Assumptions size_bound_sound.
Print Assumptions unbound_sizes_alone_or_in_sibling_pairs.
Print Assumptions sibling_pair_sum.
Print Assumptions all_bound_authentic.
Print Assumptions get_reads_writer_range.
Print Assumptions get_under_sizes.
Print Assumptions accepted_sizes.
Print Assumptions RInv_sizes_ok.
Print Assumptions apply_any_proof_any_outcome.
Print Assumptions bound_node_authentic.

(* SoundCoreBU.v -- C04/C03 at the Core level: a block section together with an upgrade section, and the
   theorem for all proofs made of block and/or upgrade sections
   (apply_keeps_replica_consistent_block_upgrade). *)
From HC Require Import Base NMap Codec CodecFacts Crypto FlatTree Storage Bitfield Oplog Merkle Core.
From HC Require Import FlatTreeFacts StorageFacts BitfieldFacts OplogFacts TreeRef OffsetFacts CoreFacts
                       Sound NoPanic Refine Replicate SoundCoreLib SoundCore SoundCoreUp.
From Coq Require Import FMapPositive ZifyN ZifyNat ZifyBool.
Ltac Zify.zify_post_hook ::= Z.div_mod_to_equations.
Arguments N.add : simpl never.
Arguments N.sub : simpl never.
Arguments N.mul : simpl never.
Arguments N.div : simpl never.
Arguments N.modulo : simpl never.
Arguments N.pow : simpl never.
Arguments N.eqb : simpl never.
Arguments N.ltb : simpl never.
Arguments N.leb : simpl never.
Arguments N.of_nat : simpl never.
Arguments N.to_nat : simpl never.

(* ====================================================================================== *)
(* B1. The path walk of byte_offset_in_changeset over authentic nodes                        *)
(* ====================================================================================== *)

Section Walk.
  Variable cr : crypto.
  Hypothesis Hhash32 : forall x, length (cr_hash cr x) = 32%nat.
  Variable bs : list bytes.
  Hypothesis Hfit : sumN (map len bs) <= u64_max.

  Let R := ref_node cr bs.

  (* over a list of writer's nodes the walk climbs from (d, o) to some ancestor, accumulating the
     sizes of the left siblings it passes; every ancestor it passes is in the list *)
  Lemma walk_auth : forall L d o off,
    Forall (Tn cr bs) L ->
    exists res k,
      cs_path_walk L (it_at (N.of_nat (S d)) (o / 2)) off (N.odd o) (Some (R d o))
        = Ok (off + res, Some (R (d + k) (o / p2 k))) /\
      prefix_size bs (o / p2 k * p2 (d + k)) + res = prefix_size bs (o * p2 d) /\
      forall j, (j < k)%nat -> In (R (d + S j) (o / p2 (S j))) L.
  Proof.
    induction L as [|x L IH]; intros d o off HT.
    - exists 0, 0%nat. cbn [cs_path_walk]. rewrite Nat.add_0_r, p2_0, N.div_1_r, N.add_0_r.
      split; [reflexivity|]. split; [lia|]. intros j Hj. lia.
    - inversion HT as [|? ? Hx HT']; subst. cbn [cs_path_walk]. cbn [it_at it_index].
      destruct (N.eqb_spec (n_index x) (ft_index (N.of_nat (S d)) (o / 2))) as [E|E].
      + assert (Ex : x = R (S d) (o / 2)).
        { unfold Tn in Hx. rewrite Hx, E. apply ref_at_index. }
        subst x. fold (it_at (N.of_nat (S d)) (o / 2)).
        rewrite it_parent_at, it_is_right_at.
        replace (N.of_nat (S d) + 1) with (N.of_nat (S (S d))) by lia.
        destruct (R_parent cr bs d o) as [_ Rl]. fold R in Rl.
        destruct (parity o) as [(Ev & Od & q & Eo)|(Ev & Od & q & Eo)]; rewrite Od; cbn [bind].
        * destruct (IH (S d) (o / 2) off HT') as (res & k & Hw & Hs & Hin). fold R in Hw.
          exists res, (S k). rewrite div_p2_S in Hw, Hs. replace (S d + k)%nat with (d + S k)%nat in Hw, Hs by lia.
          split; [exact Hw|]. split.
          { rewrite Hs. f_equal. rewrite p2_S. subst o. replace (2 * q / 2) with q by lia. lia. }
          intros j Hj. destruct j as [|j].
          -- left. rewrite Nat.add_1_r, p2_S, p2_0, N.mul_1_r. reflexivity.
          -- right. specialize (Hin j ltac:(lia)).
             replace (S d + S j)%nat with (d + S (S j))%nat in Hin by lia.
             rewrite div_p2_S in Hin. exact Hin.
        * unfold sub64. rewrite Rl.
          destruct (N.leb_spec (n_length (R d o)) (n_length (R d o) + n_length (R d (sib o)))) as [_|Lt]; [|lia].
          cbn [bind].
          destruct (IH (S d) (o / 2) (off + (n_length (R d o) + n_length (R d (sib o)) - n_length (R d o))) HT')
            as (res & k & Hw & Hs & Hin). fold R in Hw.
          exists (n_length (R d (sib o)) + res), (S k).
          rewrite div_p2_S in Hw, Hs. replace (S d + k)%nat with (d + S k)%nat in Hw, Hs by lia.
          split; [rewrite Hw; f_equal; f_equal; lia|]. split.
          { unfold sib. rewrite Ev. subst o. replace (2 * q + 1 - 1) with (2 * q) by lia.
            replace ((2 * q + 1) / 2) with q in Hs by lia.
            unfold R. rewrite ref_node_length.
            pose proof (ref_size_prefix bs d (2 * q)) as Q. fold (p2 d) in Q.
            rewrite (p2_S d) in Hs. replace (q * (2 * p2 d)) with (2 * q * p2 d) in Hs by lia. lia. }
          intros j Hj. destruct j as [|j].
          -- left. rewrite Nat.add_1_r, p2_S, p2_0, N.mul_1_r. reflexivity.
          -- right. specialize (Hin j ltac:(lia)).
             replace (S d + S j)%nat with (d + S (S j))%nat in Hin by lia.
             rewrite div_p2_S in Hin. exact Hin.
      + fold (it_at (N.of_nat (S d)) (o / 2)).
        destruct (IH d o off HT') as (res & k & Hw & Hs & Hin).
        exists res, k. split; [exact Hw|]. split; [exact Hs|].
        intros j Hj. right. apply Hin, Hj.
  Qed.

  Lemma climb_index : forall fuel q d o cur acc root visited,
    climb cr fuel q (it_at (N.of_nat d) o) cur acc = Ok (root, visited) ->
    n_index cur = ft_index (N.of_nat d) o -> length (n_hash cur) = 32%nat ->
    n_index root = ft_index (N.of_nat (d + length (q_list q))) (o / p2 (length (q_list q))) /\
    length (n_hash root) = 32%nat.
  Proof.
    induction fuel as [|f IH]; intros q d o cur acc root visited H Hi H32; [discriminate H|].
    destruct (q_length q =? 0) eqn:E.
    - rewrite climb_S, E in H. injection H as <- <-. apply N.eqb_eq in E. rewrite q_length_list in E.
      assert (E' : length (q_list q) = O) by lia. rewrite E'.
      rewrite Nat.add_0_r, p2_0, N.div_1_r. split; assumption.
    - destruct (climb_step cr bs f q d o cur acc root visited H E) as (n & q' & l & Hn & HL & Hadd & H').
      destruct (IH _ _ _ _ _ _ _ H' eq_refl (Hhash32 _)) as [I1 I2].
      rewrite HL. rewrite div_p2_S in I1. replace (S d + length (q_list q'))%nat with (d + S (length (q_list q')))%nat in I1 by lia.
      split; assumption.
  Qed.
End Walk.

(* ====================================================================================== *)
(* B2. Where a block that comes with an upgrade is written                                   *)
(* ====================================================================================== *)

Section BlockUpgradeOffset.
  Variable cr : crypto.
  Hypothesis Hhash32 : forall x, length (cr_hash cr x) = 32%nat.
  Hypothesis Hnonblank : forall x, all_zero (cr_hash cr x) = false.
  Variable bs : list bytes.
  Hypothesis Hfit : sumN (map len bs) <= u64_max.

  Let R := ref_node cr bs.

  (* the top of the walk: a root of the new tree, or a node of the old tree whose offset the old tree
     could compute *)
  Definition walk_top (t : mtree) (tf : file) (r m i : N) (kk : nat) : Prop :=
    is_root m kk (i / p2 kk) \/
    (i / p2 kk * p2 kk < r /\ left_avail cr bs t tf (i / p2 kk * p2 kk) r).

  Lemma bu_offset_inv t tf r m i k new c4 off :
    unfl_sound cr bs t r -> file_sound cr bs tf r ->
    t_roots t = ref_roots cr bs r -> t_length t = r -> t_byte_length t = prefix_size bs r ->
    r <= 2 ^ 63 -> 2 * i <= u64_max ->
    cs_nodes c4 = (R 0 i :: ref_path cr bs k 0 i) ++ rev new -> Forall (Tn cr bs) new ->
    cs_roots c4 = ref_roots cr bs m ->
    byte_offset_in_changeset t tf i c4 = Ok off ->
    off = prefix_size bs i /\
    (i = r \/
     exists kk, (forall j, (j < kk)%nat -> In (R (S j) (i / p2 (S j))) (ref_path cr bs k 0 i ++ rev new)) /\
                walk_top t tf r m i kk).
  Proof.
    intros Hu Hf HR HL HB Hr63 Hi2 Hnodes Hnew Hroots H.
    unfold byte_offset_in_changeset in H. rewrite HL in H.
    destruct (N.eqb_spec r i) as [E|E].
    { injection H as <-. rewrite HB, E. split; [reflexivity|left; reflexivity]. }
    unfold mul64 in H. assert (fits_u64 (2 * i) = true) as Ef by (unfold fits_u64; lia).
    rewrite Ef in H. cbn [bind] in H.
    rewrite Hnodes in H. cbn [app cs_path_walk] in H.
    rewrite it_new_leaf2 in H. fold R in H. unfold R at 1 in H. rewrite ref_node_index in H.
    cbn [it_at it_index] in H. rewrite N.eqb_refl in H. cbn [bind] in H.
    fold (it_at (N.of_nat 0) i) in H. rewrite it_parent_at in H.
    replace (N.of_nat 0 + 1) with (N.of_nat 1) in H by lia.
    change (it_is_right (it_at (N.of_nat 0) i)) with (N.odd i) in H.
    assert (HT : Forall (Tn cr bs) (ref_path cr bs k 0 i ++ rev new)).
    { apply Forall_app. split; [|apply Forall_rev, Hnew].
      pose proof (ref_path_authentic cr bs Hfit (span_end (0 + k) (i / p2 k)) k 0 i ltac:(lia)) as A.
      eapply Forall_impl; [|exact A]. intros x [Hx _]. exact Hx. }
    destruct (walk_auth cr bs Hfit _ 0 i 0 HT) as (res & kk & Hwalk & Hres & Hin).
    fold R in Hwalk. rewrite Hwalk in H. cbn [bind] in H.
    cbn [Nat.add] in H, Hres, Hin. rewrite p2_0, N.mul_1_r in Hres. set (O := i / p2 kk) in *.
    rewrite Hroots in H. unfold R in H at 1. rewrite ref_node_index in H.
    assert (Hanc : forall j, (j < kk)%nat -> In (R (S j) (i / p2 (S j))) (ref_path cr bs k 0 i ++ rev new)).
    { intros j Hj. apply (Hin j Hj). }
    destruct (position_of (ft_index (N.of_nat kk) O) (ref_roots cr bs m) 0) as [p|] eqn:Pos.
    - destruct (position_of_roots cr bs Hfit _ _ _ Pos) as (D & P & Eidx & Hroot & Hsum).
      apply ft_index_inj in Eidx. destruct Eidx as [Ed Eo].
      assert (D = kk) by lia. subst D P.
      injection H as <-. rewrite Hsum. split; [lia|]. right. exists kk. split; [exact Hanc|]. left. exact Hroot.
    - unfold R in H. rewrite ref_node_index in H.
      apply bind_ok in H. destruct H as (off0 & Hoff & H). injection H as <-.
      rewrite (byte_offset_node_leaf cr bs Hfit) in Hoff.
      destruct (offset_leaf_inv cr bs t tf r _ _ HR Hr63 Hu Hf Hoff) as (Hlt & Hav & ->).
      split; [lia|]. right. exists kk. split; [exact Hanc|]. right. split; assumption.
  Qed.
End BlockUpgradeOffset.

(* ====================================================================================== *)
(* B3. The left siblings of a block that comes with an upgrade                               *)
(* ====================================================================================== *)

Section BlockUpgradeAvail.
  Variable cr : crypto.
  Variable bs : list bytes.
  Hypothesis Hfit : sumN (map len bs) <= u64_max.

  Let R := ref_node cr bs.

  Lemma R_inj d o d' o' : R d o = R d' o' -> d = d' /\ o = o'.
  Proof.
    intros H. apply (f_equal n_index) in H. unfold R in H. rewrite !ref_node_index in H.
    apply ft_index_inj in H. destruct H as [H1 H2]. split; [lia|exact H2].
  Qed.

  Lemma ref_path_in_inv x : forall k d o, In x (ref_path cr bs k d o) ->
    exists j, (j < k)%nat /\ (x = R (d + j) (sib (o / p2 j)) \/ x = R (d + S j) (o / p2 (S j))).
  Proof.
    induction k as [|k IH]; intros d o H; [destruct H|]. cbn [ref_path] in H.
    destruct H as [<-|[<-|H]].
    - exists 0%nat. split; [lia|]. left. rewrite Nat.add_0_r, p2_0, N.div_1_r. reflexivity.
    - exists 0%nat. split; [lia|]. right. rewrite Nat.add_1_r, p2_S, p2_0, N.mul_1_r. reflexivity.
    - destruct (IH (S d) (o / 2) H) as (j & Hj & Hx). exists (S j). split; [lia|].
      rewrite !div_p2_S in Hx. replace (S d + j)%nat with (d + S j)%nat in Hx by lia.
      replace (S d + S j)%nat with (d + S (S j))%nat in Hx by lia. exact Hx.
  Qed.

  Lemma sib_odd o : sib (2 * o + 1) = 2 * o.
  Proof. unfold sib. assert (N.even (2 * o + 1) = false) as -> by (rewrite even_mod; lia). lia. Qed.

  Lemma sib_even o : sib (2 * o) = 2 * o + 1.
  Proof. unfold sib. assert (N.even (2 * o) = true) as -> by (rewrite even_mod; lia). lia. Qed.


  (* a level whose parent the walk has passed: the parent is among the proof's nodes, hence its left
     child is too *)
  Lemma bu_level_below (look : N -> res node) r i k new dunodes dd oo :
    (forall dd oo, is_root r dd oo -> look (ft_index (N.of_nat dd) oo) = Ok (R dd oo)) ->
    (forall x, In x (ref_path cr bs k 0 i) -> look (n_index x) = Ok x) ->
    (forall x, In x new -> look (n_index x) = Ok x /\ Tn cr bs x) ->
    Forall (fun P => In P dunodes \/ P = R k (i / p2 k) \/
                     exists x s, family x s P /\ In x (ref_roots cr bs r ++ new) /\
                                 In s (ref_roots cr bs r ++ new)) new ->
    (forall x j, In x dunodes -> n_index x <> ft_index (N.of_nat j) (i / p2 j)) ->
    (2 * oo + 1) * p2 dd <= i -> i < (2 * oo + 2) * p2 dd ->
    In (R (S dd) (i / p2 (S dd))) (ref_path cr bs k 0 i ++ rev new) ->
    look (ft_index (N.of_nat dd) (2 * oo)) = Ok (R dd (2 * oo)).
  Proof.
    intros Hold Hvis Hnew Hmade Hnu C1 C2 Hin.
    assert (Ediv : i / p2 dd = 2 * oo + 1) by (apply div_p2_unique; assumption).
    assert (Ediv2 : i / p2 (S dd) = oo).
    { replace (S dd) with (dd + 1)%nat by lia. rewrite <- div_p2_add, Ediv.
      assert (E1 : p2 1 = 2) by reflexivity. rewrite E1. lia. }
    rewrite Ediv2 in Hin.
    assert (Hsibvis : (dd < k)%nat -> look (ft_index (N.of_nat dd) (2 * oo)) = Ok (R dd (2 * oo))).
    { intros Lk. pose proof (ref_path_sib_in cr bs Hfit k 0 i dd Lk) as Hs. cbn [Nat.add] in Hs.
      rewrite Ediv, sib_odd in Hs. pose proof (Hvis _ Hs) as Hl. unfold R in Hl.
      rewrite ref_node_index in Hl. exact Hl. }
    apply in_app_or in Hin. destruct Hin as [Hin|Hin].
    - apply ref_path_in_inv in Hin. destruct Hin as (j & Hj & [E|E]); cbn [Nat.add] in E.
      + apply R_inj in E. destruct E as [<- E]. rewrite Ediv2 in E. exfalso. apply (sib_neq oo). now symmetry.
      + apply R_inj in E. destruct E as [E _]. apply Hsibvis. lia.
    - apply in_rev in Hin. rewrite Forall_forall in Hmade.
      destruct (Hmade _ Hin) as [Hd|[Er0|(x & s & (d' & o' & I1 & I2 & I3) & Px & Ps)]].
      + exfalso. apply (Hnu _ (S dd) Hd). unfold R. rewrite ref_node_index, Ediv2. reflexivity.
      + apply R_inj in Er0. destruct Er0 as [Er0 _]. apply Hsibvis. lia.
      + unfold R in I3. rewrite ref_node_index in I3. apply ft_index_inj in I3. destruct I3 as [Id Io].
        assert (d' = dd) by lia. subst d'.
        (* the child at offset 2 oo is x or s *)
        assert (Hchild : exists y, In y (ref_roots cr bs r ++ new) /\ n_index y = ft_index (N.of_nat dd) (2 * oo)).
        { destruct (parity o') as [(_ & _ & q & ->)|(_ & _ & q & ->)].
          - replace (2 * q / 2) with q in Io by lia. subst q. exists x. split; assumption.
          - replace ((2 * q + 1) / 2) with q in Io by lia. subst q. rewrite sib_odd in I2. exists s. split; assumption. }
        destruct Hchild as (y & Py & Iy). apply in_app_or in Py. destruct Py as [Py|Py].
        * destruct (root_is_ref cr bs _ _ Py) as (D & P & -> & Hroot).
          rewrite ref_node_index in Iy. apply ft_index_inj in Iy. destruct Iy as [Id2 ->].
          assert (D = dd) by lia. subst D. apply Hold, Hroot.
        * destruct (Hnew y Py) as [Hl Ht]. rewrite <- Iy, Hl. f_equal.
          unfold Tn in Ht. rewrite Ht, Iy. apply ref_at_index.
  Qed.

  Lemma bu_left_avail (look : N -> res node) t tf r m i k new dunodes :
    let O := i / p2 k in
    (forall dd oo, is_root r dd oo -> look (ft_index (N.of_nat dd) oo) = Ok (R dd oo)) ->
    (forall x, In x (ref_path cr bs k 0 i) -> look (n_index x) = Ok x) ->
    (forall x, In x new -> look (n_index x) = Ok x /\ Tn cr bs x) ->
    Forall (fun P => In P dunodes \/ P = R k O \/
                     exists x s, family x s P /\ In x (ref_roots cr bs r ++ new) /\
                                 In s (ref_roots cr bs r ++ new)) new ->
    (forall x j, In x dunodes -> n_index x <> ft_index (N.of_nat j) (i / p2 j)) ->
    (forall i0 dd oo, left_avail cr bs t tf i0 r ->
       (2 * oo + 1) * p2 dd <= i0 -> i0 < (2 * oo + 2) * p2 dd -> (2 * oo + 2) * p2 dd <= r ->
       look (ft_index (N.of_nat dd) (2 * oo)) = Ok (R dd (2 * oo))) ->
    (i = r \/
     exists kk, (forall j, (j < kk)%nat -> In (R (S j) (i / p2 (S j))) (ref_path cr bs k 0 i ++ rev new)) /\
                walk_top cr bs t tf r m i kk) ->
    forall dd oo, (2 * oo + 1) * p2 dd <= i -> i < (2 * oo + 2) * p2 dd -> (2 * oo + 2) * p2 dd <= m ->
      look (ft_index (N.of_nat dd) (2 * oo)) = Ok (R dd (2 * oo)).
  Proof.
    intros O Hold Hvis Hnew Hmade Hnu Hmono Hcase dd oo C1 C2 C3.
    pose proof (p2_pos dd) as Hpd.
    destruct (N.le_gt_cases ((2 * oo + 1) * p2 dd) r) as [T1|T1];
      [destruct (N.lt_ge_cases r ((2 * oo + 2) * p2 dd)) as [T2|T2]|].
    { apply Hold. apply left_half_is_root; assumption. }
    - (* the parent lies inside the old tree *)
      destruct Hcase as [->|(kk & Hanc & Htop)]; [lia|].
      destruct (Nat.lt_ge_cases dd kk) as [Lk|Lk].
      + apply (bu_level_below look r i k new dunodes dd oo); try assumption. apply Hanc, Lk.
      + destruct Htop as [Hroot|[Hlt Hav]].
        * exfalso. destruct (div_p2_bounds i kk) as [B1 B2].
          assert (S dd <= kk)%nat; [|lia].
          apply (node_under_root m kk (i / p2 kk) (S dd) oo i Hroot); rewrite ?p2_S; lia.
        * apply (Hmono _ dd oo Hav); [|lia|exact T2].
          destruct (div_p2_bounds i kk) as [B1 B2].
          replace dd with (kk + (dd - kk))%nat in * by lia. set (e := (dd - kk)%nat) in *. clearbody e.
          rewrite p2_add in *. pose proof (p2_pos kk) as Hpk. pose proof (p2_pos e) as Hpe.
          assert ((2 * oo + 1) * p2 e < i / p2 kk + 1) by nia. nia.
    - (* the left half reaches beyond the old tree *)
      destruct Hcase as [->|(kk & Hanc & Htop)]; [lia|].
      destruct (Nat.lt_ge_cases dd kk) as [Lk|Lk].
      + apply (bu_level_below look r i k new dunodes dd oo); try assumption. apply Hanc, Lk.
      + destruct Htop as [Hroot|[Hlt Hav]].
        * exfalso. destruct (div_p2_bounds i kk) as [B1 B2].
          assert (S dd <= kk)%nat; [|lia].
          apply (node_under_root m kk (i / p2 kk) (S dd) oo i Hroot); rewrite ?p2_S; lia.
        * exfalso. destruct (div_p2_bounds i kk) as [B1 B2].
          replace dd with (kk + (dd - kk))%nat in * by lia. set (e := (dd - kk)%nat) in *. clearbody e.
          rewrite p2_add in *. pose proof (p2_pos kk) as Hpk. pose proof (p2_pos e) as Hpe.
          assert ((2 * oo + 1) * p2 e < i / p2 kk + 1) by nia. nia.
  Qed.
End BlockUpgradeAvail.

(* ====================================================================================== *)
(* B4. MAIN for a block section together with an upgrade section                             *)
(* ====================================================================================== *)

(* the upgrade section carries no node above the block (such a node would be redundant: the
   verifier computes these nodes from the block) *)
Definition block_not_under (b : data_block) (u : data_upgrade) : Prop :=
  forall x j, In x (du_nodes u) -> n_index x <> ft_index (N.of_nat j) (db_index b / p2 j).

(* the flat index of the node the block section climbs to is a u64 *)
Definition block_root_fits (b : data_block) : Prop :=
  ft_index (N.of_nat (length (db_nodes b))) (db_index b / p2 (length (db_nodes b))) <= u64_max.

Section BlockUpgradeMain.
  Variable cr : crypto.
  Hypothesis Hhash32 : forall x, length (cr_hash cr x) = 32%nat.
  Hypothesis Hnonblank : forall x, all_zero (cr_hash cr x) = false.
  Variable bs : list bytes.
  Hypothesis Hw : writer_fits bs.

  (* a block whose leaf and left siblings are stored becomes held once its bytes are written *)
  Lemma RInv_hold_block c d c2 d2 i :
    RInv cr bs c d ->
    let t := c_tree c in let r := t_length t in
    i < r -> required_node t (d_tree d) (2 * i) = Ok (ref_node cr bs 0 i) ->
    left_avail cr bs t (d_tree d) i r ->
    c_tree c2 = t ->
    (forall i', bf_get (c_bitfield c2) i' = bf_get (bf_apply (c_bitfield c) (mkBfUpdate false i 1)) i') ->
    d_tree d2 = d_tree d ->
    d_data d2 = f_write (d_data d) (prefix_size bs i) (blk bs i) ->
    RInv cr bs c2 d2.
  Proof.
    intros (H1 & H2 & H3 & H4 & H5 & H6 & H7 & H8) t r Hir Hleaf Hav Ht Hb Hdt Hdd.
    unfold RInv. cbv zeta. rewrite Ht, Hdt, Hdd. fold t r.
    repeat (split; [assumption|]).
    intros i' Hi'. rewrite Hb, bf_get_apply in Hi'. cbn [bu_start bu_length bu_drop negb] in Hi'.
    destruct (N.eq_dec i' i) as [->|Hne].
    - split; [exact Hir|]. split; [exact Hleaf|]. split; [exact Hav|]. intros _. apply f_read_write_same.
    - assert (Hold : bf_get (c_bitfield c) i' = true).
      { destruct ((i <=? i') && (i' <? i + 1)) eqn:E; [lia|exact Hi']. }
      destruct (H8 i' Hold) as (A1 & A2 & A3 & A4). fold t r in A1, A2, A3.
      split; [exact A1|]. split; [exact A2|]. split; [exact A3|].
      intros Hlen. specialize (A4 Hlen). pose proof A4 as A4'. apply f_read_spec in A4'.
      destruct A4' as (Bd & _ & _).
      rewrite f_read_write_other; [exact A4|exact Bd|].
      destruct (N.lt_ge_cases i' i) as [L|L].
      + left. rewrite <- prefix_size_succ. apply prefix_size_le_mono. lia.
      + right. rewrite <- prefix_size_succ. apply prefix_size_le_mono. lia.
  Qed.

  Let R := ref_node cr bs.

  Lemma verify_block_upgrade_inv t tf r fork b u pk cs :
    unfl_sound cr bs t r -> file_sound cr bs tf r ->
    t_roots t = ref_roots cr bs r -> t_length t = r -> t_byte_length t = prefix_size bs r ->
    r <= N.of_nat (length bs) ->
    du_additional u = [] -> nodes_ok (du_nodes u) = true -> no_sibling_pair (du_nodes u) ->
    block_root_fits b ->
    verify_proof cr t tf (mkProof fork (Some b) None None (Some u)) pk = Ok cs ->
    (exists m new k,
       let i := db_index b in let O := i / p2 k in
       r <= m /\ m <= N.of_nat (length bs) /\ db_value b = blk bs i /\ 2 * i <= u64_max /\
       span_end k O <= m /\
       cs_roots cs = ref_roots cr bs m /\ cs_length cs = m /\ cs_byte_length cs = prefix_size bs m /\
       cs_fork cs = fork /\
       cs_nodes cs = (R 0 i :: ref_path cr bs k 0 i) ++ rev new /\
       Forall (authentic cr bs m) new /\
       Forall (fun x => In x (ref_roots cr bs r ++ new)) (ref_roots cr bs m) /\
       Forall (fun P => In P (du_nodes u) \/ P = R k O \/
                        exists x s, family x s P /\ In x (ref_roots cr bs r ++ new) /\
                                    In s (ref_roots cr bs r ++ new)) new /\
       cs_ancestors cs = r /\ cs_orig_length cs = r /\ cs_orig_fork cs = t_fork t /\
       (cs_upgraded cs = false -> m = r /\ new = [])) \/
    some_collision cr \/ forged_signature cr bs pk.
  Proof.
    intros Hu Hf HR HL HB Hr Hadd Hok Hns Hfits H. destruct Hw as [Hw1 Hw2].
    unfold verify_proof in H. cbn [p_block p_hash p_seek p_upgrade p_fork] in H.
    apply bind_ok in H. destruct H as ([root c1] & Hvt & H).
    apply verify_tree_block_inv in Hvt. destruct Hvt as (r0 & visited & -> & Hfit2 & Hc & ->).
    apply bind_ok in H. destruct H as ([root2 cx] & Hvu & H).
    apply bind_ok in Hvu. destruct Hvu as ([consumed c4] & Hvu & E). injection E as <- <-.
    rewrite it_new_leaf2 in Hc.
    set (i := db_index b) in *. set (cur := block_node cr (2 * i) (db_value b)) in *.
    assert (Hci : n_index cur = ft_index (N.of_nat 0) i).
    { change (N.of_nat 0) with 0. rewrite ft_index_leaf. reflexivity. }
    assert (Hc32 : length (n_hash cur) = 32%nat) by apply Hhash32.
    assert (QL : q_list (mkQ (db_nodes b) None) = db_nodes b)
      by (unfold q_list; cbn [q_nodes q_extra]; apply app_nil_r).
    destruct (climb_index cr Hhash32 bs Hw1 _ _ _ _ _ _ _ _ Hc Hci Hc32) as [Hri Hr32].
    rewrite QL in Hri. cbn [Nat.add] in Hri. set (k := length (db_nodes b)) in *.
    (* once the root of the climb carries the writer's hash, everything below it is the writer's *)
    assert (Hdown : n_hash r0 = n_hash (ref_at cr bs (n_index r0)) ->
                    (db_value b = blk bs i /\ visited = R 0 i :: ref_path cr bs k 0 i /\ r0 = R k (i / p2 k)) \/
                    some_collision cr).
    { intros A.
      destruct (climb_full cr Hhash32 bs Hw1 _ _ _ _ _ _ _ _ Hc Hci Hc32 A) as (_ & ext & -> & Hcase).
      destruct Hcase as [(Hch & Himp)|C]; [|right; exact C]. rewrite QL in Himp. fold k in Himp.
      change (n_hash cur) with (leaf_hash cr (db_value b)) in Hch.
      change (n_hash (ref_node cr bs 0 i)) with (leaf_hash cr (blk bs i)) in Hch.
      apply leaf_hash_binds in Hch. destruct Hch as [Ev|C]; [left|right; exact C].
      destruct Himp as [Hext Hroot]; [unfold cur; cbn [block_node n_length]; rewrite Ev; reflexivity|].
      cbn [Nat.add] in Hroot. split; [exact Ev|]. split; [|exact Hroot].
      cbn [app]. rewrite Hext. f_equal. unfold cur. rewrite Ev. reflexivity. }
    assert (Hex : extra_ok cr bs (Some r0)).
    { cbn. split; [exact Hr32|]. split.
      - rewrite Hri. apply u64_lt. exact Hfits.
      - intros A. destruct (Hdown A) as [(_ & _ & E)|C]; [left|right; exact C].
        unfold Tn. rewrite E at 1. rewrite Hri. symmetry. apply ref_at_index. }
    destruct (verify_upgrade_sound cr Hhash32 bs (conj Hw1 Hw2)
                (cs_push_nodes (tree_changeset t) visited) r fork u (Some r0) pk consumed c4
                Hr HR HL HB Hadd Hok Hns Hex Hvu)
      as [(m & new & Hrm & Hmn & Er & El & Eb & Efk & En & Hauth & Hroots & _ & Hmade & Ea & Eol & Eof & Hup & _ & Hcons)|[C|F]];
      [|right; left; exact C|right; right; exact F].
    (* the root of the climb is authentic: it was consumed by the upgrade, or compared with the store *)
    assert (HA : (n_hash r0 = n_hash (ref_at cr bs (n_index r0)) /\ in_len m (n_index r0)) \/ some_collision cr).
    { destruct consumed.
      - pose proof (Hcons r0 eq_refl eq_refl) as Hin. rewrite Forall_forall in Hauth.
        destruct (Hauth r0 Hin) as [Ht Hi]. left. split; [rewrite <- Ht; reflexivity|exact Hi].
      - apply bind_ok in H. destruct H as (nn & Hreq & H).
        destruct (bytes_eqb (n_hash nn) (n_hash r0)) eqn:Eq; [|discriminate H].
        apply bytes_eqb_eq in Eq.
        destruct (required_node_sound cr bs t tf r _ _ Hu Hf Hreq) as [Enn Hin].
        left. split; [rewrite <- Eq, Enn; reflexivity|]. apply (in_len_mono r m _ Hrm Hin). }
    destruct HA as [[HA Hin]|C]; [|right; left; exact C].
    destruct (Hdown HA) as [(Ev & Evis & Er0)|C]; [left|right; left; exact C].
    assert (Ecs : cs = c4).
    { destruct consumed.
      - now injection H as <-.
      - apply bind_ok in H. destruct H as (nn & _ & H).
        destruct (bytes_eqb (n_hash nn) (n_hash r0)); [|discriminate H]. now injection H as <-. }
    subst cs.
    exists m, new, k. cbv zeta. fold i.
    split; [exact Hrm|]. split; [exact Hmn|]. split; [exact Ev|].
    split; [unfold fits_u64 in Hfit2; lia|].
    split; [rewrite Hri in Hin; apply in_len_index in Hin; exact Hin|].
    split; [exact Er|]. split; [exact El|]. split; [exact Eb|]. split; [exact Efk|].
    split.
    { unfold cs_nodes. rewrite En. cbn [cs_push_nodes cs_rnodes tree_changeset].
      rewrite !rev_append_rev, !app_nil_r, rev_app_distr, rev_involutive, Evis. reflexivity. }
    split; [exact Hauth|]. split; [exact Hroots|].
    split.
    { eapply Forall_impl; [|exact Hmade]. intros P [HP|[HP|HP]]; [left; exact HP| |right; right; exact HP].
      right. left. injection HP as ->. exact Er0. }
    cbn [cs_push_nodes tree_changeset cs_ancestors cs_orig_length cs_orig_fork] in Ea, Eol, Eof.
    split; [rewrite Ea; exact HL|]. split; [rewrite Eol; exact HL|]. split; [exact Eof|exact Hup].
  Qed.

  Theorem apply_keeps_replica_consistent_block_and_upgrade f fork b u c d j ev c' w' :
    RInv cr bs c d ->
    du_additional u = [] -> nodes_ok (du_nodes u) = true -> no_sibling_pair (du_nodes u) ->
    block_not_under b u -> block_root_fits b ->
    core_apply_proof cr f (mkProof fork (Some b) None None (Some u)) c (mkWorld d j ev) = (c', w', Ok true) ->
    RInv cr bs c' (w_disk w') \/ some_collision cr \/ forged_signature cr bs (kp_public (c_keypair c)).
  Proof.
    intros W Hadd Hok Hns Hnu Hfits H. pose proof W as (H1 & H2 & H3 & H4 & H5 & H6 & H7 & H8).
    destruct Hw as [Hw1 Hw2].
    destruct (accepted_gates cr _ _ _ _ _ _ H) as (cs & Ef & V & Cm & Ht). clear H.
    apply apply_tail_inv in Ht. destruct Ht as (_ & bu & c1 & w1 & c2 & w2 & w3 & Hbu & Hlc & Hmf & Hd3).
    cbn [p_block w_disk] in Hbu, V. unfold verifier_says in V. cbn [w_disk p_fork] in V, Ef.
    set (t := c_tree c) in *. set (r := t_length t) in *.
    assert (Hr63 : r <= 2 ^ 63) by (apply u64_63; unfold NODE_SIZE in *; lia).
    destruct (verify_block_upgrade_inv t (d_tree d) r fork b u _ cs H5 H6 H3 eq_refl H4 H1 Hadd Hok Hns Hfits V)
      as [(m & new & k & Hvb)|[C|F]]; [|right; left; exact C|right; right; exact F].
    cbv zeta in Hvb.
    destruct Hvb as (Hrm & Hmn & Ev & Hi2 & Hspan & Er & El & Eb & Efk & Enodes & Hauth & Hroots & Hmade &
                     Ea & Eol & Eof & Hup).
    set (i := db_index b) in *. fold R in Enodes, Hmade.
    (* the data write *)
    rewrite mbind_lift in Hbu.
    destruct (byte_offset_in_changeset t (d_tree d) i cs) as [off| | |] eqn:Hoff; try discriminate Hbu.
    rewrite mbind_emit_SW in Hbu. unfold ret in Hbu. inversion Hbu; subst c1 w1 bu. clear Hbu.
    assert (HnewT : Forall (Tn cr bs) new).
    { eapply Forall_impl; [|exact Hauth]. intros x [Hx _]. exact Hx. }
    destruct (bu_offset_inv cr bs Hw1 t (d_tree d) r m i k new cs off H5 H6 H3 eq_refl H4 Hr63 Hi2 Enodes HnewT Er Hoff)
      as (-> & Hcase).
    (* the commit *)
    apply log_and_commit_inv in Hlc.
    destruct Hlc as (t' & Htc & Et' & _ & Ebf & Edt & Edd). cbn [w_disk d_set d_get d_tree d_data] in Edt, Edd.
    fold t in Htc. unfold tree_commit in Htc. rewrite Cm in Htc. cbn [negb] in Htc.
    assert (Ht'f : t_roots t' = ref_roots cr bs m /\ t_length t' = m /\ t_byte_length t' = prefix_size bs m /\
                   t_fork t' = 0 /\ t_unflushed t' = add_nodes (t_unflushed t) (cs_nodes cs)).
    { destruct (cs_upgraded cs) eqn:Up.
      - rewrite Ea, Eol in Htc. rewrite N.ltb_irrefl in Htc. injection Htc as <-.
        cbn [t_roots t_length t_byte_length t_fork t_unflushed]. rewrite Efk, Ef. auto.
      - injection Htc as <-. cbn [t_roots t_length t_byte_length t_fork t_unflushed].
        destruct (Hup eq_refl) as [-> _]. auto. }
    destruct Ht'f as (Tr & Tl & Tb & Tf & Tu).
    (* all the nodes of the changeset are the writer's, inside the tree over m blocks *)
    destruct (div_p2_bounds i k) as [B1 B2]. unfold span_end in Hspan.
    assert (Him : i < m) by lia.
    assert (Hl_auth : forall x, In x (cs_nodes cs) -> authentic cr bs m x).
    { intros x Hx. rewrite Enodes in Hx. apply in_app_or in Hx. destruct Hx as [[<-|Hx]|Hx].
      - unfold authentic, R. rewrite ref_node_index. split; [symmetry; apply ref_at_index|].
        apply in_len_index. pose proof (span_end_up k 0 i) as U. unfold span_end in U. cbn [Nat.add] in U. lia.
      - pose proof (ref_path_authentic cr bs Hw1 m k 0 i) as A. cbn [Nat.add] in A.
        specialize (A Hspan). rewrite Forall_forall in A. apply A, Hx.
      - rewrite Forall_forall in Hauth. apply Hauth. apply in_rev. exact Hx. }
    (* first the tree moves to the new roots ... *)
    set (cm := mkCore (c_keypair c) (c_oplog c) t' (c_bitfield c) (c_header c) (c_skip c)).
    assert (Wm : RInv cr bs cm d).
    { apply (RInv_upgrade_step cr Hnonblank bs c d cm d m (cs_nodes cs) W);
        fold t r; cbn [cm c_tree c_bitfield]; try assumption; try reflexivity.
      eapply Forall_impl; [|exact Hroots]. intros x Hx. apply in_app_or in Hx.
      destruct Hx as [Hx|Hx]; [left; exact Hx|right]. rewrite Enodes. apply in_or_app. right. apply -> in_rev. exact Hx. }
    (* ... then the block becomes held *)
    assert (Hlook : forall jx, (required_node t (d_tree d) jx = Ok (ref_at cr bs jx) \/
                                exists x, In x (cs_nodes cs) /\ n_index x = jx) ->
                               required_node t' (d_tree d) jx = Ok (ref_at cr bs jx)).
    { intros jx. apply (add_nodes_lookup cr Hnonblank bs t t' (d_tree d) m (cs_nodes cs) jx Hl_auth Tu). }
    assert (Hfound : forall x, In x (cs_nodes cs) -> required_node t' (d_tree d) (n_index x) = Ok x).
    { intros x Hx. destruct (Hl_auth x Hx) as [Tx _]. rewrite Tx at 2. apply Hlook. right. exists x. auto. }
    assert (W2 : RInv cr bs c2 (w_disk w2)).
    { apply (RInv_hold_block cm d c2 (w_disk w2) i Wm); cbn [cm c_tree c_bitfield].
      - rewrite Tl. exact Him.
      - replace (2 * i) with (n_index (R 0 i)) by (unfold R; rewrite ref_node_index; change (N.of_nat 0) with 0; apply ft_index_leaf).
        apply Hfound. rewrite Enodes. left. reflexivity.
      - rewrite Tl. intros dd0 oo0 C01 C02 C03.
        refine (bu_left_avail cr bs Hw1 (fun jx => required_node t' (d_tree d) jx) t (d_tree d) r m i k new (du_nodes u)
                  _ _ _ _ _ _ _ dd0 oo0 C01 C02 C03).
        + intros dd oo Hroot. rewrite <- (T_at cr bs dd oo). apply Hlook. left. rewrite (T_at cr bs dd oo).
          assert (Hin : In (ref_node cr bs dd oo) (t_roots t)).
          { rewrite H3, ref_roots_rrl. apply in_map_iff. exists (dd, oo). split; [reflexivity|].
            apply -> in_rev. apply rrl0_in. exact Hroot. }
          pose proof (H7 _ Hin) as Hr'. rewrite ref_node_index in Hr'. exact Hr'.
        + intros x Hx. apply Hfound. rewrite Enodes. apply in_or_app. left. right. exact Hx.
        + intros x Hx. split.
          * apply Hfound. rewrite Enodes. apply in_or_app. right. apply -> in_rev. exact Hx.
          * rewrite Forall_forall in HnewT. apply HnewT, Hx.
        + exact Hmade.
        + exact Hnu.
        + intros i0 dd oo Hav C1 C2 C3. rewrite <- (T_at cr bs dd (2 * oo)). apply Hlook. left.
          rewrite (T_at cr bs dd (2 * oo)). apply Hav; assumption.
        + exact Hcase.
      - exact Et'.
      - intros i'. rewrite Ebf. reflexivity.
      - rewrite Edt. destruct d; reflexivity.
      - rewrite Edd, Ev. destruct d; reflexivity. }
    left. rewrite Hd3. destruct w2 as [d2 j2 ev2].
    apply (RInv_flush cr Hhash32 Hnonblank bs (conj Hw1 Hw2) f c2 d2 j2 ev2 c' w3 tt W2 Hmf).
  Qed.
End BlockUpgradeMain.

(* ====================================================================================== *)
(* B5. MAIN: proofs with block and/or upgrade sections                                       *)
(* ====================================================================================== *)

(* the proofs covered: no hash / seek section; an upgrade section has no additional nodes, its nodes
   are well formed (what the wire codec guarantees) and no two of them sit at sibling positions (the
   sizes of such a pair are bound only in sum: see size_carveout_upgrade_additional_refuted); with a
   block section, no upgrade node lies above the block and the top of the block's climb is a u64 *)
Definition block_upgrade_ok (pf : proof) : Prop :=
  p_hash pf = None /\ p_seek pf = None /\
  match p_upgrade pf with
  | Some u =>
      du_additional u = [] /\ nodes_ok (du_nodes u) = true /\ no_sibling_pair (du_nodes u) /\
      match p_block pf with
      | Some b => block_not_under b u /\ block_root_fits b
      | None => True
      end
  | None => True
  end.

Section Main.
  Variable cr : crypto.
  Hypothesis Hhash32 : forall x, length (cr_hash cr x) = 32%nat.
  Hypothesis Hnonblank : forall x, all_zero (cr_hash cr x) = false.
  Variable bs : list bytes.
  Hypothesis Hw : writer_fits bs.

  Theorem apply_keeps_replica_consistent_block_upgrade f pf c d j ev c' w' :
    RInv cr bs c d -> block_upgrade_ok pf ->
    core_apply_proof cr f pf c (mkWorld d j ev) = (c', w', Ok true) ->
    RInv cr bs c' (w_disk w') \/ some_collision cr \/ forged_signature cr bs (kp_public (c_keypair c)).
  Proof.
    intros W (Hh & Hs & Hshape) H. destruct pf as [fork ob oh os ou]. cbn [p_hash p_seek p_block p_upgrade] in *.
    subst oh os. destruct ou as [u|].
    - destruct Hshape as (A1 & A2 & A3 & A4). destruct ob as [b|].
      + destruct A4 as [A4 A5].
        apply (apply_keeps_replica_consistent_block_and_upgrade cr Hhash32 Hnonblank bs Hw
                 f fork b u c d j ev c' w' W A1 A2 A3 A4 A5 H).
      + apply (apply_keeps_replica_consistent_upgrade cr Hhash32 Hnonblank bs Hw f fork u c d j ev c' w' W A1 A2 A3 H).
    - destruct ob as [b|].
      + destruct (apply_keeps_replica_consistent_block cr Hhash32 Hnonblank bs Hw f fork b c d j ev c' w' W H)
          as [R|C]; [left; exact R|right; left; exact C].
      + left. apply (apply_keeps_replica_consistent_empty cr Hhash32 Hnonblank bs Hw f fork c d j ev c' w' W H).
  Qed.

  (* with (4): after any accepted proof of this kind, every read returns nothing or the writer's block *)
  Corollary accepted_proof_reads_writer_blocks f pf c d j ev c' w' :
    RInv cr bs c d -> block_upgrade_ok pf ->
    core_apply_proof cr f pf c (mkWorld d j ev) = (c', w', Ok true) ->
    (forall i j' ev',
       core_get i c' (mkWorld (w_disk w') j' ev') =
       if bf_get (c_bitfield c') i
       then (c', mkWorld (w_disk w') j' ev', Ok (Some (nth (N.to_nat i) bs [])))
       else (c', mkWorld (w_disk w') j' (EvGet i :: ev'), Ok None)) \/
    some_collision cr \/ forged_signature cr bs (kp_public (c_keypair c)).
  Proof.
    intros W Hok H.
    destruct (apply_keeps_replica_consistent_block_upgrade f pf c d j ev c' w' W Hok H) as [R|[C|F]];
      [left|right; left; exact C|right; right; exact F].
    intros i j' ev'. apply (get_replica cr bs Hw c' (w_disk w') j' ev' i R).
  Qed.
End Main.

(* ====================================================================================== *)
(* B6. Non-vacuity: first contact on the toy instance (block 4 together with the upgrade 0..6) *)
(* ====================================================================================== *)

Definition sc_first_contact_proof : option proof :=
  match snd (ex_run sc_W (core_create_proof (Some (mkReqBlock 4 0)) None None (Some (mkReqUpgrade 0 6)))) with
  | Some (Ok (Some pf)) => Some pf
  | _ => None
  end.

Example sc_block_upgrade_theorem_applies :
  match sc_R0, sc_first_contact_proof with
  | Some (c, w), Some pf =>
      exists b u c' w',
        pf = mkProof 0 (Some b) None None (Some u) /\ db_index b = 4 /\ db_value b = [9; 10] /\
        map n_index (db_nodes b) = [10] /\ map n_index (du_nodes u) = [3] /\
        block_upgrade_ok pf /\ RInv sc_cr sc_blocks c (w_disk w) /\
        core_apply_proof sc_cr (Some false) pf c w = (c', w', Ok true) /\
        snd (ex_run (Some (c', w')) (core_get 4)) = Some (Ok (Some [9; 10])) /\
        (RInv sc_cr sc_blocks c' (w_disk w') \/ some_collision sc_cr \/
         forged_signature sc_cr sc_blocks (kp_public (c_keypair c)))
  | _, _ => False
  end.
Proof.
  assert (Hsmall : len (enc_header (header_new (mkKeypair sc_key None))) < 1073741824)
    by (vm_compute; reflexivity).
  destruct (RInv_fresh sc_cr sc_hash32 sc_nonblank sc_blocks _ Hsmall) as (d0 & ops & c & Hopen & HR & _).
  unfold sc_R0, sc_open. rewrite Hopen.
  destruct sc_first_contact_proof as [pf|] eqn:Ep; [|vm_compute in Ep; discriminate Ep].
  destruct (core_apply_proof sc_cr (Some false) pf c (mkWorld d0 [] [])) as [[c' w'] r] eqn:Ea.
  assert (Hshape : exists b u, pf = mkProof 0 (Some b) None None (Some u) /\ db_index b = 4 /\
                     db_value b = [9; 10] /\ map n_index (db_nodes b) = [10] /\
                     map n_index (du_nodes u) = [3] /\ du_additional u = [] /\
                     nodes_ok (du_nodes u) = true /\ length (db_nodes b) = 1%nat /\ r = Ok true /\
                     snd (ex_run (Some (c', w')) (core_get 4)) = Some (Ok (Some [9; 10]))).
  { vm_compute in Hopen. injection Hopen as <- _ <-.
    vm_compute in Ep. injection Ep as <-. vm_compute in Ea. injection Ea as <- <- <-.
    eexists _, _. split; [reflexivity|]. repeat split. }
  destruct Hshape as (b & u & -> & H1 & H2 & H3 & H4 & H5 & H6 & H7 & -> & H8).
  assert (Hok : block_upgrade_ok (mkProof 0 (Some b) None None (Some u))).
  { split; [reflexivity|]. split; [reflexivity|]. cbn [p_upgrade p_block].
    split; [exact H5|]. split; [exact H6|]. unfold no_sibling_pair, block_not_under, block_root_fits.
    destruct (du_nodes u) as [|n3 [|? ?]]; try discriminate H4. injection H4 as E3.
    split; [|split].
    - intros x y [<-|[]] [<-|[]]. rewrite E3. vm_compute. intros E; discriminate E.
    - intros x jj [<-|[]]. rewrite E3, H1.
      destruct jj as [|[|[|jj]]]; try (vm_compute; intros E; discriminate E).
      pose proof (ft_index_succ (N.of_nat (S (S (S jj)))) (4 / p2 (S (S (S jj))))) as S3.
      rewrite p2_N in S3. rewrite !p2_S in *. pose proof (p2_pos jj). intros E. rewrite <- E in S3. nia.
    - rewrite H7, H1. vm_compute. intros E; discriminate E. }
  exists b, u, c', w'. do 8 (split; [first [reflexivity|assumption]|]). split; [exact H8|].
  apply (apply_keeps_replica_consistent_block_upgrade sc_cr sc_hash32 sc_nonblank sc_blocks sc_writer_fits
           (Some false) _ c d0 [] [] c' w' HR Hok Ea).
Qed.

Print Assumptions walk_auth.
Print Assumptions bu_offset_inv.
Print Assumptions bu_left_avail.
Print Assumptions verify_block_upgrade_inv.
Print Assumptions apply_keeps_replica_consistent_block_and_upgrade.
Print Assumptions apply_keeps_replica_consistent_block_upgrade.
Print Assumptions accepted_proof_reads_writer_blocks.
Print Assumptions sc_block_upgrade_theorem_applies.

(* ====================================================================================== *)
(* B7. Every field of an accepted block section is the writer's; a single altered size is caught *)
(* ====================================================================================== *)

(* the siblings among the nodes visited by a climb: positions 0, 2, 4, ... *)
Fixpoint sibs_of (l : list node) : list node :=
  match l with
  | n :: _ :: rest => n :: sibs_of rest
  | _ => []
  end.

Section Fields.
  Variable cr : crypto.
  Hypothesis Hhash32 : forall x, length (cr_hash cr x) = 32%nat.
  Hypothesis Hnonblank : forall x, all_zero (cr_hash cr x) = false.
  Variable bs : list bytes.
  Hypothesis Hfit : sumN (map len bs) <= u64_max.

  (* the siblings of the path from (d, o), k levels up, in the writer's tree *)
  Fixpoint ref_sibs (k d : nat) (o : N) : list node :=
    match k with
    | O => []
    | S k' => ref_node cr bs d (sib o) :: ref_sibs k' (S d) (o / 2)
    end.

  Lemma sibs_of_ref_path : forall k d o, sibs_of (ref_path cr bs k d o) = ref_sibs k d o.
  Proof. induction k as [|k IH]; intros d o; cbn [ref_path sibs_of ref_sibs]; [reflexivity|]. now rewrite IH. Qed.

  Lemma climb_plain_sibs : forall fuel ns it cur acc root visited,
    climb cr fuel (mkQ ns None) it cur acc = Ok (root, visited) ->
    exists ext, visited = acc ++ ext /\ sibs_of ext = ns.
  Proof.
    induction fuel as [|f IH]; intros ns it cur acc root visited H; [discriminate H|].
    rewrite climb_S, q_length_plain in H.
    destruct ns as [|n ns].
    - cbn [length] in H. change (N.of_nat 0 =? 0) with true in H. injection H as <- <-.
      exists []. rewrite app_nil_r. split; reflexivity.
    - destruct (N.of_nat (length (n :: ns)) =? 0) eqn:E; [cbn [length] in E; lia|].
      cbv zeta in H. unfold q_shift in H. cbn [q_extra q_nodes] in H.
      destruct (n_index n =? it_index (it_sibling it)); [|discriminate H]. cbn [bind] in H.
      apply bind_ok in H. destruct H as (l & _ & H).
      destruct (IH _ _ _ _ _ _ H) as (ext & -> & Hs).
      eexists. rewrite <- app_assoc. split; [reflexivity|]. cbn [app sibs_of]. now rewrite Hs.
  Qed.

  (* an accepted block-only proof carries exactly the writer's block and the writer's sibling nodes
     (index, SIZE and hash of each): any alteration of any field is refused, or yields a collision *)
  Theorem accepted_block_section_is_writers t tf r fork b pk cs :
    unfl_sound cr bs t r -> file_sound cr bs tf r ->
    verify_proof cr t tf (mkProof fork (Some b) None None None) pk = Ok cs ->
    (db_value b = blk bs (db_index b) /\
     db_nodes b = ref_sibs (length (db_nodes b)) 0 (db_index b)) \/ some_collision cr.
  Proof.
    intros Hu Hf H.
    destruct (verify_block_inv cr Hhash32 Hnonblank bs Hfit t tf r fork b pk cs Hu Hf H) as [(k & Hvb)|C];
      [|right; exact C].
    cbv zeta in Hvb. destruct Hvb as (Ev & Ecs & _).
    apply verify_proof_accept_inv in H. cbn [p_block p_hash p_seek p_upgrade p_fork] in H.
    destruct H as (root & c1 & Hv & -> & _).
    apply verify_tree_block_inv in Hv. destruct Hv as (r0 & visited & _ & _ & Hc & Ec1).
    rewrite Ec1 in Ecs. apply (f_equal cs_nodes) in Ecs. rewrite !cs_nodes_push_fresh in Ecs.
    destruct (climb_plain_sibs _ _ _ _ _ _ _ Hc) as (ext & Evis & Hs).
    rewrite Evis in Ecs. cbn [app] in Ecs. apply (f_equal (@tl node)) in Ecs. cbn [tl] in Ecs.
    rename Ecs into Eext.
    left. split; [exact Ev|]. rewrite <- Hs at 1. rewrite Eext, sibs_of_ref_path.
    (* k is the number of nodes of the proof *)
    assert (Ek : length (db_nodes b) = k).
    { rewrite <- Hs, Eext, sibs_of_ref_path. clear. generalize 0%nat (db_index b).
      induction k as [|k IH]; intros d o; cbn [ref_sibs length]; [reflexivity|]. now rewrite IH. }
    rewrite Ek. reflexivity.
  Qed.

  (* the parent hash catches a single altered size (the other child unchanged) *)
  Lemma single_size_alteration_detected a a' b :
    n_index a = n_index a' -> n_hash a = n_hash a' ->
    n_length a + n_length b < 2 ^ 64 -> n_length a' + n_length b < 2 ^ 64 ->
    parent_hash cr a b = parent_hash cr a' b ->
    n_length a = n_length a' \/ some_collision cr.
  Proof.
    intros Hi Hh B1 B2 H.
    apply (parent_hash_binds_same_idx cr a b a' b Hi eq_refl eq_refl) in H.
    destruct H as [(_ & _ & H)|C]; [left|right; exact C]. specialize (H B1 B2). lia.
  Qed.
End Fields.

Print Assumptions accepted_block_section_is_writers.
Print Assumptions single_size_alteration_detected.

(* Unified3.v — C01 in full, part 3: histories over
   {append, batch append, clear, get, has, info, close-and-reopen}, for every sequence of flush decisions,
   observe exactly the model "list of blocks + set of cleared indices"; reopening is the identity of the model. *)
From HC Require Import Base NMap Codec CodecFacts Crypto FlatTree Storage Bitfield Oplog Merkle Core.
From HC Require Import FlatTreeFacts StorageFacts BitfieldFacts OplogFacts TreeRef OffsetFacts CoreFacts Crash Refine.
From HC Require Import ClearRefine Reopen ContigBridge Unified1 Unified2.
From Coq Require Import FMapPositive ZifyN ZifyNat ZifyBool.
Ltac Zify.zify_post_hook ::= Z.div_mod_to_equations.
Arguments N.add : simpl never.
Arguments N.sub : simpl never.
Arguments N.mul : simpl never.
Arguments N.div : simpl never.
Arguments N.modulo : simpl never.
Arguments N.pow : simpl never.
Arguments N.eqb : simpl never.
Arguments N.ltb : simpl never.
Arguments N.leb : simpl never.
Arguments N.max : simpl never.
Arguments N.min : simpl never.
Arguments N.of_nat : simpl never.
Arguments N.to_nat : simpl never.

(* ====================================================================================== *)
(* A. Observations under the unified invariant                                             *)
(* ====================================================================================== *)

Section ObsU.
  Variable cr : crypto.
  Hypothesis Hhash32 : forall x, length (cr_hash cr x) = 32%nat.
  Hypothesis Hnonblank : forall x, all_zero (cr_hash cr x) = false.

  (* a held block (also an empty one) is returned; a cleared or never-written index gives None *)
  Theorem get_correct_U c d bs cl j ev i :
    FInv cr c d bs cl ->
    core_get i c (mkWorld d j ev) =
    if held (N.of_nat (length bs)) cl i
    then (c, mkWorld d j ev, Ok (Some (nth (N.to_nat i) bs [])))
    else (c, mkWorld d j (EvGet i :: ev), Ok None).
  Proof. intros D. apply (get_correct_c cr), FInv_CInv, D. Qed.

  Theorem has_correct_U c d bs cl i :
    FInv cr c d bs cl -> core_has c i = held (N.of_nat (length bs)) cl i.
  Proof. intros D. apply (has_correct_c cr c d bs cl i), FInv_CInv, D. Qed.

  Theorem info_correct_U c d bs cl :
    FInv cr c d bs cl ->
    core_info c = mkInfo (N.of_nat (length bs)) (sumN (map len bs)) (spec_contig bs cl) 0
                         (match kp_secret (c_keypair c) with Some _ => true | None => false end).
  Proof. intros D. apply (info_correct_c cr c d bs cl), FInv_CInv, D. Qed.
End ObsU.

(* ====================================================================================== *)
(* B. Histories                                                                            *)
(* ====================================================================================== *)

Inductive uop :=
| UAppend (f : option bool) (batch : list bytes)   (* f: the forced flush decision *)
| UClear (f : option bool) (start end_ : N)
| UGet (i : N)
| UHas (i : N)
| UInfo
| UReopen.                                          (* drop the writer, open the same storage again *)

Inductive uobs :=
| UOAppend (r : res (N * N))
| UOClear (r : res unit)
| UOGet (r : res (option bytes))
| UOHas (b : bool)
| UOInfo (i : info)
| UOReopen (r : res unit).

(* the model: list of blocks + characteristic function of the cleared indices; reopening is the identity *)
Fixpoint uspec (ops : list uop) (bs : list bytes) (cl : N -> bool) : list uobs :=
  let n := N.of_nat (length bs) in
  match ops with
  | [] => []
  | UAppend _ batch :: rest =>
      UOAppend (Ok (N.of_nat (length (bs ++ batch)), sumN (map len (bs ++ batch))))
        :: uspec rest (bs ++ batch) (cl_mask cl n)
  | UClear _ s e :: rest =>
      UOClear (Ok tt) :: uspec rest bs (if e <=? s then cl else cl_clear cl s e)
  | UGet i :: rest =>
      UOGet (Ok (if held n cl i then Some (nth (N.to_nat i) bs []) else None)) :: uspec rest bs cl
  | UHas i :: rest => UOHas (held n cl i) :: uspec rest bs cl
  | UInfo :: rest =>
      UOInfo (mkInfo n (sumN (map len bs)) (spec_contig bs cl) 0 true) :: uspec rest bs cl
  | UReopen :: rest => UOReopen (Ok tt) :: uspec rest bs cl
  end.

Fixpoint uappended (ops : list uop) : list bytes :=
  match ops with
  | [] => []
  | UAppend _ batch :: rest => batch ++ uappended rest
  | _ :: rest => uappended rest
  end.

(* every non-empty clear starts below the current length n and its end is a u64 *)
Fixpoint wf_u (ops : list uop) (n : N) : Prop :=
  match ops with
  | [] => True
  | UAppend _ batch :: rest => wf_u rest (n + N.of_nat (length batch))
  | UClear _ s e :: rest => (e <= s \/ (s < n /\ e <= u64_max)) /\ wf_u rest n
  | _ :: rest => wf_u rest n
  end.

(* The only observation at which a history may stop early is the 30-bit frame guard of the oplog hit by an
   append entry, UOAppend (Panic frame_msg): flushes and clear entries never reach it (Unified2.flush_all_ok,
   clear_entry_logged). *)

Section HistoryU.
  Variable cr : crypto.
  Hypothesis Hcrc : crc_ok cr.
  Hypothesis Hhash32 : forall x, length (cr_hash cr x) = 32%nat.
  Hypothesis Hnonblank : forall x, all_zero (cr_hash cr x) = false.
  Hypothesis Hhashbytes : forall x, bytes_ok (cr_hash cr x) = true.
  Hypothesis Hsig64 : forall sk m, length (cr_sign cr sk m) = 64%nat.
  Hypothesis Hsigbytes : forall sk m, bytes_ok (cr_sign cr sk m) = true.

  (* the model; a history stops after an append, clear or reopen that does not return a value.
     Reopen: the in-memory core is discarded, core_open (open mode, no key pair) runs on the disk. *)
  Fixpoint urun (ops : list uop) (c : core) (w : world) : list uobs :=
    match ops with
    | [] => []
    | UAppend f batch :: rest =>
        let '(c', w', r) := core_append cr f batch c w in
        UOAppend r :: (match r with Ok _ => urun rest c' w' | _ => [] end)
    | UClear f s e :: rest =>
        let '(c', w', r) := core_clear cr f s e c w in
        UOClear r :: (match r with Ok _ => urun rest c' w' | _ => [] end)
    | UGet i :: rest =>
        let '(c', w', r) := core_get i c w in UOGet r :: urun rest c' w'
    | UHas i :: rest => UOHas (core_has c i) :: urun rest c w
    | UInfo :: rest => UOInfo (core_info c) :: urun rest c w
    | UReopen :: rest =>
        let '(d', sops, r) := core_open cr None true (w_disk w) in
        UOReopen (res_unit r) ::
        (match r with
         | Ok c' => urun rest c' (mkWorld d' (rev sops ++ w_journal w) (w_events w))
         | _ => []
         end)
    end.

  Theorem history_unified (ops : list uop) : forall c d j ev bs cl sk,
    FInv cr c d bs cl -> kp_secret (c_keypair c) = Some sk ->
    wf_u ops (N.of_nat (length bs)) ->
    sumN (map len (bs ++ uappended ops)) <= u64_max ->
    NODE_SIZE * (2 * N.of_nat (length (bs ++ uappended ops))) <= u64_max ->
    urun ops c (mkWorld d j ev) = uspec ops bs cl \/
    exists k, urun ops c (mkWorld d j ev) = firstn k (uspec ops bs cl) ++ [UOAppend (Panic frame_msg)].
  Proof.
    induction ops as [|op ops IH]; intros c d j ev bs cl sk D Hsk Hwf Hfit Hidx.
    - left. reflexivity.
    - pose proof (FInv_CInv cr c d bs cl D) as W.
      destruct op as [f batch|f s e|i|i| |]; cbn [urun uspec uappended wf_u] in *.
      + destruct (core_append cr f batch c (mkWorld d j ev)) as [[c' w'] r] eqn:E.
        rewrite app_assoc in Hfit, Hidx.
        assert (Hfit1 : sumN (map len (bs ++ batch)) <= u64_max).
        { rewrite map_app, TreeRef.sumN_app in Hfit. lia. }
        assert (Hidx1 : NODE_SIZE * (2 * N.of_nat (length (bs ++ batch))) <= u64_max).
        { rewrite (app_length (bs ++ batch)) in Hidx. unfold NODE_SIZE in *. lia. }
        destruct (append_FInv cr Hcrc Hhash32 Hnonblank Hhashbytes Hsig64 Hsigbytes
                              f batch c d j ev bs cl sk c' w' r D Hsk Hfit1 Hidx1 E)
          as [->|(-> & D' & K')].
        * right. exists 0%nat. reflexivity.
        * destruct w' as [d' j' ev']. cbn [w_disk] in D'. rewrite <- K' in Hsk.
          assert (Hwf' : wf_u ops (N.of_nat (length (bs ++ batch)))).
          { rewrite app_length, Nat2N.inj_add. exact Hwf. }
          destruct (IH c' d' j' ev' (bs ++ batch) _ sk D' Hsk Hwf' Hfit Hidx) as [->|(k & ->)].
          -- left. reflexivity.
          -- right. exists (S k). reflexivity.
      + destruct Hwf as [Hse Hwf].
        destruct (N.leb_spec e s) as [L|L].
        * rewrite (clear_noop cr f s e c _ L).
          destruct (IH c d j ev bs cl sk D Hsk Hwf Hfit Hidx) as [->|(k & ->)].
          -- left. reflexivity.
          -- right. exists (S k). reflexivity.
        * destruct Hse as [Hse|[Hse He]]; [lia|].
          destruct (core_clear cr f s e c (mkWorld d j ev)) as [[c' w'] r] eqn:E.
          destruct (clear_FInv cr Hcrc Hhash32 Hnonblank Hhashbytes f c d j ev bs cl s e c' w' r D Hse L He E)
            as (-> & D' & K').
          destruct w' as [d' j' ev']. cbn [w_disk] in D'. rewrite <- K' in Hsk.
          destruct (IH c' d' j' ev' bs _ sk D' Hsk Hwf Hfit Hidx) as [->|(k & ->)].
          -- left. reflexivity.
          -- right. exists (S k). reflexivity.
      + rewrite (get_correct_c cr c d bs cl j ev i W).
        destruct (held (N.of_nat (length bs)) cl i).
        * destruct (IH c d j ev bs cl sk D Hsk Hwf Hfit Hidx) as [->|(k & ->)];
            [left; reflexivity|right; exists (S k); reflexivity].
        * destruct (IH c d j (EvGet i :: ev) bs cl sk D Hsk Hwf Hfit Hidx) as [->|(k & ->)];
            [left; reflexivity|right; exists (S k); reflexivity].
      + rewrite (has_correct_c cr c d bs cl i W).
        destruct (IH c d j ev bs cl sk D Hsk Hwf Hfit Hidx) as [->|(k & ->)];
          [left; reflexivity|right; exists (S k); reflexivity].
      + rewrite (proj1 (info_correct_c cr c d bs cl W)), Hsk.
        destruct (IH c d j ev bs cl sk D Hsk Hwf Hfit Hidx) as [->|(k & ->)];
          [left; reflexivity|right; exists (S k); reflexivity].
      + destruct (reopen_FInv cr Hcrc Hhash32 Hnonblank Hhashbytes c d bs cl D) as (c' & E & D' & K').
        cbn [w_disk w_journal w_events]. rewrite E. cbn [res_unit rev app]. rewrite <- K' in Hsk.
        destruct (IH c' d j ev bs cl sk D' Hsk Hwf Hfit Hidx) as [->|(k & ->)];
          [left; reflexivity|right; exists (S k); reflexivity].
  Qed.

  (* from creation *)
  Theorem fresh_history_unified kp sk ops :
    keypair_ok kp = true -> kp_secret kp = Some sk ->
    wf_u ops 0 ->
    sumN (map len (uappended ops)) <= u64_max ->
    NODE_SIZE * (2 * N.of_nat (length (uappended ops))) <= u64_max ->
    exists d0 ops0 c0,
      core_open cr (Some kp) false disk_empty = (d0, ops0, Ok c0) /\
      (urun ops c0 (mkWorld d0 [] []) = uspec ops [] (fun _ => false) \/
       exists k, urun ops c0 (mkWorld d0 [] []) =
                 firstn k (uspec ops [] (fun _ => false)) ++ [UOAppend (Panic frame_msg)]).
  Proof.
    intros Hkp Hsk Hwf Hfit Hidx.
    destruct (FInv_init cr Hcrc Hhash32 Hnonblank Hhashbytes kp Hkp) as (d0 & ops0 & c0 & Ho & D & K).
    exists d0, ops0, c0. split; [exact Ho|].
    apply (history_unified ops c0 d0 [] [] [] (fun _ => false) sk D);
      [rewrite K; exact Hsk|exact Hwf|exact Hfit|exact Hidx].
  Qed.

  (* when no operation hits the 30-bit frame guard, every observation is the specification's *)
  Corollary fresh_history_unified_no_frame_panic kp sk ops :
    keypair_ok kp = true -> kp_secret kp = Some sk ->
    wf_u ops 0 ->
    sumN (map len (uappended ops)) <= u64_max ->
    NODE_SIZE * (2 * N.of_nat (length (uappended ops))) <= u64_max ->
    exists d0 ops0 c0,
      core_open cr (Some kp) false disk_empty = (d0, ops0, Ok c0) /\
      (~ In (UOAppend (Panic frame_msg)) (urun ops c0 (mkWorld d0 [] [])) ->
       urun ops c0 (mkWorld d0 [] []) = uspec ops [] (fun _ => false)).
  Proof.
    intros Hkp Hsk Hwf Hfit Hidx.
    destruct (fresh_history_unified kp sk ops Hkp Hsk Hwf Hfit Hidx) as (d0 & ops0 & c0 & Ho & [E|(k & E)]);
      exists d0, ops0, c0; (split; [exact Ho|]); intros Hno; [exact E|].
    exfalso. apply Hno. rewrite E. apply in_or_app. right. left. reflexivity.
  Qed.

  (* clearing a range affects no block outside it, also on disk: has and get at an index outside
     [start, end_) answer as before, and they still do after a close-and-reopen *)
  Corollary clear_outside_U f c d j ev bs cl start end_ c' d' j' ev' i :
    let n := N.of_nat (length bs) in
    FInv cr c d bs cl -> start < n -> start < end_ -> end_ <= u64_max ->
    core_clear cr f start end_ c (mkWorld d j ev) = (c', mkWorld d' j' ev', Ok tt) ->
    (i < start \/ end_ <= i) ->
    exists c'', core_open cr None true d' = (d', [], Ok c'') /\
      core_has c' i = core_has c i /\ core_has c'' i = core_has c i /\
      forall j1 ev1 j2 ev2,
        snd (core_get i c' (mkWorld d' j1 ev1)) = snd (core_get i c (mkWorld d j2 ev2)) /\
        snd (core_get i c'' (mkWorld d' j1 ev1)) = snd (core_get i c (mkWorld d j2 ev2)).
  Proof.
    intros n D Hsn Hse He H Hi.
    destruct (clear_FInv cr Hcrc Hhash32 Hnonblank Hhashbytes f c d j ev bs cl start end_ _ _ _ D Hsn Hse He H)
      as (_ & D' & _). cbn [w_disk] in D'.
    destruct (reopen_FInv cr Hcrc Hhash32 Hnonblank Hhashbytes c' d' bs _ D') as (c'' & Eo & D'' & _).
    exists c''. split; [exact Eo|].
    pose proof (FInv_CInv cr _ _ _ _ D) as W. pose proof (FInv_CInv cr _ _ _ _ D') as W'.
    pose proof (FInv_CInv cr _ _ _ _ D'') as W''.
    assert (Hh : held n (cl_clear cl start end_) i = held n cl i).
    { unfold held, cl_clear. assert ((start <=? i) && (i <? end_) = false) as -> by lia.
      rewrite orb_false_r. reflexivity. }
    split; [rewrite (has_correct_c cr c' d' bs _ i W'), (has_correct_c cr c d bs cl i W); exact Hh|].
    split; [rewrite (has_correct_c cr c'' d' bs _ i W''), (has_correct_c cr c d bs cl i W); exact Hh|].
    intros j1 ev1 j2 ev2.
    rewrite (get_correct_c cr c' d' bs _ j1 ev1 i W'),
            (get_correct_c cr c'' d' bs _ j1 ev1 i W''),
            (get_correct_c cr c d bs cl j2 ev2 i W).
    fold n. rewrite Hh. destruct (held n cl i); split; reflexivity.
  Qed.
End HistoryU.

(* ====================================================================================== *)
(* C. Non-vacuity                                                                          *)
(* ====================================================================================== *)

(* all reads of the first n indices *)
Definition obs_all (n : nat) : list uop :=
  UInfo :: flat_map (fun i => [UGet i; UHas i]) (map N.of_nat (seq 0 n)).

(* clears, reopens, reads, appends, clears again (one clear reaching beyond the length, one flushing, one
   pending in the oplog at the reopen), reopens twice, empty blocks and an empty batch *)
Definition toy_uops : list uop :=
  [UAppend (Some false) [[1; 2; 3]; []; [4]; [5; 6]]; UClear (Some false) 1 3; UReopen] ++ obs_all 5 ++
  [UAppend (Some false) [[7]]; UClear (Some true) 0 1; UReopen] ++ obs_all 6 ++
  [UClear (Some false) 4 9; UReopen; UReopen] ++ obs_all 6 ++
  [UAppend (Some true) [[8; 9]; []]; UClear None 5 6; UAppend None [[10]]; UAppend None []; UClear None 3 3; UReopen]
  ++ obs_all 9 ++
  [UClear (Some false) 2 70000; UAppend (Some false) [[11]]; UReopen] ++ obs_all 10.

Example toy_history_unified :
  keypair_ok toy_keypair = true /\ wf_u toy_uops 0 /\
  match core_open toy_cr (Some toy_keypair) false disk_empty with
  | (d0, _, Ok c0) => urun toy_cr toy_uops c0 (mkWorld d0 [] []) = uspec toy_uops [] (fun _ => false)
  | _ => False
  end.
Proof.
  split; [reflexivity|]. split; [cbn [wf_u toy_uops obs_all app flat_map map seq length]; unfold u64_max; lia|].
  vm_compute. reflexivity.
Qed.

(* what the run "append 4 blocks (one empty), clear [1,3), close and reopen, read all" returns *)
Example toy_clear_reopen_reads :
  match core_open toy_cr (Some toy_keypair) false disk_empty with
  | (d0, _, Ok c0) =>
      urun toy_cr [UAppend (Some false) [[1; 2; 3]; []; [4]; [5; 6]]; UClear (Some false) 1 3; UReopen;
                   UGet 0; UGet 1; UGet 2; UGet 3; UGet 4; UInfo] c0 (mkWorld d0 [] []) =
      [UOAppend (Ok (4, 6)); UOClear (Ok tt); UOReopen (Ok tt); UOGet (Ok (Some [1; 2; 3])); UOGet (Ok None);
       UOGet (Ok None); UOGet (Ok (Some [5; 6])); UOGet (Ok None); UOInfo (mkInfo 4 6 1 0 true)]
  | _ => False
  end.
Proof. vm_compute. reflexivity. Qed.

(* the instance of the theorem for the toy crypto *)
Example toy_instance_unified ops sk :
  kp_secret toy_keypair = Some sk -> wf_u ops 0 ->
  sumN (map len (uappended ops)) <= u64_max ->
  NODE_SIZE * (2 * N.of_nat (length (uappended ops))) <= u64_max ->
  exists d0 ops0 c0,
    core_open toy_cr (Some toy_keypair) false disk_empty = (d0, ops0, Ok c0) /\
    (urun toy_cr ops c0 (mkWorld d0 [] []) = uspec ops [] (fun _ => false) \/
     exists k, urun toy_cr ops c0 (mkWorld d0 [] []) =
               firstn k (uspec ops [] (fun _ => false)) ++ [UOAppend (Panic frame_msg)]).
Proof.
  apply (fresh_history_unified toy_cr toy_crc_ok' toy_hash32 toy_nonblank toy_hashbytes
           toy_sig64 toy_sigbytes toy_keypair sk ops). reflexivity.
Qed.

(* the hypotheses of append_FInv, clear_FInv and reopen_FInv are met by concrete non-trivial states: the
   invariant holds after the toy append, after a clear that stays pending in the oplog, and after the reopen
   that replays it *)
Example toy_unified_hypotheses :
  exists d0 ops0 c0 c1 w1 c2 w2 c3,
    core_open toy_cr (Some toy_keypair) false disk_empty = (d0, ops0, Ok c0) /\
    FInv toy_cr c0 d0 [] (fun _ => false) /\
    core_append toy_cr (Some false) toy_blocks c0 (mkWorld d0 [] []) = (c1, w1, Ok (3, 4)) /\
    FInv toy_cr c1 (w_disk w1) toy_blocks (cl_mask (fun _ => false) 0) /\
    1 < N.of_nat (length toy_blocks) /\ 1 < 2 /\ 2 <= u64_max /\
    core_clear toy_cr (Some false) 1 2 c1 w1 = (c2, w2, Ok tt) /\
    FInv toy_cr c2 (w_disk w2) toy_blocks (cl_clear (cl_mask (fun _ => false) 0) 1 2) /\
    core_open toy_cr None true (w_disk w2) = (w_disk w2, [], Ok c3) /\
    FInv toy_cr c3 (w_disk w2) toy_blocks (cl_clear (cl_mask (fun _ => false) 0) 1 2) /\
    core_has c3 1 = false /\ core_has c3 2 = true.
Proof.
  destruct (FInv_init toy_cr toy_crc_ok' toy_hash32 toy_nonblank toy_hashbytes toy_keypair eq_refl)
    as (d0 & ops0 & c0 & Ho & D0 & K).
  destruct (core_append toy_cr (Some false) toy_blocks c0 (mkWorld d0 [] [])) as [[c1 w1] r1] eqn:E1.
  assert (Hr1 : r1 = Ok (3, 4)).
  { pose proof Ho as Ho'. vm_compute in Ho'. injection Ho' as <- <- <-. vm_compute in E1.
    injection E1 as _ _ <-. reflexivity. }
  subst r1.
  assert (Hsk : kp_secret (c_keypair c0) = Some (repeat 2 32%nat)) by (rewrite K; reflexivity).
  destruct (append_FInv toy_cr toy_crc_ok' toy_hash32 toy_nonblank toy_hashbytes toy_sig64 toy_sigbytes
              (Some false) toy_blocks c0 d0 [] [] [] (fun _ => false) _ c1 w1 _
              D0 Hsk ltac:(vm_compute; discriminate) ltac:(vm_compute; discriminate) E1)
    as [Hp|(_ & D1 & K1)]; [discriminate Hp|].
  cbn [app length] in D1. change (N.of_nat 0) with 0 in D1.
  destruct w1 as [d1 j1 ev1]. cbn [w_disk] in *.
  destruct (core_clear toy_cr (Some false) 1 2 c1 (mkWorld d1 j1 ev1)) as [[c2 w2] r2] eqn:E2.
  assert (Hr2 : r2 = Ok tt).
  { pose proof Ho as Ho'. vm_compute in Ho'. injection Ho' as <- <- <-. vm_compute in E1.
    injection E1 as <- <- <- <-. vm_compute in E2. injection E2 as _ _ <-. reflexivity. }
  subst r2.
  assert (L1 : 1 < N.of_nat (length toy_blocks)) by (cbn [toy_blocks length]; lia).
  assert (L2 : 2 <= u64_max) by (unfold u64_max; lia).
  destruct (clear_FInv toy_cr toy_crc_ok' toy_hash32 toy_nonblank toy_hashbytes (Some false) c1 d1 j1 ev1 toy_blocks _
              1 2 c2 w2 _ D1 L1 ltac:(lia) L2 E2) as (_ & D2 & _).
  destruct (reopen_FInv toy_cr toy_crc_ok' toy_hash32 toy_nonblank toy_hashbytes c2 (w_disk w2) toy_blocks _ D2)
    as (c3 & E3 & D3 & _).
  exists d0, ops0, c0, c1, (mkWorld d1 j1 ev1), c2, w2, c3.
  split; [exact Ho|]. split; [exact D0|]. split; [exact E1|]. split; [exact D1|].
  split; [exact L1|]. split; [lia|]. split; [exact L2|]. split; [exact E2|]. split; [exact D2|].
  split; [exact E3|]. split; [exact D3|].
  rewrite !(has_correct_U toy_cr c3 (w_disk w2) toy_blocks _ _ D3). split; reflexivity.
Qed.

Print Assumptions get_correct_U.
Print Assumptions has_correct_U.
Print Assumptions info_correct_U.
Print Assumptions history_unified.
Print Assumptions fresh_history_unified.
Print Assumptions fresh_history_unified_no_frame_panic.
Print Assumptions clear_outside_U.
Print Assumptions toy_history_unified.
Print Assumptions toy_clear_reopen_reads.
Print Assumptions toy_instance_unified.
Print Assumptions toy_unified_hypotheses.

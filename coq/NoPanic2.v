(* NoPanic2.v — property C09, second part:
   (A) proof CREATION (Merkle.create_valueless_proof) returns a value or an error — never Panic, never
       OutOfFuel — for EVERY request (block / hash / seek / upgrade sections in any combination, block /
       hash index and upgrade range below 2^40, node counts and seek offsets arbitrary) on every
       well-formed tree: create_valueless_proof_returns (section 4); the well-formedness condition
       tree_wf holds in the states of the refinement invariants (sections 6, 12, 13);
   (B) Core.core_create_proof returns and leaves core, disk and journal unchanged:
       core_create_proof_returns (section 5), create_proof_total_on_writer_states (section 13);
   (C) the verifier's upgrade loops never run out of fuel, whatever the length of the node lists:
       verify_upgrade_fuel, verify_proof_not_out_of_fuel, verify_proof_returns_any_length (sections 7, 8).
   Only new lemmas; the model files and NoPanic.v are untouched. *)
From HC Require Import Base NMap Codec CodecFacts Crypto FlatTree Storage Oplog Merkle Core.
From HC Require Import OplogFacts FlatTreeFacts TreeRef OffsetFacts NoPanic CoreFacts Refine ClearRefine Replicate.
From Coq Require Import ZifyN ZifyNat ZifyBool.
Ltac Zify.zify_post_hook ::= Z.div_mod_to_equations.
Arguments N.add : simpl never.
Arguments N.sub : simpl never.
Arguments N.mul : simpl never.
Arguments N.div : simpl never.
Arguments N.modulo : simpl never.
Arguments N.pow : simpl never.
Arguments N.eqb : simpl never.
Arguments N.ltb : simpl never.
Arguments N.leb : simpl never.
Arguments N.log2 : simpl never.
Arguments N.to_nat : simpl never.
Arguments N.of_nat : simpl never.

(* ====================================================================================== *)
(* 0. Constants                                                                            *)
(* ====================================================================================== *)

Definition B55 : N := 36028797018963968.
Definition B56 : N := 72057594037927936.
Definition B57 : N := 144115188075855872.
Definition B58 : N := 288230376151711744.
Lemma B55_pow : B55 = 2 ^ 55. Proof. reflexivity. Qed.
Lemma B56_pow : B56 = 2 ^ 56. Proof. reflexivity. Qed.
Lemma B57_pow : B57 = 2 ^ 57. Proof. reflexivity. Qed.
Lemma B58_pow : B58 = 2 ^ 58. Proof. reflexivity. Qed.

(* every node index up to 2^58 can be read: 40 * index fits u64 *)
Lemma node_size_B58 i : i <= B58 -> NODE_SIZE * i <= u64_max.
Proof. unfold B58, NODE_SIZE, u64_max. lia. Qed.

Lemma required_node_ret t tf i : i <= B58 -> returns (required_node t tf i) = true.
Proof. intros H. apply required_node_returns, node_size_B58, H. Qed.

Lemma optional_node_ret t tf i : i <= B58 -> returns (optional_node t tf i) = true.
Proof. intros H. unfold optional_node. apply node_get_returns, node_size_B58, H. Qed.

(* ====================================================================================== *)
(* 1. Flat-tree positions: ancestors                                                       *)
(* ====================================================================================== *)

Lemma pow2_split (d D : N) : d <= D -> 2 ^ D = 2 ^ d * 2 ^ (D - d).
Proof. intros H. rewrite <- N.pow_add_r. f_equal. lia. Qed.

Lemma pow2_ge_1 (d : N) : 1 <= 2 ^ d.
Proof. pose proof (FlatTreeFacts.pow2_pos d). lia. Qed.

(* the node (d, o) lies below (or is) the node (D, O) *)
Definition anc (d o D O : N) : Prop := d <= D /\ o / 2 ^ (D - d) = O.

Lemma anc_refl d o : anc d o d o.
Proof. split; [lia|]. rewrite N.sub_diag, N.pow_0_r. apply N.div_1_r. Qed.

Lemma anc_step d o D O : anc d o D O -> d < D -> anc (d + 1) (o / 2) D O.
Proof.
  intros [H1 H2] H. split; [lia|].
  rewrite N.div_div by (try lia; apply N.pow_nonzero; discriminate).
  replace (2 * 2 ^ (D - (d + 1))) with (2 ^ (D - d)); [exact H2|].
  replace (D - d) with (D - (d + 1) + 1) by lia. apply FlatTreeFacts.pow2_succ.
Qed.

Lemma anc_child d o' q D O : anc (d + 1) q D O -> o' / 2 = q -> anc d o' D O.
Proof.
  intros [H1 H2] H. split; [lia|].
  replace (2 ^ (D - d)) with (2 * 2 ^ (D - (d + 1))).
  - rewrite <- N.div_div by (try lia; apply N.pow_nonzero; discriminate). rewrite H. exact H2.
  - replace (D - d) with (D - (d + 1) + 1) by lia. symmetry. apply FlatTreeFacts.pow2_succ.
Qed.

Lemma anc_top d o D O : anc d o D O -> d = D -> o = O.
Proof. intros [H1 H2] ->. rewrite N.sub_diag, N.pow_0_r, N.div_1_r in H2. exact H2. Qed.

(* the span of a descendant lies inside the span of its ancestor (leaf terms, no subtraction) *)
Lemma anc_span d o D O : anc d o D O ->
  O * 2 ^ D <= o * 2 ^ d /\ (o + 1) * 2 ^ d <= (O + 1) * 2 ^ D.
Proof.
  intros [H1 H2]. rewrite (pow2_split d D H1).
  pose proof (FlatTreeFacts.pow2_pos d) as Hd. pose proof (FlatTreeFacts.pow2_pos (D - d)) as HM.
  set (M := 2 ^ (D - d)) in *. set (P := 2 ^ d) in *.
  assert (Ho : O * M <= o /\ o + 1 <= (O + 1) * M).
  { subst O. pose proof (N.div_mod o M ltac:(lia)) as E. pose proof (N.mod_upper_bound o M ltac:(lia)) as U.
    split; nia. }
  destruct Ho as [A B]. split.
  - replace (O * (P * M)) with (O * M * P) by lia. apply N.mul_le_mono_r. exact A.
  - replace ((O + 1) * (P * M)) with ((O + 1) * M * P) by lia. apply N.mul_le_mono_r. exact B.
Qed.

(* the index of a descendant is at most twice the index of the ancestor *)
Lemma anc_index_le d o D O : anc d o D O -> ft_index d o <= 2 * ft_index D O.
Proof.
  intros H. destruct (anc_span d o D O H) as [A B].
  pose proof (ft_index_succ d o) as S1. pose proof (ft_index_succ D O) as S2.
  pose proof (FlatTreeFacts.pow2_pos d). pose proof (FlatTreeFacts.pow2_pos D). nia.
Qed.

Lemma depth_le_index D O : 2 ^ D <= ft_index D O + 1.
Proof. rewrite ft_index_succ. pose proof (FlatTreeFacts.pow2_pos D). nia. Qed.

Lemma pow2_le_inv (a b : N) : 2 ^ a <= 2 ^ b -> a <= b.
Proof. intros H. apply (N.pow_le_mono_r_iff 2); [lia|exact H]. Qed.

Lemma depth_small D O : ft_index D O < B58 -> D <= 58.
Proof.
  intros H. pose proof (depth_le_index D O) as L. apply pow2_le_inv. rewrite <- B58_pow. lia.
Qed.

(* span containment gives the ancestor relation *)
Lemma contains_anc d o D O : it_contains (it_at D O) (ft_index d o) = true -> anc d o D O.
Proof.
  intros H. apply (it_contains_spec _ _ (wf_at D O)) in H. destruct H as [L U].
  rewrite lo_at in L. pose proof (hi_at D O) as Hh.
  pose proof (ft_index_succ d o) as S1.
  pose proof (FlatTreeFacts.pow2_pos d) as Pd. pose proof (FlatTreeFacts.pow2_pos D) as PD.
  assert (HdD : d <= D).
  { destruct (N.le_gt_cases d D) as [?|G]; [assumption|exfalso].
    assert (E : 2 ^ d = 2 ^ D * (2 * 2 ^ (d - D - 1))).
    { rewrite <- FlatTreeFacts.pow2_succ, <- N.pow_add_r. f_equal. lia. }
    pose proof (FlatTreeFacts.pow2_pos (d - D - 1)) as Pm. set (m := 2 ^ (d - D - 1)) in *.
    set (Q := 2 ^ D) in *. rewrite E in S1.
    assert (A1 : 2 * (O * Q) + 1 <= Q * (2 * m) * (2 * o + 1)) by lia.
    assert (A2 : Q * (2 * m) * (2 * o + 1) + 1 <= 2 * ((O + 1) * Q)) by lia.
    assert (O < m * (2 * o + 1)) by nia. assert (m * (2 * o + 1) < O + 1) by nia. lia. }
  split; [exact HdD|].
  rewrite (pow2_split d D HdD) in *. pose proof (FlatTreeFacts.pow2_pos (D - d)) as PM.
  set (M := 2 ^ (D - d)) in *. set (P := 2 ^ d) in *.
  assert (A1 : 2 * (O * M) < 2 * o + 1) by nia.
  assert (A2 : 2 * o + 1 < 2 * ((O + 1) * M)) by nia.
  symmetry. apply (N.div_unique o M O (o - O * M)); nia.
Qed.

Lemma it_new_at_index i : it_index (it_new i) = i.
Proof. apply NoPanic.it_new_index. Qed.

(* contains, read on plain indices *)
Lemma contains_new_anc root x :
  it_contains (it_new root) x = true -> anc (ft_depth x) (ft_offset x) (ft_depth root) (ft_offset root).
Proof.
  rewrite it_new_at. rewrite <- (ft_index_depth_offset x) at 1. apply contains_anc.
Qed.

(* it_contains only looks at the index and the factor *)
Lemma it_contains_ext a b x :
  it_index a = it_index b -> it_factor a = it_factor b -> it_contains a x = it_contains b x.
Proof. intros H1 H2. unfold it_contains. rewrite H1, H2. reflexivity. Qed.

(* the sibling: same depth, same parent *)
Lemma sibling_at d o : exists o', it_sibling (it_at d o) = it_at d o' /\ o' / 2 = o / 2.
Proof.
  destruct (FlatTreeFacts.parity o) as [(E & Od & q & Hq)|(E & Od & q & Hq)].
  - exists (o + 1). split; [apply it_sibling_at_even, E | lia].
  - exists (o - 1). split; [apply it_sibling_at_odd, Od | lia].
Qed.

Lemma it_at_index d o : it_index (it_at d o) = ft_index d o.
Proof. reflexivity. Qed.

Lemma it_at_new d o : it_new (ft_index d o) = it_at d o.
Proof. apply FlatTreeFacts.it_new_index. Qed.

(* an index below the root, different from it, is strictly deeper *)
Lemma anc_neq d o D O : anc d o D O -> ft_index d o <> ft_index D O -> d < D.
Proof.
  intros H Hne. destruct H as [H1 H2]. destruct (N.eq_dec d D) as [->|]; [|lia].
  exfalso. apply Hne. f_equal. rewrite N.sub_diag, N.pow_0_r, N.div_1_r in H2. exact H2.
Qed.

(* even index <-> leaf *)
Lemma ft_index_even d o : N.even (ft_index d o) = (d =? 0).
Proof.
  pose proof (ft_index_succ d o) as S. rewrite FlatTreeFacts.even_mod.
  destruct (N.eqb_spec d 0) as [->|Hd].
  - rewrite N.pow_0_r in S. lia.
  - assert (E : 2 ^ d = 2 * 2 ^ (d - 1)).
    { rewrite <- FlatTreeFacts.pow2_succ. f_equal. lia. }
    rewrite E in S. pose proof (FlatTreeFacts.pow2_pos (d - 1)). nia.
Qed.

(* ====================================================================================== *)
(* 2. The climbs of the prover                                                             *)
(* ====================================================================================== *)

Section Prover.
  Variables (t : mtree) (tf : file).

  Lemma seek_proof_loop_ret (D O : N) : ft_index D O < B57 ->
    forall fuel d o acc, anc d o D O -> (N.to_nat (D - d) < fuel)%nat ->
    returns (seek_proof_loop fuel t tf (it_at d o) (ft_index D O) acc) = true.
  Proof.
    intros HB. induction fuel as [|f IH]; intros d o acc Ha Hf; [lia|].
    cbn [seek_proof_loop]. rewrite it_at_index.
    destruct (N.eqb_spec (ft_index d o) (ft_index D O)) as [E|E]; [reflexivity|].
    pose proof (anc_neq _ _ _ _ Ha E) as HdD.
    destruct (sibling_at d o) as (o' & Es & Eo). rewrite Es, it_at_index.
    pose proof (anc_step _ _ _ _ Ha HdD) as Hp.
    pose proof (anc_child d o' _ D O Hp Eo) as Hs.
    apply returns_bind.
    - apply required_node_ret. pose proof (anc_index_le _ _ _ _ Hs). unfold B57, B58 in *. lia.
    - intros n _. rewrite it_parent_at, Eo. apply IH; [exact Hp|lia].
  Qed.

  Lemma climb_fuel D O d : ft_index D O < B58 -> (N.to_nat (D - d) < CLIMB)%nat.
  Proof. intros H. pose proof (depth_small D O H). unfold CLIMB. lia. Qed.

  Lemma seek_proof_ret seek_root root p :
    root < B57 -> it_contains (it_new root) seek_root = true ->
    returns (seek_proof t tf seek_root root p) = true.
  Proof.
    intros HB Hc. pose proof (contains_new_anc root seek_root Hc) as Ha.
    pose proof (ft_index_depth_offset root) as Hr.
    set (D := ft_depth root) in *. set (O := ft_offset root) in *. clearbody D O. subst root.
    pose proof (ft_index_depth_offset seek_root) as Hs.
    pose proof (anc_index_le _ _ _ _ Ha) as Hle. rewrite Hs in Hle.
    unfold seek_proof. apply returns_bind.
    - apply required_node_ret. unfold B57, B58 in *. lia.
    - intros n _. apply returns_bind; [|intros l _; reflexivity].
      rewrite it_new_at. apply seek_proof_loop_ret; [exact HB|exact Ha|].
      apply (climb_fuel D O). unfold B57, B58 in *. lia.
  Qed.

  Lemma block_proof_loop_ret (D O : N) (is_seek : bool) (seek_root : N) : ft_index D O < B56 ->
    forall fuel d o p acc, anc d o D O -> (N.to_nat (D - d) < fuel)%nat ->
    returns (block_proof_loop fuel t tf (it_at d o) (ft_index D O) is_seek seek_root p acc) = true.
  Proof.
    intros HB. induction fuel as [|f IH]; intros d o p acc Ha Hf; [lia|].
    cbn [block_proof_loop]. rewrite it_at_index.
    destruct (N.eqb_spec (ft_index d o) (ft_index D O)) as [E|E]; [reflexivity|].
    pose proof (anc_neq _ _ _ _ Ha E) as HdD.
    destruct (sibling_at d o) as (o' & Es & Eo). rewrite Es, it_at_index.
    pose proof (anc_step _ _ _ _ Ha HdD) as Hp.
    pose proof (anc_child d o' _ D O Hp Eo) as Hs.
    pose proof (anc_index_le _ _ _ _ Hs) as Hle.
    rewrite it_parent_at, Eo.
    destruct (is_seek && it_contains (it_at d o') seek_root && negb (ft_index d o' =? seek_root)) eqn:Ec.
    - apply andb_true_iff in Ec. destruct Ec as [Ec _]. apply andb_true_iff in Ec. destruct Ec as [_ Ec].
      apply returns_bind.
      + apply seek_proof_ret; [unfold B56, B57 in *; lia|]. rewrite it_at_new. exact Ec.
      + intros p' _. apply IH; [exact Hp|lia].
    - apply returns_bind.
      + apply required_node_ret. unfold B56, B58 in *. lia.
      + intros n _. apply IH; [exact Hp|lia].
  Qed.

  Lemma block_and_seek_proof_ret ix is_seek seek_root root p :
    root < B56 -> (ix = None -> it_contains (it_new root) seek_root = true) ->
    returns (block_and_seek_proof t tf ix is_seek seek_root root p) = true.
  Proof.
    intros HB Hnone. unfold block_and_seek_proof. destruct ix as [i|].
    2:{ apply seek_proof_ret; [unfold B56, B57 in *; lia|]. apply Hnone. reflexivity. }
    destruct (it_contains (it_new root) (ix_index i)) eqn:Hc; cbn [negb]; [|reflexivity].
    pose proof (contains_new_anc root (ix_index i) Hc) as Ha.
    pose proof (ft_index_depth_offset root) as Hr.
    set (D := ft_depth root) in *. set (O := ft_offset root) in *. clearbody D O. subst root.
    pose proof (ft_index_depth_offset (ix_index i)) as Hs.
    pose proof (anc_index_le _ _ _ _ Ha) as Hle. rewrite Hs in Hle.
    apply returns_bind.
    - destruct (ix_value i); [reflexivity|]. apply returns_bind; [|intros n _; reflexivity].
      apply required_node_ret. unfold B56, B58 in *. lia.
    - intros acc0 _. apply returns_bind; [|intros [p' l] _; reflexivity].
      rewrite it_new_at. apply block_proof_loop_ret; [exact HB|exact Ha|].
      apply (climb_fuel D O). unfold B56, B58 in *. lia.
  Qed.

  Definition no_sub (p : local_proof) : bool :=
    match lp_nodes p, lp_seek p with None, None => true | _, _ => false end.

  Lemma connect_loop_ret (D O : N) (target : N) ix (is_seek : bool) (sub_tree : N) (with_sub : bool) :
    ft_index D O < B55 ->
    forall fuel d o p acc, anc d o D O -> (N.to_nat (D - d) < fuel)%nat ->
    returns (connect_loop fuel t tf (it_at d o) (ft_index D O) target ix is_seek sub_tree with_sub p acc) = true /\
    (forall p' acc',
       connect_loop fuel t tf (it_at d o) (ft_index D O) target ix is_seek sub_tree with_sub p acc = Ok (p', acc') ->
       with_sub = false -> p' = p).
  Proof.
    intros HB. induction fuel as [|f IH]; intros d o p acc Ha Hf; [lia|].
    cbn [connect_loop]. rewrite it_at_index.
    destruct (N.eqb_spec (ft_index d o) (ft_index D O)) as [E|E].
    { split; [reflexivity|]. intros p' acc' [= <- <-] _. reflexivity. }
    pose proof (anc_neq _ _ _ _ Ha E) as HdD.
    destruct (sibling_at d o) as (o' & Es & Eo). rewrite Es, it_at_index.
    pose proof (anc_step _ _ _ _ Ha HdD) as Hp.
    pose proof (anc_child d o' _ D O Hp Eo) as Hs.
    pose proof (anc_index_le _ _ _ _ Hs) as Hle.
    rewrite it_parent_at, Eo.
    fold (no_sub p).
    set (inner := if target <? ft_index d o'
                  then if with_sub && no_sub p && it_contains (it_at d o') sub_tree
                       then p' <- block_and_seek_proof t tf ix is_seek sub_tree (ft_index d o') p ;; Ok (p', acc)
                       else n <- required_node t tf (ft_index d o') ;; Ok (p, acc ++ [n])
                  else Ok (p, acc)).
    assert (Hin : returns inner = true /\
                  forall p1 acc1, inner = Ok (p1, acc1) -> with_sub = false -> p1 = p).
    { unfold inner. destruct (target <? ft_index d o').
      2:{ split; [reflexivity|]. intros p1 acc1 [= <- <-] _. reflexivity. }
      destruct (with_sub && no_sub p && it_contains (it_at d o') sub_tree) eqn:Ec.
      - apply andb_true_iff in Ec. destruct Ec as [Ec Ec2]. apply andb_true_iff in Ec. destruct Ec as [Ew _].
        split.
        + apply returns_bind; [|intros p1 _; reflexivity].
          apply block_and_seek_proof_ret; [unfold B55, B56 in *; lia|].
          intros _. rewrite it_at_new. exact Ec2.
        + intros p1 acc1 _ Hw. rewrite Hw in Ew. discriminate Ew.
      - split.
        + apply returns_bind; [|intros n _; reflexivity].
          apply required_node_ret. unfold B55, B58 in *. lia.
        + intros p1 acc1 H _. apply bind_ok in H. destruct H as (n & _ & H). injection H as <- _. reflexivity. }
    destruct Hin as [R1 P1].
    destruct inner as [[p1 acc1]| | |] eqn:Ei; try discriminate R1; cbn [bind].
    2:{ split; [reflexivity|]. discriminate. }
    destruct (IH (d + 1) (o / 2) p1 acc1 Hp ltac:(lia)) as [R2 P2].
    split; [exact R2|]. intros p' acc' H Hw. rewrite (P2 p' acc' H Hw). apply (P1 p1 acc1 eq_refl Hw).
  Qed.

  (* x is a multiple of 2^a (kept folded: lia must not see the non-constant modulus) *)
  Definition aligned (x a : N) : Prop := x mod 2 ^ a = 0.

  Lemma aligned_down (x a b : N) : b <= a -> aligned x a -> exists o, x = o * 2 ^ b.
  Proof.
    unfold aligned. intros Hba Hm. apply N.mod_divide in Hm; [|apply N.pow_nonzero; discriminate].
    destruct Hm as [z Hz]. exists (z * 2 ^ (a - b)). rewrite Hz, (pow2_split b a Hba). ring.
  Qed.

  Lemma aligned_mul (o b : N) : aligned (o * 2 ^ b) b.
  Proof. unfold aligned. apply N.mod_mul. apply N.pow_nonzero. discriminate. Qed.

  Lemma aligned_0 a : aligned 0 a.
  Proof. unfold aligned. apply N.mod_0_l. apply N.pow_nonzero. discriminate. Qed.

  (* the full-root iteration: the iterator stands on the leaf x, a multiple of 2^a with fewer than
     2^a indices left before [to]; the root found is the node (k, o) with k + 1 < a *)
  Lemma full_root_at (x to a : N) found it1 :
    x mod 2 = 0 -> to mod 2 = 0 -> aligned x a -> to - x < 2 ^ a ->
    it_full_root (mkIter x (x / 2) 2) to = (found, it1) ->
    (found = false /\ to <= x) \/
    (found = true /\ x < to /\ exists k o, k + 1 < a /\
       it_index it1 = ft_index k o /\ it_factor it1 = 2 ^ (k + 1) /\ 2 ^ (k + 1) / 2 = 2 ^ k /\
       ft_index k o + 2 ^ k + 1 = x + 2 ^ (k + 1) /\
       x + 2 ^ (k + 1) <= to /\ (x + 2 ^ (k + 1)) mod 2 = 0 /\
       aligned (x + 2 ^ (k + 1)) (k + 1) /\ to - (x + 2 ^ (k + 1)) < 2 ^ (k + 1) /\
       it_next_tree it1 = mkIter (x + 2 ^ (k + 1)) ((x + 2 ^ (k + 1)) / 2) 2).
  Proof.
    intros Hx Hto Hal Hrem Efr.
    destruct (it_full_root_tree x to found it1 Hx Hto Efr) as [(-> & Hge)|(-> & Hlt & h & Hh & Hi & Hf & Hfit & Hstop)].
    { left. split; [reflexivity|exact Hge]. }
    right. split; [reflexivity|]. split; [exact Hlt|].
    destruct (it_full_root_pow2 x to it1 Efr) as (k & Hk).
    assert (Eh : h = 2 ^ k) by lia. subst h.
    assert (E2 : 2 ^ (k + 1) = 2 * 2 ^ k) by apply FlatTreeFacts.pow2_succ.
    assert (Hka : k + 1 < a).
    { apply (N.pow_lt_mono_r_iff 2); [lia|]. lia. }
    destruct (aligned_down x a (k + 1) ltac:(lia) Hal) as [o Hxo]. clear Hal Efr.
    pose proof (FlatTreeFacts.pow2_pos k) as P0.
    exists k, o. split; [exact Hka|].
    assert (Ei : ft_index k o = x + 2 ^ k - 1).
    { unfold ft_index. lia. }
    split; [lia|]. split; [lia|]. split; [lia|]. split; [lia|]. split; [lia|]. split; [lia|].
    split.
    { rewrite Hxo. replace (o * 2 ^ (k + 1) + 2 ^ (k + 1)) with ((o + 1) * 2 ^ (k + 1)) by lia.
      apply aligned_mul. }
    split; [lia|].
    unfold it_next_tree. rewrite Hi, Hf. replace (2 * 2 ^ k / 2) with (2 ^ k) by lia.
    replace (x + 2 ^ k - 1 + 2 ^ k + 1) with (x + 2 ^ (k + 1)) by lia. reflexivity.
  Qed.

  Lemma upgrade_loop_ret (from to : N) ix (is_seek : bool) (sub_tree : N) (with_sub : bool) :
    to mod 2 = 0 -> to <= B55 ->
    forall fuel x a has p acc,
    x mod 2 = 0 -> aligned x a -> to - x < 2 ^ a -> (N.to_nat a < fuel)%nat ->
    returns (upgrade_loop fuel t tf (mkIter x (x / 2) 2) from to ix is_seek sub_tree with_sub has p acc) = true /\
    (forall p' acc' has',
       upgrade_loop fuel t tf (mkIter x (x / 2) 2) from to ix is_seek sub_tree with_sub has p acc = Ok (p', acc', has') ->
       (has = true \/ x <= from -> has' = true \/ to <= from) /\ (with_sub = false -> p' = p)).
  Proof.
    intros Hto HB. induction fuel as [|f IH]; intros x a has p acc Hx Hal Hrem Hf; [lia|].
    cbn [upgrade_loop].
    destruct (it_full_root (mkIter x (x / 2) 2) to) as [found it1] eqn:Efr.
    destruct (full_root_at x to a found it1 Hx Hto Hal Hrem Efr)
      as [(-> & Hge)|(-> & Hlt & k & o & Hka & Hi & Hfa & Hhalf & Hend & Hfit & Hx' & Hal' & Hrem' & Hnext)].
    { cbn [negb]. split; [reflexivity|]. intros p' acc' has' [= <- <- <-]. split; [|reflexivity].
      intros [H|H]; [left; exact H|right; lia]. }
    cbn [negb]. rewrite Hi, Hfa, Hnext, Hhalf.
    rewrite (it_contains_ext it1 (it_at k o) (from - 2) Hi Hfa).
    rewrite (it_contains_ext it1 (it_at k o) sub_tree Hi Hfa).
    fold (no_sub p). clear Efr Hi Hfa Hnext Hhalf it1.
    assert (Hroot : ft_index k o < B55) by lia.
    assert (Hf' : (N.to_nat (k + 1) < f)%nat) by lia.
    assert (Hskip : from <= ft_index k o + 2 ^ k \/ x + 2 ^ (k + 1) <= from) by lia.
    clear Hal Hrem Hf Hx Hka Hlt.
    set (x' := x + 2 ^ (k + 1)) in *. clearbody x'.
    destruct (ft_index k o + 2 ^ k <? from) eqn:Eskip.
    { destruct (IH x' (k + 1) has p acc Hx' Hal' Hrem' Hf') as [R P].
      split; [exact R|]. intros p' acc' has' H. destruct (P p' acc' has' H) as [P1 P2].
      split; [|exact P2]. intros _. apply P1. right. lia. }
    destruct (negb has && it_contains (it_at k o) (from - 2)) eqn:Econ.
    { apply andb_true_iff in Econ. destruct Econ as [_ Ec].
      rewrite <- it_at_new in Ec. apply contains_new_anc in Ec. rewrite ft_depth_index, ft_offset_index in Ec.
      rewrite it_new_at.
      destruct (connect_loop_ret k o (from - 2) ix is_seek sub_tree with_sub Hroot CLIMB
                  (ft_depth (from - 2)) (ft_offset (from - 2)) p acc Ec) as [R1 P1].
      { apply (climb_fuel k o). unfold B55, B58 in *. lia. }
      destruct (connect_loop CLIMB t tf (it_at (ft_depth (from - 2)) (ft_offset (from - 2))) (ft_index k o)
                  (from - 2) ix is_seek sub_tree with_sub p acc) as [[p1 acc1]| | |] eqn:Ecl;
        try discriminate R1; cbn [bind].
      2:{ split; [reflexivity|]. discriminate. }
      destruct (IH x' (k + 1) true p1 acc1 Hx' Hal' Hrem' Hf') as [R P].
      split; [exact R|]. intros p' acc' has' H. destruct (P p' acc' has' H) as [Q1 Q2].
      split; [intros _; apply Q1; left; reflexivity|].
      intros Hw. rewrite (Q2 Hw). apply (P1 p1 acc1 eq_refl Hw). }
    destruct (with_sub && no_sub p && it_contains (it_at k o) sub_tree) eqn:Esub.
    { apply andb_true_iff in Esub. destruct Esub as [Es1 Es2]. apply andb_true_iff in Es1. destruct Es1 as [Ew _].
      assert (R1 : returns (block_and_seek_proof t tf ix is_seek sub_tree (ft_index k o) p) = true).
      { apply block_and_seek_proof_ret; [unfold B55, B56 in *; lia|]. intros _. rewrite it_at_new. exact Es2. }
      destruct (block_and_seek_proof t tf ix is_seek sub_tree (ft_index k o) p) as [p1| | |];
        try discriminate R1; cbn [bind].
      2:{ split; [reflexivity|]. discriminate. }
      destruct (IH x' (k + 1) true p1 acc Hx' Hal' Hrem' Hf') as [R P].
      split; [exact R|]. intros p' acc' has' H. destruct (P p' acc' has' H) as [Q1 Q2].
      split; [intros _; apply Q1; left; reflexivity|].
      intros Hw. rewrite Hw in Ew. discriminate Ew. }
    assert (R1 : returns (required_node t tf (ft_index k o)) = true).
    { apply required_node_ret. unfold B55, B58 in *. lia. }
    destruct (required_node t tf (ft_index k o)) as [n| | |]; try discriminate R1; cbn [bind].
    2:{ split; [reflexivity|]. discriminate. }
    destruct (IH x' (k + 1) true p (acc ++ [n]) Hx' Hal' Hrem' Hf') as [R P].
    split; [exact R|]. intros p' acc' has' H. destruct (P p' acc' has' H) as [Q1 Q2].
    split; [intros _; apply Q1; left; reflexivity|exact Q2].
  Qed.
End Prover.

(* ====================================================================================== *)
(* 3. The descents: seeks and byte offsets                                                 *)
(* ====================================================================================== *)

Section Seeks.
  Variables (t : mtree) (tf : file).

  Lemma left_child_at' d o : d <> 0 -> it_left_child (it_at d o) = it_at (d - 1) (2 * o).
  Proof. intros H. replace d with (d - 1 + 1) at 1 by lia. apply it_left_child_at. Qed.

  Lemma anc_left d o D O : anc d o D O -> d <> 0 -> anc (d - 1) (2 * o) D O.
  Proof.
    intros H Hd. apply (anc_child (d - 1) (2 * o) o); [|lia].
    replace (d - 1 + 1) with d by lia. exact H.
  Qed.

  Lemma anc_right d o D O : anc d o D O -> d <> 0 -> anc (d - 1) (2 * o + 1) D O.
  Proof.
    intros H Hd. apply (anc_child (d - 1) (2 * o + 1) o); [|lia].
    replace (d - 1 + 1) with d by lia. exact H.
  Qed.

  Lemma seek_trusted_loop_ret (D O : N) : ft_index D O < B57 ->
    forall fuel d o bytes, anc d o D O -> (N.to_nat d < fuel)%nat ->
    returns (seek_trusted_loop fuel t tf (it_at d o) bytes) = true.
  Proof.
    intros HB. induction fuel as [|f IH]; intros d o bytes Ha Hf; [lia|].
    cbn [seek_trusted_loop]. rewrite it_at_index, ft_index_even.
    destruct (N.eqb_spec d 0) as [E|E]; [reflexivity|].
    rewrite (left_child_at' d o E), it_at_index.
    pose proof (anc_left _ _ _ _ Ha E) as Hl. pose proof (anc_right _ _ _ _ Ha E) as Hr.
    pose proof (anc_index_le _ _ _ _ Hl) as Hle.
    apply returns_bind.
    - apply optional_node_ret. unfold B57, B58 in *. lia.
    - intros [n|] _; [|reflexivity].
      destruct (n_length n =? bytes); [reflexivity|].
      destruct (bytes <? n_length n).
      + apply IH; [exact Hl|lia].
      + rewrite it_sibling_at_even by (rewrite FlatTreeFacts.even_mod; lia).
        apply IH; [exact Hr|lia].
  Qed.

  Lemma seek_trusted_tree_ret root bytes : root < B57 -> returns (seek_trusted_tree t tf root bytes) = true.
  Proof.
    intros HB. unfold seek_trusted_tree. destruct (bytes =? 0); [reflexivity|].
    rewrite it_new_at.
    apply (seek_trusted_loop_ret (ft_depth root) (ft_offset root)).
    - rewrite ft_index_depth_offset. exact HB.
    - apply anc_refl.
    - assert (H : ft_index (ft_depth root) (ft_offset root) < B58)
        by (rewrite ft_index_depth_offset; unfold B57, B58 in *; lia).
      pose proof (depth_small _ _ H). unfold CLIMB. lia.
  Qed.

  Lemma seek_from_head_loop_ret : forall roots bytes head,
    (forall r, In r roots -> r < B57) ->
    returns (seek_from_head_loop t tf roots bytes head) = true.
  Proof.
    induction roots as [|r rest IH]; intros bytes head Hr; cbn [seek_from_head_loop]; [reflexivity|].
    assert (Hb : r < B57) by (apply Hr; left; reflexivity).
    apply returns_bind.
    - apply required_node_ret. unfold B57, B58 in *. lia.
    - intros n _. destruct (bytes =? n_length n); [reflexivity|].
      destruct (n_length n <? bytes).
      + apply IH. intros r' Hin. apply Hr. right. exact Hin.
      + apply seek_trusted_tree_ret, Hb.
  Qed.

  (* the full roots of 2n lie below 2n *)
  Lemma full_roots_lt n r : In r (ft_full_roots (2 * n)) -> r < 2 * n.
  Proof.
    rewrite ft_full_roots_rrl. intros H. apply in_map_iff in H. destruct H as ([d o] & <- & Hin).
    pose proof (tiles_rrl n 0) as T. rewrite p2_0, N.mul_1_r in T.
    destruct (tiles_in _ _ _ (d, o) T Hin) as [_ H2]. cbn [fst snd] in H2.
    unfold idx. cbn [fst snd]. pose proof (ft_index_succ (N.of_nat d) o) as S. fold (p2 d) in S.
    pose proof (p2_pos d). nia.
  Qed.

  Lemma seek_from_head_ret n bytes : 2 * n <= B57 -> returns (seek_from_head t tf (2 * n) bytes) = true.
  Proof.
    intros HB. unfold seek_from_head. apply seek_from_head_loop_ret.
    intros r Hin. apply full_roots_lt in Hin. lia.
  Qed.

  (* offset_descend towards the leaf i inside the span of (d, o) *)
  Lemma offset_descend_ret (D O : N) : ft_index D O < B57 ->
    forall fuel d o i off, anc d o D O -> o * 2 ^ d <= i -> i < (o + 1) * 2 ^ d -> (N.to_nat d < fuel)%nat ->
    returns (offset_descend fuel t tf (it_at d o) (2 * i) off) = true.
  Proof.
    intros HB. induction fuel as [|f IH]; intros d o i off Ha H1 H2 Hf; [lia|].
    cbn [offset_descend]. rewrite it_at_index.
    pose proof (ft_index_succ d o) as S.
    destruct (N.eqb_spec (ft_index d o) (2 * i)) as [E|E]; [reflexivity|].
    assert (Hd : d <> 0).
    { intros ->. rewrite N.pow_0_r in *. lia. }
    assert (E2 : 2 ^ d = 2 * 2 ^ (d - 1)).
    { rewrite <- FlatTreeFacts.pow2_succ. f_equal. lia. }
    pose proof (FlatTreeFacts.pow2_pos (d - 1)) as Pp. set (P := 2 ^ (d - 1)) in *.
    rewrite (left_child_at' d o Hd), it_at_index.
    pose proof (anc_left _ _ _ _ Ha Hd) as Hl. pose proof (anc_right _ _ _ _ Ha Hd) as Hr.
    pose proof (anc_index_le _ _ _ _ Hl) as Hle.
    destruct (N.ltb_spec (2 * i) (ft_index d o)) as [L|L].
    - apply IH; [exact Hl| | |lia]; fold P; nia.
    - apply returns_bind.
      + apply required_node_ret. unfold B57, B58 in *. lia.
      + intros n _. rewrite it_sibling_at_even by (rewrite FlatTreeFacts.even_mod; lia).
        apply IH; [exact Hr| | |lia]; fold P; nia.
  Qed.

  Lemma offset_roots_ret : forall l roots a b i off,
    map n_index roots = map idx l -> tiles l a b -> a <= i -> 2 * b <= B57 ->
    returns (offset_roots t tf roots (2 * i) (2 * a) off) = true.
  Proof.
    induction l as [|[d o] l IH]; intros roots a b i off Hm T Hi HB.
    { destruct roots; [reflexivity|discriminate Hm]. }
    destruct roots as [|r rs]; [discriminate Hm|]. cbn [map] in Hm. injection Hm as Hr Hm.
    unfold idx in Hr. cbn [fst snd] in Hr.
    cbn [tiles fst snd] in T. destruct T as [Ea T]. pose proof (tiles_le _ _ _ T) as Tle.
    pose proof (ft_index_succ (N.of_nat d) o) as S. fold (p2 d) in S. pose proof (p2_pos d) as Pp.
    cbn [offset_roots]. rewrite Hr. unfold sub64.
    destruct (N.leb_spec (2 * a) (ft_index (N.of_nat d) o)) as [L|L]; [|nia]. cbn [bind].
    replace (2 * a + 2 * (ft_index (N.of_nat d) o - 2 * a + 1)) with (2 * ((o + 1) * p2 d)) by nia.
    destruct (N.leb_spec (2 * ((o + 1) * p2 d)) (2 * i)) as [L2|L2].
    - apply (IH rs _ b); [exact Hm|exact T|lia|exact HB].
    - rewrite it_at_new.
      apply (offset_descend_ret (N.of_nat d) o); [nia|apply anc_refl| | |].
      + fold (p2 d). lia.
      + fold (p2 d). lia.
      + assert (H : ft_index (N.of_nat d) o < B58) by (unfold B57, B58 in *; nia).
        pose proof (depth_small _ _ H). unfold CLIMB. lia.
  Qed.

  (* the root list of the tree sits on the full roots of its length *)
  Definition roots_ok (t : mtree) : Prop := map n_index (t_roots t) = ft_full_roots (2 * t_length t).

  Lemma left_span_even i : N.odd i = true -> exists j, ft_left_span i = 2 * j.
  Proof.
    intros Ho. unfold ft_left_span.
    assert (Hd : ft_depth i <> 0).
    { intros E. pose proof (ft_index_even (ft_depth i) (ft_offset i)) as Ev.
      rewrite ft_index_depth_offset, E in Ev. rewrite <- N.negb_odd, Ho in Ev. discriminate Ev. }
    destruct (N.eqb_spec (ft_depth i) 0) as [E|_]; [contradiction|].
    exists (ft_offset i * 2 ^ ft_depth i). rewrite FlatTreeFacts.pow2_succ. lia.
  Qed.

  Lemma byte_offset_from_nodes_ret index :
    roots_ok t -> 2 * t_length t <= B57 -> returns (byte_offset_from_nodes t tf index) = true.
  Proof.
    intros Hr HB. unfold byte_offset_from_nodes.
    assert (Hev : exists j, (if N.odd index then ft_left_span index else index) = 2 * j).
    { destruct (N.odd index) eqn:Ho; [apply left_span_even, Ho|].
      exists (index / 2). rewrite FlatTreeFacts.odd_mod in Ho. lia. }
    destruct Hev as [j ->].
    pose proof (tiles_rrl (t_length t) 0) as T. rewrite p2_0, N.mul_1_r in T.
    change 0 with (2 * 0) at 1.
    apply (offset_roots_ret (rev (rrl 0 (t_length t))) (t_roots t) 0 (t_length t)).
    - rewrite Hr. apply ft_full_roots_rrl.
    - exact T.
    - lia.
    - exact HB.
  Qed.

  Lemma seek_untrusted_tree_ret root bytes :
    roots_ok t -> 2 * t_length t <= B57 -> root < B57 ->
    returns (seek_untrusted_tree t tf root bytes) = true.
  Proof.
    intros Hr HB Hroot. unfold seek_untrusted_tree. apply returns_bind.
    - apply byte_offset_from_nodes_ret; assumption.
    - intros offset _. destruct (bytes <? offset); [reflexivity|].
      destruct (offset =? bytes); [reflexivity|].
      apply returns_bind.
      + apply required_node_ret. unfold B57, B58 in *. lia.
      + intros n _. destruct (n_length n <=? bytes - offset); [reflexivity|].
        apply seek_trusted_tree_ret, Hroot.
  Qed.
End Seeks.

(* ====================================================================================== *)
(* 4. create_valueless_proof                                                               *)
(* ====================================================================================== *)

(* Well-formedness needed of the tree (tree_wf below), and why it is minimal:
     t_length t < 2^40           the bound of the property;
     roots_ok t                  the root list sits on flat-tree's full roots of 2 * length; only read by
                                 byte_offset_from_nodes (seek inside a block / hash sub-tree, and the value
                                 read of core_create_proof); without it: roots_ok_needed_refuted;
     sig_ok t                    a non-empty tree carries a signature; only read when an upgrade section is
                                 answered; without it: sig_ok_needed_refuted.
   No condition on the tree file, on the unflushed map, on node lengths or on t_byte_length: missing or
   blank nodes give errors, and creation performs no checked addition on stored lengths (the model adds
   the lengths of the prover's OWN stored nodes with unbounded arithmetic in offset_descend /
   offset_roots; in the crate these are u64 additions of lengths already covered by the tree's byte
   length).  rb_nodes and rs_bytes may be arbitrary. *)

Lemma seek_from_head_ret' t tf to bytes :
  to mod 2 = 0 -> to <= B57 -> returns (seek_from_head t tf to bytes) = true.
Proof.
  intros He HB. replace to with (2 * (to / 2)) by lia. apply seek_from_head_ret. lia.
Qed.

Lemma LIM_B55 : 8 * LIM + 8 <= B55. Proof. now vm_compute. Qed.

(* nodes_to_root: any node count; the sub-tree root found is small *)
Lemma nodes_to_root_ret index nodes head :
  index < 2 * LIM -> head <= 2 * LIM ->
  returns (nodes_to_root index nodes head) = true /\
  (forall r, nodes_to_root index nodes head = Ok r -> r < B55).
Proof.
  intros Hi Hh. pose proof LIM_B55 as HL. pose proof LIM_pos as HP.
  set (C := 4 * LIM + 2).
  assert (H1 : 2 * index + 2 <= C) by (unfold C; lia).
  assert (H2 : 2 * head + 2 <= C) by (unfold C; lia).
  pose proof (iwf_new index) as Hw. pose proof (inspan_new index) as Hs.
  pose proof (iwf_factor_le _ Hw) as [Hfpos Hfle]. rewrite NoPanic.it_new_index in Hfle.
  destruct (nodes_to_root_loop_spec index head C CLIMB (it_new index) nodes H1 H2 Hw Hs) as [R P].
  { unfold C. lia. }
  { pose proof CLIMB_enough as HC. fold C in HC.
    assert (2 * 2 ^ N.of_nat CLIMB <= it_factor (it_new index) * 2 ^ N.of_nat CLIMB).
    { apply N.mul_le_mono_r. destruct Hw as (h & Hh1 & Hh2 & _). lia. }
    lia. }
  unfold nodes_to_root. split; [exact R|].
  intros r Hr. destruct (P r Hr) as (k & _ & -> & Hf).
  pose proof (inspan_up k (it_new index) index Hw Hs) as Hsp. unfold inspan in Hsp.
  unfold C in Hf. lia.
Qed.

Section Create.
  Variables (t : mtree) (tf : file).

  Lemma it_new_0 : it_new 0 = mkIter 0 (0 / 2) 2.
  Proof. reflexivity. Qed.

  Lemma pow2_56 : 2 ^ 56 = B56. Proof. reflexivity. Qed.

  Lemma upgrade_proof_ret ix is_seek from to sub_tree p :
    to mod 2 = 0 -> to <= B55 -> from < to ->
    returns (upgrade_proof t tf ix is_seek from to sub_tree p) = true /\
    (forall p1, upgrade_proof t tf ix is_seek from to sub_tree p = Ok p1 -> lp_upgrade p1 <> None).
  Proof.
    intros He HB Hft. unfold upgrade_proof. rewrite it_new_0.
    destruct (upgrade_loop_ret t tf from to ix is_seek sub_tree true He HB CLIMB 0 56 (from =? 0) p [])
      as [R P].
    { reflexivity. }
    { apply aligned_0. }
    { rewrite pow2_56. unfold B55, B56 in *. lia. }
    { unfold CLIMB. lia. }
    destruct (upgrade_loop CLIMB t tf (mkIter 0 (0 / 2) 2) from to ix is_seek sub_tree true (from =? 0) p [])
      as [[[p' acc] has]| | |]; try discriminate R; cbn [bind].
    2:{ split; [reflexivity|]. discriminate. }
    split; [reflexivity|]. intros p1 [= <-].
    destruct (P p' acc has eq_refl) as [P1 _].
    destruct P1 as [->|Hc]; [right; lia| |lia]. cbn [lp_upgrade]. discriminate.
  Qed.

  Lemma additional_upgrade_proof_ret from to p :
    to mod 2 = 0 -> to <= B55 ->
    returns (additional_upgrade_proof t tf from to p) = true /\
    (forall p1, additional_upgrade_proof t tf from to p = Ok p1 -> lp_upgrade p1 = lp_upgrade p).
  Proof.
    intros He HB. unfold additional_upgrade_proof. rewrite it_new_0.
    destruct (upgrade_loop_ret t tf from to None false 0 false He HB CLIMB 0 56 (from =? 0) p [])
      as [R P].
    { reflexivity. }
    { apply aligned_0. }
    { rewrite pow2_56. unfold B55, B56 in *. lia. }
    { unfold CLIMB. lia. }
    destruct (upgrade_loop CLIMB t tf (mkIter 0 (0 / 2) 2) from to None false 0 false (from =? 0) p [])
      as [[[p' acc] has]| | |]; try discriminate R; cbn [bind].
    2:{ split; [reflexivity|]. discriminate. }
    split; [reflexivity|]. intros p1 [= <-].
    destruct (P p' acc has eq_refl) as [_ P2]. rewrite (P2 eq_refl).
    destruct has; reflexivity.
  Qed.

  (* ---------- the request and tree conditions ---------- *)

  (* "numeric fields below 2^40": only the block / hash index and the upgrade range are needed;
     the node counts [rb_nodes] and the seek offset [rs_bytes] may be arbitrary *)
  Definition rblock_lim (b : option req_block) : bool :=
    match b with Some b => rb_index b <? LIM | None => true end.
  Definition rupgrade_lim (u : option req_upgrade) : bool :=
    match u with Some u => (ru_start u <? LIM) && (ru_length u <? LIM) | None => true end.

  (* a non-empty tree carries a signature *)
  Definition sig_ok (t : mtree) : Prop := t_length t = 0 \/ t_signature t <> None.

  Definition tree_wf (t : mtree) : Prop := t_length t < LIM /\ roots_ok t /\ sig_ok t.

  Lemma normalize_indexed_ret block hash :
    rblock_lim block = true -> rblock_lim hash = true ->
    returns (normalize_indexed block hash) = true /\
    (forall ix, normalize_indexed block hash = Ok (Some ix) -> ix_index ix < 2 * LIM).
  Proof.
    intros Hb Hh. pose proof LIM_u64 as HU. unfold normalize_indexed.
    destruct block as [b|].
    - cbn [rblock_lim] in Hb. rewrite mul64_ok by lia. cbn [bind]. split; [reflexivity|].
      intros ix [= <-]. cbn [ix_index]. lia.
    - destruct hash as [h|].
      + cbn [rblock_lim] in Hh. split; [reflexivity|]. intros ix [= <-]. cbn [ix_index]. lia.
      + split; [reflexivity|]. discriminate.
  Qed.

  Theorem create_valueless_proof_returns block hash seek upgrade :
    tree_wf t -> rblock_lim block = true -> rblock_lim hash = true -> rupgrade_lim upgrade = true ->
    returns (create_valueless_proof t tf block hash seek upgrade) = true.
  Proof.
    intros (HL & HR & HS) Hb Hh Hu. pose proof LIM_B55 as HLB. pose proof LIM_u64 as HU.
    unfold create_valueless_proof. cbv zeta.
    (* the range *)
    apply returns_bind.
    { destruct upgrade as [u|]; [|reflexivity]. cbn [rupgrade_lim] in Hu.
      rewrite mul64_ok by lia. cbn [bind]. rewrite mul64_ok by lia. cbn [bind].
      rewrite add64_ok by lia. reflexivity. }
    intros [from to] Hft. cbv beta iota.
    assert (Hev : from mod 2 = 0 /\ to mod 2 = 0).
    { destruct upgrade as [u|].
      - cbn [rupgrade_lim] in Hu. rewrite mul64_ok in Hft by lia. cbn [bind] in Hft.
        rewrite mul64_ok in Hft by lia. cbn [bind] in Hft. rewrite add64_ok in Hft by lia.
        cbn [bind] in Hft. injection Hft as <- <-. lia.
      - injection Hft as <- <-. lia. }
    destruct Hev as [Hfe Hte]. clear Hft.
    (* the indexed request *)
    destruct (normalize_indexed_ret block hash Hb Hh) as [RN PN].
    apply returns_bind; [exact RN|]. intros ixo Hixo.
    destruct ((to <=? from) || (2 * t_length t <? to)) eqn:Eg; [reflexivity|].
    apply orb_false_iff in Eg. destruct Eg as [Eg1 Eg2].
    assert (Hft : from < to) by lia. assert (Hth : to <= 2 * t_length t) by lia. clear Eg1 Eg2.
    (* the sub-tree *)
    apply returns_bind.
    { destruct ixo as [ix|]; [|reflexivity].
      specialize (PN ix Hixo).
      destruct (match seek with Some _ => true | None => false end &&
                match upgrade with Some _ => true | None => false end && (from <=? ix_index ix));
        [reflexivity|].
      destruct (match upgrade with Some u => ix_last ix <? ru_start u | None => true end); [|reflexivity].
      destruct (nodes_to_root_ret (ix_index ix) (ix_nodes ix) to PN ltac:(lia)) as [R1 P1].
      apply returns_bind; [exact R1|]. intros sub Hsub. specialize (P1 sub Hsub).
      apply returns_bind.
      { destruct seek as [s|]; [|reflexivity].
        apply seek_untrusted_tree_ret; [exact HR| |]; unfold B55, B57 in *; lia. }
      intros seek_root _. apply returns_bind; [|intros p _; reflexivity].
      apply block_and_seek_proof_ret; [unfold B55, B56 in *; lia|discriminate]. }
    intros [[sub_tree p] untrusted] _. cbv beta iota.
    (* seek from the head *)
    apply returns_bind.
    { destruct (negb untrusted); [|reflexivity]. destruct seek as [s|]; [|reflexivity].
      apply seek_from_head_ret'; [exact Hte|unfold B55, B57 in *; lia]. }
    intros sub_tree' _.
    (* the upgrade *)
    set (E := if match upgrade with Some _ => true | None => false end
              then p1 <- upgrade_proof t tf ixo (match seek with Some _ => true | None => false end)
                           from to sub_tree' p ;;
                   if to <? 2 * t_length t then additional_upgrade_proof t tf to (2 * t_length t) p1 else Ok p1
              else Ok p).
    assert (HE : returns E = true /\ forall pE, E = Ok pE -> upgrade <> None -> lp_upgrade pE <> None).
    { unfold E. destruct upgrade as [u|].
      2:{ split; [reflexivity|]. intros pE _ H. contradiction. }
      destruct (upgrade_proof_ret ixo (match seek with Some _ => true | None => false end) from to sub_tree' p
                  Hte ltac:(lia) Hft) as [R1 P1].
      destruct (upgrade_proof t tf ixo (match seek with Some _ => true | None => false end) from to sub_tree' p)
        as [p1| | |]; try discriminate R1; cbn [bind].
      2:{ split; [reflexivity|]. discriminate. }
      specialize (P1 p1 eq_refl).
      destruct (to <? 2 * t_length t).
      - destruct (additional_upgrade_proof_ret to (2 * t_length t) p1 ltac:(lia) ltac:(lia)) as [R2 P2].
        split; [exact R2|]. intros pE HpE _. rewrite (P2 pE HpE). exact P1.
      - split; [reflexivity|]. intros pE [= <-] _. exact P1. }
    destruct HE as [RE PE]. apply returns_bind; [exact RE|]. intros pE HpE. specialize (PE pE HpE). clear HpE RE. clearbody E.
    (* the sections of the answer *)
    apply returns_bind.
    { destruct block as [b|]; [destruct (lp_nodes pE); reflexivity|].
      destruct hash as [h|]; [destruct (lp_nodes pE); reflexivity|reflexivity]. }
    intros [dblock dhash] _. cbv beta iota.
    apply returns_bind; [|intros dup _; reflexivity].
    destruct upgrade as [u|]; [|reflexivity].
    destruct (lp_upgrade pE) as [ns|]; [|exfalso; apply PE; [discriminate|reflexivity]].
    destruct HS as [H0|Hsig]; [lia|].
    destruct (t_signature t) as [sg|]; [reflexivity|contradiction].
  Qed.
End Create.

(* ====================================================================================== *)
(* 5. core_create_proof (B)                                                                *)
(* ====================================================================================== *)

Lemma byte_range_ret t tf hi :
  roots_ok t -> t_length t < LIM -> hi < LIM -> returns (byte_range t tf hi) = true.
Proof.
  intros HR HL Hh. pose proof LIM_B55 as HLB. pose proof LIM_u64 as HU.
  unfold byte_range, validate_hypercore_index. rewrite mul64_ok by lia. cbn [bind].
  destruct (N.leb_spec (2 * t_length t) (2 * hi)) as [L|L]; [reflexivity|]. cbn [bind].
  apply returns_bind.
  - apply required_node_ret. unfold B55, B58 in *. lia.
  - intros n _. apply returns_bind; [|intros off _; reflexivity].
    apply byte_offset_from_nodes_ret; [exact HR|]. unfold B55, B57 in *. lia.
Qed.

Lemma core_get_ret i c w :
  roots_ok (c_tree c) -> t_length (c_tree c) < LIM -> i < LIM ->
  returns (snd (core_get i c w)) = true.
Proof.
  intros HR HL Hi. unfold core_get. rewrite mbind_get_core.
  destruct (bf_get (c_bitfield c) i); cbn [negb].
  - rewrite mbind_get_disk, mbind_lift.
    pose proof (byte_range_ret (c_tree c) (d_tree (w_disk w)) i HR HL Hi) as R.
    destruct (byte_range (c_tree c) (d_tree (w_disk w)) i) as [[off l]| | |]; try discriminate R;
      [|reflexivity].
    destruct (l =? 0); [reflexivity|].
    destruct (f_read (d_data (w_disk w)) off l); reflexivity.
  - rewrite mbind_send. reflexivity.
Qed.

(* (B): whatever the request, create_proof returns a value or an error, and core, disk and journal
   are left as they were (only the Get event of the internal read may be sent: create_proof_events) *)
Theorem core_create_proof_returns block hash seek upgrade c w c' w' r :
  tree_wf (c_tree c) -> rblock_lim block = true -> rblock_lim hash = true -> rupgrade_lim upgrade = true ->
  core_create_proof block hash seek upgrade c w = (c', w', r) ->
  returns r = true /\ c' = c /\ w_disk w' = w_disk w /\ w_journal w' = w_journal w.
Proof.
  intros Hwf Hb Hh Hu H. split; [|exact (core_create_proof_quiet _ _ _ _ _ _ _ _ _ H)].
  pose proof (create_valueless_proof_returns (c_tree c) (d_tree (w_disk w)) block hash seek upgrade Hwf Hb Hh Hu) as R.
  destruct Hwf as (HL & HR & _).
  revert H. unfold core_create_proof. rewrite mbind_get_core, mbind_get_disk, mbind_lift.
  destruct (create_valueless_proof (c_tree c) (d_tree (w_disk w)) block hash seek upgrade) as [vp| | |] eqn:E;
    try discriminate R; [|intros [= _ _ <-]; reflexivity].
  destruct (vp_block vp) as [b|] eqn:Eb.
  - destruct (create_proof_no_fabrication _ _ _ _ _ _ _ E) as (_ & _ & Hblk & _).
    destruct (Hblk b Eb) as (rb & -> & Hidx). cbn [rblock_lim] in Hb.
    pose proof (core_get_ret (dh_index b) c w HR HL ltac:(lia)) as RG.
    unfold mbind. destruct (core_get (dh_index b) c w) as [[c1 w1] [v| | |]]; cbn [snd] in RG;
      try discriminate RG.
    + destruct v as [value|]; intros [= _ _ <-]; reflexivity.
    + intros [= _ _ <-]. reflexivity.
  - intros [= _ _ <-]. reflexivity.
Qed.

(* ====================================================================================== *)
(* 6. The well-formedness condition holds for the trees of the refinement invariants       *)
(* ====================================================================================== *)

(* the tree invariant shared by Refine.WInv / ClearRefine.CInv / Reopen.DInv gives the shape part *)
Lemma TInv_tree_shape cr t tf bs :
  TInv cr t tf bs -> N.of_nat (length bs) < LIM -> t_length t < LIM /\ roots_ok t.
Proof.
  intros (HL & _ & _ & HR & _) Hn. split; [rewrite HL; exact Hn|].
  unfold roots_ok. rewrite HR, HL. apply ref_roots_indices.
Qed.

Lemma WInv_tree_shape cr c d bs :
  WInv cr c d bs -> N.of_nat (length bs) < LIM -> t_length (c_tree c) < LIM /\ roots_ok (c_tree c).
Proof.
  intros (HL & _ & _ & HR & _) Hn. split; [rewrite HL; exact Hn|].
  unfold roots_ok. rewrite HR, HL. apply ref_roots_indices.
Qed.

(* the signature part is an invariant of every operation that changes the tree *)
Lemma sig_ok_empty : sig_ok empty_tree.
Proof. left. reflexivity. Qed.

Lemma sig_ok_commit t c t' :
  sig_ok t -> tree_commit t c = Ok t' -> (cs_upgraded c = true -> cs_signature c <> None) -> sig_ok t'.
Proof.
  intros Hs H Hc. unfold tree_commit in H.
  destruct (negb (commitable t c)); [discriminate H|].
  destruct (cs_upgraded c).
  - destruct (cs_ancestors c <? cs_orig_length c); [discriminate H|]. injection H as <-.
    right. cbn [t_signature]. apply Hc. reflexivity.
  - injection H as <-. exact Hs.
Qed.

Lemma sig_ok_flush t t' ops : sig_ok t -> tree_flush t = Ok (t', ops) -> sig_ok t'.
Proof.
  intros Hs H. unfold tree_flush in H.
  destruct (forallb (fun kv => Nat.eqb (length (n_hash (snd kv))) 32) (nm_elements (t_unflushed t)));
    [|discriminate H].
  injection H as <- _. exact Hs.
Qed.

Lemma sig_ok_add_node t n : sig_ok t -> sig_ok (tree_add_node t n).
Proof. intros H. exact H. Qed.

Lemma sig_ok_open ht tf t : tree_open ht tf = Ok t -> ht_signature ht <> [] -> sig_ok t.
Proof.
  intros H Hne. unfold tree_open in H.
  apply bind_ok in H. destruct H as ([[roots bl] l2] & _ & H).
  apply bind_ok in H. destruct H as (sg & Hsg & H). injection H as <-.
  right. cbn [t_signature]. destruct (ht_signature ht) as [|s0 s]; [contradiction|].
  apply bind_ok in Hsg. destruct Hsg as (s' & _ & Hsg). injection Hsg as <-. discriminate.
Qed.

Section SigOk.
  Variable cr : crypto.

  Lemma cs_hash_and_sign_signed c sk : cs_signature (cs_hash_and_sign cr c sk) <> None.
  Proof. unfold cs_hash_and_sign, cs_set_hash_sig. cbn [cs_signature]. discriminate. Qed.

  Lemma cs_verify_and_set_signature_signed c sg pk c' :
    cs_verify_and_set_signature cr c sg pk = Ok c' -> cs_signature c' <> None.
  Proof.
    unfold cs_verify_and_set_signature. intros H. apply bind_ok in H. destruct H as (s & _ & H).
    destruct (cr_verify cr pk (cs_signable c (cs_tree_hash cr c)) s); [|discriminate H].
    injection H as <-. unfold cs_set_hash_sig. cbn [cs_signature]. discriminate.
  Qed.

  (* a verified changeset that changes the length is signed *)
  Lemma verify_proof_signed t tf pf pk cs :
    verify_proof cr t tf pf pk = Ok cs -> cs_upgraded cs = true -> cs_signature cs <> None.
  Proof.
    unfold verify_proof. intros H. apply bind_ok in H. destruct H as ([root c1] & Hv & H).
    apply verify_tree_frame in Hv. destruct Hv as (_ & _ & _ & _ & _ & _ & _ & F8 & F9 & _).
    cbn [tree_changeset cs_signature cs_upgraded] in F8, F9.
    apply bind_ok in H. destruct H as ([root2 c2] & Hu & H).
    assert (Hc2 : cs_upgraded c2 = true -> cs_signature c2 <> None).
    { destruct (p_upgrade pf) as [u|].
      - apply bind_ok in Hu. destruct Hu as ([consumed c'] & Hvu & Hu). injection Hu as _ <-.
        intros _. unfold verify_upgrade in Hvu.
        apply bind_ok in Hvu. destruct Hvu as (sl & _ & Hvu).
        apply bind_ok in Hvu. destruct Hvu as (to & _ & Hvu).
        apply bind_ok in Hvu. destruct Hvu as ([[c1' q1] it1] & _ & Hvu).
        apply bind_ok in Hvu. destruct Hvu as (li & _ & Hvu).
        apply bind_ok in Hvu. destruct Hvu as ([[c2' it2] rest] & _ & Hvu).
        apply bind_ok in Hvu. destruct Hvu as ([c3 it3] & _ & Hvu).
        apply bind_ok in Hvu. destruct Hvu as (c4 & H4 & Hvu). injection Hvu as _ <-.
        apply (cs_verify_and_set_signature_signed _ _ _ _ H4).
      - injection Hu as _ <-. rewrite F9. discriminate. }
    destruct root2 as [r|].
    - apply bind_ok in H. destruct H as (n & _ & H).
      destruct (bytes_eqb (n_hash n) (n_hash r)); [|discriminate H]. injection H as <-. exact Hc2.
    - injection H as <-. exact Hc2.
  Qed.

  (* the two ways Core changes the tree: a signed append, a verified proof *)
  Corollary sig_ok_append t c sk t' :
    sig_ok t -> tree_commit t (cs_hash_and_sign cr c sk) = Ok t' -> sig_ok t'.
  Proof. intros Hs H. apply (sig_ok_commit t _ t' Hs H). intros _. apply cs_hash_and_sign_signed. Qed.

  Corollary sig_ok_apply t tf pf pk cs t' :
    sig_ok t -> verify_proof cr t tf pf pk = Ok cs -> tree_commit t cs = Ok t' -> sig_ok t'.
  Proof. intros Hs Hv H. apply (sig_ok_commit t cs t' Hs H). apply (verify_proof_signed _ _ _ _ _ Hv). Qed.
End SigOk.

(* ====================================================================================== *)
(* 7. The verifier's upgrade loops never run out of fuel (C)                                *)
(* ====================================================================================== *)

(* About the fixed fuel of Merkle.grow_loop (DESIGN remark): the crate's loop is bounded by the length
   of the node list, the model's by CLIMB = 130.  OutOfFuel is NOT reachable in the model through a
   long hostile list: every round of grow_loop needs a queued node whose index is the sibling position
   (below 2^42 here), and every round merges at least once, i.e. climbs at least one level
   (append_root_at, clause "1 <= m"), because the last root always sits at the iterator position
   (invariant last_is).  So at most 43 rounds are ever executed (grow_loop_fuel: fuel 45 - depth is
   enough), whatever the number of queued nodes; the same counting bounds upgrade_roots_loop (one round
   per full root of 2 * (start + length) < 2^42: the exponent a of upgrade_roots_loop_fuel decreases)
   and descend_to in extra_rest (every root of the changeset keeps an index below 2^42, a parent lying
   between its children: parent_lt_child).  No change of the fuel in Merkle.v is needed. *)

Definition BND : N := 4 * LIM.
Lemma BND_pow : BND = 2 ^ 42. Proof. reflexivity. Qed.

Lemma depth_BND d o : ft_index d o < BND -> d <= 42.
Proof.
  intros H. pose proof (depth_le_index d o) as L. apply pow2_le_inv. rewrite <- BND_pow. lia.
Qed.

Lemma sibling_at2 d o : exists o', it_sibling (it_at d o) = it_at d o' /\ o' / 2 = o / 2 /\ o' <> o.
Proof.
  destruct (FlatTreeFacts.parity o) as [(E & Od & q & Hq)|(E & Od & q & Hq)].
  - exists (o + 1). split; [apply it_sibling_at_even, E | lia].
  - exists (o - 1). split; [apply it_sibling_at_odd, Od | lia].
Qed.

(* the parent sits strictly between its two children *)
Lemma parent_lt_child d o o' : o' / 2 = o / 2 -> o' <> o ->
  ft_index (d + 1) (o / 2) < ft_index d o \/ ft_index (d + 1) (o / 2) < ft_index d o'.
Proof.
  intros H1 H2. pose proof (ft_index_succ (d + 1) (o / 2)) as S1.
  pose proof (ft_index_succ d o) as S2. pose proof (ft_index_succ d o') as S3.
  rewrite FlatTreeFacts.pow2_succ in S1. pose proof (FlatTreeFacts.pow2_pos d) as P.
  set (Q := 2 ^ d) in *.
  assert (Hc : (o = 2 * (o / 2) /\ o' = 2 * (o / 2) + 1) \/ (o = 2 * (o / 2) + 1 /\ o' = 2 * (o / 2))) by lia.
  set (q := o / 2) in *. clearbody q.
  destruct Hc as [[-> ->]|[-> ->]]; [right|left]; nia.
Qed.

Lemma div_pow_add o (a b : N) : o / 2 ^ a / 2 ^ b = o / 2 ^ (a + b).
Proof.
  rewrite N.div_div by (apply N.pow_nonzero; discriminate). rewrite <- N.pow_add_r. reflexivity.
Qed.

Lemma it_at_0 d o : it_at (d + N.of_nat 0) (o / 2 ^ N.of_nat 0) = it_at d o.
Proof. change (N.of_nat 0) with 0. rewrite N.add_0_r, N.pow_0_r, N.div_1_r. reflexivity. Qed.

Lemma it_at_S d o (m : nat) :
  it_at (d + 1 + N.of_nat m) (o / 2 / 2 ^ N.of_nat m) = it_at (d + N.of_nat (S m)) (o / 2 ^ N.of_nat (S m)).
Proof.
  rewrite Nat2N.inj_succ, <- N.add_1_l. f_equal; [lia|].
  change (o / 2) with (o / 2 ^ 1) at 1. rewrite <- (N.pow_1_r 2) at 1. apply div_pow_add.
Qed.

Section VerifierFuel.
  Variable cr : crypto.

  Definition idx_lt (l : list node) : Prop := Forall (fun r => n_index r < BND) l.
  Definition roots_lt (c : changeset) : Prop := idx_lt (cs_roots c).
  Definition last_is (c : changeset) (i : N) : Prop :=
    exists b rest, rev (cs_roots c) = b :: rest /\ n_index b = i.
  Definition q_lt (q : nodeq) : Prop :=
    idx_lt (q_nodes q) /\ (forall e, q_extra q = Some e -> n_index e < BND).

  Lemma idx_lt_rev l : idx_lt l -> idx_lt (rev l).
  Proof. unfold idx_lt. intros H. apply Forall_rev, H. Qed.

  Lemma last_is_lt c i : roots_lt c -> last_is c i -> i < BND.
  Proof.
    intros Hr (b & rest & E & <-). apply idx_lt_rev in Hr. rewrite E in Hr.
    inversion Hr; assumption.
  Qed.

  Lemma q_shift_lt q i n q' : q_lt q -> q_shift q i = Ok (n, q') -> q_lt q' /\ n_index n = i /\ i < BND.
  Proof.
    intros [Hn He] H. apply q_shift_ok in H. destruct H as (Hi & _ & _ & Hcase).
    destruct Hcase as [(Hx & Hq & Hx')|(Hq & Hx')].
    - split; [|split; [exact Hi|rewrite <- Hi; apply He, Hx]].
      split; [rewrite Hq; exact Hn|]. intros e E. rewrite Hx' in E. discriminate E.
    - unfold idx_lt in Hn. rewrite Hq in Hn. inversion Hn as [|? ? Hn1 Hn2]; subst.
      split; [|split; [reflexivity|exact Hn1]].
      split; [exact Hn2|]. intros e E. apply He. rewrite <- Hx'. exact E.
  Qed.

  (* merge_roots climbs along the iterator: it ends m levels higher, the merged node sitting at the
     final position; it merges at least once when the second root is the sibling *)
  Lemma merge_roots_at : forall fuel rroots nr d o rr nr' it',
    merge_roots cr fuel rroots nr (it_at d o) = Ok (rr, nr', it') ->
    (forall a rest, rroots = a :: rest -> n_index a = ft_index d o) ->
    idx_lt rroots ->
    exists m : nat, it' = it_at (d + N.of_nat m) (o / 2 ^ N.of_nat m) /\ idx_lt rr /\
      (rroots <> [] -> exists a' rest', rr = a' :: rest' /\ n_index a' = it_index it') /\
      (forall a b rest, rroots = a :: b :: rest -> n_index b = it_index (it_sibling (it_at d o)) -> (1 <= m)%nat).
  Proof.
    induction fuel as [|f IH]; intros rroots nr d o rr nr' it' H Hhead Hlt; [discriminate H|].
    assert (Hstop : (rroots, nr, it_at d o) = (rr, nr', it') ->
      (forall a b rest, rroots = a :: b :: rest -> n_index b <> it_index (it_sibling (it_at d o))) ->
      exists m : nat, it' = it_at (d + N.of_nat m) (o / 2 ^ N.of_nat m) /\ idx_lt rr /\
        (rroots <> [] -> exists a' rest', rr = a' :: rest' /\ n_index a' = it_index it') /\
        (forall a b rest, rroots = a :: b :: rest -> n_index b = it_index (it_sibling (it_at d o)) -> (1 <= m)%nat)).
    { intros [= <- <- <-] Hne. exists 0%nat. split; [symmetry; apply it_at_0|]. split; [exact Hlt|]. split.
      - intros Hn. destruct rroots as [|a rest]; [contradiction|]. exists a, rest. split; [reflexivity|].
        apply (Hhead a rest eq_refl).
      - intros a b rest E Hb. exfalso. apply (Hne a b rest E Hb). }
    cbn [merge_roots] in H. destruct rroots as [|a [|b rest]].
    - apply Hstop; [injection H as <- <- <-; reflexivity|]. intros; discriminate.
    - apply Hstop; [injection H as <- <- <-; reflexivity|]. intros; discriminate.
    - destruct (N.eqb_spec (it_index (it_sibling (it_at d o))) (n_index b)) as [Eb|Eb]; cbn [negb] in H.
      2:{ apply Hstop; [injection H as <- <- <-; reflexivity|].
          intros a0 b0 rest0 [= -> -> ->] Hb. apply Eb. symmetry. exact Hb. }
      apply bind_ok in H. destruct H as (l & _ & H).
      destruct (sibling_at2 d o) as (o' & Es & Eo & Eno).
      rewrite Es, it_parent_at, Eo in H. rewrite Es, it_at_index in Eb.
      pose proof (Hhead a _ eq_refl) as Ha.
      inversion Hlt as [|? ? La Lt1]; subst. inversion Lt1 as [|? ? Lb Lrest]; subst.
      assert (Hp : ft_index (d + 1) (o / 2) < BND).
      { destruct (parent_lt_child d o o' Eo Eno); lia. }
      apply IH in H.
      + destruct H as (m & -> & Hrr & Hne & _). exists (S m). split; [apply it_at_S|]. split; [exact Hrr|]. split.
        * intros _. apply Hne. discriminate.
        * intros; lia.
      + intros a0 rest0 [= <- _]. reflexivity.
      + constructor; [exact Hp|exact Lrest].
  Qed.

  Lemma append_root_at c n d o c' it' :
    append_root cr c n (it_at d o) = Ok (c', it') -> n_index n = ft_index d o -> n_index n < BND -> roots_lt c ->
    exists m : nat, it' = it_at (d + N.of_nat m) (o / 2 ^ N.of_nat m) /\ roots_lt c' /\
      last_is c' (it_index it') /\
      (last_is c (it_index (it_sibling (it_at d o))) -> (1 <= m)%nat).
  Proof.
    intros H Hn Hlt Hr. unfold append_root in H.
    apply bind_ok in H. destruct H as (bl & _ & H).
    apply bind_ok in H. destruct H as ([[rr nr] it1] & Hm & H). injection H as <- <-.
    apply merge_roots_at in Hm.
    - destruct Hm as (m & -> & Hrr & Hne & Hone). exists m. split; [reflexivity|].
      unfold roots_lt, last_is. cbn [cs_roots]. split; [apply idx_lt_rev, Hrr|]. split.
      + destruct (Hne ltac:(discriminate)) as (a' & rest' & -> & Ha'). exists a', rest'.
        rewrite rev_involutive. split; [reflexivity|exact Ha'].
      + intros (b & rest & E & Hb). destruct (rev (cs_roots c)) as [|b0 rest0]; [discriminate E|].
        injection E as -> ->. apply (Hone n b rest eq_refl Hb).
    - intros a rest [= <- _]. exact Hn.
    - constructor; [exact Hlt|apply idx_lt_rev, Hr].
  Qed.

  (* grow_loop: every round climbs at least one level and needs a queued node at the sibling position,
     whose index is below 2^42: at most 43 rounds, whatever the length of the queue *)
  Lemma grow_loop_fuel ri : forall fuel c q d o,
    q_lt q -> roots_lt c -> last_is c (ft_index d o) -> (N.to_nat (44 - d) < fuel)%nat ->
    grow_loop cr fuel c q (it_at d o) ri <> OutOfFuel /\
    (forall c' q' it', grow_loop cr fuel c q (it_at d o) ri = Ok (c', q', it') ->
       q_lt q' /\ roots_lt c' /\ exists d' o', it' = it_at d' o').
  Proof.
    induction fuel as [|f IH]; intros c q d o Hq Hr Hl Hf; [lia|].
    cbn [grow_loop]. rewrite it_at_index.
    destruct (ft_index d o =? ri).
    { split; [discriminate|]. intros c' q' it' [= <- <- <-]. split; [exact Hq|]. split; [exact Hr|]. eauto. }
    destruct (sibling_at2 d o) as (o' & Es & Eo & Eno). rewrite Es, it_at_index.
    destruct (q_shift q (ft_index d o')) as [[n q1]| | |] eqn:Eq; cbn [bind];
      try (split; [discriminate|intros; discriminate]).
    2:{ exfalso. pose proof (q_shift_returns q (ft_index d o')) as R. rewrite Eq in R. discriminate R. }
    destruct (q_shift_lt _ _ _ _ Hq Eq) as (Hq1 & Hn & Hlt).
    pose proof (depth_BND _ _ Hlt) as Hd.
    destruct (append_root cr c n (it_at d o')) as [[c1 it1]| | |] eqn:Ea; cbn [bind];
      try (split; [discriminate|intros; discriminate]).
    2:{ exfalso. destruct (append_root_spec cr c n (it_at d o')) as (A1 & _). apply A1. exact Ea. }
    apply append_root_at in Ea; [|exact Hn|lia|exact Hr].
    destruct Ea as (m & -> & Hr1 & Hl1 & Hone).
    assert (Hm : (1 <= m)%nat).
    { apply Hone. rewrite <- Es, (it_sibling_involutive _ (wf_at d o)), it_at_index. exact Hl. }
    rewrite it_at_index in Hl1.
    apply IH; [exact Hq1|exact Hr1|exact Hl1|lia].
  Qed.

  (* ---------- the full-root iteration, with the exact iterator ---------- *)

  Lemma it_full_root_loop_offset (to y : N) fuel : forall it h,
    it_factor it = 2 * h -> 0 < h -> it_offset it = y / h ->
    exists h', it_factor (it_full_root_loop fuel it to) = 2 * h' /\ 0 < h' /\
               it_offset (it_full_root_loop fuel it to) = y / h'.
  Proof.
    induction fuel as [|f IH]; intros it h Hf Hh Ho; cbn [it_full_root_loop]; [eauto|].
    destruct (it_index it + it_factor it + it_factor it / 2 <? to); [|eauto].
    apply (IH _ (2 * h)); cbn [it_factor it_offset]; [lia|lia|].
    rewrite Ho, N.div_div by lia. f_equal. lia.
  Qed.

  Lemma full_root_at_eq (x to a : N) found it1 :
    x mod 2 = 0 -> to mod 2 = 0 -> aligned x a -> to - x < 2 ^ a ->
    it_full_root (mkIter x (x / 2) 2) to = (found, it1) ->
    (found = false /\ to <= x) \/
    (found = true /\ x < to /\ exists k o, k + 1 < a /\ it1 = it_at k o /\
       (o + 1) * 2 ^ (k + 1) <= to /\ to - (o + 1) * 2 ^ (k + 1) < 2 ^ (k + 1) /\ ft_index k o < to).
  Proof.
    intros Hx Hto Hal Hrem Efr.
    destruct (full_root_at x to a found it1 Hx Hto Hal Hrem Efr)
      as [(-> & Hge)|(-> & Hlt & k & o & Hka & Hi & Hfa & Hhalf & Hend & Hfit & Hx' & Hal' & Hrem' & Hnext)].
    { left. split; [reflexivity|exact Hge]. }
    right. split; [reflexivity|]. split; [exact Hlt|]. exists k, o. split; [exact Hka|].
    assert (E2 : 2 ^ (k + 1) = 2 * 2 ^ k) by apply FlatTreeFacts.pow2_succ.
    pose proof (FlatTreeFacts.pow2_pos k) as P0.
    assert (Hxo : x = o * 2 ^ (k + 1)).
    { unfold ft_index in Hend. lia. }
    assert (Hoff : it_offset it1 = o).
    { unfold it_full_root in Efr. cbn [it_index] in Efr.
      destruct ((to <=? x) || N.odd x); [discriminate Efr|]. injection Efr as <-.
      destruct (it_full_root_loop_offset to (x / 2) (N.size_nat to) (mkIter x (x / 2) 2) 1)
        as (h' & F1 & F2 & F3); cbn [it_factor it_offset]; [lia|lia|symmetry; apply N.div_1_r|].
      rewrite F3. rewrite Hfa in F1. assert (h' = 2 ^ k) as -> by lia.
      rewrite Hxo, E2. replace (o * (2 * 2 ^ k) / 2) with (o * 2 ^ k) by lia.
      apply N.div_mul. lia. }
    split.
    { destruct it1 as [i1 o1 f1]. cbn [it_index it_offset it_factor] in *. subst. reflexivity. }
    assert (Ey : (o + 1) * 2 ^ (k + 1) = x + 2 ^ (k + 1)) by lia.
    rewrite Ey. split; [lia|]. split; [lia|]. lia.
  Qed.

  Lemma next_tree_at d o :
    it_next_tree (it_at d o) = mkIter ((o + 1) * 2 ^ (d + 1)) ((o + 1) * 2 ^ (d + 1) / 2) 2.
  Proof.
    unfold it_next_tree, it_at. cbn [it_index it_factor].
    assert (E2 : 2 ^ (d + 1) = 2 * 2 ^ d) by apply FlatTreeFacts.pow2_succ.
    pose proof (FlatTreeFacts.pow2_pos d) as P0.
    replace (ft_index d o + 2 ^ (d + 1) / 2 + 1) with ((o + 1) * 2 ^ (d + 1)); [reflexivity|].
    unfold ft_index. rewrite E2. replace (2 * 2 ^ d / 2) with (2 ^ d) by lia. lia.
  Qed.

  (* where the iteration stands after the root (k, o) has been merged m levels up *)
  Lemma next_after_merge (k o to : N) (m : nat) :
    (o + 1) * 2 ^ (k + 1) <= to -> to - (o + 1) * 2 ^ (k + 1) < 2 ^ (k + 1) ->
    let X := (o / 2 ^ N.of_nat m + 1) * 2 ^ (k + N.of_nat m + 1) in
    X mod 2 = 0 /\ aligned X (k + 1) /\ to - X < 2 ^ (k + 1).
  Proof.
    intros H1 H2 X.
    assert (EX : X = (o / 2 ^ N.of_nat m + 1) * 2 ^ N.of_nat m * 2 ^ (k + 1)).
    { unfold X. replace (k + N.of_nat m + 1) with (N.of_nat m + (k + 1)) by lia. rewrite N.pow_add_r. ring. }
    pose proof (FlatTreeFacts.pow2_pos (N.of_nat m)) as PM.
    assert (Hge : o + 1 <= (o / 2 ^ N.of_nat m + 1) * 2 ^ N.of_nat m).
    { pose proof (N.div_mod o (2 ^ N.of_nat m) ltac:(lia)) as Dm.
      pose proof (N.mod_upper_bound o (2 ^ N.of_nat m) ltac:(lia)) as Um.
      set (M := 2 ^ N.of_nat m) in *. set (q := o / M) in *. set (r := o mod M) in *. clearbody q r M. nia. }
    set (Y := (o / 2 ^ N.of_nat m + 1) * 2 ^ N.of_nat m) in *. clearbody Y. clearbody X. subst X.
    assert (E2 : 2 ^ (k + 1) = 2 * 2 ^ k) by apply FlatTreeFacts.pow2_succ.
    pose proof (FlatTreeFacts.pow2_pos k) as P0.
    split; [rewrite E2; replace (Y * (2 * 2 ^ k)) with (2 * (Y * 2 ^ k)) by lia; lia|].
    split; [apply aligned_mul|].
    assert ((o + 1) * 2 ^ (k + 1) <= Y * 2 ^ (k + 1)) by (apply N.mul_le_mono_r; exact Hge).
    lia.
  Qed.

  Lemma aligned_weaken x a b : aligned x a -> b <= a -> aligned x b.
  Proof.
    intros H Hb. destruct (aligned_down x a b Hb H) as [o ->]. apply aligned_mul.
  Qed.

  (* upgrade_roots_loop: each round handles one full root of [to]; the exponent a strictly decreases *)
  Lemma upgrade_roots_loop_fuel (to : N) : to mod 2 = 0 ->
    forall fuel c q x a i (grow : bool),
    q_lt q -> roots_lt c -> x mod 2 = 0 -> aligned x a -> to - x < 2 ^ a -> (N.to_nat a < fuel)%nat ->
    upgrade_roots_loop cr fuel c q (mkIter x (x / 2) 2) to i grow <> OutOfFuel /\
    (forall c' q' it', upgrade_roots_loop cr fuel c q (mkIter x (x / 2) 2) to i grow = Ok (c', q', it') ->
       roots_lt c').
  Proof.
    intros Hto. induction fuel as [|f IH]; intros c q x a i grow Hq Hr Hx Hal Hrem Hf; [lia|].
    cbn [upgrade_roots_loop].
    destruct (it_full_root (mkIter x (x / 2) 2) to) as [found it1] eqn:Efr.
    destruct (full_root_at_eq x to a found it1 Hx Hto Hal Hrem Efr)
      as [(-> & Hge)|(-> & Hlt & k & o & Hka & -> & Hfit & Hrem' & Hidx)].
    { cbn [negb]. split; [discriminate|]. intros c' q' it' [= <- <- <-]. exact Hr. }
    cbn [negb]. rewrite it_at_index. clear Efr.
    assert (Hf' : (N.to_nat (k + 1) < f)%nat) by lia.
    (* continuing after an iterator m levels above (k, o) *)
    assert (Hcont : forall (m : nat) c1 q1 i1 g1, q_lt q1 -> roots_lt c1 ->
      upgrade_roots_loop cr f c1 q1 (it_next_tree (it_at (k + N.of_nat m) (o / 2 ^ N.of_nat m))) to i1 g1 <> OutOfFuel /\
      (forall c' q' it', upgrade_roots_loop cr f c1 q1 (it_next_tree (it_at (k + N.of_nat m) (o / 2 ^ N.of_nat m))) to i1 g1
                         = Ok (c', q', it') -> roots_lt c')).
    { intros m c1 q1 i1 g1 Hq1 Hr1. rewrite next_tree_at.
      destruct (next_after_merge k o to m Hfit Hrem') as (X1 & X2 & X3).
      apply (IH c1 q1 _ (k + 1)); assumption. }
    (* the append continuation *)
    assert (Happ :
      ('(n, q') <- q_shift q (ft_index k o) ;;
       '(c', it') <- append_root cr c n (it_at k o) ;;
       upgrade_roots_loop cr f c' q' (it_next_tree it') to i false) <> OutOfFuel /\
      (forall c' q' it',
        ('(n, q') <- q_shift q (ft_index k o) ;;
         '(c', it') <- append_root cr c n (it_at k o) ;;
         upgrade_roots_loop cr f c' q' (it_next_tree it') to i false) = Ok (c', q', it') -> roots_lt c')).
    { destruct (q_shift q (ft_index k o)) as [[n q1]| | |] eqn:Eq; cbn [bind];
        try (split; [discriminate|intros; discriminate]).
      2:{ exfalso. pose proof (q_shift_returns q (ft_index k o)) as R. rewrite Eq in R. discriminate R. }
      destruct (q_shift_lt _ _ _ _ Hq Eq) as (Hq1 & Hn & Hlt').
      destruct (append_root cr c n (it_at k o)) as [[c1 it2]| | |] eqn:Ea; cbn [bind];
        try (split; [discriminate|intros; discriminate]).
      2:{ exfalso. destruct (append_root_spec cr c n (it_at k o)) as (A1 & _). apply A1. exact Ea. }
      apply append_root_at in Ea; [|exact Hn|lia|exact Hr].
      destruct Ea as (m & -> & Hr1 & _ & _). apply Hcont; assumption. }
    destruct (nth_error (cs_roots c) i) as [r|]; [|exact Happ].
    destruct (n_index r =? ft_index k o).
    { rewrite <- (it_at_0 k o). apply Hcont; assumption. }
    destruct grow; [|exact Happ].
    unfold last_root_index. destruct (rev (cs_roots c)) as [|lr rest] eqn:Erev; cbn [bind].
    { split; [discriminate|intros; discriminate]. }
    rewrite it_new_at.
    destruct (grow_loop_fuel (ft_index k o) CLIMB c q (ft_depth (n_index lr)) (ft_offset (n_index lr)) Hq Hr)
      as [G1 G2].
    { exists lr, rest. split; [exact Erev|]. symmetry. apply ft_index_depth_offset. }
    { unfold CLIMB. lia. }
    pose proof (grow_loop_spec cr CLIMB c q (it_at (ft_depth (n_index lr)) (ft_offset (n_index lr))) (ft_index k o))
      as (_ & _ & G3).
    destruct (grow_loop cr CLIMB c q (it_at (ft_depth (n_index lr)) (ft_offset (n_index lr))) (ft_index k o))
      as [[[c1 q1] it2]| | |] eqn:Eg; cbn [bind]; try (split; [discriminate|intros; discriminate]).
    2:{ exfalso. apply G1. reflexivity. }
    destruct (G2 c1 q1 it2 eq_refl) as (Hq1 & Hr1 & d2 & o2 & ->).
    destruct (G3 c1 q1 _ eq_refl) as (_ & _ & _ & _ & Hi2).
    rewrite it_at_index in Hi2. apply ft_index_inj in Hi2. destruct Hi2 as [-> ->].
    rewrite <- (it_at_0 k o). apply Hcont; assumption.
  Qed.

  (* ---------- the additional nodes ---------- *)

  Lemma append_root_not_oof c n it : append_root cr c n it <> OutOfFuel.
  Proof. destruct (append_root_spec cr c n it) as (A1 & _). exact A1. Qed.

  Lemma extra_siblings_shape : forall extra c d o c' it' rest,
    roots_lt c -> idx_lt extra -> last_is c (ft_index d o) ->
    extra_siblings cr c (it_at d o) extra = Ok (c', it', rest) ->
    roots_lt c' /\ idx_lt rest /\ exists d' o', it' = it_at d' o' /\ d' <= 42.
  Proof.
    induction extra as [|n r IH]; intros c d o c' it' rest Hr Hx Hl H; cbn [extra_siblings] in H.
    - injection H as <- <- <-. split; [exact Hr|]. split; [constructor|]. exists d, o. split; [reflexivity|].
      apply (depth_BND d o). apply (last_is_lt c _ Hr Hl).
    - destruct (sibling_at2 d o) as (o' & Es & Eo & Eno). rewrite Es, it_at_index in H.
      inversion Hx as [|? ? Hn Hx']; subst.
      destruct (N.eqb_spec (n_index n) (ft_index d o')) as [E|E].
      + apply bind_ok in H. destruct H as ([c1 it1] & Ha & H).
        apply append_root_at in Ha; [|exact E|exact Hn|exact Hr].
        destruct Ha as (m & -> & Hr1 & Hl1 & _). rewrite it_at_index in Hl1.
        apply (IH _ _ _ _ _ _ Hr1 Hx' Hl1 H).
      + injection H as <- <- <-. split; [exact Hr|]. split; [exact Hx|]. exists d, o'. split; [reflexivity|].
        apply (depth_BND d o). apply (last_is_lt c _ Hr Hl).
  Qed.

  Lemma factor_at_2 d o : (it_factor (it_at d o) =? 2) = (d =? 0).
  Proof.
    cbn [it_at it_factor]. rewrite FlatTreeFacts.pow2_succ. pose proof (FlatTreeFacts.pow2_pos d) as P.
    destruct (N.eqb_spec d 0) as [->|Hd].
    - rewrite N.pow_0_r. reflexivity.
    - assert (E : 2 ^ d = 2 * 2 ^ (d - 1)).
      { rewrite <- FlatTreeFacts.pow2_succ. f_equal. lia. }
      pose proof (FlatTreeFacts.pow2_pos (d - 1)). lia.
  Qed.

  (* descend_to from the node (d, o): at most d + 1 rounds *)
  Lemma descend_to_at index : forall fuel d o,
    (N.to_nat d < fuel)%nat ->
    descend_to fuel (it_at d o) index <> OutOfFuel /\
    (forall it', descend_to fuel (it_at d o) index = Ok it' ->
       exists d1 o1, it' = it_at d1 o1 /\ ft_index d1 o1 = index).
  Proof.
    induction fuel as [|f IH]; intros d o Hf; [lia|].
    cbn [descend_to]. rewrite it_at_index.
    destruct (N.eqb_spec (ft_index d o) index) as [E|E].
    { split; [discriminate|]. intros it' [= <-]. eauto. }
    rewrite factor_at_2. destruct (N.eqb_spec d 0) as [Hd|Hd].
    { split; [discriminate|]. discriminate. }
    rewrite (left_child_at' d o Hd). apply IH. lia.
  Qed.

  Lemma extra_rest_fuel : forall extra c d o,
    roots_lt c -> idx_lt extra -> d <= 42 ->
    extra_rest cr c (it_at d o) extra <> OutOfFuel.
  Proof.
    induction extra as [|n r IH]; intros c d o Hr Hx Hd; cbn [extra_rest]; [discriminate|].
    inversion Hx as [|? ? Hn Hx']; subst.
    destruct (descend_to_at (n_index n) CLIMB d o ltac:(unfold CLIMB; lia)) as [D1 D2].
    destruct (descend_to CLIMB (it_at d o) (n_index n)) as [it1| | |]; cbn [bind]; try discriminate.
    2:{ exfalso. apply D1. reflexivity. }
    destruct (D2 it1 eq_refl) as (d1 & o1 & -> & Hi1).
    destruct (append_root cr c n (it_at d1 o1)) as [[c1 it2]| | |] eqn:Ea; cbn [bind]; try discriminate.
    2:{ exfalso. apply (append_root_not_oof c n (it_at d1 o1)). exact Ea. }
    apply append_root_at in Ea; [|symmetry; exact Hi1|exact Hn|exact Hr].
    destruct Ea as (m & -> & Hr1 & Hl1 & _). rewrite it_at_index in Hl1.
    pose proof (depth_BND _ _ (last_is_lt c1 _ Hr1 Hl1)) as Hd2.
    destruct (sibling_at2 (d1 + N.of_nat m) (o1 / 2 ^ N.of_nat m)) as (o' & -> & _ & _).
    apply IH; assumption.
  Qed.

  Definition LIM4 : 4 * LIM = BND := eq_refl.

  (* (C) for verify_upgrade: node lists of any length, indices below 2^40 (2^42 for the computed block
     root and the roots already held) *)
  Theorem verify_upgrade_fuel fork u block_root pk c :
    upgrade_lim u = true -> nodes_lim (du_nodes u) = true -> nodes_lim (du_additional u) = true ->
    (forall e, block_root = Some e -> n_index e < 4 * LIM) ->
    (forall r, In r (cs_roots c) -> n_index r < 4 * LIM) ->
    verify_upgrade cr fork u block_root pk c <> OutOfFuel.
  Proof.
    intros Hu Hn Ha He Hc. pose proof LIM_u64 as HU. unfold upgrade_lim in Hu.
    assert (Hnl : forall l, nodes_lim l = true -> idx_lt l).
    { intros l Hl. apply Forall_forall. intros n Hin. destruct (nodes_lim_in _ _ Hl Hin). unfold BND. lia. }
    assert (Hr : roots_lt c) by (apply Forall_forall; exact Hc).
    assert (Hq : q_lt (mkQ (du_nodes u) block_root)).
    { split; [apply Hnl, Hn|exact He]. }
    unfold verify_upgrade.
    rewrite add64_ok by lia. cbn [bind]. rewrite mul64_ok by lia. cbn [bind].
    set (to := 2 * (du_start u + du_length u)).
    rewrite it_new_0.
    destruct (upgrade_roots_loop_fuel to ltac:(unfold to; lia) CLIMB c (mkQ (du_nodes u) block_root) 0 43 0%nat
                (match cs_roots c with [] => false | _ :: _ => true end) Hq Hr) as [U1 U2].
    { reflexivity. }
    { apply aligned_0. }
    { change (2 ^ 43) with (8 * LIM). unfold to. lia. }
    { unfold CLIMB. lia. }
    destruct (upgrade_roots_loop cr CLIMB c (mkQ (du_nodes u) block_root) (mkIter 0 (0 / 2) 2) to 0
                (match cs_roots c with [] => false | _ :: _ => true end)) as [[[c1 q1] it1]| | |];
      cbn [bind]; try discriminate.
    2:{ exfalso. apply U1. reflexivity. }
    specialize (U2 c1 q1 it1 eq_refl).
    unfold last_root_index. destruct (rev (cs_roots c1)) as [|lr rest0] eqn:Erev; cbn [bind]; [discriminate|].
    rewrite it_new_at.
    assert (Hl : last_is c1 (ft_index (ft_depth (n_index lr)) (ft_offset (n_index lr)))).
    { exists lr, rest0. split; [exact Erev|]. symmetry. apply ft_index_depth_offset. }
    destruct (extra_siblings cr c1 (it_at (ft_depth (n_index lr)) (ft_offset (n_index lr))) (du_additional u))
      as [[[c2 it2] rest]| | |] eqn:Es; cbn [bind]; try discriminate.
    2:{ exfalso. destruct (extra_siblings_spec cr (du_additional u) c1
                             (it_at (ft_depth (n_index lr)) (ft_offset (n_index lr)))) as (S1 & _).
        apply S1. exact Es. }
    destruct (extra_siblings_shape _ _ _ _ _ _ _ U2 (Hnl _ Ha) Hl Es) as (Hr2 & Hx2 & d2 & o2 & -> & Hd2).
    pose proof (extra_rest_fuel rest c2 d2 o2 Hr2 Hx2 Hd2) as R.
    destruct (extra_rest cr c2 (it_at d2 o2) rest) as [[c3 it3]| | |]; cbn [bind]; try discriminate.
    2:{ exfalso. apply R. reflexivity. }
    pose proof (cs_verify_and_set_signature_returns cr (cs_set_fork c3 fork) (du_signature u) pk) as RS.
    destruct (cs_verify_and_set_signature cr (cs_set_fork c3 fork) (du_signature u) pk);
      cbn [bind]; try discriminate; discriminate RS.
  Qed.
End VerifierFuel.

(* ====================================================================================== *)
(* 8. verify_proof with an upgrade section: returns, for node lists of any length          *)
(* ====================================================================================== *)

Section VerifierTotal.
  Variable cr : crypto.

  Definition upgrade_nodes_lim (pf : proof) : Prop :=
    forall u, p_upgrade pf = Some u ->
      upgrade_lim u = true /\ nodes_lim (du_nodes u) = true /\ nodes_lim (du_additional u) = true.

  (* the replica's own roots have indices below 2^42 *)
  Definition own_roots_lim (t : mtree) : Prop := forall r, In r (t_roots t) -> n_index r < 4 * LIM.

  Lemma own_roots_lim_of_shape t : roots_ok t -> t_length t < LIM -> own_roots_lim t.
  Proof.
    intros HR HL r Hin. assert (Hi : In (n_index r) (ft_full_roots (2 * t_length t))).
    { rewrite <- HR. apply in_map, Hin. }
    apply full_roots_lt in Hi. lia.
  Qed.

  (* no fuel exhaustion: ONLY per-field bounds, no condition on the number of nodes *)
  Theorem verify_proof_not_out_of_fuel t tf pf pk :
    block_lim (p_block pf) = true -> hash_lim (p_hash pf) = true -> seek_lim (p_seek pf) = true ->
    upgrade_nodes_lim pf -> own_roots_lim t ->
    verify_proof cr t tf pf pk <> OutOfFuel.
  Proof.
    intros Hb Hh Hs Hu Ht. unfold verify_proof.
    destruct (verify_tree_returns cr (p_block pf) (p_hash pf) (p_seek pf) (tree_changeset t) Hb Hh Hs)
      as [R P].
    destruct (verify_tree cr (p_block pf) (p_hash pf) (p_seek pf) (tree_changeset t))
      as [[root c1]| | |]; try discriminate R; cbn [bind]; [|discriminate].
    destruct (P root c1 eq_refl) as [[T1 T2] Pr].
    assert (Hfin : forall (root2 : option node) (c2 : changeset),
      (forall r, root2 = Some r -> n_index r < 4 * LIM) ->
      match root2 with
      | Some r => n <- required_node t tf (n_index r) ;;
                  if bytes_eqb (n_hash n) (n_hash r) then Ok c2 else Err InvalidChecksum
      | None => Ok c2
      end <> OutOfFuel).
    { intros root2 c2 Hr2 E. pose proof (check_root_returns t tf root2 c2 Hr2) as RC. rewrite E in RC.
      discriminate RC. }
    destruct (p_upgrade pf) as [u|] eqn:Eu.
    - destruct (Hu u Eu) as (Hu1 & Hu2 & Hu3).
      pose proof (verify_upgrade_fuel cr (p_fork pf) u root pk c1 Hu1 Hu2 Hu3) as F.
      destruct (verify_upgrade cr (p_fork pf) u root pk c1) as [[consumed c2]| | |]; cbn [bind];
        try discriminate.
      + apply Hfin. intros r Hr. destruct consumed; [discriminate|]. destruct (Pr r Hr). assumption.
      + exfalso. apply F; [|rewrite T1; exact Ht|reflexivity].
        intros e He. destruct (Pr e He). assumption.
    - cbn [bind]. apply Hfin. intros r Hr. destruct (Pr r Hr). assumption.
  Qed.

  (* the verifier is total: with the u64 side condition of NoPanic.verify_proof_no_panic on the SUM of
     the announced lengths (needed: "byte_length += node.length" runs once per node) it returns a value
     or an error for node lists of any length *)
  Theorem verify_proof_returns_any_length t tf pf pk :
    block_lim (p_block pf) = true -> hash_lim (p_hash pf) = true -> seek_lim (p_seek pf) = true ->
    proof_upgrade_ok t pf -> upgrade_nodes_lim pf -> own_roots_lim t ->
    returns (verify_proof cr t tf pf pk) = true.
  Proof.
    intros Hb Hh Hs Hok Hu Ht. apply returns_iff. split.
    - apply verify_proof_no_panic; assumption.
    - apply verify_proof_not_out_of_fuel; assumption.
  Qed.
End VerifierTotal.

(* ====================================================================================== *)
(* 9. Non-vacuity and minimality                                                           *)
(* ====================================================================================== *)

(* the five-block writer of Replicate.v (nothing flushed) is well-formed *)
Example ex_wt_wf : tree_wf ex_wt.
Proof.
  split; [now vm_compute|]. split; [now vm_compute|]. right. vm_compute. discriminate.
Qed.

Definition rB i k := Some (mkReqBlock i k).
Definition rS x := Some (mkReqSeek x).
Definition rU a b := Some (mkReqUpgrade a b).

(* every request class reaches an Ok answer on it (the theorem is not about errors only) *)
Example create_classes_ok :
  let ok b h s u := is_ok (create_valueless_proof ex_wt file_empty b h s u) in
  ok None (rB 1 0) None None = true /\            (* hash only *)
  ok None None (rS 4) None = true /\              (* seek only *)
  ok None None None (rU 2 3) = true /\            (* upgrade only *)
  ok (rB 2 1) None (rS 4) None = true /\          (* block + seek *)
  ok (rB 1 1) None None (rU 2 3) = true /\        (* block + upgrade *)
  ok None (rB 1 0) None (rU 2 2) = true /\        (* hash + upgrade *)
  ok None None (rS 9) (rU 4 1) = true /\          (* seek + upgrade *)
  ok (rB 0 0) None (rS 0) (rU 1 2) = true /\      (* block + seek + upgrade *)
  ok (rB 4 1000000) None None None = false /\     (* far too many nodes: an error, not a panic *)
  returns (create_valueless_proof ex_wt file_empty (rB 4 1000000) (rB 77 3) (rS 123456789) (rU 3 9)) = true.
Proof. repeat split; now vm_compute. Qed.

(* boundary requests: fields just below 2^40 *)
Example create_boundary_returns :
  let r b h s u := returns (create_valueless_proof ex_wt file_empty b h s u) in
  r (rB (LIM - 1) (LIM - 1)) None (rS (LIM - 1)) (rU (LIM - 1) (LIM - 1)) = true /\
  r None (rB (LIM - 1) 0) (rS 0) (rU 0 (LIM - 1)) = true /\
  r None (rB (LIM - 2) 70) None None = true.
Proof. repeat split; now vm_compute. Qed.

(* minimality of tree_wf, 1: a non-empty tree without signature panics on an upgrade request
   (same [expect("signature needs to be set")] in the crate; unreachable: see sig_ok_append /
   sig_ok_apply / sig_ok_open) *)
Definition ex_wt_unsigned : mtree :=
  mkTree (t_roots ex_wt) (t_length ex_wt) (t_byte_length ex_wt) (t_fork ex_wt) None (t_unflushed ex_wt).

Example sig_ok_needed_refuted :
  t_length ex_wt_unsigned < LIM /\ roots_ok ex_wt_unsigned /\
  create_valueless_proof ex_wt_unsigned file_empty None None None (rU 0 5) = Panic "signature needs to be set".
Proof. repeat split; now vm_compute. Qed.

(* minimality of tree_wf, 2: with a root list that does not sit on the full roots the byte-offset walk
   of a block + seek request never ends (it descends below a leaf: the crate's loop would spin for
   ever; other bad lists underflow [root.index - head]); unreachable: roots_ok is part of TInv *)
Definition ex_wt_badroots : mtree :=
  mkTree (rev (t_roots ex_wt)) (t_length ex_wt) (t_byte_length ex_wt) (t_fork ex_wt) (t_signature ex_wt)
         (t_unflushed ex_wt).

Example roots_ok_needed_refuted :
  t_length ex_wt_badroots < LIM /\ sig_ok ex_wt_badroots /\
  create_valueless_proof ex_wt_badroots file_empty (rB 2 1) None (rS 4) None = OutOfFuel.
Proof. split; [now vm_compute|]. split; [right; vm_compute; discriminate|now vm_compute]. Qed.

(* minimality of the request bounds: an index of 2^63 overflows [block.index * 2] *)
Example index_lim_needed_refuted :
  create_valueless_proof ex_wt file_empty (rB (2 ^ 63) 0) None None None = Panic "block.index * 2".
Proof. now vm_compute. Qed.

(* (B) on a core: the five-block writer core of Replicate.v *)
Example core_create_proof_returns_ex :
  match ex_W with
  | Some (c, w) =>
      tree_wf (c_tree c) /\
      (let '(c', w', r) := core_create_proof (rB 2 1) None (rS 4) None c w in
       is_ok r = true /\ c' = c /\ w_disk w' = w_disk w) /\
      (let '(c', w', r) := core_create_proof (rB 1 1) None None (rU 2 3) c w in is_ok r = true)
  | None => False
  end.
Proof.
  vm_compute. split; [split; [reflexivity|split; [reflexivity|right; discriminate]]|].
  split; [split; [reflexivity|split; reflexivity]|reflexivity].
Qed.

(* (C): a hostile upgrade whose 38 nodes sit exactly on the sibling positions of the grow branch
   (indices 5, 11, 23, ... < 2^40) drives grow_loop through 38 rounds — the fixed fuel CLIMB = 130 is
   never the limit, and 300 more nodes change nothing *)
Definition sib_nodes (n : nat) : list node :=
  map (fun j => mkNode (3 * 2 ^ (N.of_nat j + 1) - 1) 1 h9) (seq 0 n).
Definition hostile_upgrade (n : nat) : proof :=
  mkProof 0 None None None (Some (mkDataUpgrade 0 (2 ^ 39) (sib_nodes n) [] (repeat 1 64%nat))).

Example hostile_grow_ex :
  upgrade_nodes_lim (hostile_upgrade 38) /\ own_roots_lim ex_tree2 /\ proof_upgrade_ok ex_tree2 (hostile_upgrade 38) /\
  (exists c, verify_proof toy ex_tree2 file_empty (hostile_upgrade 38) [] = Ok c /\
             cs_length c = 2 ^ 39 /\ map n_index (cs_roots c) = [2 ^ 39 - 1]) /\
  is_err (verify_proof toy ex_tree2 file_empty (hostile_upgrade 37) []) = true.
Proof.
  split; [intros u [= <-]; repeat split; now vm_compute|].
  split; [intros r [<-|[]]; now vm_compute|].
  split; [repeat split; now vm_compute|].
  split; [|now vm_compute].
  eexists. split; [vm_compute; reflexivity|]. split; reflexivity.
Qed.

Definition long_upgrade (n : nat) : proof :=
  mkProof 0 None None None
    (Some (mkDataUpgrade 0 1000 (repeat (mkNode 5 1 h9) n) (repeat (mkNode 7 1 h9) n) (repeat 1 64%nat))).

Example long_lists_ex :
  upgrade_nodes_lim (long_upgrade 500) /\ proof_upgrade_ok ex_tree2 (long_upgrade 500) /\
  is_err (verify_proof toy ex_tree2 file_empty (long_upgrade 500) []) = true.
Proof.
  split; [intros u [= <-]; repeat split; now vm_compute|].
  split; [repeat split; now vm_compute|now vm_compute].
Qed.

(* ====================================================================================== *)
(* 10. At the level of the refinement invariants                                           *)
(* ====================================================================================== *)

(* C09, creation side, for every core state described by Refine.WInv / ClearRefine.CInv (writer, with
   or without cleared blocks; a reopened core satisfies the same WInv by Reopen.DInv_WInv) *)
Corollary create_proof_returns_WInv cr c d j ev bs block hash seek upgrade c' w' r :
  WInv cr c d bs -> N.of_nat (length bs) < LIM -> sig_ok (c_tree c) ->
  rblock_lim block = true -> rblock_lim hash = true -> rupgrade_lim upgrade = true ->
  core_create_proof block hash seek upgrade c (mkWorld d j ev) = (c', w', r) ->
  returns r = true /\ c' = c /\ w_disk w' = d /\ w_journal w' = j.
Proof.
  intros W Hn Hs Hb Hh Hu H. destruct (WInv_tree_shape cr c d bs W Hn) as [HL HR].
  apply (core_create_proof_returns block hash seek upgrade c (mkWorld d j ev) c' w' r); try assumption.
  split; [exact HL|]. split; [exact HR|exact Hs].
Qed.

Corollary create_proof_returns_CInv cr c d j ev bs cl block hash seek upgrade c' w' r :
  CInv cr c d bs cl -> N.of_nat (length bs) < LIM -> sig_ok (c_tree c) ->
  rblock_lim block = true -> rblock_lim hash = true -> rupgrade_lim upgrade = true ->
  core_create_proof block hash seek upgrade c (mkWorld d j ev) = (c', w', r) ->
  returns r = true /\ c' = c /\ w_disk w' = d /\ w_journal w' = j.
Proof.
  intros (T & _) Hn Hs Hb Hh Hu H. destruct (TInv_tree_shape cr _ _ bs T Hn) as [HL HR].
  apply (core_create_proof_returns block hash seek upgrade c (mkWorld d j ev) c' w' r); try assumption.
  split; [exact HL|]. split; [exact HR|exact Hs].
Qed.

(* ====================================================================================== *)
(* 11. More non-vacuity: a replica, the list-length form, the u64 side condition           *)
(* ====================================================================================== *)

(* the replica of Replicate.v (synced by an upgrade-only proof: it holds the two roots only) is
   well-formed too; requests it cannot serve end in an error, the upgrade it can serve in a value *)
Example ex_rt_wf_and_requests :
  tree_wf ex_rt /\
  is_err (create_valueless_proof ex_rt file_empty (rB 2 1) None None None) = true /\
  is_ok (create_valueless_proof ex_rt file_empty None None None (rU 0 5)) = true.
Proof.
  split; [split; [now vm_compute|split; [now vm_compute|right; vm_compute; discriminate]]|].
  repeat split; now vm_compute.
Qed.

(* the empty tree: every request is refused (nothing to prove), none panics *)
Example empty_tree_wf_and_requests :
  tree_wf empty_tree /\
  is_err (create_valueless_proof empty_tree file_empty (rB 0 0) None (rS 0) (rU 0 1)) = true /\
  is_err (create_valueless_proof empty_tree file_empty None None None None) = true.
Proof.
  split; [split; [now vm_compute|split; [now vm_compute|left; reflexivity]]|].
  repeat split; now vm_compute.
Qed.

Section VerifierTotalLim.
  Variable cr : crypto.

  (* the same theorem from per-field bounds and a bound on the NUMBER of nodes (only used for the u64
     total of the announced lengths, never for fuel) *)
  Corollary verify_proof_returns_lim t tf pf pk u :
    block_lim (p_block pf) = true -> hash_lim (p_hash pf) = true -> seek_lim (p_seek pf) = true ->
    p_upgrade pf = Some u -> upgrade_lim u = true ->
    nodes_lim (du_nodes u) = true -> nodes_lim (du_additional u) = true ->
    N.of_nat (length (du_nodes u)) <= MAXN -> N.of_nat (length (du_additional u)) <= MAXN ->
    roots_ok t -> t_length t < LIM -> lens (t_roots t) <= t_byte_length t -> t_byte_length t < 2 ^ 62 ->
    returns (verify_proof cr t tf pf pk) = true.
  Proof.
    intros Hb Hh Hs Hp Hu Hn Ha Hln Hla HR HL Hr Hbl.
    apply verify_proof_returns_any_length; try assumption.
    - apply (proof_upgrade_ok_of_lim t pf u); assumption.
    - intros u' E. rewrite Hp in E. injection E as <-. auto.
    - apply own_roots_lim_of_shape; assumption.
  Qed.
End VerifierTotalLim.

(* the u64 side condition of proof_upgrade_ok is needed (not a fuel matter): on a replica whose byte
   length is close to 2^64 a single announced node overflows "byte_length += node.length" *)
Definition ex_tree2_huge : mtree :=
  mkTree (t_roots ex_tree2) (t_length ex_tree2) (u64_max - 3) (t_fork ex_tree2) (t_signature ex_tree2)
         (t_unflushed ex_tree2).

Example sum_condition_needed_refuted :
  let pf := mkProof 0 None None None (Some (mkDataUpgrade 0 4 [mkNode 5 9 h9] [] (repeat 1 64%nat))) in
  upgrade_nodes_lim pf /\ own_roots_lim ex_tree2_huge /\
  verify_proof toy ex_tree2_huge file_empty pf [] = Panic "byte_length += node.length".
Proof.
  split; [intros u [= <-]; repeat split; now vm_compute|].
  split; [intros r [<-|[]]; now vm_compute|now vm_compute].
Qed.

(* ====================================================================================== *)
(* 12. sig_ok is an invariant of every operation of Core.v                                 *)
(* ====================================================================================== *)

(* whatever the outcome (value, error, panic), a tree with sig_ok is left with sig_ok *)
Definition sinv {A} (m : M A) : Prop :=
  forall c w c' w' r, m c w = (c', w', r) -> sig_ok (c_tree c) -> sig_ok (c_tree c').

Lemma sinv_keeps {A} (m : M A) : keeps c_tree m -> sinv m.
Proof. intros K c w c' w' r H Hs. rewrite (K _ _ _ _ _ H). exact Hs. Qed.

Lemma sinv_bind {A B} (m : M A) (f : A -> M B) : sinv m -> (forall a, sinv (f a)) -> sinv (mbind m f).
Proof.
  intros Hm Hf c w c' w' r H Hs. apply mbind_inv in H. destruct H as (c1 & w1 & r1 & H1 & H).
  pose proof (Hm _ _ _ _ _ H1 Hs) as Hs1.
  destruct r1 as [a| | |]; [exact (Hf a _ _ _ _ _ H Hs1)| | |]; destruct H as (-> & _ & _); exact Hs1.
Qed.

(* reading the core: the continuation learns that the core it was given satisfies sig_ok *)
Lemma sinv_get_core {B} (f : core -> M B) :
  (forall c0, sig_ok (c_tree c0) -> sinv (f c0)) -> sinv (mbind get_core f).
Proof. intros Hf c w c' w' r H Hs. rewrite mbind_get_core in H. exact (Hf c Hs _ _ _ _ _ H Hs). Qed.

(* a pure step: the continuation learns the equation *)
Lemma sinv_lift {A B} (x : res A) (f : A -> M B) :
  (forall a, x = Ok a -> sinv (f a)) -> sinv (mbind (lift x) f).
Proof.
  intros Hf c w c' w' r H Hs. rewrite mbind_lift in H. destruct x as [a| | |].
  - exact (Hf a eq_refl _ _ _ _ _ H Hs).
  - injection H as <- _ _. exact Hs.
  - injection H as <- _ _. exact Hs.
  - injection H as <- _ _. exact Hs.
Qed.

(* installing a tree that satisfies sig_ok *)
Lemma sinv_put_tree {B} (t' : mtree) (k : M B) : sig_ok t' -> sinv k -> sinv (mbind (put_tree t') (fun _ => k)).
Proof.
  intros Ht Hk c w c' w' r H _. unfold mbind, put_tree in H.
  exact (Hk _ _ _ _ _ H Ht).
Qed.

Lemma sinv_put_tree_last (t' : mtree) : sig_ok t' -> sinv (put_tree t').
Proof. intros Ht c w c' w' r H _. unfold put_tree in H. injection H as <- _ _. exact Ht. Qed.

Ltac sinv_keep := apply sinv_keeps; keeps_tac.
Ltac sinv_step := apply sinv_bind; [sinv_keep|intros ?].

Section SigInv.
  Variable cr : crypto.

  Lemma flush_all_sinv ct : sinv (flush_all cr ct).
  Proof.
    unfold flush_all. apply sinv_get_core. intros c0 Hs0.
    destruct (bf_flush (c_bitfield c0)) as [b' pops].
    sinv_step. sinv_step. apply sinv_lift. intros [t' tops] Hf.
    apply sinv_put_tree; [exact (sig_ok_flush _ _ _ Hs0 Hf)|].
    sinv_keep.
  Qed.

  Lemma maybe_flush_sinv f : sinv (maybe_flush cr f).
  Proof.
    unfold maybe_flush. apply sinv_get_core. intros c0 _.
    destruct (match f with Some b => b | None => _ end).
    - sinv_step. apply flush_all_sinv.
    - sinv_keep.
  Qed.

  Lemma log_and_commit_sinv cs bu :
    (cs_upgraded cs = true -> cs_signature cs <> None) -> sinv (log_and_commit cr cs bu).
  Proof.
    intros Hcs. unfold log_and_commit. apply sinv_get_core. intros c0 _.
    apply sinv_lift. intros [e h'] _. apply sinv_lift. intros [o' ops] _.
    sinv_step. sinv_step. sinv_step.
    apply sinv_bind; [destruct bu; sinv_keep|intros _].
    apply sinv_get_core. intros c1 Hs1. apply sinv_lift. intros t' Ht.
    apply sinv_put_tree_last. exact (sig_ok_commit _ _ _ Hs1 Ht Hcs).
  Qed.

  Theorem core_append_sinv f batch : sinv (core_append cr f batch).
  Proof.
    unfold core_append. apply sinv_get_core. intros c0 _.
    destruct (kp_secret (c_keypair c0)) as [sk|]; [|sinv_keep].
    apply sinv_bind; [|intros _; sinv_keep].
    destruct batch as [|b0 batch]; [sinv_keep|].
    apply sinv_lift. intros cs _. sinv_step.
    apply sinv_bind; [apply log_and_commit_sinv; intros _; apply cs_hash_and_sign_signed|intros _].
    apply sinv_bind; [apply maybe_flush_sinv|intros _]. sinv_keep.
  Qed.

  Theorem core_apply_proof_sinv f pf : sinv (core_apply_proof cr f pf).
  Proof.
    unfold core_apply_proof. apply sinv_get_core. intros c0 _.
    destruct (negb (p_fork pf =? t_fork (c_tree c0))); [sinv_keep|].
    sinv_step. apply sinv_lift. intros cs Hv.
    destruct (negb (commitable (c_tree c0) cs)); [sinv_keep|].
    apply sinv_bind; [destruct (p_block pf); sinv_keep|intros bu].
    apply sinv_bind; [apply log_and_commit_sinv, (verify_proof_signed cr _ _ _ _ _ Hv)|intros _].
    apply sinv_bind; [apply maybe_flush_sinv|intros _]. sinv_keep.
  Qed.

  Theorem core_clear_sinv f s e : sinv (core_clear cr f s e).
  Proof.
    unfold core_clear. destruct (e <=? s); [sinv_keep|].
    apply sinv_get_core. intros c0 _. apply sinv_lift. intros [o' ops] _.
    sinv_step. sinv_step. sinv_step.
    apply sinv_bind; [destruct (s <? hd_contig (c_header c0)); sinv_keep|intros _].
    apply sinv_bind; [sinv_keep|intros dd]. apply sinv_lift. intros co _. apply sinv_lift. intros e1 _.
    apply sinv_lift. intros [lo ll] _. apply sinv_lift. intros cl _.
    apply sinv_bind; [destruct ((0 <? cl) && (co <? f_len (d_data dd))); sinv_keep|intros _].
    apply maybe_flush_sinv.
  Qed.

  Theorem core_make_read_only_sinv : sinv (core_make_read_only cr).
  Proof.
    unfold core_make_read_only. apply sinv_get_core. intros c0 _. cbv zeta.
    sinv_step. sinv_step. apply sinv_bind; [apply flush_all_sinv|intros _]. sinv_keep.
  Qed.

  Theorem core_create_proof_sinv b h s u : sinv (core_create_proof b h s u).
  Proof.
    intros c w c' w' r H Hs. destruct (core_create_proof_quiet _ _ _ _ _ _ _ _ _ H) as (-> & _). exact Hs.
  Qed.

  (* replaying the oplog at open *)
  Lemma fold_add_node_sig l : forall t, sig_ok t -> sig_ok (fold_left tree_add_node l t).
  Proof. induction l as [|n l IH]; intros t H; cbn [fold_left]; [exact H|]. apply IH, sig_ok_add_node, H. Qed.

  Lemma replay_entry_sig tf t b h e t' b' h' :
    replay_entry cr tf (t, b, h) e = Ok (t', b', h') -> sig_ok t -> sig_ok t'.
  Proof.
    unfold replay_entry. intros H Hs.
    pose proof (fold_add_node_sig (e_nodes e) t Hs) as Hs1.
    set (t1 := fold_left tree_add_node (e_nodes e) t) in *. clearbody t1.
    destruct (match e_bitfield e with
              | Some u => let b'0 := bf_apply b u in (b'0, set_contig h (update_contig (hd_contig h) b'0 u))
              | None => (b, h)
              end) as [b1 h1].
    destruct (e_upgrade e) as [u|].
    - apply bind_ok in H. destruct H as (cs & _ & H). apply bind_ok in H. destruct H as (sg & _ & H).
      apply bind_ok in H. destruct H as (t2 & Hc & H). injection H as <- _ _.
      apply (sig_ok_commit _ _ _ Hs1 Hc). intros _. cbn [cs_signature]. discriminate.
    - injection H as <- _ _. exact Hs1.
  Qed.

  Lemma replay_entries_sig tf l : forall t b h t' b' h',
    replay_entries cr tf (t, b, h) l = Ok (t', b', h') -> sig_ok t -> sig_ok t'.
  Proof.
    induction l as [|e l IH]; intros t b h t' b' h' H Hs; cbn [replay_entries] in H.
    - injection H as <- _ _. exact Hs.
    - apply bind_ok in H. destruct H as ([[t1 b1] h1] & H1 & H).
      apply (IH _ _ _ _ _ _ H). apply (replay_entry_sig _ _ _ _ _ _ _ _ H1 Hs).
  Qed.

  Lemma tree_open_empty_sig ht tf t : tree_open ht tf = Ok t -> ht_length ht = 0 -> sig_ok t.
  Proof.
    intros H H0. unfold tree_open in H. rewrite H0 in H.
    change (ft_full_roots (2 * 0)) with (@nil N) in H. cbn [read_roots rev bind] in H.
    apply bind_ok in H. destruct H as (sg & _ & H). injection H as <-. left. reflexivity.
  Qed.

  (* opening: the tree of the opened core satisfies sig_ok as soon as the stored header carries a
     signature whenever it describes a non-empty tree *)
  Theorem core_open_sig kp flag d d' ops c :
    core_open cr kp flag d = (d', ops, Ok c) ->
    (forall key oo, oplog_open cr key (f_content (d_oplog d)) = Ok oo ->
       ht_signature (hd_tree (oo_header oo)) <> [] \/ ht_length (hd_tree (oo_header oo)) = 0) ->
    sig_ok (c_tree c).
  Proof.
    unfold core_open. intros H Hhdr.
    destruct (if flag then match kp with Some _ => Err BadArgument | None => Ok None end else Ok kp)
      as [key| | |]; try (injection H as _ _ H; discriminate H).
    destruct (oplog_open cr key (f_content (d_oplog d))) as [oo| | |] eqn:Eo;
      try (injection H as _ _ H; discriminate H).
    destruct (apply_sops d (oo_ops oo)) as [d1|]; [|injection H as _ _ H; discriminate H].
    injection H as _ _ H.
    apply bind_ok in H. destruct H as (t0 & Ht0 & H).
    apply bind_ok in H. destruct H as ([[t1 b1] h1] & Hr & H). injection H as <-. cbn [c_tree].
    apply (replay_entries_sig _ _ _ _ _ _ _ _ Hr).
    destruct (Hhdr key oo Eo) as [Hs|H0].
    - exact (sig_ok_open _ _ _ Ht0 Hs).
    - exact (tree_open_empty_sig _ _ _ Ht0 H0).
  Qed.
End SigInv.

(* ====================================================================================== *)
(* 13. End to end: every state of a writer reached from creation by appends                *)
(* ====================================================================================== *)

Section WriterStates.
  Variable cr : crypto.
  Hypothesis Hhash32 : forall x, length (cr_hash cr x) = 32%nat.
  Hypothesis Hnonblank : forall x, all_zero (cr_hash cr x) = false.

  (* core c over disk d holding the blocks bs: created with a key pair, then any number of (batch)
     appends that returned a value, under any flush decisions *)
  Inductive wstate : core -> disk -> list bytes -> Prop :=
  | ws_init kp d ops c :
      keypair_ok kp = true -> core_open cr (Some kp) false disk_empty = (d, ops, Ok c) -> wstate c d []
  | ws_append c d bs f batch j ev c' w' v :
      wstate c d bs ->
      sumN (map len (bs ++ batch)) <= u64_max ->
      core_append cr f batch c (mkWorld d j ev) = (c', w', Ok v) ->
      wstate c' (w_disk w') (bs ++ batch).

  Lemma wstate_inv c d bs :
    wstate c d bs -> N.of_nat (length bs) < LIM -> WInv cr c d bs /\ sig_ok (c_tree c).
  Proof.
    induction 1 as [kp d ops c Hkp Ho|c d bs f batch j ev c' w' v Hst IH Hfit Ha]; intros Hn.
    - destruct (WInv_init_keypair_ok cr kp Hkp) as (d0 & ops0 & c0 & Ho0 & W & _).
      rewrite Ho in Ho0. injection Ho0 as <- _ <-. split; [exact W|].
      destruct W as (HL & _). left. exact HL.
    - rewrite app_length, Nat2N.inj_add in Hn. destruct (IH ltac:(lia)) as [W Hs].
      split; [|exact (core_append_sinv cr f batch _ _ _ _ _ Ha Hs)].
      destruct (kp_secret (c_keypair c)) as [sk|] eqn:Esk.
      2:{ exfalso. unfold core_append in Ha. rewrite mbind_get_core, Esk in Ha. discriminate Ha. }
      destruct (append_preserves cr Hhash32 Hnonblank f batch c d j ev bs sk c' w' (Ok v) W Esk Hfit) as [E|(_ & W' & _)].
      + pose proof LIM_u64. rewrite app_length, Nat2N.inj_add. unfold NODE_SIZE, u64_max, LIM in *. lia.
      + exact Ha.
      + discriminate E.
      + exact W'.
  Qed.

  Corollary wstate_tree_wf c d bs : wstate c d bs -> N.of_nat (length bs) < LIM -> tree_wf (c_tree c).
  Proof.
    intros Hst Hn. destruct (wstate_inv c d bs Hst Hn) as [W Hs].
    destruct (WInv_tree_shape cr c d bs W Hn) as [HL HR]. split; [exact HL|]. split; [exact HR|exact Hs].
  Qed.

  (* C09, creation side: in every such state, whatever request a peer sends (indices and upgrade range
     below 2^40), create_proof returns a value or an error and the core is unchanged *)
  Theorem create_proof_total_on_writer_states c d bs j ev block hash seek upgrade c' w' r :
    wstate c d bs -> N.of_nat (length bs) < LIM ->
    rblock_lim block = true -> rblock_lim hash = true -> rupgrade_lim upgrade = true ->
    core_create_proof block hash seek upgrade c (mkWorld d j ev) = (c', w', r) ->
    returns r = true /\ c' = c /\ w_disk w' = d /\ w_journal w' = j.
  Proof.
    intros Hst Hn Hb Hh Hu H.
    apply (core_create_proof_returns block hash seek upgrade c (mkWorld d j ev) c' w' r); try assumption.
    apply (wstate_tree_wf c d bs Hst Hn).
  Qed.
End WriterStates.

(* a concrete writer state: creation, a batch of three, a flushed single append *)
Example wstate_ex :
  match core_open toy_cr (Some toy_keypair) false disk_empty with
  | (d0, _, Ok c0) =>
      match core_append toy_cr (Some false) [[1; 2; 3]; []; [4]] c0 (mkWorld d0 [] []) with
      | (c1, w1, Ok _) =>
          match core_append toy_cr (Some true) [[5; 6]] c1 w1 with
          | (c2, w2, Ok _) =>
              wstate toy_cr c2 (w_disk w2) ([[1; 2; 3]; []; [4]] ++ [[5; 6]]) /\
              (let '(_, _, r) := core_create_proof (rB 3 2) None (rS 5) None c2 w2 in is_ok r = true) /\
              (let '(_, _, r) := core_create_proof None (rB 1 0) None (rU 2 2) c2 w2 in is_ok r = true)
          | _ => False
          end
      | _ => False
      end
  | _ => False
  end.
Proof.
  destruct (core_open toy_cr (Some toy_keypair) false disk_empty) as [[d0 ops0] [c0| | |]] eqn:Eo;
    try (vm_compute in Eo; discriminate Eo).
  destruct (core_append toy_cr (Some false) [[1; 2; 3]; []; [4]] c0 (mkWorld d0 [] [])) as [[c1 w1] [v1| | |]] eqn:E1;
    try (vm_compute in Eo; injection Eo as <- _ <-; vm_compute in E1; discriminate E1).
  destruct (core_append toy_cr (Some true) [[5; 6]] c1 w1) as [[c2 w2] [v2| | |]] eqn:E2;
    try (vm_compute in Eo; injection Eo as <- _ <-; vm_compute in E1; injection E1 as <- <- _;
         vm_compute in E2; discriminate E2).
  split.
  - destruct w1 as [d1 j1 ev1].
    apply (ws_append toy_cr c1 d1 [[1; 2; 3]; []; [4]] (Some true) [[5; 6]] j1 ev1 c2 w2 v2); [|now vm_compute|exact E2].
    change [[1; 2; 3]; []; [4]] with ([] ++ [[1; 2; 3]; []; [4]]).
    change d1 with (w_disk (mkWorld d1 j1 ev1)).
    apply (ws_append toy_cr c0 d0 [] (Some false) [[1; 2; 3]; []; [4]] [] [] c1 (mkWorld d1 j1 ev1) v1); [|now vm_compute|exact E1].
    apply (ws_init toy_cr toy_keypair d0 ops0 c0); [reflexivity|exact Eo].
  - vm_compute in Eo. injection Eo as <- _ <-. vm_compute in E1. injection E1 as <- <- _.
    vm_compute in E2. injection E2 as <- <- _. split; vm_compute; reflexivity.
Qed.

Print Assumptions create_valueless_proof_returns.
Print Assumptions core_create_proof_returns.
Print Assumptions create_proof_returns_WInv.
Print Assumptions create_proof_returns_CInv.
Print Assumptions TInv_tree_shape.
Print Assumptions WInv_tree_shape.
Print Assumptions sig_ok_commit.
Print Assumptions sig_ok_flush.
Print Assumptions sig_ok_open.
Print Assumptions verify_proof_signed.
Print Assumptions sig_ok_append.
Print Assumptions sig_ok_apply.
Print Assumptions seek_proof_ret.
Print Assumptions block_and_seek_proof_ret.
Print Assumptions connect_loop_ret.
Print Assumptions upgrade_loop_ret.
Print Assumptions upgrade_proof_ret.
Print Assumptions additional_upgrade_proof_ret.
Print Assumptions seek_trusted_tree_ret.
Print Assumptions seek_from_head_ret.
Print Assumptions byte_offset_from_nodes_ret.
Print Assumptions seek_untrusted_tree_ret.
Print Assumptions nodes_to_root_ret.
Print Assumptions byte_range_ret.
Print Assumptions core_get_ret.
Print Assumptions merge_roots_at.
Print Assumptions append_root_at.
Print Assumptions grow_loop_fuel.
Print Assumptions upgrade_roots_loop_fuel.
Print Assumptions extra_siblings_shape.
Print Assumptions descend_to_at.
Print Assumptions extra_rest_fuel.
Print Assumptions verify_upgrade_fuel.
Print Assumptions verify_proof_not_out_of_fuel.
Print Assumptions verify_proof_returns_any_length.
Print Assumptions own_roots_lim_of_shape.
Print Assumptions ex_wt_wf.
Print Assumptions create_classes_ok.
Print Assumptions hostile_grow_ex.
Print Assumptions verify_proof_returns_lim.
Print Assumptions ex_rt_wf_and_requests.
Print Assumptions sum_condition_needed_refuted.
Print Assumptions flush_all_sinv.
Print Assumptions log_and_commit_sinv.
Print Assumptions core_append_sinv.
Print Assumptions core_apply_proof_sinv.
Print Assumptions core_clear_sinv.
Print Assumptions core_make_read_only_sinv.
Print Assumptions core_create_proof_sinv.
Print Assumptions replay_entries_sig.
Print Assumptions core_open_sig.
Print Assumptions wstate_inv.
Print Assumptions wstate_tree_wf.
Print Assumptions create_proof_total_on_writer_states.
Print Assumptions wstate_ex.

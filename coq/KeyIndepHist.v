(* KeyIndepHist.v -- C12: whole writer histories are independent of the key pair, outside the oplog file.

   Two runs of the SAME history (appends, clears, get / has / info, make_read_only, drop-and-reopen; the flush
   decision is an input) from creation on the empty storage, under one crypto record, with two key pairs of
   the same shape (kp_sim: public keys equally long, secrets both present and equally long or both absent).
   The only assumption on the crypto record: the length of a signature does not depend on the key.

   history_sim / other_files_independent_of_secret:
     observations identical; tree, bitfield and data files IDENTICAL; oplog files equally long; the journals
     agree operation by operation except that oplog writes carry different bytes (same offset, same length);
     hence every operation issued to the tree / bitfield / data store is identical (journal_other_stores).
   A history stops at the first append / clear / make_read_only / reopen that does not return a value.

   Reopen reads the oplog file back.  [reopen_ok] asks, at each reopen point, that oplog_open decodes the two
   oplog files to related outcomes (same bits and sizes, headers / entries equal up to keys and signatures).
   For histories without reopen it is trivially true (reopen_ok_no_reopen), so
   other_files_independent_of_secret_no_reopen is unconditional.  For histories WITH reopen, reopen_ok is derived
   from well-formedness (CRC < 2^32, 32-byte hashes, 64-byte signatures, sizes below 2^64) in KeyIndepWf.v
   (wf_reopen_ok, other_files_independent_of_secret_wf). *)
From HC Require Import Base NMap Codec CodecFacts Crypto FlatTree Storage StorageFacts Bitfield Oplog Merkle Core.
From HC Require Import KeyIndep.
From Coq Require Import ZifyN ZifyNat ZifyBool Lia.
#[local] Arguments N.add : simpl never.
#[local] Arguments N.sub : simpl never.
#[local] Arguments N.mul : simpl never.
#[local] Arguments N.eqb : simpl never.
#[local] Arguments N.ltb : simpl never.
#[local] Arguments N.leb : simpl never.

Inductive hop :=
| HAppend (f : option bool) (batch : list bytes)
| HClear (f : option bool) (start end_ : N)
| HGet (i : N)
| HHas (i : N)
| HInfo
| HReadOnly
| HReopen.

Inductive hobs :=
| OAppend (r : res (N * N))
| OClear (r : res unit)
| OGet (r : res (option bytes))
| OHas (b : bool)
| OInfo (i : info)
| OReadOnly (r : res bool)
| OReopen (r : res unit).

Definition res_unit {A} (r : res A) : res unit :=
  match r with Ok _ => Ok tt | Err e => Err e | Panic s => Panic s | OutOfFuel => OutOfFuel end.

Definition step_out : Type := hobs * bool * core * world.
Definition so_obs (s : step_out) : hobs := fst (fst (fst s)).
Definition so_go (s : step_out) : bool := snd (fst (fst s)).
Definition so_core (s : step_out) : core := snd (fst s).
Definition so_world (s : step_out) : world := snd s.

(* run an M computation as one step of a history; [always]: continue whatever the result *)
Definition mstep {A} (always : bool) (mk : res A -> hobs) (m : M A) (c : core) (w : world) : step_out :=
  let x := m c w in (mk (snd x), always || is_ok (snd x), fst (fst x), snd (fst x)).

Lemma Forall2_rev' {A B} (R : A -> B -> Prop) l1 : forall l2, Forall2 R l1 l2 -> Forall2 R (rev l1) (rev l2).
Proof.
  induction l1 as [|a r IH]; intros l2 H; inversion H; subst; cbn [rev]; [constructor|].
  apply Forall2_app; [apply IH; assumption|constructor; [assumption|constructor]].
Qed.

Definition not_oplog (o : sop) : bool :=
  match o with
  | SW Oplog _ _ | SD Oplog _ _ | ST Oplog _ => false
  | _ => true
  end.

(* every operation issued to the tree, bitfield and data stores is identical, in the same order *)
Lemma journal_other_stores j1 : forall j2, Forall2 sop_sim j1 j2 -> filter not_oplog j1 = filter not_oplog j2.
Proof.
  induction j1 as [|o r IH]; intros j2 H; inversion H; subst; cbn [filter]; [reflexivity|].
  rewrite (IH _ H4). destruct H2 as [->|(off & x1 & x2 & -> & -> & _)]; reflexivity.
Qed.

(* ... and the oplog operations have the same shape *)
Lemma journal_lengths j1 j2 : Forall2 sop_sim j1 j2 -> length j1 = length j2.
Proof. induction 1; cbn [length]; congruence. Qed.

Section Hist.
  Variable cr : crypto.
  Hypothesis Hsig : forall sk sk' m, length (cr_sign cr sk m) = length (cr_sign cr sk' m).

  Definition hstep (op : hop) (c : core) (w : world) : step_out :=
    match op with
    | HAppend f batch => mstep false OAppend (core_append cr f batch) c w
    | HClear f s e => mstep false OClear (core_clear cr f s e) c w
    | HGet i => mstep true OGet (core_get i) c w
    | HHas i => (OHas (core_has c i), true, c, w)
    | HInfo => (OInfo (core_info c), true, c, w)
    | HReadOnly => mstep false OReadOnly (core_make_read_only cr) c w
    | HReopen =>
        let x := core_open cr None true (w_disk w) in
        let w' := mkWorld (fst (fst x)) (rev (snd (fst x)) ++ w_journal w) (w_events w) in
        (OReopen (res_unit (snd x)), is_ok (snd x), match snd x with Ok c' => c' | _ => c end, w')
    end.

  (* observations, final core, final world *)
  Fixpoint hrun (ops : list hop) (c : core) (w : world) : list hobs * core * world :=
    match ops with
    | [] => ([], c, w)
    | op :: rest =>
        let s := hstep op c w in
        if so_go s
        then let r := hrun rest (so_core s) (so_world s) in (so_obs s :: fst (fst r), snd (fst r), snd r)
        else ([so_obs s], so_core s, so_world s)
    end.

  Definition so_sim (s1 s2 : step_out) : Prop :=
    so_obs s1 = so_obs s2 /\ so_go s1 = so_go s2 /\ sim (so_core s1) (so_core s2) /\
    w_sim (so_world s1) (so_world s2).

  Lemma mstep_sim {A} always (mk : res A -> hobs) (m1 m2 : M A) c1 w1 c2 w2 :
    msim eq m1 m2 -> sim c1 c2 -> w_sim w1 w2 -> so_sim (mstep always mk m1 c1 w1) (mstep always mk m2 c2 w2).
  Proof.
    intros Hm S W. destruct (Hm c1 w1 c2 w2 S W) as (S' & W' & R). apply res_rel_eq in R.
    unfold so_sim, mstep, so_obs, so_go, so_core, so_world. cbn [fst snd]. rewrite R. auto.
  Qed.

  (* what a reopen needs: the two oplog files decode to related outcomes *)
  Definition reopen_point (w1 w2 : world) : Prop :=
    res_rel oo_sim (oplog_open cr None (f_content (d_oplog (w_disk w1))))
                   (oplog_open cr None (f_content (d_oplog (w_disk w2)))).

  Theorem hstep_sim op c1 w1 c2 w2 :
    sim c1 c2 -> w_sim w1 w2 -> (op = HReopen -> reopen_point w1 w2) ->
    so_sim (hstep op c1 w1) (hstep op c2 w2).
  Proof.
    intros S W Hr. destruct op as [f batch|f s e|i|i| | |]; cbn [hstep].
    - apply mstep_sim; auto using msim_core_append.
    - apply mstep_sim; auto using msim_core_clear.
    - apply mstep_sim; auto using msim_core_get.
    - unfold so_sim, so_obs, so_go, so_core, so_world. cbn [fst snd]. rewrite (core_has_sim c1 c2 i S). auto.
    - unfold so_sim, so_obs, so_go, so_core, so_world. cbn [fst snd]. rewrite (core_info_sim c1 c2 S). auto.
    - apply mstep_sim; auto using msim_core_make_read_only.
    - pose proof W as (D & J & E).
      destruct (reopen_sim cr _ _ D (Hr eq_refl)) as (D' & Ops & R).
      destruct (core_open cr None true (w_disk w1)) as [[d1' o1] r1],
               (core_open cr None true (w_disk w2)) as [[d2' o2] r2].
      cbn [fst snd] in D', Ops, R |- *.
      unfold so_sim, so_obs, so_go, so_core, so_world. cbn [fst snd].
      assert (W' : w_sim (mkWorld d1' (rev o1 ++ w_journal w1) (w_events w1))
                         (mkWorld d2' (rev o2 ++ w_journal w2) (w_events w2))).
      { unfold w_sim. cbn [w_disk w_journal w_events]. split; [exact D'|]. split; [|exact E].
        apply Forall2_app; [apply Forall2_rev', Ops|exact J]. }
      destruct r1, r2; cbn [res_rel] in R; try contradiction; cbn [res_unit is_ok]; subst; auto.
  Qed.

  Fixpoint reopen_ok (ops : list hop) (c1 : core) (w1 : world) (c2 : core) (w2 : world) : Prop :=
    match ops with
    | [] => True
    | op :: rest =>
        (op = HReopen -> reopen_point w1 w2) /\
        (so_go (hstep op c1 w1) = true ->
         reopen_ok rest (so_core (hstep op c1 w1)) (so_world (hstep op c1 w1))
                        (so_core (hstep op c2 w2)) (so_world (hstep op c2 w2)))
    end.

  Fixpoint no_reopen (ops : list hop) : bool :=
    match ops with
    | [] => true
    | HReopen :: _ => false
    | _ :: rest => no_reopen rest
    end.

  Lemma reopen_ok_no_reopen ops : no_reopen ops = true -> forall c1 w1 c2 w2, reopen_ok ops c1 w1 c2 w2.
  Proof.
    induction ops as [|op rest IH]; intros H c1 w1 c2 w2; cbn [reopen_ok]; [exact I|].
    destruct op; cbn [no_reopen] in H; try discriminate H; (split; [discriminate|intros _; apply IH, H]).
  Qed.

  Definition run_sim (r1 r2 : list hobs * core * world) : Prop :=
    fst (fst r1) = fst (fst r2) /\ sim (snd (fst r1)) (snd (fst r2)) /\ w_sim (snd r1) (snd r2).

  Theorem history_sim ops : forall c1 w1 c2 w2,
    sim c1 c2 -> w_sim w1 w2 -> reopen_ok ops c1 w1 c2 w2 ->
    run_sim (hrun ops c1 w1) (hrun ops c2 w2).
  Proof.
    induction ops as [|op rest IH]; intros c1 w1 c2 w2 S W Hok; cbn [hrun].
    - unfold run_sim. cbn [fst snd]. auto.
    - destruct Hok as [Hr Hrest].
      destruct (hstep_sim op c1 w1 c2 w2 S W Hr) as (O & G & S' & W').
      rewrite <- G. destruct (so_go (hstep op c1 w1)) eqn:Ego.
      + specialize (IH _ _ _ _ S' W' (Hrest eq_refl)). destruct IH as (O2 & S2 & W2).
        unfold run_sim. cbn [fst snd]. rewrite O, O2. auto.
      + unfold run_sim. cbn [fst snd]. rewrite O. auto.
  Qed.

  (* ---------- from creation ---------- *)

  Definition start (kp : keypair) : option (core * world) :=
    let x := core_open cr (Some kp) false disk_empty in
    match snd x with
    | Ok c => Some (c, mkWorld (fst (fst x)) (rev (snd (fst x))) [])
    | _ => None
    end.

  Lemma start_sim k1 k2 :
    kp_sim k1 k2 ->
    match start k1, start k2 with
    | Some (c1, w1), Some (c2, w2) => sim c1 c2 /\ w_sim w1 w2
    | None, None => True
    | _, _ => False
    end.
  Proof.
    intros K. destruct (create_sim cr k1 k2 K) as (D & Ops & R). unfold start.
    destruct (core_open cr (Some k1) false disk_empty) as [[d1 o1] r1],
             (core_open cr (Some k2) false disk_empty) as [[d2 o2] r2].
    cbn [fst snd] in *.
    destruct r1, r2; cbn [res_rel] in R; try contradiction; auto.
    split; [exact R|]. unfold w_sim. cbn [w_disk w_journal w_events].
    split; [exact D|]. split; [apply Forall2_rev', Ops|reflexivity].
  Qed.

  (* MAIN THEOREM.  Same history, two key pairs: same observations; tree, bitfield and data files identical;
     oplog files equally long; journals equal outside the oplog store and of the same shape inside. *)
  Theorem other_files_independent_of_secret ops k1 k2 :
    kp_sim k1 k2 ->
    match start k1, start k2 with
    | Some (c1, w1), Some (c2, w2) =>
        reopen_ok ops c1 w1 c2 w2 ->
        let r1 := hrun ops c1 w1 in
        let r2 := hrun ops c2 w2 in
        d_tree (w_disk (snd r1)) = d_tree (w_disk (snd r2)) /\
        d_bitfield (w_disk (snd r1)) = d_bitfield (w_disk (snd r2)) /\
        d_data (w_disk (snd r1)) = d_data (w_disk (snd r2)) /\
        f_len (d_oplog (w_disk (snd r1))) = f_len (d_oplog (w_disk (snd r2))) /\
        fst (fst r1) = fst (fst r2) /\
        w_events (snd r1) = w_events (snd r2) /\
        Forall2 sop_sim (w_journal (snd r1)) (w_journal (snd r2)) /\
        filter not_oplog (w_journal (snd r1)) = filter not_oplog (w_journal (snd r2))
    | None, None => True
    | _, _ => False
    end.
  Proof.
    intros K. pose proof (start_sim k1 k2 K) as H.
    destruct (start k1) as [[c1 w1]|], (start k2) as [[c2 w2]|]; try contradiction; [|exact I].
    destruct H as [S W]. intros Hok.
    destruct (history_sim ops c1 w1 c2 w2 S W Hok) as (O & S' & (Dt & Dd & Db & Dl) & J & E).
    cbv zeta. repeat (split; [assumption|]). apply journal_other_stores, J.
  Qed.

  (* histories without reopen: unconditional *)
  Corollary other_files_independent_of_secret_no_reopen ops k1 k2 :
    kp_sim k1 k2 -> no_reopen ops = true ->
    match start k1, start k2 with
    | Some (c1, w1), Some (c2, w2) =>
        let r1 := hrun ops c1 w1 in
        let r2 := hrun ops c2 w2 in
        d_tree (w_disk (snd r1)) = d_tree (w_disk (snd r2)) /\
        d_bitfield (w_disk (snd r1)) = d_bitfield (w_disk (snd r2)) /\
        d_data (w_disk (snd r1)) = d_data (w_disk (snd r2)) /\
        f_len (d_oplog (w_disk (snd r1))) = f_len (d_oplog (w_disk (snd r2))) /\
        fst (fst r1) = fst (fst r2) /\
        filter not_oplog (w_journal (snd r1)) = filter not_oplog (w_journal (snd r2))
    | None, None => True
    | _, _ => False
    end.
  Proof.
    intros K N. pose proof (other_files_independent_of_secret ops k1 k2 K) as H.
    destruct (start k1) as [[c1 w1]|], (start k2) as [[c2 w2]|]; try contradiction; [|exact I].
    destruct (H (reopen_ok_no_reopen ops N c1 w1 c2 w2)) as (A & B & C & D & E & _ & _ & F).
    cbv zeta. repeat (split; [assumption|]). exact F.
  Qed.
End Hist.

Print Assumptions history_sim.
Print Assumptions other_files_independent_of_secret.
Print Assumptions other_files_independent_of_secret_no_reopen.

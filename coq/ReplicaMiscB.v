(* ReplicaMiscB.v -- C12 on replicas: make_read_only on a core that never had a secret.
   From the replica invariant RDInv (ReplicaDisk1.v; kp_secret = None): core_make_read_only returns Ok false, runs
   the flush with clear_traces (bitfield pages, tree nodes, BOTH header slots rewritten with the same secret-free
   header, two truncates), keeps RDInv with the SAME held set H and length, leaves no pending entries, changes no
   observation; core_append afterwards still refuses with NotWritable; a reopen afterwards is read-only with the same
   observations; every cut of the call's journal is a replica disk (RDisk) for the same (H, r) and reopens to the
   same observations. *)
From HC Require Import Base NMap Codec CodecFacts Crypto FlatTree Storage Bitfield Oplog Merkle Core.
From HC Require Import FlatTreeFacts StorageFacts BitfieldFacts OplogFacts TreeRef OffsetFacts CoreFacts Crash Refine.
From HC Require Import ClearRefine Reopen ContigBridge Unified1 Unified2 CrashCore1 CrashCore2 CrashClear1.
From HC Require Import Sound NoPanic Replicate SoundCoreLib SoundCore SoundCoreUp SoundCoreBU.
From HC Require Import ReplicaDisk1 ReplicaDisk2 ReplicaDisk3 ReplicaDisk4 ReplicaDisk5 ReplicaDisk6 ReplicaDisk7.
From HC Require Import ReadOnly.
From Coq Require Import FMapPositive ZifyN ZifyNat ZifyBool.
Ltac Zify.zify_post_hook ::= Z.div_mod_to_equations.
Arguments N.add : simpl never.
Arguments N.sub : simpl never.
Arguments N.mul : simpl never.
Arguments N.div : simpl never.
Arguments N.modulo : simpl never.
Arguments N.pow : simpl never.
Arguments N.eqb : simpl never.
Arguments N.ltb : simpl never.
Arguments N.leb : simpl never.
Arguments N.max : simpl never.
Arguments N.min : simpl never.
Arguments N.of_nat : simpl never.
Arguments N.to_nat : simpl never.

(* ====================================================================================== *)
(* A. On a replica the erasure is the identity                                             *)
(* ====================================================================================== *)

Section Erase.
  Variable cr : crypto.
  Hypothesis Hhash32 : forall x, length (cr_hash cr x) = 32%nat.
  Hypothesis Hnonblank : forall x, all_zero (cr_hash cr x) = false.
  Variable bs : list bytes.
  Hypothesis Hw : writer_fits bs.

  (* the header in memory carries the replica's key pair: no secret *)
  Lemma RDInv_hd_keypair c d H :
    RDInv cr bs c d H -> hd_keypair (c_header c) = mkKeypair (kp_public (c_keypair c)) None.
  Proof.
    intros X. pose proof (RDInv_keypair cr bs c d H X) as K.
    destruct X as (_ & _ & _ & Hk & _). rewrite <- Hk. exact K.
  Qed.

  Lemma RDInv_ro_keypair c d H : RDInv cr bs c d H -> ro_keypair c = c_keypair c.
  Proof. intros X. unfold ro_keypair. symmetry. apply (RDInv_keypair cr bs c d H X). Qed.

  Lemma RDInv_ro_header c d H : RDInv cr bs c d H -> ro_header c = c_header c.
  Proof.
    intros X. pose proof (RDInv_hd_keypair c d H X) as K. unfold ro_header.
    rewrite K. cbn [kp_public]. rewrite <- K. destruct (c_header c); reflexivity.
  Qed.

  Lemma RDInv_erased c d H : RDInv cr bs c d H -> erased c = c.
  Proof.
    intros X. unfold erased. rewrite (RDInv_ro_keypair c d H X), (RDInv_ro_header c d H X).
    destruct c; reflexivity.
  Qed.

  Lemma RDInv_not_writable c d H : RDInv cr bs c d H -> i_writeable (core_info c) = false.
  Proof. intros X. unfold core_info. cbn [i_writeable]. rewrite (RDInv_keypair cr bs c d H X). reflexivity. Qed.
End Erase.

(* ====================================================================================== *)
(* B. SoundCore.RInv across the flush of the tree nodes                                    *)
(* ====================================================================================== *)

Section FlushRInv.
  Variable cr : crypto.
  Hypothesis Hhash32 : forall x, length (cr_hash cr x) = 32%nat.
  Hypothesis Hnonblank : forall x, all_zero (cr_hash cr x) = false.
  Variable bs : list bytes.
  Hypothesis Hw : writer_fits bs.

  Lemma RInv_unflushed_ok c d : SoundCore.RInv cr bs c d -> unflushed_ok (c_tree c).
  Proof.
    intros W. destruct Hw as [Hw1 _].
    apply (unfl_sound_ok cr Hhash32 bs (c_tree c) (t_length (c_tree c)) Hw1). apply W.
  Qed.

  (* any core with the flushed tree and the same bits, on any disk whose tree store received the unflushed nodes
     and whose data store is unchanged *)
  Lemma RInv_flushed c d c' d' :
    SoundCore.RInv cr bs c d ->
    c_tree c' = flushed_tree (c_tree c) ->
    (forall i, bf_get (c_bitfield c') i = bf_get (c_bitfield c) i) ->
    d_tree d' = write_nodes (d_tree d) (unflushed_nodes (c_tree c)) -> d_data d' = d_data d ->
    SoundCore.RInv cr bs c' d'.
  Proof.
    intros W Et Eb Edt Edd.
    pose proof (RInv_unflushed_ok c d W) as Hun.
    destruct W as (H1 & H2 & H3 & H4 & H5 & H6 & H7 & H8). destruct Hw as [Hw1 Hw2].
    set (t := c_tree c) in *. set (r := t_length t) in *.
    set (d1 := d_set d Tree (write_nodes (d_tree d) (unflushed_nodes t))).
    assert (TF : tree_flush t = Ok (flushed_tree t, node_ops t)) by apply (tree_flush_ok t Hun).
    assert (A : apply_sops d (node_ops t) = Some d1) by (unfold node_ops; apply apply_node_writes).
    assert (T1 : d_tree d1 = d_tree d') by (rewrite Edt; destruct d; reflexivity).
    destruct (tree_flush_sound cr Hhash32 Hnonblank bs t _ _ d d1 r Hw1 TF A H5 H6) as [S1 S2].
    assert (Gav : forall j x, NODE_SIZE * j <= u64_max -> required_node t (d_tree d) j = Ok x ->
                              required_node (flushed_tree t) (d_tree d') j = Ok x).
    { intros j x Hj Hr. rewrite <- T1. apply (tree_flush_preserves_lookups t _ _ d d1 j x TF A Hun Hj Hr). }
    unfold SoundCore.RInv. cbv zeta. rewrite Et, Edd.
    cbn [flushed_tree t_length t_roots t_byte_length t_fork]. fold r.
    split; [exact H1|]. split; [exact H2|]. split; [exact H3|]. split; [exact H4|].
    split; [exact S1|]. split; [rewrite <- T1; exact S2|]. split.
    - intros x Hx. apply Gav; [|apply H7, Hx].
      rewrite H3 in Hx. destruct (root_is_ref cr bs _ _ Hx) as (D & P & -> & Hroot).
      rewrite ref_node_index. apply (index_fits cr bs (conj Hw1 Hw2) D P r); [|exact H1].
      apply is_root_bounds, Hroot.
    - intros i Hi. rewrite Eb in Hi. destruct (H8 i Hi) as (A1 & A2 & A3 & A4).
      split; [exact A1|]. split; [|split; [|exact A4]].
      + apply Gav; [|exact A2]. replace (2 * i) with (ft_index (N.of_nat 0) i)
          by (change (N.of_nat 0) with 0; apply ft_index_leaf).
        apply (index_fits cr bs (conj Hw1 Hw2) 0 i r); [rewrite p2_0; lia|exact H1].
      + intros dd oo C1 C2 C3. apply Gav; [|apply A3; assumption].
        apply (index_fits cr bs (conj Hw1 Hw2) dd (2 * oo) r); [|exact H1].
        pose proof (p2_pos dd). nia.
  Qed.
End FlushRInv.

(* ====================================================================================== *)
(* C. The call from an RDInv state                                                         *)
(* ====================================================================================== *)

Section Run.
  Variable cr : crypto.
  Hypothesis Hcrc : crc_ok cr.
  Hypothesis Hhash32 : forall x, length (cr_hash cr x) = 32%nat.
  Hypothesis Hnonblank : forall x, all_zero (cr_hash cr x) = false.
  Hypothesis Hhashbytes : forall x, bytes_ok (cr_hash cr x) = true.
  Variable bs : list bytes.
  Hypothesis Hw : writer_fits bs.

  Lemma RDInv_slot_fit c d H : RDInv cr bs c d H -> 8 + len (enc_header (c_header c)) <= HEADER_SIZE.
  Proof.
    intros X. destruct (RDInv_header cr Hhash32 Hnonblank Hhashbytes bs Hw c d H X) as (_ & [F|F]); [discriminate F|lia].
  Qed.

  (* the stores after the whole journal of the call *)
  Lemma ro_stores c d d3 :
    apply_sops (disk_nodes c d) (ro_oplog_ops cr (ol_bits (c_oplog c)) (ro_header c)) = Some d3 ->
    d_tree d3 = write_nodes (d_tree d) (unflushed_nodes (c_tree c)) /\
    d_data d3 = d_data d /\
    d_bitfield d3 = write_pages (d_bitfield d) (bf_bits (c_bitfield c)) (bf_dirty (c_bitfield c)).
  Proof.
    intros A3.
    assert (Hops : Forall (fun o => sop_store o = Oplog) (ro_oplog_ops cr (ol_bits (c_oplog c)) (ro_header c)))
      by apply ro_oplog_ops_store.
    assert (S3 : forall s, s <> Oplog -> d_get d3 s = d_get (disk_nodes c d) s).
    { intros s Hs'. apply (apply_sops_other _ _ _ _ A3). intros o Ho Heq.
      rewrite Forall_forall in Hops. rewrite (Hops o Ho) in Heq. apply Hs'. symmetry. exact Heq. }
    split; [|split].
    - change (d_tree d3) with (d_get d3 Tree). rewrite S3 by discriminate. destruct d; reflexivity.
    - change (d_data d3) with (d_get d3 Data). rewrite S3 by discriminate. destruct d; reflexivity.
    - change (d_bitfield d3) with (d_get d3 Bitfield). rewrite S3 by discriminate. destruct d; reflexivity.
  Qed.

  (* MAIN 1: result Ok false, the journal, the invariant with the same held set, no pending entries, both slots
     hold the same secret-free header *)
  Theorem replica_make_read_only c d j ev H :
    RDInv cr bs c d H ->
    let bits := ol_bits (c_oplog c) in
    exists d',
      core_make_read_only cr c (mkWorld d j ev) =
        (ro_core c, mkWorld d' (rev (ro_ops cr c) ++ j) ev, Ok false) /\
      apply_sops d (ro_ops cr c) = Some d' /\
      RDInv cr bs (ro_core c) d' H /\
      c_keypair (ro_core c) = c_keypair c /\ c_header (ro_core c) = c_header c /\
      kp_secret (hd_keypair (c_header c)) = None /\
      t_length (c_tree (ro_core c)) = t_length (c_tree c) /\
      t_unflushed (c_tree (ro_core c)) = nm_empty /\ bf_dirty (c_bitfield (ro_core c)) = [] /\
      ol_entries_len (c_oplog (ro_core c)) = 0 /\ ol_entries_bytes (c_oplog (ro_core c)) = 0 /\
      d_data d' = d_data d /\
      f_content (d_oplog d') =
        slot_bytes cr (negb (fst bits)) (c_header c) ++ slot_bytes cr (negb (snd bits)) (c_header c) /\
      f_len (d_oplog d') = ENTRIES_OFFSET.
  Proof.
    intros X bits.
    pose proof (RDInv_RInv cr bs c d H X) as W.
    pose proof (RInv_unflushed_ok cr Hhash32 bs Hw c d W) as Hun.
    pose proof (RDInv_ro_header cr bs c d H X) as Ehd.
    pose proof (RDInv_ro_keypair cr bs c d H X) as Ekp.
    pose proof (RDInv_slot_fit c d H X) as Hfit.
    pose proof (RDInv_hd_keypair cr bs c d H X) as Khd.
    destruct (RDInv_header cr Hhash32 Hnonblank Hhashbytes bs Hw c d H X) as (Hrep & _).
    assert (Hfit' : 8 + len (enc_header (ro_header c)) <= HEADER_SIZE) by (rewrite Ehd; exact Hfit).
    destruct (make_read_only_run cr c d j ev Hun Hfit') as (d3 & A3 & Aall & E).
    rewrite (RDInv_not_writable cr bs c d H X) in E.
    destruct (ro_stores c d d3 A3) as (T3 & D3 & B3).
    pose proof X as (_ & Hb & Hex & Hk & Hs & s0 & s1 & body & st0 & st1 & hf & l & kf &
                     Hcont & G & Hlen & Hbytes & Hhf & Hh & Hch & Hu & Hst & Hbf & Hsync).
    destruct Hrep as (Hok & Hkp & Hd).
    rewrite Ehd in A3.
    assert (Hops : Forall (fun o => sop_store o = Oplog) (ro_oplog_ops cr bits (c_header c))) by apply ro_oplog_ops_store.
    assert (O2 : d_oplog (disk_nodes c d) = d_oplog d) by (destruct d; reflexivity).
    destruct (read_only_crash cr Hcrc s0 s1 body st0 st1 bits hf l (c_header c) (c_oplog c) _ _ G Hok eq_refl
                (oplog_flush_true cr (c_oplog c) (c_header c) Hfit))
      as (w1 & w2 & a0 & a1 & sa0 & sa1 & bits1 & b0 & b1 & sb0 & sb1 & Eops & _ & C1 & _ & C2 & _ & _ & C3 & GB & _ & _ & C4 & _).
    cbn [ol_bits] in GB. fold bits in Eops. rewrite w_bits_twice in GB.
    destruct (good_slot_lengths cr _ _ _ _ _ _ _ _ G) as [L0 L1].
    assert (Hcont3' : f_content (d_oplog d3) = b0 ++ b1 ++ []).
    { apply (c_apply_all_sound _ (disk_nodes c d) d3 _ Hops A3). rewrite O2, Hcont, Eops.
      cbn [c_apply_all]. rewrite C1, C2, C3, C4. reflexivity. }
    assert (Hcont3 : f_content (d_oplog d3) =
                     slot_bytes cr (negb (fst bits)) (c_header c) ++ slot_bytes cr (negb (snd bits)) (c_header c)).
    { apply (c_apply_all_sound _ (disk_nodes c d) d3 _ Hops A3). rewrite O2, Hcont.
      apply ro_oplog_content; assumption. }
    assert (Hfb : forall i, fbit (d_bitfield d3) i = H i).
    { intros i. rewrite B3, (BfSync_flush _ _ Hsync). apply Hb. }
    assert (W' : SoundCore.RInv cr bs (ro_core c) d3).
    { apply (RInv_flushed cr Hhash32 Hnonblank bs Hw c d (ro_core c) d3 W); try assumption; reflexivity. }
    exists d3. split; [exact E|]. split; [exact Aall|].
    split.
    { unfold RDInv. cbv zeta.
      cbn [ro_core c_tree c_keypair c_bitfield c_header c_oplog t_length t_signature t_unflushed flushed_tree
           ol_bits ol_entries_len ol_entries_bytes].
      rewrite Ehd, Ekp.
      split; [exact W'|].
      split; [intros i; unfold bf_get; cbn [bf_bits]; apply Hb|].
      split; [exact Hex|]. split; [exact Hk|]. split; [exact Hs|].
      exists b0, b1, [], sb0, sb1, (c_header c), [], (t_length (c_tree c)).
      split; [exact Hcont3'|]. split; [exact GB|].
      split; [reflexivity|]. split; [reflexivity|].
      split; [split; [exact Hok|split; [exact Hkp|exact Hd]]|].
      split; [symmetry; apply hdr_after_nil|].
      split; [reflexivity|]. split; [reflexivity|].
      split.
      { destruct W' as (_ & _ & V3 & _ & _ & _ & V7 & _).
        cbn [ro_core c_tree t_roots t_length flushed_tree] in V3, V7.
        intros x Hx. rewrite <- V3 in Hx. specialize (V7 x Hx).
        apply required_node_store_inv in V7; [exact V7|reflexivity]. }
      split.
      { apply BfH_exact; [rewrite B3; apply len_write_pages, Hbf|exact Hfb|exact Hex]. }
      intros i Hne. exfalso. apply Hne. rewrite Hfb. unfold bf_get. cbn [bf_bits]. apply Hb. }
    split; [exact Ekp|]. split; [exact Ehd|]. split; [rewrite Khd; reflexivity|].
    split; [reflexivity|]. split; [reflexivity|]. split; [reflexivity|]. split; [reflexivity|]. split; [reflexivity|].
    split; [exact D3|]. split; [exact Hcont3|].
    rewrite <- f_len_content, Hcont3, len_app. unfold len.
    rewrite !length_slot_bytes by assumption. reflexivity.
  Qed.
End Run.

(* ====================================================================================== *)
(* D. Observations, append, reopen                                                         *)
(* ====================================================================================== *)

Section After.
  Variable cr : crypto.
  Hypothesis Hcrc : crc_ok cr.
  Hypothesis Hhash32 : forall x, length (cr_hash cr x) = 32%nat.
  Hypothesis Hnonblank : forall x, all_zero (cr_hash cr x) = false.
  Hypothesis Hhashbytes : forall x, bytes_ok (cr_hash cr x) = true.
  Variable bs : list bytes.
  Hypothesis Hw : writer_fits bs.

  (* a replica refuses every append, whatever the batch and the flush decision; nothing changes *)
  Theorem replica_append_refused c d H f batch w :
    RDInv cr bs c d H -> core_append cr f batch c w = (c, w, Err NotWritable).
  Proof.
    intros X. unfold core_append. rewrite mbind_get_core.
    rewrite (RDInv_keypair cr bs c d H X). cbn [kp_secret]. reflexivity.
  Qed.

  (* MAIN 2: no observation changes: info (length, byte length, contiguous length, fork, writeable = false), has,
     get (value, and the event sent for a block that is not held) *)
  Theorem replica_make_read_only_observations c d j ev H :
    RDInv cr bs c d H ->
    let r := t_length (c_tree c) in
    exists d',
      core_make_read_only cr c (mkWorld d j ev) =
        (ro_core c, mkWorld d' (rev (ro_ops cr c) ++ j) ev, Ok false) /\
      RDInv cr bs (ro_core c) d' H /\
      obs_replica bs c d H r /\ obs_replica bs (ro_core c) d' H r /\
      core_info (ro_core c) = core_info c /\ i_writeable (core_info c) = false /\
      i_length (core_info (ro_core c)) = r /\
      (forall i, core_has (ro_core c) i = core_has c i) /\
      (forall i j' ev',
         snd (core_get i (ro_core c) (mkWorld d' j' ev')) = snd (core_get i c (mkWorld d j' ev')) /\
         w_events (snd (fst (core_get i (ro_core c) (mkWorld d' j' ev')))) =
         w_events (snd (fst (core_get i c (mkWorld d j' ev'))))) /\
      (* append is refused before and after, leaving the state as it is *)
      (forall f batch w, core_append cr f batch c w = (c, w, Err NotWritable)) /\
      (forall f batch w, core_append cr f batch (ro_core c) w = (ro_core c, w, Err NotWritable)).
  Proof.
    intros X r.
    destruct (replica_make_read_only cr Hcrc Hhash32 Hnonblank Hhashbytes bs Hw c d j ev H X)
      as (d' & E & _ & X' & _ & _ & _ & L & _).
    pose proof (RD_observations cr bs Hw c d H X) as O. fold r in O.
    pose proof (RD_observations cr bs Hw (ro_core c) d' H X') as O'. rewrite L in O'. fold r in O'.
    destruct (obs_replica_same bs c d (ro_core c) d' H r O O') as (I1 & I2 & _).
    exists d'. split; [exact E|]. split; [exact X'|]. split; [exact O|]. split; [exact O'|].
    split; [exact I1|]. split; [apply (RDInv_not_writable cr bs c d H X)|]. split; [reflexivity|].
    split; [exact I2|]. split.
    { intros i j' ev'. rewrite (RD_get cr bs Hw c d H j' ev' i X), (RD_get cr bs Hw (ro_core c) d' H j' ev' i X').
      destruct (H i); split; reflexivity. }
    split; intros f batch w.
    - apply (replica_append_refused c d H f batch w X).
    - apply (replica_append_refused (ro_core c) d' H f batch w X').
  Qed.

  (* MAIN 3: the reopen after the call: nothing to repair, read-only, the same tree / header / key pair (no secret),
     the same observations, the invariant with the same held set, append refused *)
  Theorem replica_read_only_reopen c d j ev H :
    RDInv cr bs c d H ->
    exists d' c2,
      core_make_read_only cr c (mkWorld d j ev) =
        (ro_core c, mkWorld d' (rev (ro_ops cr c) ++ j) ev, Ok false) /\
      core_open cr None true d' = (d', [], Ok c2) /\
      RDInv cr bs c2 d' H /\
      c_tree c2 = flushed_tree (c_tree c) /\ c_header c2 = c_header c /\ c_keypair c2 = c_keypair c /\
      kp_secret (c_keypair c2) = None /\ ol_entries_len (c_oplog c2) = 0 /\
      obs_replica bs c2 d' H (t_length (c_tree c)) /\
      core_info c2 = core_info c /\ i_writeable (core_info c2) = false /\
      (forall i, core_has c2 i = core_has c i) /\
      (forall i j' ev',
         snd (core_get i c2 (mkWorld d' j' ev')) = snd (core_get i c (mkWorld d j' ev')) /\
         w_events (snd (fst (core_get i c2 (mkWorld d' j' ev')))) =
         w_events (snd (fst (core_get i c (mkWorld d j' ev'))))) /\
      (forall f batch w, core_append cr f batch c2 w = (c2, w, Err NotWritable)).
  Proof.
    intros X.
    destruct (replica_make_read_only cr Hcrc Hhash32 Hnonblank Hhashbytes bs Hw c d j ev H X)
      as (d' & E & _ & X' & K1 & K2 & _ & L & _).
    destruct (reopen_RDInv cr Hcrc Hnonblank bs Hw (ro_core c) d' H X')
      as (c2 & Eo & X2 & Et & Eh & Ek & Eol & Ebf & _).
    exists d', c2. split; [exact E|]. split; [exact Eo|]. split; [exact X2|].
    split; [rewrite Et; reflexivity|]. split; [rewrite Eh; exact K2|]. split; [rewrite Ek; exact K1|].
    split; [rewrite (RDInv_keypair cr bs c2 d' H X2); reflexivity|].
    split; [rewrite Eol; reflexivity|].
    assert (L2 : t_length (c_tree c2) = t_length (c_tree c)) by (rewrite Et; exact L).
    pose proof (RD_observations cr bs Hw c d H X) as O.
    pose proof (RD_observations cr bs Hw c2 d' H X2) as O2. rewrite L2 in O2.
    destruct (obs_replica_same bs c d c2 d' H _ O O2) as (I1 & I2 & _).
    split; [exact O2|]. split; [exact I1|].
    split; [apply (RDInv_not_writable cr bs c2 d' H X2)|]. split; [exact I2|]. split.
    { intros i j' ev'. rewrite (RD_get cr bs Hw c d H j' ev' i X), (RD_get cr bs Hw c2 d' H j' ev' i X2).
      destruct (H i); split; reflexivity. }
    intros f batch w. apply (replica_append_refused c2 d' H f batch w X2).
  Qed.
End After.

(* ====================================================================================== *)
(* E. A crash inside the call: every cut of its journal is a replica disk for the same (H, r)   *)
(* ====================================================================================== *)

(* a group of oplog writes / truncates applied to a disk: the other stores stay, the oplog content follows c_apply *)
Lemma oplog_ops_cut dn pre x :
  Forall (fun o => sop_store o = Oplog) pre -> Forall no_del pre ->
  c_apply_all (f_content (d_oplog dn)) pre = Some x ->
  exists dk, apply_sops dn pre = Some dk /\ d_tree dk = d_tree dn /\ d_data dk = d_data dn /\
             d_bitfield dk = d_bitfield dn /\ f_content (d_oplog dk) = x.
Proof.
  intros Hops Hnd Hc. destruct (apply_sops_total pre dn Hnd) as (dk & A). exists dk. split; [exact A|].
  assert (S : forall s, s <> Oplog -> d_get dk s = d_get dn s).
  { intros s Hs'. apply (apply_sops_other _ _ _ _ A). intros o Ho Heq.
    rewrite Forall_forall in Hops. rewrite (Hops o Ho) in Heq. apply Hs'. symmetry. exact Heq. }
  split; [apply (S Tree); discriminate|]. split; [apply (S Data); discriminate|].
  split; [apply (S Bitfield); discriminate|].
  apply (c_apply_all_sound pre dn dk x Hops A Hc).
Qed.

Section Cuts.
  Variable cr : crypto.
  Hypothesis Hcrc : crc_ok cr.
  Hypothesis Hhash32 : forall x, length (cr_hash cr x) = 32%nat.
  Hypothesis Hnonblank : forall x, all_zero (cr_hash cr x) = false.
  Hypothesis Hhashbytes : forall x, bytes_ok (cr_hash cr x) = true.
  Variable bs : list bytes.
  Hypothesis Hw : writer_fits bs.

  (* MAIN 4: the journal is [dirty bitfield pages; unflushed tree nodes; slot write; truncate; other slot write;
     truncate]; every prefix applied to the disk before the call gives a replica disk with the same held set and
     length: up to the first slot write the old header with its pending entries, afterwards the header in memory
     with no entries *)
  Theorem replica_make_read_only_cuts c d H :
    RDInv cr bs c d H ->
    cuts_ok d (ro_ops cr c) (fun dk => RDisk cr bs (kp_public (c_keypair c)) dk H (t_length (c_tree c))).
  Proof.
    intros X.
    pose proof (RDInv_RDisk cr bs c d H X) as XD.
    pose proof (RDInv_RInv cr bs c d H X) as W.
    pose proof (RInv_unflushed_ok cr Hhash32 bs Hw c d W) as Hun.
    pose proof (RDInv_ro_header cr bs c d H X) as Ehd.
    pose proof (RDInv_slot_fit cr Hhash32 Hnonblank Hhashbytes bs Hw c d H X) as Hfit.
    destruct (RDInv_header cr Hhash32 Hnonblank Hhashbytes bs Hw c d H X) as (Hrep & _).
    destruct (replica_make_read_only cr Hcrc Hhash32 Hnonblank Hhashbytes bs Hw c d [] [] H X)
      as (d3 & _ & Aall & Xfin & _ & _ & _ & Lfin & _).
    pose proof X as (_ & Hb & Hex & Hk & Hs & s0 & s1 & body & st0 & st1 & hf & l & kf &
                     Hcont & G & Hlen & Hbytes & Hhf & Hh & Hch & Hu & Hst & Hbf & Hsync).
    unfold ro_ops in Aall |- *. rewrite Ehd in Aall |- *.
    rewrite apply_sops_app, apply_page_ops, apply_sops_app, apply_node_ops in Aall.
    assert (Est : d_tree d3 = write_nodes (d_tree d) (unflushed_nodes (c_tree c)) /\ d_data d3 = d_data d).
    { destruct (ro_stores cr c d d3) as (T3 & D3 & _); [rewrite Ehd; exact Aall|]. split; assumption. }
    destruct Est as [T3 D3].
    set (pk := kp_public (c_keypair c)) in *. set (r := t_length (c_tree c)) in *.
    destruct Hw as [Hw1 Hw2].
    set (b := c_bitfield c) in *. set (t := c_tree c) in *. set (ws := unflushed_nodes t) in *.
    set (bits := ol_bits (c_oplog c)) in *. set (hn := c_header c) in *.
    set (fb := write_pages (d_bitfield d) (bf_bits b) (bf_dirty b)).
    set (ft := write_nodes (d_tree d) ws) in *.
    set (dn := disk_nodes c d) in *.
    assert (Tn : d_tree dn = ft) by (destruct d; reflexivity).
    assert (Dn : d_data dn = d_data d) by (destruct d; reflexivity).
    assert (Bn : d_bitfield dn = fb) by (destruct d; reflexivity).
    assert (On : d_oplog dn = d_oplog d) by (destruct d; reflexivity).
    (* the unflushed nodes are the writer's *)
    assert (Hws : auth_list cr bs r ws).
    { intros v Hv. pose proof (unflushed_nodes_get t v Hun Hv) as Gv.
      destruct W as (_ & _ & _ & _ & W5 & _). destruct (W5 _ _ Gv) as [E1 E2]. split; assumption. }
    (* disks that still carry the old oplog and data *)
    destruct XD as (t0 & t1 & tbody & tst0 & tst1 & tbits & thf & tl & tkf & Tcont & TO & Thf & Tch & Tst & TT & Tbf).
    assert (Old : forall dk ws' ps, (forall v, In v ws' -> In v ws) ->
                  d_tree dk = write_nodes (d_tree d) ws' -> d_data dk = d_data d -> d_oplog dk = d_oplog d ->
                  d_bitfield dk = write_pages (d_bitfield d) (bf_bits b) ps ->
                  RDisk cr bs pk dk H r).
    { intros dk ws' ps Hsub Et Edd Eo Ebb.
      assert (Hws' : auth_list cr bs r ws') by (intros v Hv; apply Hws, Hsub, Hv).
      exists t0, t1, tbody, tst0, tst1, tbits, thf, tl, tkf. rewrite Et, Edd, Eo, Ebb.
      split; [exact Tcont|]. split; [exact TO|]. split; [exact Thf|].
      split; [apply (rchain_write_nodes cr Hhash32 Hnonblank bs Hw1 pk _ r); assumption|].
      split; [apply (store_roots_write_nodes cr Hhash32 bs Hw1 _ _ r); assumption|].
      split; [apply (RTree_write_nodes cr Hhash32 Hnonblank bs Hw1); assumption|].
      apply BfH_write_pages; [exact Tbf|exact Hb]. }
    (* the stores once everything but the header is flushed *)
    pose proof (RDInv_RInv cr bs _ _ H Xfin) as Wfin.
    assert (Fst : store_roots cr bs ft r).
    { destruct Wfin as (_ & _ & V3 & _ & _ & _ & V7 & _).
      cbn [ro_core c_tree t_roots t_length flushed_tree] in V3, V7. fold t r in V3, V7. rewrite T3 in V7.
      intros x Hx. rewrite <- V3 in Hx. specialize (V7 x Hx).
      apply required_node_store_inv in V7; [exact V7|reflexivity]. }
    assert (FT : RTree cr bs (rtree cr bs r None []) ft (d_data d) H).
    { pose proof (proj1 (RInv_RTree cr bs (ro_core c) d3) Wfin) as WT.
      cbn [ro_core c_tree c_bitfield] in WT. rewrite T3, D3 in WT. fold t in WT.
      refine (RTree_ext cr bs _ _ _ _ _ H _ _ _ _ _ _ WT);
        cbn [rtree flushed_tree t_roots t_length t_byte_length t_fork t_unflushed]; try reflexivity.
      - destruct W as (_ & _ & W3 & _). symmetry. exact W3.
      - destruct W as (_ & _ & _ & W4 & _). symmetry. exact W4.
      - destruct W as (_ & W2 & _). symmetry. exact W2.
      - intros i. unfold bf_get. cbn [bf_bits]. symmetry. apply Hb. }
    assert (Fb : BfH fb [] (hd_contig hn) H).
    { apply BfH_exact; [apply len_write_pages, Hbf| |exact Hex].
      intros i. unfold fb. rewrite (BfSync_flush _ _ Hsync). apply Hb. }
    destruct Hrep as (Hok & Hkp & Hd).
    (* disks with everything flushed and the new header current *)
    assert (New : forall dk x0 x1 xb sx0 sx1 xbits,
              d_tree dk = ft -> d_data dk = d_data d -> d_bitfield dk = fb ->
              f_content (d_oplog dk) = x0 ++ x1 ++ xb -> OplX cr x0 x1 xb sx0 sx1 xbits hn [] ->
              RDisk cr bs pk dk H r).
    { intros dk x0 x1 xb sx0 sx1 xbits Et Edd Ebb Ec Ox.
      exists x0, x1, xb, sx0, sx1, xbits, hn, [], r. rewrite Et, Edd, Ebb.
      cbn [flat_map updates_of].
      split; [exact Ec|]. split; [exact Ox|].
      split; [split; [exact Hok|split; [exact Hkp|exact Hd]]|]. split; [reflexivity|].
      split; [exact Fst|]. split; [exact FT|exact Fb]. }
    (* the two header writes *)
    pose proof G as (H0 & H1 & Hchs & Hf & Hoks).
    destruct (good_slot_lengths cr _ _ _ _ _ _ _ _ G) as [L0 L1].
    destruct (header_write_step cr s0 s1 st0 st1 bits hf hn 0 true _ _ H0 H1 Hchs Hok (or_introl eq_refl)
                (insert_header_true cr hn 0 bits Hfit))
      as (fr1 & pad1 & _ & _ & _ & _ & Eo1 & Hwr1 & sa0 & sa1 & A0 & A1 & HchA & HcbA).
    injection Eo1 as Esl1. rewrite <- Esl1 in *. clear Esl1 fr1 pad1.
    set (sl1 := slot_bytes cr (w_bit bits) hn) in *.
    set (a0 := put0 (w_slot bits) sl1 s0) in *. set (a1 := put1 (w_slot bits) sl1 s1) in *.
    destruct (header_write_step cr a0 a1 sa0 sa1 (w_bits bits) hn hn 0 true _ _ A0 A1 HchA Hok (or_introl eq_refl)
                (insert_header_true cr hn 0 (w_bits bits) Hfit))
      as (fr2 & pad2 & _ & _ & _ & _ & Eo2 & Hwr2 & sb0 & sb1 & B0 & B1 & HchB & _).
    injection Eo2 as Esl2. rewrite <- Esl2 in *. clear Esl2 fr2 pad2.
    set (sl2 := slot_bytes cr (w_bit (w_bits bits)) hn) in *.
    set (b0 := put0 (w_slot (w_bits bits)) sl2 a0) in *. set (b1 := put1 (w_slot (w_bits bits)) sl2 a1) in *.
    assert (LA0 : length a0 = SLOT) by (destruct sa0; apply A0).
    assert (LA1 : length a1 = SLOT) by (destruct sa1; apply A1).
    assert (LB0 : length b0 = SLOT) by (destruct sb0; apply B0).
    assert (LB1 : length b1 = SLOT) by (destruct sb1; apply B1).
    assert (GA : good cr a0 a1 [] sa0 sa1 (w_bits bits) hn []) by (repeat split; auto).
    assert (GB : good cr b0 b1 [] sb0 sb1 (w_bits (w_bits bits)) hn []) by (repeat split; auto).
    (* the cuts *)
    apply (cuts_app d _ _ _ (disk_pages c d)).
    { intros k. unfold page_ops. rewrite firstn_map, apply_page_writes. eexists. split; [reflexivity|].
      apply (Old _ [] (firstn k (bf_dirty b))); try (destruct d as [f1 f2 f3 f4]; reflexivity). intros v []. }
    { apply apply_page_ops. }
    apply (cuts_app _ _ _ _ dn).
    { intros k. unfold node_ops. fold ws. rewrite firstn_map, apply_node_writes. eexists. split; [reflexivity|].
      apply (Old _ (firstn k ws) (bf_dirty b)); try (destruct d as [f1 f2 f3 f4]; reflexivity).
      intros v Hv. eapply in_firstn. exact Hv. }
    { apply apply_node_ops. }
    intros k. unfold ro_oplog_ops. fold sl1 sl2.
    assert (Cut : forall pre x0 x1 xb sx0 sx1 xbits,
              Forall (fun o => sop_store o = Oplog) pre -> Forall no_del pre ->
              c_apply_all (s0 ++ s1 ++ body) pre = Some (x0 ++ x1 ++ xb) ->
              OplX cr x0 x1 xb sx0 sx1 xbits hn [] ->
              exists dk, apply_sops dn pre = Some dk /\ RDisk cr bs pk dk H r).
    { intros pre x0 x1 xb sx0 sx1 xbits P1 P2 P3 P4.
      destruct (oplog_ops_cut dn pre (x0 ++ x1 ++ xb) P1 P2) as (dk & Ak & Q1 & Q2 & Q3 & Q4).
      { rewrite On, Hcont. exact P3. }
      exists dk. split; [exact Ak|].
      apply (New dk x0 x1 xb sx0 sx1 xbits); [rewrite Q1; exact Tn|rewrite Q2; exact Dn|rewrite Q3; exact Bn|exact Q4|exact P4]. }
    assert (T0 : forall x0 x1 xb, length x0 = SLOT -> length x1 = SLOT ->
                 c_apply (x0 ++ x1 ++ xb) (ST Oplog (ENTRIES_OFFSET + 0)) = Some (x0 ++ x1 ++ [])).
    { intros x0 x1 xb E0 E1. cbn [c_apply]. rewrite N.add_0_r. rewrite c_truncate_all_entries by assumption. reflexivity. }
    assert (W1 : forall xb, c_apply (s0 ++ s1 ++ xb) (SW Oplog (w_slot bits) sl1) = Some (a0 ++ a1 ++ xb)).
    { intros xb. cbn [c_apply]. rewrite Hwr1. reflexivity. }
    assert (W2 : forall xb, c_apply (a0 ++ a1 ++ xb) (SW Oplog (w_slot (w_bits bits)) sl2) = Some (b0 ++ b1 ++ xb)).
    { intros xb. cbn [c_apply]. rewrite Hwr2. reflexivity. }
    destruct k as [|[|[|[|k]]]]; cbn [firstn].
    - exists dn. split; [reflexivity|].
      apply (Old dn ws (bf_dirty b)); [intros v Hv; exact Hv|exact Tn|exact Dn|exact On|exact Bn].
    - apply (Cut _ a0 a1 body sa0 sa1 (w_bits bits)); [repeat constructor|repeat constructor| |].
      + cbn [c_apply_all]. rewrite W1. reflexivity.
      + right. split; [reflexivity|]. split; [exact A0|]. split; [exact A1|]. split; [exact HchA|].
        exists (current_bit bits), l. split; [exact HcbA|exact Hf].
    - apply (Cut _ a0 a1 [] sa0 sa1 (w_bits bits)); [repeat constructor|repeat constructor| |left; exact GA].
      cbn [c_apply_all]. rewrite W1. cbv iota. rewrite (T0 a0 a1 body LA0 LA1). reflexivity.
    - apply (Cut _ b0 b1 [] sb0 sb1 (w_bits (w_bits bits))); [repeat constructor|repeat constructor| |left; exact GB].
      cbn [c_apply_all]. rewrite W1. cbv iota. rewrite (T0 a0 a1 body LA0 LA1). cbv iota.
      rewrite W2. reflexivity.
    - rewrite firstn_nil.
      apply (Cut _ b0 b1 [] sb0 sb1 (w_bits (w_bits bits))); [repeat constructor|repeat constructor| |left; exact GB].
      cbn [c_apply_all]. rewrite W1. cbv iota. rewrite (T0 a0 a1 body LA0 LA1). cbv iota.
      rewrite W2. cbv iota. rewrite (T0 b0 b1 [] LB0 LB1). reflexivity.
  Qed.
End Cuts.

Section Recover.
  Variable cr : crypto.
  Hypothesis Hcrc : crc_ok cr.
  Hypothesis Hhash32 : forall x, length (cr_hash cr x) = 32%nat.
  Hypothesis Hnonblank : forall x, all_zero (cr_hash cr x) = false.
  Hypothesis Hhashbytes : forall x, bytes_ok (cr_hash cr x) = true.
  Variable bs : list bytes.
  Hypothesis Hw : writer_fits bs.

  (* MAIN 5: a crash between any two storage operations of the call: the disk left opens (read-only, no key given)
     to a replica with the same key pair, the invariant for the same held set, and the observations of before the
     call; append stays refused *)
  Theorem replica_make_read_only_crash_recovers c d j ev H :
    RDInv cr bs c d H ->
    exists ops d',
      core_make_read_only cr c (mkWorld d j ev) = (ro_core c, mkWorld d' (rev ops ++ j) ev, Ok false) /\
      ops = ro_ops cr c /\ apply_sops d ops = Some d' /\
      forall k, exists dk,
        apply_sops d (firstn k ops) = Some dk /\
        RDisk cr bs (kp_public (c_keypair c)) dk H (t_length (c_tree c)) /\
        exists c2 d2 rops,
          core_open cr None true dk = (d2, rops, Ok c2) /\
          RDInv cr bs c2 d2 H /\ obs_replica bs c2 d2 H (t_length (c_tree c)) /\
          c_keypair c2 = c_keypair c /\ t_length (c_tree c2) = t_length (c_tree c) /\
          core_info c2 = core_info c /\
          (forall i, core_has c2 i = core_has c i) /\
          (forall i j' ev', snd (core_get i c2 (mkWorld d2 j' ev')) = snd (core_get i c (mkWorld d j' ev'))) /\
          (forall f batch w, core_append cr f batch c2 w = (c2, w, Err NotWritable)).
  Proof.
    intros X.
    destruct (replica_make_read_only cr Hcrc Hhash32 Hnonblank Hhashbytes bs Hw c d j ev H X)
      as (d' & E & Aall & _).
    exists (ro_ops cr c), d'. split; [exact E|]. split; [reflexivity|]. split; [exact Aall|].
    intros k.
    destruct (replica_make_read_only_cuts cr Hcrc Hhash32 Hnonblank Hhashbytes bs Hw c d H X k) as (dk & Ak & Pk).
    exists dk. split; [exact Ak|]. split; [exact Pk|].
    destruct (reopen_RDisk_observations cr Hcrc Hhash32 Hnonblank Hhashbytes bs Hw _ dk _ _ Pk)
      as (c2 & d2 & rops & Eo & X2 & O2 & K2 & L2).
    exists c2, d2, rops. split; [exact Eo|]. split; [exact X2|]. split; [exact O2|].
    split; [rewrite K2; symmetry; apply (RDInv_keypair cr bs c d H X)|]. split; [exact L2|].
    pose proof (RD_observations cr bs Hw c d H X) as O.
    destruct (obs_replica_same bs c d c2 d2 H _ O O2) as (I1 & I2 & I3).
    split; [exact I1|]. split; [exact I2|]. split; [exact I3|].
    intros f batch w. apply (replica_append_refused cr bs c2 d2 H f batch w X2).
  Qed.
End Recover.

(* ====================================================================================== *)
(* F. The theorems on the toy instance                                                     *)
(* ====================================================================================== *)

(* computed facts about the synced replica of SoundCore.v (length 6, nothing held, the upgrade entry PENDING in the
   oplog, roots 3 and 9 only in the unflushed map, empty tree store) and the call on it *)
Lemma sc_ro_run c w c' w' r :
  fst sc_R1 = Some (c, w) -> core_make_read_only sc_cr c w = (c', w', r) ->
  r = Ok false /\
  ol_entries_len (c_oplog c) = 1 /\ map fst (nm_elements (t_unflushed (c_tree c))) = [3; 9] /\
  f_len (d_tree (w_disk w)) = 0 /\ f_len (d_oplog (w_disk w)) = 8338 /\
  length (ro_ops sc_cr c) = 6%nat /\ length (w_journal w) = 1%nat /\ length (w_journal w') = 7%nat /\
  f_len (d_tree (w_disk w')) = 400 /\ core_info c = mkInfo 6 11 0 0 false.
Proof.
  intros H1 H2. vm_compute in H1. injection H1 as <- <-. vm_compute in H2. injection H2 as _ <- <-.
  repeat split.
Qed.

Example sc_synced_make_read_only :
  match fst sc_R1 with
  | Some (c, w) =>
      (* what the theorems assume, on a state where the flush has work to do *)
      RDInv sc_cr sc_blocks c (w_disk w) (fun _ => false) /\
      ol_entries_len (c_oplog c) = 1 /\ map fst (nm_elements (t_unflushed (c_tree c))) = [3; 9] /\
      f_len (d_tree (w_disk w)) = 0 /\ f_len (d_oplog (w_disk w)) = 8338 /\ length (ro_ops sc_cr c) = 6%nat /\
      exists d',
        core_make_read_only sc_cr c w =
          (ro_core c, mkWorld d' (rev (ro_ops sc_cr c) ++ w_journal w) (w_events w), Ok false) /\
        RDInv sc_cr sc_blocks (ro_core c) d' (fun _ => false) /\
        ol_entries_len (c_oplog (ro_core c)) = 0 /\ t_unflushed (c_tree (ro_core c)) = nm_empty /\
        f_len (d_tree d') = 400 /\ f_len (d_oplog d') = 8192 /\
        core_info (ro_core c) = mkInfo 6 11 0 0 false /\ core_info c = mkInfo 6 11 0 0 false /\
        (forall f batch w0, core_append sc_cr f batch (ro_core c) w0 = (ro_core c, w0, Err NotWritable)) /\
        (* the reopen after the call *)
        (exists c2, core_open sc_cr None true d' = (d', [], Ok c2) /\
                    RDInv sc_cr sc_blocks c2 d' (fun _ => false) /\ core_info c2 = mkInfo 6 11 0 0 false /\
                    (forall i, core_has c2 i = false)) /\
        (* a crash after any k of the six storage operations *)
        (forall k, exists dk,
           apply_sops (w_disk w) (firstn k (ro_ops sc_cr c)) = Some dk /\
           exists c2 d2 rops, core_open sc_cr None true dk = (d2, rops, Ok c2) /\
             obs_replica sc_blocks c2 d2 (fun _ => false) 6 /\ core_info c2 = mkInfo 6 11 0 0 false)
  | None => False
  end.
Proof.
  pose proof sc_synced_RDInv as HX.
  destruct (fst sc_R1) as [[c w]|] eqn:E1; [|exact HX]. destruct HX as [X L6].
  destruct w as [d j ev]. cbn [w_disk w_journal w_events] in *.
  destruct (replica_make_read_only_observations sc_cr sc_crc_ok sc_hash32 sc_nonblank sc_hashbytes sc_blocks
              sc_writer_fits c d j ev _ X) as (d' & E & X' & _ & _ & I1 & _ & _ & _ & _ & _ & App).
  destruct (sc_ro_run c _ _ _ _ E1 E) as (_ & C1 & C2 & C3 & C4 & C5 & _ & _ & C8 & C9).
  cbn [w_disk] in C3, C4, C8.
  split; [exact X|]. split; [exact C1|]. split; [exact C2|]. split; [exact C3|]. split; [exact C4|]. split; [exact C5|].
  exists d'. split; [exact E|]. split; [exact X'|]. split; [reflexivity|]. split; [reflexivity|].
  split; [exact C8|].
  destruct (replica_make_read_only sc_cr sc_crc_ok sc_hash32 sc_nonblank sc_hashbytes sc_blocks sc_writer_fits
              c d j ev _ X) as (d'' & E' & _ & _ & _ & _ & _ & _ & _ & _ & _ & _ & _ & _ & Lo).
  rewrite E in E'. injection E' as <-.
  split; [exact Lo|]. split; [rewrite I1; exact C9|]. split; [exact C9|]. split; [exact App|].
  split.
  { destruct (replica_read_only_reopen sc_cr sc_crc_ok sc_hash32 sc_nonblank sc_hashbytes sc_blocks sc_writer_fits
                c d j ev _ X) as (d2 & c2 & E2 & Eo & X2 & _ & _ & _ & _ & _ & _ & I2 & _ & Hh & _).
    rewrite E in E2. injection E2 as <-.
    exists c2. split; [exact Eo|]. split; [exact X2|]. split; [rewrite I2; exact C9|].
    intros i. rewrite Hh. apply (RD_has sc_cr sc_blocks c d _ i X). }
  destruct (replica_make_read_only_crash_recovers sc_cr sc_crc_ok sc_hash32 sc_nonblank sc_hashbytes sc_blocks
              sc_writer_fits c d j ev _ X) as (ops & d2 & _ & -> & _ & Hcuts).
  intros k. destruct (Hcuts k) as (dk & Ak & _ & c2 & d3 & rops & Eo & _ & O & _ & _ & I3 & _).
  exists dk. split; [exact Ak|]. exists c2, d3, rops. split; [exact Eo|]. split; [rewrite <- L6; exact O|].
  rewrite I3. exact C9.
Qed.

(* a replica that HOLDS a block: from the synced state the writer's proof for block 4 is applied without a flush.
   Two entries are pending, bitfield page 0 is dirty, four nodes are unflushed.  RDInv for this state comes from
   apply_keeps_RDInv, hence with its escape clause (a toy hash cannot exclude collisions) *)
Lemma sc_fetch4_run c0 w0 pf c w r0 c' w' r :
  fst sc_R1 = Some (c0, w0) -> sc_block_proof (fst sc_R1) 4 = Some pf ->
  core_apply_proof sc_cr (Some false) pf c0 w0 = (c, w, r0) ->
  core_make_read_only sc_cr c w = (c', w', r) ->
  r0 = Ok true /\ r = Ok false /\ p_hash pf = None /\ p_seek pf = None /\ p_upgrade pf = None /\
  (exists b, p_block pf = Some b /\ db_index b = 4) /\
  ol_entries_len (c_oplog c) = 2 /\ bf_dirty (c_bitfield c) = [0] /\
  map fst (nm_elements (t_unflushed (c_tree c))) = [3; 9; 8; 10] /\ length (ro_ops sc_cr c) = 9%nat /\
  f_len (d_oplog (w_disk w)) = 8453 /\ f_len (d_bitfield (w_disk w)) = 0 /\
  f_len (d_bitfield (w_disk w')) = 4096 /\ f_len (d_tree (w_disk w')) = 440.
Proof.
  intros H1 H2 H3 H4. vm_compute in H1. injection H1 as <- <-. vm_compute in H2. injection H2 as <-.
  vm_compute in H3. injection H3 as <- <- <-. vm_compute in H4. injection H4 as _ <- <-.
  repeat split. eexists. split; reflexivity.
Qed.

Example sc_fetched_make_read_only :
  match fst sc_R1, sc_block_proof (fst sc_R1) 4 with
  | Some (c0, w0), Some pf =>
      exists c w,
        core_apply_proof sc_cr (Some false) pf c0 w0 = (c, w, Ok true) /\
        ol_entries_len (c_oplog c) = 2 /\ bf_dirty (c_bitfield c) = [0] /\
        map fst (nm_elements (t_unflushed (c_tree c))) = [3; 9; 8; 10] /\ length (ro_ops sc_cr c) = 9%nat /\
        f_len (d_oplog (w_disk w)) = 8453 /\ f_len (d_bitfield (w_disk w)) = 0 /\
        ((RDInv sc_cr sc_blocks c (w_disk w) (hold (fun _ => false) (p_block pf)) /\
          exists d',
            core_make_read_only sc_cr c w =
              (ro_core c, mkWorld d' (rev (ro_ops sc_cr c) ++ w_journal w) (w_events w), Ok false) /\
            RDInv sc_cr sc_blocks (ro_core c) d' (hold (fun _ => false) (p_block pf)) /\
            (forall i, core_has (ro_core c) i = (i =? 4)) /\
            (forall j ev, snd (core_get 4 (ro_core c) (mkWorld d' j ev)) = Ok (Some [9; 10])) /\
            f_len (d_bitfield d') = 4096 /\ f_len (d_tree d') = 440 /\ f_len (d_oplog d') = 8192 /\
            (forall k, exists dk,
               apply_sops (w_disk w) (firstn k (ro_ops sc_cr c)) = Some dk /\
               exists c2 d2 rops, core_open sc_cr None true dk = (d2, rops, Ok c2) /\
                 obs_replica sc_blocks c2 d2 (hold (fun _ => false) (p_block pf)) 6)) \/
         some_collision sc_cr \/ forged_signature sc_cr sc_blocks (kp_public (c_keypair c0)))
  | _, _ => False
  end.
Proof.
  pose proof sc_synced_RDInv as HX.
  destruct (fst sc_R1) as [[c0 w0]|] eqn:E1; [|exact HX]. destruct HX as [X0 L6].
  destruct (sc_block_proof (Some (c0, w0)) 4) as [pf|] eqn:Ep.
  2:{ clear X0 L6. vm_compute in E1. injection E1 as <- <-. vm_compute in Ep. discriminate Ep. }
  rewrite <- E1 in Ep.
  destruct (core_apply_proof sc_cr (Some false) pf c0 w0) as [[c w] r0] eqn:Happ.
  destruct (core_make_read_only sc_cr c w) as [[c' w'] r] eqn:Hro.
  destruct (sc_fetch4_run c0 w0 pf c w r0 c' w' r E1 Ep Happ Hro)
    as (-> & -> & A1 & A2 & A3 & (b & Hb & Hi) & C1 & C2 & C3 & C4 & C5 & C6 & C7 & C8).
  exists c, w. split; [reflexivity|]. split; [exact C1|]. split; [exact C2|]. split; [exact C3|]. split; [exact C4|].
  split; [exact C5|]. split; [exact C6|].
  assert (Hrd : rd_proof_ok pf)
    by (split; [split; [exact A1|split; [exact A2|rewrite A3; exact I]]|rewrite A3; exact I]).
  destruct w0 as [d0 j0 ev0]. cbn [w_disk] in X0.
  destruct (apply_keeps_RDInv sc_cr sc_crc_ok sc_hash32 sc_nonblank sc_hashbytes sc_blocks sc_writer_fits
              (Some false) pf c0 d0 j0 ev0 _ c w X0 Hrd Happ)
    as [(X & L)|[C|F]]; [left|right; left; exact C|right; right; exact F].
  split; [exact X|].
  destruct w as [d j ev]. cbn [w_disk w_journal w_events] in *.
  set (H := hold (fun _ : N => false) (p_block pf)) in *.
  assert (Hh : forall i, H i = (i =? 4)).
  { intros i. unfold H, hold. rewrite Hb, Hi. apply orb_false_r. }
  destruct (replica_make_read_only sc_cr sc_crc_ok sc_hash32 sc_nonblank sc_hashbytes sc_blocks sc_writer_fits
              c d j ev H X) as (d' & E & _ & X' & _ & _ & _ & _ & _ & _ & _ & _ & _ & _ & Lo).
  rewrite Hro in E. injection E as -> ->. cbn [w_disk] in C7, C8.
  exists d'. split; [exact Hro|]. split; [exact X'|].
  split; [intros i; rewrite (RD_has sc_cr sc_blocks (ro_core c) d' H i X'); apply Hh|].
  split.
  { intros j' ev'. rewrite (RD_get sc_cr sc_blocks sc_writer_fits (ro_core c) d' H j' ev' 4 X'), Hh. reflexivity. }
  split; [exact C7|]. split; [exact C8|]. split; [exact Lo|].
  destruct (replica_make_read_only_crash_recovers sc_cr sc_crc_ok sc_hash32 sc_nonblank sc_hashbytes sc_blocks
              sc_writer_fits c d j ev H X) as (ops & d2 & _ & -> & _ & Hcuts).
  intros k. destruct (Hcuts k) as (dk & Ak & _ & c2 & d3 & rops & Eo & _ & O & _).
  exists dk. split; [exact Ak|]. exists c2, d3, rops. split; [exact Eo|].
  assert (L6' : t_length (c_tree c) = 6) by (destruct L as (_ & _ & L3 & _); rewrite (L3 A3); exact L6).
  rewrite <- L6'. exact O.
Qed.

Print Assumptions RInv_flushed.
Print Assumptions replica_append_refused.
Print Assumptions replica_make_read_only.
Print Assumptions replica_make_read_only_observations.
Print Assumptions replica_read_only_reopen.
Print Assumptions replica_make_read_only_cuts.
Print Assumptions replica_make_read_only_crash_recovers.
Print Assumptions sc_synced_make_read_only.
Print Assumptions sc_fetched_make_read_only.

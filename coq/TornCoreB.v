(* TornCoreB.v — C07 over all four stores, part B: the run of an append from a YInv state, with every
   clean cut AND every torn cut of its journal.  A torn cut (k, t): the first k journalled operations
   are applied, then the k-th operation with its data cut to the first t bytes (Storage.tear). *)
From HC Require Import Base NMap Codec CodecFacts Crypto FlatTree Storage Bitfield Oplog Merkle Core.
From HC Require Import FlatTreeFacts StorageFacts BitfieldFacts OplogFacts TreeRef OffsetFacts CoreFacts Crash Refine Reopen.
From HC Require Import ContigBridge CrashCore1 CrashCore2 TornCoreA.
From Coq Require Import FMapPositive ZifyN ZifyNat ZifyBool.
Ltac Zify.zify_post_hook ::= Z.div_mod_to_equations.
Arguments N.add : simpl never.
Arguments N.sub : simpl never.
Arguments N.mul : simpl never.
Arguments N.div : simpl never.
Arguments N.modulo : simpl never.
Arguments N.pow : simpl never.
Arguments N.eqb : simpl never.
Arguments N.ltb : simpl never.
Arguments N.leb : simpl never.
Arguments N.of_nat : simpl never.
Arguments N.to_nat : simpl never.

(* ====================================================================================== *)
(* A. Torn cuts of a list of storage operations                                            *)
(* ====================================================================================== *)

(* the number of bytes a write carries *)
Definition wlen (o : sop) : nat := match o with SW _ _ data => length data | _ => 0%nat end.

(* a write to one of the two header slots of the oplog store *)
Definition is_slot_write (o : sop) : bool :=
  match o with SW Oplog off _ => off <? ENTRIES_OFFSET | _ => false end.

(* the side condition of Crash.header_write_torn, on the disk before the torn write: a tear inside the
   4-byte CRC field (t <= 4) of a slot that does not validate needs that slot to be dead *)
Definition tear_safe (cr : crypto) (d : disk) (o : sop) (t : nat) : Prop :=
  match o with
  | SW Oplog off _ =>
      off = 0 \/ off = HEADER_SIZE -> (t <= 4)%nat ->
      validate_leader cr (slot_at (f_content (d_oplog d)) off) = None ->
      slot_dead cr (slot_at (f_content (d_oplog d)) off)
  | _ => True
  end.

(* hygienic header slots make every tear safe; so does a tear after the CRC field *)
Lemma hyg_tear_safe cr d o t : hyg cr (f_content (d_oplog d)) -> tear_safe cr d o t.
Proof.
  intros H. destruct o as [s off data| |]; try exact I. destruct s; try exact I.
  cbn [tear_safe]. intros Hoff _. apply H, Hoff.
Qed.

Lemma late_tear_safe cr d o t : (4 < t)%nat -> tear_safe cr d o t.
Proof.
  intros H. destruct o as [s off data| |]; try exact I. destruct s; try exact I.
  cbn [tear_safe]. intros _ H4. lia.
Qed.

(* for every k-th operation o and every t: the disk after the first k operations (dk) and the disk after
   tear o t on top of it (dkt) exist and are related by Q *)
Definition tcuts (d : disk) (ops : list sop) (Q : disk -> sop -> nat -> disk -> Prop) : Prop :=
  forall k o t, nth_error ops k = Some o -> (t <= wlen o)%nat ->
    exists dk dkt, apply_sops d (firstn k ops) = Some dk /\ apply_sop dk (tear o t) = Some dkt /\ Q dk o t dkt.

Lemma tcuts_nil d Q : tcuts d [] Q.
Proof. intros k o t H. destruct k; discriminate H. Qed.

Lemma tcuts_app d l1 l2 Q d1 :
  tcuts d l1 Q -> apply_sops d l1 = Some d1 -> tcuts d1 l2 Q -> tcuts d (l1 ++ l2) Q.
Proof.
  intros H1 Ha H2 k o t Hk Ht.
  destruct (Nat.lt_ge_cases k (length l1)) as [L|L].
  - rewrite nth_error_app1 in Hk by exact L.
    destruct (H1 k o t Hk Ht) as (dk & dkt & A & B & C). exists dk, dkt.
    split; [|split; assumption].
    rewrite firstn_app. replace (k - length l1)%nat with 0%nat by lia. cbn [firstn]. rewrite app_nil_r. exact A.
  - rewrite nth_error_app2 in Hk by exact L.
    destruct (H2 (k - length l1)%nat o t Hk Ht) as (dk & dkt & A & B & C). exists dk, dkt.
    split; [|split; assumption].
    rewrite firstn_app, firstn_all2 by lia. rewrite CoreFacts.apply_sops_app, Ha. exact A.
Qed.

Lemma tcuts_weaken d ops (Q Q' : disk -> sop -> nat -> disk -> Prop) :
  (forall dk o t dkt, Q dk o t dkt -> Q' dk o t dkt) -> tcuts d ops Q -> tcuts d ops Q'.
Proof.
  intros H C k o t Hk Ht. destruct (C k o t Hk Ht) as (dk & dkt & A & B & Hq).
  exists dk, dkt. split; [exact A|]. split; [exact B|]. apply H, Hq.
Qed.

Lemma tcuts_cons d o0 ops Q d1 :
  (forall t, (t <= wlen o0)%nat -> exists dkt, apply_sop d (tear o0 t) = Some dkt /\ Q d o0 t dkt) ->
  apply_sop d o0 = Some d1 -> tcuts d1 ops Q -> tcuts d (o0 :: ops) Q.
Proof.
  intros H0 Ha H1 k o t Hk Ht. destruct k as [|k].
  - cbn [nth_error] in Hk. injection Hk as <-. destruct (H0 t Ht) as (dkt & B & C).
    exists d, dkt. split; [reflexivity|]. split; assumption.
  - cbn [nth_error] in Hk. destruct (H1 k o t Hk Ht) as (dk & dkt & A & B & C). exists dk, dkt.
    split; [|split; assumption]. cbn [firstn apply_sops]. rewrite Ha. exact A.
Qed.

(* ====================================================================================== *)
(* B. A torn header slot write, at the level of the slot states                            *)
(* ====================================================================================== *)

Section TornSlot.
  Variable cr : crypto.
  Hypothesis Hcrc : crc_ok cr.

  (* the slot that is not written holds the current header: it is valid *)
  Lemma other_slot_valid st0 st1 bits hc :
    choose st0 st1 = Some (bits, hc) -> (if w_slot bits =? 0 then st1 else st0) <> SInvalid.
  Proof.
    destruct st0 as [h0 b0|], st1 as [h1 b1|]; cbn [choose]; intros E; try discriminate;
      injection E as <- <-.
    - destruct b0, b1; discriminate.
    - destruct b0; discriminate.
    - destruct b1; discriminate.
  Qed.

  (* the oplog content after the first t bytes of a header slot write: the slots select the old header
     (before), or the new header (after), or a CRC collision is exhibited *)
  Lemma torn_slot_outcomes s0 s1 body st0 st1 bits hf l hn fr pad t :
    good cr s0 s1 body st0 st1 bits hf l -> header_ok hn = true ->
    frame cr (w_bit bits) false (enc_header hn) = Ok fr ->
    (length (fr ++ pad) <= SLOT)%nat -> (t <= length (fr ++ pad))%nat ->
    ((t <= 4)%nat -> (if w_slot bits =? 0 then st0 else st1) = SInvalid ->
     slot_dead cr (if w_slot bits =? 0 then s0 else s1)) ->
    let dt := firstn t (fr ++ pad) in
    let s0' := put0 (w_slot bits) dt s0 in
    let s1' := put1 (w_slot bits) dt s1 in
    c_write (s0 ++ s1 ++ body) (w_slot bits) dt = s0' ++ s1' ++ body /\
    ((exists st0' st1', good cr s0' s1' body st0' st1' bits hf l) \/
     (exists st0' st1', slot_is cr s0' st0' /\ slot_is cr s1' st1' /\ choose st0' st1' = Some (w_bits bits, hn)) \/
     collision cr t).
  Proof.
    intros G Hok Hfr Hl Ht Hdead dt s0' s1'.
    pose proof G as (H0 & H1 & Hch & Hf & Hoks).
    destruct (good_slot_lengths cr _ _ _ _ _ _ _ _ G) as [L0 L1].
    split.
    { apply c_write_slot; [exact L0|exact L1|]. unfold dt. rewrite firstn_length. lia. }
    set (sw := if w_slot bits =? 0 then s0 else s1) in *.
    set (stw := if w_slot bits =? 0 then st0 else st1) in *.
    assert (Hsw : slot_is cr sw stw) by (subst sw stw; destruct (w_slot bits =? 0); assumption).
    assert (Hput : forall X, slot_is cr (overlay dt sw) X ->
              slot_is cr s0' (if w_slot bits =? 0 then X else st0) /\
              slot_is cr s1' (if w_slot bits =? 0 then st1 else X)).
    { intros X HX. unfold s0', s1', put0, put1. subst sw. destruct (w_slot bits =? 0); auto. }
    destruct (torn_slot_state cr Hcrc (w_bit bits) hn fr pad sw stw t Hfr Hok Hsw Hl Ht Hdead)
      as [HX|[HX|[HX|C]]]; try fold dt in HX.
    - left. destruct (Hput _ HX) as [A0 A1]. do 2 eexists.
      split; [exact A0|]. split; [exact A1|]. split; [apply choose_after_torn; exact Hch|]. split; assumption.
    - right; left. destruct (Hput _ HX) as [A0 A1]. do 2 eexists.
      split; [exact A0|]. split; [exact A1|]. eapply choose_after_write; eauto.
    - left. destruct (Hput _ HX) as [A0 A1]. do 2 eexists.
      split; [exact A0|]. split; [exact A1|]. split; [|split; assumption].
      subst stw. destruct (w_slot bits =? 0); exact Hch.
    - right; right. exact C.
  Qed.
  (* after a complete header write both slots are valid: the written one holds the new header, the other
     one the header that was current — hygiene holds whatever the slots were before *)
  Lemma hyg_full_write s0 s1 st0 st1 bits hc body' hn fr pad :
    slot_is cr s0 st0 -> slot_is cr s1 st1 -> choose st0 st1 = Some (bits, hc) ->
    frame cr (w_bit bits) false (enc_header hn) = Ok fr -> (length (fr ++ pad) <= SLOT)%nat ->
    hyg cr (put0 (w_slot bits) (fr ++ pad) s0 ++ put1 (w_slot bits) (fr ++ pad) s1 ++ body').
  Proof.
    intros H0 H1 Hch Hfr Hl.
    assert (L0 : length s0 = SLOT) by (destruct st0; apply H0).
    assert (L1 : length s1 = SLOT) by (destruct st1; apply H1).
    assert (V : forall s, length s = SLOT -> validate_leader cr (overlay (fr ++ pad) s) <> None).
    { intros s Ls E.
      destruct (slot_holds_leader cr _ hn (w_bit bits) Hcrc (overlay_slot_holds cr fr pad s hn (w_bit bits) Hfr Ls Hl))
        as [tail Ht]. rewrite Ht in E. discriminate E. }
    assert (Vv : forall s st, slot_is cr s st -> st <> SInvalid -> validate_leader cr s <> None).
    { intros s st Hs Hne E. destruct st as [h b|]; [|congruence]. destruct Hs as [_ Hs].
      destruct (slot_holds_leader cr _ _ _ Hcrc Hs) as [tail Ht]. rewrite Ht in E. discriminate E. }
    pose proof (other_slot_valid st0 st1 bits hc Hch) as Hother.
    unfold put0, put1. destruct (w_slot bits =? 0).
    - apply hyg_slots; [rewrite overlay_length; [exact L0|lia]|exact L1|].
      split; intros E; exfalso; [exact (V s0 L0 E)|exact (Vv s1 st1 H1 Hother E)].
    - apply hyg_slots; [exact L0|rewrite overlay_length; [exact L1|lia]|].
      split; intros E; exfalso; [exact (Vv s0 st0 H0 Hother E)|exact (V s1 L1 E)].
  Qed.
End TornSlot.

(* ====================================================================================== *)
(* C. A flush from a YInv state: result, clean cuts, torn cuts                             *)
(* ====================================================================================== *)

Section FlushY.
  Variable cr : crypto.
  Hypothesis Hcrc : crc_ok cr.
  Hypothesis Hhash32 : forall x, length (cr_hash cr x) = 32%nat.
  Hypothesis Hnonblank : forall x, all_zero (cr_hash cr x) = false.

  (* what a torn cut of the flush group leaves: a crash disk of the same list — or, for the header slot
     write only, a CRC collision; the slot write needs the side condition tear_safe *)
  Definition QF (kp : keypair) (bs : list bytes) (dk : disk) (o : sop) (t : nat) (dkt : disk) : Prop :=
    tear_safe cr dk o t -> YDisk cr kp dkt bs \/ (is_slot_write o = true /\ collision cr t).

  Lemma YInv_skip c d bs s :
    YInv cr c d bs ->
    YInv cr (mkCore (c_keypair c) (c_oplog c) (c_tree c) (c_bitfield c) (c_header c) s) d bs.
  Proof. intros X. exact X. Qed.

  Lemma flush_all_Y c d j ev bs :
    YInv cr c d bs ->
    exists c' d' fl,
      flush_all cr false c (mkWorld d j ev) = (c', mkWorld d' (rev fl ++ j) ev, Ok tt) /\
      apply_sops d fl = Some d' /\ YInv cr c' d' bs /\ c_keypair c' = c_keypair c /\
      hyg cr (f_content (d_oplog d')) /\
      cuts_ok d fl (fun dk => YDisk cr (c_keypair c) dk bs /\
                              (hyg cr (f_content (d_oplog d)) -> hyg cr (f_content (d_oplog dk)))) /\
      tcuts d fl (QF (c_keypair c) bs).
  Proof.
    intros X.
    pose proof X as ((HL & HB & HF & HR & Hlook & Hun & Hbf & Hcg & Hd & Hs & Hn) & Htok &
                     s0 & s1 & body & st0 & st1 & hf & l & kf & Hcont & G & Hlen & Hbytes & Hhf & Hhc & Hch &
                     Hstore & Hbx & Hsync).
    set (n := N.of_nat (length bs)) in *.
    pose proof (echain_le cr bs l kf n Hch) as Hle.
    pose proof Hhc as (Hok & Hkp & Hfk & Hln & Hcgc & Hrh & Hsg).
    assert (Hfits : hdr_fits false (c_header c)).
    { apply hdr_fits_real; [exact Hok|exact Hrh|]. destruct Hsg as [->|Hsg]; unfold len; [cbn; lia|rewrite Hsg; lia]. }
    destruct (flush_all_run cr Hhash32 Hnonblank c (mkWorld d j ev) Hun Hfits) as (o' & oops & d3 & OF & A & E).
    cbn [w_disk w_journal w_events] in *. cbv zeta in A, E.
    set (b := c_bitfield c) in *. set (t := c_tree c) in *. set (ws := unflushed_nodes t) in *.
    (* the oplog step *)
    pose proof G as (H0 & H1 & Hchs & Hf & Hoks).
    unfold oplog_flush in OF. apply bind_ok in OF as ([bits1 ops1] & Hins & OF). injection OF as <- <-.
    destruct (header_write_step cr s0 s1 st0 st1 _ hf (c_header c) 0 false bits1 ops1 H0 H1 Hchs Hok Hfits Hins)
      as (fr & pad & Hfr & Hl & _ & -> & -> & Hw & st0' & st1' & S0 & S1 & Hch' & Hcb).
    set (bits := ol_bits (c_oplog c)) in *.
    set (s0' := put0 (w_slot bits) (fr ++ pad) s0) in *. set (s1' := put1 (w_slot bits) (fr ++ pad) s1) in *.
    assert (L0 : length s0 = SLOT) by (destruct st0; apply H0).
    assert (L1 : length s1 = SLOT) by (destruct st1; apply H1).
    assert (L0' : length s0' = SLOT) by (destruct st0'; apply S0).
    assert (L1' : length s1' = SLOT) by (destruct st1'; apply S1).
    (* the disks *)
    set (fb := write_pages (d_bitfield d) (bf_bits b) (bf_dirty b)).
    set (ft := write_nodes (d_tree d) ws).
    set (fo1 := f_write (d_oplog d) (w_slot bits) (fr ++ pad)).
    set (fo2 := f_truncate fo1 (ENTRIES_OFFSET + 0)).
    assert (Ed3 : d3 = mkDisk ft (d_data d) fb fo2).
    { unfold page_ops in A. rewrite CoreFacts.apply_sops_app, apply_page_writes, CoreFacts.apply_sops_app, apply_node_writes in A.
      cbn [apply_sops apply_sop d_get d_set d_tree d_oplog] in A. injection A as <-. reflexivity. }
    (* the stores during and after the flush *)
    assert (Hws : forall v, In v ws -> nm_get (n_index v) (t_unflushed t) = Some v)
      by (intros v Hv; apply unflushed_nodes_get; assumption).
    assert (H32 : forall v, In v ws -> length (n_hash v) = 32%nat).
    { intros v Hv. apply Hws in Hv. apply Hun in Hv. tauto. }
    assert (Tw : forall ws', (forall v, In v ws' -> In v ws) -> forall m, m <= n ->
                 lookups cr tE (d_tree d) bs m -> lookups cr tE (write_nodes (d_tree d) ws') bs m).
    { intros ws' Hsub m Hm Hl0. apply (lookups_write_nodes cr bs t (d_tree d) ws' n m Hlook Hun Hm); [|exact Hl0].
      intros v Hv. apply Hws, Hsub, Hv. }
    assert (Tok : forall ws', (forall v, In v ws' -> In v ws) -> TreeOk (write_nodes (d_tree d) ws')).
    { intros ws' Hsub. apply TreeOk_write_nodes; [exact Htok|]. intros v Hv. apply H32, Hsub, Hv. }
    assert (Bw : forall ps, BfY (write_pages (d_bitfield d) (bf_bits b) ps) kf n)
      by (intros ps; apply BfY_write_pages; assumption).
    assert (Hidx : forall dd o, (o + 1) * p2 dd <= n -> NODE_SIZE * ft_index (N.of_nat dd) o <= u64_max).
    { intros dd o Hfull. pose proof (ft_index_succ (N.of_nat dd) o) as S. fold (p2 dd) in S. pose proof (p2_pos dd).
      unfold NODE_SIZE in *. nia. }
    set (t' := mkTree (t_roots t) (t_length t) (t_byte_length t) (t_fork t) (t_signature t) nm_empty) in *.
    assert (LT' : lookups cr t' ft bs n).
    { intros dd o Hfull.
      apply (tree_flush_preserves_lookups t t' (map node_write ws) d (d_set d Tree ft) _ _
               (tree_flush_ok t Hun) (apply_node_writes ws d) Hun (Hidx dd o Hfull)).
      apply Hlook, Hfull. }
    assert (LT : lookups cr tE ft bs n).
    { intros dd o Hfull. rewrite <- (LT' dd o Hfull). apply required_node_same_unflushed. reflexivity. }
    assert (LTkf : lookups cr tE ft bs kf) by (apply Tw; [intros v Hv; exact Hv|exact Hle|exact Hstore]).
    assert (Tokft : TreeOk ft) by (apply Tok; intros v Hv; exact Hv).
    destruct (BfSyncY_flush (d_bitfield d) b kf n Hsync Hbx Hbf) as [Rfb BX]. fold fb in Rfb, BX.
    (* a disk whose oplog and data stores are those of d *)
    assert (Old : forall dk, d_data dk = d_data d -> d_oplog dk = d_oplog d ->
                  BfY (d_bitfield dk) kf n -> lookups cr tE (d_tree dk) bs kf -> TreeOk (d_tree dk) ->
                  YDisk cr (c_keypair c) dk bs).
    { intros dk Ed Eo Hb' Ht' Hk'. unfold YDisk. fold n. rewrite Ed, Eo.
      split; [exact Hs|]. split; [exact Hn|]. split; [exact Hd|]. split; [exact Hk'|].
      exists s0, s1, body, st0, st1, bits, hf, l, kf.
      split; [exact Hcont|]. split; [left; exact G|]. repeat (split; [assumption|]). exact Hb'. }
    (* the disk after the slot write *)
    assert (Mid : YDisk cr (c_keypair c) (mkDisk ft (d_data d) fb fo1) bs).
    { unfold YDisk. fold n. cbn [d_data d_oplog d_tree d_bitfield].
      split; [exact Hs|]. split; [exact Hn|]. split; [exact Hd|]. split; [exact Tokft|].
      exists s0', s1', body, st0', st1', (w_bits bits), (c_header c), [], n.
      split; [unfold fo1; rewrite f_content_write, Hcont; apply Hw|].
      split. { right. split; [reflexivity|]. split; [exact S0|]. split; [exact S1|]. split; [exact Hch'|].
               exists (current_bit bits), l. split; [exact Hcb|exact Hf]. }
      split; [exact Hhc|]. split; [reflexivity|]. split; [exact LT|exact BX]. }
    (* the final state *)
    assert (Hcont3 : f_content fo2 = s0' ++ s1' ++ []).
    { unfold fo2, fo1. rewrite f_content_truncate, f_content_write, Hcont, Hw, N.add_0_r.
      apply c_truncate_all_entries; assumption. }
    assert (X3 : YInv cr (mkCore (c_keypair c) (mkOplog (w_bits bits) 0 0) t' (mkBf (bf_bits b) []) (c_header c) (c_skip c))
                      (mkDisk ft (d_data d) fb fo2) bs).
    { split.
      - unfold XW. cbn [c_tree c_bitfield c_header d_tree d_data t' t_length t_byte_length t_fork t_roots]. fold n.
        split; [exact HL|]. split; [exact HB|]. split; [exact HF|]. split; [exact HR|]. split; [exact LT'|].
        split. { intros i x H. unfold t' in H. cbn [t_unflushed] in H. rewrite nm_get_empty in H. discriminate H. }
        split; [exact Hbf|]. split; [exact Hcg|]. split; [exact Hd|]. split; [exact Hs|exact Hn].
      - split; [exact Tokft|].
        cbn [c_oplog c_keypair c_header c_bitfield ol_bits ol_entries_len ol_entries_bytes d_oplog d_tree d_bitfield].
        fold n. exists s0', s1', [], st0', st1', (c_header c), [], n.
        split; [exact Hcont3|].
        split. { split; [exact S0|]. split; [exact S1|]. split; [exact Hch'|]. split; reflexivity. }
        split; [reflexivity|]. split; [reflexivity|]. split; [exact Hhc|]. split; [exact Hhc|].
        split; [reflexivity|]. split; [exact LT|]. split; [exact BX|].
        intros i Hne. exfalso. apply Hne. rewrite Rfb. reflexivity. }
    eexists. exists d3. eexists. split; [exact E|]. split; [exact A|].
    rewrite Ed3. split; [exact X3|]. split; [reflexivity|].
    split.
    { change (hyg cr (f_content fo2)). rewrite Hcont3.
      apply (hyg_full_write cr Hcrc s0 s1 st0 st1 bits hf [] (c_header c) fr pad H0 H1 Hchs Hfr Hl). }
    split.
    { (* the clean cuts *)
      apply (cuts_app d _ _ _ (d_set d Bitfield fb)).
      { intros k. unfold page_ops. rewrite firstn_map, apply_page_writes. eexists. split; [reflexivity|].
        split; [|intros Hh; exact Hh].
        apply Old; try reflexivity; [apply Bw|exact Hstore|exact Htok]. }
      { unfold page_ops. apply apply_page_writes. }
      apply (cuts_app _ _ _ _ (d_set (d_set d Bitfield fb) Tree ft)).
      { intros k. rewrite firstn_map, apply_node_writes. eexists. split; [reflexivity|].
        split; [|intros Hh; exact Hh].
        apply Old; try reflexivity; [apply Bw| |].
        - cbn [d_set d_tree]. apply Tw; [intros v Hv; eapply in_firstn; exact Hv|exact Hle|exact Hstore].
        - cbn [d_set d_tree]. apply Tok. intros v Hv. eapply in_firstn; exact Hv. }
      { apply apply_node_writes. }
      intros k. destruct k as [|[|k]].
      - eexists. split; [reflexivity|]. split; [|intros Hh; exact Hh].
        apply Old; try reflexivity; [apply Bw|exact LTkf|exact Tokft].
      - eexists. split; [reflexivity|]. split; [exact Mid|].
        change (hyg cr (f_content (d_oplog d)) -> hyg cr (f_content fo1)).
        unfold fo1. rewrite f_content_write, Hcont, Hw. intros Hh.
        apply (hyg_header_write cr Hcrc s0 s1 body body bits (c_header c) fr pad L0 L1 Hfr Hl Hh).
      - cbn [firstn]. rewrite firstn_nil. eexists. split; [reflexivity|].
        split; [apply (YInv_YDisk cr _ _ _ X3)|].
        change (hyg cr (f_content (d_oplog d)) -> hyg cr (f_content fo2)).
        rewrite Hcont3, Hcont. intros Hh.
        apply (hyg_header_write cr Hcrc s0 s1 body [] bits (c_header c) fr pad L0 L1 Hfr Hl Hh). }
    (* the torn cuts *)
    apply (tcuts_app d _ _ _ (d_set d Bitfield fb)).
    { (* a torn page write *)
      intros k o tt Hk Htt. unfold page_ops in Hk. rewrite nth_error_map in Hk.
      destruct (nth_error (bf_dirty b) k) as [p|] eqn:Ep; [|discriminate Hk]. cbn [option_map] in Hk. injection Hk as <-.
      unfold page_ops. rewrite firstn_map, apply_page_writes.
      eexists. eexists. split; [reflexivity|]. split; [reflexivity|]. intros _. left.
      apply Old; try (destruct d as [xt xd xb xo]; reflexivity).
      - destruct d as [xt xd xb xo]. cbn [d_set d_get d_bitfield].
        apply (BfY_write_image _ _ _ b kf n); [apply Bw|exact Hle|exact Hbf|].
        apply mem_image_firstn, mem_image_page.
      - destruct d as [xt xd xb xo]. exact Hstore.
      - destruct d as [xt xd xb xo]. exact Htok. }
    { unfold page_ops. apply apply_page_writes. }
    apply (tcuts_app _ _ _ _ (d_set (d_set d Bitfield fb) Tree ft)).
    { (* a torn node write *)
      intros k o tt Hk Htt. rewrite nth_error_map in Hk.
      destruct (nth_error ws k) as [v|] eqn:Ev; [|discriminate Hk]. cbn [option_map] in Hk. injection Hk as <-.
      rewrite firstn_map, apply_node_writes.
      eexists. eexists. split; [reflexivity|]. split; [reflexivity|]. intros _. left.
      assert (Hv : In v ws) by (eapply nth_error_In; exact Ev).
      destruct (lookups_torn_after_nodes cr bs t (d_tree d) (firstn k ws) v tt n kf Hlook Hun Hle) as [T1 T2];
        [intros x Hx; apply Hws; eapply in_firstn; exact Hx|apply Hws, Hv|exact Htok|exact Hstore|].
      apply Old; try (destruct d as [xt xd xb xo]; reflexivity).
      - destruct d as [xt xd xb xo]. cbn [d_set d_bitfield]. apply Bw.
      - destruct d as [xt xd xb xo]. exact T1.
      - destruct d as [xt xd xb xo]. exact T2. }
    { apply apply_node_writes. }
    set (d2 := d_set (d_set d Bitfield fb) Tree ft).
    assert (Ed2 : d2 = mkDisk ft (d_data d) fb (d_oplog d)) by (destruct d as [xt xd xb xo]; reflexivity).
    apply (tcuts_cons d2 _ _ _ (mkDisk ft (d_data d) fb fo1)).
    { (* the torn slot write *)
      intros tt Htt. cbn [wlen] in Htt. eexists. split; [reflexivity|]. intros Hsafe.
      rewrite Ed2 in Hsafe |- *. cbn [tear_safe d_oplog f_content] in Hsafe.
      cbn [tear apply_sop d_get d_set d_tree d_data d_bitfield d_oplog].
      assert (Hdead : (tt <= 4)%nat -> (if w_slot bits =? 0 then st0 else st1) = SInvalid ->
                      slot_dead cr (if w_slot bits =? 0 then s0 else s1)).
      { intros H4 Hinv. rewrite Hcont, (slot_at_w s0 s1 body bits L0 L1) in Hsafe. apply Hsafe; [|exact H4|].
        - apply w_slot_cases.
        - destruct (w_slot bits =? 0); [rewrite Hinv in H0; apply H0|rewrite Hinv in H1; apply H1]. }
      destruct (torn_slot_outcomes cr Hcrc s0 s1 body st0 st1 bits hf l (c_header c) fr pad tt G Hok Hfr Hl Htt Hdead)
        as [Hcw [(x0 & x1 & Gt)|[(x0 & x1 & T0 & T1 & Tch)|C]]].
      - (* before *)
        left. unfold YDisk. fold n. cbn [d_data d_oplog d_tree d_bitfield].
        split; [exact Hs|]. split; [exact Hn|]. split; [exact Hd|]. split; [exact Tokft|].
        do 2 eexists. exists body, x0, x1, bits, hf, l, kf.
        split; [rewrite f_content_write, Hcont; exact Hcw|].
        split; [left; exact Gt|]. split; [exact Hhf|]. split; [exact Hch|]. split; [exact LTkf|apply Bw].
      - (* after *)
        left. unfold YDisk. fold n. cbn [d_data d_oplog d_tree d_bitfield].
        split; [exact Hs|]. split; [exact Hn|]. split; [exact Hd|]. split; [exact Tokft|].
        do 2 eexists. exists body, x0, x1, (w_bits bits), (c_header c), [], n.
        split; [rewrite f_content_write, Hcont; exact Hcw|].
        split. { right. split; [reflexivity|]. split; [exact T0|]. split; [exact T1|]. split; [exact Tch|].
                 exists (current_bit bits), l. split; [apply w_bits_current|exact Hf]. }
        split; [exact Hhc|]. split; [reflexivity|]. split; [exact LT|exact BX].
      - right. split; [|exact C]. cbn [is_slot_write]. destruct (w_slot_cases bits) as [-> | ->]; reflexivity. }
    { rewrite Ed2. reflexivity. }
    apply (tcuts_cons _ _ _ _ (mkDisk ft (d_data d) fb fo2)); [|reflexivity|apply tcuts_nil].
    intros tt _. eexists. split; [reflexivity|]. intros _. left. apply (YInv_YDisk cr _ _ _ X3).
  Qed.
End FlushY.

(* ====================================================================================== *)
(* D. An append from a YInv state: result, clean cuts, torn cuts                           *)
(* ====================================================================================== *)

Section AppendY.
  Variable cr : crypto.
  Hypothesis Hcrc : crc_ok cr.
  Hypothesis Hhash32 : forall x, length (cr_hash cr x) = 32%nat.
  Hypothesis Hnonblank : forall x, all_zero (cr_hash cr x) = false.
  Hypothesis Hhashbytes : forall x, bytes_ok (cr_hash cr x) = true.
  Hypothesis Hsig64 : forall sk m, length (cr_sign cr sk m) = 64%nat.
  Hypothesis Hsigbytes : forall sk m, bytes_ok (cr_sign cr sk m) = true.

  Lemma maybe_flush_Y f c d j ev bs :
    YInv cr c d bs ->
    exists c' d' fl,
      maybe_flush cr f c (mkWorld d j ev) = (c', mkWorld d' (rev fl ++ j) ev, Ok tt) /\
      apply_sops d fl = Some d' /\ YInv cr c' d' bs /\ c_keypair c' = c_keypair c /\
      (f = Some true -> hyg cr (f_content (d_oplog d'))) /\
      cuts_ok d fl (fun dk => YDisk cr (c_keypair c) dk bs /\
                              (hyg cr (f_content (d_oplog d)) -> hyg cr (f_content (d_oplog dk)))) /\
      tcuts d fl (QF cr (c_keypair c) bs).
  Proof.
    intros X. unfold maybe_flush. rewrite mbind_get_core.
    match goal with |- context [if ?b then _ else _] => destruct b eqn:Edec end.
    - rewrite mbind_put_skip.
      destruct (flush_all_Y cr Hcrc Hhash32 Hnonblank _ d j ev bs (YInv_skip cr c d bs 3 X))
        as (c' & d' & fl & E & A & X' & K & Hh' & C & T).
      exists c', d', fl. split; [exact E|]. split; [exact A|]. split; [exact X'|]. split; [exact K|].
      split; [intros _; exact Hh'|]. split; [exact C|exact T].
    - exists (mkCore (c_keypair c) (c_oplog c) (c_tree c) (c_bitfield c) (c_header c) (c_skip c - 1)), d, [].
      split; [reflexivity|]. split; [reflexivity|]. split; [apply YInv_skip, X|]. split; [reflexivity|].
      split; [intros ->; discriminate Edec|].
      split; [|apply tcuts_nil].
      apply cuts_nil. split; [apply (YInv_YDisk cr c d bs X)|intros Hh; exact Hh].
  Qed.

  (* only the data store differs, and it still begins with the blocks *)
  Lemma YDisk_data kp d d' bs :
    YDisk cr kp d bs -> d_tree d' = d_tree d -> d_bitfield d' = d_bitfield d -> d_oplog d' = d_oplog d ->
    (exists junk, f_content (d_data d') = concat bs ++ junk) -> YDisk cr kp d' bs.
  Proof.
    intros (Hs & Hn & _ & R) Et Eb Eo Hd. unfold YDisk. rewrite Et, Eb, Eo.
    split; [exact Hs|]. split; [exact Hn|]. split; [exact Hd|exact R].
  Qed.

  (* open repairs the oplog store (ops), after which the disk is a stable crash disk *)
  Lemma reopen_after_repair kp d d' bs s0 s1 body st0 st1 bits hf l kf ops :
    let n := N.of_nat (length bs) in
    sumN (map len bs) <= u64_max -> NODE_SIZE * (2 * n) <= u64_max ->
    oplog_open cr None (f_content (d_oplog d)) =
      Ok (mkOpenOutcome (mkOplog bits (N.of_nat (length l)) (entries_size l)) hf ops l) ->
    apply_sops d ops = Some d' ->
    d_tree d' = d_tree d -> d_data d' = d_data d -> d_bitfield d' = d_bitfield d ->
    (exists junk, f_content (d_data d) = concat bs ++ junk) ->
    TreeOk (d_tree d) ->
    f_content (d_oplog d') = s0 ++ s1 ++ body ->
    good cr s0 s1 body st0 st1 bits hf l ->
    hdr_desc kp hf kf -> echain cr bs kf l n ->
    lookups cr tE (d_tree d) bs kf -> BfY (d_bitfield d) kf n ->
    (hyg cr (f_content (d_oplog d)) -> hyg cr (f_content (d_oplog d'))) ->
    recovers cr kp d bs.
  Proof.
    intros n Hs Hn Hopen Ha Et Ed Eb Hd Htok Hcont G Hhf Hch Hstore Hbx Hhyg.
    pose proof (core_open_eq cr d _ d' Hopen Ha) as E. cbn [oo_ops] in E.
    destruct (open_tail_Y cr Hhash32 Hnonblank Hhashbytes kp d' bs s0 s1 body st0 st1 bits hf l kf ops Hs Hn)
      as (c' & Et' & X & K & Sk); try (rewrite ?Et, ?Ed, ?Eb; assumption).
    exists c', d', ops. split; [rewrite E, Et'; reflexivity|].
    repeat (split; [assumption|]). exact Hhyg.
  Qed.

  (* what a torn cut (k, t) of an append leaves: a disk that reopens to the list before the call
     (k = 0: the data write, k = 1: the oplog entry write) or after it (k >= 2: the flush group) — or, for
     the header slot write only, a CRC collision; the slot write needs the side condition tear_safe *)
  Definition QA (kp : keypair) (bs : list bytes) (dk : disk) (o : sop) (t : nat) (dkt : disk) : Prop :=
    tear_safe cr dk o t -> recovers cr kp dkt bs \/ (is_slot_write o = true /\ collision cr t).

  Lemma append_body_Y f batch c d j ev bs sk :
    YInv cr c d bs -> batch <> [] ->
    sumN (map len (bs ++ batch)) <= u64_max ->
    NODE_SIZE * (2 * N.of_nat (length (bs ++ batch))) <= u64_max ->
    (* the entry does not fit a 30-bit frame: the call panics after the data write; memory is untouched
       and the disk is still a disk of the old list; so is the disk after any prefix of the data write *)
    (exists d1,
       append_body cr f batch sk c c (mkWorld d j ev) =
         (c, mkWorld d1 (SW Data (t_byte_length (c_tree c)) (concat batch) :: j) ev, Panic frame_msg) /\
       apply_sops d [SW Data (t_byte_length (c_tree c)) (concat batch)] = Some d1 /\
       YDisk cr (c_keypair c) d1 bs /\
       forall t, exists d1t, apply_sop d (tear (SW Data (t_byte_length (c_tree c)) (concat batch)) t) = Some d1t /\
                             YDisk cr (c_keypair c) d1t bs) \/
    exists c' d' delta ev',
      append_body cr f batch sk c c (mkWorld d j ev) = (c', mkWorld d' (rev delta ++ j) ev', Ok tt) /\
      apply_sops d delta = Some d' /\
      YInv cr c' d' (bs ++ batch) /\ c_keypair c' = c_keypair c /\
      (* a forced flush leaves both header slots valid *)
      (f = Some true -> hyg cr (f_content (d_oplog d'))) /\
      (* the clean cuts: before the entry write (k = 0, 1) the old list, from it on (k >= 2) the new one *)
      (forall k, exists dk, apply_sops d (firstn k delta) = Some dk /\
                            YDisk cr (c_keypair c) dk (if (k <? 2)%nat then bs else bs ++ batch) /\
                            (hyg cr (f_content (d_oplog d)) -> hyg cr (f_content (d_oplog dk)))) /\
      (* the torn cuts *)
      (forall k o t, nth_error delta k = Some o -> (t < wlen o)%nat ->
         exists dk dkt, apply_sops d (firstn k delta) = Some dk /\ apply_sop dk (tear o t) = Some dkt /\
                        QA (c_keypair c) (if (k <? 2)%nat then bs else bs ++ batch) dk o t dkt).
  Proof.
    intros X Hne Hfit Hidx.
    destruct (append_body cr f batch sk c c (mkWorld d j ev)) as [[c' w'] r] eqn:H.
    pose proof X as (W & Htok & s0 & s1 & body & st0 & st1 & hf & l & kf & Hcont & G & Hlen & Hbytes & Hhf & Hhc & Hch &
                     Hstore & Hbx & Hsync).
    pose proof W as (HL & HB & HF & HR & Hlook & Hun & Hbf & Hcg & (junk & Hd) & Hs & Hn).
    set (B := bs ++ batch) in *. set (n := N.of_nat (length bs)) in *.
    set (k := N.of_nat (length batch)).
    assert (Hk : 0 < k) by (destruct batch; [congruence|unfold k; cbn [length]; lia]).
    assert (HlenB : N.of_nat (length B) = n + k) by (unfold B, n, k; rewrite app_length; lia).
    assert (HsumB : sumN (map len B) = sumN (map len bs) + sumN (map len batch))
      by (unfold B; rewrite map_app; apply TreeRef.sumN_app).
    set (cs0 := tree_changeset (c_tree c)) in *.
    assert (R0 : cs_roots cs0 = ref_roots cr B n).
    { unfold cs0, B. cbn [tree_changeset cs_roots]. rewrite HR. symmetry. apply ref_roots_app. unfold n. lia. }
    assert (L0 : cs_length cs0 = n) by exact HL.
    assert (Hblk : forall i, (i < length batch)%nat -> nth i batch [] = blk B (n + N.of_nat i))
      by (intros i Hi; apply batch_blk, Hi).
    destruct (cs_append_all_no_panic cr B Hfit batch cs0 n R0 L0 Hblk) as [cs1 Hcs].
    { unfold cs0. cbn [tree_changeset cs_byte_length]. rewrite HB. lia. }
    destruct (cs_append_all_ref cr B batch cs0 cs1 n R0 L0 Hblk Hcs)
      as (R1 & L1 & B1 & BL1 & A1 & F1 & U1 & Sound1).
    destruct (cs_append_all_complete cr B batch cs0 cs1 n R0 L0 Hblk Hcs) as (_ & OL1 & OF1 & Compl1).
    assert (Hn64 : n + k <= 2 ^ 64).
    { rewrite HlenB in Hidx. unfold NODE_SIZE, u64_max in Hidx. change (2 ^ 64) with 18446744073709551616. lia. }
    destruct (cs_append_all_shape cr B batch cs0 cs1 n R0 L0 Hblk Hn64 Hcs) as (new & Enew & Lnew & Shape1).
    unfold cs0 in B1, BL1, A1, F1, OL1, OF1, Sound1, Enew.
    cbn [tree_changeset cs_byte_length cs_batch_length cs_ancestors cs_fork cs_orig_length cs_orig_fork cs_nodes
         cs_rnodes rev_append] in B1, BL1, A1, F1, OL1, OF1, Sound1, Enew.
    rewrite app_nil_r in Enew.
    assert (Sound : forall x, In x (cs_nodes cs1) -> x = ref_at cr B (n_index x)).
    { intros x Hx. destruct (Sound1 x Hx) as [[]|E]. exact E. }
    assert (Shape : forall x, In x (cs_nodes cs1) -> exists jj q, x = ref_node cr B jj q /\ (q + 1) * p2 jj <= n + k).
    { intros x Hx. apply in_cs_nodes in Hx. rewrite Enew in Hx.
      destruct (Shape1 x Hx) as (jj & q & -> & _ & Q2). exists jj, q. split; [reflexivity|exact Q2]. }
    unfold append_body in H. rewrite mbind_lift in H. fold cs0 in H. rewrite Hcs in H. cbv zeta in H.
    rewrite mbind_emit_SW in H. cbn [w_disk w_journal w_events d_get] in H.
    set (cs := cs_hash_and_sign cr cs1 sk) in *.
    set (bu := mkBfUpdate false (cs_ancestors cs) (cs_batch_length cs)) in *.
    assert (Hbu : bu = mkBfUpdate false n k).
    { unfold bu, cs, cs_hash_and_sign, cs_set_hash_sig. cbn [cs_ancestors cs_batch_length].
      rewrite A1, BL1, HL. f_equal; lia. }
    assert (P1 : cs_upgraded cs = true).
    { unfold cs, cs_hash_and_sign, cs_set_hash_sig. cbn [cs_upgraded]. apply U1, Hne. }
    assert (P5 : cs_orig_fork cs = t_fork (c_tree c)).
    { unfold cs, cs_hash_and_sign, cs_set_hash_sig. cbn [cs_orig_fork]. exact OF1. }
    assert (P6 : cs_orig_length cs = t_length (c_tree c)).
    { unfold cs, cs_hash_and_sign, cs_set_hash_sig. cbn [cs_orig_length]. exact OL1. }
    assert (P7 : cs_ancestors cs = t_length (c_tree c)).
    { unfold cs, cs_hash_and_sign, cs_set_hash_sig. cbn [cs_ancestors]. exact A1. }
    set (hash := cs_tree_hash cr cs1) in *.
    set (sg := cr_sign cr sk (cs_signable cs1 hash)) in *.
    assert (Ecs : cs_nodes cs = cs_nodes cs1 /\ cs_fork cs = 0 /\ cs_length cs = n + k /\
                  cs_roots cs = ref_roots cr B (n + k) /\ cs_byte_length cs = sumN (map len B) /\
                  cs_hash cs = Some hash /\ cs_signature cs = Some sg).
    { unfold cs, cs_hash_and_sign, cs_set_hash_sig.
      cbn [cs_nodes cs_rnodes cs_fork cs_length cs_roots cs_byte_length cs_hash cs_signature].
      fold (cs_nodes cs1). rewrite F1, HF, L1, R1, B1, HB, HsumB. repeat split; reflexivity. }
    destruct Ecs as (EN & EF & EL & ER & EB & EH & ES).
    set (e := mkEntry (cs_nodes cs) (Some (mkTreeUpgrade (cs_fork cs) (cs_ancestors cs) (cs_length cs) sg)) (Some bu)).
    assert (Ee : e = mkEntry (cs_nodes cs1) (Some (mkTreeUpgrade 0 n (n + k) sg)) (Some (mkBfUpdate false n (n + k - n)))).
    { unfold e. rewrite EN, EF, EL, P7, HL, Hbu. replace (n + k - n) with k by lia. reflexivity. }
    assert (Heok : entry_ok e = true).
    { rewrite Ee. apply (append_entry_ok cr Hhash32 Hhashbytes B); try assumption.
      - rewrite <- HlenB. exact Hidx.
      - lia.
      - rewrite length_cs_nodes, Enew. replace (n + k - n) with k by lia. unfold k. lia.
      - apply Hsig64.
      - apply Hsigbytes. }
    assert (P4 : forall x, In x (e_nodes e) -> length (n_hash x) = 32%nat).
    { intros x Hx. unfold e in Hx. cbn [e_nodes] in Hx. rewrite EN in Hx. rewrite (Sound x Hx).
      apply ref_at_hash_length, Hhash32. }
    (* the data store after the write, whole or torn *)
    assert (XD0 : YDisk cr (c_keypair c) d bs) by (apply (YInv_YDisk cr c d bs X)).
    assert (TornData : forall t, YDisk cr (c_keypair c)
                         (d_set d Data (f_write (d_data d) (t_byte_length (c_tree c)) (firstn t (concat batch)))) bs).
    { intros t. apply (YDisk_data (c_keypair c) d _ bs XD0); try (destruct d as [xt xd xb xo]; reflexivity).
      exists (firstn t (concat batch) ++ skipn (length (firstn t (concat batch))) junk).
      replace (d_data (d_set d Data (f_write (d_data d) (t_byte_length (c_tree c)) (firstn t (concat batch)))))
        with (f_write (d_data d) (t_byte_length (c_tree c)) (firstn t (concat batch))) by (destruct d as [xt xd xb xo]; reflexivity).
      rewrite HB, <- len_concat, f_content_write, Hd, c_write_after, <- app_assoc. reflexivity. }
    set (offd := t_byte_length (c_tree c)) in *.
    set (fd := f_write (d_data d) offd (concat batch)) in *.
    assert (Hfd : f_content fd = (concat bs ++ concat batch) ++ skipn (length (concat batch)) junk).
    { unfold fd. rewrite HB, <- len_concat, f_content_write, Hd. apply c_write_after. }
    set (d1 := d_set d Data fd) in *.
    (* the cut after the data write only: still the old list, with junk in the data store *)
    assert (XD1 : YDisk cr (c_keypair c) d1 bs).
    { pose proof (TornData (length (concat batch))) as T. rewrite firstn_all in T. exact T. }
    destruct (oplog_append_cases cr (c_oplog c) e P4) as [OA|(o' & fr & OA)].
    { match type of H with
      | mbind (log_and_commit _ _ _) _ ?c0 ?w0 = _ =>
          pose proof (log_and_commit_panic cr cs bu c0 w0 hash sg frame_msg P1 EH ES OA) as E
      end.
      rewrite (mbind_panic _ _ _ _ _ _ _ E) in H. injection H as <- <- <-. left.
      exists d1. split; [reflexivity|]. split; [reflexivity|]. split; [exact XD1|].
      intros t. eexists. split; [reflexivity|]. apply TornData. }
    match type of H with
    | mbind (log_and_commit _ _ _) _ ?c0 ?w0 = _ =>
        pose proof (log_and_commit_detail cr cs bu c0 w0 hash sg o' _ fr P1 EH ES P5 P6 P7 OA) as E
    end.
    rewrite (mbind_eq _ _ _ _ _ _ _ E) in H. clear E.
    cbn [w_disk w_journal w_events] in H.
    rewrite EN, EF, EL, ER, EB in H.
    (* the oplog file after the append *)
    assert (Eol : c_oplog c = oo_oplog (stable_result (ol_bits (c_oplog c)) hf l)).
    { cbn [stable_result oo_oplog]. destruct (c_oplog c) as [bits el eb]. cbn [ol_bits ol_entries_len ol_entries_bytes] in *.
      rewrite Hlen, Hbytes. reflexivity. }
    rewrite Eol in OA.
    destruct (append_crash cr Hcrc s0 s1 body st0 st1 _ hf l e o' _ G Heok OA)
      as (fr' & Eops & _ & Cw & G' & _ & Eo' & Torn).
    injection Eops as Eoff <-. cbn [stable_result oo_oplog ol_entries_bytes] in Eoff.
    set (off := ENTRIES_OFFSET + ol_entries_bytes (c_oplog c)) in *.
    set (d2 := d_set d1 Oplog (f_write (d_oplog d1) off fr)) in *.
    (* the state after the commit satisfies the invariant for the longer list *)
    match type of H with
    | mbind (maybe_flush _ _) _ ?c2 (mkWorld _ ?j2 ?ev2) = _ =>
        assert (X2 : YInv cr c2 d2 B); [|set (c2' := c2) in *]
    end.
    { assert (Tsame : d_tree d2 = d_tree d) by reflexivity.
      assert (Dsame : d_data d2 = fd) by reflexivity.
      assert (Bsame : d_bitfield d2 = d_bitfield d) by reflexivity.
      assert (Osame : d_oplog d2 = f_write (d_oplog d) off fr) by reflexivity.
      destruct (contig_after (c_bitfield c) n k Hbf Hk) as [G1 G2].
      split.
      { unfold XW. cbn [c_tree c_bitfield c_header t_length t_byte_length t_fork t_roots].
        rewrite Tsame, Dsame.
        split; [symmetry; exact HlenB|].
        split; [reflexivity|].
        split; [reflexivity|].
        split; [rewrite HlenB; reflexivity|].
        split.
        { apply (commit_lookups cr Hnonblank bs batch (c_tree c) _ (d_tree d) (cs_nodes cs1)).
          - exact Sound.
          - intros jj q Q1 Q2. apply Compl1; [exact Q1|]. fold B in Q2. rewrite HlenB in Q2. exact Q2.
          - reflexivity.
          - exact Hlook. }
        split.
        { apply (commit_unflushed_ok cr Hhash32 B (c_tree c) _ (cs_nodes cs1) Hfit Sound); [reflexivity|exact Hun]. }
        split; [intros i; rewrite Hbu, HlenB; apply G1|].
        split; [cbn [set_contig hd_contig]; rewrite Hcg, Hbu, HlenB; exact G2|].
        split.
        { exists (skipn (length (concat batch)) junk). rewrite Hfd. unfold B. rewrite concat_app. reflexivity. }
        split; [exact Hfit|exact Hidx]. }
      split; [rewrite Tsame; exact Htok|].
      cbn [c_oplog c_keypair c_header c_bitfield c_tree].
      rewrite Tsame, Bsame, Osame, HlenB.
      destruct Hhc as (Hok & Hkp & Hfk & Hln & Hcgc & Hrh & Hsgc).
      exists s0, s1, (body ++ fr), st0, st1, hf, (l ++ [e]), kf.
      split.
      { rewrite f_content_write, Hcont. unfold off. rewrite Hbytes, Eoff. exact Cw. }
      split; [rewrite Eo'; exact G'|].
      split; [rewrite Eo'; reflexivity|]. split; [rewrite Eo'; reflexivity|].
      split; [exact Hhf|].
      split.
      { apply (hdr_desc_upd (c_keypair c) (c_header c) n _ (n + k) hash sg); try reflexivity.
        - repeat split; assumption.
        - cbn [set_contig set_tree hd_tree]. rewrite Hfk. reflexivity.
        - cbn [set_contig hd_contig]. rewrite Hcg, Hbu. exact G2.
        - rewrite <- HlenB. unfold NODE_SIZE in Hidx. lia.
        - apply Hhash32.
        - apply Hhashbytes.
        - apply Hsig64.
        - apply Hsigbytes. }
      split.
      { apply (echain_snoc cr B l kf n e (n + k)).
        - apply echain_app; [apply N.le_refl|exact Hch].
        - rewrite Ee. split; [lia|]. split.
          { exists sg. split; [reflexivity|]. split; [apply Hsig64|apply Hsigbytes]. }
          split; [reflexivity|]. cbn [e_nodes]. split; [exact Shape|].
          intros jj q Q1 Q2. apply Compl1; assumption. }
      split.
      { intros dd0 o Hfull. rewrite (Hstore dd0 o Hfull). f_equal. symmetry. apply ref_node_app.
        pose proof (echain_le cr bs l kf n Hch). fold n. lia. }
      split; [apply (BfY_weaken _ kf n); [exact Hbx|lia]|].
      apply BfSyncY_apply, Hsync. }
    assert (K2 : c_keypair c2' = c_keypair c) by reflexivity.
    destruct (maybe_flush_Y f c2' d2 (SW Oplog off fr :: SW Data offd (concat batch) :: j) ev B X2)
      as (c3 & d3 & fl & E & A3 & X3 & K3 & Hh3 & C3 & T3).
    rewrite (mbind_eq _ _ _ _ _ _ _ E) in H.
    rewrite !mbind_send in H. unfold send in H. cbn [w_disk w_journal w_events] in H.
    injection H as <- <- <-. right.
    exists c3, d3, (SW Data offd (concat batch) :: SW Oplog off fr :: fl). eexists.
    split.
    { cbn [rev]. rewrite <- !app_assoc. reflexivity. }
    split.
    { cbn [apply_sops apply_sop d_get]. exact A3. }
    split; [exact X3|]. split; [rewrite K3; exact K2|].
    split; [exact Hh3|].
    split.
    { intros k0. destruct k0 as [|[|k0]].
      - exists d. split; [reflexivity|]. split; [exact XD0|intros Hh; exact Hh].
      - exists d1. split; [reflexivity|]. split; [exact XD1|intros Hh; exact Hh].
      - destruct (C3 k0) as (dk & Ak & Xk & Hk3). exists dk. split.
        + cbn [firstn apply_sops apply_sop d_get]. exact Ak.
        + split; [change (YDisk cr (c_keypair c) dk B); rewrite <- K2; exact Xk|].
          intros Hh. apply Hk3.
          replace (d_oplog d2) with (f_write (d_oplog d) off fr) by reflexivity.
          rewrite f_content_write, Hcont. unfold off. rewrite Hbytes, Eoff, Cw.
          rewrite Hcont in Hh. destruct (good_slot_lengths cr _ _ _ _ _ _ _ _ G) as [L0s L1s].
          apply (hyg_body cr s0 s1 body (body ++ fr) L0s L1s Hh). }
    intros k0 o t Hk0 Ht. destruct k0 as [|[|k0]].
    - (* the torn data write: junk after the blocks *)
      cbn [nth_error] in Hk0. injection Hk0 as <-.
      exists d. eexists. split; [reflexivity|]. split; [reflexivity|]. intros _. left.
      apply (YDisk_recovers cr Hcrc Hhash32 Hnonblank Hhashbytes). apply TornData.
    - (* the torn entry write: open ignores it and cuts it off *)
      cbn [nth_error] in Hk0. injection Hk0 as <-. cbn [wlen] in Ht.
      exists d1. eexists. split; [reflexivity|]. split; [reflexivity|]. intros _. left.
      cbn [tear apply_sop d_get]. change ((1 <? 2)%nat) with true. cbv iota.
      destruct (Torn t Ht) as [To Tc].
      set (d1t := d_set d1 Oplog (f_write (d_oplog d1) off (firstn t fr))).
      assert (Ec : f_content (d_oplog d1t) = c_write (s0 ++ s1 ++ body) (len (s0 ++ s1 ++ body)) (firstn t fr)).
      { unfold d1t. replace (d_oplog (d_set d1 Oplog (f_write (d_oplog d1) off (firstn t fr))))
          with (f_write (d_oplog d) off (firstn t fr)) by (destruct d as [xt xd xb xo]; reflexivity).
        rewrite f_content_write, Hcont. unfold off. rewrite Hbytes, Eoff. reflexivity. }
      assert (Hd1 : exists junk1, f_content (d_data d1t) = concat bs ++ junk1).
      { exists (concat batch ++ skipn (length (concat batch)) junk).
        replace (d_data d1t) with fd by (destruct d as [xt xd xb xo]; reflexivity).
        rewrite Hfd, <- app_assoc. reflexivity. }
      rewrite <- Ec in To. cbn [stable_result oo_oplog] in To.
      destruct (N.ltb_spec 0 (N.of_nat t)) as [Lt|Lt].
      + set (d1r := d_set d1t Oplog (f_truncate (d_oplog d1t) (len (s0 ++ s1 ++ body)))).
        apply (reopen_after_repair (c_keypair c) d1t d1r bs s0 s1 body st0 st1 _ hf l kf _ Hs Hn To);
          try (destruct d as [xt xd xb xo]; reflexivity); try assumption.
        * replace (d_oplog d1r) with (f_truncate (d_oplog d1t) (len (s0 ++ s1 ++ body)))
            by (destruct d as [xt xd xb xo]; reflexivity).
          rewrite f_content_truncate, Ec. exact Tc.
        * replace (d_oplog d1r) with (f_truncate (d_oplog d1t) (len (s0 ++ s1 ++ body)))
            by (destruct d as [xt xd xb xo]; reflexivity).
          rewrite f_content_truncate, Ec, Tc, c_write_end, <- !app_assoc.
          destruct (good_slot_lengths cr _ _ _ _ _ _ _ _ G) as [L0s L1s].
          apply (hyg_body cr s0 s1 (body ++ firstn t fr) body L0s L1s).
      + assert (t = 0%nat) as -> by lia.
        apply (reopen_after_repair (c_keypair c) d1t d1t bs s0 s1 body st0 st1 _ hf l kf _ Hs Hn To);
          try reflexivity; try assumption; [|intros Hh; exact Hh].
        rewrite Ec. cbn [firstn]. rewrite c_write_end, app_nil_r. reflexivity.
    - (* a torn write of the flush group *)
      cbn [nth_error] in Hk0.
      destruct (T3 k0 o t Hk0 ltac:(lia)) as (dk & dkt & Ak & At & Q).
      exists dk, dkt. split; [cbn [firstn apply_sops apply_sop d_get]; exact Ak|]. split; [exact At|].
      intros Hsafe. change ((S (S k0) <? 2)%nat) with false. cbv iota.
      destruct (Q Hsafe) as [Yd|Cl]; [left|right; exact Cl].
      apply (YDisk_recovers cr Hcrc Hhash32 Hnonblank Hhashbytes). rewrite <- K2. exact Yd.
  Qed.
End AppendY.

(* ====================================================================================== *)
(* E. core_append: preservation of YInv, the clean cuts, the torn cuts                     *)
(* ====================================================================================== *)

Section CoreAppendY.
  Variable cr : crypto.
  Hypothesis Hcrc : crc_ok cr.
  Hypothesis Hhash32 : forall x, length (cr_hash cr x) = 32%nat.
  Hypothesis Hnonblank : forall x, all_zero (cr_hash cr x) = false.
  Hypothesis Hhashbytes : forall x, bytes_ok (cr_hash cr x) = true.
  Hypothesis Hsig64 : forall sk m, length (cr_sign cr sk m) = 64%nat.
  Hypothesis Hsigbytes : forall sk m, bytes_ok (cr_sign cr sk m) = true.

  (* the run of an append from a YInv state: result, journal, final state, every clean cut, every torn cut *)
  Theorem append_Y f batch c d j ev bs sk :
    YInv cr c d bs -> kp_secret (c_keypair c) = Some sk ->
    sumN (map len (bs ++ batch)) <= u64_max ->
    NODE_SIZE * (2 * N.of_nat (length (bs ++ batch))) <= u64_max ->
    (exists d1,
       core_append cr f batch c (mkWorld d j ev) =
         (c, mkWorld d1 (SW Data (t_byte_length (c_tree c)) (concat batch) :: j) ev, Panic frame_msg) /\
       apply_sops d [SW Data (t_byte_length (c_tree c)) (concat batch)] = Some d1 /\
       YDisk cr (c_keypair c) d1 bs /\
       forall t, exists d1t, apply_sop d (tear (SW Data (t_byte_length (c_tree c)) (concat batch)) t) = Some d1t /\
                             YDisk cr (c_keypair c) d1t bs) \/
    exists c' d' delta ev',
      core_append cr f batch c (mkWorld d j ev) =
        (c', mkWorld d' (rev delta ++ j) ev',
         Ok (N.of_nat (length (bs ++ batch)), sumN (map len (bs ++ batch)))) /\
      apply_sops d delta = Some d' /\
      YInv cr c' d' (bs ++ batch) /\ c_keypair c' = c_keypair c /\
      (f = Some true -> batch <> [] -> hyg cr (f_content (d_oplog d'))) /\
      (forall k, exists dk, apply_sops d (firstn k delta) = Some dk /\
                            YDisk cr (c_keypair c) dk (if (k <? 2)%nat then bs else bs ++ batch) /\
                            (hyg cr (f_content (d_oplog d)) -> hyg cr (f_content (d_oplog dk)))) /\
      (forall k o t, nth_error delta k = Some o -> (t < wlen o)%nat ->
         exists dk dkt, apply_sops d (firstn k delta) = Some dk /\ apply_sop dk (tear o t) = Some dkt /\
                        QA cr (c_keypair c) (if (k <? 2)%nat then bs else bs ++ batch) dk o t dkt).
  Proof.
    intros X Hsk Hfit Hidx.
    unfold core_append. rewrite mbind_get_core, Hsk.
    destruct batch as [|b0 rest].
    - right. rewrite mbind_ret, mbind_get_core. unfold ret.
      exists c, d, [], ev. rewrite app_nil_r.
      pose proof (YInv_XW cr c d bs X) as (HL & HB & _). rewrite HL, HB.
      split; [reflexivity|]. split; [reflexivity|]. split; [exact X|]. split; [reflexivity|].
      split; [intros _ Hne; congruence|].
      split.
      + intros k. exists d. rewrite firstn_nil. split; [reflexivity|]. split; [|intros Hh; exact Hh].
        destruct (k <? 2)%nat; apply (YInv_YDisk cr c d bs X).
      + intros k o t Hk. destruct k; discriminate Hk.
    - cbv iota. fold (append_body cr f (b0 :: rest) sk c).
      destruct (append_body_Y cr Hcrc Hhash32 Hnonblank Hhashbytes Hsig64 Hsigbytes
                  f (b0 :: rest) c d j ev bs sk X ltac:(discriminate) Hfit Hidx)
        as [(d1 & E & A & XD & TD)|(c1 & d1 & delta & ev1 & E & A & X1 & K1 & Hh1 & C1 & T1)].
      + left. rewrite (mbind_panic _ _ _ _ _ _ _ E). exists d1. split; [reflexivity|]. split; [exact A|]. split; [exact XD|exact TD].
      + right. rewrite (mbind_eq _ _ _ _ _ _ _ E), mbind_get_core. unfold ret.
        pose proof (YInv_XW cr _ _ _ X1) as (HL & HB & _). rewrite HL, HB.
        exists c1, d1, delta, ev1.
        split; [reflexivity|]. split; [exact A|]. split; [exact X1|]. split; [exact K1|].
        split; [intros Hf _; exact (Hh1 Hf)|]. split; [exact C1|exact T1].
  Qed.

  (* core_append preserves YInv, for every flush decision *)
  Theorem append_YInv f batch c d j ev bs sk c' w' r :
    YInv cr c d bs -> kp_secret (c_keypair c) = Some sk ->
    sumN (map len (bs ++ batch)) <= u64_max ->
    NODE_SIZE * (2 * N.of_nat (length (bs ++ batch))) <= u64_max ->
    core_append cr f batch c (mkWorld d j ev) = (c', w', r) ->
    r = Panic frame_msg \/
    (r = Ok (N.of_nat (length (bs ++ batch)), sumN (map len (bs ++ batch))) /\
     YInv cr c' (w_disk w') (bs ++ batch) /\ c_keypair c' = c_keypair c).
  Proof.
    intros X Hsk Hfit Hidx H.
    destruct (append_Y f batch c d j ev bs sk X Hsk Hfit Hidx)
      as [(d1 & E & _)|(c1 & d1 & delta & ev1 & E & A & X1 & K1 & C1)]; rewrite E in H; injection H as <- <- <-.
    - left. reflexivity.
    - right. split; [reflexivity|]. split; [exact X1|exact K1].
  Qed.

  (* the clean cuts (C02 for YInv states): the process dies after k whole operations of the journal *)
  Theorem append_cut_recovers_Y f batch c d j ev bs sk c' w' x delta :
    YInv cr c d bs -> kp_secret (c_keypair c) = Some sk ->
    sumN (map len (bs ++ batch)) <= u64_max ->
    NODE_SIZE * (2 * N.of_nat (length (bs ++ batch))) <= u64_max ->
    core_append cr f batch c (mkWorld d j ev) = (c', w', Ok x) ->
    w_journal w' = rev delta ++ j ->
    forall k, exists dk,
      apply_sops d (firstn k delta) = Some dk /\
      recovers cr (c_keypair c) dk (if (k <? 2)%nat then bs else bs ++ batch).
  Proof.
    intros X Hsk Hfit Hidx H Hj k.
    destruct (append_Y f batch c d j ev bs sk X Hsk Hfit Hidx)
      as [(d1 & E & _)|(c1 & d1 & delta0 & ev1 & E & A & X1 & K1 & _ & C1 & _)]; rewrite E in H; [discriminate H|].
    injection H as <- <- <-. cbn [w_journal] in Hj.
    apply app_inv_tail in Hj. apply (f_equal (@rev sop)) in Hj. rewrite !rev_involutive in Hj. subst delta0.
    destruct (C1 k) as (dk & Ak & XD & _). exists dk. split; [exact Ak|].
    apply (YDisk_recovers cr Hcrc Hhash32 Hnonblank Hhashbytes), XD.
  Qed.

  (* C07 over all four stores.  The process dies during the k-th operation of the journal of a
     successful append, a write of [data] to store [s] at [off], after only the first t < length data
     bytes reached the store.  The disk reached reopens, to the invariant for the list before the call
     (k = 0: the data write; k = 1: the oplog entry write) or for the list after it (k >= 2: a bitfield
     page, a tree node, the header slot) — except that a torn HEADER SLOT write may instead exhibit two
     byte strings with the same CRC-32, and needs the side condition of Crash.header_write_torn
     (tear_safe: a tear within the CRC field of a slot that was already invalid needs that slot to be
     dead; trivially true for every other write). *)
  Theorem append_torn_recovers f batch c d j ev bs sk c' w' x delta :
    YInv cr c d bs -> kp_secret (c_keypair c) = Some sk ->
    sumN (map len (bs ++ batch)) <= u64_max ->
    NODE_SIZE * (2 * N.of_nat (length (bs ++ batch))) <= u64_max ->
    core_append cr f batch c (mkWorld d j ev) = (c', w', Ok x) ->
    w_journal w' = rev delta ++ j ->
    forall k s off data t, nth_error delta k = Some (SW s off data) -> (t < length data)%nat ->
      exists dk dkt,
        apply_sops d (firstn k delta) = Some dk /\
        apply_sop dk (tear (SW s off data) t) = Some dkt /\
        (tear_safe cr dk (SW s off data) t ->
         recovers cr (c_keypair c) dkt (if (k <? 2)%nat then bs else bs ++ batch) \/
         (s = Oplog /\ off < ENTRIES_OFFSET /\ collision cr t)).
  Proof.
    intros X Hsk Hfit Hidx H Hj k s off data t Hk Ht.
    destruct (append_Y f batch c d j ev bs sk X Hsk Hfit Hidx)
      as [(d1 & E & _)|(c1 & d1 & delta0 & ev1 & E & A & X1 & K1 & _ & _ & T1)]; rewrite E in H; [discriminate H|].
    injection H as <- <- <-. cbn [w_journal] in Hj.
    apply app_inv_tail in Hj. apply (f_equal (@rev sop)) in Hj. rewrite !rev_involutive in Hj. subst delta0.
    destruct (T1 k _ t Hk Ht) as (dk & dkt & Ak & At & Q).
    exists dk, dkt. split; [exact Ak|]. split; [exact At|].
    intros Hsafe. destruct (Q Hsafe) as [R|[Sl C]]; [left; exact R|right].
    cbn [is_slot_write] in Sl. destruct s; try discriminate Sl.
    split; [reflexivity|]. split; [apply N.ltb_lt, Sl|exact C].
  Qed.

  (* the same from a state of CrashCore1.XInv (whole bitfield pages) whose tree store has byte-valued
     length fields; note that the result is YInv, not XInv: see TornCore.reopen_to_XInv_refuted *)
  Corollary append_torn_recovers_from_XInv f batch c d j ev bs sk c' w' x delta :
    XInv cr c d bs -> TreeOk (d_tree d) -> kp_secret (c_keypair c) = Some sk ->
    sumN (map len (bs ++ batch)) <= u64_max ->
    NODE_SIZE * (2 * N.of_nat (length (bs ++ batch))) <= u64_max ->
    core_append cr f batch c (mkWorld d j ev) = (c', w', Ok x) ->
    w_journal w' = rev delta ++ j ->
    forall k s off data t, nth_error delta k = Some (SW s off data) -> (t < length data)%nat ->
      exists dk dkt,
        apply_sops d (firstn k delta) = Some dk /\
        apply_sop dk (tear (SW s off data) t) = Some dkt /\
        (tear_safe cr dk (SW s off data) t ->
         recovers cr (c_keypair c) dkt (if (k <? 2)%nat then bs else bs ++ batch) \/
         (s = Oplog /\ off < ENTRIES_OFFSET /\ collision cr t)).
  Proof.
    intros X Hok. apply (append_torn_recovers f batch c d j ev bs sk c' w' x delta), XInv_YInv; assumption.
  Qed.

  (* for every write that is not a header slot write: no side condition, no escape clause *)
  Corollary append_torn_recovers_plain f batch c d j ev bs sk c' w' x delta :
    YInv cr c d bs -> kp_secret (c_keypair c) = Some sk ->
    sumN (map len (bs ++ batch)) <= u64_max ->
    NODE_SIZE * (2 * N.of_nat (length (bs ++ batch))) <= u64_max ->
    core_append cr f batch c (mkWorld d j ev) = (c', w', Ok x) ->
    w_journal w' = rev delta ++ j ->
    forall k s off data t, nth_error delta k = Some (SW s off data) -> (t < length data)%nat ->
      is_slot_write (SW s off data) = false ->
      exists dk dkt,
        apply_sops d (firstn k delta) = Some dk /\
        apply_sop dk (tear (SW s off data) t) = Some dkt /\
        recovers cr (c_keypair c) dkt (if (k <? 2)%nat then bs else bs ++ batch).
  Proof.
    intros X Hsk Hfit Hidx H Hj k s off data t Hk Ht Hns.
    destruct (append_torn_recovers f batch c d j ev bs sk c' w' x delta X Hsk Hfit Hidx H Hj k s off data t Hk Ht)
      as (dk & dkt & Ak & At & Q).
    exists dk, dkt. split; [exact Ak|]. split; [exact At|].
    destruct Q as [R|(-> & Lt & _)]; [|exact R|].
    - cbn [tear_safe]. destruct s; try exact I. intros Lt. cbn [is_slot_write] in Hns.
      apply N.ltb_ge in Hns. unfold HEADER_SIZE, ENTRIES_OFFSET in *. lia.
    - cbn [is_slot_write] in Hns. apply N.ltb_ge in Hns. lia.
  Qed.

  (* with the observations spelled out *)
  Corollary append_torn_observations f batch c d j ev bs sk c' w' x delta :
    YInv cr c d bs -> kp_secret (c_keypair c) = Some sk ->
    sumN (map len (bs ++ batch)) <= u64_max ->
    NODE_SIZE * (2 * N.of_nat (length (bs ++ batch))) <= u64_max ->
    core_append cr f batch c (mkWorld d j ev) = (c', w', Ok x) ->
    w_journal w' = rev delta ++ j ->
    forall k s off data t, nth_error delta k = Some (SW s off data) -> (t < length data)%nat ->
      exists dk dkt,
        apply_sops d (firstn k delta) = Some dk /\
        apply_sop dk (tear (SW s off data) t) = Some dkt /\
        (tear_safe cr dk (SW s off data) t ->
         (exists ck dk' ops, core_open cr None true dkt = (dk', ops, Ok ck) /\
                             (obs_list ck dk' bs \/ obs_list ck dk' (bs ++ batch))) \/
         (s = Oplog /\ off < ENTRIES_OFFSET /\ collision cr t)).
  Proof.
    intros X Hsk Hfit Hidx H Hj k s off data t Hk Ht.
    destruct (append_torn_recovers f batch c d j ev bs sk c' w' x delta X Hsk Hfit Hidx H Hj k s off data t Hk Ht)
      as (dk & dkt & Ak & At & Q).
    exists dk, dkt. split; [exact Ak|]. split; [exact At|]. intros Hsafe.
    destruct (Q Hsafe) as [(ck & dk' & ops & E & Xk & _)|C]; [left|right; exact C].
    exists ck, dk', ops. split; [exact E|].
    pose proof (YInv_observations cr Hhash32 Hnonblank ck dk' _ Xk) as O.
    destruct (k <? 2)%nat; [left|right]; exact O.
  Qed.

  (* an append that panics (30-bit frame guard) has a journal of one data write; after that write, whole
     or torn at any byte, reopening gives the state before the call *)
  Theorem append_panic_torn_recovers f batch c d j ev bs sk c' w' s :
    YInv cr c d bs -> kp_secret (c_keypair c) = Some sk ->
    sumN (map len (bs ++ batch)) <= u64_max ->
    NODE_SIZE * (2 * N.of_nat (length (bs ++ batch))) <= u64_max ->
    core_append cr f batch c (mkWorld d j ev) = (c', w', Panic s) ->
    s = frame_msg /\ c' = c /\ w_events w' = ev /\
    exists o, w_journal w' = o :: j /\ apply_sop d o = Some (w_disk w') /\
    recovers cr (c_keypair c) (w_disk w') bs /\
    forall t, exists dt, apply_sop d (tear o t) = Some dt /\ recovers cr (c_keypair c) dt bs.
  Proof.
    intros X Hsk Hfit Hidx H.
    destruct (append_Y f batch c d j ev bs sk X Hsk Hfit Hidx)
      as [(d1 & E & A & XD & TD)|(c1 & d1 & delta0 & ev1 & E & _)]; rewrite E in H; [|discriminate H].
    injection H as <- <- <-. split; [reflexivity|]. split; [reflexivity|]. split; [reflexivity|].
    eexists. split; [reflexivity|]. cbn [w_disk].
    split. { cbn [apply_sops] in A. destruct (apply_sop d _) as [dx|]; [exact A|discriminate A]. }
    split; [apply (YDisk_recovers cr Hcrc Hhash32 Hnonblank Hhashbytes), XD|].
    intros t. destruct (TD t) as (dt & At & Yt). exists dt. split; [exact At|].
    apply (YDisk_recovers cr Hcrc Hhash32 Hnonblank Hhashbytes), Yt.
  Qed.
End CoreAppendY.

Print Assumptions flush_all_Y.
Print Assumptions append_body_Y.
Print Assumptions append_Y.
Print Assumptions append_YInv.
Print Assumptions append_cut_recovers_Y.
Print Assumptions append_torn_recovers.
Print Assumptions append_torn_recovers_from_XInv.
Print Assumptions append_torn_recovers_plain.
Print Assumptions append_torn_observations.
Print Assumptions append_panic_torn_recovers.

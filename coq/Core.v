(* Core.v — the Hypercore state machine over a disk, with its storage-operation journal and events.
   Mirrors: src/core.rs (Hypercore::new, append_batch, get, has, info, clear, create_proof,
   verify_and_apply_proof, missing_nodes, make_read_only, flush cadence), src/builder.rs,
   src/data/mod.rs, src/replication/events.rs (which events are sent, in which order). *)
From HC Require Export Base NMap Codec Crypto FlatTree Storage Bitfield Oplog Merkle.
From Coq Require Import FMapPositive.

Record core := mkCore {
  c_keypair : keypair;
  c_oplog : oplog;
  c_tree : mtree;
  c_bitfield : bitfield;
  c_header : header;
  c_skip : N }.            (* skip_flush_count *)

Inductive event :=
| EvUpgrade
| EvHave (start length : N) (drop : bool)
| EvGet (index : N).

(* the world an operation runs in: disk, journal of mutating storage operations (newest first),
   events sent (newest first) *)
Record world := mkWorld { w_disk : disk; w_journal : list sop; w_events : list event }.

(* state + error monad; on an error the state reached so far is kept *)
Definition M (A : Type) := core -> world -> core * world * res A.

Definition ret {A} (a : A) : M A := fun c w => (c, w, Ok a).
Definition mbind {A B} (m : M A) (f : A -> M B) : M B :=
  fun c w => match m c w with
             | (c', w', Ok a) => f a c' w'
             | (c', w', Err e) => (c', w', Err e)
             | (c', w', Panic s) => (c', w', Panic s)
             | (c', w', OutOfFuel) => (c', w', OutOfFuel)
             end.
Definition lift {A} (r : res A) : M A := fun c w => (c, w, r).
Definition get_core : M core := fun c w => (c, w, Ok c).
Definition set_core (c' : core) : M unit := fun _ w => (c', w, Ok tt).
Definition get_disk : M disk := fun c w => (c, w, Ok (w_disk w)).
Definition send (e : event) : M unit :=
  fun c w => (c, mkWorld (w_disk w) (w_journal w) (e :: w_events w), Ok tt).

Notation "x <-- m ;;; k" := (mbind m (fun x => k))
  (at level 61, m at next level, right associativity).
Notation "' p <-- m ;;; k" := (mbind m (fun p => k))
  (at level 61, p pattern, m at next level, right associativity).
Notation "m ;;; k" := (mbind m (fun _ => k))
  (at level 61, right associativity).

(* Storage::flush_infos: apply the operations in order; an out-of-bounds del maps to
   InvalidOperation (map_random_access_err) and stops the sequence *)
Fixpoint emit (ops : list sop) : M unit :=
  match ops with
  | [] => ret tt
  | o :: r =>
      fun c w =>
        match apply_sop (w_disk w) o with
        | Some d' => emit r c (mkWorld d' (o :: w_journal w) (w_events w))
        | None => (c, w, Err InvalidOperation)
        end
  end.

Definition put_header (h : header) : M unit :=
  fun c w => (mkCore (c_keypair c) (c_oplog c) (c_tree c) (c_bitfield c) h (c_skip c), w, Ok tt).
Definition put_oplog (o : oplog) : M unit :=
  fun c w => (mkCore (c_keypair c) o (c_tree c) (c_bitfield c) (c_header c) (c_skip c), w, Ok tt).
Definition put_tree (t : mtree) : M unit :=
  fun c w => (mkCore (c_keypair c) (c_oplog c) t (c_bitfield c) (c_header c) (c_skip c), w, Ok tt).
Definition put_bitfield (b : bitfield) : M unit :=
  fun c w => (mkCore (c_keypair c) (c_oplog c) (c_tree c) b (c_header c) (c_skip c), w, Ok tt).
Definition put_skip (s : N) : M unit :=
  fun c w => (mkCore (c_keypair c) (c_oplog c) (c_tree c) (c_bitfield c) (c_header c) s, w, Ok tt).
Definition put_keypair (k : keypair) : M unit :=
  fun c w => (mkCore k (c_oplog c) (c_tree c) (c_bitfield c) (c_header c) (c_skip c), w, Ok tt).

(* update_contiguous_length *)
Definition update_contig (contig : N) (b : bitfield) (u : bf_update) : N :=
  let e := bu_start u + bu_length u in
  if bu_drop u then
    if bu_start u <? contig then bu_start u else contig
  else if (contig <=? e) && (bu_start u <=? contig)
       then bf_skip_set (S (PositiveMap.cardinal (bf_bits b))) b e
       else contig.

Record info := mkInfo {
  i_length : N; i_byte_length : N; i_contiguous : N; i_fork : N; i_writeable : bool }.

Definition core_info (c : core) : info :=
  mkInfo (t_length (c_tree c)) (t_byte_length (c_tree c)) (hd_contig (c_header c))
         (t_fork (c_tree c)) (match kp_secret (c_keypair c) with Some _ => true | None => false end).

Definition core_has (c : core) (i : N) : bool := bf_get (c_bitfield c) i.

Section WithCrypto.
  Variable cr : crypto.

  (* update_header_with_changeset: the entry to log and the header after it *)
  Definition entry_of_changeset (cs : changeset) (bu : option bf_update) (h : header)
    : res (entry * header) :=
    if cs_upgraded cs then
      match cs_hash cs, cs_signature cs with
      | Some hash, Some sg =>
          Ok (mkEntry (cs_nodes cs)
                (Some (mkTreeUpgrade (cs_fork cs) (cs_ancestors cs) (cs_length cs) sg)) bu,
              set_tree h (mkHeaderTree (ht_fork (hd_tree h)) (cs_length cs) hash sg))
      | None, _ => Panic "Upgraded changeset must have a hash before appended"
      | _, None => Panic "Upgraded changeset must be signed before appended"
      end
    else Ok (mkEntry (cs_nodes cs) None bu, h).

  (* flush_bitfield_and_tree_and_oplog *)
  Definition flush_all (clear_traces : bool) : M unit :=
    c <-- get_core ;;;
    let '(b', pops) := bf_flush (c_bitfield c) in
    put_bitfield b' ;;; emit pops ;;;
    '(t', tops) <-- lift (tree_flush (c_tree c)) ;;;
    put_tree t' ;;; emit tops ;;;
    c <-- get_core ;;;
    '(o', oops) <-- lift (oplog_flush cr (c_oplog c) (c_header c) clear_traces) ;;;
    put_oplog o' ;;; emit oops.

  (* should_flush_bitfield_and_tree_and_oplog; [forced] overrides the cadence (see DESIGN 2.2) *)
  Definition maybe_flush (forced : option bool) : M unit :=
    c <-- get_core ;;;
    let native := (c_skip c =? 0) || (MAX_OPLOG_ENTRIES_BYTE_SIZE <=? ol_entries_bytes (c_oplog c)) in
    let decision := match forced with Some b => b | None => native end in
    if decision then put_skip 3 ;;; flush_all false
    else put_skip (c_skip c - 1).

  (* append an entry for [cs] to the oplog, apply the bitfield update, commit the tree *)
  Definition log_and_commit (cs : changeset) (bu : option bf_update) : M unit :=
    c <-- get_core ;;;
    '(e, h') <-- lift (entry_of_changeset cs bu (c_header c)) ;;;
    '(o', ops) <-- lift (oplog_append cr (c_oplog c) e) ;;;
    put_oplog o' ;;; emit ops ;;; put_header h' ;;;
    (match bu with
     | Some u =>
         c <-- get_core ;;;
         let b' := bf_apply (c_bitfield c) u in
         put_bitfield b' ;;;
         put_header (set_contig (c_header c) (update_contig (hd_contig (c_header c)) b' u))
     | None => ret tt
     end) ;;;
    c <-- get_core ;;;
    t' <-- lift (tree_commit (c_tree c) cs) ;;;
    put_tree t'.

  Fixpoint cs_append_all (cs : changeset) (batch : list bytes) : res changeset :=
    match batch with
    | [] => Ok cs
    | d :: r => cs' <- cs_append cr cs d ;; cs_append_all cs' r
    end.

  (* append_batch: returns (length, byte_length) *)
  Definition core_append (forced : option bool) (batch : list bytes) : M (N * N) :=
    c <-- get_core ;;;
    match kp_secret (c_keypair c) with
    | None => lift (Err NotWritable)
    | Some sk =>
        (match batch with
         | [] => ret tt
         | _ =>
             cs <-- lift (cs_append_all (tree_changeset (c_tree c)) batch) ;;;
             let cs := cs_hash_and_sign cr cs sk in
             emit [SW Data (t_byte_length (c_tree c)) (concat batch)] ;;;
             let bu := mkBfUpdate false (cs_ancestors cs) (cs_batch_length cs) in
             log_and_commit cs (Some bu) ;;;
             maybe_flush forced ;;;
             send EvUpgrade ;;; send (EvHave (bu_start bu) (bu_length bu) false)
         end) ;;;
        c <-- get_core ;;;
        ret (t_length (c_tree c), t_byte_length (c_tree c))
    end.

  Definition core_get (index : N) : M (option bytes) :=
    c <-- get_core ;;;
    if negb (bf_get (c_bitfield c) index) then send (EvGet index) ;;; ret None
    else
      d <-- get_disk ;;;
      '(off, l) <-- lift (byte_range (c_tree c) (d_tree d) index) ;;;
      if l =? 0 then ret (Some [])
      else match f_read (d_data d) off l with
           | Some data => ret (Some data)
           | None => lift (Err InvalidOperation)
           end.

  Definition core_clear (forced : option bool) (start end_ : N) : M unit :=
    if end_ <=? start then ret tt
    else
      c <-- get_core ;;;
      let u := mkBfUpdate true start (end_ - start) in
      '(o', ops) <-- lift (oplog_append cr (c_oplog c) (mkEntry [] None (Some u))) ;;;
      put_oplog o' ;;; emit ops ;;;
      let b' := bf_set_range (c_bitfield c) start (end_ - start) false in
      put_bitfield b' ;;;
      (if start <? hd_contig (c_header c) then put_header (set_contig (c_header c) start) else ret tt) ;;;
      let s' := match bf_last_index_of_true b' start with Some i => i + 1 | None => 0 end in
      let e' := match bf_index_of_true b' end_ with Some i => i | None => t_length (c_tree c) end in
      d <-- get_disk ;;;
      clear_offset <-- lift (byte_offset (c_tree c) (d_tree d) s') ;;;
      e1 <-- lift (sub64 "end - 1" e' 1) ;;;
      '(lo, ll) <-- lift (byte_range (c_tree c) (d_tree d) e1) ;;;
      clear_length <-- lift (sub64 "clear length" (lo + ll) clear_offset) ;;;
      (* the hole is deleted only when it is non-empty and starts inside the data store (the store may have
         been truncated by an earlier delete that reached its end) *)
      (if (0 <? clear_length) && (clear_offset <? f_len (d_data d))
       then emit [SD Data clear_offset clear_length] else ret tt) ;;;
      maybe_flush forced.

  Definition core_create_proof (block hash : option req_block) (seek : option req_seek)
             (upgrade : option req_upgrade) : M (option proof) :=
    c <-- get_core ;;;
    d <-- get_disk ;;;
    vp <-- lift (create_valueless_proof (c_tree c) (d_tree d) block hash seek upgrade) ;;;
    match vp_block vp with
    | Some b =>
        v <-- core_get (dh_index b) ;;;
        match v with
        | None => ret None
        | Some value =>
            ret (Some (mkProof (vp_fork vp) (Some (mkDataBlock (dh_index b) value (dh_nodes b)))
                         (vp_hash vp) (vp_seek vp) (vp_upgrade vp)))
        end
    | None => ret (Some (mkProof (vp_fork vp) None (vp_hash vp) (vp_seek vp) (vp_upgrade vp)))
    end.

  Definition core_apply_proof (forced : option bool) (pf : proof) : M bool :=
    c <-- get_core ;;;
    if negb (p_fork pf =? t_fork (c_tree c)) then ret false
    else
      d <-- get_disk ;;;
      cs <-- lift (verify_proof cr (c_tree c) (d_tree d) pf (kp_public (c_keypair c))) ;;;
      if negb (commitable (c_tree c) cs) then ret false
      else
        bu <-- (match p_block pf with
                | Some b =>
                    off <-- lift (byte_offset_in_changeset (c_tree c) (d_tree d) (db_index b) cs) ;;;
                    emit [SW Data off (db_value b)] ;;;
                    ret (Some (mkBfUpdate false (db_index b) 1))
                | None => ret None
                end) ;;;
        log_and_commit cs bu ;;;
        maybe_flush forced ;;;
        (match p_upgrade pf with Some _ => send EvUpgrade | None => ret tt end) ;;;
        (match bu with Some u => send (EvHave (bu_start u) (bu_length u) false) | None => ret tt end) ;;;
        ret true.

  Definition core_missing_nodes (index : N) : M N :=
    c <-- get_core ;;;
    d <-- get_disk ;;;
    i2 <-- lift (mul64 "index * 2" index 2) ;;;
    lift (missing_nodes (c_tree c) (d_tree d) i2).

  Definition core_missing_nodes_tree (index : N) : M N :=
    c <-- get_core ;;;
    d <-- get_disk ;;;
    lift (missing_nodes (c_tree c) (d_tree d) index).

  (* make_read_only: both header slots are rewritten also when the instance is already read-only (a crash during
     an earlier call can have left the secret in the slot that is not current); the result says whether the
     instance was writable *)
  Definition core_make_read_only : M bool :=
    c <-- get_core ;;;
    let changed := match kp_secret (c_keypair c) with Some _ => true | None => false end in
    put_keypair (mkKeypair (kp_public (c_keypair c)) None) ;;;
    put_header (set_keypair (c_header c) (mkKeypair (kp_public (hd_keypair (c_header c))) None)) ;;;
    flush_all true ;;;
    ret changed.

  (* ---------- Hypercore::new ---------- *)

  Definition replay_entry (tf : file) (st : mtree * bitfield * header) (e : entry)
    : res (mtree * bitfield * header) :=
    let '(t, b, h) := st in
    let t := fold_left tree_add_node (e_nodes e) t in
    let '(b, h) := match e_bitfield e with
                   | Some u => let b' := bf_apply b u in
                               (b', set_contig h (update_contig (hd_contig h) b' u))
                   | None => (b, h)
                   end in
    match e_upgrade e with
    | Some u =>
        cs <- tree_truncate t tf (tu_length u) (tu_fork u) ;;
        sg <- parse_signature (tu_signature u) ;;
        let hash := tree_hash cr (cs_roots cs) in
        let cs := mkCs (cs_length cs) (tu_ancestors u) (cs_byte_length cs) (cs_batch_length cs)
                       (cs_fork cs) (cs_roots cs) (cs_rnodes cs) (Some hash) (Some sg) true
                       (cs_orig_length cs) (cs_orig_fork cs) in
        let h := set_tree h (mkHeaderTree (ht_fork (hd_tree h)) (cs_length cs) hash sg) in
        t' <- tree_commit t cs ;;
        Ok (t', b, h)
    | None => Ok (t, b, h)
    end.

  Fixpoint replay_entries (tf : file) (st : mtree * bitfield * header) (l : list entry)
    : res (mtree * bitfield * header) :=
    match l with
    | [] => Ok st
    | e :: r => st' <- replay_entry tf st e ;; replay_entries tf st' r
    end.

  (* kp = key pair given to the builder, open_flag = builder.open(true).
     Returns the new core, the disk after the operations issued while opening, and those
     operations (oldest first). On an error the disk reached so far is returned. *)
  Definition core_open (kp : option keypair) (open_flag : bool) (d : disk)
    : disk * list sop * res core :=
    match (if open_flag then match kp with Some _ => Err BadArgument | None => Ok None end
           else Ok kp) with
    | Err e => (d, [], Err e)
    | Panic s => (d, [], Panic s)
    | OutOfFuel => (d, [], OutOfFuel)
    | Ok key_pair =>
        match oplog_open cr key_pair (f_content (d_oplog d)) with
        | Err e => (d, [], Err e)
        | Panic s => (d, [], Panic s)
        | OutOfFuel => (d, [], OutOfFuel)
        | Ok oo =>
            match apply_sops d (oo_ops oo) with
            | None => (d, [], Err InvalidOperation)
            | Some d' =>
                (d', oo_ops oo,
                 t <- tree_open (hd_tree (oo_header oo)) (d_tree d') ;;
                 let b := bf_open (d_bitfield d') in
                 '(t, b, h) <- replay_entries (d_tree d') (t, b, oo_header oo) (oo_entries oo) ;;
                 Ok (mkCore (hd_keypair h) (oo_oplog oo) t b h 0))
            end
        end
    end.
End WithCrypto.

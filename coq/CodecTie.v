(* CodecTie.v — tie between the wire codecs of /repo/src/encoding.rs as the source states them (SrcCodec.v, regenerated
   from the source on every run by tools/srccodec.py) and the hand-written encoders / sizes / decoders of Codec.v.

   A description (CodecDesc.v) is given a meaning by a GENERIC interpreter over a field environment: [genc] writes the
   listed fields in the listed order with the listed types, using the very primitives Codec.v uses ([enc_uint],
   [enc_buffer], [enc_nodes], 32 raw bytes); [gsize] sums the same primitives' sizes; [gdec] reads a type list and binds
   the values to names. Each statement reads: if the crate's impl still has the declarative macro form, then the model's
   encoder IS the interpretation of the source's field list (same fields, same order, same types), the model's size is
   the interpretation of the source's size list, the model's decoder is the interpretation of the source's type list and
   constructor, and the source's three functions agree with each other. An impl that left the macro form ([None]) makes
   the statement trivially true; a reordered / added / dropped / retyped field breaks the proof, i.e. the model no
   longer describes the source. *)
From HC Require Import Base Codec CodecFacts CodecDesc SrcCodec CodecTieLib.
From Coq Require Import Lia.
#[local] Open Scope string_scope.
#[local] Arguments enc_uint : simpl never.
#[local] Arguments enc_buffer : simpl never.
#[local] Arguments enc_nodes : simpl never.
#[local] Arguments size_uint : simpl never.
#[local] Arguments size_buffer : simpl never.
#[local] Arguments size_nodes : simpl never.
#[local] Arguments dec_uint : simpl never.
#[local] Arguments dec_buffer : simpl never.
#[local] Arguments dec_nodes : simpl never.
#[local] Arguments dec_fixed : simpl never.
#[local] Arguments N.add : simpl never.

Lemma tie_req_block :
  tied_codec src_RequestBlock (is_codec env_req_block build_req_block enc_req_block size_req_block dec_req_block).
Proof. unfold enc_req_block, size_req_block, dec_req_block. tie_codec src_RequestBlock. Qed.
Lemma tie_req_seek :
  tied_codec src_RequestSeek (is_codec env_req_seek build_req_seek enc_req_seek size_req_seek dec_req_seek).
Proof. unfold enc_req_seek, size_req_seek, dec_req_seek. tie_codec src_RequestSeek. Qed.
Lemma tie_req_upgrade :
  tied_codec src_RequestUpgrade
    (is_codec env_req_upgrade build_req_upgrade enc_req_upgrade size_req_upgrade dec_req_upgrade).
Proof. unfold enc_req_upgrade, size_req_upgrade, dec_req_upgrade. tie_codec src_RequestUpgrade. Qed.
Lemma tie_data_block :
  tied_codec src_DataBlock (is_codec env_data_block build_data_block enc_data_block size_data_block dec_data_block).
Proof. unfold enc_data_block, size_data_block, dec_data_block. tie_codec src_DataBlock. Qed.
Lemma tie_data_hash :
  tied_codec src_DataHash (is_codec env_data_hash build_data_hash enc_data_hash size_data_hash dec_data_hash).
Proof. unfold enc_data_hash, size_data_hash, dec_data_hash. tie_codec src_DataHash. Qed.
Lemma tie_data_seek :
  tied_codec src_DataSeek (is_codec env_data_seek build_data_seek enc_data_seek size_data_seek dec_data_seek).
Proof. unfold enc_data_seek, size_data_seek, dec_data_seek. tie_codec src_DataSeek. Qed.
Lemma tie_data_upgrade :
  tied_codec src_DataUpgrade
    (is_codec env_data_upgrade build_data_upgrade enc_data_upgrade size_data_upgrade dec_data_upgrade).
Proof. unfold enc_data_upgrade, size_data_upgrade, dec_data_upgrade. tie_codec src_DataUpgrade. Qed.

(* ---------- non-vacuity: the interpreter distinguishes what it should ---------- *)

(* the generic encoder writes real bytes, and a description with two fields swapped denotes another encoder *)
Example genc_ex :
  let x := mkDataHash 300 [mkNode 1 2 (repeat 7 32)] in
  genc [("index", FU64); ("nodes", FNodes)] (env_data_hash x) = Ok (253 :: 44 :: 1 :: 1 :: 1 :: 2 :: repeat 7 32)
  /\ genc [("nodes", FNodes); ("index", FU64)] (env_data_hash x) = Ok (1 :: 1 :: 2 :: repeat 7 32 ++ [253; 44; 1])%list
  /\ gsize [("index", FU64); ("nodes", FNodes)] (env_data_hash x) = Ok 38
  /\ gdecode build_data_hash [FU64; FNodes] ["index"; "nodes"] (253 :: 44 :: 1 :: 1 :: 1 :: 2 :: repeat 7 32 ++ [9])%list
     = Ok (x, [9]).
Proof. repeat split; vm_compute; reflexivity. Qed.

(* ... so a source whose map_encode! lists the fields of DataHash in the other order cannot be tied *)
Example swapped_fields_refuted :
  ~ is_codec env_data_hash build_data_hash enc_data_hash size_data_hash dec_data_hash
      {| cd_size := [("index", FU64); ("nodes", FNodes)]; cd_enc := [("nodes", FNodes); ("index", FU64)];
         cd_dec_types := [FU64; FNodes]; cd_ctor := ["index"; "nodes"] |}.
Proof. intros [H _]. specialize (H (mkDataHash 1 [])). vm_compute in H. discriminate H. Qed.

(* a field the record does not have, a field of another type, an unmodelled type: never an encoder of the model *)
Example mismatch_is_panic :
  genc [("length", FU64)] (env_data_hash (mkDataHash 1 [])) = Panic MISMATCH
  /\ genc [("index", FBytes)] (env_data_hash (mkDataHash 1 [])) = Panic MISMATCH
  /\ genc [("index", FOther "u32")] (env_data_hash (mkDataHash 1 [])) = Panic MISMATCH
  /\ gsize [("index", FOther "u32")] (env_data_hash (mkDataHash 1 [])) = Panic MISMATCH.
Proof. repeat split; vm_compute; reflexivity. Qed.

(* a 31-byte hash is refused by the generic encoder exactly as by enc_node (as_array::<32>) *)
Example short_hash_refused :
  genc [("index", FU64); ("length", FU64); ("hash", FHash32)] (env_node (mkNode 0 0 (repeat 0 31))) = Err EncodingErr.
Proof. vm_compute. reflexivity. Qed.

Theorem source_codecs_are_the_models :
  tied_codec src_Node (is_codec env_node build_node enc_node size_node dec_node) /\
  tied_codec src_RequestBlock (is_codec env_req_block build_req_block enc_req_block size_req_block dec_req_block) /\
  tied_codec src_RequestSeek (is_codec env_req_seek build_req_seek enc_req_seek size_req_seek dec_req_seek) /\
  tied_codec src_RequestUpgrade
    (is_codec env_req_upgrade build_req_upgrade enc_req_upgrade size_req_upgrade dec_req_upgrade) /\
  tied_codec src_DataBlock (is_codec env_data_block build_data_block enc_data_block size_data_block dec_data_block) /\
  tied_codec src_DataHash (is_codec env_data_hash build_data_hash enc_data_hash size_data_hash dec_data_hash) /\
  tied_codec src_DataSeek (is_codec env_data_seek build_data_seek enc_data_seek size_data_seek dec_data_seek) /\
  tied_codec src_DataUpgrade
    (is_codec env_data_upgrade build_data_upgrade enc_data_upgrade size_data_upgrade dec_data_upgrade).
Proof.
  exact (conj tie_node (conj tie_req_block (conj tie_req_seek (conj tie_req_upgrade
         (conj tie_data_block (conj tie_data_hash (conj tie_data_seek tie_data_upgrade))))))).
Qed.
Print Assumptions source_codecs_are_the_models.

(* CodecTie.v — tie between the wire codecs of /repo/src/encoding.rs as the source states them (SrcCodec.v, regenerated
   from the source on every run by tools/srccodec.py) and the hand-written encoders / sizes / decoders of Codec.v.

   A description (CodecDesc.v) is given a meaning by a GENERIC interpreter over a field environment: [genc] writes the
   listed fields in the listed order with the listed types, using the very primitives Codec.v uses ([enc_uint],
   [enc_buffer], [enc_nodes], 32 raw bytes); [gsize] sums the same primitives' sizes; [gdec] reads a type list and binds
   the values to names. Each statement reads: if the crate's impl still has the declarative macro form, then the model's
   encoder IS the interpretation of the source's field list (same fields, same order, same types), the model's size is
   the interpretation of the source's size list, the model's decoder is the interpretation of the source's type list and
   constructor, and the source's three functions agree with each other. An impl that left the macro form ([None]) makes
   the statement trivially true; a reordered / added / dropped / retyped field breaks the proof, i.e. the model no
   longer describes the source. *)
From HC Require Import Base Codec CodecFacts CodecDesc SrcCodec.
From Coq Require Import Lia.
#[local] Open Scope string_scope.
#[local] Arguments enc_uint : simpl never.
#[local] Arguments enc_buffer : simpl never.
#[local] Arguments enc_nodes : simpl never.
#[local] Arguments size_uint : simpl never.
#[local] Arguments size_buffer : simpl never.
#[local] Arguments size_nodes : simpl never.
#[local] Arguments dec_uint : simpl never.
#[local] Arguments dec_buffer : simpl never.
#[local] Arguments dec_nodes : simpl never.
#[local] Arguments dec_fixed : simpl never.
#[local] Arguments N.add : simpl never.

(* ---------- the generic interpreter ---------- *)

Inductive fval := VU (n : N) | VB (b : bytes) | VNs (l : list node) | VH (h : bytes).

Definition env := string -> option fval.

Definition MISMATCH : string := "codec description: no such field, or a field of another type".

(* one field, written with the primitive Codec.v uses for that kind of field *)
Definition enc_field (t : fty) (v : option fval) : res bytes :=
  match t, v with
  | FU64, Some (VU n) => Ok (enc_uint n)
  | FBytes, Some (VB b) => Ok (enc_buffer b)
  | FNodes, Some (VNs l) => enc_nodes l
  | FHash32, Some (VH h) => if Nat.eqb (length h) 32 then Ok h else Err EncodingErr    (* as_array::<32>(..)? *)
  | _, _ => Panic MISMATCH
  end.

Definition size_field (t : fty) (v : option fval) : res N :=
  match t, v with
  | FU64, Some (VU n) => Ok (size_uint n)
  | FBytes, Some (VB b) => Ok (size_buffer b)
  | FNodes, Some (VNs l) => Ok (size_nodes l)
  | FHash32, Some (VH _) => Ok 32
  | _, _ => Panic MISMATCH
  end.

Definition dec_field (t : fty) (b : bytes) : res (fval * bytes) :=
  match t with
  | FU64 => '(n, r) <- dec_uint b ;; Ok (VU n, r)
  | FBytes => '(v, r) <- dec_buffer b ;; Ok (VB v, r)
  | FNodes => '(l, r) <- dec_nodes b ;; Ok (VNs l, r)
  | FHash32 => '(h, r) <- dec_fixed 32 b ;; Ok (VH h, r)
  | _ => Panic MISMATCH      (* FOther, and the oplog-only types *)
  end.

(* map_encode!(buffer, f1, f2, ..): the fields one after the other *)
Fixpoint genc (fs : list (string * fty)) (e : env) : res bytes :=
  match fs with
  | [] => Ok []
  | (name, t) :: r => a <- enc_field t (e name) ;; b <- genc r e ;; Ok (a ++ b)%list
  end.

(* sum_encoded_size!(f1, f2, ..) *)
Fixpoint gsize (fs : list (string * fty)) (e : env) : res N :=
  match fs with
  | [] => Ok 0
  | (name, t) :: r => a <- size_field t (e name) ;; b <- gsize r e ;; Ok (a + b)
  end.

(* map_decode!(buffer, [t1, t2, ..]) followed by a constructor that stores the i-th value in the field [names_i]:
   the result is the association list field -> value, and the rest of the buffer *)
Fixpoint gdec (ts : list fty) (names : list string) (b : bytes) : res (list (string * fval) * bytes) :=
  match ts, names with
  | [], [] => Ok ([], b)
  | t :: ts', name :: names' =>
      '(v, r) <- dec_field t b ;; '(l, r') <- gdec ts' names' r ;; Ok ((name, v) :: l, r')
  | _, _ => Panic MISMATCH
  end.

Fixpoint lookup (l : list (string * fval)) (name : string) : option fval :=
  match l with
  | [] => None
  | (k, v) :: r => if String.eqb name k then Some v else lookup r name
  end.

(* the decoder a description denotes, given how the record is built from named values *)
Definition gdecode {A} (build : env -> option A) (ts : list fty) (names : list string) (b : bytes) : res (A * bytes) :=
  '(l, r) <- gdec ts names b ;;
  match build (lookup l) with Some x => Ok (x, r) | None => Panic MISMATCH end.

(* ---------- the records of Codec.v as field environments (Rust field name -> value), and back ---------- *)

Definition env_node (x : node) : env := fun s =>
  if s =? "index" then Some (VU (n_index x)) else if s =? "length" then Some (VU (n_length x))
  else if s =? "hash" then Some (VH (n_hash x)) else None.
Definition env_req_block (x : req_block) : env := fun s =>
  if s =? "index" then Some (VU (rb_index x)) else if s =? "nodes" then Some (VU (rb_nodes x)) else None.
Definition env_req_seek (x : req_seek) : env := fun s =>
  if s =? "bytes" then Some (VU (rs_bytes x)) else None.
Definition env_req_upgrade (x : req_upgrade) : env := fun s =>
  if s =? "start" then Some (VU (ru_start x)) else if s =? "length" then Some (VU (ru_length x)) else None.
Definition env_data_block (x : data_block) : env := fun s =>
  if s =? "index" then Some (VU (db_index x)) else if s =? "value" then Some (VB (db_value x))
  else if s =? "nodes" then Some (VNs (db_nodes x)) else None.
Definition env_data_hash (x : data_hash) : env := fun s =>
  if s =? "index" then Some (VU (dh_index x)) else if s =? "nodes" then Some (VNs (dh_nodes x)) else None.
Definition env_data_seek (x : data_seek) : env := fun s =>
  if s =? "bytes" then Some (VU (ds_bytes x)) else if s =? "nodes" then Some (VNs (ds_nodes x)) else None.
Definition env_data_upgrade (x : data_upgrade) : env := fun s =>
  if s =? "start" then Some (VU (du_start x)) else if s =? "length" then Some (VU (du_length x))
  else if s =? "nodes" then Some (VNs (du_nodes x))
  else if s =? "additional_nodes" then Some (VNs (du_additional x))
  else if s =? "signature" then Some (VB (du_signature x)) else None.

Definition build_node (e : env) : option node :=
  match e "index", e "length", e "hash" with
  | Some (VU i), Some (VU l), Some (VH h) => Some (mkNode i l h) | _, _, _ => None end.
Definition build_req_block (e : env) : option req_block :=
  match e "index", e "nodes" with Some (VU i), Some (VU n) => Some (mkReqBlock i n) | _, _ => None end.
Definition build_req_seek (e : env) : option req_seek :=
  match e "bytes" with Some (VU i) => Some (mkReqSeek i) | _ => None end.
Definition build_req_upgrade (e : env) : option req_upgrade :=
  match e "start", e "length" with Some (VU s), Some (VU l) => Some (mkReqUpgrade s l) | _, _ => None end.
Definition build_data_block (e : env) : option data_block :=
  match e "index", e "value", e "nodes" with
  | Some (VU i), Some (VB v), Some (VNs ns) => Some (mkDataBlock i v ns) | _, _, _ => None end.
Definition build_data_hash (e : env) : option data_hash :=
  match e "index", e "nodes" with Some (VU i), Some (VNs ns) => Some (mkDataHash i ns) | _, _ => None end.
Definition build_data_seek (e : env) : option data_seek :=
  match e "bytes", e "nodes" with Some (VU i), Some (VNs ns) => Some (mkDataSeek i ns) | _, _ => None end.
Definition build_data_upgrade (e : env) : option data_upgrade :=
  match e "start", e "length", e "nodes", e "additional_nodes", e "signature" with
  | Some (VU s), Some (VU l), Some (VNs ns), Some (VNs an), Some (VB sg) => Some (mkDataUpgrade s l ns an sg)
  | _, _, _, _, _ => None end.

(* the two views are inverse: every record is rebuilt from its own environment *)
Lemma build_env_node x : build_node (env_node x) = Some x.               Proof. now destruct x. Qed.
Lemma build_env_req_block x : build_req_block (env_req_block x) = Some x. Proof. now destruct x. Qed.
Lemma build_env_req_seek x : build_req_seek (env_req_seek x) = Some x.    Proof. now destruct x. Qed.
Lemma build_env_req_upgrade x : build_req_upgrade (env_req_upgrade x) = Some x. Proof. now destruct x. Qed.
Lemma build_env_data_block x : build_data_block (env_data_block x) = Some x.    Proof. now destruct x. Qed.
Lemma build_env_data_hash x : build_data_hash (env_data_hash x) = Some x. Proof. now destruct x. Qed.
Lemma build_env_data_seek x : build_data_seek (env_data_seek x) = Some x. Proof. now destruct x. Qed.
Lemma build_env_data_upgrade x : build_data_upgrade (env_data_upgrade x) = Some x. Proof. now destruct x. Qed.

(* the defining equations of the interpreter, in one statement (pinned in props/C11.v) *)
Lemma generic_interpreter_spec :
  (forall e, genc [] e = Ok [] /\ gsize [] e = Ok 0) /\
  (forall name t r e,
     genc ((name, t) :: r) e = (a <- enc_field t (e name) ;; b <- genc r e ;; Ok (a ++ b)%list) /\
     gsize ((name, t) :: r) e = (a <- size_field t (e name) ;; b <- gsize r e ;; Ok (a + b))) /\
  (forall n, enc_field FU64 (Some (VU n)) = Ok (enc_uint n) /\ size_field FU64 (Some (VU n)) = Ok (size_uint n)) /\
  (forall v, enc_field FBytes (Some (VB v)) = Ok (enc_buffer v) /\ size_field FBytes (Some (VB v)) = Ok (size_buffer v)) /\
  (forall l, enc_field FNodes (Some (VNs l)) = enc_nodes l /\ size_field FNodes (Some (VNs l)) = Ok (size_nodes l)) /\
  (forall h, enc_field FHash32 (Some (VH h)) = (if Nat.eqb (length h) 32 then Ok h else Err EncodingErr) /\
             size_field FHash32 (Some (VH h)) = Ok 32) /\
  (forall t, enc_field t None = Panic MISMATCH /\ size_field t None = Panic MISMATCH) /\
  (forall s v, enc_field (FOther s) v = Panic MISMATCH /\ size_field (FOther s) v = Panic MISMATCH) /\
  (forall x, build_node (env_node x) = Some x) /\ (forall x, build_req_block (env_req_block x) = Some x) /\
  (forall x, build_req_seek (env_req_seek x) = Some x) /\ (forall x, build_req_upgrade (env_req_upgrade x) = Some x) /\
  (forall x, build_data_block (env_data_block x) = Some x) /\ (forall x, build_data_hash (env_data_hash x) = Some x) /\
  (forall x, build_data_seek (env_data_seek x) = Some x) /\ (forall x, build_data_upgrade (env_data_upgrade x) = Some x).
Proof.
  repeat match goal with |- _ /\ _ => split end; intros;
    try (split; reflexivity);
    try (destruct t; split; reflexivity);
    try (destruct v as [[ | | | ]|]; split; reflexivity);
    auto using build_env_node, build_env_req_block, build_env_req_seek, build_env_req_upgrade, build_env_data_block,
      build_env_data_hash, build_env_data_seek, build_env_data_upgrade.
Qed.

(* ---------- the tie ---------- *)

Definition tied_codec (src : option codec_desc) (P : codec_desc -> Prop) : Prop :=
  match src with Some d => P d | None => True end.

(* what it means for a model codec (enc, size, dec over a record type A) to be the source's description d *)
Definition is_codec {A} (envA : A -> env) (buildA : env -> option A)
  (enc : A -> res bytes) (size : A -> N) (dec : bytes -> res (A * bytes)) (d : codec_desc) : Prop :=
  (forall x, enc x = genc (cd_enc d) (envA x)) /\
  (forall x, Ok (size x) = gsize (cd_size d) (envA x)) /\
  (forall b, dec b = gdecode buildA (cd_dec_types d) (cd_ctor d) b) /\
  cd_dec_types d = map snd (cd_enc d) /\
  cd_ctor d = map fst (cd_enc d) /\
  cd_size d = cd_enc d.

Lemma bind_ok_ret {A} (r : res A) : (x <- r ;; Ok x) = r.
Proof. now destruct r. Qed.

(* [r] is a result of the node-list encoder somewhere in the goal *)
Ltac case_res r := let E := fresh "E" in destruct r eqn:E; cbn [bind].

Ltac tie_enc :=
  intros x; cbn;
  repeat match goal with |- context [enc_nodes ?l] => case_res (enc_nodes l) end;
  repeat match goal with |- context [Nat.eqb ?a ?b] => destruct (Nat.eqb a b) end;
  cbn [bind]; rewrite ?app_nil_r, <- ?app_assoc; reflexivity.

Ltac tie_size :=
  intros x; cbn; f_equal; lia.

Ltac tie_dec :=
  intros b; unfold gdecode; cbn;
  repeat (match goal with
          | |- context [dec_uint ?r] => destruct (dec_uint r) as [[? ?]| | |]
          | |- context [dec_buffer ?r] => destruct (dec_buffer r) as [[? ?]| | |]
          | |- context [dec_nodes ?r] => destruct (dec_nodes r) as [[? ?]| | |]
          | |- context [dec_fixed ?n ?r] => destruct (dec_fixed n r) as [[? ?]| | |]
          end; cbn; try reflexivity).

Ltac tie_codec src :=
  unfold src, tied_codec, is_codec;
  first [ exact I
        | cbn [cd_enc cd_size cd_dec_types cd_ctor];
          split; [tie_enc | split; [tie_size | split; [tie_dec | repeat split]]] ].

Lemma tie_node :
  tied_codec src_Node (is_codec env_node build_node enc_node size_node dec_node).
Proof. unfold enc_node, size_node, dec_node. tie_codec src_Node. Qed.
Lemma tie_req_block :
  tied_codec src_RequestBlock (is_codec env_req_block build_req_block enc_req_block size_req_block dec_req_block).
Proof. unfold enc_req_block, size_req_block, dec_req_block. tie_codec src_RequestBlock. Qed.
Lemma tie_req_seek :
  tied_codec src_RequestSeek (is_codec env_req_seek build_req_seek enc_req_seek size_req_seek dec_req_seek).
Proof. unfold enc_req_seek, size_req_seek, dec_req_seek. tie_codec src_RequestSeek. Qed.
Lemma tie_req_upgrade :
  tied_codec src_RequestUpgrade
    (is_codec env_req_upgrade build_req_upgrade enc_req_upgrade size_req_upgrade dec_req_upgrade).
Proof. unfold enc_req_upgrade, size_req_upgrade, dec_req_upgrade. tie_codec src_RequestUpgrade. Qed.
Lemma tie_data_block :
  tied_codec src_DataBlock (is_codec env_data_block build_data_block enc_data_block size_data_block dec_data_block).
Proof. unfold enc_data_block, size_data_block, dec_data_block. tie_codec src_DataBlock. Qed.
Lemma tie_data_hash :
  tied_codec src_DataHash (is_codec env_data_hash build_data_hash enc_data_hash size_data_hash dec_data_hash).
Proof. unfold enc_data_hash, size_data_hash, dec_data_hash. tie_codec src_DataHash. Qed.
Lemma tie_data_seek :
  tied_codec src_DataSeek (is_codec env_data_seek build_data_seek enc_data_seek size_data_seek dec_data_seek).
Proof. unfold enc_data_seek, size_data_seek, dec_data_seek. tie_codec src_DataSeek. Qed.
Lemma tie_data_upgrade :
  tied_codec src_DataUpgrade
    (is_codec env_data_upgrade build_data_upgrade enc_data_upgrade size_data_upgrade dec_data_upgrade).
Proof. unfold enc_data_upgrade, size_data_upgrade, dec_data_upgrade. tie_codec src_DataUpgrade. Qed.

(* ---------- non-vacuity: the interpreter distinguishes what it should ---------- *)

(* the generic encoder writes real bytes, and a description with two fields swapped denotes another encoder *)
Example genc_ex :
  let x := mkDataHash 300 [mkNode 1 2 (repeat 7 32)] in
  genc [("index", FU64); ("nodes", FNodes)] (env_data_hash x) = Ok (253 :: 44 :: 1 :: 1 :: 1 :: 2 :: repeat 7 32)
  /\ genc [("nodes", FNodes); ("index", FU64)] (env_data_hash x) = Ok (1 :: 1 :: 2 :: repeat 7 32 ++ [253; 44; 1])%list
  /\ gsize [("index", FU64); ("nodes", FNodes)] (env_data_hash x) = Ok 38
  /\ gdecode build_data_hash [FU64; FNodes] ["index"; "nodes"] (253 :: 44 :: 1 :: 1 :: 1 :: 2 :: repeat 7 32 ++ [9])%list
     = Ok (x, [9]).
Proof. repeat split; vm_compute; reflexivity. Qed.

(* ... so a source whose map_encode! lists the fields of DataHash in the other order cannot be tied *)
Example swapped_fields_refuted :
  ~ is_codec env_data_hash build_data_hash enc_data_hash size_data_hash dec_data_hash
      {| cd_size := [("index", FU64); ("nodes", FNodes)]; cd_enc := [("nodes", FNodes); ("index", FU64)];
         cd_dec_types := [FU64; FNodes]; cd_ctor := ["index"; "nodes"] |}.
Proof. intros [H _]. specialize (H (mkDataHash 1 [])). vm_compute in H. discriminate H. Qed.

(* a field the record does not have, a field of another type, an unmodelled type: never an encoder of the model *)
Example mismatch_is_panic :
  genc [("length", FU64)] (env_data_hash (mkDataHash 1 [])) = Panic MISMATCH
  /\ genc [("index", FBytes)] (env_data_hash (mkDataHash 1 [])) = Panic MISMATCH
  /\ genc [("index", FOther "u32")] (env_data_hash (mkDataHash 1 [])) = Panic MISMATCH
  /\ gsize [("index", FOther "u32")] (env_data_hash (mkDataHash 1 [])) = Panic MISMATCH.
Proof. repeat split; vm_compute; reflexivity. Qed.

(* a 31-byte hash is refused by the generic encoder exactly as by enc_node (as_array::<32>) *)
Example short_hash_refused :
  genc [("index", FU64); ("length", FU64); ("hash", FHash32)] (env_node (mkNode 0 0 (repeat 0 31))) = Err EncodingErr.
Proof. vm_compute. reflexivity. Qed.

Theorem source_codecs_are_the_models :
  tied_codec src_Node (is_codec env_node build_node enc_node size_node dec_node) /\
  tied_codec src_RequestBlock (is_codec env_req_block build_req_block enc_req_block size_req_block dec_req_block) /\
  tied_codec src_RequestSeek (is_codec env_req_seek build_req_seek enc_req_seek size_req_seek dec_req_seek) /\
  tied_codec src_RequestUpgrade
    (is_codec env_req_upgrade build_req_upgrade enc_req_upgrade size_req_upgrade dec_req_upgrade) /\
  tied_codec src_DataBlock (is_codec env_data_block build_data_block enc_data_block size_data_block dec_data_block) /\
  tied_codec src_DataHash (is_codec env_data_hash build_data_hash enc_data_hash size_data_hash dec_data_hash) /\
  tied_codec src_DataSeek (is_codec env_data_seek build_data_seek enc_data_seek size_data_seek dec_data_seek) /\
  tied_codec src_DataUpgrade
    (is_codec env_data_upgrade build_data_upgrade enc_data_upgrade size_data_upgrade dec_data_upgrade).
Proof.
  exact (conj tie_node (conj tie_req_block (conj tie_req_seek (conj tie_req_upgrade
         (conj tie_data_block (conj tie_data_hash (conj tie_data_seek tie_data_upgrade))))))).
Qed.
Print Assumptions source_codecs_are_the_models.
Print Assumptions generic_interpreter_spec.

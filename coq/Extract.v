(* Extract.v — extraction of the executable model to OCaml.
   Only ExtrOcamlBasic is used (bool, option, unit, list, prod, sumbool, sumor mapped to OCaml's);
   no Extract Constant / Extract Inductive directive of our own. N, positive, nat, Z and string
   stay Coq datatypes. *)
From HC Require Import Base NMap Codec Crypto FlatTree Storage Bitfield Oplog Merkle Core PagedMem DiskFile FixedWords.
Require Extraction.
From HC Require Import Broadcast.
Require Import ExtrOcamlBasic.
Extraction Language OCaml.
Extraction "hcmodel.ml"
  (* codecs *)
  enc_node dec_node size_node enc_req_block dec_req_block size_req_block
  enc_req_seek dec_req_seek size_req_seek enc_req_upgrade dec_req_upgrade size_req_upgrade
  enc_data_block dec_data_block size_data_block enc_data_hash dec_data_hash size_data_hash
  enc_data_seek dec_data_seek size_data_seek enc_data_upgrade dec_data_upgrade size_data_upgrade
  enc_uint dec_uint
  (* flat tree *)
  ft_depth ft_offset ft_index ft_parent ft_sibling ft_left_span ft_right_span ft_full_roots
  it_new it_parent it_sibling it_left_child it_right_child it_next_tree it_full_root it_contains
  it_is_right
  (* storage *)
  disk_empty file_empty f_content f_read apply_sop apply_sops tear d_get
  (* oplog pieces (synthetic storage for C06) *)
  enc_header dec_header enc_entry dec_entry frame validate_leader oplog_open header_new
  (* core *)
  core_open core_append core_get core_clear core_create_proof core_apply_proof
  core_missing_nodes core_missing_nodes_tree core_make_read_only core_info core_has
  (* crypto layouts (reference values for C05) *)
  leaf_hash parent_hash tree_hash signable block_node parent_node
  mkWorld mkCrypto
  (* the event channel (model of async-broadcast 0.7.2 as configured by src/replication/events.rs) on operation lists (C13) *)
  run_bc_n
  (* the paged in-memory backend (model of random-access-memory 3.0.0) and the flat file, on operation lists (C14) *)
  run_ram run_file
  (* the disk backend (model of random-access-disk 3.0.1 over a POSIX file, DiskFile.v), both del variants, and the flat file
     on operation lists with reopen (C14) *)
  run_rad run_dfile ops_tight mkDcfg
  (* the word-level bitfield model (FixedWords.v) on operation scripts (C08) *)
  bw_run.

(* AnyReopenC.v -- library for AnyReopen1.v, part C: EVERY outcome of core_apply_proof keeps HDInvR.
   Commit step (entry logged, bitfield and header updated, tree committed), flush step (both decisions of
   maybe_flush; under HDInvR the header always fits its slot, so the flush never meets the frame guard), and the
   classification of every outcome of core_apply_proof on a proof of ANY shape:
     Ok true with HDInvR for the held set + carried block / state unchanged / the 2^30 frame guard of the entry
     (core unchanged, only the data store written) / hash collision / forged signature. *)
From HC Require Import Base NMap Codec CodecFacts Crypto FlatTree Storage Bitfield Oplog Merkle Core.
From HC Require Import FlatTreeFacts StorageFacts BitfieldFacts OplogFacts TreeRef OffsetFacts CoreFacts Crash Refine.
From HC Require Import ClearRefine Reopen ContigBridge Unified1 Unified2 CrashCore1 CrashCore2 CrashClear1.
From HC Require Import Sound NoPanic Replicate SoundCoreLib SoundCore SoundCoreUp SoundCoreBU NoPanic2
                       EventsAvail CacheModel CacheOps ReplicaCor ReplicaCorA.
From HC Require Import ReplicaDisk1 ReplicaDisk2 ReplicaDisk3 AcceptAllFlush AnyProofLib AnyProofUp AnyProof
                       AnyProofCorLib AnyReopenA AnyReopenB.
From Coq Require Import FMapPositive ZifyN ZifyNat ZifyBool.
Ltac Zify.zify_post_hook ::= Z.div_mod_to_equations.
Arguments N.add : simpl never.
Arguments N.sub : simpl never.
Arguments N.mul : simpl never.
Arguments N.div : simpl never.
Arguments N.modulo : simpl never.
Arguments N.pow : simpl never.
Arguments N.eqb : simpl never.
Arguments N.ltb : simpl never.
Arguments N.leb : simpl never.
Arguments N.max : simpl never.
Arguments N.min : simpl never.
Arguments N.of_nat : simpl never.
Arguments N.to_nat : simpl never.

(* what the wire decoder guarantees, plus: the signature of an upgrade section consists of genuine bytes (what
   the Rust type Vec<u8> guarantees; the model's byte lists do not) *)
Definition proof_wireS (pf : proof) : Prop :=
  proof_wire pf /\ forall u, p_upgrade pf = Some u -> bytes_ok (du_signature u) = true.

(* a header with a new tree part and a new contiguous hint *)
Lemma hdrH_set cr bs pk h r ht' cg m :
  hdrH cr bs pk h r -> ht_fork ht' = 0 -> ht_length ht' = m -> m <= u64_max -> cg <= u64_max ->
  buffer_ok (ht_root_hash ht') = true -> buffer_ok (ht_signature ht') = true -> len (ht_root_hash ht') <= 32 ->
  ((m = 0 /\ ht_signature ht' = []) \/
   (length (ht_signature ht') = 64%nat /\ wsig cr bs pk m (ht_signature ht'))) ->
  hdrH cr bs pk (set_contig (set_tree h ht') cg) m.
Proof.
  intros (Hok & Hkp & _) F1 F2 Hm Hcg B1 B2 L1 Hs.
  split; [|split; [exact Hkp|split; [exact F1|split; [exact F2|split; [exact L1|exact Hs]]]]].
  unfold header_ok in *. split_ok Hok.
  cbn [set_contig set_tree hd_key hd_ns hd_mpk hd_keypair hd_tree hd_contig].
  rewrite Hok, Hok7, Hok6, Hok5, F1, F2, B1, B2. cbn [andb].
  rewrite (fits_u64_intro 0) by (unfold u64_max; lia). rewrite (fits_u64_intro m Hm). cbn [andb].
  apply fits_u64_intro, Hcg.
Qed.

Lemma hdrH_buffers cr bs pk h r :
  hdrH cr bs pk h r -> buffer_ok (ht_root_hash (hd_tree h)) = true /\ buffer_ok (ht_signature (hd_tree h)) = true.
Proof. intros (Hok & _). unfold header_ok in Hok. split_ok Hok. split; assumption. Qed.

Lemma hdrH_fits cr bs pk h r : hdrH cr bs pk h r -> hdr_fits false h.
Proof.
  intros (Hok & _ & _ & _ & L1 & Hs). apply hdr_fits_real; [exact Hok|exact L1|].
  destruct Hs as [(_ & ->)|[E _]]; unfold len; [cbn [length]; lia|rewrite E; lia].
Qed.

Section StepH.
  Variable cr : crypto.
  Hypothesis Hcrc : crc_ok cr.
  Hypothesis Hhash32 : forall x, length (cr_hash cr x) = 32%nat.
  Hypothesis Hnonblank : forall x, all_zero (cr_hash cr x) = false.
  Hypothesis Hhashbytes : forall x, bytes_ok (cr_hash cr x) = true.
  Variable bs : list bytes.
  Hypothesis Hw : writer_fits bs.

  Lemma hauth_node_ok m x : m <= N.of_nat (length bs) -> hauth cr bs m x -> node_fit x -> node_ok x = true.
  Proof.
    intros Hm Ha [H32 Hl]. unfold node_ok.
    assert (F1 : fits_u64 (n_index x) = true).
    { apply fits_u64_intro. pose proof (hauth_index_fits cr bs Hw m x Hm Ha) as Hif. unfold NODE_SIZE in *. lia. }
    rewrite F1, (fits_u64_intro _ Hl), H32. cbn [Nat.eqb andb].
    destruct Ha as [A _]. rewrite A. unfold ref_at. apply ref_node_hash_bytes, Hhashbytes.
  Qed.

  (* the invariant only looks at the held set as a function, and not at the data store *)
  Lemma HDInvR_ext c d d' H H' :
    (forall i, H' i = H i) -> d_tree d' = d_tree d -> d_oplog d' = d_oplog d -> d_bitfield d' = d_bitfield d ->
    HDInvR cr bs c d H -> HDInvR cr bs c d' H'.
  Proof.
    intros E Et Eo Eb (W & Hfit & Hav & Hsg & Hbd & Hb & Hex & Hk & Hh & s0 & s1 & body & st0 & st1 & hf & l & kf &
                       Hcont & G & Hlen & Hbytes & Hhf & Hch & Hu & Hst & Hbf & Hsync).
    unfold HDInvR. cbv zeta. rewrite Et, Eo, Eb.
    split; [apply (HInvR_ext cr bs c d c d' eq_refl Et W)|]. split; [exact Hfit|]. split; [exact Hav|].
    split; [exact Hsg|]. split; [intros i Hi; rewrite E in Hi; apply Hbd, Hi|].
    split; [intros i; rewrite E; apply Hb|].
    split; [apply (fexact_ext H); [intros i; symmetry; apply E|exact Hex]|].
    split; [exact Hk|]. split; [exact Hh|].
    exists s0, s1, body, st0, st1, hf, l, kf. repeat (split; [assumption|]).
    split; [apply (BfH_ext _ _ _ H); assumption|exact Hsync].
  Qed.

  Lemma HDInvR_skip c d H s :
    HDInvR cr bs c d H ->
    HDInvR cr bs (mkCore (c_keypair c) (c_oplog c) (c_tree c) (c_bitfield c) (c_header c) s) d H.
  Proof. intros X. exact X. Qed.

  (* ---------- the commit step ---------- *)

  Lemma HDInvR_commit c d d1 H pf cs m bu j ev c2 w2 u0 :
    HDInvR cr bs c d H ->
    d_tree d1 = d_tree d -> d_oplog d1 = d_oplog d -> d_bitfield d1 = d_bitfield d ->
    acceptedR cr bs (c_tree c) (d_tree d) pf (kp_public (c_keypair c)) cs m -> p_fork pf = 0 ->
    (forall u, p_upgrade pf = Some u -> length (du_signature u) = 64%nat /\ bytes_ok (du_signature u) = true) ->
    bu = match p_block pf with Some b => Some (mkBfUpdate false (db_index b) 1) | None => None end ->
    log_and_commit cr cs bu c (mkWorld d1 j ev) = (c2, w2, Ok u0) ->
    HDInvR cr bs c2 (w_disk w2) (held_after H bu) /\ t_length (c_tree c2) = m /\
    c_keypair c2 = c_keypair c /\ d_data (w_disk w2) = d_data d1.
  Proof.
    intros X Edt Edo Edb Acc Hpf Hsg64 Ebu0 Hlc.
    pose proof X as (W & Hfit & Hav & Hsg & Hbd & Hb & Hex & Hk & Hh & s0 & s1 & body & st0 & st1 & hf & l & kf &
                     Hcont & G & Hlen & Hbytes & Hhf & Hch & Hu & Hst & Hbf & Hsync).
    set (pk := kp_public (c_keypair c)) in *. set (r := t_length (c_tree c)) in *.
    pose proof Acc as [A1 A2 A3 A4 A5 A5' A6 _ _ A8 (A7a & A7b & A7c) A10 A11 A12].
    pose proof (len_bs_u64 bs Hw) as L64.
    destruct (log_and_commit_full cr cs bu c _ c2 w2 u0 Hlc) as (e & h1 & o' & fr & t' & EC & OA & TC & -> & ->).
    cbn [w_disk w_journal w_events] in *.
    destruct (entry_of_changeset_inv cs bu (c_header c) e h1 EC) as (En & Ebu & Hecase).
    destruct (tree_commit_inv (c_tree c) cs t' TC) as (Eu & Htcase).
    destruct (tree_commit_hinvR cr bs _ _ _ _ _ _ _ Acc Hpf W TC) as (Em & W2 & _).
    cbn [c_tree c_keypair c_bitfield c_header c_oplog w_disk].
    set (d2 := d_set d1 Oplog (f_write (d_oplog d1) (ENTRIES_OFFSET + ol_entries_bytes (c_oplog c)) fr)) in *.
    assert (Et2 : d_tree d2 = d_tree d) by (unfold d2; destruct d1 as [f1 f2 f3 f4]; exact Edt).
    assert (Eb2 : d_bitfield d2 = d_bitfield d) by (unfold d2; destruct d1 as [f1 f2 f3 f4]; exact Edb).
    assert (Ed2 : d_data d2 = d_data d1) by (unfold d2; destruct d1 as [f1 f2 f3 f4]; reflexivity).
    assert (Eo2 : d_oplog d2 = f_write (d_oplog d) (ENTRIES_OFFSET + ol_entries_bytes (c_oplog c)) fr)
      by (unfold d2; destruct d1 as [f1 f2 f3 f4]; cbn [d_set d_oplog] in *; rewrite Edo; reflexivity).
    assert (Hnb : forall y, In y (cs_nodes cs) -> node_blank y = false).
    { intros y Hy. rewrite Forall_forall in A6. destruct (A6 y Hy) as [[Ay _] _].
      apply (hagree_nonblank cr Hnonblank bs y Ay). }
    (* the entry's upgrade part, the header after it, the signature of the tree *)
    assert (Hup : match e_upgrade e with
                  | None => m = r /\ h1 = c_header c
                  | Some u => tu_fork u = 0 /\ tu_length u = m /\ tu_ancestors u = r /\
                              length (tu_signature u) = 64%nat /\ bytes_ok (tu_signature u) = true /\
                              wsig cr bs pk m (tu_signature u) /\
                              h1 = set_tree (c_header c)
                                     (mkHeaderTree (ht_fork (hd_tree (c_header c))) m (tree_hash cr (cs_roots cs))
                                                   (tu_signature u)) /\
                              t_signature t' = Some (tu_signature u)
                  end /\ (e_upgrade e = None -> t_signature t' = t_signature (c_tree c))).
    { destruct Hecase as [(Up & -> & ->)|(hash & sg & Up & Hhash & Hsg' & -> & ->)].
      - destruct (A10 Up) as [Emr _]. split; [split; [exact Emr|reflexivity]|]. intros _.
        destruct Htcase as [(_ & _ & _ & _ & _ & Ts)|(Up' & _)]; [exact Ts|rewrite Up in Up'; discriminate Up'].
      - destruct (p_upgrade pf) as [u|] eqn:Eu0; [|rewrite (A11 eq_refl) in Up; discriminate Up].
        destruct (A12 u eq_refl) as (B1 & B2 & B3 & B4 & B5).
        destruct (Hsg64 u eq_refl) as [L1 L2].
        rewrite Hsg' in B3. injection B3 as ->. rewrite Hhash in B4. injection B4 as ->.
        cbn [tu_fork tu_length tu_ancestors tu_signature]. rewrite A3, A7a, B1, Hpf.
        split; [|intros E; discriminate E]. repeat split; try assumption.
        { unfold wsig. rewrite <- Hpf. exact B5. }
        destruct Htcase as [(Up' & _)|(_ & _ & _ & _ & _ & Ts & _)]; [rewrite Up in Up'; discriminate Up'|].
        rewrite Ts. exact Hsg'. }
    destruct Hup as (Hup & HsigN).
    (* the unflushed map *)
    assert (Eu' : t_unflushed t' = add_nodes nm_empty (flat_map e_nodes l ++ e_nodes e)).
    { rewrite Eu, Hu, En, add_nodes_app. reflexivity. }
    (* the roots of the new length can be looked up *)
    assert (Hav' : roots_avail t' (d_tree d) m).
    { intros i Hi. destruct A4 as [EI _]. rewrite <- EI in Hi. apply in_map_iff in Hi as (x & <- & Hx).
      rewrite Forall_forall in A5'. pose proof (A5' x Hx) as Hin. apply in_app_or in Hin. destruct Hin as [Hin|Hin].
      - destruct W as (_ & _ & W3 & _). pose proof (hroots_in cr bs _ _ x W3 Hin) as Hi0.
        destruct (Hav _ Hi0) as (y & Hy).
        apply (lookup_add_nodes (c_tree c) t' (d_tree d) (cs_nodes cs) _ y Hy Hnb Eu).
      - apply (lookup_added t' (t_unflushed (c_tree c)) (d_tree d) (cs_nodes cs) x Hin Hnb Eu). }
    (* the bitfield update *)
    assert (Hbu' : match e_bitfield e with
                   | None => True
                   | Some u => bu_drop u = false /\ bu_length u = 1 /\ bu_start u < m
                   end).
    { rewrite Ebu, Ebu0. destruct (p_block pf) as [b|] eqn:Eb; [|exact I].
      cbn [bu_drop bu_length bu_start]. split; [reflexivity|]. split; [reflexivity|]. apply (A8 b eq_refl). }
    (* the entry is described *)
    assert (Hdesc : hdesc cr bs pk (d_tree d) (flat_map e_nodes l) r e m).
    { split; [exact A1|]. split; [exact A2|]. split; [rewrite En; exact A6|]. split; [|exact Hbu'].
      destruct (e_upgrade e) as [u|]; [|apply Hup].
      destruct Hup as (B1 & B2 & B3 & B4 & B5 & B6 & _). repeat (split; [first [assumption|lia]|]).
      intros i Hi. destruct (Hav' i Hi) as (x & Hx). exists x. rewrite <- Hx.
      apply required_node_same_unflushed. cbn [tU t_unflushed]. symmetry. exact Eu'. }
    (* the entry is well formed *)
    assert (Hok : entry_ok e = true).
    { unfold entry_ok. rewrite En.
      assert (N1 : nodes_ok (cs_nodes cs) = true).
      { unfold nodes_ok. apply andb_true_intro. split.
        - apply fits_u64_intro. pose proof (appended_nodes_count cr _ _ _ _ OA) as Hc. rewrite En in Hc.
          unfold u64_max. lia.
        - apply forallb_forall. intros x Hx. rewrite Forall_forall in A6. destruct (A6 x Hx) as [B1 B2].
          apply (hauth_node_ok m x A2 B1 B2). }
      rewrite N1. cbn [andb].
      assert (U1 : match e_upgrade e with
                   | Some u => fits_u64 (tu_fork u) && fits_u64 (tu_ancestors u) && fits_u64 (tu_length u) &&
                               buffer_ok (tu_signature u)
                   | None => true
                   end = true).
      { destruct (e_upgrade e) as [u|]; [|reflexivity].
        destruct Hup as (B1 & B2 & B3 & B4 & B5 & _). rewrite B1, B2, B3.
        rewrite (fits_u64_intro 0) by (unfold u64_max; lia).
        rewrite (fits_u64_intro r) by (unfold r; destruct W as (W1 & _); lia).
        rewrite (fits_u64_intro m) by lia. cbn [andb].
        apply buffer_ok_intro; [unfold len; rewrite B4; unfold u64_max; lia|exact B5]. }
      rewrite U1. cbn [andb].
      destruct (e_bitfield e) as [u|]; [|reflexivity]. destruct Hbu' as (_ & B2 & B3).
      rewrite B2, (fits_u64_intro (bu_start u)) by lia. reflexivity. }
    (* the oplog store *)
    assert (Eol : c_oplog c = oo_oplog (stable_result (ol_bits (c_oplog c)) hf l)).
    { cbn [stable_result oo_oplog]. destruct (c_oplog c) as [bits el eb].
      cbn [ol_bits ol_entries_len ol_entries_bytes] in *. rewrite Hlen, Hbytes. reflexivity. }
    assert (OA' : oplog_append cr (oo_oplog (stable_result (ol_bits (c_oplog c)) hf l)) e =
                  Ok (o', [SW Oplog (ENTRIES_OFFSET + ol_entries_bytes (c_oplog c)) fr]))
      by (rewrite <- Eol; exact OA).
    destruct (append_crash cr Hcrc s0 s1 body st0 st1 _ hf l e o' _ G Hok OA')
      as (fr' & Eops & _ & Cw & G' & _ & Eo' & _).
    injection Eops as Eoff <-.
    (* the held set *)
    assert (HbH : forall i, bf_get (bu_apply_b (c_bitfield c) bu) i = held_after H bu i).
    { intros i. destruct bu as [u|]; cbn [bu_apply_b held_after]; [|apply Hb].
      rewrite bf_get_apply_fun. apply upd_fun_ext, Hb. }
    assert (Hbd' : forall i, held_after H bu i = true -> i < m).
    { intros i Hi. rewrite Ebu0 in Hi. destruct (p_block pf) as [b|] eqn:Eb; cbn [held_after] in Hi.
      - unfold upd_fun in Hi. cbn [bu_start bu_length bu_drop negb] in Hi.
        destruct ((db_index b <=? i) && (i <? db_index b + 1)) eqn:E.
        + destruct (A8 b eq_refl) as (_ & Lt & _). lia.
        + specialize (Hbd i Hi). fold r in Hbd. lia.
      - specialize (Hbd i Hi). fold r in Hbd. lia. }
    (* the header *)
    set (hfin := bu_apply_h (c_bitfield c) h1 bu).
    assert (Hexfin : fexact (held_after H bu) (hd_contig hfin)).
    { assert (Ec1 : hd_contig h1 = hd_contig (c_header c)).
      { destruct (e_upgrade e) as [u|]; [destruct Hup as (_ & _ & _ & _ & _ & _ & -> & _)|destruct Hup as [_ ->]]; reflexivity. }
      unfold hfin. destruct bu as [u|]; cbn [bu_apply_h held_after set_contig hd_contig].
      - apply (fexact_ext (bf_get (bf_apply (c_bitfield c) u))).
        + intros i. rewrite bf_get_apply_fun. apply upd_fun_ext, Hb.
        + apply exact_contig_fexact. apply update_contig_exact.
          * apply exact_contig_fexact. rewrite Ec1.
            apply (fexact_ext H); [intros i; symmetry; apply Hb|exact Hex].
          * rewrite Ebu0 in Ebu. destruct (p_block pf); [|discriminate Ebu0]. injection Ebu0 as ->.
            cbn [bu_length]. lia.
      - rewrite Ec1. exact Hex. }
    assert (Hcg : hd_contig hfin <= m) by (apply (fexact_le (held_after H bu)); assumption).
    assert (Hhfin : hdrH cr bs pk hfin m).
    { assert (E1 : hfin = set_contig h1 (hd_contig hfin)).
      { unfold hfin. destruct bu as [u|]; cbn [bu_apply_h]; [reflexivity|]. symmetry. apply set_contig_id. }
      rewrite E1. destruct (hdrH_buffers cr bs pk _ _ Hh) as [Bh Bs].
      destruct (e_upgrade e) as [u|].
      - destruct Hup as (_ & _ & _ & B4 & B5 & Bw & -> & _).
        assert (Bq1 : buffer_ok (tree_hash cr (cs_roots cs)) = true).
        { apply buffer_ok_intro; [unfold tree_hash, len; rewrite Hhash32; unfold u64_max; lia|apply Hhashbytes]. }
        assert (Bq2 : buffer_ok (tu_signature u) = true).
        { apply buffer_ok_intro; [unfold len; rewrite B4; unfold u64_max; lia|exact B5]. }
        assert (Lq : len (tree_hash cr (cs_roots cs)) <= 32) by (unfold tree_hash, len; rewrite Hhash32; lia).
        destruct Hh as (Hh1 & Hh2 & Hh3 & Hh4).
        apply (hdrH_set cr bs pk (c_header c) r
                 (mkHeaderTree (ht_fork (hd_tree (c_header c))) m (tree_hash cr (cs_roots cs)) (tu_signature u))
                 (hd_contig hfin) m (conj Hh1 (conj Hh2 (conj Hh3 Hh4))) Hh3 eq_refl
                 ltac:(lia) ltac:(lia) Bq1 Bq2 Lq (or_intror (conj B4 Bw))).
      - destruct Hup as [-> ->]. rewrite <- (set_tree_id (c_header c)) at 1.
        pose proof Hh as (_ & _ & F1 & F2 & L1 & Hs).
        apply (hdrH_set cr bs pk (c_header c) r (hd_tree (c_header c)) (hd_contig hfin) r Hh F1 F2 ltac:(lia) ltac:(lia) Bh Bs L1 Hs). }
    (* the signature of the tree *)
    assert (Hsg' : tsigH cr bs pk t').
    { unfold tsigH. destruct (e_upgrade e) as [u|] eqn:Eup.
      - right. destruct Hup as (_ & _ & _ & B4 & _ & Bw & _ & Ts). exists (tu_signature u).
        rewrite Em. split; [exact Ts|]. split; [exact B4|exact Bw].
      - destruct Hup as [Emr _]. rewrite (HsigN eq_refl), Em, Emr. exact Hsg. }
    split; [|split; [exact Em|split; [reflexivity|exact Ed2]]].
    unfold HDInvR. cbv zeta. cbn [c_tree c_keypair c_bitfield c_header c_oplog].
    rewrite Em, Et2. fold pk.
    split; [unfold HInvR; cbn [c_tree]; rewrite Et2; exact W2|].
    split; [exact Hfit|]. split; [exact Hav'|]. split; [exact Hsg'|].
    split; [exact Hbd'|]. split; [exact HbH|]. split; [exact Hexfin|]. split; [exact Hk|].
    split; [exact Hhfin|].
    exists s0, s1, (body ++ fr), st0, st1, hf, (l ++ [e]), kf.
    split; [rewrite Eo2, f_content_write, Hcont, Eoff; exact Cw|].
    split; [rewrite Eo'; exact G'|].
    split; [rewrite Eo'; reflexivity|]. split; [rewrite Eo'; reflexivity|].
    split; [exact Hhf|].
    split; [apply (hchain_snoc cr bs pk (d_tree d) l [] kf r e m Hch); exact Hdesc|].
    split; [rewrite flat_map_snoc; exact Eu'|].
    split; [exact Hst|].
    split.
    { rewrite Eb2, updates_of_app. unfold updates_of at 2. cbn [flat_map]. rewrite Ebu, app_nil_r.
      destruct bu as [u|]; cbn [held_after].
      - apply (BfH_snoc _ _ u _ H); [exact Hbf|reflexivity].
      - rewrite app_nil_r. exact Hbf. }
    rewrite Eb2. destruct bu as [u|]; cbn [bu_apply_b]; [apply BfSync_apply|]; exact Hsync.
  Qed.

  (* ---------- the flush ---------- *)

  Lemma HDInvR_unflushed_ok c d H : HDInvR cr bs c d H -> unflushed_ok (c_tree c).
  Proof. intros ((_ & _ & _ & _ & W5 & _) & _). apply (hunfl_sound_ok cr Hhash32 bs _ _ W5). Qed.

  (* under the invariant a flush decision never fails: the header fits its slot *)
  Lemma HDInvR_maybe_flush_ok f c w H :
    HDInvR cr bs c (w_disk w) H -> exists c' w', maybe_flush cr f c w = (c', w', Ok tt).
  Proof.
    intros X. pose proof (HDInvR_unflushed_ok _ _ _ X) as Hun.
    destruct X as (_ & _ & _ & _ & _ & _ & _ & _ & Hh & _).
    unfold maybe_flush. rewrite mbind_get_core.
    match goal with |- context [if ?b then _ else _] => destruct b end.
    - rewrite mbind_put_skip.
      set (c1 := mkCore (c_keypair c) (c_oplog c) (c_tree c) (c_bitfield c) (c_header c) 3).
      destruct (flush_all_run cr Hhash32 Hnonblank c1 w Hun (hdrH_fits _ _ _ _ _ Hh)) as (o' & oops & d3 & _ & _ & E).
      rewrite E. do 2 eexists. reflexivity.
    - do 2 eexists. reflexivity.
  Qed.

  Lemma HDInvR_maybe_flush f c d j ev H c' w' u :
    HDInvR cr bs c d H ->
    maybe_flush cr f c (mkWorld d j ev) = (c', w', Ok u) ->
    HDInvR cr bs c' (w_disk w') H /\ t_length (c_tree c') = t_length (c_tree c) /\ c_keypair c' = c_keypair c /\
    d_data (w_disk w') = d_data d.
  Proof.
    intros X Hmf.
    pose proof (HDInvR_unflushed_ok _ _ _ X) as Hun.
    pose proof X as (W & Hfit & Hav & Hsg & Hbd & Hb & Hex & Hk & Hh & s0 & s1 & body & st0 & st1 & hf & l & kf &
                     Hcont & G & Hlen & Hbytes & Hhf & Hch & Hu & Hst & Hbf & Hsync).
    pose proof W as (W1 & W2 & W3 & W4 & W5 & W6).
    unfold maybe_flush in Hmf. rewrite mbind_get_core in Hmf.
    match type of Hmf with (if ?b then _ else _) _ _ = _ => destruct b end.
    2:{ unfold put_skip in Hmf. injection Hmf as <- <- _. cbn [w_disk c_tree c_keypair].
        split; [apply HDInvR_skip, X|]. repeat split. }
    rewrite mbind_put_skip in Hmf.
    set (c1 := mkCore (c_keypair c) (c_oplog c) (c_tree c) (c_bitfield c) (c_header c) 3) in *.
    destruct (flush_all_detail cr Hhash32 Hnonblank c1 (mkWorld d j ev) Hun)
      as [(cx & wx & E)|(o' & ops & t' & tops & d2 & d3 & jn & OF & Hops & TF & A2 & A3 & E)];
      rewrite E in Hmf; [discriminate Hmf|]. injection Hmf as <- <- _.
    cbn [w_disk c1 c_oplog c_keypair c_header c_bitfield c_tree] in *.
    pose proof Hh as (Hok & Hkp & Hd).
    destruct (flush_crash cr Hcrc s0 s1 body st0 st1 _ hf l (c_header c) (c_oplog c) o' ops G Hok
                (hdrH_fits _ _ _ _ _ Hh) eq_refl OF)
      as (wr & s0' & s1' & st0' & st1' & Eops & _ & C1 & _ & C2 & G' & _ & Eo').
    set (d1 := d_set d Bitfield (write_pages (d_bitfield d) (bf_bits (c_bitfield c)) (bf_dirty (c_bitfield c)))) in *.
    destruct (tree_flush_other_stores (c_tree c) t' tops d1 d2 TF A2 Hun) as (D2 & B2 & O2 & _).
    assert (T1 : d_tree d1 = d_tree d) by (destruct d as [f1 f2 f3 f4]; reflexivity).
    assert (O1 : d_oplog d1 = d_oplog d) by (destruct d as [f1 f2 f3 f4]; reflexivity).
    assert (B1 : d_bitfield d1 = write_pages (d_bitfield d) (bf_bits (c_bitfield c)) (bf_dirty (c_bitfield c)))
      by (destruct d as [f1 f2 f3 f4]; reflexivity).
    assert (Dd1 : d_data d1 = d_data d) by (destruct d as [f1 f2 f3 f4]; reflexivity).
    assert (S3 : forall s, s <> Oplog -> d_get d3 s = d_get d2 s).
    { intros s Hs'. apply (apply_sops_other _ _ _ _ A3). intros o Ho Heq.
      rewrite Forall_forall in Hops. rewrite (Hops o Ho) in Heq. apply Hs'. symmetry. exact Heq. }
    assert (Hcont' : f_content (d_oplog d3) = s0' ++ s1' ++ []).
    { apply (c_apply_all_sound ops d2 d3 _ Hops A3). rewrite O2, O1, Hcont, Eops.
      cbn [c_apply_all]. rewrite C1, C2. reflexivity. }
    assert (Bf3 : d_bitfield d3 = write_pages (d_bitfield d) (bf_bits (c_bitfield c)) (bf_dirty (c_bitfield c))).
    { change (d_bitfield d3) with (d_get d3 Bitfield). rewrite (S3 Bitfield) by discriminate.
      change (d_get d2 Bitfield) with (d_bitfield d2). rewrite B2, B1. reflexivity. }
    assert (Dd3 : d_data d3 = d_data d).
    { change (d_data d3) with (d_get d3 Data). rewrite (S3 Data) by discriminate.
      change (d_get d2 Data) with (d_data d2). rewrite D2, Dd1. reflexivity. }
    assert (Tr3 : d_tree d3 = d_tree d2).
    { change (d_tree d3) with (d_get d3 Tree). rewrite (S3 Tree) by discriminate. reflexivity. }
    assert (Hfb : forall i, fbit (d_bitfield d3) i = H i).
    { intros i. rewrite Bf3, (BfSync_flush _ _ Hsync). apply Hb. }
    (* the tree and the tree store *)
    assert (FR : flush_rel (c_tree c) (d_tree d) t' (d_tree d3)).
    { right. exists tops, d1, d2. split; [exact TF|]. split; [exact T1|]. split; [exact A2|exact Tr3]. }
    pose proof (flush_rel_HTreeR cr Hhash32 bs _ _ _ _ W FR) as W'.
    assert (W5' : hunfl_sound cr bs (c_tree c) (t_length (c_tree c))) by exact W5.
    assert (Hfit' : hfile_fit (d_tree d3)).
    { rewrite Tr3. apply (tree_flush_fit cr Hhash32 bs (c_tree c) t' tops d1 d2 _ TF A2 W5').
      - rewrite T1. apply W6.
      - rewrite T1. exact Hfit. }
    assert (Hav' : roots_avail t' (d_tree d3) (t_length (c_tree c))).
    { intros i Hi. destruct (Hav i Hi) as (x & Hx). exists x. rewrite Tr3.
      apply (tree_flush_lookup_fwd cr Hhash32 bs Hw (c_tree c) t' tops d1 d2 _ i x TF A2 W5' W1).
      rewrite T1. exact Hx. }
    rewrite (tree_flush_ok (c_tree c) Hun) in TF. injection TF as <- <-.
    cbn [c_tree c_keypair t_length].
    split; [|repeat split; exact Dd3].
    unfold HDInvR. cbv zeta. cbn [c_tree c_keypair c_bitfield c_header c_oplog t_length t_signature t_unflushed].
    split; [exact W'|]. split; [exact Hfit'|]. split; [exact Hav'|]. split; [exact Hsg|].
    split; [exact Hbd|].
    split; [intros i; unfold bf_get; cbn [bf_bits]; apply Hb|].
    split; [exact Hex|]. split; [exact Hk|]. split; [exact Hh|].
    exists s0', s1', [], st0', st1', (c_header c), [], (t_length (c_tree c)).
    split; [exact Hcont'|]. split; [rewrite Eo'; exact G'|].
    split; [rewrite Eo'; reflexivity|]. split; [rewrite Eo'; reflexivity|].
    split; [exact Hh|]. split; [reflexivity|]. split; [reflexivity|].
    split; [refine (roots_avail_store _ _ _ _ Hav'); reflexivity|].
    split.
    { apply BfH_exact; [rewrite Bf3; apply len_write_pages, Hbf|exact Hfb|exact Hex]. }
    intros i Hne. exfalso. apply Hne. rewrite Hfb. unfold bf_get. cbn [bf_bits]. apply Hb.
  Qed.
End StepH.

(* ====================================================================================== *)
(* EVERY outcome of core_apply_proof                                                        *)
(* ====================================================================================== *)

Section MainH.
  Variable cr : crypto.
  Hypothesis Hcrc : crc_ok cr.
  Hypothesis Hhash32 : forall x, length (cr_hash cr x) = 32%nat.
  Hypothesis Hnonblank : forall x, all_zero (cr_hash cr x) = false.
  Hypothesis Hhashbytes : forall x, bytes_ok (cr_hash cr x) = true.
  Variable bs : list bytes.
  Hypothesis Hw : writer_fits bs.

  Lemma held_after_hold H pf i :
    hold H (p_block pf) i =
    held_after H (match p_block pf with Some b => Some (mkBfUpdate false (db_index b) 1) | None => None end) i.
  Proof.
    unfold hold, held_after. destruct (p_block pf) as [b|]; [|reflexivity].
    unfold upd_fun. cbn [bu_start bu_length bu_drop negb].
    destruct (N.eqb_spec i (db_index b)) as [->|Ne].
    - destruct (N.leb_spec (db_index b) (db_index b)) as [_|L]; [|lia].
      destruct (N.ltb_spec (db_index b) (db_index b + 1)) as [_|L]; [reflexivity|lia].
    - destruct ((db_index b <=? i) && (i <? db_index b + 1)) eqn:E; [lia|reflexivity].
  Qed.

  (* (c) at the level of memory and the four stores, every outcome *)
  Theorem apply_any_keeps_HDInvR f pf c w H c' w' r :
    HDInvR cr bs c (w_disk w) H -> proof_wireS pf ->
    core_apply_proof cr f pf c w = (c', w', r) ->
    (r = Ok true /\ HDInvR cr bs c' (w_disk w') (hold H (p_block pf)) /\ c_keypair c' = c_keypair c /\
     t_length (c_tree c) <= t_length (c_tree c') /\
     (forall b, p_block pf = Some b -> db_value b = blk bs (db_index b) /\ db_index b < t_length (c_tree c'))) \/
    (c' = c /\ w' = w /\ unchanged_outcome cr pf c w r) \/
    (r = Panic frame_msg /\ c' = c /\ HDInvR cr bs c' (w_disk w') H) \/
    some_collision cr \/ forged_signature cr bs (kp_public (c_keypair c)).
  Proof.
    intros X [Hwire Hsb] H0.
    pose proof X as (W & _). pose proof W as (H1 & H2 & H3 & H4 & H5 & H6).
    pose proof (proof_wire_root_fits cr Hhash32 pf (c_tree c) Hwire) as Hfits.
    destruct (N.eq_dec (p_fork pf) (t_fork (c_tree c))) as [Ef|Ef].
    2:{ rewrite (apply_fork_mismatch cr f pf c w Ef) in H0. injection H0 as <- <- <-.
        right. left. split; [reflexivity|]. split; [reflexivity|]. left. reflexivity. }
    destruct (verifier_says cr c w pf) as [cs|e|s|] eqn:V.
    2:{ rewrite (apply_verify_error cr f pf c w e Ef V) in H0. injection H0 as <- <- <-.
        right. left. split; [reflexivity|]. split; [reflexivity|]. right. left. rewrite V. reflexivity. }
    2:{ rewrite (apply_verify_panic cr f pf c w s Ef V) in H0. injection H0 as <- <- <-.
        right. left. split; [reflexivity|]. split; [reflexivity|]. right. left. rewrite V. reflexivity. }
    2:{ rewrite (apply_verify_out_of_fuel cr f pf c w Ef V) in H0. injection H0 as <- <- <-.
        right. left. split; [reflexivity|]. split; [reflexivity|]. right. left. rewrite V. exact I. }
    destruct (commitable (c_tree c) cs) eqn:Cm.
    2:{ rewrite (apply_not_commitable cr f pf c w cs V Cm) in H0. injection H0 as <- <- <-.
        right. left. split; [reflexivity|]. split; [reflexivity|]. left. reflexivity. }
    rewrite (apply_gates_pass cr f pf c w cs Ef V Cm) in H0.
    pose proof V as V0. unfold verifier_says in V0.
    destruct (verify_proof_acceptedR cr Hhash32 bs Hw _ _ _ _ _ H1 H3 H4 H5 H6 Hwire Hfits V0)
      as [(m & Acc)|[C|F]]; [|right; right; right; left; exact C|right; right; right; right; exact F].
    assert (H32 : forall x, In x (cs_nodes cs) -> length (n_hash x) = 32%nat).
    { intros x Hx. pose proof (acr_nodes _ _ _ _ _ _ _ _ Acc) as A. rewrite Forall_forall in A.
      destruct (A x Hx) as [_ [B _]]. exact B. }
    assert (Hsg64 : forall u, p_upgrade pf = Some u ->
                      length (du_signature u) = 64%nat /\ bytes_ok (du_signature u) = true).
    { intros u Eu. split; [|apply (Hsb u Eu)].
      apply (verify_proof_upgrade_sig cr _ _ pf _ cs u Eu V0). }
    unfold apply_tail in H0. fold (block_part pf c (w_disk w) cs) in H0.
    apply mbind_inv in H0. destruct H0 as (c1 & w1 & r1 & Hbu & H0).
    assert (Hbp : r1 = Ok (match p_block pf with Some b => Some (mkBfUpdate false (db_index b) 1) | None => None end) /\
                  c1 = c /\ d_tree (w_disk w1) = d_tree (w_disk w) /\ d_oplog (w_disk w1) = d_oplog (w_disk w) /\
                  d_bitfield (w_disk w1) = d_bitfield (w_disk w) \/
                  (exists b, p_block pf = Some b /\ c1 = c /\ w1 = w /\
                     match r1 with Ok _ => False | _ => True end /\
                     fails_as r1 (byte_offset_in_changeset (c_tree c) (d_tree (w_disk w)) (db_index b) cs))).
    { unfold block_part in Hbu. destruct (p_block pf) as [b|] eqn:Eb.
      - rewrite mbind_lift in Hbu.
        destruct (byte_offset_in_changeset (c_tree c) (d_tree (w_disk w)) (db_index b) cs) as [off|e|s|] eqn:Hoff.
        + left. rewrite mbind_emit_SW in Hbu. unfold ret in Hbu. injection Hbu as <- <- <-. cbn [w_disk].
          split; [reflexivity|]. split; [reflexivity|]. destruct (w_disk w) as [f1 f2 f3 f4]. repeat split.
        + right. exists b. injection Hbu as <- <- <-. rewrite Hoff. do 3 (split; [reflexivity|]). split; [exact I|reflexivity].
        + right. exists b. injection Hbu as <- <- <-. rewrite Hoff. do 3 (split; [reflexivity|]). split; [exact I|reflexivity].
        + right. exists b. injection Hbu as <- <- <-. rewrite Hoff. do 3 (split; [reflexivity|]). split; exact I.
      - left. unfold ret in Hbu. injection Hbu as <- <- <-. repeat split. }
    destruct Hbp as [(-> & -> & Et1 & Eo1 & Eb1)|(b & Eb & -> & -> & Hno & Hfa)].
    2:{ right. left. destruct r1 as [x|e|s|]; [contradiction| | |]; destruct H0 as (-> & -> & ->);
          (split; [reflexivity|]; split; [reflexivity|]; right; right; exists b, cs;
           split; [exact Eb|]; split; [exact V|exact Hfa]). }
    set (bu := match p_block pf with Some b => Some (mkBfUpdate false (db_index b) 1) | None => None end) in *.
    (* the state after the block write satisfies the invariant: only the data store changed *)
    assert (X1 : HDInvR cr bs c (w_disk w1) H) by (apply (HDInvR_ext cr bs c (w_disk w) (w_disk w1) H H); auto).
    destruct (apply_commit cr _ _ _ _ _ V0 Cm) as (t' & Htc & _).
    destruct (log_and_commit_cases cr cs bu c w1 (verify_proof_hashed cr _ _ _ _ _ V0)
                H32 (ex_intro _ t' Htc)) as [E|(c2 & w2 & E)].
    { rewrite (mbind_panic _ _ _ _ _ _ _ E) in H0. injection H0 as <- <- <-.
      right. right. left. split; [reflexivity|]. split; [reflexivity|exact X1]. }
    rewrite (mbind_eq _ _ _ _ _ _ _ E) in H0.
    destruct w1 as [d1 j1 ev1]. cbn [w_disk] in Et1, Eo1, Eb1, X1.
    destruct (HDInvR_commit cr Hcrc Hhash32 Hnonblank Hhashbytes bs Hw c (w_disk w) d1 H pf cs m bu j1 ev1 c2 w2 tt
                X Et1 Eo1 Eb1 Acc (eq_trans Ef H2) Hsg64 eq_refl E) as (X2 & Em & Ek2 & _).
    destruct (HDInvR_maybe_flush_ok cr Hhash32 Hnonblank bs f c2 w2 _ X2) as (c3 & w3 & E3).
    rewrite (mbind_eq _ _ _ _ _ _ _ E3) in H0.
    destruct w2 as [d2 j2 ev2]. cbn [w_disk] in X2.
    destruct (HDInvR_maybe_flush cr Hcrc Hhash32 Hnonblank bs Hw f c2 d2 j2 ev2 _ c3 w3 tt X2 E3)
      as (X3 & El3 & Ek3 & _).
    destruct (sends_tail pf bu c3 w3) as (w4 & E4 & Ed4). rewrite E4 in H0. injection H0 as <- <- <-.
    left. split; [reflexivity|]. rewrite Ed4. split.
    { apply (HDInvR_ext cr bs c3 (w_disk w3) (w_disk w3) (held_after H bu)); auto.
      intros i. apply held_after_hold. }
    split; [rewrite Ek3; exact Ek2|]. rewrite El3, Em.
    split; [apply (acr_ge _ _ _ _ _ _ _ _ Acc)|].
    intros b Eb. destruct (acr_block _ _ _ _ _ _ _ _ Acc b Eb) as (B1 & B2 & _). auto.
  Qed.
End MainH.

Print Assumptions HDInvR_commit.
Print Assumptions HDInvR_maybe_flush.
Print Assumptions HDInvR_maybe_flush_ok.
Print Assumptions apply_any_keeps_HDInvR.

(* CacheOps.v — C14, second half: the node cache is transparent for whole operations and whole
   histories, under any eviction schedule. Definitions: CacheModel.v. *)
From HC Require Import Base NMap Codec CodecFacts Crypto FlatTree Storage Bitfield Oplog Merkle Core Cache.
From HC Require Import FlatTreeFacts StorageFacts BitfieldFacts OplogFacts TreeRef OffsetFacts CoreFacts Crash Refine.
From HC Require Import ClearRefine Reopen ContigBridge Unified1 Unified2 Unified3 CacheModel.
From HC Require Sound.
From Coq Require Import FMapPositive ZifyN ZifyNat ZifyBool.
Ltac Zify.zify_post_hook ::= Z.div_mod_to_equations.
Arguments N.add : simpl never.
Arguments N.sub : simpl never.
Arguments N.mul : simpl never.
Arguments N.div : simpl never.
Arguments N.modulo : simpl never.
Arguments N.pow : simpl never.
Arguments N.eqb : simpl never.
Arguments N.ltb : simpl never.
Arguments N.leb : simpl never.
Arguments N.max : simpl never.
Arguments N.min : simpl never.
Arguments N.of_nat : simpl never.
Arguments N.to_nat : simpl never.

(* ====================================================================================== *)
(* 1. The tree layer: every cached read function answers what the uncached one answers,    *)
(*    and leaves a valid cache                                                             *)
(* ====================================================================================== *)

Section TreeSim.
  Variable ev : evo.
  Hypothesis Hev : evictor ev.
  Variable t : mtree.
  Variable tf : file.

  (* [m] started from any valid cache returns [r] and ends with a valid cache *)
  Definition csim {A} (m : CM A) (r : res A) : Prop :=
    forall st, cache_ok (k_cache st) t tf ->
      snd (m st) = r /\ cache_ok (k_cache (fst (m st))) t tf.

  Lemma csim_ret {A} (a : A) : csim (cret a) (Ok a).
  Proof. intros st H. split; [reflexivity|exact H]. Qed.

  Lemma csim_lift {A} (r : res A) : csim (clift r) r.
  Proof. intros st H. split; [reflexivity|exact H]. Qed.

  Lemma csim_bind {A B} (m : CM A) (r : res A) (f : A -> CM B) (g : A -> res B) :
    csim m r -> (forall a, r = Ok a -> csim (f a) (g a)) -> csim (cbind m f) (bind r g).
  Proof.
    intros Hm Hf st Hst. destruct (Hm st Hst) as [E Hok]. unfold cbind.
    destruct (m st) as [st' r'] eqn:Em. cbn [fst snd] in *. subst r'.
    destruct r as [a|e|s|]; cbn [bind]; [|split; [reflexivity|exact Hok]..].
    apply (Hf a eq_refl st' Hok).
  Qed.

  (* one lookup *)
  Lemma csim_node_get i am : csim (node_get_c ev t tf i am) (node_get t tf i am).
  Proof.
    intros st Hst. unfold node_get_c.
    assert (Hc : cache_ok (ev (k_tick st) (k_cache st)) t tf) by (eapply cache_ok_evict; [exact Hst|apply Hev]).
    destruct (nm_get i (ev (k_tick st) (k_cache st))) as [n|] eqn:E; cbn [fst snd k_cache].
    - split; [symmetry; apply Hc, E|exact Hc].
    - split; [reflexivity|].
      destruct (nm_get i (t_unflushed t)); [exact Hc|].
      destruct (node_get t tf i am) as [[n|]| | |] eqn:G; try exact Hc.
      eapply cache_ok_insert; eassumption.
  Qed.

  Lemma csim_required i : csim (required_node_c ev t tf i) (required_node t tf i).
  Proof.
    unfold required_node_c, required_node. apply csim_bind; [apply csim_node_get|].
    intros [n|] _; [apply csim_ret|apply csim_lift].
  Qed.

  Lemma csim_optional i : csim (optional_node_c ev t tf i) (optional_node t tf i).
  Proof. apply csim_node_get. Qed.

  (* structural steps shared by all the proofs below *)
  Ltac cs_step :=
    match goal with
    | |- csim (cret _) (Ok _) => apply csim_ret
    | |- csim (clift ?r) ?r => apply csim_lift
    | |- csim (clift _) _ => apply csim_lift
    | |- csim (required_node_c _ _ _ _) _ => apply csim_required
    | |- csim (optional_node_c _ _ _ _) _ => apply csim_optional
    | |- csim (cbind _ _) (bind _ _) => apply csim_bind; [|intros ? ?]
    | |- csim (if ?b then _ else _) (if ?b then _ else _) => destruct b
    | |- csim (match ?x with Some _ => _ | None => _ end) (match ?x with Some _ => _ | None => _ end) =>
        destruct x
    | |- csim (match ?x with pair _ _ => _ end) (match ?x with pair _ _ => _ end) => destruct x
    | H : _ |- _ => apply H
    end.
  Ltac cs := repeat cs_step.

  (* ---------- byte offsets ---------- *)

  Lemma csim_offset_descend fuel : forall it index offset,
    csim (offset_descend_c ev fuel t tf it index offset) (offset_descend fuel t tf it index offset).
  Proof.
    induction fuel as [|f IH]; intros it index offset; cbn [offset_descend_c offset_descend]; cs.
  Qed.

  Lemma csim_offset_roots roots : forall index head offset,
    csim (offset_roots_c ev t tf roots index head offset) (offset_roots t tf roots index head offset).
  Proof.
    induction roots as [|r rest IH]; intros index head offset; cbn [offset_roots_c offset_roots]; cs.
    apply csim_offset_descend.
  Qed.

  Lemma csim_byte_offset_from_nodes index :
    csim (byte_offset_from_nodes_c ev t tf index) (byte_offset_from_nodes t tf index).
  Proof. apply csim_offset_roots. Qed.

  Lemma csim_byte_offset hi : csim (byte_offset_c ev t tf hi) (byte_offset t tf hi).
  Proof. unfold byte_offset_c, byte_offset. cs. apply csim_byte_offset_from_nodes. Qed.

  Lemma csim_byte_range hi : csim (byte_range_c ev t tf hi) (byte_range t tf hi).
  Proof. unfold byte_range_c, byte_range. cs. apply csim_byte_offset_from_nodes. Qed.

  Lemma csim_byte_offset_in_changeset hi c :
    csim (byte_offset_in_changeset_c ev t tf hi c) (byte_offset_in_changeset t tf hi c).
  Proof.
    unfold byte_offset_in_changeset_c, byte_offset_in_changeset.
    destruct (t_length t =? hi); [apply csim_ret|].
    cs; apply csim_byte_offset_from_nodes.
  Qed.

  (* ---------- truncate (replay) ---------- *)

  Lemma csim_truncate_roots full : forall roots i,
    csim (truncate_roots_c ev t tf full roots i) (truncate_roots t tf full roots i).
  Proof.
    induction full as [|r rest IH]; intros roots i; cbn [truncate_roots_c truncate_roots]; cs.
  Qed.

  Lemma csim_tree_truncate length fork :
    csim (tree_truncate_c ev t tf length fork) (tree_truncate t tf length fork).
  Proof. unfold tree_truncate_c, tree_truncate. cs. apply csim_truncate_roots. Qed.

  (* ---------- missing nodes ---------- *)

  Lemma csim_missing_loop fuel : forall it head count,
    csim (missing_loop_c ev fuel t tf it head count) (missing_loop fuel t tf it head count).
  Proof.
    induction fuel as [|f IH]; intros it head count; cbn [missing_loop_c missing_loop]; cs.
  Qed.

  Lemma csim_missing_nodes index : csim (missing_nodes_c ev t tf index) (missing_nodes t tf index).
  Proof. unfold missing_nodes_c, missing_nodes. cbv zeta. cs. apply csim_missing_loop. Qed.

  (* ---------- proof creation ---------- *)

  Lemma csim_seek_trusted_loop fuel : forall it bytes,
    csim (seek_trusted_loop_c ev fuel t tf it bytes) (seek_trusted_loop fuel t tf it bytes).
  Proof.
    induction fuel as [|f IH]; intros it bytes; cbn [seek_trusted_loop_c seek_trusted_loop]; cs.
  Qed.

  Lemma csim_seek_trusted_tree root bytes :
    csim (seek_trusted_tree_c ev t tf root bytes) (seek_trusted_tree t tf root bytes).
  Proof. unfold seek_trusted_tree_c, seek_trusted_tree. cs. apply csim_seek_trusted_loop. Qed.

  Lemma csim_seek_from_head_loop roots : forall bytes head,
    csim (seek_from_head_loop_c ev t tf roots bytes head) (seek_from_head_loop t tf roots bytes head).
  Proof.
    induction roots as [|r rest IH]; intros bytes head; cbn [seek_from_head_loop_c seek_from_head_loop]; cs.
    apply csim_seek_trusted_tree.
  Qed.

  Lemma csim_seek_from_head head bytes :
    csim (seek_from_head_c ev t tf head bytes) (seek_from_head t tf head bytes).
  Proof. apply csim_seek_from_head_loop. Qed.

  Lemma csim_seek_untrusted_tree root bytes :
    csim (seek_untrusted_tree_c ev t tf root bytes) (seek_untrusted_tree t tf root bytes).
  Proof.
    unfold seek_untrusted_tree_c, seek_untrusted_tree. cs;
      first [apply csim_byte_offset_from_nodes | apply csim_seek_trusted_tree].
  Qed.

  Lemma csim_seek_proof_loop fuel : forall it root acc,
    csim (seek_proof_loop_c ev fuel t tf it root acc) (seek_proof_loop fuel t tf it root acc).
  Proof.
    induction fuel as [|f IH]; intros it root acc; cbn [seek_proof_loop_c seek_proof_loop]; cs.
  Qed.

  Lemma csim_seek_proof seek_root root p :
    csim (seek_proof_c ev t tf seek_root root p) (seek_proof t tf seek_root root p).
  Proof. unfold seek_proof_c, seek_proof. cs. apply csim_seek_proof_loop. Qed.

  Lemma csim_block_proof_loop fuel : forall it root is_seek seek_root p acc,
    csim (block_proof_loop_c ev fuel t tf it root is_seek seek_root p acc)
         (block_proof_loop fuel t tf it root is_seek seek_root p acc).
  Proof.
    induction fuel as [|f IH]; intros it root is_seek seek_root p acc;
      cbn [block_proof_loop_c block_proof_loop]; cs.
    apply csim_seek_proof.
  Qed.

  Lemma csim_block_and_seek_proof ix is_seek seek_root root p :
    csim (block_and_seek_proof_c ev t tf ix is_seek seek_root root p)
         (block_and_seek_proof t tf ix is_seek seek_root root p).
  Proof.
    unfold block_and_seek_proof_c, block_and_seek_proof. destruct ix as [i|]; [|apply csim_seek_proof].
    cs. apply csim_block_proof_loop.
  Qed.

  Lemma csim_connect_loop fuel : forall it root target ix is_seek sub_tree with_sub p acc,
    csim (connect_loop_c ev fuel t tf it root target ix is_seek sub_tree with_sub p acc)
         (connect_loop fuel t tf it root target ix is_seek sub_tree with_sub p acc).
  Proof.
    induction fuel as [|f IH]; intros it root target ix is_seek sub_tree with_sub p acc;
      cbn [connect_loop_c connect_loop]; cs.
    apply csim_block_and_seek_proof.
  Qed.

  Lemma csim_upgrade_loop fuel : forall it from to ix is_seek sub_tree with_sub has_upgrade p acc,
    csim (upgrade_loop_c ev fuel t tf it from to ix is_seek sub_tree with_sub has_upgrade p acc)
         (upgrade_loop fuel t tf it from to ix is_seek sub_tree with_sub has_upgrade p acc).
  Proof.
    induction fuel as [|f IH]; intros it from to ix is_seek sub_tree with_sub has_upgrade p acc;
      cbn [upgrade_loop_c upgrade_loop]; cs;
      first [apply csim_connect_loop | apply csim_block_and_seek_proof].
  Qed.

  Lemma csim_upgrade_proof ix is_seek from to sub_tree p :
    csim (upgrade_proof_c ev t tf ix is_seek from to sub_tree p) (upgrade_proof t tf ix is_seek from to sub_tree p).
  Proof.
    unfold upgrade_proof_c, upgrade_proof. apply csim_bind; [apply csim_upgrade_loop|].
    intros [[p' acc] has] _. apply csim_ret.
  Qed.

  Lemma csim_additional_upgrade_proof from to p :
    csim (additional_upgrade_proof_c ev t tf from to p) (additional_upgrade_proof t tf from to p).
  Proof.
    unfold additional_upgrade_proof_c, additional_upgrade_proof. apply csim_bind; [apply csim_upgrade_loop|].
    intros [[p' acc] has] _. apply csim_ret.
  Qed.

  Theorem csim_create_valueless_proof block hash seek upgrade :
    csim (create_valueless_proof_c ev t tf block hash seek upgrade)
         (create_valueless_proof t tf block hash seek upgrade).
  Proof.
    unfold create_valueless_proof_c, create_valueless_proof. cbv zeta.
    apply csim_bind; [apply csim_lift|]. intros [from to] _.
    apply csim_bind; [apply csim_lift|]. intros ixo _.
    destruct ((to <=? from) || (2 * t_length t <? to)); [apply csim_lift|].
    apply csim_bind.
    { destruct ixo as [ix|]; [|apply csim_ret].
      match goal with |- csim (if ?b then _ else _) _ => destruct b end; [apply csim_lift|].
      match goal with |- csim (if ?b then _ else _) _ => destruct b end; [|apply csim_ret].
      apply csim_bind; [apply csim_lift|]. intros sub _.
      apply csim_bind.
      { destruct seek as [s|]; [apply csim_seek_untrusted_tree|apply csim_ret]. }
      intros seek_root _.
      apply csim_bind; [apply csim_block_and_seek_proof|]. intros p _. apply csim_ret. }
    intros [[sub_tree p] untrusted] _.
    apply csim_bind.
    { destruct (negb untrusted); [|apply csim_ret].
      destruct seek as [s|]; [apply csim_seek_from_head|apply csim_ret]. }
    intros sub_tree' _.
    apply csim_bind.
    { destruct upgrade as [u|]; [|apply csim_ret].
      apply csim_bind; [apply csim_upgrade_proof|]. intros p1 _.
      match goal with |- csim (if ?b then _ else _) _ => destruct b end;
        [apply csim_additional_upgrade_proof|apply csim_ret]. }
    intros p2 _.
    apply csim_bind; [apply csim_lift|]. intros [dblock dhash] _.
    apply csim_bind; [apply csim_lift|]. intros dup _. apply csim_ret.
  Qed.

  (* ---------- proof verification ---------- *)

  Theorem csim_verify_proof cr pf pk : csim (verify_proof_c ev cr t tf pf pk) (verify_proof cr t tf pf pk).
  Proof.
    unfold verify_proof_c, verify_proof. cbv zeta.
    apply csim_bind; [apply csim_lift|]. intros [root c1] _.
    apply csim_bind; [apply csim_lift|]. intros [root2 c2] _.
    destruct root2 as [r|]; [|apply csim_ret].
    apply csim_bind; [apply csim_required|]. intros n _.
    destruct (bytes_eqb (n_hash n) (n_hash r)); [apply csim_ret|apply csim_lift].
  Qed.
End TreeSim.

(* ====================================================================================== *)
(* 2. The core: operations = a reading phase (tree and tree store untouched, lookups        *)
(*    through the cache) followed by a writing phase (no lookup)                            *)
(* ====================================================================================== *)

(* [m] changes neither the tree nor the tree store *)
Definition tkeep {A} (m : M A) : Prop :=
  forall c w c' w' r, m c w = (c', w', r) -> c_tree c' = c_tree c /\ d_tree (w_disk w') = d_tree (w_disk w).

Lemma tkeep_ret {A} (a : A) : tkeep (ret a).
Proof. intros c w c' w' r H. prim_inv H. split; reflexivity. Qed.
Lemma tkeep_lift {A} (x : res A) : tkeep (lift x).
Proof. intros c w c' w' r H. prim_inv H. split; reflexivity. Qed.
Lemma tkeep_get_core : tkeep get_core.
Proof. intros c w c' w' r H. prim_inv H. split; reflexivity. Qed.
Lemma tkeep_get_disk : tkeep get_disk.
Proof. intros c w c' w' r H. prim_inv H. split; reflexivity. Qed.
Lemma tkeep_send e : tkeep (send e).
Proof. intros c w c' w' r H. prim_inv H. split; reflexivity. Qed.
Lemma tkeep_put_oplog o : tkeep (put_oplog o).
Proof. intros c w c' w' r H. prim_inv H. split; reflexivity. Qed.
Lemma tkeep_put_bitfield b : tkeep (put_bitfield b).
Proof. intros c w c' w' r H. prim_inv H. split; reflexivity. Qed.
Lemma tkeep_put_header h : tkeep (put_header h).
Proof. intros c w c' w' r H. prim_inv H. split; reflexivity. Qed.
Lemma tkeep_put_skip s : tkeep (put_skip s).
Proof. intros c w c' w' r H. prim_inv H. split; reflexivity. Qed.
Lemma tkeep_put_keypair k : tkeep (put_keypair k).
Proof. intros c w c' w' r H. prim_inv H. split; reflexivity. Qed.

Lemma tkeep_bind {A B} (m : M A) (f : A -> M B) : tkeep m -> (forall a, tkeep (f a)) -> tkeep (mbind m f).
Proof.
  intros Hm Hf c w c' w' r H. mstep_as H H1; apply Hm in H1; try exact H1.
  apply Hf in H. destruct H, H1. split; congruence.
Qed.

(* storage operations on the other three stores *)
Lemma tkeep_emit ops : Forall (fun o => sop_store o <> Tree) ops -> tkeep (emit ops).
Proof.
  intros Hall c w c' w' r H. apply emit_inv in H. destruct H as (-> & _ & done & _ & Ha & Hr).
  split; [reflexivity|].
  assert (Hd : forall o, In o done -> sop_store o <> Tree).
  { rewrite Forall_forall in Hall. destruct r as [u|e|s|]; try contradiction.
    - subst done. exact Hall.
    - destruct Hr as (_ & o & rest & -> & _). intros o' Ho'. apply Hall, in_or_app. left. exact Ho'. }
  exact (apply_sops_other done (w_disk w) (w_disk w') Tree Ha Hd).
Qed.

Section CoreSim.
  Variable cr : crypto.
  Variable ev : evo.
  Hypothesis Hev : evictor ev.
  Variable t : mtree.
  Variable tf : file.

  (* a reading phase started on tree t and tree store tf with a cache valid for them: the cached
     computation does what the uncached one does, tree and tree store are still t and tf, the
     cache is still valid *)
  Definition readsT {A} (mc : MC A) (m : M A) : Prop :=
    forall st c w st' c' w' r,
      c_tree c = t -> d_tree (w_disk w) = tf -> cache_ok (k_cache st) t tf ->
      mc st c w = (st', (c', w', r)) ->
      m c w = (c', w', r) /\ c_tree c' = t /\ d_tree (w_disk w') = tf /\ cache_ok (k_cache st') t tf.

  (* a whole operation: same result, and the cache is valid for the tree and tree store the
     operation STARTED from (whether it is valid for the ones it ends with is the business of
     node immutability, section 3) *)
  Definition simT {A} (mc : MC A) (m : M A) : Prop :=
    forall st c w st' c' w' r,
      c_tree c = t -> d_tree (w_disk w) = tf -> cache_ok (k_cache st) t tf ->
      mc st c w = (st', (c', w', r)) ->
      m c w = (c', w', r) /\ cache_ok (k_cache st') t tf.

  Lemma readsT_simT {A} (mc : MC A) (m : M A) : readsT mc m -> simT mc m.
  Proof. intros H st c w st' c' w' r Ht Hf Hok E. destruct (H _ _ _ _ _ _ _ Ht Hf Hok E) as (A1 & _ & _ & A4). tauto. Qed.

  Lemma readsT_liftM {A} (m : M A) : tkeep m -> readsT (liftM m) m.
  Proof.
    intros Hk st c w st' c' w' r Ht Hf Hok E. unfold liftM in E. injection E as <- E.
    destruct (Hk _ _ _ _ _ E) as [K1 K2]. repeat split; [exact E|congruence|congruence|exact Hok].
  Qed.

  Lemma simT_liftM {A} (m : M A) : simT (liftM m) m.
  Proof.
    intros st c w st' c' w' r Ht Hf Hok E. unfold liftM in E. injection E as <- E. split; [exact E|exact Hok].
  Qed.

  Lemma readsT_liftC {A} (f : CM A) (x : res A) : csim t tf f x -> readsT (liftC f) (lift x).
  Proof.
    intros Hs st c w st' c' w' r Ht Hf Hok E. unfold liftC in E.
    destruct (Hs st Hok) as [E1 E2]. destruct (f st) as [st1 r1]. cbn [fst snd] in *.
    injection E as <- <- <- <-. subst r1. repeat split; assumption.
  Qed.

  Lemma mcbind_inv {A B} (mc : MC A) (fc : A -> MC B) st c w st' c' w' r :
    mcbind mc fc st c w = (st', (c', w', r)) ->
    exists st1 c1 w1 r1, mc st c w = (st1, (c1, w1, r1)) /\
      match r1 with
      | Ok a => fc a st1 c1 w1 = (st', (c', w', r))
      | Err e => st' = st1 /\ c' = c1 /\ w' = w1 /\ r = Err e
      | Panic s => st' = st1 /\ c' = c1 /\ w' = w1 /\ r = Panic s
      | OutOfFuel => st' = st1 /\ c' = c1 /\ w' = w1 /\ r = OutOfFuel
      end.
  Proof.
    unfold mcbind. destruct (mc st c w) as [st1 [[c1 w1] r1]]. intros H.
    exists st1, c1, w1, r1. split; [reflexivity|].
    destruct r1; [exact H| | |]; inversion H; subst; repeat split.
  Qed.

  Lemma readsT_bind {A B} (mc : MC A) (m : M A) (fc : A -> MC B) (f : A -> M B) :
    readsT mc m -> (forall a, readsT (fc a) (f a)) -> readsT (mcbind mc fc) (mbind m f).
  Proof.
    intros Hm Hf st c w st' c' w' r Ht Hd Hok E.
    apply mcbind_inv in E. destruct E as (st1 & c1 & w1 & r1 & E1 & E).
    destruct (Hm _ _ _ _ _ _ _ Ht Hd Hok E1) as (A1 & A2 & A3 & A4).
    unfold mbind. rewrite A1.
    destruct r1 as [a|e|s|]; [exact (Hf a _ _ _ _ _ _ _ A2 A3 A4 E)| | |];
      destruct E as (-> & -> & -> & ->); repeat split; assumption.
  Qed.

  Lemma simT_bind {A B} (mc : MC A) (m : M A) (fc : A -> MC B) (f : A -> M B) :
    readsT mc m -> (forall a, simT (fc a) (f a)) -> simT (mcbind mc fc) (mbind m f).
  Proof.
    intros Hm Hf st c w st' c' w' r Ht Hd Hok E.
    apply mcbind_inv in E. destruct E as (st1 & c1 & w1 & r1 & E1 & E).
    destruct (Hm _ _ _ _ _ _ _ Ht Hd Hok E1) as (A1 & A2 & A3 & A4).
    unfold mbind. rewrite A1.
    destruct r1 as [a|e|s|]; [exact (Hf a _ _ _ _ _ _ _ A2 A3 A4 E)| | |];
      destruct E as (-> & -> & -> & ->); repeat split; assumption.
  Qed.

  (* binds that tell what was bound *)
  Lemma readsT_get_core {B} (fc : core -> MC B) (f : core -> M B) :
    (forall c0, c_tree c0 = t -> readsT (fc c0) (f c0)) -> readsT (mcbind (liftM get_core) fc) (mbind get_core f).
  Proof. intros H st c w st' c' w' r Ht Hd Hok E. exact (H c Ht _ _ _ _ _ _ _ Ht Hd Hok E). Qed.

  Lemma simT_get_core {B} (fc : core -> MC B) (f : core -> M B) :
    (forall c0, c_tree c0 = t -> simT (fc c0) (f c0)) -> simT (mcbind (liftM get_core) fc) (mbind get_core f).
  Proof. intros H st c w st' c' w' r Ht Hd Hok E. exact (H c Ht _ _ _ _ _ _ _ Ht Hd Hok E). Qed.

  Lemma readsT_get_disk {B} (fc : disk -> MC B) (f : disk -> M B) :
    (forall d0, d_tree d0 = tf -> readsT (fc d0) (f d0)) -> readsT (mcbind (liftM get_disk) fc) (mbind get_disk f).
  Proof. intros H st c w st' c' w' r Ht Hd Hok E. exact (H (w_disk w) Hd _ _ _ _ _ _ _ Ht Hd Hok E). Qed.

  Lemma simT_get_disk {B} (fc : disk -> MC B) (f : disk -> M B) :
    (forall d0, d_tree d0 = tf -> simT (fc d0) (f d0)) -> simT (mcbind (liftM get_disk) fc) (mbind get_disk f).
  Proof. intros H st c w st' c' w' r Ht Hd Hok E. exact (H (w_disk w) Hd _ _ _ _ _ _ _ Ht Hd Hok E). Qed.

  Lemma readsT_lift_bind {A B} (x : res A) (fc : A -> MC B) (f : A -> M B) :
    (forall a, x = Ok a -> readsT (fc a) (f a)) -> readsT (mcbind (liftM (lift x)) fc) (mbind (lift x) f).
  Proof.
    intros H st c w st' c' w' r Ht Hd Hok E. unfold mcbind, liftM, lift in E. unfold mbind, lift.
    destruct x as [a|e|s|]; [exact (H a eq_refl _ _ _ _ _ _ _ Ht Hd Hok E)| | |];
      injection E as <- <- <- <-; repeat split; assumption.
  Qed.

  Lemma simT_lift_bind {A B} (x : res A) (fc : A -> MC B) (f : A -> M B) :
    (forall a, x = Ok a -> simT (fc a) (f a)) -> simT (mcbind (liftM (lift x)) fc) (mbind (lift x) f).
  Proof.
    intros H st c w st' c' w' r Ht Hd Hok E. unfold mcbind, liftM, lift in E. unfold mbind, lift.
    destruct x as [a|e|s|]; [exact (H a eq_refl _ _ _ _ _ _ _ Ht Hd Hok E)| | |];
      injection E as <- <- <- <-; repeat split; assumption.
  Qed.

  (* ---------- the operations ---------- *)

  Lemma reads_core_get index : readsT (core_get_c ev index) (core_get index).
  Proof.
    unfold core_get_c, core_get. apply readsT_get_core. intros c0 Hc0.
    destruct (negb (bf_get (c_bitfield c0) index)).
    { apply readsT_liftM. apply tkeep_bind; [apply tkeep_send|intros _; apply tkeep_ret]. }
    apply readsT_get_disk. intros d0 Hd0. rewrite Hc0, Hd0.
    apply readsT_bind; [apply readsT_liftC, csim_byte_range, Hev|]. intros [off l].
    apply readsT_liftM. destruct (l =? 0); [apply tkeep_ret|].
    destruct (f_read (d_data d0) off l); [apply tkeep_ret|apply tkeep_lift].
  Qed.

  Lemma reads_core_create_proof block hash seek upgrade :
    readsT (core_create_proof_c ev block hash seek upgrade) (core_create_proof block hash seek upgrade).
  Proof.
    unfold core_create_proof_c, core_create_proof. apply readsT_get_core. intros c0 Hc0.
    apply readsT_get_disk. intros d0 Hd0. rewrite Hc0, Hd0.
    apply readsT_bind; [apply readsT_liftC, csim_create_valueless_proof, Hev|]. intros vp.
    destruct (vp_block vp) as [b|]; [|apply readsT_liftM, tkeep_ret].
    apply readsT_bind; [apply reads_core_get|]. intros [value|]; apply readsT_liftM, tkeep_ret.
  Qed.

  Lemma reads_core_missing_nodes index : readsT (core_missing_nodes_c ev index) (core_missing_nodes index).
  Proof.
    unfold core_missing_nodes_c, core_missing_nodes. apply readsT_get_core. intros c0 Hc0.
    apply readsT_get_disk. intros d0 Hd0. rewrite Hc0, Hd0.
    apply readsT_lift_bind. intros i2 _. apply readsT_liftC, csim_missing_nodes, Hev.
  Qed.

  Lemma reads_core_missing_nodes_tree index :
    readsT (core_missing_nodes_tree_c ev index) (core_missing_nodes_tree index).
  Proof.
    unfold core_missing_nodes_tree_c, core_missing_nodes_tree. apply readsT_get_core. intros c0 Hc0.
    apply readsT_get_disk. intros d0 Hd0. rewrite Hc0, Hd0.
    apply readsT_liftC, csim_missing_nodes, Hev.
  Qed.

  Lemma sim_core_clear forced start end_ :
    simT (core_clear_c cr ev forced start end_) (core_clear cr forced start end_).
  Proof.
    unfold core_clear_c, core_clear. destruct (end_ <=? start); [apply simT_liftM|].
    apply simT_get_core. intros c0 Hc0.
    apply simT_lift_bind. intros [o' ops] Hoa.
    apply oplog_append_shape in Hoa. destruct Hoa as (fr & ->).
    apply simT_bind; [apply readsT_liftM, tkeep_put_oplog|]. intros _.
    apply simT_bind; [apply readsT_liftM, tkeep_emit; repeat constructor; discriminate|]. intros _.
    apply simT_bind; [apply readsT_liftM, tkeep_put_bitfield|]. intros _.
    apply simT_bind.
    { apply readsT_liftM. destruct (start <? hd_contig (c_header c0)); [apply tkeep_put_header|apply tkeep_ret]. }
    intros _.
    apply simT_get_disk. intros d0 Hd0. rewrite Hc0, Hd0.
    apply simT_bind; [apply readsT_liftC, csim_byte_offset, Hev|]. intros clear_offset.
    apply simT_lift_bind. intros e1 _.
    apply simT_bind; [apply readsT_liftC, csim_byte_range, Hev|]. intros [lo ll].
    apply simT_liftM.
  Qed.

  Lemma sim_core_apply_proof forced pf :
    simT (core_apply_proof_c cr ev forced pf) (core_apply_proof cr forced pf).
  Proof.
    unfold core_apply_proof_c, core_apply_proof. apply simT_get_core. intros c0 Hc0.
    destruct (negb (p_fork pf =? t_fork (c_tree c0))); [apply simT_liftM|].
    apply simT_get_disk. intros d0 Hd0. rewrite Hc0, Hd0.
    apply simT_bind; [apply readsT_liftC, csim_verify_proof, Hev|]. intros cs.
    destruct (negb (commitable t cs)); [apply simT_liftM|].
    apply simT_bind; [|intros bu; apply simT_liftM].
    destruct (p_block pf) as [b|]; [|apply readsT_liftM, tkeep_ret].
    apply readsT_bind; [apply readsT_liftC, csim_byte_offset_in_changeset, Hev|]. intros off.
    apply readsT_liftM. apply tkeep_bind; [apply tkeep_emit; repeat constructor; discriminate|].
    intros _. apply tkeep_ret.
  Qed.
End CoreSim.

(* ====================================================================================== *)
(* 3. Mutations: node immutability, reopening, whole histories (any core, any proofs)       *)
(* ====================================================================================== *)

(* nodes are immutable per index from (t, tf) to (t', tf'): a node that a lookup finds is found
   unchanged afterwards. (Nodes may APPEAR: a lookup that missed may find a node later; that is
   why a miss must never be cached.) *)
Definition vmono (t : mtree) (tf : file) (t' : mtree) (tf' : file) : Prop :=
  forall i am n, node_get t tf i am = Ok (Some n) -> node_get t' tf' i am = Ok (Some n).

Lemma vmono_refl t tf : vmono t tf t tf.
Proof. intros i am n H. exact H. Qed.

Lemma vmono_trans t1 f1 t2 f2 t3 f3 : vmono t1 f1 t2 f2 -> vmono t2 f2 t3 f3 -> vmono t1 f1 t3 f3.
Proof. intros A B i am n H. apply B, A, H. Qed.

Lemma cache_ok_vmono cache t tf t' tf' : cache_ok cache t tf -> vmono t tf t' tf' -> cache_ok cache t' tf'.
Proof. intros Hok Hv i n H am. apply Hv, Hok, H. Qed.

Lemma node_get_unflushed_same t t' tf i am :
  t_unflushed t' = t_unflushed t -> node_get t' tf i am = node_get t tf i am.
Proof. intros H. unfold node_get. rewrite H. reflexivity. Qed.

Lemma cache_ok_unflushed_same cache t t' tf :
  t_unflushed t' = t_unflushed t -> cache_ok cache t tf -> cache_ok cache t' tf.
Proof. intros H Hok i n Hi am. rewrite (node_get_unflushed_same t t' tf i am H). apply Hok, Hi. Qed.

(* the cache filled by MerkleTree::open *)
Lemma add_nodes_empty_get (l : list node) i n :
  nm_get i (add_nodes nm_empty l) = Some n -> In n l /\ n_index n = i.
Proof.
  intros H. destruct (add_nodes_get l nm_empty i) as [(x & Hin & Hi & Hg)|[_ Hg]]; rewrite Hg in H.
  - injection H as <-. split; assumption.
  - rewrite nm_get_empty in H. discriminate H.
Qed.

Section Replay.
  Variable cr : crypto.
  Variable ev : evo.
  Hypothesis Hev : evictor ev.
  Variable tf : file.

  (* node immutability during the replay of the oplog entries by Hypercore::new: each add_node leaves
     the nodes that were visible (in the store, or added for earlier entries) as they are *)
  Fixpoint replay_vm (st : mtree * bitfield * header) (l : list entry) : Prop :=
    match l with
    | [] => True
    | e :: r =>
        vmono (fst (fst st)) tf (fold_left tree_add_node (e_nodes e) (fst (fst st))) tf /\
        match replay_entry cr tf st e with
        | Ok st' => replay_vm st' r
        | _ => True
        end
    end.

  Lemma tree_truncate_rnodes t length fork cs : tree_truncate t tf length fork = Ok cs -> cs_rnodes cs = [].
  Proof.
    unfold tree_truncate. intros H. apply bind_ok in H as (roots & _ & H). injection H as <-. reflexivity.
  Qed.

  Lemma replay_entry_unflushed t b h e t' b' h' :
    replay_entry cr tf (t, b, h) e = Ok (t', b', h') ->
    t_unflushed t' = t_unflushed (fold_left tree_add_node (e_nodes e) t).
  Proof.
    unfold replay_entry. set (t1 := fold_left tree_add_node (e_nodes e) t).
    destruct (e_bitfield e) as [u|]; (destruct (e_upgrade e) as [up|]; [|intros H; injection H as <- _ _; reflexivity]);
      intros H; apply bind_ok in H as (cs & Htr & H); apply bind_ok in H as (sg & _ & H);
      apply bind_ok in H as (t2 & Hc & H); injection H as <- _ _;
      apply tree_truncate_rnodes in Htr; unfold tree_commit in Hc; cbn [cs_upgraded cs_rnodes cs_nodes] in Hc;
      destruct (negb _); try discriminate Hc; cbn [cs_ancestors cs_orig_length] in Hc;
      destruct (_ <? _); try discriminate Hc; injection Hc as <-; cbn [t_unflushed cs_nodes cs_rnodes];
      rewrite Htr; reflexivity.
  Qed.

  Lemma replay_entry_sim t b h e st :
    cache_ok (k_cache st) t tf ->
    vmono t tf (fold_left tree_add_node (e_nodes e) t) tf ->
    snd (replay_entry_c cr ev tf (t, b, h) e st) = replay_entry cr tf (t, b, h) e /\
    forall t' b' h', replay_entry cr tf (t, b, h) e = Ok (t', b', h') ->
      cache_ok (k_cache (fst (replay_entry_c cr ev tf (t, b, h) e st))) t' tf.
  Proof.
    intros Hok Hv. pose proof (cache_ok_vmono _ _ _ _ _ Hok Hv) as Hok1.
    pose proof (replay_entry_unflushed t b h e) as Hun.
    unfold replay_entry_c, replay_entry in *. set (t1 := fold_left tree_add_node (e_nodes e) t) in *.
    destruct (match e_bitfield e with
              | Some u => (bf_apply b u, set_contig h (update_contig (hd_contig h) (bf_apply b u) u))
              | None => (b, h) end) as [b1 h1].
    destruct (e_upgrade e) as [up|].
    - match goal with |- snd (cbind ?m ?f st) = bind ?r ?g /\ _ =>
        assert (S : csim t1 tf (cbind m f) (bind r g))
          by (apply csim_bind; [apply csim_tree_truncate, Hev|intros cs _; apply csim_lift])
      end.
      destruct (S st Hok1) as [S1 S2]. split; [exact S1|].
      intros t' b' h' E. apply (cache_ok_unflushed_same _ t1); [apply (Hun t' b' h' E)|exact S2].
    - split; [reflexivity|]. intros t' b' h' E. injection E as <- _ _. exact Hok1.
  Qed.

  Lemma replay_entries_sim l : forall t b h st,
    cache_ok (k_cache st) t tf -> replay_vm (t, b, h) l ->
    snd (replay_entries_c cr ev tf (t, b, h) l st) = replay_entries cr tf (t, b, h) l /\
    forall t' b' h', replay_entries cr tf (t, b, h) l = Ok (t', b', h') ->
      cache_ok (k_cache (fst (replay_entries_c cr ev tf (t, b, h) l st))) t' tf.
  Proof.
    induction l as [|e l IH]; intros t b h st Hok Hvm; cbn [replay_entries_c replay_entries].
    - split; [reflexivity|]. intros t' b' h' E. injection E as <- _ _. exact Hok.
    - cbn [replay_vm fst] in Hvm. destruct Hvm as [Hv Hvm].
      destruct (replay_entry_sim t b h e st Hok Hv) as [E1 E2].
      unfold cbind. destruct (replay_entry_c cr ev tf (t, b, h) e st) as [st1 r1]. cbn [fst snd] in *.
      subst r1. destruct (replay_entry cr tf (t, b, h) e) as [[[t1 b1] h1]|x|x|]; cbn [bind];
        [|split; [reflexivity|intros ? ? ? E; discriminate E]..].
      apply IH; [apply (E2 t1 b1 h1 eq_refl)|exact Hvm].
  Qed.
End Replay.

Section Open.
  Variable cr : crypto.
  Variable ev : evo.
  Hypothesis Hev : evictor ev.

  (* what Hypercore::new needs for the cache it creates: the roots it inserts are what the uncached
     lookup finds (false exactly when the record of a root is blank: open inserts roots without the
     `!node.blank` test, see open_caches_blank_root below), and the replay keeps nodes immutable *)
  Definition open_vm (kp : option keypair) (open_flag : bool) (d : disk) : Prop :=
    match (if open_flag then match kp with Some _ => Err BadArgument | None => Ok None end else Ok kp) with
    | Ok key_pair =>
        match oplog_open cr key_pair (f_content (d_oplog d)) with
        | Ok oo =>
            match apply_sops d (oo_ops oo) with
            | Some d' =>
                match tree_open (hd_tree (oo_header oo)) (d_tree d') with
                | Ok t =>
                    cache_ok (add_nodes nm_empty (t_roots t)) t (d_tree d') /\
                    replay_vm cr (d_tree d') (t, bf_open (d_bitfield d'), oo_header oo) (oo_entries oo)
                | _ => True
                end
            | None => True
            end
        | _ => True
        end
    | _ => True
    end.

  Theorem core_open_sim kp open_flag d tick :
    open_vm kp open_flag d ->
    snd (core_open_c cr ev kp open_flag d tick) = core_open cr kp open_flag d /\
    forall d' sops c', core_open cr kp open_flag d = (d', sops, Ok c') ->
      cache_ok (k_cache (fst (core_open_c cr ev kp open_flag d tick))) (c_tree c') (d_tree d').
  Proof.
    unfold open_vm, core_open_c, core_open.
    destruct (if open_flag then match kp with Some _ => Err BadArgument | None => Ok None end else Ok kp)
      as [key_pair|x|x|]; [|intros _; split; [reflexivity|intros ? ? ? E; discriminate E]..].
    destruct (oplog_open cr key_pair (f_content (d_oplog d))) as [oo|x|x|];
      [|intros _; split; [reflexivity|intros ? ? ? E; discriminate E]..].
    destruct (apply_sops d (oo_ops oo)) as [d1|]; [|intros _; split; [reflexivity|intros ? ? ? E; discriminate E]].
    unfold tree_open_c.
    destruct (tree_open (hd_tree (oo_header oo)) (d_tree d1)) as [t0|x|x|]; cbn [bind];
      [|intros _; split; [reflexivity|intros ? ? ? E; discriminate E]..].
    intros [Hroots Hvm].
    set (st0 := mkCst (add_nodes nm_empty (t_roots t0)) tick 0).
    destruct (replay_entries_sim cr ev Hev (d_tree d1) (oo_entries oo) t0 (bf_open (d_bitfield d1)) (oo_header oo)
                st0 Hroots Hvm) as [E1 E2].
    unfold cbind.
    destruct (replay_entries_c cr ev (d_tree d1) (t0, bf_open (d_bitfield d1), oo_header oo) (oo_entries oo) st0)
      as [st1 r1]. cbn [fst snd] in *. subst r1.
    destruct (replay_entries cr (d_tree d1) (t0, bf_open (d_bitfield d1), oo_header oo) (oo_entries oo))
      as [[[t1 b1] h1]|x|x|]; cbn [bind cret fst snd];
      [|split; [reflexivity|intros ? ? ? E; discriminate E]..].
    split; [reflexivity|]. intros d' sops c' E. injection E as <- _ <-. cbn [c_tree].
    apply (E2 t1 b1 h1 eq_refl).
  Qed.
End Open.

Section History.
  Variable cr : crypto.
  Variable ev : evo.
  Hypothesis Hev : evictor ev.

  (* node immutability across one operation (nothing is asked of an operation that ends the process) *)
  Definition step_vm (op : hop) (c : core) (w : world) : Prop :=
    match op with
    | HReopen => open_vm cr None true (w_disk w)
    | _ => let '(_, alive, c', w') := hstep cr op c w in
           alive = true -> vmono (c_tree c) (d_tree (w_disk w)) (c_tree c') (d_tree (w_disk w'))
    end.

  (* ... and along a history *)
  Fixpoint hist_vm (ops : list hop) (c : core) (w : world) : Prop :=
    match ops with
    | [] => True
    | op :: rest =>
        step_vm op c w /\
        let '(_, alive, c', w') := hstep cr op c w in
        if alive then hist_vm rest c' w' else True
    end.

  Definition valid (st : cst) (c : core) (w : world) : Prop :=
    cache_ok (k_cache st) (c_tree c) (d_tree (w_disk w)).

  Lemma step_of_simT {A} (mc : MC A) (m : M A) st c w :
    simT (c_tree c) (d_tree (w_disk w)) mc m -> valid st c w ->
    snd (mc st c w) = m c w /\ cache_ok (k_cache (fst (mc st c w))) (c_tree c) (d_tree (w_disk w)).
  Proof.
    intros H Hok. destruct (mc st c w) as [st' [[c' w'] r]] eqn:E.
    destruct (H _ _ _ _ _ _ _ eq_refl eq_refl Hok E) as [A1 A2]. cbn [fst snd]. split; [symmetry; exact A1|exact A2].
  Qed.

  (* one operation: same observation, same core, same world; the cache is valid afterwards *)
  Theorem hstep_sim op st c w :
    valid st c w -> step_vm op c w ->
    snd (hstep_c cr ev op st c w) = hstep cr op c w /\
    (let '(_, alive, c', w') := hstep cr op c w in
     alive = true -> valid (fst (hstep_c cr ev op st c w)) c' w').
  Proof.
    intros Hok Hvm. unfold valid in *.
    destruct op as [f batch|f s e|i|i| |b h s u|i|i|f pf| |]; cbn [hstep_c hstep step_vm] in *.
    - destruct (core_append cr f batch c w) as [[c' w'] r]. cbn [fst snd]. split; [reflexivity|].
      intros Ha. eapply cache_ok_vmono; [eassumption|apply Hvm, Ha].
    - destruct (step_of_simT _ _ st c w (sim_core_clear cr ev Hev _ _ f s e) Hok) as [E1 E2].
      destruct (core_clear_c cr ev f s e st c w) as [st' [[c1 w1] r1]]. cbn [fst snd] in *. rewrite <- E1 in *.
      split; [reflexivity|]. intros Ha. eapply cache_ok_vmono; [eassumption|apply Hvm, Ha].
    - destruct (step_of_simT _ _ st c w (readsT_simT _ _ _ _ (reads_core_get ev Hev _ _ i)) Hok) as [E1 E2].
      destruct (core_get_c ev i st c w) as [st' [[c1 w1] r1]]. cbn [fst snd] in *. rewrite <- E1 in *.
      split; [reflexivity|]. intros Ha. eapply cache_ok_vmono; [eassumption|apply Hvm, Ha].
    - split; [reflexivity|]. intros _. exact Hok.
    - split; [reflexivity|]. intros _. exact Hok.
    - destruct (step_of_simT _ _ st c w
                  (readsT_simT _ _ _ _ (reads_core_create_proof ev Hev _ _ b h s u)) Hok) as [E1 E2].
      destruct (core_create_proof_c ev b h s u st c w) as [st' [[c1 w1] r1]]. cbn [fst snd] in *. rewrite <- E1 in *.
      split; [reflexivity|]. intros Ha. eapply cache_ok_vmono; [eassumption|apply Hvm, Ha].
    - destruct (step_of_simT _ _ st c w
                  (readsT_simT _ _ _ _ (reads_core_missing_nodes ev Hev _ _ i)) Hok) as [E1 E2].
      destruct (core_missing_nodes_c ev i st c w) as [st' [[c1 w1] r1]]. cbn [fst snd] in *. rewrite <- E1 in *.
      split; [reflexivity|]. intros Ha. eapply cache_ok_vmono; [eassumption|apply Hvm, Ha].
    - destruct (step_of_simT _ _ st c w
                  (readsT_simT _ _ _ _ (reads_core_missing_nodes_tree ev Hev _ _ i)) Hok) as [E1 E2].
      destruct (core_missing_nodes_tree_c ev i st c w) as [st' [[c1 w1] r1]]. cbn [fst snd] in *. rewrite <- E1 in *.
      split; [reflexivity|]. intros Ha. eapply cache_ok_vmono; [eassumption|apply Hvm, Ha].
    - destruct (step_of_simT _ _ st c w (sim_core_apply_proof cr ev Hev _ _ f pf) Hok) as [E1 E2].
      destruct (core_apply_proof_c cr ev f pf st c w) as [st' [[c1 w1] r1]]. cbn [fst snd] in *. rewrite <- E1 in *.
      split; [reflexivity|]. intros Ha. eapply cache_ok_vmono; [eassumption|apply Hvm, Ha].
    - destruct (core_make_read_only cr c w) as [[c' w'] r]. cbn [fst snd]. split; [reflexivity|].
      intros Ha. eapply cache_ok_vmono; [eassumption|apply Hvm, Ha].
    - destruct (core_open_sim cr ev Hev None true (w_disk w) (k_tick st) Hvm) as [E1 E2].
      destruct (core_open_c cr ev None true (w_disk w) (k_tick st)) as [st' [[d1 sops1] r1]]. cbn [fst snd] in *.
      rewrite <- E1 in *. destruct r1 as [c1|x|x|]; cbn [fst snd k_cache w_disk];
        (split; [reflexivity|]); intros Ha; try discriminate Ha.
      apply (E2 d1 sops1 c1 eq_refl).
  Qed.

  (* C14 for whole histories, any core (writer or replica), any eviction schedule, any valid initial
     cache: observations, final core, final disk, storage journal and events are those of the run
     without the cache; the condition is node immutability *)
  Theorem cache_transparent_history (ops : list hop) : forall st c w,
    valid st c w -> hist_vm ops c w ->
    snd (hrun_c cr ev ops st c w) = hrun cr ops c w.
  Proof.
    induction ops as [|op ops IH]; intros st c w Hok Hvm; cbn [hrun_c hrun]; [reflexivity|].
    cbn [hist_vm] in Hvm. destruct Hvm as [Hs Hvm].
    destruct (hstep_sim op st c w Hok Hs) as [E1 E2].
    destruct (hstep_c cr ev op st c w) as [st' [[[o1 a1] c1] w1]]. cbn [fst snd] in *. rewrite <- E1 in *.
    destruct a1; [|reflexivity].
    specialize (IH st' c1 w1 (E2 eq_refl) Hvm).
    destruct (hrun_c cr ev ops st' c1 w1) as [st2 [[os c2] w2]]. cbn [snd] in *. rewrite <- IH. reflexivity.
  Qed.
End History.

(* ====================================================================================== *)
(* 4. The writer: node immutability holds along every history                               *)
(* ====================================================================================== *)

(* 4.1 which nodes are visible: only full nodes of the tree over the blocks, with the reference value *)

Lemma required_node_get t tf i n : required_node t tf i = Ok n -> forall am, node_get t tf i am = Ok (Some n).
Proof.
  unfold required_node. intros H am. destruct (node_get t tf i false) as [[m|]| | |] eqn:G; try discriminate H.
  cbn [bind] in H. injection H as ->. eapply node_get_found_any_mode. exact G.
Qed.

Lemma tree_commit_unflushed t cs t' :
  tree_commit t cs = Ok t' -> t_unflushed t' = add_nodes (t_unflushed t) (cs_nodes cs).
Proof.
  unfold tree_commit. destruct (negb (commitable t cs)); [discriminate|].
  destruct (cs_upgraded cs); [destruct (cs_ancestors cs <? cs_orig_length cs); [discriminate|]|];
    intros H; injection H as <-; reflexivity.
Qed.

Section WriterNodes.
  Variable cr : crypto.
  Hypothesis Hhash32 : forall x, length (cr_hash cr x) = 32%nat.
  Hypothesis Hnonblank : forall x, all_zero (cr_hash cr x) = false.

  (* x is the reference node at tree index i, and i is a full node of the tree over bs *)
  Definition fullref (bs : list bytes) (i : N) (x : node) : Prop :=
    exists j q, i = ft_index (N.of_nat j) q /\ (q + 1) * p2 j <= N.of_nat (length bs) /\ x = ref_node cr bs j q.

  (* the tree store holds whole records, and every non-blank record is a full reference node *)
  Definition SInv (tf : file) (bs : list bytes) : Prop :=
    f_len tf mod NODE_SIZE = 0 /\
    forall i data, f_read tf (NODE_SIZE * i) NODE_SIZE = Some data ->
      node_blank (node_from_bytes i data) = false -> fullref bs i (node_from_bytes i data).

  (* so is every unflushed node *)
  Definition UInv (t : mtree) (bs : list bytes) : Prop :=
    forall i x, nm_get i (t_unflushed t) = Some x -> fullref bs i x.

  Definition NInv (c : core) (d : disk) (bs : list bytes) : Prop :=
    SInv (d_tree d) bs /\ UInv (c_tree c) bs.

  Lemma fullref_app bs batch i x : fullref bs i x -> fullref (bs ++ batch) i x.
  Proof.
    intros (j & q & Hi & Hq & Hx). exists j, q. split; [exact Hi|]. split.
    - rewrite app_length, Nat2N.inj_add. lia.
    - rewrite ref_node_app by exact Hq. exact Hx.
  Qed.

  Lemma fullref_unique bs i x y : fullref bs i x -> fullref bs i y -> x = y.
  Proof.
    intros (j & q & Hi & _ & ->) (j' & q' & Hi' & _ & ->). rewrite Hi in Hi'.
    apply ft_index_inj in Hi' as [Ej ->]. apply Nat2N.inj in Ej. subst j'. reflexivity.
  Qed.

  Lemma fullref_nonblank bs i x : fullref bs i x -> node_blank x = false.
  Proof. intros (j & q & _ & _ & ->). apply ref_node_nonblank, Hnonblank. Qed.

  Lemma fullref_index bs i x : fullref bs i x -> n_index x = i.
  Proof. intros (j & q & -> & _ & ->). apply ref_node_index. Qed.

  Lemma SInv_app tf bs batch : SInv tf bs -> SInv tf (bs ++ batch).
  Proof. intros [H1 H2]. split; [exact H1|]. intros i data R B. apply fullref_app, (H2 i data R B). Qed.

  Lemma UInv_app t bs batch : UInv t bs -> UInv t (bs ++ batch).
  Proof. intros H i x G. apply fullref_app, (H i x G). Qed.

  Lemma visible_fullref t tf bs i am n :
    SInv tf bs -> UInv t bs -> node_get t tf i am = Ok (Some n) -> fullref bs i n.
  Proof.
    intros [_ HS] HU. unfold node_get. destruct (nm_get i (t_unflushed t)) as [x|] eqn:G.
    - destruct (node_blank x); [destruct am; discriminate|]. intros H. injection H as <-. apply (HU i x G).
    - unfold mul64. destruct (fits_u64 (NODE_SIZE * i)); [|discriminate]. cbn [bind].
      destruct (f_read tf (NODE_SIZE * i) NODE_SIZE) as [data|] eqn:R; [|destruct am; discriminate].
      destruct (node_blank (node_from_bytes i data)) eqn:B; [destruct am; discriminate|].
      intros H. injection H as <-. apply (HS i data R B).
  Qed.

  (* every node visible before is found, unchanged, wherever the full nodes of a longer list are found *)
  Lemma vmono_writer t tf t' tf' bs batch :
    SInv tf bs -> UInv t bs ->
    lookups cr t' tf' (bs ++ batch) (N.of_nat (length (bs ++ batch))) ->
    vmono t tf t' tf'.
  Proof.
    intros HS HU Hl i am n G. destruct (visible_fullref t tf bs i am n HS HU G) as (j & q & -> & Hq & ->).
    apply required_node_get. rewrite <- (ref_node_app cr bs batch j q Hq). apply Hl.
    rewrite app_length, Nat2N.inj_add. lia.
  Qed.

  (* adding full reference nodes to the unflushed map *)
  Lemma add_fullref t t1 tf bs (l : list node) :
    SInv tf bs -> UInv t bs ->
    (forall x, In x l -> fullref bs (n_index x) x) ->
    t_unflushed t1 = add_nodes (t_unflushed t) l ->
    vmono t tf t1 tf /\ UInv t1 bs.
  Proof.
    intros HS HU Hl Hu. split.
    - intros i am n G. pose proof (visible_fullref t tf bs i am n HS HU G) as Fn.
      destruct (add_nodes_get l (t_unflushed t) i) as [(x & Hin & Hi & Hg)|[_ Hg]].
      + pose proof (Hl x Hin) as Fx. rewrite Hi in Fx. rewrite (fullref_unique bs i n x Fn Fx).
        unfold node_get. rewrite Hu, Hg, (fullref_nonblank bs i x Fx). reflexivity.
      + rewrite <- G. apply node_get_unflushed_eq. rewrite Hu. exact Hg.
    - intros i x G. rewrite Hu in G.
      destruct (add_nodes_get l (t_unflushed t) i) as [(y & Hin & Hi & Hg)|[_ Hg]]; rewrite Hg in G.
      + injection G as <-. rewrite <- Hi. apply Hl, Hin.
      + apply (HU i x G).
  Qed.

  (* ---------- flush ---------- *)

  Lemma write_nodes_len_mod (ws : list node) : forall f,
    (forall v, In v ws -> length (n_hash v) = 32%nat) ->
    f_len f mod NODE_SIZE = 0 -> f_len (write_nodes f ws) mod NODE_SIZE = 0.
  Proof.
    induction ws as [|v ws IH]; intros f H32 Hf; [exact Hf|].
    change (write_nodes f (v :: ws)) with (write_nodes (f_write f (NODE_SIZE * n_index v) (node_to_bytes v)) ws).
    apply IH; [intros x Hx; apply H32; right; exact Hx|].
    rewrite f_write_len, (len_node_to_bytes v) by (apply H32; left; reflexivity).
    unfold NODE_SIZE in *. lia.
  Qed.

  Lemma write_nodes_byte (ws : list node) : forall f p,
    (forall v, In v ws -> length (n_hash v) = 32%nat) ->
    p < f_len (write_nodes f ws) ->
    (forall v, In v ws -> p < NODE_SIZE * n_index v \/ NODE_SIZE * n_index v + NODE_SIZE <= p) ->
    f_byte (write_nodes f ws) p = if p <? f_len f then f_byte f p else 0.
  Proof.
    induction ws as [|v ws IH]; intros f p H32 Hp Hout.
    - cbn [write_nodes fold_left] in *. destruct (N.ltb_spec p (f_len f)); [reflexivity|lia].
    - change (write_nodes f (v :: ws)) with (write_nodes (f_write f (NODE_SIZE * n_index v) (node_to_bytes v)) ws) in *.
      set (f1 := f_write f (NODE_SIZE * n_index v) (node_to_bytes v)) in *.
      assert (L0 : len (node_to_bytes v) = NODE_SIZE) by (apply len_node_to_bytes, H32; left; reflexivity).
      rewrite (IH f1 p) by (try exact Hp; intros x Hx; first [apply H32 | apply Hout]; right; exact Hx).
      destruct (Hout v (or_introl eq_refl)) as [Lt|Ge].
      + destruct (N.ltb_spec p (f_len f1)) as [L1|L1].
        * unfold f1. rewrite f_write_at by exact L1. rewrite L0.
          destruct (N.leb_spec (NODE_SIZE * n_index v) p); [lia|]. cbn [andb]. reflexivity.
        * unfold f1 in L1. rewrite f_write_len in L1. destruct (N.ltb_spec p (f_len f)); [lia|reflexivity].
      + destruct (N.ltb_spec p (f_len f1)) as [L1|L1].
        * unfold f1. rewrite f_write_at by exact L1. rewrite L0.
          destruct (N.ltb_spec p (NODE_SIZE * n_index v + NODE_SIZE)); [lia|]. rewrite andb_false_r. reflexivity.
        * unfold f1 in L1. rewrite f_write_len in L1. destruct (N.ltb_spec p (f_len f)); [lia|reflexivity].
  Qed.

  Lemma all_zero_nth (data : bytes) : (forall k, (k < length data)%nat -> nth k data 0 = 0) -> all_zero data = true.
  Proof.
    intros H. unfold all_zero. apply forallb_forall. intros b Hb.
    apply (In_nth _ _ 0) in Hb as (k & Hk & <-). rewrite (H k Hk). reflexivity.
  Qed.

  Lemma nth_skipn_add {A} (k : nat) : forall (l : list A) p d, nth p (skipn k l) d = nth (k + p) l d.
  Proof.
    induction k as [|k IH]; intros l p d; [reflexivity|].
    destruct l as [|a l]; [destruct p; reflexivity|]. cbn [skipn Nat.add nth]. apply IH.
  Qed.

  (* a record that appears in the store by a flush without having been written is zero-filled: blank *)
  Lemma write_nodes_fresh_blank (ws : list node) f k data :
    (forall v, In v ws -> length (n_hash v) = 32%nat) ->
    (forall v, In v ws -> n_index v <> k) ->
    f_len f <= NODE_SIZE * k ->
    f_read (write_nodes f ws) (NODE_SIZE * k) NODE_SIZE = Some data ->
    node_blank (node_from_bytes k data) = true.
  Proof.
    intros H32 Hno Hlen R. apply f_read_spec in R as (Hb & Hl & Hnth).
    unfold node_blank, node_from_bytes. cbn [n_hash]. apply all_zero_nth. intros p Hp.
    rewrite skipn_length in Hp. rewrite nth_skipn_add.
    replace (8 + p)%nat with (N.to_nat (N.of_nat (8 + p))) by lia.
    rewrite Hnth by (unfold NODE_SIZE in *; lia).
    rewrite write_nodes_byte; [|exact H32|unfold NODE_SIZE in *; lia|].
    - destruct (N.ltb_spec (NODE_SIZE * k + N.of_nat (8 + p)) (f_len f)); [lia|reflexivity].
    - intros v Hv. pose proof (Hno v Hv). unfold NODE_SIZE in *. lia.
  Qed.

  Lemma flush_SInv t t' tops d1 d2 bs :
    SInv (d_tree d1) bs -> UInv t bs -> unflushed_ok t ->
    tree_flush t = Ok (t', tops) -> apply_sops d1 tops = Some d2 ->
    SInv (d_tree d2) bs /\ UInv t' bs.
  Proof.
    intros [HSl HS] HU Hok Hf Ha. rewrite (tree_flush_ok t Hok) in Hf. injection Hf as <- <-.
    rewrite apply_node_writes in Ha. injection Ha as <-.
    set (ws := map snd (nm_elements (t_unflushed t))) in *.
    assert (Hws : forall v, In v ws -> nm_get (n_index v) (t_unflushed t) = Some v).
    { intros v Hv. apply in_map_iff in Hv as ([k v'] & E & Hv). cbn [snd] in E. subst v'.
      apply nm_elements_in in Hv. destruct (Hok k v Hv) as (-> & _). exact Hv. }
    assert (H32 : forall v, In v ws -> length (n_hash v) = 32%nat).
    { intros v Hv. apply Hws in Hv. apply Hok in Hv. tauto. }
    cbn [d_set d_tree]. split; [split|].
    - apply write_nodes_len_mod; assumption.
    - intros i data R B.
      destruct (write_nodes_read ws (d_tree d1) i H32) as [(v & Hin & Hk & Hr)|[Hno Hr]].
      + rewrite Hr in R. injection R as <-. pose proof (Hws v Hin) as G.
        destruct (Hok _ v G) as (_ & Hh & Hl). rewrite <- Hk.
        rewrite node_bytes_roundtrip; [|rewrite Hh; reflexivity|unfold u64_max in Hl; lia].
        apply (HU _ v G).
      + destruct (N.le_gt_cases (NODE_SIZE * i + NODE_SIZE) (f_len (d_tree d1))) as [Le|Gt].
        * rewrite (Hr Le) in R. apply (HS i data R B).
        * exfalso. rewrite (write_nodes_fresh_blank ws (d_tree d1) i data H32 Hno) in B; [discriminate B| |exact R].
          unfold NODE_SIZE in *. lia.
    - intros i x G. cbn [t_unflushed] in G. rewrite nm_get_empty in G. discriminate G.
  Qed.
End WriterNodes.

(* 4.2 what a successful append / clear does to the tree and to the tree store *)

Section Effects.
  Variable cr : crypto.

  (* nothing, or a flush of the tree: every unflushed node is written, the unflushed map is emptied *)
  Definition flush_rel (t : mtree) (tf : file) (t' : mtree) (tf' : file) : Prop :=
    (t' = t /\ tf' = tf) \/
    exists tops d1 d2, tree_flush t = Ok (t', tops) /\ d_tree d1 = tf /\ apply_sops d1 tops = Some d2 /\
                       tf' = d_tree d2.

  Lemma apply_sops_keep_tree ops d d' :
    apply_sops d ops = Some d' -> (forall o, In o ops -> sop_store o <> Tree) -> d_tree d' = d_tree d.
  Proof. intros H Hs. exact (apply_sops_other ops d d' Tree H Hs). Qed.

  Lemma flush_all_tree c w c' w' u :
    flush_all cr false c w = (c', w', Ok u) ->
    exists tops d1 d2, tree_flush (c_tree c) = Ok (c_tree c', tops) /\ d_tree d1 = d_tree (w_disk w) /\
                       apply_sops d1 tops = Some d2 /\ d_tree (w_disk w') = d_tree d2.
  Proof.
    unfold flush_all. rewrite mbind_get_core. intros H.
    destruct (bf_flush (c_bitfield c)) as [b' pops] eqn:BF.
    mstep H; prim_inv Hm.
    mstep H. apply emit_ok in Hm. destruct Hm as (-> & _ & _ & A1).
    rewrite mbind_lift in H.
    destruct (tree_flush _) as [[t' tops]| | |] eqn:TF; try discriminate H.
    mstep H; prim_inv Hm.
    mstep H. apply emit_ok in Hm. destruct Hm as (-> & _ & _ & A2).
    rewrite mbind_get_core, mbind_lift in H.
    destruct (oplog_flush _ _ _ _) as [[o' oops]| | |] eqn:OF; try discriminate H.
    mstep H; prim_inv Hm.
    apply emit_ok in H. destruct H as (-> & _ & _ & A3).
    cbn [c_tree c_bitfield w_disk] in *.
    match type of A2 with apply_sops ?d1 _ = Some ?d2 => exists tops, d1, d2 end.
    split; [reflexivity|]. split; [|split; [exact A2|]].
    - apply (apply_sops_keep_tree pops _ _ A1). unfold bf_flush in BF. injection BF as _ <-.
      intros o Ho. apply in_map_iff in Ho as (p & <- & _). cbn [sop_store]. discriminate.
    - apply (apply_sops_keep_tree oops _ _ A3).
      unfold oplog_flush in OF. apply bind_ok in OF. destruct OF as ([bits1 ops1] & IH & OF).
      injection OF as _ <-. apply insert_header_shape in IH. destruct IH as (slot & hb & -> & _).
      intros o [<-|[<-|[]]]; cbn [sop_store]; discriminate.
  Qed.

  Lemma maybe_flush_tree f c w c' w' u :
    maybe_flush cr f c w = (c', w', Ok u) ->
    flush_rel (c_tree c) (d_tree (w_disk w)) (c_tree c') (d_tree (w_disk w')).
  Proof.
    unfold maybe_flush. rewrite mbind_get_core. intros H.
    match type of H with (if ?b then _ else _) _ _ = _ => destruct b end.
    - mstep H; prim_inv Hm. apply flush_all_tree in H. cbn [c_tree] in H.
      destruct H as (tops & d1 & d2 & H1 & H2 & H3 & H4). right. exists tops, d1, d2. repeat split; assumption.
    - prim_inv H. left. split; reflexivity.
  Qed.

  Lemma log_and_commit_tree cs bu c w c' w' u :
    log_and_commit cr cs bu c w = (c', w', Ok u) ->
    tree_commit (c_tree c) cs = Ok (c_tree c') /\ d_tree (w_disk w') = d_tree (w_disk w).
  Proof.
    unfold log_and_commit. rewrite mbind_get_core, mbind_lift. intros H.
    destruct (entry_of_changeset cs bu (c_header c)) as [[e h']| | |]; try discriminate H.
    rewrite mbind_lift in H.
    destruct (oplog_append cr (c_oplog c) e) as [[o' ops]| | |] eqn:OA; try discriminate H.
    apply oplog_append_shape in OA. destruct OA as (fr & ->).
    mstep H; prim_inv Hm.
    mstep H. apply emit_ok in Hm. destruct Hm as (-> & _ & _ & A1).
    mstep H; prim_inv Hm.
    mstep H.
    match type of Hm with ?m _ _ = _ => assert (Tk : tkeep m) end.
    { destruct bu as [ub|]; [|apply tkeep_ret].
      apply tkeep_bind; [apply tkeep_get_core|intros c1].
      apply tkeep_bind; [apply tkeep_put_bitfield|intros _; apply tkeep_put_header]. }
    apply Tk in Hm. destruct Hm as [T1 T2]. cbn [c_tree w_disk] in T1, T2.
    rewrite mbind_get_core, mbind_lift in H.
    destruct (tree_commit (c_tree c0) cs) as [t'| | |] eqn:TC; try discriminate H.
    prim_inv H. cbn [c_tree w_disk].
    split.
    - rewrite <- T1. exact TC.
    - rewrite T2. apply (apply_sops_keep_tree _ _ _ A1). intros o [<-|[]]. cbn [sop_store]. discriminate.
  Qed.
End Effects.

Section Effects2.
  Variable cr : crypto.

  Lemma append_effect f batch c w c' w' x sk :
    core_append cr f batch c w = (c', w', Ok x) -> kp_secret (c_keypair c) = Some sk -> batch <> [] ->
    exists cs t1, cs_append_all cr (tree_changeset (c_tree c)) batch = Ok cs /\
      tree_commit (c_tree c) (cs_hash_and_sign cr cs sk) = Ok t1 /\
      flush_rel t1 (d_tree (w_disk w)) (c_tree c') (d_tree (w_disk w')).
  Proof.
    unfold core_append. rewrite mbind_get_core. intros H Hsk Hne. rewrite Hsk in H.
    destruct batch as [|d batch]; [congruence|].
    set (B := d :: batch) in *.
    mstep H. rewrite mbind_get_core in H. prim_inv H.
    rewrite mbind_lift in Hm.
    destruct (cs_append_all cr (tree_changeset (c_tree c)) B) as [cs| | |]; try discriminate Hm.
    mstep Hm. apply emit_ok in Hm0. destruct Hm0 as (-> & _ & _ & A1).
    mstep Hm. apply log_and_commit_tree in Hm0. destruct Hm0 as [TC TD].
    mstep Hm. apply maybe_flush_tree in Hm0.
    rewrite !mbind_send in Hm. prim_inv Hm. cbn [w_disk] in *.
    exists cs, (c_tree c0). split; [reflexivity|]. split; [exact TC|].
    rewrite TD in Hm0.
    rewrite (apply_sops_keep_tree _ _ _ A1) in Hm0; [exact Hm0|].
    intros o [<-|[]]. cbn [sop_store]. discriminate.
  Qed.

  Lemma clear_effect f start end_ c w c' w' x :
    core_clear cr f start end_ c w = (c', w', Ok x) ->
    flush_rel (c_tree c) (d_tree (w_disk w)) (c_tree c') (d_tree (w_disk w')).
  Proof.
    unfold core_clear. destruct (end_ <=? start).
    { intros H. prim_inv H. left. split; reflexivity. }
    rewrite mbind_get_core, mbind_lift. intros H.
    destruct (oplog_append cr (c_oplog c) _) as [[o' ops]| | |] eqn:OA; try discriminate H.
    apply oplog_append_shape in OA. destruct OA as (fr & ->).
    mstep H; prim_inv Hm.
    mstep H. apply emit_ok in Hm. destruct Hm as (-> & _ & _ & A1).
    mstep H; prim_inv Hm.
    mstep H.
    match type of Hm with ?m _ _ = _ => assert (Tk : tkeep m) end.
    { destruct (start <? hd_contig (c_header c)); [apply tkeep_put_header|apply tkeep_ret]. }
    apply Tk in Hm. destruct Hm as [T1 T2]. cbn [c_tree w_disk] in T1, T2.
    rewrite mbind_get_disk, mbind_lift in H.
    destruct (byte_offset _ _ _) as [co| | |]; try discriminate H.
    rewrite mbind_lift in H. destruct (sub64 _ _ 1) as [e1| | |]; try discriminate H.
    rewrite mbind_lift in H. destruct (byte_range _ _ _) as [[lo ll]| | |]; try discriminate H.
    rewrite mbind_lift in H. destruct (sub64 _ _ co) as [cl| | |]; try discriminate H.
    mstep H.
    match type of Hm with ?m _ _ = _ => assert (Tk2 : tkeep m) end.
    { match goal with |- tkeep (if ?b then _ else _) => destruct b end;
        [apply tkeep_emit; repeat constructor; discriminate|apply tkeep_ret]. }
    apply Tk2 in Hm. destruct Hm as [T3 T4].
    apply maybe_flush_tree in H. rewrite T3, T1, T4, T2 in H.
    rewrite (apply_sops_keep_tree _ _ _ A1) in H; [exact H|].
    intros o [<-|[]]. cbn [sop_store]. discriminate.
  Qed.
End Effects2.

(* 4.3 the invariant NInv along the writer's operations, and node immutability from it *)

Fixpoint wf_w (ops : list hop) (n : N) : Prop :=
  match ops with
  | [] => True
  | HAppend _ batch :: rest => wf_w rest (n + N.of_nat (length batch))
  | HClear _ s e :: rest => (e <= s \/ (s < n /\ e <= u64_max)) /\ wf_w rest n
  | HApplyProof _ _ :: _ => False       (* the writer fragment: no proofs applied, *)
  | HMakeReadOnly :: _ => False         (* the key is kept *)
  | _ :: rest => wf_w rest n
  end.

Fixpoint happended (ops : list hop) : list bytes :=
  match ops with
  | [] => []
  | HAppend _ batch :: rest => batch ++ happended rest
  | _ :: rest => happended rest
  end.

Section WriterHistory.
  Variable cr : crypto.
  Hypothesis Hcrc : crc_ok cr.
  Hypothesis Hhash32 : forall x, length (cr_hash cr x) = 32%nat.
  Hypothesis Hnonblank : forall x, all_zero (cr_hash cr x) = false.
  Hypothesis Hhashbytes : forall x, bytes_ok (cr_hash cr x) = true.
  Hypothesis Hsig64 : forall sk m, length (cr_sign cr sk m) = 64%nat.
  Hypothesis Hsigbytes : forall sk m, bytes_ok (cr_sign cr sk m) = true.

  Lemma FInv_TInv c d bs cl : FInv cr c d bs cl -> TInv cr (c_tree c) (d_tree d) bs.
  Proof. intros F. apply FInv_CInv in F. apply F. Qed.

  Lemma flush_rel_NInv t tf t' tf' bs :
    SInv cr tf bs -> UInv cr t bs -> unflushed_ok t -> flush_rel t tf t' tf' ->
    SInv cr tf' bs /\ UInv cr t' bs.
  Proof.
    intros HS HU Hok [[-> ->]|(tops & d1 & d2 & Hf & <- & Ha & ->)]; [split; assumption|].
    apply (flush_SInv cr Hhash32 Hnonblank t t' tops d1 d2 bs HS HU Hok Hf Ha).
  Qed.

  Lemma NInv_append f batch c d j evs bs cl sk c' w' x :
    FInv cr c d bs cl -> NInv cr c d bs -> kp_secret (c_keypair c) = Some sk ->
    sumN (map len (bs ++ batch)) <= u64_max ->
    NODE_SIZE * (2 * N.of_nat (length (bs ++ batch))) <= u64_max ->
    core_append cr f batch c (mkWorld d j evs) = (c', w', Ok x) ->
    NInv cr c' (w_disk w') (bs ++ batch).
  Proof.
    intros F [HS HU] Hsk Hfit Hidx H.
    destruct batch as [|b0 batch0].
    { unfold core_append in H. rewrite mbind_get_core, Hsk, mbind_ret, mbind_get_core in H. prim_inv H.
      rewrite app_nil_r. split; assumption. }
    set (batch := b0 :: batch0) in *.
    assert (Hne : batch <> []) by discriminate.
    destruct (append_effect cr f batch c _ c' w' x sk H Hsk Hne) as (cs & t1 & Hcs & Hc & Hfl).
    cbn [w_disk] in Hfl.
    pose proof (FInv_TInv c d bs cl F) as (HL & HB & HF & HR & Hlook & Hun & Hs & Hn).
    set (B := bs ++ batch) in *. set (n := N.of_nat (length bs)) in *.
    set (k := N.of_nat (length batch)).
    assert (HlenB : N.of_nat (length B) = n + k) by (unfold B, n, k; rewrite app_length; lia).
    set (cs0 := tree_changeset (c_tree c)) in *.
    assert (R0 : cs_roots cs0 = ref_roots cr B n).
    { unfold cs0, B. cbn [tree_changeset cs_roots]. rewrite HR. symmetry. apply ref_roots_app. unfold n. lia. }
    assert (L0 : cs_length cs0 = n) by exact HL.
    assert (Hblk : forall i, (i < length batch)%nat -> nth i batch [] = blk B (n + N.of_nat i))
      by (intros i Hi; apply batch_blk, Hi).
    assert (Hb64 : n + N.of_nat (length batch) <= 2 ^ 64).
    { fold k. rewrite <- HlenB. unfold NODE_SIZE, u64_max in Hidx. change (2 ^ 64) with 18446744073709551616. lia. }
    destruct (cs_append_all_shape cr B batch cs0 cs n R0 L0 Hblk Hb64 Hcs) as (new & Hnew & _ & Hall).
    assert (Hnodes : forall y, In y (cs_nodes (cs_hash_and_sign cr cs sk)) ->
                       exists j q, y = ref_node cr B j q /\ (q + 1) * p2 j <= N.of_nat (length B)).
    { intros y Hy. apply in_cs_nodes in Hy. unfold cs_hash_and_sign, cs_set_hash_sig in Hy. cbn [cs_rnodes] in Hy.
      rewrite Hnew in Hy. unfold cs0 in Hy. cbn [tree_changeset cs_rnodes] in Hy. rewrite app_nil_r in Hy.
      destruct (Hall y Hy) as (jj & q & -> & _ & Hq). exists jj, q. split; [reflexivity|]. rewrite HlenB. exact Hq. }
    assert (Hfull : forall y, In y (cs_nodes (cs_hash_and_sign cr cs sk)) -> fullref cr B (n_index y) y).
    { intros y Hy. destruct (Hnodes y Hy) as (jj & q & -> & Hq). exists jj, q.
      split; [apply ref_node_index|]. split; [exact Hq|reflexivity]. }
    pose proof (tree_commit_unflushed _ _ _ Hc) as Hu1.
    destruct (add_fullref cr Hnonblank (c_tree c) t1 (d_tree d) B _
                (SInv_app cr _ bs batch HS) (UInv_app cr _ bs batch HU) Hfull Hu1) as [_ HU1].
    assert (Hok1 : unflushed_ok t1).
    { apply (commit_unflushed_ok cr Hhash32 B (c_tree c) t1 (cs_nodes (cs_hash_and_sign cr cs sk)) Hfit); [|exact Hu1|exact Hun].
      intros y Hy. destruct (Hnodes y Hy) as (jj & q & -> & _). rewrite ref_node_index, ref_at_index. reflexivity. }
    apply (flush_rel_NInv t1 (d_tree d) _ _ B (SInv_app cr _ bs batch HS) HU1 Hok1 Hfl).
  Qed.

  Lemma NInv_clear f s e c d j evs bs cl c' w' x :
    FInv cr c d bs cl -> NInv cr c d bs ->
    core_clear cr f s e c (mkWorld d j evs) = (c', w', Ok x) ->
    NInv cr c' (w_disk w') bs.
  Proof.
    intros F [HS HU] H. pose proof (FInv_TInv c d bs cl F) as (_ & _ & _ & _ & _ & Hun & _).
    apply clear_effect in H. cbn [w_disk] in H.
    apply (flush_rel_NInv _ _ _ _ bs HS HU Hun H).
  Qed.

  (* the entries pending in the oplog carry full reference nodes *)
  Lemma gchain_nodes bs l : forall a b, gchain cr bs a l b -> b <= N.of_nat (length bs) ->
    forall e, In e l -> forall y, In y (e_nodes e) -> fullref cr bs (n_index y) y.
  Proof.
    induction l as [|e0 l IH]; intros a b G Hb e He y Hy; [destruct He|].
    cbn [gchain] in G. destruct G as [(m & Hd & G)|(Hc & G)].
    - destruct He as [<-|He]; [|apply (IH m b G Hb e He y Hy)].
      destruct Hd as (_ & _ & _ & Hsound & _). destruct (Hsound y Hy) as (jj & q & -> & Hq).
      pose proof (gchain_le cr bs l m b G). exists jj, q.
      split; [apply ref_node_index|]. split; [lia|reflexivity].
    - destruct He as [<-|He]; [|apply (IH a b G Hb e He y Hy)].
      destruct Hc as (s & k & -> & _). destruct Hy.
  Qed.

  Lemma replay_writer tf bs (l : list entry) : forall t b h,
    SInv cr tf bs -> UInv cr t bs ->
    (forall e, In e l -> forall y, In y (e_nodes e) -> fullref cr bs (n_index y) y) ->
    replay_vm cr tf (t, b, h) l /\
    forall t' b' h', replay_entries cr tf (t, b, h) l = Ok (t', b', h') -> UInv cr t' bs.
  Proof.
    induction l as [|e l IH]; intros t b h HS HU Hl; cbn [replay_vm replay_entries fst].
    - split; [exact I|]. intros t' b' h' E. injection E as <- _ _. exact HU.
    - assert (Hu1 : t_unflushed (fold_left tree_add_node (e_nodes e) t) = add_nodes (t_unflushed t) (e_nodes e))
        by (rewrite fold_add_node; reflexivity).
      destruct (add_fullref cr Hnonblank t _ tf bs (e_nodes e) HS HU (Hl e (or_introl eq_refl)) Hu1) as [Hv HU1].
      destruct (replay_entry cr tf (t, b, h) e) as [[[t1 b1] h1]|x|x|] eqn:E1; cbn [bind];
        [|split; [split; [exact Hv|exact I]|intros ? ? ? E; discriminate E]..].
      assert (HU2 : UInv cr t1 bs).
      { intros i y G. rewrite (replay_entry_unflushed cr tf t b h e t1 b1 h1 E1) in G. apply (HU1 i y G). }
      destruct (IH t1 b1 h1 HS HU2 (fun e' He' => Hl e' (or_intror He'))) as [A1 A2].
      split; [split; [exact Hv|exact A1]|exact A2].
  Qed.

  Lemma reopen_writer c d bs cl :
    FInv cr c d bs cl -> SInv cr (d_tree d) bs ->
    exists c', core_open cr None true d = (d, [], Ok c') /\ FInv cr c' d bs cl /\ c_keypair c' = c_keypair c /\
               open_vm cr None true d /\ UInv cr (c_tree c') bs.
  Proof.
    intros F HS. destruct (reopen_FInv cr Hcrc Hhash32 Hnonblank Hhashbytes c d bs cl F) as (c' & E & F' & K).
    exists c'. split; [exact E|]. split; [exact F'|]. split; [exact K|].
    destruct F as (W & s0 & s1 & body & st0 & st1 & hf & l & kf & Hcont & G & Hlen & Hbytes & Hhf & Hhc & Hch &
                   Hstore & Hbm & Hbnd & Hbex & Hrep & Hdirty).
    pose proof Hhf as (Hok & Hkp & Hfk & Hln & Hrh & Hsg).
    destruct (tree_open_ref cr Hnonblank bs (d_tree d) (hd_tree hf) kf Hstore Hln Hsg) as [sg0 Hto].
    set (t0 := mkTree (ref_roots cr bs kf) kf (prefix_size bs kf) (ht_fork (hd_tree hf)) sg0 nm_empty) in *.
    assert (HU0 : UInv cr t0 bs).
    { intros i y Gy. cbn [t0 t_unflushed] in Gy. rewrite nm_get_empty in Gy. discriminate Gy. }
    assert (Hnodes : forall e, In e l -> forall y, In y (e_nodes e) -> fullref cr bs (n_index y) y).
    { apply (gchain_nodes bs l kf _ Hch). lia. }
    destruct (replay_writer (d_tree d) bs l t0 (bf_open (d_bitfield d)) hf HS HU0 Hnodes) as [Hvm HU'].
    unfold open_vm. unfold core_open in E. cbv iota in E. rewrite Hcont in *.
    rewrite (good_open cr Hcrc _ _ _ _ _ _ _ _ G) in *.
    cbn [stable_result oo_ops oo_header oo_entries oo_oplog apply_sops] in *.
    rewrite Hto in *. cbn [bind] in E. split.
    - split; [|exact Hvm].
      intros i y Gy am. apply add_nodes_empty_get in Gy as [Hin Hi]. cbn [t0 t_roots] in Hin.
      pose proof (in_ref_roots cr bs y kf Hin) as Ey.
      assert (Hr : In i (ft_full_roots (2 * kf))).
      { rewrite <- (ref_roots_indices cr bs kf). rewrite <- Hi. apply in_map, Hin. }
      pose proof (lookups_full_roots cr bs tE (d_tree d) kf i Hstore Hr) as Rq.
      rewrite Ey, Hi. rewrite (node_get_unflushed_same tE t0 (d_tree d) i am eq_refl).
      apply required_node_get, Rq.
    - destruct (replay_entries cr (d_tree d) (t0, bf_open (d_bitfield d), hf) l) as [[[t1 b1] h1]|x|x|] eqn:Er;
        cbn [bind] in E; try discriminate E.
      injection E as <-. cbn [c_tree]. apply (HU' t1 b1 h1 eq_refl).
  Qed.

  Lemma TInv_vmono c d bs c' d' batch cl' :
    NInv cr c d bs -> FInv cr c' d' (bs ++ batch) cl' ->
    vmono (c_tree c) (d_tree d) (c_tree c') (d_tree d').
  Proof.
    intros [HS HU] F'. pose proof (FInv_TInv c' d' _ cl' F') as (_ & _ & _ & _ & Hlook & _).
    exact (vmono_writer cr _ _ _ _ bs batch HS HU Hlook).
  Qed.

  (* the writer keeps its nodes immutable along every history of the fragment *)
  Theorem writer_hist_vm (ops : list hop) : forall c d j evs bs cl sk,
    FInv cr c d bs cl -> NInv cr c d bs -> kp_secret (c_keypair c) = Some sk ->
    wf_w ops (N.of_nat (length bs)) ->
    sumN (map len (bs ++ happended ops)) <= u64_max ->
    NODE_SIZE * (2 * N.of_nat (length (bs ++ happended ops))) <= u64_max ->
    hist_vm cr ops c (mkWorld d j evs).
  Proof.
    induction ops as [|op ops IH]; intros c d j evs bs cl sk F NI Hsk Hwf Hfit Hidx; [exact I|].
    pose proof (FInv_CInv cr c d bs cl F) as W.
    destruct op as [f batch|f s e|i|i| |b h sk0 u|i|i|f pf| |];
      cbn [hist_vm step_vm hstep wf_w happended] in *.
    - (* append *)
      destruct (core_append cr f batch c (mkWorld d j evs)) as [[c' w'] r] eqn:E.
      rewrite app_assoc in Hfit, Hidx.
      assert (Hfit1 : sumN (map len (bs ++ batch)) <= u64_max).
      { rewrite map_app, TreeRef.sumN_app in Hfit. lia. }
      assert (Hidx1 : NODE_SIZE * (2 * N.of_nat (length (bs ++ batch))) <= u64_max).
      { rewrite (app_length (bs ++ batch)) in Hidx. unfold NODE_SIZE in *. lia. }
      destruct (append_FInv cr Hcrc Hhash32 Hnonblank Hhashbytes Hsig64 Hsigbytes
                            f batch c d j evs bs cl sk c' w' r F Hsk Hfit1 Hidx1 E)
        as [->|(-> & F' & K')].
      { cbn [dead negb]. split; [intros Ha; discriminate Ha|exact I]. }
      cbn [dead negb].
      pose proof (NInv_append f batch c d j evs bs cl sk c' w' _ F NI Hsk Hfit1 Hidx1 E) as NI'.
      destruct w' as [d' j' ev']. cbn [w_disk] in *.
      split; [intros _; apply (TInv_vmono c d bs c' d' batch _ NI F')|].
      rewrite <- K' in Hsk.
      apply (IH c' d' j' ev' (bs ++ batch) _ sk F' NI' Hsk); [|exact Hfit|exact Hidx].
      rewrite app_length, Nat2N.inj_add. exact Hwf.
    - (* clear *)
      destruct Hwf as [Hse Hwf].
      destruct (N.leb_spec e s) as [L|L].
      { rewrite (clear_noop cr f s e c _ L). cbn [dead negb w_disk].
        split; [intros _; apply vmono_refl|]. apply (IH c d j evs bs cl sk F NI Hsk Hwf Hfit Hidx). }
      destruct Hse as [Hse|[Hse He]]; [lia|].
      destruct (core_clear cr f s e c (mkWorld d j evs)) as [[c' w'] r] eqn:E.
      destruct (clear_FInv cr Hcrc Hhash32 Hnonblank Hhashbytes f c d j evs bs cl s e c' w' r F Hse L He E)
        as (-> & F' & K').
      pose proof (NInv_clear f s e c d j evs bs cl c' w' tt F NI E) as NI'.
      destruct w' as [d' j' ev']. cbn [w_disk dead negb] in *.
      assert (F'' : FInv cr c' d' (bs ++ []) (cl_clear cl s e)) by (rewrite app_nil_r; exact F').
      split; [intros _; apply (TInv_vmono c d bs c' d' [] _ NI F'')|].
      rewrite <- K' in Hsk. apply (IH c' d' j' ev' bs _ sk F' NI' Hsk Hwf Hfit Hidx).
    - (* get *)
      rewrite (get_correct_c cr c d bs cl j evs i W).
      destruct (held (N.of_nat (length bs)) cl i); cbn [dead negb w_disk];
        (split; [intros _; apply vmono_refl|]); apply (IH c d _ _ bs cl sk F NI Hsk Hwf Hfit Hidx).
    - split; [intros _; apply vmono_refl|]. apply (IH c d _ _ bs cl sk F NI Hsk Hwf Hfit Hidx).
    - split; [intros _; apply vmono_refl|]. apply (IH c d _ _ bs cl sk F NI Hsk Hwf Hfit Hidx).
    - (* create_proof *)
      destruct (core_create_proof b h sk0 u c (mkWorld d j evs)) as [[c' w'] r] eqn:E.
      destruct (core_create_proof_quiet b h sk0 u _ _ _ _ _ E) as (-> & Hd & Hj).
      destruct w' as [d' j' ev']. cbn [w_disk w_journal] in *. subst d' j'.
      split; [intros _; apply vmono_refl|].
      destruct (negb (dead r)); [|exact I]. apply (IH c d _ _ bs cl sk F NI Hsk Hwf Hfit Hidx).
    - (* missing_nodes *)
      destruct (core_missing_nodes i c (mkWorld d j evs)) as [[c' w'] r] eqn:E.
      destruct (proj1 (core_missing_nodes_quiet i) _ _ _ _ _ E) as (-> & Hd & Hj).
      destruct w' as [d' j' ev']. cbn [w_disk w_journal] in *. subst d' j'.
      split; [intros _; apply vmono_refl|].
      destruct (negb (dead r)); [|exact I]. apply (IH c d _ _ bs cl sk F NI Hsk Hwf Hfit Hidx).
    - destruct (core_missing_nodes_tree i c (mkWorld d j evs)) as [[c' w'] r] eqn:E.
      destruct (proj2 (core_missing_nodes_quiet i) _ _ _ _ _ E) as (-> & Hd & Hj).
      destruct w' as [d' j' ev']. cbn [w_disk w_journal] in *. subst d' j'.
      split; [intros _; apply vmono_refl|].
      destruct (negb (dead r)); [|exact I]. apply (IH c d _ _ bs cl sk F NI Hsk Hwf Hfit Hidx).
    - destruct Hwf.
    - destruct Hwf.
    - (* reopen *)
      destruct NI as [HS HU].
      destruct (reopen_writer c d bs cl F HS) as (c' & E & F' & K' & Hvm & HU').
      cbn [w_disk w_journal w_events]. rewrite E. cbn [rev app].
      split; [exact Hvm|]. rewrite <- K' in Hsk.
      apply (IH c' d j evs bs cl sk F' (conj HS HU') Hsk Hwf Hfit Hidx).
  Qed.

  (* ---------- C14 for the writer fragment ---------- *)

  (* Every history over {append, batch append, get, has, info, clear, create_proof, missing_nodes (both
     index kinds), close-and-reopen} of a writer, every forced or native flush decision, every eviction
     schedule, every cache that is valid at the start: the observations, the final core, the final disk,
     the storage journal and the events are exactly those of the core without the cache. *)
  Theorem writer_cache_transparent (ev : evo) (ops : list hop) c d j evs bs cl sk st :
    evictor ev ->
    FInv cr c d bs cl -> NInv cr c d bs -> kp_secret (c_keypair c) = Some sk ->
    cache_ok (k_cache st) (c_tree c) (d_tree d) ->
    wf_w ops (N.of_nat (length bs)) ->
    sumN (map len (bs ++ happended ops)) <= u64_max ->
    NODE_SIZE * (2 * N.of_nat (length (bs ++ happended ops))) <= u64_max ->
    snd (hrun_c cr ev ops st c (mkWorld d j evs)) = hrun cr ops c (mkWorld d j evs).
  Proof.
    intros Hev F NI Hsk Hok Hwf Hfit Hidx.
    apply (cache_transparent_history cr ev Hev ops st c (mkWorld d j evs) Hok).
    apply (writer_hist_vm ops c d j evs bs cl sk F NI Hsk Hwf Hfit Hidx).
  Qed.

  (* the invariants hold at creation *)
  Lemma NInv_init kp d0 ops0 c0 :
    keypair_ok kp = true ->
    core_open cr (Some kp) false disk_empty = (d0, ops0, Ok c0) -> NInv cr c0 d0 [].
  Proof.
    intros Hkp. pose proof (header_new_len kp Hkp) as Hlen.
    destruct (oplog_fresh_ok cr kp ltac:(lia)) as [buf Hf].
    unfold core_open. cbv iota.
    change (f_content (d_oplog disk_empty)) with (@nil N).
    rewrite (oplog_open_empty cr kp _ _ _ Hf). cbn [oo_ops oo_header oo_entries oo_oplog].
    cbn [apply_sops apply_sop]. cbn [d_set d_get d_tree d_data d_bitfield d_oplog disk_empty].
    cbn [header_new hd_tree].
    assert (T : tree_open (mkHeaderTree 0 0 [] []) file_empty = Ok (mkTree [] 0 0 0 None nm_empty))
      by reflexivity.
    rewrite T. cbn [bind replay_entries]. intros E. injection E as <- _ <-.
    split; cbn [d_tree c_tree].
    - split; [reflexivity|]. intros i data R _. unfold f_read in R. cbn [file_empty f_len] in R.
      destruct (N.leb_spec (NODE_SIZE * i + NODE_SIZE) 0); [unfold NODE_SIZE in *; lia|discriminate R].
    - intros i y G. cbn [t_unflushed] in G. rewrite nm_get_empty in G. discriminate G.
  Qed.

  (* from creation: a fresh writer, its cache empty *)
  Theorem fresh_writer_cache_transparent (ev : evo) kp sk (ops : list hop) :
    evictor ev ->
    keypair_ok kp = true -> kp_secret kp = Some sk ->
    wf_w ops 0 ->
    sumN (map len (happended ops)) <= u64_max ->
    NODE_SIZE * (2 * N.of_nat (length (happended ops))) <= u64_max ->
    exists d0 ops0 c0,
      core_open cr (Some kp) false disk_empty = (d0, ops0, Ok c0) /\
      snd (core_open_c cr ev (Some kp) false disk_empty 0) = (d0, ops0, Ok c0) /\
      forall st, (st = fst (core_open_c cr ev (Some kp) false disk_empty 0) \/ k_cache st = nm_empty) ->
        snd (hrun_c cr ev ops st c0 (mkWorld d0 [] [])) = hrun cr ops c0 (mkWorld d0 [] []).
  Proof.
    intros Hev Hkp Hsk Hwf Hfit Hidx.
    destruct (FInv_init cr Hcrc Hhash32 Hnonblank Hhashbytes kp Hkp) as (d0 & ops0 & c0 & Ho & F & K).
    pose proof (NInv_init kp d0 ops0 c0 Hkp Ho) as NI.
    exists d0, ops0, c0. split; [exact Ho|].
    assert (Hvm : open_vm cr (Some kp) false disk_empty).
    { pose proof (header_new_len kp Hkp) as Hlen.
      destruct (oplog_fresh_ok cr kp ltac:(lia)) as [buf Hf].
      unfold open_vm. change (f_content (d_oplog disk_empty)) with (@nil N).
      rewrite (oplog_open_empty cr kp _ _ _ Hf). cbn [oo_ops oo_header oo_entries oo_oplog].
      cbn [apply_sops apply_sop]. cbn [d_set d_get d_tree d_data d_bitfield d_oplog disk_empty header_new hd_tree].
      assert (T : tree_open (mkHeaderTree 0 0 [] []) file_empty = Ok (mkTree [] 0 0 0 None nm_empty))
        by reflexivity.
      rewrite T. split; [apply cache_ok_empty|exact I]. }
    destruct (core_open_sim cr ev Hev (Some kp) false disk_empty 0 Hvm) as [E1 E2].
    split; [rewrite E1; exact Ho|].
    intros st Hst.
    apply (writer_cache_transparent ev ops c0 d0 [] [] [] (fun _ => false) sk st Hev F NI);
      [rewrite K; exact Hsk| |exact Hwf|exact Hfit|exact Hidx].
    destruct Hst as [->|Hst]; [apply (E2 d0 ops0 c0 Ho)|rewrite Hst; apply cache_ok_empty].
  Qed.
End WriterHistory.

(* ====================================================================================== *)
(* 5. The cache after a history; eviction policies; examples; what must not be done         *)
(* ====================================================================================== *)

Section After.
  Variable cr : crypto.
  Variable ev : evo.
  Hypothesis Hev : evictor ev.

  (* no operation of the history ends the process *)
  Fixpoint hlive (ops : list hop) (c : core) (w : world) : bool :=
    match ops with
    | [] => true
    | op :: rest => let '(_, alive, c', w') := hstep cr op c w in alive && hlive rest c' w'
    end.

  (* the cache left by a history is valid for the final tree and tree store: every cache a run can
     produce satisfies the hypothesis of the theorems above *)
  Theorem cache_valid_after_history (ops : list hop) : forall st c w,
    valid st c w -> hist_vm cr ops c w -> hlive ops c w = true ->
    valid (fst (hrun_c cr ev ops st c w)) (snd (fst (snd (hrun_c cr ev ops st c w))))
          (snd (snd (hrun_c cr ev ops st c w))).
  Proof.
    induction ops as [|op ops IH]; intros st c w Hok Hvm Hl; cbn [hrun_c hist_vm hlive] in *; [exact Hok|].
    destruct Hvm as [Hs Hvm]. destruct (hstep_sim cr ev Hev op st c w Hok Hs) as [E1 E2].
    destruct (hstep_c cr ev op st c w) as [st' [[[o1 a1] c1] w1]]. cbn [fst snd] in *. rewrite <- E1 in *.
    destruct a1; [|discriminate Hl]. cbn [andb] in Hl.
    specialize (IH st' c1 w1 (E2 eq_refl) Hvm Hl).
    destruct (hrun_c cr ev ops st' c1 w1) as [st2 [[os c2] w2]]. exact IH.
  Qed.
End After.

(* ---------- the policies of CacheModel.v are eviction oracles ---------- *)

Lemma evictor_never : evictor ev_never.
Proof. intros k c i n H. exact H. Qed.

Lemma evictor_always : evictor ev_always.
Proof. intros k c i n H. unfold ev_always in H. rewrite nm_get_empty in H. discriminate H. Qed.

Lemma evictor_every k : evictor (ev_every k).
Proof.
  intros tick c i n H. unfold ev_every in H. destruct (Nat.eqb (Nat.modulo tick k) 0); [|exact H].
  rewrite nm_get_empty in H. discriminate H.
Qed.

Lemma evictor_capacity cap : evictor (ev_capacity cap).
Proof.
  intros tick c. unfold ev_capacity. generalize (nm_elements c) as l.
  assert (G : forall (l : list (N * node)) (m : nmap node), submap m c ->
            submap (fold_left (fun m kv => if Nat.ltb cap (length (nm_elements m)) then nm_del (fst kv) m else m) l m) c).
  { induction l as [|kv l IH]; intros m Hm; [exact Hm|]. cbn [fold_left]. apply IH.
    destruct (Nat.ltb cap (length (nm_elements m))); [|exact Hm].
    intros i n H. rewrite nm_get_del in H. destruct (i =? fst kv); [discriminate H|apply Hm, H]. }
  intros l. apply G. intros i n H. exact H.
Qed.

(* ---------- the writer, toy instance ---------- *)

(* appends with and without flush, reads, clears, proofs with block / hash / seek / upgrade sections,
   missing-node counts, two reopens (one with entries pending in the oplog) *)
Definition toy_hops : list hop :=
  [HAppend (Some false) [[1; 2; 3]; []; [4]; [5; 6]]; HGet 0; HGet 3; HMissing 1; HClear (Some true) 1 3;
   HGet 3; HGet 2; HCreateProof (Some (mkReqBlock 3 0)) None None (Some (mkReqUpgrade 0 4));
   HAppend (Some true) [[7]]; HGet 4; HGet 0; HReopen; HGet 0; HGet 4; HInfo; HHas 1;
   HAppend (Some false) [[8]; [9]]; HReopen; HGet 5; HGet 6; HMissingTree 3;
   HCreateProof None (Some (mkReqBlock 5 0)) (Some (mkReqSeek 3)) None;
   HCreateProof (Some (mkReqBlock 6 1)) None None (Some (mkReqUpgrade 2 5)); HClear None 0 1; HGet 0; HGet 6].

Definition st_empty : cst := mkCst nm_empty 0 0.

(* (a) no cache, (b) a cache that never evicts, (c) a cache emptied before every lookup, (d) a capacity of
   two nodes, (e) a cache emptied at every third lookup: the same observations, final core, disk,
   journal and events; the cache is really used in (b), (d), (e) (hits) and never in (c) *)
Example toy_writer_runs :
  match core_open toy_cr (Some toy_keypair) false disk_empty with
  | (d0, _, Ok c0) =>
      let w0 := mkWorld d0 [] [] in
      let a := hrun toy_cr toy_hops c0 w0 in
      let b := hrun_c toy_cr ev_never toy_hops st_empty c0 w0 in
      let c := hrun_c toy_cr ev_always toy_hops st_empty c0 w0 in
      let d := hrun_c toy_cr (ev_capacity 2) toy_hops st_empty c0 w0 in
      let e := hrun_c toy_cr (ev_every 3) toy_hops st_empty c0 w0 in
      snd b = a /\ snd c = a /\ snd d = a /\ snd e = a /\
      length (fst (fst a)) = 26%nat /\ hlive toy_cr toy_hops c0 w0 = true /\
      (0 < k_hits (fst b))%nat /\ k_hits (fst c) = 0%nat /\ (0 < k_hits (fst d))%nat /\ (0 < k_hits (fst e))%nat /\
      k_tick (fst b) = k_tick (fst c)
  | _ => False
  end.
Proof. vm_compute. repeat split; try reflexivity; lia. Qed.

(* what the runs observe: every read returns the block, the cleared ones return None *)
Example toy_writer_observations :
  match core_open toy_cr (Some toy_keypair) false disk_empty with
  | (d0, _, Ok c0) =>
      map (fun o => match o with HOProof (Ok (Some _)) => HOHas true | o => o end)
          (fst (fst (snd (hrun_c toy_cr (ev_capacity 2) toy_hops st_empty c0 (mkWorld d0 [] []))))) =
      [HOAppend (Ok (4, 6)); HOGet (Ok (Some [1; 2; 3])); HOGet (Ok (Some [5; 6])); HOMissing (Ok 0);
       HOClear (Ok tt); HOGet (Ok (Some [5; 6])); HOGet (Ok None); HOHas true;
       HOAppend (Ok (5, 7)); HOGet (Ok (Some [7])); HOGet (Ok (Some [1; 2; 3])); HOReopen (Ok tt);
       HOGet (Ok (Some [1; 2; 3])); HOGet (Ok (Some [7]));
       HOInfo (mkInfo 5 7 1 0 true); HOHas false;
       HOAppend (Ok (7, 9)); HOReopen (Ok tt); HOGet (Ok (Some [8])); HOGet (Ok (Some [9])); HOMissing (Ok 0);
       HOHas true; HOHas true; HOClear (Ok tt); HOGet (Ok None); HOGet (Ok (Some [9]))]
  | _ => False
  end.
Proof. vm_compute. reflexivity. Qed.

(* the instance of the theorem for the toy crypto: every history of the fragment, every oracle *)
Example toy_instance_cache (ev : evo) ops sk :
  evictor ev -> kp_secret toy_keypair = Some sk -> wf_w ops 0 ->
  sumN (map len (happended ops)) <= u64_max ->
  NODE_SIZE * (2 * N.of_nat (length (happended ops))) <= u64_max ->
  exists d0 ops0 c0,
    core_open toy_cr (Some toy_keypair) false disk_empty = (d0, ops0, Ok c0) /\
    snd (hrun_c toy_cr ev ops st_empty c0 (mkWorld d0 [] [])) = hrun toy_cr ops c0 (mkWorld d0 [] []).
Proof.
  intros Hev Hsk Hwf Hfit Hidx.
  destruct (fresh_writer_cache_transparent toy_cr toy_crc_ok' toy_hash32 toy_nonblank toy_hashbytes
              toy_sig64 toy_sigbytes ev toy_keypair sk ops Hev eq_refl Hsk Hwf Hfit Hidx)
    as (d0 & ops0 & c0 & Ho & _ & H).
  exists d0, ops0, c0. split; [exact Ho|]. apply H. right. reflexivity.
Qed.

(* the hypotheses of writer_cache_transparent are met by a non-trivial state and a non-empty cache: after
   the toy history the invariants hold, and the cache that the run has left holds nodes and is valid *)
Example toy_writer_hypotheses :
  exists d0 ops0 c0 os c1 w1 st1,
    core_open toy_cr (Some toy_keypair) false disk_empty = (d0, ops0, Ok c0) /\
    hrun_c toy_cr ev_never (firstn 11 toy_hops) st_empty c0 (mkWorld d0 [] []) = (st1, (os, c1, w1)) /\
    cache_ok (k_cache st1) (c_tree c1) (d_tree (w_disk w1)) /\
    (2 <= length (nm_elements (k_cache st1)))%nat /\
    t_length (c_tree c1) = 5 /\
    hist_vm toy_cr (firstn 11 toy_hops) c0 (mkWorld d0 [] []).
Proof.
  destruct (FInv_init toy_cr toy_crc_ok' toy_hash32 toy_nonblank toy_hashbytes toy_keypair eq_refl)
    as (d0 & ops0 & c0 & Ho & F & K).
  pose proof (NInv_init toy_cr toy_hash32 toy_nonblank toy_hashbytes toy_sig64 toy_sigbytes toy_keypair d0 ops0 c0 eq_refl Ho) as NI.
  assert (Hvm : hist_vm toy_cr (firstn 11 toy_hops) c0 (mkWorld d0 [] [])).
  { apply (writer_hist_vm toy_cr toy_crc_ok' toy_hash32 toy_nonblank toy_hashbytes toy_sig64 toy_sigbytes
             _ c0 d0 [] [] [] (fun _ => false) (repeat 2 32%nat) F NI); [rewrite K; reflexivity| | |].
    - cbn [firstn toy_hops wf_w length]. unfold u64_max. lia.
    - vm_compute. discriminate.
    - vm_compute. discriminate. }
  assert (Hok : valid st_empty c0 (mkWorld d0 [] [])) by apply cache_ok_empty.
  pose proof (cache_valid_after_history toy_cr ev_never evictor_never (firstn 11 toy_hops) st_empty c0
                (mkWorld d0 [] []) Hok Hvm) as Hval.
  destruct (hrun_c toy_cr ev_never (firstn 11 toy_hops) st_empty c0 (mkWorld d0 [] [])) as [st1 [[os c1] w1]] eqn:E.
  cbn [fst snd] in Hval.
  exists d0, ops0, c0, os, c1, w1, st1. split; [exact Ho|]. split; [exact E|].
  pose proof Ho as Ho'. vm_compute in Ho'. injection Ho' as <- <- <-.
  vm_compute in E. injection E as <- <- <- <-.
  split; [apply Hval; vm_compute; reflexivity|]. split; [vm_compute; lia|]. split; [reflexivity|exact Hvm].
Qed.

(* ---------- a replica applying proofs, toy instance (the sum-based toy hash of CoreFacts.v) ---------- *)

Definition tcr : crypto := CoreFacts.toy_crypto.

(* a writer appends four blocks and creates proofs: block 3 with an upgrade to length 4, block 0 with
   one node, block 1, the hash of block 2 *)
Definition toy_writer_obs : list hobs :=
  match core_open tcr (Some CoreFacts.toy_kp) false disk_empty with
  | (d0, _, Ok c0) =>
      fst (fst (hrun tcr [HAppend (Some true) [[1; 2; 3]; [4]; []; [5; 6]];
                          HCreateProof (Some (mkReqBlock 3 0)) None None (Some (mkReqUpgrade 0 4));
                          HCreateProof (Some (mkReqBlock 0 1)) None None None;
                          HCreateProof (Some (mkReqBlock 1 0)) None None None;
                          HCreateProof None (Some (mkReqBlock 2 0)) None None] c0 (mkWorld d0 [] [])))
  | _ => []
  end.

Definition toy_pf (k : nat) : proof :=
  match nth k toy_writer_obs (HOHas false) with
  | HOProof (Ok (Some p)) => p
  | _ => mkProof 0 None None None None
  end.

(* the replica: proofs applied with and without flush, missing-node counts BEFORE the nodes arrive
   (lookups that miss), reads, reopens with entries pending, a proof it creates itself *)
Definition toy_rops : list hop :=
  [HApplyProof (Some false) (toy_pf 1); HMissing 0; HMissing 1; HMissingTree 1; HGet 3; HGet 0; HInfo;
   HApplyProof (Some true) (toy_pf 2); HGet 0; HMissing 0; HMissing 1; HReopen; HGet 0; HGet 3;
   HApplyProof None (toy_pf 3); HGet 1; HMissing 2;
   HCreateProof (Some (mkReqBlock 3 0)) None None None; HReopen; HGet 1; HGet 3; HHas 2;
   HApplyProof None (toy_pf 4); HMissing 2; HReopen; HGet 2; HGet 3].

Example toy_replica_runs :
  match core_open tcr (Some (mkKeypair (repeat 1 32) None)) false disk_empty with
  | (d0, _, Ok c0) =>
      let w0 := mkWorld d0 [] [] in
      let a := hrun tcr toy_rops c0 w0 in
      let b := hrun_c tcr ev_never toy_rops st_empty c0 w0 in
      let c := hrun_c tcr ev_always toy_rops st_empty c0 w0 in
      let d := hrun_c tcr (ev_capacity 2) toy_rops st_empty c0 w0 in
      snd b = a /\ snd c = a /\ snd d = a /\
      (0 < k_hits (fst b))%nat /\ k_hits (fst c) = 0%nat /\ (0 < k_hits (fst d))%nat /\
      map (fun o => match o with HOProof (Ok (Some _)) => HOHas true | o => o end) (fst (fst a)) =
      [HOApply (Ok true); HOMissing (Ok 1); HOMissing (Ok 1); HOMissing (Ok 0); HOGet (Ok (Some [5; 6]));
       HOGet (Ok None); HOInfo (mkInfo 4 6 0 0 false);
       HOApply (Ok true); HOGet (Ok (Some [1; 2; 3])); HOMissing (Ok 0); HOMissing (Ok 0); HOReopen (Ok tt);
       HOGet (Ok (Some [1; 2; 3])); HOGet (Ok (Some [5; 6]));
       HOApply (Ok true); HOGet (Ok (Some [4])); HOMissing (Ok 0); HOHas true; HOReopen (Ok tt);
       HOGet (Ok (Some [4])); HOGet (Ok (Some [5; 6])); HOHas false;
       HOApply (Ok true); HOMissing (Ok 0); HOReopen (Ok tt); HOGet (Ok None); HOGet (Ok (Some [5; 6]))]
  | _ => False
  end.
Proof. vm_compute. repeat split; try reflexivity; lia. Qed.

(* ---------- a miss must never be cached ---------- *)

(* The crate's rule (`if !node.blank` in infos_to_nodes, nothing inserted for info.miss) and node_get_c
   insert only nodes that were found. A cache that remembered "index 0 is missing" breaks at once: the
   replica above counts the missing nodes of block 0 (a lookup of tree index 0 that misses), then the
   proof of block 0 arrives and the node exists; the miss-remembering lookup still says "missing", the
   real lookup finds the node. The mutation in between is perfectly immutable in the sense of vmono
   (nothing that was visible changed): immutability protects found nodes, not misses. *)
Example caching_a_miss_breaks_transparency :
  match core_open tcr (Some (mkKeypair (repeat 1 32) None)) false disk_empty with
  | (d0, _, Ok c0) =>
      let '(_, ca, wa) := hrun tcr (firstn 1 toy_rops) c0 (mkWorld d0 [] []) in
      let '(_, cb, wb) := hrun tcr (firstn 8 toy_rops) c0 (mkWorld d0 [] []) in
      let '(cache1, r1) := node_get_misscache nm_empty (c_tree ca) (d_tree (w_disk wa)) 0 true in
      r1 = Ok None /\ nm_get 0 cache1 = Some None /\
      (exists n0, node_get (c_tree cb) (d_tree (w_disk wb)) 0 false = Ok (Some n0)) /\
      snd (node_get_misscache cache1 (c_tree cb) (d_tree (w_disk wb)) 0 false) = Err InvalidOperation /\
      (* the model's lookup never leaves anything in the cache for that miss *)
      nm_get 0 (k_cache (fst (node_get_c ev_never (c_tree ca) (d_tree (w_disk wa)) 0 true st_empty))) = None
  | _ => False
  end.
Proof. vm_compute. repeat split; try reflexivity. eexists. reflexivity. Qed.

(* in general: what the cached lookup inserts is a node that the lookup found, never a miss *)
Lemma node_get_c_inserts_found ev t tf i am st j n :
  nm_get j (k_cache (fst (node_get_c ev t tf i am st))) = Some n ->
  nm_get j (ev (k_tick st) (k_cache st)) = Some n \/ (j = i /\ node_get t tf i am = Ok (Some n)).
Proof.
  unfold node_get_c. destruct (nm_get i (ev (k_tick st) (k_cache st))) as [m|] eqn:E; cbn [fst k_cache].
  - intros H. left. exact H.
  - destruct (nm_get i (t_unflushed t)); [intros H; left; exact H|].
    destruct (node_get t tf i am) as [[m|]| | |]; try (intros H; left; exact H).
    rewrite nm_get_set. destruct (N.eqb_spec j i) as [->|Hne]; intros H; [|left; exact H].
    injection H as <-. right. split; reflexivity.
Qed.

(* ---------- MerkleTree::open inserts the roots without the blank test ---------- *)

(* Requested: "every history is cache-transparent". REFUTED for a store that holds a blank (all-zero) record
   where the header says a root is: to_node_cache(roots.clone()) inserts the blank root, MerkleTree::node
   returns a cache hit without looking at node.blank, and the read of block 0 that fails without the cache
   (InvalidOperation: "Could not load node") SUCCEEDS with it, returning an EMPTY block. The writer never
   produces such a store (its roots are non-blank reference nodes: reopen_writer); a damaged or zero-filled
   tree file does. This is why open_vm asks that the inserted roots are visible. *)
Definition blank_root_disk : option (core * disk) :=
  match core_open toy_cr (Some toy_keypair) false disk_empty with
  | (d0, _, Ok c0) =>
      let '(_, c1, w1) := hrun toy_cr [HAppend (Some true) [[1; 2; 3]]] c0 (mkWorld d0 [] []) in
      Some (c1, d_set (w_disk w1) Tree (f_write (d_tree (w_disk w1)) 0 (zeros 40)))
  | _ => None
  end.

Example open_caches_blank_root_refuted :
  match blank_root_disk with
  | Some (c1, d) =>
      fst (fst (hrun toy_cr [HReopen; HGet 0] c1 (mkWorld d [] []))) =
        [HOReopen (Ok tt); HOGet (Err InvalidOperation)] /\
      fst (fst (snd (hrun_c toy_cr ev_never [HReopen; HGet 0] st_empty c1 (mkWorld d [] [])))) =
        [HOReopen (Ok tt); HOGet (Ok (Some []))] /\
      ~ hist_vm toy_cr [HReopen; HGet 0] c1 (mkWorld d [] [])
  | None => False
  end.
Proof.
  destruct blank_root_disk as [[c1 d]|] eqn:E; [|vm_compute in E; discriminate E].
  vm_compute in E. injection E as <- <-.
  split; [vm_compute; reflexivity|]. split; [vm_compute; reflexivity|].
  intros Hvm.
  match type of Hvm with hist_vm _ _ ?c ?w =>
    pose proof (cache_transparent_history toy_cr ev_never evictor_never [HReopen; HGet 0] st_empty c w
                  (cache_ok_empty _ _) Hvm) as T
  end.
  apply (f_equal (fun x => fst (fst x))) in T. vm_compute in T. discriminate T.
Qed.

(* ====================================================================================== *)
(* 6. The replica condition: when does applying a proof keep nodes immutable?               *)
(* ====================================================================================== *)

(* a node that can be written as a 40-byte record and looked up again *)
Definition node_wf (x : node) : Prop :=
  length (n_hash x) = 32%nat /\ n_length x <= u64_max /\ NODE_SIZE * n_index x <= u64_max.

(* every unflushed node is stored under its own index and is such a node *)
Definition flushable (t : mtree) : Prop :=
  forall i x, nm_get i (t_unflushed t) = Some x -> n_index x = i /\ node_wf x.

Lemma flushable_ok t : flushable t -> unflushed_ok t.
Proof. intros H i x G. destruct (H i x G) as (A & B & C & _). repeat split; assumption. Qed.

(* a commit is immutable exactly when no added node contradicts a visible one *)
Lemma commit_vmono t tf cs t' :
  tree_commit t cs = Ok t' ->
  (forall x, In x (cs_nodes cs) -> node_blank x = false /\
             forall am n, node_get t tf (n_index x) am = Ok (Some n) -> n = x) ->
  vmono t tf t' tf.
Proof.
  intros Hc Hag i am n G. apply tree_commit_unflushed in Hc.
  destruct (add_nodes_get (cs_nodes cs) (t_unflushed t) i) as [(x & Hin & Hi & Hg)|[_ Hg]].
  - destruct (Hag x Hin) as [Hb Heq]. rewrite Hi in Heq. rewrite (Heq am n G).
    unfold node_get. rewrite Hc, Hg, Hb. reflexivity.
  - rewrite <- G. apply node_get_unflushed_eq. rewrite Hc. exact Hg.
Qed.

Lemma commit_flushable t cs t' :
  tree_commit t cs = Ok t' -> flushable t -> (forall x, In x (cs_nodes cs) -> node_wf x) -> flushable t'.
Proof.
  intros Hc Hf Hw i x G. apply tree_commit_unflushed in Hc. rewrite Hc in G.
  destruct (add_nodes_get (cs_nodes cs) (t_unflushed t) i) as [(y & Hin & Hi & Hg)|[_ Hg]]; rewrite Hg in G.
  - injection G as <-. split; [exact Hi|apply Hw, Hin].
  - apply (Hf i x G).
Qed.

(* a flush of well-formed unflushed nodes is always immutable *)
Lemma flush_vmono t t' tops d1 d2 :
  flushable t -> tree_flush t = Ok (t', tops) -> apply_sops d1 tops = Some d2 ->
  vmono t (d_tree d1) t' (d_tree d2).
Proof.
  intros Hf Hfl Ha i am n G.
  assert (Hfit : NODE_SIZE * i <= u64_max).
  { unfold node_get in G. destruct (nm_get i (t_unflushed t)) as [x|] eqn:E.
    - destruct (Hf i x E) as (Hi & _ & _ & Hb). rewrite <- Hi. exact Hb.
    - unfold mul64 in G. destruct (fits_u64 (NODE_SIZE * i)) eqn:F; [|discriminate G]. unfold fits_u64 in F. lia. }
  assert (Hr : required_node t (d_tree d1) i = Ok n).
  { unfold required_node. rewrite (node_get_found_any_mode _ _ _ _ _ G false). reflexivity. }
  apply required_node_get.
  (* tree_flush_preserves_lookups needs no assumption on the hash function *)
  unfold tree_flush in Hfl.
  destruct (forallb _ _) eqn:Fb; [|discriminate Hfl]. injection Hfl as <- <-.
  pose proof (flushable_ok t Hf) as Hok.
  set (ws := map snd (nm_elements (t_unflushed t))) in *.
  assert (Hws : forall v, In v ws -> nm_get (n_index v) (t_unflushed t) = Some v).
  { intros v Hv. apply in_map_iff in Hv as ([k v'] & E & Hv). cbn [snd] in E. subst v'.
    apply nm_elements_in in Hv. destruct (Hok k v Hv) as (-> & _). exact Hv. }
  assert (H32 : forall v, In v ws -> length (n_hash v) = 32%nat).
  { intros v Hv. apply Hws in Hv. apply Hok in Hv. tauto. }
  assert (Etops : map (fun kv : N * node => SW Tree (NODE_SIZE * n_index (snd kv)) (node_to_bytes (snd kv)))
                      (nm_elements (t_unflushed t)) = map node_write ws).
  { unfold ws. rewrite map_map. reflexivity. }
  rewrite Etops, apply_node_writes in Ha. injection Ha as <-. cbn [d_set d_tree].
  unfold required_node, node_get in *. cbn [t_unflushed]. rewrite nm_get_empty.
  unfold mul64 in *. assert (fits_u64 (NODE_SIZE * i) = true) as Ef by (unfold fits_u64; lia).
  rewrite Ef in *. cbn [bind] in *.
  destruct (nm_get i (t_unflushed t)) as [n0|] eqn:Gi.
  - destruct (node_blank n0) eqn:Bl; [discriminate Hr|]. cbn [bind] in Hr. injection Hr as <-.
    destruct (Hok i n0 Gi) as (Hi & Hh & Hl).
    destruct (write_nodes_read ws (d_tree d1) i H32) as [(v & Hin & Hk & Hrd)|[Hno _]].
    + apply Hws in Hin. rewrite Hk, Gi in Hin. injection Hin as <-. rewrite Hrd.
      rewrite <- Hi. rewrite node_bytes_roundtrip; [|rewrite Hh; reflexivity|unfold u64_max in Hl; lia].
      rewrite Bl. reflexivity.
    + exfalso. apply (Hno n0); [|exact Hi].
      apply in_map_iff. exists (i, n0). split; [reflexivity|]. apply nm_elements_in, Gi.
  - destruct (f_read (d_tree d1) (NODE_SIZE * i) NODE_SIZE) as [data|] eqn:R; [|discriminate Hr].
    destruct (write_nodes_read ws (d_tree d1) i H32) as [(v & Hin & Hk & _)|[_ Hrd]].
    + apply Hws in Hin. rewrite Hk, Gi in Hin. discriminate Hin.
    + rewrite Hrd, R; [exact Hr|]. apply f_read_spec in R. tauto.
Qed.


Section EffectsAny.
  Variable cr : crypto.

  Lemma emit_keep_tree ops c w c' w' r :
    emit ops c w = (c', w', r) -> (forall o, In o ops -> sop_store o <> Tree) ->
    c' = c /\ d_tree (w_disk w') = d_tree (w_disk w).
  Proof.
    intros H Hs. assert (K : tkeep (emit ops)) by (apply tkeep_emit, Forall_forall, Hs).
    pose proof H as H'. apply emit_inv in H'. destruct H' as (-> & _). split; [reflexivity|]. apply (K _ _ _ _ _ H).
  Qed.

  Lemma tree_flush_tops t t' tops : tree_flush t = Ok (t', tops) -> Forall no_del tops.
  Proof.
    unfold tree_flush. destruct (forallb _ _); [|discriminate]. intros H. injection H as _ <-.
    apply Forall_forall. intros o Ho. apply in_map_iff in Ho as (p & <- & _). exact I.
  Qed.

  Lemma oplog_flush_ops o h ct o' oops :
    oplog_flush cr o h ct = Ok (o', oops) -> forall x, In x oops -> sop_store x <> Tree.
  Proof.
    unfold oplog_flush. intros OF. destruct ct.
    - apply bind_ok in OF. destruct OF as ([bits1 ops1] & IH1 & OF).
      apply bind_ok in OF. destruct OF as ([bits2 ops2] & IH2 & OF). injection OF as _ <-.
      apply insert_header_shape in IH1. destruct IH1 as (slot1 & hb1 & -> & _).
      apply insert_header_shape in IH2. destruct IH2 as (slot2 & hb2 & -> & _).
      intros x [<-|[<-|[<-|[<-|[]]]]]; cbn [sop_store]; discriminate.
    - apply bind_ok in OF. destruct OF as ([bits1 ops1] & IH & OF).
      injection OF as _ <-. apply insert_header_shape in IH. destruct IH as (slot & hb & -> & _).
      intros x [<-|[<-|[]]]; cbn [sop_store]; discriminate.
  Qed.

  Lemma flush_all_tree_any ct c w c' w' r :
    flush_all cr ct c w = (c', w', r) ->
    flush_rel (c_tree c) (d_tree (w_disk w)) (c_tree c') (d_tree (w_disk w')).
  Proof.
    unfold flush_all. rewrite mbind_get_core. intros H.
    destruct (bf_flush (c_bitfield c)) as [b' pops] eqn:BF.
    assert (Hpops : forall o, In o pops -> sop_store o <> Tree).
    { unfold bf_flush in BF. injection BF as _ <-. intros o Ho. apply in_map_iff in Ho as (p & <- & _).
      cbn [sop_store]. discriminate. }
    rewrite mbind_put_bitfield in H.
    mstep_as H Hm1; apply (fun E => emit_keep_tree _ _ _ _ _ _ E Hpops) in Hm1; destruct Hm1 as [-> D1];
      try (left; split; [reflexivity|exact D1]).
    cbn [c_tree] in *. rewrite mbind_lift in H.
    destruct (tree_flush (c_tree c)) as [[t' tops]|e|s|] eqn:TF;
      try (injection H as <- <- _; left; split; [reflexivity|exact D1]).
    rewrite mbind_put_tree in H.
    match type of H with mbind (emit ?ops) ?f ?c1 ?w1 = _ =>
      destruct (emit_total ops c1 w1 (tree_flush_tops _ _ _ TF)) as (d2 & A2 & E2);
        rewrite (mbind_eq _ f _ _ _ _ _ E2) in H
    end.
    assert (R : flush_rel (c_tree c) (d_tree (w_disk w)) t' (d_tree d2)).
    { right. exists tops, (w_disk w0), d2. split; [exact TF|]. split; [exact D1|]. split; [exact A2|reflexivity]. }
    rewrite mbind_get_core, mbind_lift in H. cbn [c_oplog c_header] in H.
    destruct (oplog_flush cr (c_oplog c) (c_header c) ct) as [[o' oops]|e|s|] eqn:OF;
      try (injection H as <- <- _; exact R).
    rewrite mbind_put_oplog in H.
    apply (fun E => emit_keep_tree _ _ _ _ _ _ E (oplog_flush_ops _ _ _ _ _ OF)) in H.
    destruct H as [-> D3]. cbn [c_tree w_disk] in *. rewrite D3. exact R.
  Qed.

  Lemma maybe_flush_tree_any f c w c' w' r :
    maybe_flush cr f c w = (c', w', r) ->
    flush_rel (c_tree c) (d_tree (w_disk w)) (c_tree c') (d_tree (w_disk w')).
  Proof.
    unfold maybe_flush. rewrite mbind_get_core. intros H.
    match type of H with (if ?b then _ else _) _ _ = _ => destruct b end.
    - rewrite mbind_put_skip in H. apply flush_all_tree_any in H. exact H.
    - prim_inv H. left. split; reflexivity.
  Qed.

  Lemma log_and_commit_tree_any cs bu c w c' w' r :
    log_and_commit cr cs bu c w = (c', w', r) ->
    d_tree (w_disk w') = d_tree (w_disk w) /\
    (c_tree c' = c_tree c \/ tree_commit (c_tree c) cs = Ok (c_tree c')).
  Proof.
    unfold log_and_commit. rewrite mbind_get_core, mbind_lift. intros H.
    destruct (entry_of_changeset cs bu (c_header c)) as [[e h']|x|x|];
      try (injection H as <- <- _; split; [reflexivity|left; reflexivity]).
    rewrite mbind_lift in H.
    destruct (oplog_append cr (c_oplog c) e) as [[o' ops]|x|x|] eqn:OA;
      try (injection H as <- <- _; split; [reflexivity|left; reflexivity]).
    apply oplog_append_shape in OA. destruct OA as (fr & ->).
    rewrite mbind_put_oplog in H.
    assert (Hops : forall o, In o [SW Oplog (ENTRIES_OFFSET + ol_entries_bytes (c_oplog c)) fr] -> sop_store o <> Tree).
    { intros o [<-|[]]. cbn [sop_store]. discriminate. }
    mstep_as H Hm1; apply (fun E => emit_keep_tree _ _ _ _ _ _ E Hops) in Hm1; destruct Hm1 as [-> D1];
      try (split; [exact D1|left; reflexivity]).
    rewrite mbind_put_header in H.
    mstep_as H Hm2;
      (match type of Hm2 with ?m _ _ = _ => assert (Tk : tkeep m) end;
       [destruct bu as [ub|]; [|apply tkeep_ret];
        apply tkeep_bind; [apply tkeep_get_core|intros c1];
        apply tkeep_bind; [apply tkeep_put_bitfield|intros _; apply tkeep_put_header]|]);
      apply Tk in Hm2; destruct Hm2 as [T2 D2]; cbn [c_tree w_disk] in T2, D2;
      try (split; [congruence|left; exact T2]).
    rewrite mbind_get_core, mbind_lift in H.
    destruct (tree_commit (c_tree c0) cs) as [t'|x|x|] eqn:TC;
      try (injection H as <- <- _; split; [congruence|left; exact T2]).
    prim_inv H. cbn [c_tree w_disk]. split; [congruence|]. right. rewrite <- T2. exact TC.
  Qed.

  Lemma apply_proof_effect_any f pf c w c' w' r :
    core_apply_proof cr f pf c w = (c', w', r) ->
    (c_tree c' = c_tree c /\ d_tree (w_disk w') = d_tree (w_disk w)) \/
    exists cs t1,
      verify_proof cr (c_tree c) (d_tree (w_disk w)) pf (kp_public (c_keypair c)) = Ok cs /\
      (t1 = c_tree c \/ tree_commit (c_tree c) cs = Ok t1) /\
      flush_rel t1 (d_tree (w_disk w)) (c_tree c') (d_tree (w_disk w')).
  Proof.
    unfold core_apply_proof. rewrite mbind_get_core. intros H.
    destruct (negb (p_fork pf =? t_fork (c_tree c))); [prim_inv H; left; split; reflexivity|].
    rewrite mbind_get_disk, mbind_lift in H.
    destruct (verify_proof cr (c_tree c) (d_tree (w_disk w)) pf (kp_public (c_keypair c))) as [cs|x|x|] eqn:V;
      try (injection H as <- <- _; left; split; reflexivity).
    destruct (negb (commitable (c_tree c) cs)); [prim_inv H; left; split; reflexivity|].
    mstep_as H Hm1;
      (match type of Hm1 with ?m _ _ = _ => assert (Tk : tkeep m) end;
       [destruct (p_block pf) as [b|]; [|apply tkeep_ret];
        apply tkeep_bind; [apply tkeep_lift|intros off];
        apply tkeep_bind; [apply tkeep_emit; repeat constructor; discriminate|intros _; apply tkeep_ret]|]);
      apply Tk in Hm1; destruct Hm1 as [T1 D1]; try (left; split; assumption).
    right. exists cs.
    mstep_as H Hm2; apply log_and_commit_tree_any in Hm2; destruct Hm2 as [D2 T2]; rewrite T1 in T2.
    2-4: exists (c_tree c1); split; [reflexivity|]; split;
         [destruct T2 as [T2|T2]; [left; exact T2|right; exact T2]|left; split; [reflexivity|congruence]].
    exists (c_tree c1). split; [reflexivity|]. split; [destruct T2 as [T2|T2]; [left; exact T2|right; exact T2]|].
    assert (R : forall c2 w2, flush_rel (c_tree c1) (d_tree (w_disk w1)) (c_tree c2) (d_tree (w_disk w2)) ->
                flush_rel (c_tree c1) (d_tree (w_disk w)) (c_tree c2) (d_tree (w_disk w2))).
    { intros c2 w2 R. rewrite D2, D1 in R. exact R. }
    mstep_as H Hm3; apply maybe_flush_tree_any in Hm3; try (apply R; exact Hm3).
    assert (Tk2 : forall m : M bool, tkeep m -> flush_rel (c_tree c1) (d_tree (w_disk w)) (c_tree c2) (d_tree (w_disk w2)) ->
                 m c2 w2 = (c', w', r) -> flush_rel (c_tree c1) (d_tree (w_disk w)) (c_tree c') (d_tree (w_disk w'))).
    { intros m Hk R2 E. apply Hk in E. destruct E as [-> ->]. exact R2. }
    refine (Tk2 _ _ (R _ _ Hm3) H).
    apply tkeep_bind; [destruct (p_upgrade pf); [apply tkeep_send|apply tkeep_ret]|intros _].
    apply tkeep_bind; [destruct a; [apply tkeep_send|apply tkeep_ret]|intros _]. apply tkeep_ret.
  Qed.
End EffectsAny.

Section ReplicaCondition.
  Variable cr : crypto.

  (* THE REPLICA CONDITION: the nodes of the changeset that verify_proof accepts are well-formed, not
     blank, and equal to whatever node the replica already sees at the same index. It holds when every
     node the replica holds and every node of an accepted proof is the writer's node for that index
     (proof soundness, property C03/C04: proved elsewhere) *)
  Definition proof_agrees (c : core) (w : world) (pf : proof) : Prop :=
    forall cs, verify_proof cr (c_tree c) (d_tree (w_disk w)) pf (kp_public (c_keypair c)) = Ok cs ->
      forall x, In x (cs_nodes cs) ->
        node_wf x /\ node_blank x = false /\
        forall am n, node_get (c_tree c) (d_tree (w_disk w)) (n_index x) am = Ok (Some n) -> n = x.

  Lemma flush_rel_vmono t tf t' tf' :
    flushable t -> flush_rel t tf t' tf' -> vmono t tf t' tf' /\ flushable t'.
  Proof.
    intros Hf [[-> ->]|(tops & d1 & d2 & Hfl & <- & Ha & ->)]; [split; [apply vmono_refl|exact Hf]|].
    split; [apply (flush_vmono t t' tops d1 d2 Hf Hfl Ha)|].
    unfold tree_flush in Hfl. destruct (forallb _ _); [|discriminate Hfl]. injection Hfl as <- _.
    intros i x G. cbn [t_unflushed] in G. rewrite nm_get_empty in G. discriminate G.
  Qed.

  (* under the replica condition, applying a proof (accepted or refused, flushing or not, failing half-way
     or not) keeps nodes immutable: the hypothesis of cache_transparent_history for this step *)
  Theorem apply_proof_step_vm f pf c w :
    flushable (c_tree c) -> proof_agrees c w pf ->
    step_vm cr (HApplyProof f pf) c w /\
    (let '(_, _, c', _) := hstep cr (HApplyProof f pf) c w in flushable (c_tree c')).
  Proof.
    intros Hf Hag. cbn [step_vm hstep].
    destruct (core_apply_proof cr f pf c w) as [[c' w'] r] eqn:E.
    destruct (apply_proof_effect_any cr f pf c w c' w' r E) as [[T D]|(cs & t1 & V & Hc & R)].
    { rewrite T, D. split; [intros _; apply vmono_refl|exact Hf]. }
    assert (S1 : vmono (c_tree c) (d_tree (w_disk w)) t1 (d_tree (w_disk w)) /\ flushable t1).
    { destruct Hc as [->|Hc]; [split; [apply vmono_refl|exact Hf]|]. split.
      - apply (commit_vmono _ _ cs _ Hc). intros x Hx. destruct (Hag cs V x Hx) as (_ & B & A). split; assumption.
      - apply (commit_flushable _ cs _ Hc Hf). intros x Hx. apply (Hag cs V x Hx). }
    destruct S1 as [V1 F1]. destruct (flush_rel_vmono _ _ _ _ F1 R) as [V2 F2].
    split; [intros _; eapply vmono_trans; eassumption|exact F2].
  Qed.

  (* make_read_only flushes: immutable for a well-formed unflushed map *)
  Theorem make_read_only_step_vm c w : flushable (c_tree c) -> step_vm cr HMakeReadOnly c w.
  Proof.
    intros Hf. cbn [step_vm hstep]. destruct (core_make_read_only cr c w) as [[c' w'] r] eqn:E. intros _.
    unfold core_make_read_only in E. rewrite mbind_get_core in E. cbv zeta in E.
    mstep_as E E1; prim_inv E1. mstep_as E E2; prim_inv E2.
    mstep_as E E3; apply flush_all_tree_any in E3; cbn [c_tree] in E3;
      destruct (flush_rel_vmono _ _ _ _ Hf E3) as [V _]; try exact V.
    prim_inv E. exact V.
  Qed.
End ReplicaCondition.


(* ====================================================================================== *)
(* 7. Decidable sufficient checks, to show that the conditions are met by concrete histories *)
(* ====================================================================================== *)

Definition node_eqb (a b : node) : bool :=
  (n_index a =? n_index b) && (n_length a =? n_length b) && bytes_eqb (n_hash a) (n_hash b).

Lemma node_eqb_eq a b : node_eqb a b = true -> a = b.
Proof.
  unfold node_eqb. intros H. apply andb_prop in H as [H H3]. apply andb_prop in H as [H1 H2].
  apply N.eqb_eq in H1, H2. apply Sound.bytes_eqb_eq in H3. destruct a, b. cbn in *. congruence.
Qed.

Definition node_wf_b (x : node) : bool :=
  Nat.eqb (length (n_hash x)) 32 && (n_length x <=? u64_max) && (NODE_SIZE * n_index x <=? u64_max).

Lemma node_wf_b_ok x : node_wf_b x = true -> node_wf x.
Proof.
  unfold node_wf_b, node_wf. intros H. apply andb_prop in H as [H H3]. apply andb_prop in H as [H1 H2].
  apply Nat.eqb_eq in H1. apply N.leb_le in H2, H3. repeat split; assumption.
Qed.

Definition flushable_b (t : mtree) : bool :=
  forallb (fun kv : N * node => (n_index (snd kv) =? fst kv) && node_wf_b (snd kv)) (nm_elements (t_unflushed t)).

Lemma flushable_b_ok t : flushable_b t = true -> flushable t.
Proof.
  unfold flushable_b. intros H i x G. apply nm_elements_in in G. rewrite forallb_forall in H.
  specialize (H (i, x) G). cbn [fst snd] in H. apply andb_prop in H as [H1 H2].
  apply N.eqb_eq in H1. split; [exact H1|apply node_wf_b_ok, H2].
Qed.

(* the node found at the index of x, if any, is x *)
Definition sees_same (t : mtree) (tf : file) (x : node) : bool :=
  match node_get t tf (n_index x) false with
  | Ok (Some n) => node_eqb n x
  | Ok None | Err _ => true
  | _ => false
  end.

Lemma sees_same_ok t tf x : sees_same t tf x = true ->
  forall am n, node_get t tf (n_index x) am = Ok (Some n) -> n = x.
Proof.
  unfold sees_same. intros H am n G. rewrite (node_get_found_any_mode _ _ _ _ _ G false) in H.
  apply node_eqb_eq, H.
Qed.

Definition agrees_b (t : mtree) (tf : file) (l : list node) : bool :=
  forallb (fun x => node_wf_b x && negb (node_blank x) && sees_same t tf x) l.

Lemma agrees_b_ok t tf l : agrees_b t tf l = true ->
  forall x, In x l -> node_wf x /\ node_blank x = false /\
    forall am n, node_get t tf (n_index x) am = Ok (Some n) -> n = x.
Proof.
  unfold agrees_b. intros H x Hx. rewrite forallb_forall in H. specialize (H x Hx).
  apply andb_prop in H as [H H3]. apply andb_prop in H as [H1 H2].
  split; [apply node_wf_b_ok, H1|]. split; [apply negb_true_iff, H2|apply sees_same_ok, H3].
Qed.

Section Checks.
  Variable cr : crypto.

  Definition proof_agrees_b (c : core) (w : world) (pf : proof) : bool :=
    match verify_proof cr (c_tree c) (d_tree (w_disk w)) pf (kp_public (c_keypair c)) with
    | Ok cs => agrees_b (c_tree c) (d_tree (w_disk w)) (cs_nodes cs)
    | _ => true
    end.

  Lemma proof_agrees_b_ok c w pf : proof_agrees_b c w pf = true -> proof_agrees cr c w pf.
  Proof.
    unfold proof_agrees_b, proof_agrees. intros H cs V. rewrite V in H. apply agrees_b_ok, H.
  Qed.

  (* the replay: every entry's nodes agree with what is visible when they are added *)
  Fixpoint replay_vm_b (tf : file) (st : mtree * bitfield * header) (l : list entry) : bool :=
    match l with
    | [] => true
    | e :: r =>
        agrees_b (fst (fst st)) tf (e_nodes e) &&
        match replay_entry cr tf st e with
        | Ok st' => replay_vm_b tf st' r
        | _ => true
        end
    end.

  Lemma add_nodes_vmono t tf l :
    (forall x, In x l -> node_blank x = false /\ forall am n, node_get t tf (n_index x) am = Ok (Some n) -> n = x) ->
    vmono t tf (fold_left tree_add_node l t) tf.
  Proof.
    intros Hag i am n G. rewrite fold_add_node.
    destruct (add_nodes_get l (t_unflushed t) i) as [(x & Hin & Hi & Hg)|[_ Hg]].
    - destruct (Hag x Hin) as [Hb Heq]. rewrite Hi in Heq. rewrite (Heq am n G).
      unfold node_get. cbn [t_unflushed]. rewrite Hg, Hb. reflexivity.
    - rewrite <- G. apply node_get_unflushed_eq. cbn [t_unflushed]. exact Hg.
  Qed.

  Lemma replay_vm_b_ok tf l : forall st, replay_vm_b tf st l = true -> replay_vm cr tf st l.
  Proof.
    induction l as [|e l IH]; intros st H; cbn [replay_vm_b replay_vm] in *; [exact I|].
    apply andb_prop in H as [H1 H2]. split.
    - apply add_nodes_vmono. intros x Hx. destruct (agrees_b_ok _ _ _ H1 x Hx) as (_ & A & B). split; assumption.
    - destruct (replay_entry cr tf st e) as [st'|x|x|]; try exact I. apply IH, H2.
  Qed.

  Definition roots_visible_b (t : mtree) (tf : file) : bool :=
    forallb (fun r => match node_get t tf (n_index r) false with
                      | Ok (Some n) => node_eqb n r
                      | _ => false
                      end) (t_roots t).

  Lemma roots_visible_b_ok t tf : roots_visible_b t tf = true -> cache_ok (add_nodes nm_empty (t_roots t)) t tf.
  Proof.
    unfold roots_visible_b. intros H i n G am. apply add_nodes_empty_get in G as [Hin Hi].
    rewrite forallb_forall in H. specialize (H n Hin). rewrite Hi in H.
    destruct (node_get t tf i false) as [[m|]|x|x|] eqn:E; try discriminate H.
    apply node_eqb_eq in H. subst m. apply (node_get_found_any_mode _ _ _ _ _ E).
  Qed.

  Definition open_vm_b (kp : option keypair) (open_flag : bool) (d : disk) : bool :=
    match (if open_flag then match kp with Some _ => Err BadArgument | None => Ok None end else Ok kp) with
    | Ok key_pair =>
        match oplog_open cr key_pair (f_content (d_oplog d)) with
        | Ok oo =>
            match apply_sops d (oo_ops oo) with
            | Some d' =>
                match tree_open (hd_tree (oo_header oo)) (d_tree d') with
                | Ok t => roots_visible_b t (d_tree d') &&
                          replay_vm_b (d_tree d') (t, bf_open (d_bitfield d'), oo_header oo) (oo_entries oo)
                | _ => true
                end
            | None => true
            end
        | _ => true
        end
    | _ => true
    end.

  Lemma open_vm_b_ok kp open_flag d : open_vm_b kp open_flag d = true -> open_vm cr kp open_flag d.
  Proof.
    unfold open_vm_b, open_vm.
    destruct (if open_flag then match kp with Some _ => Err BadArgument | None => Ok None end else Ok kp)
      as [key_pair|x|x|]; try (intros _; exact I).
    destruct (oplog_open cr key_pair (f_content (d_oplog d))) as [oo|x|x|]; try (intros _; exact I).
    destruct (apply_sops d (oo_ops oo)) as [d1|]; try (intros _; exact I).
    destruct (tree_open (hd_tree (oo_header oo)) (d_tree d1)) as [t0|x|x|]; try (intros _; exact I).
    intros H. apply andb_prop in H as [H1 H2]. split; [apply roots_visible_b_ok, H1|apply replay_vm_b_ok, H2].
  Qed.

  (* a history of reads, proofs applied, make_read_only and reopens (what a replica does) *)
  Definition step_ok_b (op : hop) (c : core) (w : world) : bool :=
    match op with
    | HApplyProof _ pf => proof_agrees_b c w pf
    | HReopen => open_vm_b None true (w_disk w)
    | HAppend _ _ | HClear _ _ _ => false
    | _ => true
    end.

  Fixpoint hist_ok_b (ops : list hop) (c : core) (w : world) : bool :=
    match ops with
    | [] => true
    | op :: rest =>
        flushable_b (c_tree c) && step_ok_b op c w &&
        let '(_, alive, c', w') := hstep cr op c w in
        if alive then hist_ok_b rest c' w' else true
    end.

  Lemma quiet_step_vm {A} (m : M A) c w : quiet m ->
    forall c' w' r, m c w = (c', w', r) ->
      vmono (c_tree c) (d_tree (w_disk w)) (c_tree c') (d_tree (w_disk w')).
  Proof. intros Hq c' w' r E. destruct (Hq _ _ _ _ _ E) as (-> & -> & _). apply vmono_refl. Qed.

  Theorem hist_ok_b_ok (ops : list hop) : forall c w, hist_ok_b ops c w = true -> hist_vm cr ops c w.
  Proof.
    induction ops as [|op ops IH]; intros c w H; cbn [hist_ok_b hist_vm] in *; [exact I|].
    apply andb_prop in H as [H H3]. apply andb_prop in H as [H1 H2].
    apply flushable_b_ok in H1. split.
    - destruct op as [f batch|f s e|i|i| |b h sk0 u|i|i|f pf| |]; cbn [step_ok_b] in H2; try discriminate H2;
        cbn [step_vm hstep].
      + destruct (core_get i c w) as [[c' w'] r] eqn:E. intros _. apply (quiet_step_vm _ c w (core_get_quiet i) _ _ _ E).
      + intros _. apply vmono_refl.
      + intros _. apply vmono_refl.
      + destruct (core_create_proof b h sk0 u c w) as [[c' w'] r] eqn:E. intros _.
        apply (quiet_step_vm _ c w (core_create_proof_quiet b h sk0 u) _ _ _ E).
      + destruct (core_missing_nodes i c w) as [[c' w'] r] eqn:E. intros _.
        apply (quiet_step_vm _ c w (proj1 (core_missing_nodes_quiet i)) _ _ _ E).
      + destruct (core_missing_nodes_tree i c w) as [[c' w'] r] eqn:E. intros _.
        apply (quiet_step_vm _ c w (proj2 (core_missing_nodes_quiet i)) _ _ _ E).
      + apply (apply_proof_step_vm cr f pf c w H1 (proof_agrees_b_ok c w pf H2)).
      + apply (make_read_only_step_vm cr c w H1).
      + apply open_vm_b_ok, H2.
    - destruct (hstep cr op c w) as [[[o alive] c'] w']. destruct alive; [apply IH, H3|exact I].
  Qed.
End Checks.

(* the toy replica history satisfies the hypothesis of cache_transparent_history: the theorem applies, not
   vacuously, to a history with proofs applied (one of them adding a node that the replica already holds),
   lookups that miss before the nodes arrive, and reopens that replay pending entries *)
Example toy_replica_hist_vm :
  match core_open tcr (Some (mkKeypair (repeat 1 32) None)) false disk_empty with
  | (d0, _, Ok c0) => hist_vm tcr toy_rops c0 (mkWorld d0 [] [])
  | _ => False
  end.
Proof.
  destruct (core_open tcr (Some (mkKeypair (repeat 1 32) None)) false disk_empty) as [[d0 l0] [c0| | |]] eqn:Eo;
    try (vm_compute in Eo; discriminate Eo).
  apply hist_ok_b_ok.
  assert (G : match core_open tcr (Some (mkKeypair (repeat 1 32) None)) false disk_empty with
              | (d0, _, Ok c0) => hist_ok_b tcr toy_rops c0 (mkWorld d0 [] [])
              | _ => false
              end = true) by (vm_compute; reflexivity).
  rewrite Eo in G. exact G.
Qed.

(* one of the applied proofs carries a node that the replica already sees (the agreement is exercised) *)
Example toy_replica_agreement_exercised :
  match core_open tcr (Some (mkKeypair (repeat 1 32) None)) false disk_empty with
  | (d0, _, Ok c0) =>
      let '(_, ca, wa) := hrun tcr (firstn 7 toy_rops) c0 (mkWorld d0 [] []) in
      match verify_proof tcr (c_tree ca) (d_tree (w_disk wa)) (toy_pf 2) (kp_public (c_keypair ca)) with
      | Ok cs => existsb (fun x => match node_get (c_tree ca) (d_tree (w_disk wa)) (n_index x) false with
                                   | Ok (Some n) => node_eqb n x
                                   | _ => false
                                   end) (cs_nodes cs) && Nat.eqb (length (cs_nodes cs)) 3
      | _ => false
      end = true
  | _ => False
  end.
Proof. vm_compute. reflexivity. Qed.


(* ====================================================================================== *)
(* 8. The statements in the form "cached operation = (operation, new cache)"                *)
(* ====================================================================================== *)

Section Unfolded.
  Variable ev : evo.
  Hypothesis Hev : evictor ev.

  Lemma csim_run {A} t tf (m : CM A) (r : res A) st st' r' :
    csim t tf m r -> cache_ok (k_cache st) t tf -> m st = (st', r') -> r' = r /\ cache_ok (k_cache st') t tf.
  Proof. intros H Hok E. destruct (H st Hok) as [A1 A2]. rewrite E in A1, A2. split; assumption. Qed.

  Theorem byte_range_cached t tf hi st st' r :
    cache_ok (k_cache st) t tf -> byte_range_c ev t tf hi st = (st', r) ->
    r = byte_range t tf hi /\ cache_ok (k_cache st') t tf.
  Proof. intros Hok E. exact (csim_run t tf _ _ st st' r (csim_byte_range ev Hev t tf hi) Hok E). Qed.

  Theorem byte_offset_cached t tf hi st st' r :
    cache_ok (k_cache st) t tf -> byte_offset_c ev t tf hi st = (st', r) ->
    r = byte_offset t tf hi /\ cache_ok (k_cache st') t tf.
  Proof. intros Hok E. exact (csim_run t tf _ _ st st' r (csim_byte_offset ev Hev t tf hi) Hok E). Qed.

  Theorem missing_nodes_cached t tf i st st' r :
    cache_ok (k_cache st) t tf -> missing_nodes_c ev t tf i st = (st', r) ->
    r = missing_nodes t tf i /\ cache_ok (k_cache st') t tf.
  Proof. intros Hok E. exact (csim_run t tf _ _ st st' r (csim_missing_nodes ev Hev t tf i) Hok E). Qed.

  Theorem create_valueless_proof_cached t tf block hash seek upgrade st st' r :
    cache_ok (k_cache st) t tf -> create_valueless_proof_c ev t tf block hash seek upgrade st = (st', r) ->
    r = create_valueless_proof t tf block hash seek upgrade /\ cache_ok (k_cache st') t tf.
  Proof.
    intros Hok E.
    exact (csim_run t tf _ _ st st' r (csim_create_valueless_proof ev Hev t tf block hash seek upgrade) Hok E).
  Qed.

  Theorem verify_proof_cached cr t tf pf pk st st' r :
    cache_ok (k_cache st) t tf -> verify_proof_c ev cr t tf pf pk st = (st', r) ->
    r = verify_proof cr t tf pf pk /\ cache_ok (k_cache st') t tf.
  Proof. intros Hok E. exact (csim_run t tf _ _ st st' r (csim_verify_proof ev Hev t tf cr pf pk) Hok E). Qed.

  Theorem tree_truncate_cached t tf length fork st st' r :
    cache_ok (k_cache st) t tf -> tree_truncate_c ev t tf length fork st = (st', r) ->
    r = tree_truncate t tf length fork /\ cache_ok (k_cache st') t tf.
  Proof. intros Hok E. exact (csim_run t tf _ _ st st' r (csim_tree_truncate ev Hev t tf length fork) Hok E). Qed.
End Unfolded.

(* MerkleTree::open: the tree is the one opened without the cache; the cache it fills is valid when no root
   record is blank (the tree store is smaller than 2^64 bytes) *)
Lemma read_roots_spec tf (idx : list N) : forall acc bl l roots bl' l',
  read_roots tf idx acc bl l = Ok (roots, bl', l') ->
  forall r, In r roots ->
    In r acc \/ exists data, f_read tf (NODE_SIZE * n_index r) NODE_SIZE = Some data /\
                             r = node_from_bytes (n_index r) data.
Proof.
  induction idx as [|i idx IH]; intros acc bl l roots bl' l' H r Hr; cbn [read_roots] in H.
  - injection H as <- _ _. left. apply in_rev, Hr.
  - destruct (f_read tf (NODE_SIZE * i) NODE_SIZE) as [data|] eqn:R; [|discriminate H].
    apply bind_ok in H as (d & _ & H).
    destruct (IH _ _ _ _ _ _ H r Hr) as [[<-|Hin]|Hex]; [|left; exact Hin|right; exact Hex].
    right. exists data. cbn [node_from_bytes n_index]. split; [exact R|reflexivity].
Qed.

Theorem tree_open_cached ht tf tick t :
  tree_open ht tf = Ok t -> f_len tf <= u64_max ->
  (forall r, In r (t_roots t) -> node_blank r = false) ->
  tree_open_c ht tf tick = (mkCst (add_nodes nm_empty (t_roots t)) tick 0, Ok t) /\
  cache_ok (add_nodes nm_empty (t_roots t)) t tf.
Proof.
  intros Ho Hlen Hnb. unfold tree_open_c. rewrite Ho. split; [reflexivity|].
  unfold tree_open in Ho. apply bind_ok in Ho as ([[roots bl] l2] & Hr & Ho).
  apply bind_ok in Ho as (sg & _ & Ho). injection Ho as <-.
  cbn [t_roots] in *. intros i n G am. apply add_nodes_empty_get in G as [Hin Hi].
  destruct (read_roots_spec tf _ _ _ _ _ _ _ Hr n Hin) as [[]|(data & R & En)].
  rewrite Hi in R, En. unfold node_get. cbn [t_unflushed]. rewrite nm_get_empty.
  unfold mul64. apply f_read_spec in R as R'. destruct R' as (Hb & _).
  assert (fits_u64 (NODE_SIZE * i) = true) as -> by (unfold fits_u64; lia). cbn [bind].
  rewrite R, <- En, (Hnb n Hin). reflexivity.
Qed.

(* the invariants of writer_cache_transparent at a non-trivial state: after an append that stays in the
   oplog and an append that flushes (tree nodes both unflushed and in the store on the way) *)
Example toy_writer_invariants_met :
  exists d0 ops0 c0 c1 w1 c2 w2,
    core_open toy_cr (Some toy_keypair) false disk_empty = (d0, ops0, Ok c0) /\
    FInv toy_cr c0 d0 [] (fun _ => false) /\ NInv toy_cr c0 d0 [] /\
    core_append toy_cr (Some false) [[1; 2; 3]; []; [4]] c0 (mkWorld d0 [] []) = (c1, w1, Ok (3, 4)) /\
    FInv toy_cr c1 (w_disk w1) [[1; 2; 3]; []; [4]] (cl_mask (fun _ => false) 0) /\
    NInv toy_cr c1 (w_disk w1) [[1; 2; 3]; []; [4]] /\
    (3 <= length (nm_elements (t_unflushed (c_tree c1))))%nat /\
    core_append toy_cr (Some true) [[5; 6]] c1 w1 = (c2, w2, Ok (4, 6)) /\
    NInv toy_cr c2 (w_disk w2) ([[1; 2; 3]; []; [4]] ++ [[5; 6]]) /\
    f_len (d_tree (w_disk w2)) = 280.
Proof.
  destruct (FInv_init toy_cr toy_crc_ok' toy_hash32 toy_nonblank toy_hashbytes toy_keypair eq_refl)
    as (d0 & ops0 & c0 & Ho & F0 & K).
  pose proof (NInv_init toy_cr toy_hash32 toy_nonblank toy_hashbytes toy_sig64 toy_sigbytes
                toy_keypair d0 ops0 c0 eq_refl Ho) as N0.
  assert (Hsk : kp_secret (c_keypair c0) = Some (repeat 2 32%nat)) by (rewrite K; reflexivity).
  set (B1 := [[1; 2; 3]; []; [4]]).
  destruct (core_append toy_cr (Some false) B1 c0 (mkWorld d0 [] [])) as [[c1 w1] r1] eqn:E1.
  assert (Hr1 : r1 = Ok (3, 4)).
  { pose proof Ho as Ho'. vm_compute in Ho'. injection Ho' as <- <- <-. vm_compute in E1.
    injection E1 as _ _ <-. reflexivity. }
  subst r1.
  destruct (append_FInv toy_cr toy_crc_ok' toy_hash32 toy_nonblank toy_hashbytes toy_sig64 toy_sigbytes
              (Some false) B1 c0 d0 [] [] [] (fun _ => false) _ c1 w1 _
              F0 Hsk ltac:(vm_compute; discriminate) ltac:(vm_compute; discriminate) E1)
    as [Hp|(_ & F1 & K1)]; [discriminate Hp|].
  pose proof (NInv_append toy_cr toy_hash32 toy_nonblank toy_hashbytes toy_sig64 toy_sigbytes
                (Some false) B1 c0 d0 [] [] [] (fun _ => false) _ c1 w1 _ F0 N0 Hsk
                ltac:(vm_compute; discriminate) ltac:(vm_compute; discriminate) E1) as N1.
  cbn [app length] in F1, N1. change (N.of_nat 0) with 0 in F1.
  destruct w1 as [d1 j1 ev1]. cbn [w_disk] in *.
  destruct (core_append toy_cr (Some true) [[5; 6]] c1 (mkWorld d1 j1 ev1)) as [[c2 w2] r2] eqn:E2.
  assert (Hfacts : r2 = Ok (4, 6) /\ f_len (d_tree (w_disk w2)) = 280 /\
                   (3 <= length (nm_elements (t_unflushed (c_tree c1))))%nat).
  { pose proof Ho as Ho'. vm_compute in Ho'. injection Ho' as <- <- <-. vm_compute in E1.
    injection E1 as <- <- <- <-. vm_compute in E2. injection E2 as <- <- <-.
    split; [reflexivity|]. split; [reflexivity|]. vm_compute. lia. }
  destruct Hfacts as (-> & Hlen & Hunf).
  assert (Hsk1 : kp_secret (c_keypair c1) = Some (repeat 2 32%nat)) by (rewrite K1; exact Hsk).
  pose proof (NInv_append toy_cr toy_hash32 toy_nonblank toy_hashbytes toy_sig64 toy_sigbytes
                (Some true) [[5; 6]] c1 d1 j1 ev1 B1 _ _ c2 w2 _ F1 N1 Hsk1
                ltac:(vm_compute; discriminate) ltac:(vm_compute; discriminate) E2) as N2.
  exists d0, ops0, c0, c1, (mkWorld d1 j1 ev1), c2, w2. cbn [w_disk].
  split; [exact Ho|]. split; [exact F0|]. split; [exact N0|]. split; [exact E1|]. split; [exact F1|].
  split; [exact N1|]. split; [exact Hunf|]. split; [exact E2|]. split; [exact N2|exact Hlen].
Qed.

(* ====================================================================================== *)
Print Assumptions csim_node_get.
Print Assumptions csim_byte_range.
Print Assumptions csim_byte_offset.
Print Assumptions csim_byte_offset_in_changeset.
Print Assumptions csim_tree_truncate.
Print Assumptions csim_missing_nodes.
Print Assumptions csim_create_valueless_proof.
Print Assumptions csim_verify_proof.
Print Assumptions reads_core_get.
Print Assumptions reads_core_create_proof.
Print Assumptions reads_core_missing_nodes.
Print Assumptions reads_core_missing_nodes_tree.
Print Assumptions sim_core_clear.
Print Assumptions sim_core_apply_proof.
Print Assumptions cache_ok_vmono.
Print Assumptions replay_entries_sim.
Print Assumptions core_open_sim.
Print Assumptions hstep_sim.
Print Assumptions cache_transparent_history.
Print Assumptions cache_valid_after_history.
Print Assumptions visible_fullref.
Print Assumptions vmono_writer.
Print Assumptions flush_SInv.
Print Assumptions NInv_append.
Print Assumptions NInv_clear.
Print Assumptions reopen_writer.
Print Assumptions writer_hist_vm.
Print Assumptions writer_cache_transparent.
Print Assumptions NInv_init.
Print Assumptions fresh_writer_cache_transparent.
Print Assumptions evictor_never.
Print Assumptions evictor_always.
Print Assumptions evictor_every.
Print Assumptions evictor_capacity.
Print Assumptions toy_writer_runs.
Print Assumptions toy_writer_observations.
Print Assumptions toy_instance_cache.
Print Assumptions toy_writer_hypotheses.
Print Assumptions toy_writer_invariants_met.
Print Assumptions toy_replica_runs.
Print Assumptions caching_a_miss_breaks_transparency.
Print Assumptions node_get_c_inserts_found.
Print Assumptions open_caches_blank_root_refuted.
Print Assumptions commit_vmono.
Print Assumptions flush_vmono.
Print Assumptions apply_proof_step_vm.
Print Assumptions make_read_only_step_vm.
Print Assumptions hist_ok_b_ok.
Print Assumptions toy_replica_hist_vm.
Print Assumptions toy_replica_agreement_exercised.
Print Assumptions byte_range_cached.
Print Assumptions byte_offset_cached.
Print Assumptions missing_nodes_cached.
Print Assumptions create_valueless_proof_cached.
Print Assumptions verify_proof_cached.
Print Assumptions tree_truncate_cached.
Print Assumptions tree_open_cached.

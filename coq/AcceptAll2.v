(* AcceptAll2.v -- C03: seek combined with a block or hash section.
   The writer answers a seek inside the requested sub-tree (seek_untrusted_tree) with the tree node S that
   contains the byte offset; the block / hash section then leaves out the sibling that covers S and the seek
   section carries S and its siblings up to that sibling.  The verifier recomputes the sibling from the seek
   section and uses it as the extra node of the queue of the main climb. *)
From HC Require Import Base NMap Codec CodecFacts Crypto FlatTree Storage Oplog Merkle Core.
From HC Require Import FlatTreeFacts Sound NoPanic TreeRef OffsetFacts CoreFacts Refine Replicate Replicate2 Replicate2Z Replicate2D Replicate2E.
From HC Require Import AcceptAll1.
From Coq Require Import FMapPositive ZifyN ZifyNat ZifyBool.
Ltac Zify.zify_post_hook ::= Z.div_mod_to_equations.
Arguments N.add : simpl never.
Arguments N.sub : simpl never.
Arguments N.mul : simpl never.
Arguments N.div : simpl never.
Arguments N.modulo : simpl never.
Arguments N.pow : simpl never.
Arguments N.eqb : simpl never.
Arguments N.ltb : simpl never.
Arguments N.leb : simpl never.
Arguments N.of_nat : simpl never.
Arguments N.to_nat : simpl never.
Arguments N.log2 : simpl never.

Notation upg_nodes cr bs r u := (map (rn cr bs) (upg_idx g64 0 r u)) (only parsing).
Notation addl_nodes cr bs u w := (if u <? w then map (rn cr bs) (upg_idx g64 0 u w) else []) (only parsing).

(* the byte offset lies in the sub-tree (size may be 0: then only its first byte position) *)
Definition seek_in_range (lo hi bytes : N) : Prop := lo <= bytes /\ (bytes < hi \/ bytes = lo).

Lemma sibo_neq a : sibo a <> a.
Proof. unfold sibo. destruct (N.even a) eqn:E; rewrite FlatTreeFacts.even_mod in E; lia. Qed.

Lemma p2_sub_S d dS : (dS <= d)%nat -> p2 (S d - dS) = 2 * p2 (d - dS).
Proof. intros H. replace (S d - dS)%nat with (S (d - dS)) by lia. apply p2_S. Qed.

(* S is a descendant (or self) of the path node (d, a): no sibling met when climbing from (d, a) contains S *)
Lemma path_idx_not_inside : forall n d a dS aS,
  (dS <= d)%nat -> aS / p2 (d - dS) = a ->
  forall x, In x (path_idx n d a) -> inside_S (ft_index (N.of_nat dS) aS) x = false.
Proof.
  induction n as [|n IH]; intros d a dS aS Hd Ha x Hx; cbn [path_idx] in Hx; [destruct Hx|].
  pose proof (p2_pos (d - dS)) as Hp.
  destruct Hx as [<-|Hx].
  - unfold inside_S. cbn [fst snd].
    destruct (it_contains (it_at (N.of_nat d) (sibo a)) (ft_index (N.of_nat dS) aS)) eqn:E; [|reflexivity].
    exfalso. apply it_contains_node in E. destruct E as (_ & J1 & J2).
    assert (aS / p2 (d - dS) = sibo a) by (symmetry; apply (N.div_unique aS (p2 (d - dS)) (sibo a) (aS - sibo a * p2 (d - dS))); lia).
    pose proof (sibo_neq a). congruence.
  - apply (IH (S d) (a / 2) dS aS); [lia| |exact Hx].
    rewrite (p2_sub_S d dS Hd), N.mul_comm, <- N.div_div by lia. rewrite Ha. reflexivity.
Qed.

Section SeekWriter.
  Variable cr : crypto.
  Variable bs : list bytes.
  Hypothesis total_fits : sumN (map len bs) <= u64_max.
  Variable t : mtree.
  Variable tf : file.
  Variable w : N.
  Hypothesis Hlook : lookups cr t tf bs w.

  Lemma writer_path_reads i : path_reads cr bs t tf w i.
  Proof.
    intros d o _ _ _ H. apply Hlook. rewrite p2_S in H. pose proof (p2_pos d). lia.
  Qed.

  Lemma writer_byte_offset k o :
    t_roots t = ref_roots cr bs w -> 2 * w <= u64_max -> (o + 1) * p2 k <= w ->
    byte_offset_from_nodes t tf (ft_index (N.of_nat k) o) = Ok (prefix_size bs (o * p2 k)).
  Proof.
    intros Hroots H64 Hk.
    apply (byte_offset_node cr bs t tf w k o Hroots); [|exact Hk|apply writer_path_reads].
    unfold u64_max in H64. change (2 ^ 63) with 9223372036854775808. lia.
  Qed.

  (* where the trusted seek ends: a node of the sub-tree it started in *)
  Lemma seek_trusted_spec : forall d fuel o b,
    (d < fuel)%nat -> (o + 1) * p2 d <= w ->
    exists dS aS, seek_trusted_loop fuel t tf (it_at (N.of_nat d) o) b = Ok (ft_index (N.of_nat dS) aS) /\
                  (dS <= d)%nat /\ o * p2 (d - dS) <= aS /\ aS < (o + 1) * p2 (d - dS).
  Proof.
    induction d as [|d IH]; intros fuel o b Hf Hw; (destruct fuel as [|f]; [lia|]); cbn [seek_trusted_loop].
    - change (it_index (it_at (N.of_nat 0) o)) with (ft_index (N.of_nat 0) o).
      rewrite (ft_index_parity bs total_fits 0 o). exists 0%nat, o. cbn [Nat.sub]. rewrite p2_0. split; [reflexivity|]. lia.
    - change (it_index (it_at (N.of_nat (S d)) o)) with (ft_index (N.of_nat (S d)) o).
      rewrite (ft_index_parity bs total_fits (S d) o).
      rewrite <- it_at_nat_S, it_left_child_at.
      change (it_index (it_at (N.of_nat d) (2 * o))) with (ft_index (N.of_nat d) (2 * o)).
      rewrite p2_S in Hw. pose proof (p2_pos d) as Hp.
      rewrite (required_optional _ _ _ _ (Hlook d (2 * o) ltac:(lia))). cbn [bind].
      destruct (n_length (ref_node cr bs d (2 * o)) =? b).
      { exists d, (2 * o). split; [reflexivity|]. split; [lia|].
        replace (S d - d)%nat with 1%nat by lia. change (p2 1) with 2. lia. }
      destruct (b <? n_length (ref_node cr bs d (2 * o))).
      + destruct (IH f (2 * o) b ltac:(lia) ltac:(lia)) as (dS & aS & E & Hd & J1 & J2).
        exists dS, aS. split; [exact E|]. split; [lia|]. rewrite (p2_sub_S d dS Hd). lia.
      + rewrite it_sibling_at_even by (rewrite FlatTreeFacts.even_mod; lia).
        destruct (IH f (2 * o + 1) (b - n_length (ref_node cr bs d (2 * o))) ltac:(lia) ltac:(lia))
          as (dS & aS & E & Hd & J1 & J2).
        exists dS, aS. split; [exact E|]. split; [lia|]. rewrite (p2_sub_S d dS Hd). lia.
  Qed.

  (* the seek inside the requested sub-tree (d, o): any in-range offset is answered with a node of that sub-tree *)
  Lemma seek_untrusted_spec d o bytes :
    t_roots t = ref_roots cr bs w -> 2 * w <= u64_max -> (o + 1) * p2 d <= w ->
    seek_in_range (prefix_size bs (o * p2 d)) (prefix_size bs ((o + 1) * p2 d)) bytes ->
    exists dS aS, seek_untrusted_tree t tf (ft_index (N.of_nat d) o) bytes = Ok (ft_index (N.of_nat dS) aS) /\
                  (dS <= d)%nat /\ o * p2 (d - dS) <= aS /\ aS < (o + 1) * p2 (d - dS).
  Proof.
    intros Hroots H64 Hw [R1 R2]. unfold seek_untrusted_tree.
    rewrite (writer_byte_offset d o Hroots H64 Hw). cbn [bind].
    set (off := prefix_size bs (o * p2 d)) in *.
    destruct (N.ltb_spec bytes off) as [L|_]; [lia|].
    assert (Hself : exists dS aS, ft_index (N.of_nat d) o = ft_index (N.of_nat dS) aS /\
                      (dS <= d)%nat /\ o * p2 (d - dS) <= aS /\ aS < (o + 1) * p2 (d - dS)).
    { exists d, o. rewrite Nat.sub_diag, p2_0. split; [reflexivity|]. lia. }
    destruct (N.eqb_spec off bytes) as [E|Ne].
    { destruct Hself as (dS & aS & E1 & Hx). exists dS, aS. split; [rewrite <- E1; reflexivity|exact Hx]. }
    rewrite (Hlook d o Hw). cbn [bind].
    pose proof (ref_node_prefix cr bs d o) as Hsz. fold off in Hsz.
    destruct (N.leb_spec (n_length (ref_node cr bs d o)) (bytes - off)) as [L|_]; [lia|].
    unfold seek_trusted_tree. destruct (bytes - off =? 0).
    { destruct Hself as (dS & aS & E1 & Hx). exists dS, aS. split; [rewrite <- E1; reflexivity|exact Hx]. }
    rewrite FlatTreeFacts.it_new_index.
    apply seek_trusted_spec; [|exact Hw]. apply (depth_climb d o w Hw H64).
  Qed.

  (* ---------- the block / hash climb with a seek target ---------- *)

  Variable dS : nat.
  Variable aS : N.
  Let S := ft_index (N.of_nat dS) aS.

  Definition put_seek (p : local_proof) (l : list node) : local_proof :=
    mkLp (Some l) (lp_nodes p) (lp_upgrade p) (lp_additional p).

  (* the sibling is replaced by a seek section: it contains S and is not S itself *)
  Definition seek_hit (x : nat * N) : bool := inside_S S x && negb (idx x =? S).

  Fixpoint semit (l : list (nat * N)) (p : local_proof) (acc : list node) : local_proof * list node :=
    match l with
    | [] => (p, acc)
    | x :: l' =>
        if seek_hit x then semit l' (put_seek p (hash_nodes cr bs (fst x - dS) dS aS)) acc
        else semit l' p (acc ++ [rn cr bs x])
    end.

  Lemma semit_outside l : forall p acc,
    (forall x, In x l -> seek_hit x = false) -> semit l p acc = (p, acc ++ map (rn cr bs) l).
  Proof.
    induction l as [|x l IH]; intros p acc H; cbn [semit map].
    - rewrite app_nil_r. reflexivity.
    - rewrite (H x) by (left; reflexivity).
      rewrite IH by (intros y Hy; apply H; right; exact Hy). rewrite <- app_assoc. reflexivity.
  Qed.

  Lemma seek_hit_inside x : seek_hit x = true -> inside_S S x = true /\ idx x <> S.
  Proof.
    unfold seek_hit. intros H. apply andb_true_iff in H. destruct H as [H1 H2]. split; [exact H1|].
    destruct (N.eqb_spec (idx x) S); [discriminate H2|assumption].
  Qed.

  (* along a path at most one sibling is hit *)
  Lemma semit_path : forall n d a p acc,
    semit (path_idx n d a) p acc = (p, acc ++ map (rn cr bs) (path_idx n d a)) \/
    exists l1 y l2, path_idx n d a = l1 ++ y :: l2 /\ seek_hit y = true /\
      semit (path_idx n d a) p acc
      = (put_seek p (hash_nodes cr bs (fst y - dS) dS aS), acc ++ map (rn cr bs) (l1 ++ l2)).
  Proof.
    induction n as [|n IH]; intros d a p acc; cbn [path_idx].
    - left. cbn [semit map]. rewrite app_nil_r. reflexivity.
    - cbn [semit]. destruct (seek_hit (d, sibo a)) eqn:Eh.
      + right. exists [], (d, sibo a), (path_idx n (Datatypes.S d) (a / 2)). split; [reflexivity|]. split; [exact Eh|].
        cbn [fst app]. apply semit_outside. intros x Hx.
        apply seek_hit_inside in Eh. destruct Eh as [Ei _]. unfold inside_S, S in Ei. cbn [fst snd] in Ei.
        apply it_contains_node in Ei. destruct Ei as (Hd & J1 & J2).
        unfold seek_hit. unfold S at 1.
        rewrite (path_idx_not_inside n (Datatypes.S d) (a / 2) dS aS ltac:(lia)) with (x := x); [reflexivity| |exact Hx].
        pose proof (p2_pos (d - dS)) as Hp.
        rewrite (p2_sub_S d dS Hd), N.mul_comm, <- N.div_div by lia.
        assert (aS / p2 (d - dS) = sibo a) by (symmetry; apply (N.div_unique aS (p2 (d - dS)) (sibo a) (aS - sibo a * p2 (d - dS))); lia).
        rewrite H. apply sibo_half.
      + destruct (IH (Datatypes.S d) (a / 2) p (acc ++ [rn cr bs (d, sibo a)])) as [E|(l1 & y & l2 & E1 & Hy & E2)].
        * left. rewrite E. cbn [map]. rewrite <- app_assoc. reflexivity.
        * right. exists ((d, sibo a) :: l1), y, l2. split; [rewrite E1; reflexivity|]. split; [exact Hy|].
          rewrite E2. cbn [app map]. rewrite <- app_assoc. reflexivity.
  Qed.

  Lemma block_loop_seek : forall n d a fuel acc xo,
    (n < fuel)%nat -> (d + n < CLIMB)%nat -> xo * p2 n <= a -> a < (xo + 1) * p2 n -> (xo + 1) * p2 (d + n) <= w ->
    forall p0,
    block_proof_loop fuel t tf (it_at (N.of_nat d) a) (ft_index (N.of_nat (d + n)) xo) true S p0 acc
    = Ok (fst (semit (path_idx n d a) p0 (rev acc)), snd (semit (path_idx n d a) p0 (rev acc))).
  Proof.
    induction n as [|n IH]; intros d a fuel acc xo Hf Hc H1 H2 Hw p0;
      (destruct fuel as [|f]; [lia|]); cbn [block_proof_loop path_idx semit andb].
    - rewrite p2_0 in *. assert (a = xo) as -> by lia. rewrite Nat.add_0_r.
      unfold it_at at 1. cbn [it_index]. rewrite N.eqb_refl. cbn [fst snd]. reflexivity.
    - destruct (N.eqb_spec (it_index (it_at (N.of_nat d) a)) (ft_index (N.of_nat (d + Datatypes.S n)) xo)) as [Ei|Ei].
      { unfold it_at in Ei. cbn [it_index] in Ei. apply ft_index_inj in Ei. lia. }
      rewrite p2_S in H1, H2. pose proof (p2_pos d) as Hpd.
      assert (Ew : p2 (d + Datatypes.S n) = 2 * p2 n * p2 d) by (rewrite p2_add, p2_S; lia).
      replace (d + Datatypes.S n)%nat with (Datatypes.S d + n)%nat in * by lia.
      rewrite it_sibling_sibo.
      pose proof (sibo_bound bs total_fits a xo (p2 n) H1 H2) as Hsb.
      assert (Hsub : (sibo a + 1) * p2 d <= (xo + 1) * p2 (Datatypes.S d + n)).
      { rewrite Ew. apply (N.mul_le_mono_r _ _ (p2 d)) in Hsb. lia. }
      change (it_contains (it_at (N.of_nat d) (sibo a)) S) with (inside_S S (d, sibo a)).
      change (it_index (it_at (N.of_nat d) (sibo a))) with (idx (d, sibo a)).
      fold (seek_hit (d, sibo a)).
      destruct (seek_hit (d, sibo a)) eqn:Eh.
      + pose proof (seek_hit_inside _ Eh) as [Ei' _]. unfold inside_S, S in Ei'. cbn [fst snd] in Ei'.
        apply it_contains_node in Ei'. destruct Ei' as (Hd & J1 & J2).
        unfold idx. cbn [fst snd]. unfold S at 1.
        rewrite (seek_proof_spec cr bs total_fits t tf w Hlook dS aS d (sibo a) p0 Hd J1 J2 ltac:(lia) ltac:(lia)).
        cbn [bind]. rewrite it_parent_at, sibo_half, it_at_nat_S.
        rewrite (IH (Datatypes.S d) (a / 2) f acc xo); try lia. reflexivity.
      + unfold idx. cbn [fst snd].
        rewrite (Hlook d (sibo a)) by lia. cbn [bind].
        rewrite it_parent_at, sibo_half, it_at_nat_S.
        rewrite (IH (Datatypes.S d) (a / 2) f (ref_node cr bs d (sibo a) :: acc) xo); try lia.
        cbn [rev]. reflexivity.
  Qed.
End SeekWriter.

(* ====================================================================================== *)
(* the verifier: a climb whose queue carries the recomputed sibling as its extra node      *)
(* ====================================================================================== *)

Lemma path_idx_depth : forall n d a x, In x (path_idx n d a) -> (d <= fst x)%nat /\ (fst x = d -> snd x = sibo a).
Proof.
  induction n as [|n IH]; intros d a x Hx; cbn [path_idx] in Hx; [destruct Hx|].
  destruct Hx as [<-|Hx]; [cbn [fst snd]; auto|].
  apply IH in Hx. destruct Hx as [H1 _]. split; [lia|intros E; lia].
Qed.

Lemma path_idx_not_self n d a x : In x (path_idx n d a) -> idx x <> ft_index (N.of_nat d) a.
Proof.
  intros Hx E. apply path_idx_depth in Hx. destruct Hx as [H1 H2]. unfold idx in E.
  apply ft_index_inj in E. destruct E as [E1 E2]. assert (fst x = d) by lia.
  pose proof (sibo_neq a). rewrite (H2 H) in E2. congruence.
Qed.

Lemma path_idx_split_distinct : forall n d a l1 y l2,
  path_idx n d a = l1 ++ y :: l2 -> forall x, In x l1 -> idx x <> idx y.
Proof.
  induction n as [|n IH]; intros d a l1 y l2 E x Hx; cbn [path_idx] in E.
  - destruct l1; discriminate E.
  - destruct l1 as [|x0 l1]; [destruct Hx|]. cbn [app] in E. injection E as E0 E.
    assert (Hy : In y (path_idx n (S d) (a / 2))) by (rewrite E; apply in_or_app; right; left; reflexivity).
    destruct Hx as [<-|Hx].
    + subst x0. apply path_idx_depth in Hy. destruct Hy as [Hy _]. unfold idx. cbn [fst snd].
      intros Ei. apply ft_index_inj in Ei. lia.
    + apply (IH _ _ _ _ _ E x Hx).
Qed.

Lemma path_idx_len m : forall d a, length (path_idx m d a) = m.
Proof. induction m; intros; cbn [path_idx length]; auto. Qed.

Lemma cs_push_push c l1 l2 : cs_push_nodes (cs_push_nodes c l1) l2 = cs_push_nodes c (l1 ++ l2).
Proof.
  unfold cs_push_nodes. cbn [cs_length cs_ancestors cs_byte_length cs_batch_length cs_fork cs_roots cs_rnodes
    cs_hash cs_signature cs_upgraded cs_orig_length cs_orig_fork]. f_equal.
  rewrite !rev_append_rev, rev_app_distr, app_assoc. reflexivity.
Qed.

Lemma q_shift_nonempty q i n q' : q_shift q i = Ok (n, q') -> (q_length q =? 0) = false.
Proof.
  unfold q_shift, q_length. destruct q as [l e]. cbn [q_nodes q_extra].
  destruct e as [x|].
  - intros _. lia.
  - destruct l as [|y l]; [discriminate|]. intros _. cbn [length]. lia.
Qed.

Section SeekVerifier.
  Variable cr : crypto.
  Variable bs : list bytes.
  Hypothesis total_fits : sumN (map len bs) <= u64_max.

  Lemma climb_serves : forall n d a fuel acc xo q,
    (n < fuel)%nat -> xo * p2 n <= a -> a < (xo + 1) * p2 n ->
    serves q (map (rn cr bs) (path_idx n d a)) (mkQ [] None) ->
    exists vis,
      climb cr fuel q (it_at (N.of_nat d) a) (ref_node cr bs d a) acc
      = Ok (ref_node cr bs (d + n) xo, acc ++ vis) /\
      Forall (is_ref cr bs) vis /\ (forall x, In x (path_idx n d a) -> In (rn cr bs x) vis).
  Proof.
    induction n as [|n IH]; intros d a fuel acc xo q Hf H1 H2 Hs;
      (destruct fuel as [|f]; [lia|]); rewrite climb_S; cbn [path_idx map] in *.
    - apply serves_nil_inv in Hs. subst q.
      rewrite p2_0 in *. assert (a = xo) as -> by lia. rewrite Nat.add_0_r.
      exists []. rewrite app_nil_r. split; [reflexivity|]. split; [constructor|intros x []].
    - apply serves_cons_inv in Hs. destruct Hs as (q' & Hq & Hs).
      rewrite (q_shift_nonempty _ _ _ _ Hq). cbv zeta. rewrite it_sibling_sibo.
      unfold rn at 1 2 in Hq. cbn [fst snd] in Hq. rewrite ref_node_index in Hq.
      unfold it_at at 1. cbn [it_index]. rewrite Hq. cbn [bind].
      rewrite it_parent_at, sibo_half, it_at_nat_S.
      pose proof (ref_parent cr bs total_fits d a) as Hp.
      assert (F : n_length (ref_node cr bs d a) + n_length (ref_node cr bs d (sibo a)) <= u64_max).
      { pose proof (ref_node_fits cr bs total_fits (S d) (a / 2)) as F. rewrite <- Hp in F.
        cbn [n_length] in F. unfold fits_u64 in F. lia. }
      rewrite NoPanic.add64_ok by exact F. cbn [bind].
      change (it_index (it_at (N.of_nat (S d)) (a / 2))) with (ft_index (N.of_nat (S d)) (a / 2)). rewrite Hp.
      rewrite p2_S in H1, H2.
      destruct (IH (S d) (a / 2) f (acc ++ [ref_node cr bs d (sibo a); ref_node cr bs (S d) (a / 2)]) xo q')
        as (vis & Hc & Hv & Hin); try lia; [exact Hs|].
      exists ([ref_node cr bs d (sibo a); ref_node cr bs (S d) (a / 2)] ++ vis).
      replace (d + S n)%nat with (S d + n)%nat by lia.
      split; [rewrite Hc, <- app_assoc; reflexivity|]. split.
      + apply Forall_app. split; [|exact Hv]. repeat constructor; apply ref_node_is_ref.
      + intros x [<-|Hx]; [left; reflexivity|]. apply in_or_app. right. apply Hin, Hx.
  Qed.

  (* the queue of the main climb: the siblings sent, and the sibling y recomputed from the seek section *)
  Lemma serves_path n d a l1 y l2 :
    path_idx n d a = l1 ++ y :: l2 ->
    serves (mkQ (map (rn cr bs) (l1 ++ l2)) (Some (rn cr bs y))) (map (rn cr bs) (path_idx n d a)) (mkQ [] None).
  Proof.
    intros E. rewrite E, !map_app. cbn [map]. apply serves_extra. apply Forall_forall. intros x Hx.
    apply in_map_iff in Hx. destruct Hx as (x0 & <- & Hx0). unfold rn. rewrite !ref_node_index.
    apply (path_idx_split_distinct n d a l1 y l2 E x0 Hx0).
  Qed.

  (* the seek phase of verify_tree alone *)
  Lemma vt_seek_ref d a n xo c :
    (n < CLIMB)%nat -> xo * p2 n <= a -> a < (xo + 1) * p2 n ->
    exists vis,
      vt_seek cr c (hash_nodes cr bs n d a)
      = Ok (Some (ref_node cr bs (d + n) xo), cs_push_nodes c (ref_node cr bs d a :: vis)) /\
      Forall (is_ref cr bs) vis.
  Proof.
    intros Hn H1 H2.
    destruct (verify_tree_seek_ref cr bs total_fits 0 d a n xo c Hn H1 H2) as (vis & Hv & Hvis).
    exists vis. split; [|exact Hvis].
    rewrite verify_tree_eq in Hv. cbn [vt_untrusted bind ds_nodes] in Hv.
    unfold hash_nodes in Hv at 1. cbv zeta iota in Hv.
    apply bind_ok in Hv. destruct Hv as ([root c1] & Hs & Hm). cbn [vt_main] in Hm. injection Hm as <- <-.
    exact Hs.
  Qed.
End SeekVerifier.

Lemma path_idx_depth_ub : forall n d a x, In x (path_idx n d a) -> (fst x < d + n)%nat.
Proof.
  induction n as [|n IH]; intros d a x Hx; cbn [path_idx] in Hx; [destruct Hx|].
  destruct Hx as [<-|Hx]; [cbn [fst]; lia|]. apply IH in Hx. lia.
Qed.

Lemma contains_desc d n a xo :
  xo * p2 n <= a -> a < (xo + 1) * p2 n ->
  it_contains (it_at (N.of_nat (d + n)) xo) (ft_index (N.of_nat d) a) = true.
Proof.
  intros H1 H2. pose proof (p2_pos d) as Hpd. pose proof (p2_pos n) as Hpn.
  apply (it_contains_spec _ _ (wf_at _ _)).
  pose proof (lo_at (N.of_nat (d + n)) xo) as Hlo. pose proof (hi_at (N.of_nat (d + n)) xo) as Hhi.
  fold (p2 (d + n)) in Hlo, Hhi.
  pose proof (ft_index_succ (N.of_nat d) a) as Hix. fold (p2 d) in Hix.
  assert (xo * p2 (d + n) <= a * p2 d).
  { rewrite p2_add. apply (N.mul_le_mono_r _ _ (p2 d)) in H1. lia. }
  assert ((a + 1) * p2 d <= (xo + 1) * p2 (d + n)).
  { rewrite p2_add. assert (a + 1 <= (xo + 1) * p2 n) by lia.
    apply (N.mul_le_mono_r _ _ (p2 d)) in H0. lia. }
  lia.
Qed.

Section SeekSections.
  Variable cr : crypto.
  Variable bs : list bytes.
  Hypothesis total_fits : sumN (map len bs) <= u64_max.
  Variable t : mtree.
  Variable tf : file.
  Variable w : N.
  Hypothesis Hlook : lookups cr t tf bs w.
  Hypothesis Hroots : t_roots t = ref_roots cr bs w.
  Hypothesis H64 : 2 * w <= u64_max.

  (* hash section + seek inside the sub-tree (d0 + kk, o) above the node (d0, a0) *)
  Lemma hash_seek_section c d0 a0 kk o bytes nodes last :
    o * p2 kk <= a0 -> a0 < (o + 1) * p2 kk -> (o + 1) * p2 (d0 + kk) <= w ->
    seek_in_range (prefix_size bs (o * p2 (d0 + kk))) (prefix_size bs ((o + 1) * p2 (d0 + kk))) bytes ->
    exists S sk ns vis,
      seek_untrusted_tree t tf (ft_index (N.of_nat (d0 + kk)) o) bytes = Ok S /\
      block_and_seek_proof t tf (Some (mkIndexed false (ft_index (N.of_nat d0) a0) nodes last)) true S
        (ft_index (N.of_nat (d0 + kk)) o) lp_empty = Ok (mkLp sk (Some ns) None None) /\
      verify_tree cr None (Some (mkDataHash (ft_index (N.of_nat d0) a0) ns)) (option_map (mkDataSeek bytes) sk) c
        = Ok (Some (ref_node cr bs (d0 + kk) o), cs_push_nodes c vis) /\
      Forall (is_ref cr bs) vis /\ In (ref_node cr bs d0 a0) vis.
  Proof.
    intros H1 H2 Hw Hr.
    pose proof (depth_climb (d0 + kk) o w Hw H64) as Hc.
    pose proof (p2_pos d0) as Hpd. pose proof (p2_pos kk) as Hpk.
    assert (Hin : (a0 + 1) * p2 d0 <= w).
    { rewrite p2_add in Hw. assert (a0 + 1 <= (o + 1) * p2 kk) by lia.
      apply (N.mul_le_mono_r _ _ (p2 d0)) in H. lia. }
    destruct (seek_untrusted_spec cr bs total_fits t tf w Hlook (d0 + kk) o bytes Hroots H64 Hw Hr)
      as (dS & aS & HS & HdS & S1 & S2).
    exists (ft_index (N.of_nat dS) aS).
    assert (Hbs : block_and_seek_proof t tf (Some (mkIndexed false (ft_index (N.of_nat d0) a0) nodes last)) true
                    (ft_index (N.of_nat dS) aS) (ft_index (N.of_nat (d0 + kk)) o) lp_empty
                  = Ok (mkLp (lp_seek (fst (semit cr bs dS aS (path_idx kk d0 a0) lp_empty [ref_node cr bs d0 a0])))
                             (Some (snd (semit cr bs dS aS (path_idx kk d0 a0) lp_empty [ref_node cr bs d0 a0])))
                             (lp_upgrade (fst (semit cr bs dS aS (path_idx kk d0 a0) lp_empty [ref_node cr bs d0 a0])))
                             (lp_additional (fst (semit cr bs dS aS (path_idx kk d0 a0) lp_empty [ref_node cr bs d0 a0]))))).
    { unfold block_and_seek_proof. cbn [ix_index ix_value].
      rewrite FlatTreeFacts.it_new_index, (contains_desc d0 kk a0 o H1 H2). cbn [negb bind].
      rewrite (Hlook d0 a0 Hin). cbn [bind]. rewrite FlatTreeFacts.it_new_index.
      rewrite (block_loop_seek cr bs total_fits t tf w Hlook dS aS kk d0 a0 CLIMB [ref_node cr bs d0 a0] o);
        [|lia|exact Hc|exact H1|exact H2|exact Hw].
      cbn [bind rev app]. reflexivity. }
    destruct (semit_path cr bs total_fits dS aS kk d0 a0 lp_empty [ref_node cr bs d0 a0]) as [E|(l1 & [dy oy] & l2 & E1 & Hy & E2)].
    - (* no sibling is hit: the plain hash section, no seek section *)
      rewrite E in Hbs. cbn [fst snd lp_seek lp_upgrade lp_additional lp_empty app] in Hbs.
      destruct (verify_tree_hash_ref cr bs total_fits d0 a0 kk o c ltac:(lia) H1 H2) as (vis & Hv & Hvis & _).
      exists None, (hash_nodes cr bs kk d0 a0), (ref_node cr bs d0 a0 :: vis).
      split; [exact HS|]. split; [exact Hbs|]. split; [exact Hv|].
      split; [constructor; [apply ref_node_is_ref|exact Hvis]|left; reflexivity].
    - rewrite E2 in Hbs. cbn [fst snd put_seek lp_seek lp_nodes lp_upgrade lp_additional lp_empty app] in Hbs.
      assert (Hyin : In (dy, oy) (path_idx kk d0 a0)) by (rewrite E1; apply in_or_app; right; left; reflexivity).
      pose proof (path_idx_depth_ub _ _ _ _ Hyin) as Hub. cbn [fst] in Hub.
      pose proof (seek_hit_inside dS aS _ Hy) as [Hi _]. unfold inside_S in Hi. cbn [fst snd] in Hi.
      apply it_contains_node in Hi. destruct Hi as (Hd & J1 & J2).
      destruct (vt_seek_ref cr bs total_fits dS aS (dy - dS) oy c ltac:(lia) J1 J2) as (vis1 & Hvs & Hvis1).
      replace (dS + (dy - dS))%nat with dy in Hvs by lia.
      set (ns := ref_node cr bs d0 a0 :: map (rn cr bs) (l1 ++ l2)) in *.
      assert (Hlen : (length (l1 ++ l2) + 1 = kk)%nat).
      { pose proof (path_idx_len kk d0 a0) as L. rewrite E1, app_length in L. cbn [length] in L.
        rewrite app_length. lia. }
      destruct (climb_serves cr bs total_fits kk d0 a0 (S (S (length ns))) [ref_node cr bs d0 a0] o
                  (mkQ (map (rn cr bs) (l1 ++ l2)) (Some (rn cr bs (dy, oy))))) as (vis2 & Hcl & Hvis2 & _);
        [unfold ns; cbn [length]; rewrite map_length; lia|exact H1|exact H2|apply (serves_path cr bs kk d0 a0 l1 (dy, oy) l2 E1)|].
      exists (Some (hash_nodes cr bs (dy - dS) dS aS)), ns, ((ref_node cr bs dS aS :: vis1) ++ (ref_node cr bs d0 a0 :: vis2)).
      split; [exact HS|]. split; [exact Hbs|]. split.
      { rewrite verify_tree_eq. cbn [vt_untrusted bind option_map ds_nodes dh_index dh_nodes]. cbv zeta iota.
        rewrite Hvs. cbn [bind]. unfold vt_main. rewrite FlatTreeFacts.it_new_index.
        unfold q_shift at 1. cbn [q_extra q_nodes]. unfold ns at 1 2.
        change (it_index (it_at (N.of_nat d0) a0)) with (ft_index (N.of_nat d0) a0).
        unfold rn at 1. cbn [fst snd]. rewrite ref_node_index.
        destruct (N.eqb_spec (ft_index (N.of_nat dy) oy) (ft_index (N.of_nat d0) a0)) as [Ei|_].
        { exfalso. apply (path_idx_not_self kk d0 a0 (dy, oy) Hyin). exact Ei. }
        rewrite ref_node_index, N.eqb_refl. cbn [bind].
        change (rn cr bs (dy, oy)) with (ref_node cr bs dy oy) in Hcl. rewrite Hcl. cbn [bind]. rewrite cs_push_push. reflexivity. }
      split.
      { apply Forall_app. split; constructor; try apply ref_node_is_ref; assumption. }
      apply in_or_app. right. left. reflexivity.
  Qed.

  (* block section + seek inside the sub-tree (kk, o) above the block i *)
  Lemma block_seek_section c i kk o bytes nodes last :
    o * p2 kk <= i -> i < (o + 1) * p2 kk -> (o + 1) * p2 kk <= w ->
    seek_in_range (prefix_size bs (o * p2 kk)) (prefix_size bs ((o + 1) * p2 kk)) bytes ->
    exists S sk ns vis,
      seek_untrusted_tree t tf (ft_index (N.of_nat kk) o) bytes = Ok S /\
      block_and_seek_proof t tf (Some (mkIndexed true (2 * i) nodes last)) true S
        (ft_index (N.of_nat kk) o) lp_empty = Ok (mkLp sk (Some ns) None None) /\
      verify_tree cr (Some (mkDataBlock i (blk bs i) ns)) None (option_map (mkDataSeek bytes) sk) c
        = Ok (Some (ref_node cr bs kk o), cs_push_nodes c vis) /\
      Forall (is_ref cr bs) vis /\ In (ref_node cr bs 0 i) vis.
  Proof.
    intros H1 H2 Hw Hr.
    pose proof (depth_climb kk o w Hw H64) as Hc. pose proof (p2_pos kk) as Hpk.
    assert (Hi64 : i * 2 <= u64_max) by (unfold u64_max in *; nia).
    destruct (seek_untrusted_spec cr bs total_fits t tf w Hlook kk o bytes Hroots H64 Hw Hr)
      as (dS & aS & HS & HdS & S1 & S2).
    exists (ft_index (N.of_nat dS) aS).
    assert (Hbs : block_and_seek_proof t tf (Some (mkIndexed true (2 * i) nodes last)) true
                    (ft_index (N.of_nat dS) aS) (ft_index (N.of_nat kk) o) lp_empty
                  = Ok (mkLp (lp_seek (fst (semit cr bs dS aS (path_idx kk 0 i) lp_empty [])))
                             (Some (snd (semit cr bs dS aS (path_idx kk 0 i) lp_empty [])))
                             (lp_upgrade (fst (semit cr bs dS aS (path_idx kk 0 i) lp_empty [])))
                             (lp_additional (fst (semit cr bs dS aS (path_idx kk 0 i) lp_empty []))))).
    { unfold block_and_seek_proof. cbn [ix_index ix_value].
      rewrite FlatTreeFacts.it_new_index, it_contains_covers. unfold covers. cbn [fst snd].
      destruct (N.leb_spec (o * p2 kk) i) as [_|L]; [|lia].
      destruct (N.ltb_spec i ((o + 1) * p2 kk)) as [_|L]; [|lia]. cbn [andb negb bind].
      rewrite it_new_leaf2. change 0 with (N.of_nat 0). change (N.of_nat kk) with (N.of_nat (0 + kk)).
      rewrite (block_loop_seek cr bs total_fits t tf w Hlook dS aS kk 0 i CLIMB [] o);
        [|lia|cbn [Nat.add]; exact Hc|exact H1|exact H2|cbn [Nat.add]; exact Hw].
      cbn [bind rev]. reflexivity. }
    destruct (semit_path cr bs total_fits dS aS kk 0 i lp_empty []) as [E|(l1 & [dy oy] & l2 & E1 & Hy & E2)].
    - rewrite E in Hbs. cbn [fst snd lp_seek lp_upgrade lp_additional lp_empty app] in Hbs.
      destruct (verify_tree_ref cr bs total_fits i kk o c Hc H1 H2 Hi64) as (vis & Hv & Hvis & _).
      exists None, (path_nodes cr bs kk i), (ref_node cr bs 0 i :: vis).
      split; [exact HS|]. split; [exact Hbs|]. split; [exact Hv|].
      split; [constructor; [apply ref_node_is_ref|exact Hvis]|left; reflexivity].
    - rewrite E2 in Hbs. cbn [fst snd put_seek lp_seek lp_nodes lp_upgrade lp_additional lp_empty app] in Hbs.
      assert (Hyin : In (dy, oy) (path_idx kk 0 i)) by (rewrite E1; apply in_or_app; right; left; reflexivity).
      pose proof (path_idx_depth_ub _ _ _ _ Hyin) as Hub. cbn [fst Nat.add] in Hub.
      pose proof (seek_hit_inside dS aS _ Hy) as [Hi _]. unfold inside_S in Hi. cbn [fst snd] in Hi.
      apply it_contains_node in Hi. destruct Hi as (Hd & J1 & J2).
      destruct (vt_seek_ref cr bs total_fits dS aS (dy - dS) oy c ltac:(lia) J1 J2) as (vis1 & Hvs & Hvis1).
      replace (dS + (dy - dS))%nat with dy in Hvs by lia.
      set (ns := map (rn cr bs) (l1 ++ l2)) in *.
      assert (Hlen : (length (l1 ++ l2) + 1 = kk)%nat).
      { pose proof (path_idx_len kk 0 i) as L. rewrite E1, app_length in L. cbn [length] in L.
        rewrite app_length. lia. }
      destruct (climb_serves cr bs total_fits kk 0 i (S (S (length ns))) [ref_node cr bs 0 i] o
                  (mkQ ns (Some (rn cr bs (dy, oy))))) as (vis2 & Hcl & Hvis2 & _);
        [unfold ns; rewrite map_length; lia|exact H1|exact H2|apply (serves_path cr bs kk 0 i l1 (dy, oy) l2 E1)|].
      exists (Some (hash_nodes cr bs (dy - dS) dS aS)), ns, ((ref_node cr bs dS aS :: vis1) ++ (ref_node cr bs 0 i :: vis2)).
      split; [exact HS|]. split; [exact Hbs|]. split.
      { rewrite verify_tree_eq. cbn [vt_untrusted bind option_map ds_nodes db_index db_value db_nodes].
        rewrite NoPanic.mul64_ok by exact Hi64. cbn [bind]. cbv zeta iota.
        rewrite Hvs. cbn [bind]. unfold vt_main. rewrite (N.mul_comm i 2), it_new_leaf2.
        change (it_index (it_at 0 i)) with (ft_index 0 i). rewrite ft_index_leaf.
        change (block_node cr (2 * i) (blk bs i)) with (ref_node cr bs 0 i). cbn [bind].
        change (it_at 0 i) with (it_at (N.of_nat 0) i).
        cbn [Nat.add] in Hcl. change (rn cr bs (dy, oy)) with (ref_node cr bs dy oy) in Hcl. rewrite Hcl. cbn [bind]. rewrite cs_push_push. reflexivity. }
      split.
      { apply Forall_app. split; constructor; try apply ref_node_is_ref; assumption. }
      apply in_or_app. right. left. reflexivity.
  Qed.
End SeekSections.

(* ====================================================================================== *)
(* the end of verify_proof after a tree section whose root the replica stores               *)
(* ====================================================================================== *)

Section SectionEnd.
  Variable cr : crypto.
  Variable bs : list bytes.
  Hypothesis total_fits : sumN (map len bs) <= u64_max.

  (* no upgrade: the recomputed root is compared with the stored node *)
  Lemma verify_section_stored rt rtf fork block hash seek vis dk o n0 pk :
    verify_tree cr block hash seek (tree_changeset rt)
      = Ok (Some (ref_node cr bs dk o), cs_push_nodes (tree_changeset rt) vis) ->
    optional_node rt rtf (ft_index (N.of_nat dk) o) = Ok (Some n0) ->
    n_hash n0 = n_hash (ref_at cr bs (ft_index (N.of_nat dk) o)) ->
    Forall (is_ref cr bs) vis ->
    let cs := cs_push_nodes (tree_changeset rt) vis in
    verify_proof cr rt rtf (mkProof fork block hash seek None) pk = Ok cs /\
    cs_upgraded cs = false /\ commitable rt cs = true /\ cs_roots cs = t_roots rt /\
    Forall (is_ref cr bs) (cs_nodes cs) /\ (forall n, In n vis -> In n (cs_nodes cs)).
  Proof.
    intros Hvt Hn0 Hh Hvis cs.
    assert (Hv : verify_proof cr rt rtf (mkProof fork block hash seek None) pk = Ok cs).
    { unfold verify_proof. cbn [p_block p_hash p_seek p_upgrade p_fork]. rewrite Hvt. cbn [bind].
      rewrite ref_node_index, (optional_required _ _ _ _ Hn0). cbn [bind].
      assert (B : bytes_eqb (n_hash n0) (n_hash (ref_node cr bs dk o)) = true).
      { apply bytes_eqb_eq. rewrite Hh, ref_at_index. reflexivity. }
      rewrite B. reflexivity. }
    split; [exact Hv|]. split; [reflexivity|]. split.
    { unfold commitable, cs. cbn [cs_push_nodes tree_changeset cs_orig_fork cs_orig_length cs_upgraded].
      rewrite N.eqb_refl. cbn [andb]. apply N.leb_le. lia. }
    split; [reflexivity|]. unfold cs. rewrite cs_nodes_push_fresh. split; [exact Hvis|auto].
  Qed.

  (* with an upgrade r -> u (additional nodes up to w): the recomputed root lies below r, it stays the extra
     node of the upgrade's queue and is compared with the stored node at the end *)
  Lemma verify_below_upgrade rt rtf r u w fork sg pk block hash seek vis dk o n0 :
    t_roots rt = ref_roots cr bs r -> t_length rt = r -> t_byte_length rt = prefix_size bs r ->
    0 < r -> r < u -> u <= w -> 2 * w <= u64_max ->
    (o + 1) * p2 dk <= r ->
    verify_tree cr block hash seek (tree_changeset rt)
      = Ok (Some (ref_node cr bs dk o), cs_push_nodes (tree_changeset rt) vis) ->
    optional_node rt rtf (ft_index (N.of_nat dk) o) = Ok (Some n0) ->
    n_hash n0 = n_hash (ref_at cr bs (ft_index (N.of_nat dk) o)) ->
    Forall (is_ref cr bs) vis ->
    length sg = 64%nat ->
    cr_verify cr pk (signable (tree_hash cr (ref_roots cr bs w)) w fork) sg = true ->
    exists cs,
      verify_proof cr rt rtf
        (mkProof fork block hash seek
           (Some (mkDataUpgrade r (u - r) (upg_nodes cr bs r u) (addl_nodes cr bs u w) sg))) pk = Ok cs /\
      cs_roots cs = ref_roots cr bs w /\ cs_length cs = w /\ cs_byte_length cs = prefix_size bs w /\
      cs_fork cs = fork /\ cs_upgraded cs = true /\ cs_signature cs = Some sg /\
      cs_hash cs = Some (tree_hash cr (ref_roots cr bs w)) /\
      cs_ancestors cs = r /\ Forall (is_ref cr bs) (cs_nodes cs) /\
      (forall n, In n vis -> In n (cs_nodes cs)) /\ commitable rt cs = true.
  Proof.
    intros Hroots Hrl Hrb Hr Hru Huw H64 Htop Hvt Hn0 Hh Hvis Hs64 Hver.
    set (c1 := cs_push_nodes (tree_changeset rt) vis) in *.
    assert (V : vinv cr bs c1 r).
    { pose proof (vinv_tree_changeset cr bs rt r Hroots Hrl Hrb) as V. exact V. }
    pose proof (upg_idx_tiles bs total_fits r u Hr Hru ltac:(lia)) as T.
    destruct (verify_upgrade_ok2 cr bs total_fits c1 r u w fork (upg_nodes cr bs r u) sg pk
                (Some (ref_node cr bs dk o)) (mkQ [] (Some (ref_node cr bs dk o))) Hr Hru Huw H64 V)
      as (c2 & Hvu & V2 & G2 & U2); [|exact Hs64|exact Hver|].
    { apply serves_plain. intros x [= <-]. apply Forall_forall. intros n Hn.
      apply in_map_iff in Hn. destruct Hn as (y & <- & Hy). unfold rn. rewrite !ref_node_index.
      destruct (tiles_in _ _ _ y T Hy) as [Ty _].
      pose proof (idx_ge y) as G. pose proof (idx_lt (dk, o) r Htop) as Lt. unfold TreeRef.idx in *.
      cbn [fst snd] in *. lia. }
    cbn [q_extra] in Hvu.
    exists (cs_set_hash_sig (cs_set_fork c2 fork) (tree_hash cr (ref_roots cr bs w)) sg).
    split.
    { unfold verify_proof. cbn [p_block p_hash p_seek p_upgrade p_fork]. rewrite Hvt. cbn [bind].
      rewrite Hvu. cbn [bind]. rewrite ref_node_index.
      rewrite (optional_required _ _ _ _ Hn0). cbn [bind].
      assert (B : bytes_eqb (n_hash n0) (n_hash (ref_node cr bs dk o)) = true).
      { apply bytes_eqb_eq. rewrite Hh, ref_at_index. reflexivity. }
      rewrite B. reflexivity. }
    pose proof (vinv_roots cr bs c2 w V2) as R2. destruct V2 as (L2 & _ & B2).
    pose proof G2 as (A2 & _ & _ & _ & _ & O1 & O2 & _).
    cbn [c1 cs_push_nodes tree_changeset cs_ancestors cs_orig_length cs_orig_fork] in A2, O1, O2.
    assert (Hn1 : Forall (is_ref cr bs) (cs_nodes c1)).
    { unfold c1. rewrite cs_nodes_push_fresh. exact Hvis. }
    pose proof (cs_nodes_grown cr bs c1 c2 G2 Hn1) as Hn2.
    assert (Hsub : forall n, In n (cs_nodes c1) -> In n (cs_nodes c2)).
    { destruct G2 as (_ & _ & _ & _ & _ & _ & _ & new & E & _). intros n. unfold cs_nodes.
      rewrite !rev_append_rev, !app_nil_r, E, rev_app_distr. intros Hi. apply in_or_app. left. exact Hi. }
    cbn [cs_set_hash_sig cs_set_fork cs_roots cs_length cs_byte_length cs_fork cs_upgraded cs_signature
         cs_hash cs_ancestors].
    split; [exact R2|]. split; [exact L2|]. split; [exact B2|]. split; [reflexivity|]. split; [exact U2|].
    split; [reflexivity|]. split; [reflexivity|]. split; [congruence|]. split; [exact Hn2|]. split.
    { intros n Hn. apply Hsub. unfold c1. rewrite cs_nodes_push_fresh. exact Hn. }
    unfold commitable. cbn [cs_set_hash_sig cs_set_fork cs_orig_fork cs_orig_length cs_upgraded].
    rewrite O1, O2, U2, !N.eqb_refl. reflexivity.
  Qed.

  (* the replica's own count for the node (d0, a0), not the head case, in (depth, offset) coordinates *)
  Lemma node_count_coord rt rtf d0 a0 k L :
    missing_nodes rt rtf (ft_index (N.of_nat d0) a0) = Ok k -> (a0 + 1) * p2 d0 <= t_length rt ->
    let kk := N.to_nat k in let o := a0 / p2 kk in
    (o + 1) * p2 (d0 + kk) <= t_length rt -> t_length rt <= L ->
    (kk < CLIMB)%nat /\ o * p2 kk <= a0 /\ a0 < (o + 1) * p2 kk /\
    nodes_to_root (ft_index (N.of_nat d0) a0) k (2 * L) = Ok (ft_index (N.of_nat (d0 + kk)) o) /\
    exists n0, optional_node rt rtf (ft_index (N.of_nat (d0 + kk)) o) = Ok (Some n0).
  Proof.
    intros Hm Hin kk o Htop HL.
    destruct (missing_nodes_coord rt rtf d0 a0 k Hm Hin) as (Hfuel & Hend). fold kk in Hfuel, Hend. fold o in Hend.
    pose proof (p2_pos kk) as Hpk.
    split; [exact Hfuel|]. split; [unfold o; nia|]. split.
    { unfold o. pose proof (N.mod_lt a0 (p2 kk) ltac:(lia)). pose proof (N.div_mod' a0 (p2 kk)). nia. }
    split.
    { replace k with (N.of_nat kk) at 1 by (unfold kk; lia).
      apply (nodes_to_root_coord d0 a0 kk L Hfuel). fold o. lia. }
    destruct Hend as [Hc|Hs]; [|exact Hs].
    rewrite covers_head_false in Hc by exact Htop. discriminate Hc.
  Qed.
End SectionEnd.

(* ====================================================================================== *)
(* seek + block / hash section, without and with an upgrade                                *)
(* ====================================================================================== *)

Section SeekClasses.
  Variable cr : crypto.
  Variable bs : list bytes.
  Hypothesis total_fits : sumN (map len bs) <= u64_max.

  (* block i below the replica's length, the replica's own node count, a seek inside the requested sub-tree *)
  Theorem seek_block_served t tf rt rtf w i k bytes pk :
    lookups cr t tf bs w -> t_length t = w -> t_roots t = ref_roots cr bs w ->
    t_length rt <= w -> 2 * w <= u64_max ->
    (forall j n, optional_node rt rtf j = Ok (Some n) -> n_hash n = n_hash (ref_at cr bs j)) ->
    i < t_length rt ->
    missing_nodes rt rtf (2 * i) = Ok k ->
    let kk := N.to_nat k in let o := i / p2 kk in
    (o + 1) * p2 kk <= t_length rt ->     (* not the head case *)
    seek_in_range (prefix_size bs (o * p2 kk)) (prefix_size bs ((o + 1) * p2 kk)) bytes ->
    exists sk ns cs,
      create_valueless_proof t tf (Some (mkReqBlock i k)) None (Some (mkReqSeek bytes)) None
        = Ok (mkVproof (t_fork t) (Some (mkDataHash i ns)) None (option_map (mkDataSeek bytes) sk) None) /\
      verify_proof cr rt rtf
        (mkProof (t_fork t) (Some (mkDataBlock i (blk bs i) ns)) None (option_map (mkDataSeek bytes) sk) None) pk = Ok cs /\
      cs_upgraded cs = false /\ commitable rt cs = true /\ cs_roots cs = t_roots rt /\
      Forall (is_ref cr bs) (cs_nodes cs) /\ In (ref_node cr bs 0 i) (cs_nodes cs).
  Proof.
    intros Hlook Hl Hroots Hrw H64 Hrep Hir Hm kk o Htop Hrange.
    assert (Hm' : missing_nodes rt rtf (ft_index (N.of_nat 0) i) = Ok k).
    { change (N.of_nat 0) with 0. rewrite ft_index_leaf. exact Hm. }
    destruct (node_count_coord bs total_fits rt rtf 0 i k w Hm' ltac:(rewrite p2_0; lia) Htop Hrw)
      as (Hfuel & Ho1 & Ho2 & Hroot & n0 & Hn0).
    fold kk in Hfuel, Ho1, Ho2, Hroot, Hn0. fold o in Ho1, Ho2, Hroot, Hn0. cbn [Nat.add] in Hroot, Hn0.
    change (N.of_nat 0) with 0 in Hroot. rewrite ft_index_leaf in Hroot.
    destruct (block_seek_section cr bs total_fits t tf w Hlook Hroots H64 (tree_changeset rt) i kk o bytes k i
                Ho1 Ho2 ltac:(lia) Hrange) as (S & sk & ns & vis & HS & Hbs & Hvt & Hvis & Hleaf).
    exists sk, ns.
    destruct (verify_section_stored cr bs total_fits rt rtf (t_fork t) _ _ _ vis kk o n0 pk Hvt Hn0 (Hrep _ _ Hn0) Hvis)
      as (Hv & Hu & Hcm & Hr & Hn & Hsub).
    eexists. split; [|split; [exact Hv|]].
    2:{ split; [exact Hu|]. split; [exact Hcm|]. split; [exact Hr|]. split; [exact Hn|]. apply Hsub, Hleaf. }
    unfold create_valueless_proof, normalize_indexed. cbn [rb_index rb_nodes rs_bytes bind].
    unfold u64_max in H64.
    rewrite NoPanic.mul64_ok by (unfold u64_max; lia). cbn [bind]. rewrite (N.mul_comm i 2), Hl.
    destruct (N.leb_spec (2 * w) 0) as [L1|_]; [lia|].
    destruct (N.ltb_spec (2 * w) (2 * w)) as [L2|_]; [lia|]. cbn [orb negb andb bind ix_last ix_index ix_nodes].
    rewrite Hroot. cbn [bind]. rewrite HS. cbn [bind]. rewrite Hbs.
    cbn [bind negb lp_seek lp_nodes lp_upgrade lp_additional]. destruct sk; reflexivity.
  Qed.

  (* the node (d0, a0) below the replica's length, the replica's own node count, a seek inside the sub-tree *)
  Theorem seek_hash_served t tf rt rtf w d0 a0 k bytes pk :
    lookups cr t tf bs w -> t_length t = w -> t_roots t = ref_roots cr bs w ->
    t_length rt <= w -> 2 * w <= u64_max ->
    (forall j n, optional_node rt rtf j = Ok (Some n) -> n_hash n = n_hash (ref_at cr bs j)) ->
    (a0 + 1) * p2 d0 <= t_length rt ->
    missing_nodes rt rtf (ft_index (N.of_nat d0) a0) = Ok k ->
    let kk := N.to_nat k in let o := a0 / p2 kk in
    (o + 1) * p2 (d0 + kk) <= t_length rt ->     (* not the head case *)
    seek_in_range (prefix_size bs (o * p2 (d0 + kk))) (prefix_size bs ((o + 1) * p2 (d0 + kk))) bytes ->
    let idx := ft_index (N.of_nat d0) a0 in
    exists sk ns cs,
      create_valueless_proof t tf None (Some (mkReqBlock idx k)) (Some (mkReqSeek bytes)) None
        = Ok (mkVproof (t_fork t) None (Some (mkDataHash idx ns)) (option_map (mkDataSeek bytes) sk) None) /\
      verify_proof cr rt rtf
        (mkProof (t_fork t) None (Some (mkDataHash idx ns)) (option_map (mkDataSeek bytes) sk) None) pk = Ok cs /\
      cs_upgraded cs = false /\ commitable rt cs = true /\ cs_roots cs = t_roots rt /\
      Forall (is_ref cr bs) (cs_nodes cs) /\ In (ref_node cr bs d0 a0) (cs_nodes cs).
  Proof.
    intros Hlook Hl Hroots Hrw H64 Hrep Hin Hm kk o Htop Hrange idx. subst idx.
    destruct (node_count_coord bs total_fits rt rtf d0 a0 k w Hm Hin Htop Hrw)
      as (Hfuel & Ho1 & Ho2 & Hroot & n0 & Hn0).
    fold kk in Hfuel, Ho1, Ho2, Hroot, Hn0. fold o in Ho1, Ho2, Hroot, Hn0.
    destruct (hash_seek_section cr bs total_fits t tf w Hlook Hroots H64 (tree_changeset rt) d0 a0 kk o bytes k
                (ft_right_span (ft_index (N.of_nat d0) a0) / 2) Ho1 Ho2 ltac:(lia) Hrange) as (S & sk & ns & vis & HS & Hbs & Hvt & Hvis & Hleaf).
    exists sk, ns.
    destruct (verify_section_stored cr bs total_fits rt rtf (t_fork t) _ _ _ vis (d0 + kk) o n0 pk Hvt Hn0 (Hrep _ _ Hn0) Hvis)
      as (Hv & Hu & Hcm & Hr & Hn & Hsub).
    eexists. split; [|split; [exact Hv|]].
    2:{ split; [exact Hu|]. split; [exact Hcm|]. split; [exact Hr|]. split; [exact Hn|]. apply Hsub, Hleaf. }
    assert (Hw0 : 0 < w) by (pose proof (p2_pos d0); nia).
    unfold create_valueless_proof, normalize_indexed. cbn [rb_index rb_nodes rs_bytes bind]. rewrite Hl.
    unfold u64_max in H64.
    destruct (N.leb_spec (2 * w) 0) as [L1|_]; [lia|].
    destruct (N.ltb_spec (2 * w) (2 * w)) as [L2|_]; [lia|]. cbn [orb negb andb bind ix_last ix_index ix_nodes].
    rewrite Hroot. cbn [bind]. rewrite HS. cbn [bind]. rewrite Hbs.
    cbn [bind negb lp_seek lp_nodes lp_upgrade lp_additional]. destruct sk; reflexivity.
  Qed.

  (* the prover's upgrade part after an untrusted section p (block / hash / seek nodes present) *)
  Lemma upgrade_after_section t tf w r u sg ix is_seek sub sk ns :
    lookups cr t tf bs w -> t_signature t = Some sg ->
    0 < r -> r < u -> u <= w -> 2 * w <= u64_max ->
    (p1 <- upgrade_proof t tf ix is_seek (2 * r) (2 * u) sub (mkLp sk (Some ns) None None) ;;
     if 2 * u <? 2 * w then additional_upgrade_proof t tf (2 * u) (2 * w) p1 else Ok p1)
    = Ok (mkLp sk (Some ns) (Some (upg_nodes cr bs r u))
               (if u <? w then Some (map (rn cr bs) (upg_idx g64 0 u w)) else None)).
  Proof.
    intros Hlook Hsg Hr Hru Huw H64. unfold u64_max in H64.
    unfold upgrade_proof. destruct (N.eqb_spec (2 * r) 0) as [E|_]; [lia|].
    change (it_new 0) with (mkIter (2 * 0) 0 2).
    assert (Hns : nosub true (mkLp sk (Some ns) None None) sub (2 * u)) by (right; left; discriminate).
    rewrite (upgrade_loop_spec cr bs total_fits t tf w Hlook ix is_seek sub true r u _ Hr Hru Huw Hns g64 CLIMB 0 []);
      [|apply climb_64|apply climb_64|apply pref_0|rewrite p2_64; lia|lia].
    cbn [bind app lp_seek lp_nodes lp_upgrade lp_additional].
    rewrite (additional_tail cr bs total_fits t tf w u sg) by first [assumption|reflexivity|unfold u64_max; lia].
    reflexivity.
  Qed.

  (* seek + block below the replica's length + (partial) upgrade *)
  Theorem seek_block_upgrade_accepted t tf rt rtf w r u i k bytes sg pk :
    lookups cr t tf bs w -> t_length t = w -> t_roots t = ref_roots cr bs w -> t_signature t = Some sg ->
    t_roots rt = ref_roots cr bs r -> t_length rt = r -> t_byte_length rt = prefix_size bs r ->
    (forall j n, optional_node rt rtf j = Ok (Some n) -> n_hash n = n_hash (ref_at cr bs j)) ->
    0 < r -> r < u -> u <= w -> 2 * w <= u64_max -> i < r ->
    missing_nodes rt rtf (2 * i) = Ok k ->
    let kk := N.to_nat k in let o := i / p2 kk in
    (o + 1) * p2 kk <= r ->     (* not the head case *)
    seek_in_range (prefix_size bs (o * p2 kk)) (prefix_size bs ((o + 1) * p2 kk)) bytes ->
    length sg = 64%nat ->
    cr_verify cr pk (signable (tree_hash cr (ref_roots cr bs w)) w (t_fork t)) sg = true ->
    let up := mkDataUpgrade r (u - r) (upg_nodes cr bs r u) (addl_nodes cr bs u w) sg in
    exists sk ns cs,
      create_valueless_proof t tf (Some (mkReqBlock i k)) None (Some (mkReqSeek bytes)) (Some (mkReqUpgrade r (u - r)))
        = Ok (mkVproof (t_fork t) (Some (mkDataHash i ns)) None (option_map (mkDataSeek bytes) sk) (Some up)) /\
      verify_proof cr rt rtf
        (mkProof (t_fork t) (Some (mkDataBlock i (blk bs i) ns)) None (option_map (mkDataSeek bytes) sk) (Some up)) pk = Ok cs /\
      cs_roots cs = ref_roots cr bs w /\ cs_length cs = w /\ cs_byte_length cs = prefix_size bs w /\
      cs_fork cs = t_fork t /\ cs_upgraded cs = true /\ cs_signature cs = Some sg /\
      cs_hash cs = Some (tree_hash cr (ref_roots cr bs w)) /\
      cs_ancestors cs = r /\ Forall (is_ref cr bs) (cs_nodes cs) /\
      In (ref_node cr bs 0 i) (cs_nodes cs) /\ commitable rt cs = true.
  Proof.
    intros Hlook Hl Hroots Hsg Hrroots Hrl Hrb Hrep Hr Hru Huw H64 Hir Hm kk o Htop Hrange Hs64 Hver up.
    assert (Hm' : missing_nodes rt rtf (ft_index (N.of_nat 0) i) = Ok k).
    { change (N.of_nat 0) with 0. rewrite ft_index_leaf. exact Hm. }
    destruct (node_count_coord bs total_fits rt rtf 0 i k u Hm' ltac:(rewrite p2_0; lia) ltac:(rewrite Hrl; exact Htop) ltac:(lia))
      as (Hfuel & Ho1 & Ho2 & Hroot & n0 & Hn0).
    fold kk in Hfuel, Ho1, Ho2, Hroot, Hn0. fold o in Ho1, Ho2, Hroot, Hn0. cbn [Nat.add] in Hroot, Hn0.
    change (N.of_nat 0) with 0 in Hroot. rewrite ft_index_leaf in Hroot.
    destruct (block_seek_section cr bs total_fits t tf w Hlook Hroots H64 (tree_changeset rt) i kk o bytes k i
                Ho1 Ho2 ltac:(lia) Hrange) as (S & sk & ns & vis & HS & Hbs & Hvt & Hvis & Hleaf).
    exists sk, ns.
    destruct (verify_below_upgrade cr bs total_fits rt rtf r u w (t_fork t) sg pk _ _ _ vis kk o n0
                Hrroots Hrl Hrb Hr Hru Huw H64 Htop Hvt Hn0 (Hrep _ _ Hn0) Hvis Hs64 Hver)
      as (cs & Hv & R & L & B & F & U & Sg & Hh & A & Hn & Hsub & Hcm).
    exists cs. split; [|split; [exact Hv|]].
    2:{ repeat (split; [assumption|]). split; [apply Hsub, Hleaf|exact Hcm]. }
    unfold create_valueless_proof, normalize_indexed. cbn [ru_start ru_length rb_index rb_nodes rs_bytes bind].
    unfold u64_max in H64.
    rewrite !NoPanic.mul64_ok by (unfold u64_max; lia). cbn [bind].
    rewrite NoPanic.add64_ok by (unfold u64_max; lia). cbn [bind].
    replace (r * 2 + (u - r) * 2) with (2 * u) by lia. rewrite (N.mul_comm r 2), (N.mul_comm i 2), Hl.
    destruct (N.leb_spec (2 * u) (2 * r)) as [L1|_]; [lia|].
    destruct (N.ltb_spec (2 * w) (2 * u)) as [L2|_]; [lia|]. cbn [orb negb andb bind ix_last ix_index ix_nodes].
    destruct (N.leb_spec (2 * r) (2 * i)) as [L3|_]; [lia|].
    destruct (N.ltb_spec i r) as [_|L4]; [|lia].
    rewrite Hroot. cbn [bind]. rewrite HS. cbn [bind]. rewrite Hbs. cbn [bind negb].
    rewrite (upgrade_after_section t tf w r u sg _ true _ sk ns Hlook Hsg Hr Hru Huw ltac:(unfold u64_max; lia)).
    cbn [bind lp_seek lp_nodes lp_upgrade lp_additional]. rewrite Hsg. unfold up.
    destruct sk; destruct (u <? w); reflexivity.
  Qed.

  (* seek + hash of a node below the replica's length + (partial) upgrade *)
  Theorem seek_hash_upgrade_accepted t tf rt rtf w r u d0 a0 k bytes sg pk :
    lookups cr t tf bs w -> t_length t = w -> t_roots t = ref_roots cr bs w -> t_signature t = Some sg ->
    t_roots rt = ref_roots cr bs r -> t_length rt = r -> t_byte_length rt = prefix_size bs r ->
    (forall j n, optional_node rt rtf j = Ok (Some n) -> n_hash n = n_hash (ref_at cr bs j)) ->
    0 < r -> r < u -> u <= w -> 2 * w <= u64_max -> (a0 + 1) * p2 d0 <= r ->
    missing_nodes rt rtf (ft_index (N.of_nat d0) a0) = Ok k ->
    let kk := N.to_nat k in let o := a0 / p2 kk in
    (o + 1) * p2 (d0 + kk) <= r ->     (* not the head case *)
    seek_in_range (prefix_size bs (o * p2 (d0 + kk))) (prefix_size bs ((o + 1) * p2 (d0 + kk))) bytes ->
    length sg = 64%nat ->
    cr_verify cr pk (signable (tree_hash cr (ref_roots cr bs w)) w (t_fork t)) sg = true ->
    let idx := ft_index (N.of_nat d0) a0 in
    let up := mkDataUpgrade r (u - r) (upg_nodes cr bs r u) (addl_nodes cr bs u w) sg in
    exists sk ns cs,
      create_valueless_proof t tf None (Some (mkReqBlock idx k)) (Some (mkReqSeek bytes)) (Some (mkReqUpgrade r (u - r)))
        = Ok (mkVproof (t_fork t) None (Some (mkDataHash idx ns)) (option_map (mkDataSeek bytes) sk) (Some up)) /\
      verify_proof cr rt rtf
        (mkProof (t_fork t) None (Some (mkDataHash idx ns)) (option_map (mkDataSeek bytes) sk) (Some up)) pk = Ok cs /\
      cs_roots cs = ref_roots cr bs w /\ cs_length cs = w /\ cs_byte_length cs = prefix_size bs w /\
      cs_fork cs = t_fork t /\ cs_upgraded cs = true /\ cs_signature cs = Some sg /\
      cs_hash cs = Some (tree_hash cr (ref_roots cr bs w)) /\
      cs_ancestors cs = r /\ Forall (is_ref cr bs) (cs_nodes cs) /\
      In (ref_node cr bs d0 a0) (cs_nodes cs) /\ commitable rt cs = true.
  Proof.
    intros Hlook Hl Hroots Hsg Hrroots Hrl Hrb Hrep Hr Hru Huw H64 Hin Hm kk o Htop Hrange Hs64 Hver idx up. subst idx.
    destruct (node_count_coord bs total_fits rt rtf d0 a0 k u Hm ltac:(lia) ltac:(rewrite Hrl; exact Htop) ltac:(lia))
      as (Hfuel & Ho1 & Ho2 & Hroot & n0 & Hn0).
    fold kk in Hfuel, Ho1, Ho2, Hroot, Hn0. fold o in Ho1, Ho2, Hroot, Hn0.
    destruct (hash_seek_section cr bs total_fits t tf w Hlook Hroots H64 (tree_changeset rt) d0 a0 kk o bytes k
                (ft_right_span (ft_index (N.of_nat d0) a0) / 2) Ho1 Ho2 ltac:(lia) Hrange) as (S & sk & ns & vis & HS & Hbs & Hvt & Hvis & Hleaf).
    exists sk, ns.
    destruct (verify_below_upgrade cr bs total_fits rt rtf r u w (t_fork t) sg pk _ _ _ vis (d0 + kk) o n0
                Hrroots Hrl Hrb Hr Hru Huw H64 Htop Hvt Hn0 (Hrep _ _ Hn0) Hvis Hs64 Hver)
      as (cs & Hv & R & L & B & F & U & Sg & Hh & A & Hn & Hsub & Hcm).
    exists cs. split; [|split; [exact Hv|]].
    2:{ repeat (split; [assumption|]). split; [apply Hsub, Hleaf|exact Hcm]. }
    pose proof (p2_pos d0) as Hp0.
    assert (Hidx : ft_index (N.of_nat d0) a0 < 2 * r) by (apply (idx_lt (d0, a0) r Hin)).
    unfold create_valueless_proof, normalize_indexed. cbn [ru_start ru_length rb_index rb_nodes rs_bytes bind].
    unfold u64_max in H64.
    rewrite !NoPanic.mul64_ok by (unfold u64_max; lia). cbn [bind].
    rewrite NoPanic.add64_ok by (unfold u64_max; lia). cbn [bind].
    replace (r * 2 + (u - r) * 2) with (2 * u) by lia. rewrite (N.mul_comm r 2), Hl.
    destruct (N.leb_spec (2 * u) (2 * r)) as [L1|_]; [lia|].
    destruct (N.ltb_spec (2 * w) (2 * u)) as [L2|_]; [lia|]. cbn [orb negb andb bind ix_last ix_index ix_nodes].
    destruct (N.leb_spec (2 * r) (ft_index (N.of_nat d0) a0)) as [L3|_]; [lia|].
    destruct (N.ltb_spec (ft_right_span (ft_index (N.of_nat d0) a0) / 2) r) as [_|L4];
      [|rewrite (ft_right_span_index d0 a0) in L4; lia].
    rewrite Hroot. cbn [bind]. rewrite HS. cbn [bind]. rewrite Hbs. cbn [bind negb].
    rewrite (upgrade_after_section t tf w r u sg _ true _ sk ns Hlook Hsg Hr Hru Huw ltac:(unfold u64_max; lia)).
    cbn [bind lp_seek lp_nodes lp_upgrade lp_additional]. rewrite Hsg. unfold up.
    destruct sk; destruct (u <? w); reflexivity.
  Qed.
End SeekClasses.

Print Assumptions seek_untrusted_spec.
Print Assumptions block_seek_section.
Print Assumptions hash_seek_section.
Print Assumptions seek_block_served.
Print Assumptions seek_hash_served.
Print Assumptions seek_block_upgrade_accepted.
Print Assumptions seek_hash_upgrade_accepted.

(* SharedInst.v -- property C15 instantiated with the real core model.

   Shared.v proves, for ANY shared state, ANY method bodies (lists of micro-steps run between acquiring and
   releasing one mutex) and EVERY schedule, that a concurrent run equals the atomic execution of the calls in
   completion order.  Unified1-3.v prove that the real core model (Core.v) refines "list of blocks + set of
   cleared indices" for sequential histories.  Here the two are composed:

     shared state := core * world (Core.v)
     calls        := append / clear / get / has / info   (Unified3.uop without reopen)
     result       := the observation uobs

   and every concurrent run from a state with FInv and a secret key returns, call by call, exactly
   [uspec] of the serialization (completion) order, modulo the crate's 2^30 oplog-frame guard. *)
From HC Require Import Base NMap Codec CodecFacts Crypto FlatTree Storage Bitfield Oplog Merkle Core.
From HC Require Import FlatTreeFacts StorageFacts BitfieldFacts OplogFacts TreeRef OffsetFacts CoreFacts Crash Refine.
From HC Require Import ClearRefine Reopen ContigBridge Unified1 Unified2 Unified3.
From HC Require Shared.
From Coq Require Import FMapPositive ZifyN ZifyNat ZifyBool.
Ltac Zify.zify_post_hook ::= Z.div_mod_to_equations.
Arguments N.add : simpl never.
Arguments N.sub : simpl never.
Arguments N.mul : simpl never.
Arguments N.div : simpl never.
Arguments N.modulo : simpl never.
Arguments N.pow : simpl never.
Arguments N.eqb : simpl never.
Arguments N.ltb : simpl never.
Arguments N.leb : simpl never.
Arguments N.max : simpl never.
Arguments N.min : simpl never.
Arguments N.of_nat : simpl never.
Arguments N.to_nat : simpl never.

(* ====================================================================================== *)
(* A. The calls of a shared core and their atomic meaning                                  *)
(* ====================================================================================== *)

(* Unified3.uop without UReopen: a shared core is not reopened *)
Inductive scall :=
| SAppend (f : option bool) (batch : list bytes)   (* f: the forced flush decision *)
| SClear (f : option bool) (start end_ : N)
| SGet (i : N)
| SHas (i : N)
| SInfo.

Definition to_uop (c : scall) : uop :=
  match c with
  | SAppend f batch => UAppend f batch
  | SClear f s e => UClear f s e
  | SGet i => UGet i
  | SHas i => UHas i
  | SInfo => UInfo
  end.

Definition sstate : Type := (core * world)%type.

(* the Core.v operation behind each call, and what the caller observes *)
Definition sstep (cr : crypto) (c : scall) (s : sstate) : sstate * uobs :=
  match c with
  | SAppend f batch => let '(c', w', r) := core_append cr f batch (fst s) (snd s) in ((c', w'), UOAppend r)
  | SClear f st en => let '(c', w', r) := core_clear cr f st en (fst s) (snd s) in ((c', w'), UOClear r)
  | SGet i => let '(c', w', r) := core_get i (fst s) (snd s) in ((c', w'), UOGet r)
  | SHas i => (s, UOHas (core_has (fst s) i))
  | SInfo => (s, UOInfo (core_info (fst s)))
  end.

(* ====================================================================================== *)
(* B. The model "list of blocks + cleared set": state reached, observation of one call      *)
(* ====================================================================================== *)

(* the model state after a history (the state component that [uspec] threads through) *)
Fixpoint ustate (ops : list uop) (bs : list bytes) (cl : N -> bool) : list bytes * (N -> bool) :=
  match ops with
  | [] => (bs, cl)
  | UAppend _ batch :: rest => ustate rest (bs ++ batch) (cl_mask cl (N.of_nat (length bs)))
  | UClear _ s e :: rest => ustate rest bs (if e <=? s then cl else cl_clear cl s e)
  | _ :: rest => ustate rest bs cl
  end.

(* the observation the model prescribes for one operation in model state (bs, cl) *)
Definition uobs_of (op : uop) (bs : list bytes) (cl : N -> bool) : uobs :=
  let n := N.of_nat (length bs) in
  match op with
  | UAppend _ batch => UOAppend (Ok (N.of_nat (length (bs ++ batch)), sumN (map len (bs ++ batch))))
  | UClear _ _ _ => UOClear (Ok tt)
  | UGet i => UOGet (Ok (if held n cl i then Some (nth (N.to_nat i) bs []) else None))
  | UHas i => UOHas (held n cl i)
  | UInfo => UOInfo (mkInfo n (sumN (map len bs)) (spec_contig bs cl) 0 true)
  | UReopen => UOReopen (Ok tt)
  end.

Lemma uspec_cons op ops bs cl :
  uspec (op :: ops) bs cl =
  uobs_of op bs cl :: uspec ops (fst (ustate [op] bs cl)) (snd (ustate [op] bs cl)).
Proof. destruct op; reflexivity. Qed.

Lemma ustate_cons op ops bs cl :
  ustate (op :: ops) bs cl = ustate ops (fst (ustate [op] bs cl)) (snd (ustate [op] bs cl)).
Proof. destruct op; reflexivity. Qed.

Lemma ustate_app a : forall b bs cl,
  ustate (a ++ b) bs cl = ustate b (fst (ustate a bs cl)) (snd (ustate a bs cl)).
Proof.
  induction a as [|op a IH]; intros b bs cl; [reflexivity|].
  rewrite <- app_comm_cons, ustate_cons, IH, (ustate_cons op a). reflexivity.
Qed.

Lemma ustate_blocks ops : forall bs cl, fst (ustate ops bs cl) = bs ++ uappended ops.
Proof.
  induction ops as [|op ops IH]; intros bs cl; [cbn [ustate fst uappended]; now rewrite app_nil_r|].
  destruct op; cbn [ustate uappended]; rewrite IH; try reflexivity. now rewrite app_assoc.
Qed.

Lemma uspec_length ops : forall bs cl, length (uspec ops bs cl) = length ops.
Proof.
  induction ops as [|op ops IH]; intros bs cl; [reflexivity|].
  rewrite uspec_cons. cbn [length]. now rewrite IH.
Qed.

(* the k-th observation of the model is the single-call observation in the model state after k calls *)
Lemma uspec_nth ops : forall k op bs cl,
  nth_error ops k = Some op ->
  nth_error (uspec ops bs cl) k =
  Some (uobs_of op (fst (ustate (firstn k ops) bs cl)) (snd (ustate (firstn k ops) bs cl))).
Proof.
  induction ops as [|o ops IH]; intros k op bs cl H; [destruct k; discriminate|].
  rewrite uspec_cons. destruct k as [|k]; cbn [nth_error firstn] in *.
  - injection H as ->. reflexivity.
  - rewrite (IH _ _ _ _ H), (ustate_cons o (firstn k ops)). reflexivity.
Qed.

Lemma uappended_app a b : uappended (a ++ b) = uappended a ++ uappended b.
Proof.
  induction a as [|op a IH]; [reflexivity|].
  destruct op; cbn [app uappended]; rewrite IH; try reflexivity. now rewrite app_assoc.
Qed.

Lemma wf_u_mono ops : forall n m, n <= m -> wf_u ops n -> wf_u ops m.
Proof.
  induction ops as [|op ops IH]; intros n m L H; [exact I|].
  destruct op; cbn [wf_u] in *; try (eapply IH; [|exact H]; lia).
  destruct H as [H1 H2]. split; [lia|]. eapply IH; [|exact H2]. exact L.
Qed.

(* ====================================================================================== *)
(* B2. Weights of calls; what the completion log of a concurrent run looks like            *)
(* ====================================================================================== *)

Lemma sumN_map_le {A} (f g : A -> N) (l : list A) :
  (forall a, In a l -> f a <= g a) -> sumN (map f l) <= sumN (map g l).
Proof.
  induction l as [|a l IH]; intros H; cbn [map sumN]; [lia|].
  assert (f a <= g a) by (apply H; left; reflexivity).
  assert (sumN (map f l) <= sumN (map g l)) by (apply IH; intros b Hb; apply H; right; exact Hb). lia.
Qed.

Lemma sumN_map_app {A} (w : A -> N) (a b : list A) : sumN (map w (a ++ b)) = sumN (map w a) + sumN (map w b).
Proof. rewrite map_app. apply TreeRef.sumN_app. Qed.

Lemma sumN_filter_le {A} (w : A -> N) (p : A -> bool) (l : list A) :
  sumN (map w (filter p l)) <= sumN (map w l).
Proof.
  induction l as [|a l IH]; cbn [filter map sumN]; [lia|].
  destruct (p a); cbn [map sumN]; lia.
Qed.

Lemma sumN_concat {A} (w : A -> N) (ll : list (list A)) :
  sumN (map w (concat ll)) = sumN (map (fun l => sumN (map w l)) ll).
Proof.
  induction ll as [|l ll IH]; cbn [concat map sumN]; [reflexivity|].
  rewrite sumN_map_app, IH. reflexivity.
Qed.

Lemma sumN_filter_split {A} (w : A -> N) (key : A -> nat) (n : nat) (l : list A) :
  sumN (map w (filter (fun e => Nat.ltb (key e) (Datatypes.S n)) l)) =
  sumN (map w (filter (fun e => Nat.ltb (key e) n) l)) + sumN (map w (filter (fun e => Nat.eqb (key e) n) l)).
Proof.
  induction l as [|a l IH]; cbn [filter map sumN]; [lia|].
  destruct (Nat.ltb_spec (key a) (Datatypes.S n)) as [A1|A1], (Nat.ltb_spec (key a) n) as [A2|A2],
           (Nat.eqb_spec (key a) n) as [A3|A3]; cbn [map sumN]; lia.
Qed.

(* a list is the disjoint union of its key classes, weighted *)
Lemma sumN_by_key {A} (w : A -> N) (key : A -> nat) (l : list A) : forall n : nat,
  sumN (map w (filter (fun e => Nat.ltb (key e) n) l)) =
  sumN (map (fun t => sumN (map w (filter (fun e => Nat.eqb (key e) t) l))) (seq 0 n)).
Proof.
  induction n as [|n IH].
  - cbn [seq map sumN]. induction l as [|a l IHl]; [reflexivity|]. cbn [filter]. exact IHl.
  - rewrite sumN_filter_split, IH, seq_S, sumN_map_app. cbn [map sumN plus]. lia.
Qed.

Lemma filter_all {A} (p : A -> bool) (l : list A) : (forall a, In a l -> p a = true) -> filter p l = l.
Proof.
  induction l as [|a l IH]; intros H; cbn [filter]; [reflexivity|].
  rewrite (H a (or_introl eq_refl)), IH; [reflexivity|]. intros b Hb. apply H. right. exact Hb.
Qed.

(* blocks and bytes a call adds *)
Definition cblocks (c : scall) : N := match c with SAppend _ batch => N.of_nat (length batch) | _ => 0 end.
Definition cbytes (c : scall) : N := match c with SAppend _ batch => sumN (map len batch) | _ => 0 end.

Lemma uappended_blocks cs : N.of_nat (length (uappended (map to_uop cs))) = sumN (map cblocks cs).
Proof.
  induction cs as [|c cs IH]; [reflexivity|].
  destruct c; cbn [map to_uop uappended cblocks sumN]; rewrite <- IH; try lia.
  rewrite app_length. lia.
Qed.

Lemma uappended_bytes cs : sumN (map len (uappended (map to_uop cs))) = sumN (map cbytes cs).
Proof.
  induction cs as [|c cs IH]; [reflexivity|].
  destruct c; cbn [map to_uop uappended cbytes sumN]; rewrite <- IH; try lia.
  rewrite map_app, TreeRef.sumN_app. reflexivity.
Qed.

(* wf_u, index by index: every non-empty clear starts below the length at its point of the history *)
Lemma wf_u_nth ops : forall n,
  wf_u ops n <->
  (forall k f s e, nth_error ops k = Some (UClear f s e) ->
     e <= s \/ (s < n + N.of_nat (length (uappended (firstn k ops))) /\ e <= u64_max)).
Proof.
  induction ops as [|op ops IH]; intros n.
  - split; [intros _ k f s e H; destruct k; discriminate|intros _; exact I].
  - split.
    + intros H k f s e Hk. destruct k as [|k].
      * cbn [nth_error] in Hk. injection Hk as ->. cbn [wf_u firstn uappended length] in *.
        destruct H as [H _]. lia.
      * cbn [nth_error] in Hk. cbn [firstn].
        destruct op; cbn [wf_u uappended] in *;
          try (apply (proj1 (IH n) H k f s e Hk));
          try (apply (proj1 (IH n) (proj2 H) k f s e Hk)).
        pose proof (proj1 (IH _) H k f s e Hk) as X. rewrite app_length. lia.
    + intros H.
      assert (Hrest : forall m, m = n + N.of_nat (length (uappended [op])) -> wf_u ops m).
      { intros m ->. apply (proj2 (IH _)). intros k f s e Hk.
        specialize (H (Datatypes.S k) f s e Hk). cbn [firstn] in H.
        change (op :: firstn k ops) with ([op] ++ firstn k ops) in H.
        rewrite uappended_app, app_length in H. lia. }
      destruct op; cbn [wf_u]; cbn [uappended length app] in Hrest;
        try (apply Hrest; rewrite ?app_nil_r; lia).
      split; [|apply Hrest; lia].
      specialize (H 0%nat f start end_ eq_refl). cbn [firstn uappended length] in H. lia.
Qed.

(* ---------- the completion log of any concurrent run (generic in the shared object) ---------- *)
(* the calls of task t in a log, oldest first *)
Definition task_calls {R call : Type} (t : nat) (lg : list (nat * call * R)) : list call :=
  map (Shared.call_of R call) (filter (Shared.is_of R call t) lg).

Section LogFacts.
  Variables (St L R call : Type) (l0 : call -> L) (body : call -> list (St * L -> St * L)) (res : call -> L -> R).
  Variables (s0 : St) (progs : list (list call)) (cfg : Shared.config St L R call).
  Hypothesis Hsteps : Shared.steps l0 body res (Shared.init s0 progs) cfg.


  (* the completed calls of task t are a prefix of its program *)
  Lemma log_task_prefix (t : nat) : exists tl, nth t progs [] = task_calls t (Shared.log cfg) ++ tl.
  Proof.
    pose proof (Shared.Inv_steps _ _ _ _ _ _ _ _ _ _ Hsteps) as [Ilen _ _ _ Iprog Iids].
    destruct (nth_error (Shared.tasks cfg) t) as [tk|] eqn:E.
    - eexists. symmetry. apply (Iprog t tk E).
    - apply nth_error_None in E. exists (nth t progs []).
      destruct (filter (Shared.is_of R call t) (Shared.log cfg)) as [|e fl] eqn:F.
      + unfold task_calls. rewrite F. reflexivity.
      + assert (X : In e (filter (Shared.is_of R call t) (Shared.log cfg))) by (rewrite F; left; reflexivity).
        apply filter_In in X as [X Y]. apply Iids in X. unfold Shared.is_of in Y.
        apply Nat.eqb_eq in Y. lia.
  Qed.

  (* the k-th completed call, by task t, sits in t's program right after t's calls completed before it *)
  Lemma log_entry_prefix (k t : nat) (c : call) (r : R) :
    nth_error (Shared.log cfg) k = Some (t, c, r) ->
    exists tl, nth t progs [] = task_calls t (firstn k (Shared.log cfg)) ++ c :: tl.
  Proof.
    intros Hk. destruct (log_task_prefix t) as [tl Ht].
    destruct (nth_error_split _ _ Hk) as (l1 & l2 & Hl & Hlen).
    assert (F : firstn k (Shared.log cfg) = l1).
    { rewrite Hl, <- Hlen, firstn_app, Nat.sub_diag, firstn_all. cbn [firstn]. apply app_nil_r. }
    rewrite F. unfold task_calls in *. rewrite Hl, filter_app in Ht. cbn [filter] in Ht.
    unfold Shared.is_of at 2 in Ht. cbn [fst] in Ht. rewrite Nat.eqb_refl, map_app in Ht.
    cbn [map] in Ht. unfold Shared.call_of at 2 in Ht. cbn [fst snd] in Ht.
    rewrite <- app_assoc in Ht. cbn [app] in Ht. eexists. exact Ht.
  Qed.

  (* the completed calls weigh at most as much as all programs together *)
  Lemma log_weight_le (w : call -> N) :
    sumN (map w (Shared.calls (Shared.log cfg))) <= sumN (map w (concat progs)).
  Proof.
    pose proof (Shared.Inv_steps _ _ _ _ _ _ _ _ _ _ Hsteps) as [Ilen _ _ _ _ Iids].
    unfold Shared.calls. rewrite map_map.
    set (w' := fun e : nat * call * R => w (Shared.call_of R call e)).
    set (key := fun e : nat * call * R => fst (fst e)).
    rewrite <- (filter_all (fun e => Nat.ltb (key e) (length progs)) (Shared.log cfg)).
    2:{ intros e He. apply Iids in He. apply Nat.ltb_lt. unfold key. lia. }
    rewrite (sumN_by_key w' key), sumN_concat.
    rewrite <- (Shared.map_nth_seq0 _ [] progs) at 2. rewrite map_map.
    apply sumN_map_le. intros t _.
    destruct (log_task_prefix t) as [tl ->]. rewrite sumN_map_app. unfold task_calls. rewrite map_map.
    unfold Shared.is_of, key, w'. lia.
  Qed.
End LogFacts.

(* ====================================================================================== *)
(* C. One call, then a sequence of calls, against the model                                *)
(* ====================================================================================== *)

Definition frame_panic : uobs := UOAppend (Panic frame_msg).

(* The two possible outcomes of a serialization [cs] with results [rs] from model state (bs, cl).
   model_run: every result is the model's, the state [s1] reached satisfies the unified invariant for the
   model's final state, and the key pair is the initial one (c0 = the initial core). *)
Definition model_run (cr : crypto) (c0 : core) (s1 : sstate) (cs : list scall) (rs : list uobs)
           (bs : list bytes) (cl : N -> bool) : Prop :=
  rs = uspec (map to_uop cs) bs cl /\
  FInv cr (fst s1) (w_disk (snd s1)) (fst (ustate (map to_uop cs) bs cl)) (snd (ustate (map to_uop cs) bs cl)) /\
  c_keypair (fst s1) = c_keypair c0.

(* frame_stop: the k-th call is an append that hit the crate's 2^30 oplog-frame guard; all results before it
   are the model's (nothing is claimed about later calls: the real task has panicked). *)
Definition frame_stop (cs : list scall) (rs : list uobs) (bs : list bytes) (cl : N -> bool) : Prop :=
  exists k f batch, nth_error cs k = Some (SAppend f batch) /\
    firstn k rs = firstn k (uspec (map to_uop cs) bs cl) /\ nth_error rs k = Some frame_panic.

(* ====================================================================================== *)
(* B3. Reading the model: the observation at one index, blocks of one append               *)
(* ====================================================================================== *)

Lemma nth_error_firstn_lt {A} (l : list A) : forall k i, (i < k)%nat -> nth_error (firstn k l) i = nth_error l i.
Proof.
  induction l as [|a l IH]; intros k i H; [rewrite firstn_nil; reflexivity|].
  destruct k as [|k]; [lia|]. destruct i as [|i]; cbn [firstn nth_error]; [reflexivity|]. apply IH. lia.
Qed.

Lemma skipn_split {A} (a : list A) : forall i c b, length a = i -> skipn (Datatypes.S i) (a ++ c :: b) = b.
Proof.
  induction a as [|x a IH]; intros i c b H; cbn [length] in H; subst i; [reflexivity|].
  cbn [app skipn]. apply (IH _ c b eq_refl).
Qed.

Lemma firstn_split {A} (a : list A) : forall i b, length a = i -> firstn i (a ++ b) = a.
Proof. intros i b <-. rewrite firstn_app, Nat.sub_diag, firstn_all. cbn [firstn]. apply app_nil_r. Qed.

(* is index idx inside some non-empty clear of the history? *)
Definition covers (ops : list uop) (idx : N) : bool :=
  existsb (fun op => match op with
                     | UClear _ s e => negb (e <=? s) && ((s <=? idx) && (idx <? e))
                     | _ => false
                     end) ops.

(* below the length, the cleared set only grows by the clears of the history *)
Lemma ustate_cl ops : forall bs cl idx,
  idx < N.of_nat (length bs) -> snd (ustate ops bs cl) idx = cl idx || covers ops idx.
Proof.
  induction ops as [|op ops IH]; intros bs cl idx H.
  - cbn [ustate snd covers existsb]. now rewrite orb_false_r.
  - destruct op; cbn [ustate]; unfold covers; cbn [existsb]; fold (covers ops idx);
      try (rewrite (IH bs cl idx H); reflexivity).
    + rewrite IH by (rewrite app_length; lia). unfold cl_mask.
      assert (idx <? N.of_nat (length bs) = true) as -> by lia. now rewrite andb_true_r.
    + rewrite IH by exact H. destruct (N.leb_spec end_ start) as [Les|Les]; cbn [negb andb orb]; [reflexivity|].
      unfold cl_clear. now rewrite orb_assoc.
Qed.

(* the blocks of one append of the history: where they are, and when they are still held at the end *)
Lemma ustate_appended ops1 f batch ops2 bs cl k :
  (k < length batch)%nat ->
  let ops := ops1 ++ UAppend f batch :: ops2 in
  let idx := N.of_nat (length (bs ++ uappended ops1)) + N.of_nat k in
  let bsF := fst (ustate ops bs cl) in
  let clF := snd (ustate ops bs cl) in
  nth (N.to_nat idx) bsF [] = nth k batch [] /\
  held (N.of_nat (length bsF)) clF idx = negb (covers ops2 idx).
Proof.
  intros Hk ops idx bsF clF.
  assert (Hb : bsF = (bs ++ uappended ops1) ++ batch ++ uappended ops2).
  { unfold bsF, ops. rewrite ustate_blocks, uappended_app. cbn [uappended]. now rewrite <- app_assoc. }
  set (bs1 := bs ++ uappended ops1) in *.
  assert (Hi : N.to_nat idx = (length bs1 + k)%nat) by (unfold idx; lia).
  split.
  - rewrite Hb, Hi, app_nth2 by lia. replace (length bs1 + k - length bs1)%nat with k by lia.
    now rewrite app_nth1 by exact Hk.
  - unfold clF, ops. rewrite ustate_app. cbn [ustate]. rewrite (ustate_blocks ops1). fold bs1.
    unfold held. rewrite ustate_cl by (rewrite app_length; lia).
    unfold cl_mask at 1. assert (idx <? N.of_nat (length bs1) = false) as -> by lia.
    rewrite andb_false_r. cbn [orb].
    assert (idx <? N.of_nat (length bsF) = true) as ->; [|reflexivity].
    rewrite Hb, !app_length. lia.
Qed.

(* the result of the i-th call of a serialization, given that no earlier call hit the frame guard *)
Lemma outcome_at cr c0 s1 cs rs bs cl :
  model_run cr c0 s1 cs rs bs cl \/ frame_stop cs rs bs cl ->
  forall i c r, nth_error cs i = Some c -> nth_error rs i = Some r ->
  (forall k, (k < i)%nat -> nth_error rs k <> Some frame_panic) ->
  r = uobs_of (to_uop c) (fst (ustate (firstn i (map to_uop cs)) bs cl))
                         (snd (ustate (firstn i (map to_uop cs)) bs cl)) \/
  (r = frame_panic /\ exists f batch, c = SAppend f batch).
Proof.
  intros Hout i c r Hc Hr Hno.
  pose proof (uspec_nth (map to_uop cs) i (to_uop c) bs cl (map_nth_error to_uop _ _ Hc)) as Hs.
  destruct Hout as [(-> & _)|(k & f & batch & Hk & Hpre & Hp)].
  - left. rewrite Hs in Hr. injection Hr as <-. reflexivity.
  - destruct (Nat.lt_trichotomy i k) as [Hlt|[->|Hgt]].
    + left. rewrite <- (nth_error_firstn_lt rs k i Hlt), Hpre, (nth_error_firstn_lt _ k i Hlt), Hs in Hr.
      injection Hr as <-. reflexivity.
    + right. rewrite Hp in Hr. injection Hr as <-. split; [reflexivity|].
      rewrite Hk in Hc. injection Hc as <-. exists f, batch. reflexivity.
    + exfalso. exact (Hno k Hgt Hp).
Qed.

Section Seq.
  Variable cr : crypto.
  Hypothesis Hcrc : crc_ok cr.
  Hypothesis Hhash32 : forall x, length (cr_hash cr x) = 32%nat.
  Hypothesis Hnonblank : forall x, all_zero (cr_hash cr x) = false.
  Hypothesis Hhashbytes : forall x, bytes_ok (cr_hash cr x) = true.
  Hypothesis Hsig64 : forall sk m, length (cr_sign cr sk m) = 64%nat.
  Hypothesis Hsigbytes : forall sk m, bytes_ok (cr_sign cr sk m) = true.

  (* one call on a state satisfying the unified invariant: either the append hits the 2^30 frame guard, or the
     observation is the model's and the invariant holds for the model's next state *)
  Lemma sstep_FInv call c d j ev bs cl sk s' o :
    let op := to_uop call in
    FInv cr c d bs cl -> kp_secret (c_keypair c) = Some sk ->
    wf_u [op] (N.of_nat (length bs)) ->
    sumN (map len (bs ++ uappended [op])) <= u64_max ->
    NODE_SIZE * (2 * N.of_nat (length (bs ++ uappended [op]))) <= u64_max ->
    sstep cr call (c, mkWorld d j ev) = (s', o) ->
    (o = frame_panic /\ exists f batch, call = SAppend f batch) \/
    (o = uobs_of op bs cl /\
     FInv cr (fst s') (w_disk (snd s')) (fst (ustate [op] bs cl)) (snd (ustate [op] bs cl)) /\
     c_keypair (fst s') = c_keypair c).
  Proof.
    intros op D Hsk Hwf Hfit Hidx H.
    pose proof (FInv_CInv cr c d bs cl D) as W.
    destruct call as [f batch|f s e|i|i| ]; subst op;
      cbn [to_uop uappended wf_u ustate uobs_of fst snd sstep] in *.
    - rewrite app_nil_r in Hfit, Hidx.
      destruct (core_append cr f batch c (mkWorld d j ev)) as [[c' w'] r] eqn:E.
      injection H as <- <-. cbn [fst snd].
      destruct (append_FInv cr Hcrc Hhash32 Hnonblank Hhashbytes Hsig64 Hsigbytes
                            f batch c d j ev bs cl sk c' w' r D Hsk Hfit Hidx E) as [->|(-> & D' & K')].
      + left. split; [reflexivity|]. exists f, batch. reflexivity.
      + right. split; [reflexivity|]. split; assumption.
    - destruct Hwf as [Hse _]. right.
      destruct (N.leb_spec e s) as [Les|Les].
      + rewrite (clear_noop cr f s e c _ Les) in H. injection H as <- <-. cbn [fst snd w_disk].
        split; [reflexivity|]. split; [exact D|reflexivity].
      + destruct Hse as [Hse|[Hse He]]; [lia|].
        destruct (core_clear cr f s e c (mkWorld d j ev)) as [[c' w'] r] eqn:E.
        injection H as <- <-. cbn [fst snd].
        destruct (clear_FInv cr Hcrc Hhash32 Hnonblank Hhashbytes f c d j ev bs cl s e c' w' r D Hse Les He E)
          as (-> & D' & K').
        split; [reflexivity|]. split; assumption.
    - right. rewrite (get_correct_c cr c d bs cl j ev i W) in H.
      destruct (held (N.of_nat (length bs)) cl i); injection H as <- <-; cbn [fst snd w_disk];
        (split; [reflexivity|]); (split; [exact D|reflexivity]).
    - right. injection H as <- <-. cbn [fst snd w_disk].
      rewrite (has_correct_c cr c d bs cl i W). split; [reflexivity|]. split; [exact D|reflexivity].
    - right. injection H as <- <-. cbn [fst snd w_disk].
      rewrite (proj1 (info_correct_c cr c d bs cl W)), Hsk. split; [reflexivity|]. split; [exact D|reflexivity].
  Qed.

  (* ---------- any method bodies whose atomic meaning is the Core.v operation ---------- *)
  Variable L : Type.
  Variable l0 : scall -> L.
  Variable body : scall -> list (sstate * L -> sstate * L).
  Variable res : scall -> L -> uobs.
  Hypothesis Hatomic : forall c s, Shared.atomic l0 body res c s = sstep cr c s.

  Lemma wf_u_cons op ops bs cl :
    wf_u (op :: ops) (N.of_nat (length bs)) ->
    wf_u [op] (N.of_nat (length bs)) /\ wf_u ops (N.of_nat (length (fst (ustate [op] bs cl)))).
  Proof.
    destruct op; cbn [wf_u ustate fst]; intros H; try (split; [exact I|exact H]).
    - split; [exact I|]. rewrite app_length, Nat2N.inj_add. exact H.
    - destruct H as [H1 H2]. split; [split; [exact H1|exact I]|exact H2].
  Qed.

  (* a sequence of atomic calls: all observations are the model's and the final state satisfies the invariant
     for the model's final state, or some append hit the frame guard and all observations before it are the
     model's *)
  Theorem seq_unified cs : forall c d j ev bs cl sk s' rs,
    FInv cr c d bs cl -> kp_secret (c_keypair c) = Some sk ->
    wf_u (map to_uop cs) (N.of_nat (length bs)) ->
    sumN (map len (bs ++ uappended (map to_uop cs))) <= u64_max ->
    NODE_SIZE * (2 * N.of_nat (length (bs ++ uappended (map to_uop cs)))) <= u64_max ->
    Shared.seq_run l0 body res (c, mkWorld d j ev) cs = (s', rs) ->
    model_run cr c s' cs rs bs cl \/ frame_stop cs rs bs cl.
  Proof.
    unfold model_run, frame_stop.
    induction cs as [|a cs IH]; intros c d j ev bs cl sk s' rs D Hsk Hwf Hfit Hidx H.
    - cbn [Shared.seq_run] in H. injection H as <- <-. left. cbn [map uspec ustate fst snd w_disk].
      split; [reflexivity|]. split; [exact D|reflexivity].
    - cbn [Shared.seq_run] in H. rewrite Hatomic in H.
      destruct (sstep cr a (c, mkWorld d j ev)) as [s1 o] eqn:E1.
      destruct (Shared.seq_run l0 body res s1 cs) as [s2 rs'] eqn:E2.
      injection H as <- <-.
      cbn [map] in *. set (op := to_uop a) in *. set (ops := map to_uop cs) in *.
      destruct (wf_u_cons op ops bs cl Hwf) as [Hwf1 Hwf2].
      change (op :: ops) with ([op] ++ ops) in Hfit, Hidx. rewrite uappended_app, app_assoc in Hfit, Hidx.
      assert (Hfit1 : sumN (map len (bs ++ uappended [op])) <= u64_max).
      { rewrite map_app, TreeRef.sumN_app in Hfit. lia. }
      assert (Hidx1 : NODE_SIZE * (2 * N.of_nat (length (bs ++ uappended [op]))) <= u64_max).
      { rewrite (app_length (bs ++ uappended [op])) in Hidx. unfold NODE_SIZE in *. lia. }
      destruct (sstep_FInv a c d j ev bs cl sk s1 o D Hsk Hwf1 Hfit1 Hidx1 E1)
        as [(-> & f & batch & ->)|(-> & D1 & K1)].
      + right. exists 0%nat, f, batch. repeat split; reflexivity.
      + fold op in D1. destruct s1 as [c1 [d1 j1 ev1]]. cbn [fst snd w_disk] in D1, K1.
        rewrite <- K1 in Hsk.
        rewrite <- (ustate_blocks [op] bs cl) in Hfit, Hidx.
        destruct (IH c1 d1 j1 ev1 _ _ sk s2 rs' D1 Hsk Hwf2 Hfit Hidx E2)
          as [(-> & D2 & K2)|(k & f & batch & Hk & Hpre & Hp)].
        * left. rewrite uspec_cons, (ustate_cons op ops). split; [reflexivity|]. split; [exact D2|congruence].
        * right. exists (S k), f, batch. cbn [nth_error firstn]. rewrite uspec_cons. cbn [firstn].
          split; [exact Hk|]. split; [f_equal; exact Hpre|exact Hp].
  Qed.

  (* ====================================================================================== *)
  (* D. Every concurrent run of a shared core                                                *)
  (* ====================================================================================== *)

  (* what the lock discipline gives (Shared.v), specialised: the completed calls, in completion order, ran
     atomically from the initial state; s1 = the state the last completed call left (= the shared state
     whenever the lock is free) *)
  Lemma shared_log_serial progs cfg s0 :
    Shared.steps l0 body res (Shared.init s0 progs) cfg ->
    exists s1, Shared.seq_run l0 body res s0 (Shared.calls (Shared.log cfg)) = (s1, Shared.results (Shared.log cfg)) /\
               (Shared.holder cfg = None -> s1 = Shared.shared cfg).
  Proof.
    intros Hst. destruct (Shared.log_serial _ _ _ _ _ _ _ _ _ _ Hst) as [s1 H1].
    exists s1. split; [exact H1|]. intros Hh.
    pose proof (Shared.serializable _ _ _ _ _ _ _ _ _ _ Hst Hh) as H2.
    rewrite H1 in H2. injection H2 as ->. reflexivity.
  Qed.

  (* Hypotheses about the serialization order itself (the weakest ones): the completed calls, in completion
     order, form a well-formed history that fits the u64 totals. *)
  Theorem shared_unified_log progs cfg c d j ev bs cl sk :
    FInv cr c d bs cl -> kp_secret (c_keypair c) = Some sk ->
    Shared.steps l0 body res (Shared.init (c, mkWorld d j ev) progs) cfg ->
    let cs := Shared.calls (Shared.log cfg) in
    wf_u (map to_uop cs) (N.of_nat (length bs)) ->
    sumN (map len (bs ++ uappended (map to_uop cs))) <= u64_max ->
    NODE_SIZE * (2 * N.of_nat (length (bs ++ uappended (map to_uop cs)))) <= u64_max ->
    exists s1, (Shared.holder cfg = None -> s1 = Shared.shared cfg) /\
      (model_run cr c s1 cs (Shared.results (Shared.log cfg)) bs cl \/
       frame_stop cs (Shared.results (Shared.log cfg)) bs cl).
  Proof.
    intros D Hsk Hst cs Hwf Hfit Hidx.
    destruct (shared_log_serial _ _ _ Hst) as (s1 & Hrun & Hfree).
    exists s1. split; [exact Hfree|].
    exact (seq_unified cs c d j ev bs cl sk s1 _ D Hsk Hwf Hfit Hidx Hrun).
  Qed.

  (* Schedule-independent hypotheses: each task's program, run alone, would be a well-formed history (every
     non-empty clear starts below the initial length plus what the task itself appended before), and all
     programs together fit the u64 totals.  They imply the hypotheses on every serialization order. *)
  Lemma progs_wf_log progs cfg s0 n0 :
    Shared.steps l0 body res (Shared.init s0 progs) cfg ->
    Forall (fun p => wf_u (map to_uop p) n0) progs ->
    wf_u (map to_uop (Shared.calls (Shared.log cfg))) n0.
  Proof.
    intros Hst Hall. apply wf_u_nth. intros k f s e Hk.
    unfold Shared.calls in Hk. rewrite !nth_error_map in Hk.
    destruct (nth_error (Shared.log cfg) k) as [[[t c0] r]|] eqn:E; cbn [option_map] in Hk; [|discriminate].
    injection Hk as Hc. unfold Shared.call_of in Hc. cbn [fst snd] in Hc.
    destruct (log_entry_prefix _ _ _ _ _ _ _ _ _ _ Hst k t c0 r E) as [tl Ht].
    assert (Hin : In (nth t progs []) progs).
    { destruct (Nat.lt_ge_cases t (length progs)) as [Hlt|Hge]; [apply nth_In; exact Hlt|].
      rewrite nth_overflow in Ht by exact Hge. destruct (task_calls t (firstn k (Shared.log cfg))); discriminate. }
    pose proof (proj1 (Forall_forall _ _) Hall _ Hin) as Hw. rewrite Ht, map_app in Hw. cbn [map] in Hw.
    rewrite Hc in Hw.
    set (pre := map to_uop (task_calls t (firstn k (Shared.log cfg)))) in *.
    pose proof (proj1 (wf_u_nth _ _) Hw (length pre) f s e) as X.
    rewrite nth_error_app2, Nat.sub_diag in X by lia. specialize (X eq_refl).
    rewrite firstn_app, Nat.sub_diag, firstn_all in X. cbn [firstn] in X. rewrite app_nil_r in X.
    destruct X as [X|[X1 X2]]; [left; exact X|right]. split; [|exact X2].
    unfold Shared.calls. rewrite !firstn_map. fold (Shared.calls (firstn k (Shared.log cfg))).
    unfold pre in X1. rewrite uappended_blocks in *.
    assert (sumN (map cblocks (task_calls t (firstn k (Shared.log cfg)))) <=
            sumN (map cblocks (Shared.calls (firstn k (Shared.log cfg))))); [|lia].
    unfold task_calls, Shared.calls. rewrite !map_map. apply sumN_filter_le.
  Qed.

  Lemma progs_fit_log progs cfg s0 (bs : list bytes) :
    Shared.steps l0 body res (Shared.init s0 progs) cfg ->
    sumN (map len (bs ++ uappended (map to_uop (concat progs)))) <= u64_max ->
    NODE_SIZE * (2 * N.of_nat (length (bs ++ uappended (map to_uop (concat progs))))) <= u64_max ->
    sumN (map len (bs ++ uappended (map to_uop (Shared.calls (Shared.log cfg))))) <= u64_max /\
    NODE_SIZE * (2 * N.of_nat (length (bs ++ uappended (map to_uop (Shared.calls (Shared.log cfg)))))) <= u64_max.
  Proof.
    intros Hst Hfit Hidx.
    pose proof (log_weight_le _ _ _ _ _ _ _ _ _ _ Hst cbytes) as B1.
    pose proof (log_weight_le _ _ _ _ _ _ _ _ _ _ Hst cblocks) as B2.
    rewrite map_app, TreeRef.sumN_app, uappended_bytes in *.
    rewrite app_length, Nat2N.inj_add, uappended_blocks in *.
    unfold NODE_SIZE in *. split; lia.
  Qed.

  (* MAIN THEOREM.  Any number of tasks, any programs, EVERY schedule, any reachable configuration (also one
     in which a call is in progress): the results of the completed calls are exactly [uspec] of the completion
     order, and the state left by the last completed call -- the shared state itself whenever the lock is
     free -- satisfies the unified invariant for the serialized history; or an append hit the frame guard. *)
  Theorem shared_unified progs cfg c d j ev bs cl sk :
    FInv cr c d bs cl -> kp_secret (c_keypair c) = Some sk ->
    Forall (fun p => wf_u (map to_uop p) (N.of_nat (length bs))) progs ->
    sumN (map len (bs ++ uappended (map to_uop (concat progs)))) <= u64_max ->
    NODE_SIZE * (2 * N.of_nat (length (bs ++ uappended (map to_uop (concat progs))))) <= u64_max ->
    Shared.steps l0 body res (Shared.init (c, mkWorld d j ev) progs) cfg ->
    let cs := Shared.calls (Shared.log cfg) in
    exists s1, (Shared.holder cfg = None -> s1 = Shared.shared cfg) /\
      (model_run cr c s1 cs (Shared.results (Shared.log cfg)) bs cl \/
       frame_stop cs (Shared.results (Shared.log cfg)) bs cl).
  Proof.
    intros D Hsk Hwf Hfit Hidx Hst cs.
    destruct (progs_fit_log progs cfg _ bs Hst Hfit Hidx) as [F1 F2].
    exact (shared_unified_log progs cfg c d j ev bs cl sk D Hsk Hst
             (progs_wf_log progs cfg _ _ Hst Hwf) F1 F2).
  Qed.

  (* all tasks have finished: every call of every program has completed exactly once, each task's completed
     calls are its program in program order, each task's outputs are its entries of the log, the lock is free
     and the shared state is the one described by the theorem above *)
  Theorem shared_unified_finished progs cfg c d j ev bs cl sk :
    FInv cr c d bs cl -> kp_secret (c_keypair c) = Some sk ->
    Forall (fun p => wf_u (map to_uop p) (N.of_nat (length bs))) progs ->
    sumN (map len (bs ++ uappended (map to_uop (concat progs)))) <= u64_max ->
    NODE_SIZE * (2 * N.of_nat (length (bs ++ uappended (map to_uop (concat progs))))) <= u64_max ->
    Shared.steps l0 body res (Shared.init (c, mkWorld d j ev) progs) cfg ->
    (forall tk, In tk (Shared.tasks cfg) -> Shared.st tk = Shared.Idle /\ Shared.prog tk = []) ->
    let cs := Shared.calls (Shared.log cfg) in
    length (Shared.log cfg) = list_sum (map (@length scall) progs) /\
    (forall t, task_calls t (Shared.log cfg) = nth t progs []) /\
    (forall t tk, nth_error (Shared.tasks cfg) t = Some tk ->
       Shared.out tk = map snd (filter (fun e => Nat.eqb (fst (fst e)) t) (Shared.log cfg))) /\
    Shared.holder cfg = None /\
    (model_run cr c (Shared.shared cfg) cs (Shared.results (Shared.log cfg)) bs cl \/
     frame_stop cs (Shared.results (Shared.log cfg)) bs cl).
  Proof.
    intros D Hsk Hwf Hfit Hidx Hst Hdone cs.
    destruct (Shared.finished_all_serial _ _ _ _ _ _ _ _ _ _ Hst Hdone) as (F1 & F2 & F3 & _).
    split; [exact F1|]. split; [exact F2|].
    split; [exact (Shared.results_match_log _ _ _ _ _ _ _ _ _ _ Hst)|]. split; [exact F3|].
    destruct (shared_unified progs cfg c d j ev bs cl sk D Hsk Hwf Hfit Hidx Hst) as (s1 & Hs1 & Hout).
    rewrite (Hs1 F3) in Hout. exact Hout.
  Qed.

  (* ====================================================================================== *)
  (* E. What each call of a concurrent run returns; what is readable afterwards              *)
  (* ====================================================================================== *)
  Section Run.
    Variables (progs : list (list scall)) (cfg : Shared.config sstate L uobs scall).
    Variables (c : core) (d : disk) (j : list sop) (ev : list event) (bs : list bytes) (cl : N -> bool) (sk : bytes).
    Hypothesis HD : FInv cr c d bs cl.
    Hypothesis Hsk : kp_secret (c_keypair c) = Some sk.
    Hypothesis Hwf : Forall (fun p => wf_u (map to_uop p) (N.of_nat (length bs))) progs.
    Hypothesis Hfit : sumN (map len (bs ++ uappended (map to_uop (concat progs)))) <= u64_max.
    Hypothesis Hidx : NODE_SIZE * (2 * N.of_nat (length (bs ++ uappended (map to_uop (concat progs))))) <= u64_max.
    Hypothesis Hst : Shared.steps l0 body res (Shared.init (c, mkWorld d j ev) progs) cfg.

    (* the i-th completed call returns what the model prescribes in the model state reached by the i calls
       completed before it (unless an earlier call, or this append itself, hit the frame guard) *)
    Theorem shared_obs_at i t call r :
      nth_error (Shared.log cfg) i = Some (t, call, r) ->
      (forall k, (k < i)%nat -> nth_error (Shared.results (Shared.log cfg)) k <> Some frame_panic) ->
      let ops := map to_uop (firstn i (Shared.calls (Shared.log cfg))) in
      r = uobs_of (to_uop call) (bs ++ uappended ops) (snd (ustate ops bs cl)) \/
      (r = frame_panic /\ exists f batch, call = SAppend f batch).
    Proof.
      intros Hi Hno ops.
      destruct (shared_unified progs cfg c d j ev bs cl sk HD Hsk Hwf Hfit Hidx Hst) as (s1 & _ & Hout).
      assert (Hc : nth_error (Shared.calls (Shared.log cfg)) i = Some call).
      { unfold Shared.calls. rewrite (map_nth_error _ _ _ Hi). reflexivity. }
      assert (Hr : nth_error (Shared.results (Shared.log cfg)) i = Some r).
      { unfold Shared.results. rewrite (map_nth_error _ _ _ Hi). reflexivity. }
      pose proof (outcome_at cr c s1 _ _ bs cl Hout i call r Hc Hr Hno) as X.
      rewrite firstn_map in X. fold ops in X. rewrite (ustate_blocks ops) in X. exact X.
    Qed.

    (* (a) append outcomes: the i-th completed call, if it is an append, returns the initial length plus the
       sizes of the batches of the appends completed before it plus its own -- a gap-free increasing sequence *)
    Theorem shared_append_outcome i t f batch r :
      nth_error (Shared.log cfg) i = Some (t, SAppend f batch, r) ->
      (forall k, (k < i)%nat -> nth_error (Shared.results (Shared.log cfg)) k <> Some frame_panic) ->
      let before := firstn i (Shared.calls (Shared.log cfg)) in
      r = UOAppend (Ok (N.of_nat (length bs) + sumN (map cblocks before) + N.of_nat (length batch),
                        sumN (map len bs) + sumN (map cbytes before) + sumN (map len batch))) \/
      r = frame_panic.
    Proof.
      intros Hi Hno before.
      destruct (shared_obs_at i t _ r Hi Hno) as [->|[-> _]]; [left|right; reflexivity].
      cbn [to_uop uobs_of]. fold before.
      rewrite !app_length, !Nat2N.inj_add, uappended_blocks, !map_app, !TreeRef.sumN_app, uappended_bytes.
      reflexivity.
    Qed.

    (* (b) reads: the i-th completed call, if it is get idx, returns the block the serialization put at idx, or
       None if idx is cleared or not yet appended AT THIS POINT of the serialization *)
    Theorem shared_get_outcome i t idx r :
      nth_error (Shared.log cfg) i = Some (t, SGet idx, r) ->
      (forall k, (k < i)%nat -> nth_error (Shared.results (Shared.log cfg)) k <> Some frame_panic) ->
      let ops := map to_uop (firstn i (Shared.calls (Shared.log cfg))) in
      let bs_i := bs ++ uappended ops in
      r = UOGet (Ok (if held (N.of_nat (length bs_i)) (snd (ustate ops bs cl)) idx
                     then Some (nth (N.to_nat idx) bs_i []) else None)).
    Proof.
      intros Hi Hno ops bs_i.
      destruct (shared_obs_at i t _ r Hi Hno) as [->|[_ (f & batch & X)]]; [reflexivity|discriminate X].
    Qed.

    (* (b') afterwards: when the lock is free and no call hit the frame guard, the blocks of every completed
       append are in the shared core at the indices implied by its outcome (n = the returned length): has says
       true and get returns the block, unless a clear completed later covers the index *)
    Theorem shared_blocks_readable i t f batch n b k :
      Shared.holder cfg = None ->
      ~ In frame_panic (Shared.results (Shared.log cfg)) ->
      nth_error (Shared.log cfg) i = Some (t, SAppend f batch, UOAppend (Ok (n, b))) ->
      (k < length batch)%nat ->
      let idx := n - N.of_nat (length batch) + N.of_nat k in
      covers (map to_uop (skipn (Datatypes.S i) (Shared.calls (Shared.log cfg)))) idx = false ->
      let cF := fst (Shared.shared cfg) in
      let dF := w_disk (snd (Shared.shared cfg)) in
      core_has cF idx = true /\
      forall j' ev', core_get idx cF (mkWorld dF j' ev') = (cF, mkWorld dF j' ev', Ok (Some (nth k batch []))).
    Proof.
      intros Hfree Hnp Hi Hk idx Hcov cF dF.
      destruct (shared_unified progs cfg c d j ev bs cl sk HD Hsk Hwf Hfit Hidx Hst) as (s1 & Hs1 & Hout).
      rewrite (Hs1 Hfree) in Hout.
      destruct Hout as [(Hrs & DF & _)|(k0 & f0 & b0 & _ & _ & Hp)];
        [|exfalso; apply Hnp; exact (nth_error_In _ _ Hp)].
      fold cF dF in DF.
      destruct (nth_error_split _ _ Hi) as (l1 & l2 & Hl & Hlen).
      set (ops1 := map to_uop (Shared.calls l1)).
      set (ops2 := map to_uop (Shared.calls l2)).
      assert (Hcs : Shared.calls (Shared.log cfg) = Shared.calls l1 ++ SAppend f batch :: Shared.calls l2).
      { rewrite Hl. unfold Shared.calls. rewrite map_app. reflexivity. }
      assert (Hops : map to_uop (Shared.calls (Shared.log cfg)) = ops1 ++ UAppend f batch :: ops2).
      { rewrite Hcs, map_app. reflexivity. }
      assert (Hl1 : length (Shared.calls l1) = i) by (unfold Shared.calls; rewrite map_length; exact Hlen).
      (* the returned length *)
      assert (Hn : n = N.of_nat (length ((bs ++ uappended ops1) ++ batch))).
      { assert (Hr : nth_error (Shared.results (Shared.log cfg)) i = Some (UOAppend (Ok (n, b)))).
        { unfold Shared.results. rewrite (map_nth_error _ _ _ Hi). reflexivity. }
        rewrite Hrs in Hr.
        assert (Hc : nth_error (map to_uop (Shared.calls (Shared.log cfg))) i = Some (UAppend f batch)).
        { rewrite Hops, nth_error_app2 by (unfold ops1; rewrite map_length; lia).
          unfold ops1. rewrite map_length, Hl1, Nat.sub_diag. reflexivity. }
        rewrite (uspec_nth _ _ _ bs cl Hc) in Hr. rewrite Hops, firstn_split in Hr
          by (unfold ops1; rewrite map_length; exact Hl1).
        rewrite ustate_blocks in Hr. cbn [uobs_of] in Hr. injection Hr as Hr _. symmetry. exact Hr. }
      assert (Hidx' : idx = N.of_nat (length (bs ++ uappended ops1)) + N.of_nat k).
      { unfold idx. rewrite Hn, app_length. lia. }
      rewrite Hcs, skipn_split in Hcov by exact Hl1. fold ops2 in Hcov.
      rewrite Hops in DF.
      destruct (ustate_appended ops1 f batch ops2 bs cl k Hk) as [Hnth Hheld].
      cbv zeta in Hnth, Hheld. rewrite <- Hidx' in Hnth, Hheld. rewrite Hcov in Hheld. cbn [negb] in Hheld.
      split.
      - rewrite (has_correct_U cr cF dF _ _ idx DF). exact Hheld.
      - intros j' ev'. rewrite (get_correct_U cr cF dF _ _ j' ev' idx DF), Hheld, Hnth. reflexivity.
    Qed.
  End Run.

  (* the same with the ghost clock of Shared.v: the serialization order used above respects real time -- a call
     that finished before another one started precedes it in the completion log *)
  Theorem shared_unified_realtime progs cfg k c d j ev bs cl sk :
    FInv cr c d bs cl -> kp_secret (c_keypair c) = Some sk ->
    Forall (fun p => wf_u (map to_uop p) (N.of_nat (length bs))) progs ->
    sumN (map len (bs ++ uappended (map to_uop (concat progs)))) <= u64_max ->
    NODE_SIZE * (2 * N.of_nat (length (bs ++ uappended (map to_uop (concat progs))))) <= u64_max ->
    Shared.stepsT l0 body res (Shared.initT (c, mkWorld d j ev) progs) (cfg, k) ->
    let cs := Shared.calls (Shared.log cfg) in
    map fst (Shared.tlog k) = Shared.log cfg /\
    (forall i1 i2 a b, nth_error (Shared.tlog k) i1 = Some a -> nth_error (Shared.tlog k) i2 = Some b ->
       (Shared.fin a < Shared.sta b)%nat -> (i1 < i2)%nat) /\
    exists s1, (Shared.holder cfg = None -> s1 = Shared.shared cfg) /\
      (model_run cr c s1 cs (Shared.results (Shared.log cfg)) bs cl \/
       frame_stop cs (Shared.results (Shared.log cfg)) bs cl).
  Proof.
    intros D Hsk Hwf Hfit Hidx HstT cs.
    destruct (Shared.realtime_respected _ _ _ _ _ _ _ _ _ _ _ HstT) as [R1 R2].
    split; [exact R1|]. split; [exact R2|].
    exact (shared_unified progs cfg c d j ev bs cl sk D Hsk Hwf Hfit Hidx
             (Shared.timed_reachable_erase _ _ _ _ _ _ _ _ _ _ _ HstT)).
  Qed.
End Seq.

(* ====================================================================================== *)
(* F. Instance 1: one micro-step per call                                                  *)
(* ====================================================================================== *)

(* the local state of a method body is the observation to return; the placeholder it starts with is
   overwritten by the single micro-step, which runs the whole Core.v operation under the lock *)
Definition one_l0 (c : scall) : uobs := UOHas false.
Definition one_body (cr : crypto) (c : scall) : list (sstate * uobs -> sstate * uobs) :=
  [fun x => sstep cr c (fst x)].
Definition one_res (c : scall) (l : uobs) : uobs := l.

Lemma one_atomic cr c s : Shared.atomic one_l0 (one_body cr) one_res c s = sstep cr c s.
Proof.
  unfold Shared.atomic, one_body, one_res. cbn [fold_left fst]. destruct (sstep cr c s) as [s' o]. reflexivity.
Qed.

(* ====================================================================================== *)
(* G. Instance 2: append split at its storage operations                                    *)
(* ====================================================================================== *)

(* A non-empty append is six micro-steps, between any two of which the scheduler may run other tasks:
     1 prepare   read the tree, build and sign the changeset          (no write)
     2 data      write the blocks to the data store
     3 log       append the oplog entry, update bitfield and header, commit the tree
     4 flush     the flush cadence (bitfield pages, tree nodes, oplog header)
     5 events    send Upgrade and Have
     6 finish    read the new length and byte length
   The local state carries the signed changeset between the steps; a step that fails ends the call with
   that result and the remaining steps do nothing.  The other calls stay one micro-step. *)
Inductive slocal :=
| LStart
| LPend (cs : changeset) (bu : bf_update)
| LDone (o : uobs).

Definition stage (m : changeset -> bf_update -> M unit) (x : sstate * slocal) : sstate * slocal :=
  match snd x with
  | LPend cs bu =>
      match m cs bu (fst (fst x)) (snd (fst x)) with
      | (c', w', Ok _) => ((c', w'), LPend cs bu)
      | (c', w', Err e) => ((c', w'), LDone (UOAppend (Err e)))
      | (c', w', Panic s) => ((c', w'), LDone (UOAppend (Panic s)))
      | (c', w', OutOfFuel) => ((c', w'), LDone (UOAppend OutOfFuel))
      end
  | _ => x
  end.

Definition ap_prepare (cr : crypto) (batch : list bytes) (x : sstate * slocal) : sstate * slocal :=
  let c := fst (fst x) in
  match snd x with
  | LStart =>
      match kp_secret (c_keypair c) with
      | None => (fst x, LDone (UOAppend (Err NotWritable)))
      | Some sk =>
          match batch with
          | [] => (fst x, LDone (UOAppend (Ok (t_length (c_tree c), t_byte_length (c_tree c)))))
          | _ =>
              match cs_append_all cr (tree_changeset (c_tree c)) batch with
              | Ok cs => let cs := cs_hash_and_sign cr cs sk in
                         (fst x, LPend cs (mkBfUpdate false (cs_ancestors cs) (cs_batch_length cs)))
              | Err e => (fst x, LDone (UOAppend (Err e)))
              | Panic s => (fst x, LDone (UOAppend (Panic s)))
              | OutOfFuel => (fst x, LDone (UOAppend OutOfFuel))
              end
          end
      end
  | _ => x
  end.

Definition ap_finish (x : sstate * slocal) : sstate * slocal :=
  let c := fst (fst x) in
  match snd x with
  | LPend _ _ => (fst x, LDone (UOAppend (Ok (t_length (c_tree c), t_byte_length (c_tree c)))))
  | _ => x
  end.

Definition split_l0 (c : scall) : slocal := LStart.
Definition split_body (cr : crypto) (c : scall) : list (sstate * slocal -> sstate * slocal) :=
  match c with
  | SAppend f batch =>
      [ ap_prepare cr batch;
        stage (fun _ _ => c <-- get_core ;;; emit [SW Data (t_byte_length (c_tree c)) (concat batch)]);
        stage (fun cs bu => log_and_commit cr cs (Some bu));
        stage (fun _ _ => maybe_flush cr f);
        stage (fun _ bu => send EvUpgrade ;;; send (EvHave (bu_start bu) (bu_length bu) false));
        ap_finish ]
  | _ => [fun x => (fst (sstep cr c (fst x)), LDone (snd (sstep cr c (fst x))))]
  end.
Definition split_res (c : scall) (l : slocal) : uobs :=
  match l with LDone o => o | _ => UOHas false end.

Lemma mbind_case {A B} (m : M A) (k : A -> M B) c w :
  mbind m k c w = match m c w with
                  | (c', w', Ok a) => k a c' w'
                  | (c', w', Err e) => (c', w', Err e)
                  | (c', w', Panic s) => (c', w', Panic s)
                  | (c', w', OutOfFuel) => (c', w', OutOfFuel)
                  end.
Proof. reflexivity. Qed.

Lemma stage_pend m c w cs bu :
  stage m ((c, w), LPend cs bu) =
  match m cs bu c w with
  | (c', w', Ok _) => ((c', w'), LPend cs bu)
  | (c', w', Err e) => ((c', w'), LDone (UOAppend (Err e)))
  | (c', w', Panic s) => ((c', w'), LDone (UOAppend (Panic s)))
  | (c', w', OutOfFuel) => ((c', w'), LDone (UOAppend OutOfFuel))
  end.
Proof. reflexivity. Qed.

Lemma stage_done m s o : stage m (s, LDone o) = (s, LDone o).
Proof. reflexivity. Qed.

Lemma ap_finish_done s o : ap_finish (s, LDone o) = (s, LDone o).
Proof. reflexivity. Qed.

(* the six micro-steps, run without interruption, are core_append *)
Lemma split_atomic cr c s : Shared.atomic split_l0 (split_body cr) split_res c s = sstep cr c s.
Proof.
  destruct c as [f batch|f st en|i|i| ];
    try (unfold Shared.atomic, split_body, split_res, split_l0; cbn [fold_left fst snd];
         destruct (sstep cr _ s) as [s' o]; reflexivity).
  destruct s as [c w].
  unfold Shared.atomic, split_body, split_l0, sstep, core_append. cbn [fst snd].
  rewrite mbind_get_core. cbn [fold_left]. unfold ap_prepare at 1. cbn [fst snd].
  destruct (kp_secret (c_keypair c)) as [sk|]; [|reflexivity].
  destruct batch as [|b0 rest]; [reflexivity|].
  set (batch := b0 :: rest).
  rewrite (mbind_case (mbind _ _)), (mbind_lift (cs_append_all cr (tree_changeset (c_tree c)) batch)).
  destruct (cs_append_all cr (tree_changeset (c_tree c)) batch) as [cs0|e|msg|];
    try (rewrite !stage_done, ap_finish_done; reflexivity).
  cbv zeta. set (cs := cs_hash_and_sign cr cs0 sk).
  set (bu := mkBfUpdate false (cs_ancestors cs) (cs_batch_length cs)).
  (* data *)
  rewrite stage_pend, mbind_get_core, mbind_case.
  destruct (emit [SW Data (t_byte_length (c_tree c)) (concat batch)] c w) as [[c1 w1] [u1|e|msg|]];
    try (rewrite !stage_done, ap_finish_done; reflexivity).
  (* log *)
  rewrite stage_pend, mbind_case.
  destruct (log_and_commit cr cs (Some bu) c1 w1) as [[c2 w2] [u2|e|msg|]];
    try (rewrite !stage_done, ap_finish_done; reflexivity).
  (* flush *)
  rewrite stage_pend, mbind_case.
  destruct (maybe_flush cr f c2 w2) as [[c3 w3] [u3|e|msg|]];
    try (rewrite !stage_done, ap_finish_done; reflexivity).
  (* events, finish *)
  rewrite stage_pend, !mbind_send. reflexivity.
Qed.

(* ====================================================================================== *)
(* H. The theorems for the two instances                                                   *)
(* ====================================================================================== *)

Section Instances.
  Variable cr : crypto.
  Hypothesis Hcrc : crc_ok cr.
  Hypothesis Hhash32 : forall x, length (cr_hash cr x) = 32%nat.
  Hypothesis Hnonblank : forall x, all_zero (cr_hash cr x) = false.
  Hypothesis Hhashbytes : forall x, bytes_ok (cr_hash cr x) = true.
  Hypothesis Hsig64 : forall sk m, length (cr_sign cr sk m) = 64%nat.
  Hypothesis Hsigbytes : forall sk m, bytes_ok (cr_sign cr sk m) = true.

  Variables (progs : list (list scall)).
  Variables (c : core) (d : disk) (j : list sop) (ev : list event) (bs : list bytes) (cl : N -> bool) (sk : bytes).
  Hypothesis HD : FInv cr c d bs cl.
  Hypothesis Hsk : kp_secret (c_keypair c) = Some sk.
  Hypothesis Hwf : Forall (fun p => wf_u (map to_uop p) (N.of_nat (length bs))) progs.
  Hypothesis Hfit : sumN (map len (bs ++ uappended (map to_uop (concat progs)))) <= u64_max.
  Hypothesis Hidx : NODE_SIZE * (2 * N.of_nat (length (bs ++ uappended (map to_uop (concat progs))))) <= u64_max.

  (* one micro-step per call *)
  Theorem shared_core_one cfg :
    Shared.steps one_l0 (one_body cr) one_res (Shared.init (c, mkWorld d j ev) progs) cfg ->
    let cs := Shared.calls (Shared.log cfg) in
    exists s1, (Shared.holder cfg = None -> s1 = Shared.shared cfg) /\
      (model_run cr c s1 cs (Shared.results (Shared.log cfg)) bs cl \/
       frame_stop cs (Shared.results (Shared.log cfg)) bs cl).
  Proof.
    exact (shared_unified cr Hcrc Hhash32 Hnonblank Hhashbytes Hsig64 Hsigbytes _ _ _ _ (one_atomic cr)
             progs cfg c d j ev bs cl sk HD Hsk Hwf Hfit Hidx).
  Qed.

  (* appends split at their storage operations *)
  Theorem shared_core_split cfg :
    Shared.steps split_l0 (split_body cr) split_res (Shared.init (c, mkWorld d j ev) progs) cfg ->
    let cs := Shared.calls (Shared.log cfg) in
    exists s1, (Shared.holder cfg = None -> s1 = Shared.shared cfg) /\
      (model_run cr c s1 cs (Shared.results (Shared.log cfg)) bs cl \/
       frame_stop cs (Shared.results (Shared.log cfg)) bs cl).
  Proof.
    exact (shared_unified cr Hcrc Hhash32 Hnonblank Hhashbytes Hsig64 Hsigbytes _ _ _ _ (split_atomic cr)
             progs cfg c d j ev bs cl sk HD Hsk Hwf Hfit Hidx).
  Qed.

  Theorem shared_core_split_finished cfg :
    Shared.steps split_l0 (split_body cr) split_res (Shared.init (c, mkWorld d j ev) progs) cfg ->
    (forall tk, In tk (Shared.tasks cfg) -> Shared.st tk = Shared.Idle /\ Shared.prog tk = []) ->
    let cs := Shared.calls (Shared.log cfg) in
    length (Shared.log cfg) = list_sum (map (@length scall) progs) /\
    (forall t, task_calls t (Shared.log cfg) = nth t progs []) /\
    (forall t tk, nth_error (Shared.tasks cfg) t = Some tk ->
       Shared.out tk = map snd (filter (fun e => Nat.eqb (fst (fst e)) t) (Shared.log cfg))) /\
    Shared.holder cfg = None /\
    (model_run cr c (Shared.shared cfg) cs (Shared.results (Shared.log cfg)) bs cl \/
     frame_stop cs (Shared.results (Shared.log cfg)) bs cl).
  Proof.
    exact (shared_unified_finished cr Hcrc Hhash32 Hnonblank Hhashbytes Hsig64 Hsigbytes _ _ _ _ (split_atomic cr)
             progs cfg c d j ev bs cl sk HD Hsk Hwf Hfit Hidx).
  Qed.

  Theorem shared_core_split_append_outcome cfg i t f batch r :
    Shared.steps split_l0 (split_body cr) split_res (Shared.init (c, mkWorld d j ev) progs) cfg ->
    nth_error (Shared.log cfg) i = Some (t, SAppend f batch, r) ->
    (forall k, (k < i)%nat -> nth_error (Shared.results (Shared.log cfg)) k <> Some frame_panic) ->
    let before := firstn i (Shared.calls (Shared.log cfg)) in
    r = UOAppend (Ok (N.of_nat (length bs) + sumN (map cblocks before) + N.of_nat (length batch),
                      sumN (map len bs) + sumN (map cbytes before) + sumN (map len batch))) \/
    r = frame_panic.
  Proof.
    intros Hst.
    exact (shared_append_outcome cr Hcrc Hhash32 Hnonblank Hhashbytes Hsig64 Hsigbytes _ _ _ _ (split_atomic cr)
             progs cfg c d j ev bs cl sk HD Hsk Hwf Hfit Hidx Hst i t f batch r).
  Qed.

  Theorem shared_core_split_get_outcome cfg i t idx r :
    Shared.steps split_l0 (split_body cr) split_res (Shared.init (c, mkWorld d j ev) progs) cfg ->
    nth_error (Shared.log cfg) i = Some (t, SGet idx, r) ->
    (forall k, (k < i)%nat -> nth_error (Shared.results (Shared.log cfg)) k <> Some frame_panic) ->
    let ops := map to_uop (firstn i (Shared.calls (Shared.log cfg))) in
    let bs_i := bs ++ uappended ops in
    r = UOGet (Ok (if held (N.of_nat (length bs_i)) (snd (ustate ops bs cl)) idx
                   then Some (nth (N.to_nat idx) bs_i []) else None)).
  Proof.
    intros Hst.
    exact (shared_get_outcome cr Hcrc Hhash32 Hnonblank Hhashbytes Hsig64 Hsigbytes _ _ _ _ (split_atomic cr)
             progs cfg c d j ev bs cl sk HD Hsk Hwf Hfit Hidx Hst i t idx r).
  Qed.

  Theorem shared_core_split_blocks_readable cfg i t f batch n b k :
    Shared.steps split_l0 (split_body cr) split_res (Shared.init (c, mkWorld d j ev) progs) cfg ->
    Shared.holder cfg = None ->
    ~ In frame_panic (Shared.results (Shared.log cfg)) ->
    nth_error (Shared.log cfg) i = Some (t, SAppend f batch, UOAppend (Ok (n, b))) ->
    (k < length batch)%nat ->
    let idx := n - N.of_nat (length batch) + N.of_nat k in
    covers (map to_uop (skipn (Datatypes.S i) (Shared.calls (Shared.log cfg)))) idx = false ->
    let cF := fst (Shared.shared cfg) in
    let dF := w_disk (snd (Shared.shared cfg)) in
    core_has cF idx = true /\
    forall j' ev', core_get idx cF (mkWorld dF j' ev') = (cF, mkWorld dF j' ev', Ok (Some (nth k batch []))).
  Proof.
    intros Hst.
    exact (shared_blocks_readable cr Hcrc Hhash32 Hnonblank Hhashbytes Hsig64 Hsigbytes _ _ _ _ (split_atomic cr)
             progs cfg c d j ev bs cl sk HD Hsk Hwf Hfit Hidx Hst i t f batch n b k).
  Qed.
End Instances.

(* ====================================================================================== *)
(* I. Non-vacuity: two tasks on the toy instance, interleaved                              *)
(* ====================================================================================== *)

Definition toy_progs : list (list scall) :=
  [[SAppend (Some false) [[1; 2; 3]; []]; SGet 1; SInfo];
   [SAppend None [[4]]; SClear (Some true) 0 1; SGet 0; SHas 1]].

(* one micro-step per call; every call is start, acquire, micro, finish of its task *)
Definition toy_sched1 : list nat :=
  [0; 1; 1; 1; 1; 0; 1; 0; 0; 1; 0; 1; 1; 0; 1; 0; 0; 1; 1; 1; 0; 1; 1; 1; 1; 0; 0; 0]%nat.

(* appends split: task 1 starts, task 0 starts, task 1 takes the lock and runs its six micro-steps (task 0 is
   scheduled in between and has to wait), then task 0's append runs while task 1 issues its clear, ... *)
Definition toy_sched2 : list nat :=
  ([1; 0; 1; 1; 1; 1; 1; 1; 1; 1] ++ [0; 0; 1; 0; 0; 0; 0; 0; 0] ++
   [1; 0; 1; 1; 0; 1; 0; 0; 1; 1; 1; 0; 1; 1; 1; 1; 0; 0; 0])%nat.

(* what both runs must produce: task 1's append completes first, so task 0's two blocks get indices 1 and 2 *)
Definition toy_expected_log : list (nat * scall * uobs) :=
  [(1%nat, SAppend None [[4]], UOAppend (Ok (1, 1)));
   (0%nat, SAppend (Some false) [[1; 2; 3]; []], UOAppend (Ok (3, 4)));
   (1%nat, SClear (Some true) 0 1, UOClear (Ok tt));
   (0%nat, SGet 1, UOGet (Ok (Some [1; 2; 3])));
   (1%nat, SGet 0, UOGet (Ok None));
   (1%nat, SHas 1, UOHas true);
   (0%nat, SInfo, UOInfo (mkInfo 3 4 0 0 true))].

Definition all_done {St L R call} (cfg : Shared.config St L R call) : bool :=
  forallb (fun tk => match Shared.st tk, Shared.prog tk with Shared.Idle, [] => true | _, _ => false end)
          (Shared.tasks cfg).

Example toy_shared_one_run :
  match core_open toy_cr (Some toy_keypair) false disk_empty with
  | (d0, _, Ok c0) =>
      match Shared.run_sched one_l0 (one_body toy_cr) one_res toy_sched1
                             (Shared.init (c0, mkWorld d0 [] []) toy_progs) with
      | Some cfg =>
          Shared.holder cfg = None /\ all_done cfg = true /\ Shared.log cfg = toy_expected_log /\
          Shared.results (Shared.log cfg) =
            uspec (map to_uop (Shared.calls (Shared.log cfg))) [] (fun _ => false) /\
          map (@Shared.out _ _ _ _) (Shared.tasks cfg) =
            [[UOAppend (Ok (3, 4)); UOGet (Ok (Some [1; 2; 3])); UOInfo (mkInfo 3 4 0 0 true)];
             [UOAppend (Ok (1, 1)); UOClear (Ok tt); UOGet (Ok None); UOHas true]]
      | None => False
      end
  | _ => False
  end.
Proof. vm_compute. repeat split. Qed.

Example toy_shared_split_run :
  match core_open toy_cr (Some toy_keypair) false disk_empty with
  | (d0, _, Ok c0) =>
      match Shared.run_sched split_l0 (split_body toy_cr) split_res toy_sched2
                             (Shared.init (c0, mkWorld d0 [] []) toy_progs) with
      | Some cfg =>
          Shared.holder cfg = None /\ all_done cfg = true /\ Shared.log cfg = toy_expected_log /\
          Shared.results (Shared.log cfg) =
            uspec (map to_uop (Shared.calls (Shared.log cfg))) [] (fun _ => false)
      | None => False
      end
  | _ => False
  end.
Proof. vm_compute. repeat split. Qed.

(* A partially applied append exists but nobody can look at it: after task 1's second micro-step the data
   store holds its block while length and byte length are still 0; task 1 holds the lock, and task 0 (which
   has started its own append) cannot move. *)
Example toy_shared_split_partial_unobservable :
  match core_open toy_cr (Some toy_keypair) false disk_empty with
  | (d0, _, Ok c0) =>
      match Shared.run_sched split_l0 (split_body toy_cr) split_res [1; 0; 1; 1; 1]%nat
                             (Shared.init (c0, mkWorld d0 [] []) toy_progs) with
      | Some cfg =>
          Shared.holder cfg = Some 1%nat /\
          f_len (d_data (w_disk (snd (Shared.shared cfg)))) = 1 /\
          core_info (fst (Shared.shared cfg)) = mkInfo 0 0 0 0 true /\
          Shared.fire split_l0 (split_body toy_cr) split_res 0 cfg = None
      | None => False
      end
  | _ => False
  end.
Proof. vm_compute. repeat split. Qed.

Lemma toy_progs_wf : Forall (fun p => wf_u (map to_uop p) 0) toy_progs.
Proof.
  unfold toy_progs. repeat constructor; cbn [map to_uop wf_u length]; unfold u64_max; lia.
Qed.

(* the hypotheses of the theorems are met, and the theorem (not a computation) yields the conclusion for the
   concrete interleaved run: all results are the model's and the final shared state satisfies FInv *)
Example toy_shared_end_to_end :
  exists d0 ops0 c0 cfg,
    core_open toy_cr (Some toy_keypair) false disk_empty = (d0, ops0, Ok c0) /\
    FInv toy_cr c0 d0 [] (fun _ => false) /\
    kp_secret (c_keypair c0) = Some (repeat 2 32%nat) /\
    Forall (fun p => wf_u (map to_uop p) (N.of_nat (length (@nil bytes)))) toy_progs /\
    Shared.run_sched split_l0 (split_body toy_cr) split_res toy_sched2
                     (Shared.init (c0, mkWorld d0 [] []) toy_progs) = Some cfg /\
    Shared.holder cfg = None /\
    model_run toy_cr c0 (Shared.shared cfg) (Shared.calls (Shared.log cfg)) (Shared.results (Shared.log cfg))
              [] (fun _ => false) /\
    (* task 0's blocks are readable where its outcome (3, 4) says: indices 3 - 2 + 0 and 3 - 2 + 1 *)
    core_has (fst (Shared.shared cfg)) 1 = true /\ core_has (fst (Shared.shared cfg)) 2 = true.
Proof.
  destruct (FInv_init toy_cr toy_crc_ok' toy_hash32 toy_nonblank toy_hashbytes toy_keypair eq_refl)
    as (d0 & ops0 & c0 & Ho & D0 & K).
  assert (Hsk : kp_secret (c_keypair c0) = Some (repeat 2 32%nat)) by (rewrite K; reflexivity).
  pose proof Ho as Ho'. vm_compute in Ho'. injection Ho' as Ed _ Ec.
  destruct (Shared.run_sched split_l0 (split_body toy_cr) split_res toy_sched2
              (Shared.init (c0, mkWorld d0 [] []) toy_progs)) as [cfg|] eqn:E;
    [|rewrite <- Ec, <- Ed in E; vm_compute in E; discriminate E].
  pose proof (Shared.run_sched_sound _ _ _ _ _ _ _ _ _ _ E) as Hst.
  assert (Hdone : all_done cfg = true /\ Shared.holder cfg = None /\
                  ~ In frame_panic (Shared.results (Shared.log cfg)) /\
                  Shared.log cfg = toy_expected_log).
  { pose proof E as E'. rewrite <- Ec, <- Ed in E'. vm_compute in E'. injection E' as E'. rewrite <- E'.
    vm_compute.
    repeat split. intros H. repeat (destruct H as [H|H]; [discriminate H|]). exact H. }
  destruct Hdone as (Hd & Hfree & Hnp & Hlog).
  assert (Hfit : sumN (map len ([] ++ uappended (map to_uop (concat toy_progs)))) <= u64_max)
    by (vm_compute; discriminate).
  assert (Hidx : NODE_SIZE * (2 * N.of_nat (length ([] ++ uappended (map to_uop (concat toy_progs))))) <= u64_max)
    by (vm_compute; discriminate).
  destruct (shared_core_split toy_cr toy_crc_ok' toy_hash32 toy_nonblank toy_hashbytes toy_sig64 toy_sigbytes
              toy_progs _ _ [] [] [] (fun _ => false) _ D0 Hsk toy_progs_wf Hfit Hidx cfg Hst)
    as (s1 & Hs1 & [Hm|(k & f & b & _ & _ & Hp)]); [|exfalso; apply Hnp; exact (nth_error_In _ _ Hp)].
  rewrite (Hs1 Hfree) in Hm.
  eexists _, _, _, cfg. split; [exact Ho|]. split; [exact D0|]. split; [exact Hsk|].
  split; [exact toy_progs_wf|]. split; [exact E|]. split; [exact Hfree|]. split; [exact Hm|].
  assert (Hi : nth_error (Shared.log cfg) 1 =
               Some (0%nat, SAppend (Some false) [[1; 2; 3]; []], UOAppend (Ok (3, 4))))
    by (rewrite Hlog; reflexivity).
  split.
  - refine (proj1 (shared_core_split_blocks_readable toy_cr toy_crc_ok' toy_hash32 toy_nonblank toy_hashbytes
              toy_sig64 toy_sigbytes toy_progs _ _ [] [] [] (fun _ => false) _ D0 Hsk toy_progs_wf Hfit Hidx
              cfg 1%nat 0%nat _ _ 3 4 0%nat Hst Hfree Hnp Hi _ _)); [cbn [length]; lia|].
    rewrite Hlog. reflexivity.
  - refine (proj1 (shared_core_split_blocks_readable toy_cr toy_crc_ok' toy_hash32 toy_nonblank toy_hashbytes
              toy_sig64 toy_sigbytes toy_progs _ _ [] [] [] (fun _ => false) _ D0 Hsk toy_progs_wf Hfit Hidx
              cfg 1%nat 0%nat _ _ 3 4 1%nat Hst Hfree Hnp Hi _ _)); [cbn [length]; lia|].
    rewrite Hlog. reflexivity.
Qed.

Print Assumptions seq_unified.
Print Assumptions shared_unified_log.
Print Assumptions shared_unified.
Print Assumptions shared_unified_finished.
Print Assumptions shared_obs_at.
Print Assumptions shared_append_outcome.
Print Assumptions shared_get_outcome.
Print Assumptions shared_blocks_readable.
Print Assumptions shared_unified_realtime.
Print Assumptions one_atomic.
Print Assumptions split_atomic.
Print Assumptions shared_core_one.
Print Assumptions shared_core_split.
Print Assumptions shared_core_split_finished.
Print Assumptions shared_core_split_append_outcome.
Print Assumptions shared_core_split_get_outcome.
Print Assumptions shared_core_split_blocks_readable.
Print Assumptions toy_shared_one_run.
Print Assumptions toy_shared_split_run.
Print Assumptions toy_shared_split_partial_unobservable.
Print Assumptions toy_shared_end_to_end.

(* Oplog.v — CRC-framed header slots and entries.
   Mirrors: src/oplog/mod.rs, src/oplog/header.rs, src/oplog/entry.rs, src/crypto/manifest.rs
   and the Manifest/ManifestSigner codecs of src/encoding.rs.
   Not modelled: non-empty user_data / reorgs (Vec<String>); decoding them yields [Unsupported]. *)
From HC Require Export Base Codec Crypto Storage Bitfield.

Definition HEADER_SIZE : N := 4096.
Definition ENTRIES_OFFSET : N := 8192.
Definition MAX_OPLOG_ENTRIES_BYTE_SIZE : N := 65536.

Definition Unsupported {A} : res A := Panic "model: unsupported (user_data / reorgs / truncation)".

Record keypair := mkKeypair { kp_public : bytes; kp_secret : option bytes }.
Record header_tree := mkHeaderTree {
  ht_fork : N; ht_length : N; ht_root_hash : bytes; ht_signature : bytes }.
Record header := mkHeader {
  hd_key : bytes;            (* 32 bytes *)
  hd_ns : bytes;             (* manifest signer namespace, 32 bytes *)
  hd_mpk : bytes;            (* manifest signer public key, 32 bytes *)
  hd_keypair : keypair;
  hd_tree : header_tree;
  hd_contig : N }.           (* hints.contiguous_length *)

Definition header_new (kp : keypair) : header :=
  mkHeader (kp_public kp) DEFAULT_NAMESPACE (kp_public kp) kp (mkHeaderTree 0 0 [] []) 0.

Definition set_contig (h : header) (c : N) : header :=
  mkHeader (hd_key h) (hd_ns h) (hd_mpk h) (hd_keypair h) (hd_tree h) c.
Definition set_tree (h : header) (t : header_tree) : header :=
  mkHeader (hd_key h) (hd_ns h) (hd_mpk h) (hd_keypair h) t (hd_contig h).
Definition set_keypair (h : header) (k : keypair) : header :=
  mkHeader (hd_key h) (hd_ns h) (hd_mpk h) k (hd_tree h) (hd_contig h).

(* ---------- header codec ---------- *)

Definition enc_keypair (k : keypair) : bytes :=
  enc_buffer (kp_public k) ++
  match kp_secret k with
  | Some sk => enc_buffer (sk ++ kp_public k)
  | None => [0]
  end.

Definition enc_header_tree (t : header_tree) : bytes :=
  enc_uint (ht_fork t) ++ enc_uint (ht_length t) ++ enc_buffer (ht_root_hash t)
  ++ enc_buffer (ht_signature t).

Definition enc_header (h : header) : bytes :=
  [1; 6] ++ hd_key h
  ++ ([0; 0; 1] ++ [0] ++ hd_ns h ++ hd_mpk h)          (* manifest: version, hash, type, signer *)
  ++ enc_keypair (hd_keypair h)
  ++ [0]                                                   (* user_data: empty vector *)
  ++ enc_header_tree (hd_tree h)
  ++ ([0] ++ enc_uint (hd_contig h)).                      (* hints: reorgs (empty), contiguous *)

Definition dec_byte (b : bytes) : res (N * bytes) :=
  match b with [] => Err EncodingErr | x :: r => Ok (x, r) end.

(* Vec<String>: only the empty vector is modelled *)
Definition dec_strings (b : bytes) : res (unit * bytes) :=
  '(n, r) <- dec_uint b ;; if n =? 0 then Ok (tt, r) else Unsupported.

Definition dec_keypair (b : bytes) : res (keypair * bytes) :=
  '(pl, r) <- dec_uint b ;;
  if negb (pl =? 32) then Err EncodingErr else
  '(pk, r) <- dec_fixed 32 r ;;
  '(sl, r) <- dec_uint r ;;
  if sl =? 0 then Ok (mkKeypair pk None, r)
  else if sl =? 64 then
    '(full, r) <- dec_fixed 64 r ;; Ok (mkKeypair pk (Some (firstn 32 full)), r)
  else Err EncodingErr.

Definition dec_header_tree (b : bytes) : res (header_tree * bytes) :=
  '(f, r) <- dec_uint b ;; '(l, r) <- dec_uint r ;; '(h, r) <- dec_buffer r ;;
  '(s, r) <- dec_buffer r ;; Ok (mkHeaderTree f l h s, r).

Definition dec_manifest (b : bytes) : res (bytes * bytes * bytes) :=
  '(version, r) <- dec_byte b ;;
  if negb (version =? 0) then Panic "Unknown manifest version" else
  '(hash_id, r) <- dec_byte r ;;
  if negb (hash_id =? 0) then Err EncodingErr else
  '(mtype, r) <- dec_byte r ;;
  if negb (mtype =? 1) then Err EncodingErr else
  '(sig_id, r) <- dec_byte r ;;
  if negb (sig_id =? 0) then Err EncodingErr else
  '(ns, r) <- dec_fixed 32 r ;;
  '(pk, r) <- dec_fixed 32 r ;;
  Ok (ns, pk, r).

Definition dec_header (b : bytes) : res (header * bytes) :=
  '(_, r) <- dec_fixed 2 b ;;
  '(key, r) <- dec_fixed 32 r ;;
  '(ns, pk, r) <- dec_manifest r ;;
  '(kp, r) <- dec_keypair r ;;
  '(_, r) <- dec_strings r ;;
  '(t, r) <- dec_header_tree r ;;
  '(_, r) <- dec_strings r ;;
  '(c, r) <- dec_uint r ;;
  Ok (mkHeader key ns pk kp t c, r).

(* ---------- entry codec ---------- *)

Record tree_upgrade := mkTreeUpgrade {
  tu_fork : N; tu_ancestors : N; tu_length : N; tu_signature : bytes }.
Record entry := mkEntry {
  e_nodes : list node; e_upgrade : option tree_upgrade; e_bitfield : option bf_update }.

Definition enc_tree_upgrade (u : tree_upgrade) : bytes :=
  enc_uint (tu_fork u) ++ enc_uint (tu_ancestors u) ++ enc_uint (tu_length u)
  ++ enc_buffer (tu_signature u).

Definition enc_bf_update (u : bf_update) : bytes :=
  [if bu_drop u then 1 else 0] ++ enc_uint (bu_start u) ++ enc_uint (bu_length u).

Definition entry_flags (e : entry) : N :=
  (match e_nodes e with [] => 0 | _ => 2 end)
  + (match e_upgrade e with Some _ => 4 | None => 0 end)
  + (match e_bitfield e with Some _ => 8 | None => 0 end).

Definition enc_entry (e : entry) : res bytes :=
  ns <- (match e_nodes e with [] => Ok [] | l => enc_nodes l end) ;;
  Ok ([entry_flags e] ++ ns
      ++ (match e_upgrade e with Some u => enc_tree_upgrade u | None => [] end)
      ++ (match e_bitfield e with Some u => enc_bf_update u | None => [] end)).

Definition dec_tree_upgrade (b : bytes) : res (tree_upgrade * bytes) :=
  '(f, r) <- dec_uint b ;; '(a, r) <- dec_uint r ;; '(l, r) <- dec_uint r ;;
  '(s, r) <- dec_buffer r ;; Ok (mkTreeUpgrade f a l s, r).

Definition dec_bf_update (b : bytes) : res (bf_update * bytes) :=
  '(fl, r) <- dec_byte b ;; '(s, r) <- dec_uint r ;; '(l, r) <- dec_uint r ;;
  Ok (mkBfUpdate (N.odd fl) s l, r).

Definition dec_entry (b : bytes) : res (entry * bytes) :=
  '(flags, r) <- dec_byte b ;;
  '(_, r) <- (if N.testbit flags 0 then dec_strings r else Ok (tt, r)) ;;
  '(ns, r) <- (if N.testbit flags 1 then dec_nodes r else Ok ([], r)) ;;
  '(up, r) <- (if N.testbit flags 2
               then '(u, r) <- dec_tree_upgrade r ;; Ok (Some u, r) else Ok (None, r)) ;;
  '(bu, r) <- (if N.testbit flags 3
               then '(u, r) <- dec_bf_update r ;; Ok (Some u, r) else Ok (None, r)) ;;
  Ok (mkEntry ns up bu, r).

(* ---------- leader / frame ---------- *)

Section WithCrypto.
  Variable cr : crypto.

  Definition len_field (n : N) (header_bit partial_bit : bool) : N :=
    n * 4 + (if partial_bit then 2 else 0) + (if header_bit then 1 else 0).

  (* encode_with_leader: crc32(lenfield ++ payload), lenfield, payload.
     build_len_and_info_header panics when the length does not fit in 30 bits. *)
  Definition frame (header_bit partial_bit : bool) (payload : bytes) : res bytes :=
    if 1073741824 <=? len payload then Panic "Data length would overflow. It does not fit in 30 bits"
    else
      let lf := le_bytes 4 (len_field (len payload) header_bit partial_bit) in
      Ok (le_bytes 4 (cr_crc cr (lf ++ payload)) ++ lf ++ payload).

  Record leader := mkLeader {
    ld_bit : bool; ld_partial : bool; ld_len : N; ld_state : bytes (* everything after the leader *) }.

  (* None: no valid frame here (too short, zero length, truncated, or checksum mismatch) *)
  Definition validate_leader (buf : bytes) : option leader :=
    match take 4 buf with
    | None => None
    | Some (c, r1) =>
        match take 4 r1 with
        | None => None
        | Some (lf, data) =>
            let combined := le_val lf in
            let l := combined / 4 in
            if (l =? 0) || (len data <? l) then None
            else if cr_crc cr (lf ++ firstn (N.to_nat l) data) =? le_val c
                 then Some (mkLeader (N.odd combined) (N.odd (combined / 2)) l data)
                 else None
        end
    end.

  (* ---------- in-memory oplog state ---------- *)

  Record oplog := mkOplog { ol_bits : bool * bool; ol_entries_len : N; ol_entries_bytes : N }.

  Definition INITIAL_HEADER_BITS : bool * bool := (true, false).

  Definition current_bit (bits : bool * bool) : bool := xorb (fst bits) (snd bits).

  (* (slot offset, bit to write, new bits) *)
  Definition next_slot (bits : bool * bool) : N * bool * (bool * bool) :=
    if xorb (fst bits) (snd bits)
    then (0, negb (fst bits), (negb (fst bits), snd bits))
    else (HEADER_SIZE, negb (snd bits), (fst bits, negb (snd bits))).

  Definition pad_to (n : N) (b : bytes) : bytes := b ++ zeros (N.to_nat (n - len b)).

  (* insert_header: returns new bits and [write slot; truncate] *)
  Definition insert_header (h : header) (entries_bytes : N) (bits : bool * bool) (clear_traces : bool)
    : res ((bool * bool) * list sop) :=
    let '(slot, bit, bits') := next_slot bits in
    let payload := enc_header h in
    fr <- frame bit false payload ;;
    let size := if clear_traces then HEADER_SIZE else 8 + 2 * len payload in
    if size <? len fr then Err InvalidOperation (* encode into a too small buffer *)
    else Ok (bits', [SW Oplog slot (pad_to size fr); ST Oplog (ENTRIES_OFFSET + entries_bytes)]).

  Definition oplog_fresh (kp : keypair) : res (oplog * header * list sop) :=
    let h := header_new kp in
    '(bits, ops) <- insert_header h 0 INITIAL_HEADER_BITS false ;;
    Ok (mkOplog bits 0 0, h, ops).

  (* flush: one header write + truncate; with clear_traces both slots are rewritten,
     each followed by its truncate *)
  Definition oplog_flush (o : oplog) (h : header) (clear_traces : bool) : res (oplog * list sop) :=
    if clear_traces then
      '(bits1, ops1) <- insert_header h 0 (ol_bits o) true ;;
      '(bits2, ops2) <- insert_header h 0 bits1 true ;;
      Ok (mkOplog bits2 0 0, ops1 ++ ops2)
    else
      '(bits1, ops1) <- insert_header h 0 (ol_bits o) false ;;
      Ok (mkOplog bits1 0 0, ops1).

  (* append_entries with a single, non-atomic entry *)
  Definition oplog_append (o : oplog) (e : entry) : res (oplog * list sop) :=
    payload <- lift_enc (enc_entry e) ;;
    fr <- frame (current_bit (ol_bits o)) false payload ;;
    Ok (mkOplog (ol_bits o) (ol_entries_len o + 1) (ol_entries_bytes o + len fr),
        [SW Oplog (ENTRIES_OFFSET + ol_entries_bytes o) fr]).

  (* scan entries: stop at the first place without a valid frame carrying the current bit.
     Returns (entry, partial flag, frame size) in file order. *)
  Fixpoint scan_entries (fuel : nat) (bit : bool) (buf : bytes) (acc : list (entry * bool * N))
    : res (list (entry * bool * N)) :=
    match fuel with
    | O => OutOfFuel
    | S f =>
        match validate_leader buf with
        | None => Ok (rev acc)
        | Some ld =>
            if negb (Bool.eqb (ld_bit ld) bit) then Ok (rev acc)
            else
              '(e, rest) <- lift_enc (dec_entry (ld_state ld)) ;;
              scan_entries f bit rest ((e, ld_partial ld, len buf - len rest) :: acc)
        end
    end.

  (* Remove all trailing partial entries (argument in reverse file order) *)
  Fixpoint drop_trailing_partials (rl : list (entry * bool * N)) : list (entry * bool * N) :=
    match rl with
    | (_, true, _) :: r => drop_trailing_partials r
    | _ => rl
    end.

  Definition slice (b : bytes) (from to : N) : option bytes :=
    if to <=? len b then Some (firstn (N.to_nat (to - from)) (skipn (N.to_nat from) b)) else None.

  Definition slot_leader (existing : bytes) (from to : N) : option leader :=
    match slice existing from to with Some s => validate_leader s | None => None end.

  Record open_outcome := mkOpenOutcome {
    oo_oplog : oplog; oo_header : header; oo_ops : list sop; oo_entries : list entry }.

  (* Oplog::open on the whole oplog file content *)
  Definition oplog_open (kp : option keypair) (existing : bytes) : res open_outcome :=
    let h1 := slot_leader existing 0 HEADER_SIZE in
    let h2 := slot_leader existing HEADER_SIZE ENTRIES_OFFSET in
    '(o, h, ops, is_fresh) <-
      (match h1, h2 with
       | Some l1, Some l2 =>
           let bits := (ld_bit l1, ld_bit l2) in
           '(h, _) <- lift_enc (dec_header (ld_state (if Bool.eqb (ld_bit l1) (ld_bit l2) then l1 else l2))) ;;
           Ok (mkOplog bits 0 0, h, [], false)
       | Some l1, None =>
           '(h, _) <- lift_enc (dec_header (ld_state l1)) ;;
           Ok (mkOplog (ld_bit l1, ld_bit l1) 0 0, h, [], false)
       | None, Some l2 =>
           '(h, _) <- lift_enc (dec_header (ld_state l2)) ;;
           Ok (mkOplog (negb (ld_bit l2), ld_bit l2) 0 0, h, [], false)
       | None, None =>
           match kp with
           | Some k => '(o, h, ops) <- oplog_fresh k ;; Ok (o, h, ops, true)
           | None => Err EmptyStorage
           end
       end) ;;
    if ENTRIES_OFFSET <? len existing then
      let buf := skipn (N.to_nat ENTRIES_OFFSET) existing in
      scanned <- scan_entries (S (length buf)) (current_bit (ol_bits o)) buf [] ;;
      let kept := rev (drop_trailing_partials (rev scanned)) in
      let used := sumN (map snd kept) in
      (* a fresh header already carries its own truncate; otherwise cut everything after the
         last kept entry (garbage, stale entries of the previous epoch, unfinished batch) *)
      let trunc := if is_fresh then []
                   else if ENTRIES_OFFSET + used <? len existing
                        then [ST Oplog (ENTRIES_OFFSET + used)] else [] in
      Ok (mkOpenOutcome (mkOplog (ol_bits o) (N.of_nat (length kept)) used) h (ops ++ trunc)
            (map (fun x => fst (fst x)) kept))
    else Ok (mkOpenOutcome o h ops []).
End WithCrypto.

(* FrameGuard.v -- the 2^30 frame guard of the oplog excluded under explicit size bounds (C09, C03, C01).
   The crate's build_len_and_info_header (src/oplog/mod.rs; Oplog.frame in the model) panics when the payload of
   an oplog frame reaches 2^30 bytes.  Many theorems of the development carry the alternative
   `r = Panic frame_msg`; here it is discharged (size lemmas and the places where the guard can fire: FrameGuardLib.v;
   the header condition along replica histories: FrameGuardHist.v; C01 histories: FrameGuardUnified.v):
     apply_frame_cause               (no invariant) core_apply_proof answers the frame panic only if the verifier or
                                     byte_offset_in_changeset answered it (state unchanged), or the logged entry / the
                                     flushed header reaches 2^30 bytes
     accepted_entry_len              the entry logged for an accepted proof has at most
                                     129 + 50 * (roots + 2 * carried nodes + 6) bytes
     apply_any_returns_no_panic      AnyProofCor.apply_any_returns without the frame alternative, for proofs
     apply_any_outcome_no_panic      carrying at most MAX_PROOF_NODES = 10737381 nodes, on a replica whose header
     any_history_apply_returns_no_panic  encoding leaves HEADER_GROWTH = 128 bytes of room below 2^30
     frame_guard_discharged          AcceptAllCore3.frame_guard for every proof made by create_valueless_proof
     honest_round_no_guard, honest_replicas_converge_no_guard, honest_fresh_replicas_converge_no_guard
                                     HonestApply3.honest_round / HonestApply.honest_replicas_converge without the
                                     frame_guard premise (NO size premise is needed: an honest proof carries at most
                                     782 nodes, whatever the length of the log)
     append_frame_cause              (no invariant) where a frame panic of core_append comes from
     append_FInv_no_panic            Unified2.append_FInv concluding the Ok branch for batches of at most
                                     MAX_BATCH = 10737384 blocks
     append_guard_is_real, append_FInv_guard_fires
                                     the converse: a batch of 31580643 blocks or more IS answered by the panic *)
From HC Require Import Base NMap Codec CodecFacts Crypto FlatTree Storage Bitfield Oplog Merkle Core.
From HC Require Import FlatTreeFacts StorageFacts BitfieldFacts OplogFacts Sound NoPanic NoPanic2 TreeRef OffsetFacts CoreFacts Refine.
From HC Require Import Replicate Reopen ClearRefine EventsAvail Unified1 Unified2 SoundCoreLib SoundCore ReplicaCorA ReplicaDisk1 ReplicaDisk3.
From HC Require Import AnyProof AnyProofCor AcceptAll AcceptAllCore3 AcceptAllHist HonestApply3 HonestApply.
From HC Require Import FrameGuardLib.
From Coq Require Import ZifyN ZifyNat ZifyBool.
Ltac Zify.zify_post_hook ::= Z.div_mod_to_equations.
Arguments N.add : simpl never.
Arguments N.sub : simpl never.
Arguments N.mul : simpl never.
Arguments N.div : simpl never.
Arguments N.modulo : simpl never.
Arguments N.pow : simpl never.
Arguments N.eqb : simpl never.
Arguments N.ltb : simpl never.
Arguments N.leb : simpl never.
Arguments N.of_nat : simpl never.
Arguments N.to_nat : simpl never.

(* the bitfield update core_apply_proof logs for a proof *)
Definition proof_bu (pf : proof) : option bf_update :=
  match p_block pf with Some bl => Some (mkBfUpdate false (db_index bl) 1) | None => None end.

(* the largest number of carried nodes the entry bound supports when the tree has at most 64 roots:
   129 + 50 * (64 + 2 * K + 6) < 2^30 *)
Definition MAX_PROOF_NODES : N := 10737381.

Lemma MAX_PROOF_NODES_fits : 129 + 50 * (64 + 2 * MAX_PROOF_NODES + 6) < FRAME_LIMIT.
Proof. reflexivity. Qed.
Lemma MAX_PROOF_NODES_largest : FRAME_LIMIT <= 129 + 50 * (64 + 2 * (MAX_PROOF_NODES + 1) + 6).
Proof. unfold FRAME_LIMIT, MAX_PROOF_NODES. lia. Qed.
Lemma MAX_PROOF_NODES_pow : 2 ^ 23 <= MAX_PROOF_NODES.
Proof. unfold MAX_PROOF_NODES. change (2 ^ 23) with 8388608. lia. Qed.

(* the header of the core leaves room for the tree section and the hint a commit rewrites *)
Definition header_room (c : core) : Prop :=
  len (enc_header (c_header c)) + HEADER_GROWTH < FRAME_LIMIT.

(* ====================================================================================== *)
(* A. core_apply_proof                                                                     *)
(* ====================================================================================== *)

Section ApplyCause.
  Variable cr : crypto.

  (* No invariant, any core, any disk, any proof: where a frame panic of core_apply_proof comes from *)
  Theorem apply_frame_cause f pf c w c' w' :
    core_apply_proof cr f pf c w = (c', w', Panic frame_msg) ->
    (verifier_says cr c w pf = Panic frame_msg /\ c' = c /\ w' = w) \/
    exists cs, verifier_says cr c w pf = Ok cs /\
      ((exists b, p_block pf = Some b /\ c' = c /\ w' = w /\
          byte_offset_in_changeset (c_tree c) (d_tree (w_disk w)) (db_index b) cs = Panic frame_msg) \/
       (exists e h bb, entry_of_changeset cs (proof_bu pf) (c_header c) = Ok (e, h) /\
          enc_entry e = Ok bb /\ FRAME_LIMIT <= len bb) \/
       (exists e h h2, entry_of_changeset cs (proof_bu pf) (c_header c) = Ok (e, h) /\
          (h2 = h \/ exists cg, h2 = set_contig h cg) /\ FRAME_LIMIT <= len (enc_header h2))).
  Proof.
    unfold core_apply_proof. rewrite mbind_get_core. intros H.
    destruct (negb (p_fork pf =? t_fork (c_tree c))); [discriminate H|].
    rewrite mbind_get_disk, mbind_lift in H. unfold verifier_says.
    destruct (verify_proof cr (c_tree c) (d_tree (w_disk w)) pf (kp_public (c_keypair c))) as [cs|er|s|] eqn:V;
      try discriminate H.
    2:{ left. injection H as <- <- ->. repeat split; reflexivity. }
    right. exists cs. split; [reflexivity|].
    destruct (negb (commitable (c_tree c) cs)); [discriminate H|].
    (* the block part *)
    apply mbind_inv in H. destruct H as (c0 & w0 & r0 & Hbu & H).
    assert (Hb : (exists b, p_block pf = Some b /\ c' = c /\ w' = w /\
                    byte_offset_in_changeset (c_tree c) (d_tree (w_disk w)) (db_index b) cs = Panic frame_msg) \/
                 (c0 = c /\ r0 = Ok (proof_bu pf))).
    { unfold proof_bu. destruct (p_block pf) as [b|].
      - rewrite mbind_lift in Hbu.
        destruct (byte_offset_in_changeset (c_tree c) (d_tree (w_disk w)) (db_index b) cs) as [off|er|s|] eqn:Hoff.
        + rewrite mbind_emit_SW in Hbu. unfold ret in Hbu. injection Hbu as <- _ <-. right. split; reflexivity.
        + injection Hbu as _ _ <-. destruct H as (_ & _ & H). discriminate H.
        + injection Hbu as <- <- <-. destruct H as (-> & -> & H). injection H as <-. left. exists b.
          split; [reflexivity|]. split; [reflexivity|]. split; [reflexivity|exact Hoff].
        + injection Hbu as _ _ <-. destruct H as (_ & _ & H). discriminate H.
      - unfold ret in Hbu. injection Hbu as <- _ <-. right. split; reflexivity. }
    destruct Hb as [Hb|[-> ->]]; [left; exact Hb|]. right.
    (* log_and_commit *)
    apply mbind_inv in H. destruct H as (c2 & w2 & r2 & Hlc & H).
    destruct r2 as [[]|er|s|]; [|destruct H as (_ & _ & H); discriminate H| |destruct H as (_ & _ & H); discriminate H].
    2:{ left. destruct H as (_ & _ & H). injection H as <-.
        apply (log_and_commit_frame_cause cr cs (proof_bu pf) c w0 _ _ Hlc). }
    destruct (log_and_commit_full cr cs (proof_bu pf) c w0 _ _ tt Hlc) as (e & h1 & o' & fr & t' & He & _ & _ & Ec & _).
    (* maybe_flush *)
    apply mbind_inv in H. destruct H as (c3 & w3 & r3 & Hmf & H).
    destruct r3 as [[]|er|s|]; [|destruct H as (_ & _ & H); discriminate H| |destruct H as (_ & _ & H); discriminate H].
    - exfalso. destruct (p_upgrade pf), (proof_bu pf); cbn in H; discriminate H.
    - right. destruct H as (_ & _ & H). injection H as <-. apply maybe_flush_frame_cause in Hmf.
      exists e, h1, (c_header c2). split; [exact He|]. split; [|exact Hmf].
      rewrite Ec. cbn [c_header]. unfold bu_apply_h. destruct (proof_bu pf) as [u|]; [right; eexists; reflexivity|left; reflexivity].
  Qed.
End ApplyCause.

Section AcceptedEntry.
  Variable cr : crypto.
  Hypothesis Hhash32 : forall x, length (cr_hash cr x) = 32%nat.

  (* signature and hash of the changeset of an accepted proof: 64 and 32 bytes *)
  Lemma verified_sig_hash t tf pf pk cs :
    verify_proof cr t tf pf pk = Ok cs ->
    (forall sg, cs_upgraded cs = true -> cs_signature cs = Some sg -> len sg <= 64) /\
    (forall hash, cs_upgraded cs = true -> cs_hash cs = Some hash -> len hash <= 32).
  Proof.
    intros V. destruct (p_upgrade pf) as [u|] eqn:Eu.
    - destruct (verify_proof_upgrade_sig cr t tf pf pk cs u Eu V) as (L & S & Hh & _).
      split.
      + intros sg _ E. rewrite S in E. injection E as <-. unfold len. rewrite L. lia.
      + intros hash _ E. rewrite Hh in E. injection E as <-. unfold tree_hash, len. rewrite Hhash32. lia.
    - pose proof (upgrade_none_not_upgraded cr t tf pf pk cs V Eu) as U.
      split; intros x Ux; rewrite U in Ux; discriminate Ux.
  Qed.

  (* the entry logged for an accepted proof: 129 + 50 * (roots + 2 * carried + 6) bytes at most *)
  Theorem accepted_entry_len t tf pf pk cs bu h e h1 b :
    verify_proof cr t tf pf pk = Ok cs ->
    entry_of_changeset cs bu h = Ok (e, h1) -> enc_entry e = Ok b ->
    len b <= 129 + 50 * (N.of_nat (length (t_roots t)) + 2 * N.of_nat (proof_carried pf) + 6).
  Proof.
    intros V He Hb. destruct (verified_sig_hash t tf pf pk cs V) as [Hs _].
    pose proof (changeset_entry_len cs bu h e h1 b He Hb Hs) as L.
    pose proof (verify_proof_node_count cr t tf pf pk cs V). lia.
  Qed.

  (* AcceptAllCore3.frame_guard from the two counts *)
  Theorem frame_guard_of_counts c d pf :
    (length (t_roots (c_tree c)) <= 64)%nat -> N.of_nat (proof_carried pf) <= MAX_PROOF_NODES ->
    frame_guard cr c d pf.
  Proof.
    intros Hr Hc cs V e h b He Hb.
    pose proof (accepted_entry_len _ _ _ _ _ _ _ _ _ _ V He Hb) as L.
    pose proof MAX_PROOF_NODES_fits as F. unfold FRAME_LIMIT, MAX_PROOF_NODES in F, Hc. lia.
  Qed.

End AcceptedEntry.

Section ApplyNoPanic.
  Variable cr : crypto.
  Hypothesis Hhash32 : forall x, length (cr_hash cr x) = 32%nat.
  Hypothesis Hnonblank : forall x, all_zero (cr_hash cr x) = false.
  Variable bs : list bytes.
  Hypothesis Hw : writer_fits bs.

  Lemma ref_roots_64 r : r <= N.of_nat (length bs) -> (length (ref_roots cr bs r) <= 64)%nat.
  Proof.
    intros Hr. rewrite length_ref_roots. apply rrl_length_64.
    destruct Hw as [_ Hn]. unfold NODE_SIZE, u64_max in Hn. change (2 ^ 64) with 18446744073709551616. lia.
  Qed.

  Lemma HInv_roots_64 c d : HInv cr bs c d -> (length (t_roots (c_tree c)) <= 64)%nat.
  Proof. intros (H1 & _ & H3 & _). rewrite H3. apply ref_roots_64, H1. Qed.

  (* C09, verification side, WITHOUT the frame alternative: apply on an HInv replica returns a value or an
     error -- never a panic, never out of fuel -- for every proof (block, hash, seek, upgrade sections in any
     combination, additional nodes) with fields below 2^40 whose announced sizes fit, carrying at most
     MAX_PROOF_NODES = 10737381 (> 2^23) nodes in total, when the encoded header leaves 128 bytes of room below
     2^30 (it is below 4 KiB for every header the crate writes: header_room_of_ok); modulo a hash collision /
     forged signature.  A bound of this kind is necessary: oplog_append_guard_is_real, oplog_flush_guard_fires. *)
  Theorem apply_any_returns_no_panic f pf c w c' w' r :
    HInv cr bs c (w_disk w) -> N.of_nat (length bs) < LIM -> proof_wire pf ->
    block_lim (p_block pf) = true -> hash_lim (p_hash pf) = true -> seek_lim (p_seek pf) = true ->
    upgrade_nodes_lim pf -> announced_sizes_fit_any c pf ->
    N.of_nat (proof_carried pf) <= MAX_PROOF_NODES -> header_room c ->
    core_apply_proof cr f pf c w = (c', w', r) ->
    returns r = true \/ some_collision cr \/ forged_signature cr bs (kp_public (c_keypair c)).
  Proof.
    intros W Hn Hwire Hb Hh Hs Hlim Hsum Hcar Hroom H.
    destruct (apply_any_returns cr Hhash32 Hnonblank bs Hw f pf c w c' w' r W Hn Hwire Hb Hh Hs Hlim Hsum H)
      as [R|[P|E]]; [left; exact R| |right; exact E].
    subst r.
    pose proof (hinv_verifier_returns cr bs pf c w W Hn Hb Hh Hs Hlim Hsum) as Vret.
    destruct (apply_frame_cause cr f pf c w c' w' H) as [(V & _)|(cs & V & [(b & Eb & _ & _ & Hoff)|[(e & h & bb & He & Hbb & L)|(e & h & h2 & He & Hh2 & L)]])].
    - rewrite V in Vret. discriminate Vret.
    - destruct (hinv_block_offset_returns cr Hhash32 bs Hw pf c w b cs W Hn Hwire Eb V) as [Ro|E]; [|right; exact E].
      rewrite Hoff in Ro. discriminate Ro.
    - exfalso. unfold verifier_says in V.
      pose proof (accepted_entry_len cr Hhash32 _ _ _ _ _ _ _ _ _ _ V He Hbb) as L2.
      pose proof (HInv_roots_64 c _ W). pose proof MAX_PROOF_NODES_fits. unfold FRAME_LIMIT, MAX_PROOF_NODES in *. lia.
    - exfalso. unfold verifier_says in V. destruct (verified_sig_hash cr Hhash32 _ _ _ _ _ V) as [Hsg Hhs].
      pose proof (header_after_commit_len cs (proof_bu pf) (c_header c) e h h2 He Hhs Hsg Hh2) as L2.
      unfold header_room in Hroom. lia.
  Qed.

  (* EVERY outcome of apply on an HInv replica, proof of ANY shape (no bound on the fields: the verifier may fail in
     any way), WITHOUT the frame alternative of AnyProofCor.apply_any_outcome: accepted with the invariant kept, or
     the state is unchanged (refusal at a gate, failure of the verifier, failure of byte_offset_in_changeset) *)
  Theorem apply_any_outcome_no_panic f pf c w c' w' r :
    HInv cr bs c (w_disk w) -> proof_wire pf ->
    N.of_nat (proof_carried pf) <= MAX_PROOF_NODES -> header_room c ->
    core_apply_proof cr f pf c w = (c', w', r) ->
    (r = Ok true /\ HInv cr bs c' (w_disk w')) \/
    (c' = c /\ w' = w /\ unchanged_outcome cr pf c w r) \/
    some_collision cr \/ forged_signature cr bs (kp_public (c_keypair c)).
  Proof.
    intros W Hwire Hcar Hroom H.
    destruct (apply_any_outcome cr Hhash32 Hnonblank bs Hw f pf c w c' w' r W Hwire H) as [A|[B|[[-> _]|E]]];
      [left; exact A|right; left; exact B| |right; right; exact E].
    destruct (apply_frame_cause cr f pf c w c' w' H)
      as [(V & -> & ->)|(cs & V & [(b & Eb & -> & -> & Hoff)|[(e & h & bb & He & Hbb & L)|(e & h & h2 & He & Hh2 & L)]])].
    - right. left. split; [reflexivity|]. split; [reflexivity|]. right. left. rewrite V. reflexivity.
    - right. left. split; [reflexivity|]. split; [reflexivity|]. right. right.
      exists b, cs. split; [exact Eb|]. split; [exact V|]. rewrite Hoff. reflexivity.
    - exfalso. unfold verifier_says in V.
      pose proof (accepted_entry_len cr Hhash32 _ _ _ _ _ _ _ _ _ _ V He Hbb) as L2.
      pose proof (HInv_roots_64 c _ W). pose proof MAX_PROOF_NODES_fits. unfold FRAME_LIMIT, MAX_PROOF_NODES in *. lia.
    - exfalso. unfold verifier_says in V. destruct (verified_sig_hash cr Hhash32 _ _ _ _ _ V) as [Hsg Hhs].
      pose proof (header_after_commit_len cs (proof_bu pf) (c_header c) e h h2 He Hhs Hsg Hh2) as L2.
      unfold header_room in Hroom. lia.
  Qed.

  (* ... for every state a replica reaches by calls with any outcomes.  The header premise is asked of the reached
     state here; FrameGuardHist.any_history_apply_returns_no_panic_init asks a condition of the initial state only *)
  Corollary any_history_apply_returns_no_panic ops c w c1 w1 oks f pf c' w' r :
    HInv cr bs c (w_disk w) -> kp_secret (c_keypair c) = None -> N.of_nat (length bs) < LIM ->
    Forall (any_op cr) ops -> run_ops cr ops c w = (c1, w1, oks) ->
    proof_wire pf ->
    block_lim (p_block pf) = true -> hash_lim (p_hash pf) = true -> seek_lim (p_seek pf) = true ->
    upgrade_nodes_lim pf -> announced_sizes_fit_any c1 pf ->
    N.of_nat (proof_carried pf) <= MAX_PROOF_NODES -> header_room c1 ->
    core_apply_proof cr f pf c1 w1 = (c', w', r) ->
    returns r = true \/ some_collision cr \/ forged_signature cr bs (kp_public (c_keypair c)).
  Proof.
    intros W Hsec Hn Hops Hrun Hwire Hb Hh Hs Hlim Hsum Hcar Hroom H.
    destruct (any_history_HInv cr Hhash32 bs Hw ops c w c1 w1 oks W Hsec Hops Hrun) as [(W1 & K1)|E]; [|right; exact E].
    rewrite <- K1. exact (apply_any_returns_no_panic f pf c1 w1 c' w' r W1 Hn Hwire Hb Hh Hs Hlim Hsum Hcar Hroom H).
  Qed.
End ApplyNoPanic.

(* every header the crate writes has room: header_ok (32-byte keys, u64 fields), root hash of at most 32 bytes,
   signature of at most 64 bytes *)
Lemma header_room_of_ok c :
  header_ok (c_header c) = true ->
  len (ht_root_hash (hd_tree (c_header c))) <= 32 -> len (ht_signature (hd_tree (c_header c))) <= 64 ->
  header_room c.
Proof.
  intros Hok Hr Hs. destruct (Crash.hdr_fits_real (c_header c) Hok Hr Hs) as [F|F]; [discriminate F|].
  unfold header_room, HEADER_GROWTH, FRAME_LIMIT. unfold HEADER_SIZE in F. lia.
Qed.

(* ====================================================================================== *)
(* B. Honest rounds: the frame_guard premise of HonestApply3 / HonestApply discharged       *)
(* ====================================================================================== *)

Lemma vp_to_proof_carried vp v : (proof_carried (vp_to_proof vp v) <= vp_carried vp)%nat.
Proof.
  unfold proof_carried, vp_carried, vp_to_proof. cbn [p_block p_hash p_seek p_upgrade].
  destruct (vp_block vp) as [b|]; [destruct v as [v|]|]; cbn [db_nodes]; lia.
Qed.

(* a proof made by create_valueless_proof (any tree, any store, any request) never trips the guard on a core
   whose tree has at most 64 roots: it carries at most 782 nodes, the entry stays below 129 + 50 * 1634 bytes *)
Theorem frame_guard_discharged cr (Hhash32 : forall x, length (cr_hash cr x) = 32%nat)
        c d t tf block hash seek upgrade vp v :
  create_valueless_proof t tf block hash seek upgrade = Ok vp ->
  (length (t_roots (c_tree c)) <= 64)%nat ->
  frame_guard cr c d (vp_to_proof vp v).
Proof.
  intros Hc Hr. apply (frame_guard_of_counts cr Hhash32 c d _ Hr).
  pose proof (create_proof_carried _ _ _ _ _ _ _ Hc) as L. pose proof (vp_to_proof_carried vp v) as L2.
  rewrite CREATED_MAX_value in L. unfold MAX_PROOF_NODES. lia.
Qed.

Section HonestNoGuard.
  Variable cr : crypto.
  Hypothesis Hcrc : OplogFacts.crc_ok cr.
  Hypothesis Hhash32 : forall x, length (cr_hash cr x) = 32%nat.
  Hypothesis Hnonblank : forall x, all_zero (cr_hash cr x) = false.
  Hypothesis Hhashbytes : forall x, bytes_ok (cr_hash cr x) = true.
  Variable bs : list bytes.
  Hypothesis Hw : writer_fits bs.

  Lemma RCInv_roots_64 c d H : RCInv cr bs c d H -> (length (t_roots (c_tree c)) <= 64)%nat.
  Proof.
    intros [X _]. pose proof (RDInv_RInv cr bs c d H X) as (Wr & _ & Wroots & _).
    rewrite Wroots. apply (ref_roots_64 cr bs Hw), Wr.
  Qed.

  (* the frame guard holds for every proof the writer can make, in every state of a replica *)
  Lemma RCInv_frame_guard c d H t tf block hash seek upgrade vp v :
    RCInv cr bs c d H -> create_valueless_proof t tf block hash seek upgrade = Ok vp ->
    frame_guard cr c d (vp_to_proof vp v).
  Proof.
    intros RC Hc. apply (frame_guard_discharged cr Hhash32 c d _ _ _ _ _ _ vp v Hc). apply (RCInv_roots_64 c d H RC).
  Qed.

  (* HonestApply3.honest_round without its frame_guard premise *)
  Theorem honest_round_no_guard f cw dw bw sg jw evw c d j ev H rq :
    let w := N.of_nat (length bw) in
    let pk := kp_public (c_keypair c) in
    writer_at cr bs cw dw bw pk sg ->
    RCInv cr bs c d H ->
    t_length (c_tree c) <= w ->
    wf_request bs (c_tree c) (d_tree d) w rq ->
    exists pf cs c' w',
      core_create_proof (rq_block rq) (rq_hash rq) (rq_seek rq) (rq_upgrade rq) cw (mkWorld dw jw evw)
        = (cw, mkWorld dw jw evw, Ok (Some pf)) /\
      verifier_says cr c (mkWorld d j ev) pf = Ok cs /\
      core_apply_proof cr f pf c (mkWorld d j ev) = (c', w', Ok true) /\
      RCInv cr bs c' (w_disk w') (held_rq H rq) /\
      t_length (c_tree c') = (match rq_upgrade rq with Some _ => w | None => t_length (c_tree c) end) /\
      t_byte_length (c_tree c') = prefix_size bs (t_length (c_tree c')) /\
      c_keypair c' = c_keypair c /\
      (forall x, In x (cs_nodes cs) ->
         required_node (c_tree c') (d_tree (w_disk w')) (n_index x) = Ok (ref_at cr bs (n_index x))) /\
      (forall k, rq_node rq = Some k ->
         required_node (c_tree c') (d_tree (w_disk w')) k = Ok (ref_at cr bs k)).
  Proof.
    intros w pk Hwa RC Hrw Hwf.
    apply (honest_round cr Hcrc Hhash32 Hnonblank Hhashbytes bs Hw f cw dw bw sg jw evw c d j ev H rq Hwa RC Hrw Hwf).
    intros vp Hc. apply (RCInv_frame_guard c d H _ _ _ _ _ _ vp _ RC Hc).
  Qed.

  (* HonestApply.pre_all / hist_all without the frame_guard conjunct *)
  Definition pre_all_ng (c : core) (d : disk) (e : revent) : Prop :=
    match e with
    | EServe f rq cw dw jw evw bw sg =>
        let w := N.of_nat (length bw) in
        writer_at cr bs cw dw bw (kp_public (c_keypair c)) sg /\
        t_length (c_tree c) <= w /\
        wf_request bs (c_tree c) (d_tree d) w rq
    | EReopen => True
    end.

  Fixpoint hist_all_ng (es : list revent) (c : core) (w : world) : Prop :=
    match es with
    | [] => True
    | e :: rest => pre_all_ng c (w_disk w) e /\ forall c' w', exec cr c w e = Some (c', w') -> hist_all_ng rest c' w'
    end.

  Lemma pre_all_of_ng c d H e : RCInv cr bs c d H -> pre_all_ng c d e -> pre_all cr bs c d e.
  Proof.
    intros RC Hpre. destruct e as [f rq cw dw jw evw bw sg|]; [|exact I].
    destruct Hpre as (A & B & C). cbv zeta in *. split; [exact A|]. split; [exact B|]. split; [exact C|].
    intros vp Hc. apply (RCInv_frame_guard c d H _ _ _ _ _ _ vp _ RC Hc).
  Qed.

  Lemma hist_all_of_ng es : forall c d j ev H,
    RCInv cr bs c d H -> hist_all_ng es c (mkWorld d j ev) -> hist_all cr bs es c (mkWorld d j ev).
  Proof.
    induction es as [|e es IH]; intros c d j ev H RC Hh; [exact I|].
    cbn [hist_all_ng] in Hh. destruct Hh as [Hpre Hrest]. cbn [w_disk] in Hpre.
    pose proof (pre_all_of_ng c d H e RC Hpre) as Hpre'.
    cbn [hist_all]. split; [exact Hpre'|]. intros c' w' Hex.
    destruct (honest_event_step cr Hcrc Hhash32 Hnonblank Hhashbytes bs Hw c d j ev H e RC Hpre')
      as (c1 & w1 & Hex1 & RC1 & _).
    rewrite Hex1 in Hex. injection Hex as <- <-. destruct w1 as [d1 j1 ev1]. cbn [w_disk] in RC1.
    apply (IH c1 d1 j1 ev1 _ RC1). apply Hrest. exact Hex1.
  Qed.

  (* the premise without the guard is weaker than HonestApply.hist_all *)
  Lemma hist_all_ng_of_all es : forall c w, hist_all cr bs es c w -> hist_all_ng es c w.
  Proof.
    induction es as [|e es IH]; intros c w Hh; [exact I|].
    cbn [hist_all] in Hh. destruct Hh as [Hpre Hrest]. cbn [hist_all_ng]. split.
    - destruct e as [f rq cw dw jw evw bw sg|]; [|exact I].
      destruct Hpre as (A & B & C & _). cbv zeta in *. split; [exact A|]. split; [exact B|exact C].
    - intros c' w' Hex. apply IH, Hrest, Hex.
  Qed.

  (* "replicas converge" (C03 at the core level, all 18 request classes, reopens) with NO frame-guard premise and
     no size premise beyond writer_fits: every step succeeds -- in particular no step is answered by the panic *)
  Theorem honest_replicas_converge_no_guard es c d j ev H :
    RCInv cr bs c d H -> hist_all_ng es c (mkWorld d j ev) ->
    exists c' w',
      run cr es c (mkWorld d j ev) = Some (c', w') /\
      RCInv cr bs c' (w_disk w') (held_all H es) /\
      c_keypair c' = c_keypair c /\
      t_length (c_tree c') = len_all (t_length (c_tree c)) es /\
      t_byte_length (c_tree c') = prefix_size bs (t_length (c_tree c')) /\
      t_length (c_tree c) <= t_length (c_tree c') /\
      (forall i, requested es i -> core_has c' i = true) /\
      (forall i, H i = true -> core_has c' i = true) /\
      (forall i j2 ev2, core_has c' i = true ->
         core_get i c' (mkWorld (w_disk w') j2 ev2) = (c', mkWorld (w_disk w') j2 ev2, Ok (Some (blk bs i)))).
  Proof.
    intros RC Hh.
    apply (honest_replicas_converge cr Hcrc Hhash32 Hnonblank Hhashbytes bs Hw es c d j ev H RC).
    apply (hist_all_of_ng es c d j ev H RC Hh).
  Qed.

  (* a replica created from the public key alone, then any well-formed history *)
  Theorem honest_fresh_replicas_converge_no_guard kp es :
    OplogFacts.keypair_ok kp = true -> kp_secret kp = None ->
    exists d0 ops0 c0,
      core_open cr (Some kp) false disk_empty = (d0, ops0, Ok c0) /\
      (hist_all_ng es c0 (mkWorld d0 [] []) ->
       exists c' w',
         run cr es c0 (mkWorld d0 [] []) = Some (c', w') /\
         RCInv cr bs c' (w_disk w') (held_all (fun _ => false) es) /\
         t_length (c_tree c') = len_all 0 es /\
         (forall i, requested es i -> core_has c' i = true) /\
         (forall i j2 ev2, core_has c' i = true ->
            core_get i c' (mkWorld (w_disk w') j2 ev2) = (c', mkWorld (w_disk w') j2 ev2, Ok (Some (blk bs i))))).
  Proof.
    intros Hk Hs.
    destruct (RDInv_fresh cr Hcrc Hhash32 Hnonblank bs kp Hk Hs) as (d0 & ops0 & c0 & Hopen & X & K & L0).
    exists d0, ops0, c0. split; [exact Hopen|]. intros Hh.
    destruct (honest_replicas_converge_no_guard es c0 d0 [] [] (fun _ => false)
                (RCInv_length0 cr bs c0 d0 _ X L0) Hh)
      as (c' & w' & Hrun & RC' & _ & Hl & _ & _ & Hreq & _ & Hget).
    exists c', w'. rewrite L0 in Hl. auto.
  Qed.
End HonestNoGuard.

(* ====================================================================================== *)
(* C. core_append                                                                          *)
(* ====================================================================================== *)

(* the largest batch the entry bound supports when the tree has at most 64 roots: 129 + 50 * (64 + 2 * K) < 2^30 *)
Definition MAX_BATCH : N := 10737384.

Lemma MAX_BATCH_fits : 129 + 50 * (64 + 2 * MAX_BATCH) < FRAME_LIMIT.
Proof. reflexivity. Qed.
Lemma MAX_BATCH_largest : FRAME_LIMIT <= 129 + 50 * (64 + 2 * (MAX_BATCH + 1)).
Proof. unfold FRAME_LIMIT, MAX_BATCH. lia. Qed.
Lemma MAX_BATCH_pow : 2 ^ 23 <= MAX_BATCH.
Proof. unfold MAX_BATCH. change (2 ^ 23) with 8388608. lia. Qed.

Section AppendCause.
  Variable cr : crypto.

  (* the panics of the changeset arithmetic are not the frame panic *)
  Lemma merge_roots_panic_site fuel : forall rr nr it s,
    merge_roots cr fuel rr nr it = Panic s -> s = "a.length + b.length"%string.
  Proof.
    induction fuel as [|f IH]; intros rr nr it s H; cbn [merge_roots] in H; [discriminate H|].
    destruct rr as [|a [|b rest]]; try discriminate H.
    destruct (negb (it_index (it_sibling it) =? n_index b)); [discriminate H|].
    unfold add64 in H. destruct (fits_u64 (n_length a + n_length b)); cbn [bind] in H.
    - apply IH in H. exact H.
    - injection H as <-. reflexivity.
  Qed.

  Lemma append_root_panic_site c n it s :
    append_root cr c n it = Panic s -> s <> frame_msg.
  Proof.
    unfold append_root, add64. destruct (fits_u64 (cs_byte_length c + n_length n)); cbn [bind].
    - destruct (merge_roots cr (S (length (cs_roots c))) (n :: rev (cs_roots c)) (n :: cs_rnodes c) it)
        as [[[rr nr] it']|er|s0|] eqn:M; cbn [bind]; try discriminate.
      intros H. injection H as <-. apply merge_roots_panic_site in M. subst s0. discriminate.
    - intros H. injection H as <-. discriminate.
  Qed.

  Lemma cs_append_all_panic_site batch : forall c s,
    cs_append_all cr c batch = Panic s -> s <> frame_msg.
  Proof.
    induction batch as [|d r IH]; intros c s H; cbn [cs_append_all] in H; [discriminate H|].
    destruct (cs_append cr c d) as [c1|er|s0|] eqn:A; cbn [bind] in H; try discriminate H.
    - apply (IH c1 s H).
    - injection H as <-. unfold cs_append in A.
      destruct (append_root cr c (block_node cr (cs_length c * 2) d) (it_new (cs_length c * 2)))
        as [[c2 it2]|er|s1|] eqn:R; cbn [bind] in A; try discriminate A.
      injection A as <-. apply (append_root_panic_site _ _ _ _ R).
  Qed.

  (* No invariant: where a frame panic of core_append comes from *)
  Theorem append_frame_cause f batch c w c' w' :
    core_append cr f batch c w = (c', w', Panic frame_msg) ->
    exists sk cs1,
      kp_secret (c_keypair c) = Some sk /\
      cs_append_all cr (tree_changeset (c_tree c)) batch = Ok cs1 /\
      let cs := cs_hash_and_sign cr cs1 sk in
      let bu := mkBfUpdate false (cs_ancestors cs) (cs_batch_length cs) in
      ((exists e h bb, entry_of_changeset cs (Some bu) (c_header c) = Ok (e, h) /\
          enc_entry e = Ok bb /\ FRAME_LIMIT <= len bb) \/
       (exists e h cg, entry_of_changeset cs (Some bu) (c_header c) = Ok (e, h) /\
          FRAME_LIMIT <= len (enc_header (set_contig h cg)))).
  Proof.
    unfold core_append. rewrite mbind_get_core. intros H.
    destruct (kp_secret (c_keypair c)) as [sk|]; [|discriminate H].
    destruct batch as [|b0 rest].
    { rewrite mbind_ret, mbind_get_core in H. discriminate H. }
    apply mbind_inv in H. destruct H as (c1 & w1 & r1 & Hbody & H).
    destruct r1 as [[]|er|s|]; [|destruct H as (_ & _ & H); discriminate H| |destruct H as (_ & _ & H); discriminate H].
    { rewrite mbind_get_core in H. discriminate H. }
    destruct H as (_ & _ & H). injection H as <-.
    rewrite mbind_lift in Hbody.
    destruct (cs_append_all cr (tree_changeset (c_tree c)) (b0 :: rest)) as [cs1|er|s|] eqn:A; try discriminate Hbody.
    2:{ exfalso. injection Hbody as _ _ ->. apply (cs_append_all_panic_site _ _ _ A). reflexivity. }
    exists sk, cs1. split; [reflexivity|]. split; [reflexivity|]. cbv zeta in Hbody |- *.
    rewrite mbind_emit_SW in Hbody.
    set (cs := cs_hash_and_sign cr cs1 sk) in *.
    set (bu := mkBfUpdate false (cs_ancestors cs) (cs_batch_length cs)) in *.
    apply mbind_inv in Hbody. destruct Hbody as (c2 & w2 & r2 & Hlc & H).
    destruct r2 as [[]|er|s|]; [|destruct H as (_ & _ & H); discriminate H| |destruct H as (_ & _ & H); discriminate H].
    2:{ left. destruct H as (_ & _ & H). injection H as <-.
        apply (log_and_commit_frame_cause cr cs (Some bu) c _ _ _ Hlc). }
    destruct (log_and_commit_full cr cs (Some bu) c _ _ _ tt Hlc) as (e & h1 & o' & fr & t' & He & _ & _ & Ec & _).
    apply mbind_inv in H. destruct H as (c3 & w3 & r3 & Hmf & H).
    destruct r3 as [[]|er|s|]; [|destruct H as (_ & _ & H); discriminate H| |destruct H as (_ & _ & H); discriminate H].
    - exfalso. rewrite !mbind_send in H. discriminate H.
    - right. destruct H as (_ & _ & H). injection H as <-. apply maybe_flush_frame_cause in Hmf.
      rewrite Ec in Hmf. cbn [c_header bu_apply_h] in Hmf. exists e, h1. eexists. split; [exact He|exact Hmf].
  Qed.
End AppendCause.

Section AppendNoPanic.
  Variable cr : crypto.
  Hypothesis Hcrc : crc_ok cr.
  Hypothesis Hhash32 : forall x, length (cr_hash cr x) = 32%nat.
  Hypothesis Hnonblank : forall x, all_zero (cr_hash cr x) = false.
  Hypothesis Hhashbytes : forall x, bytes_ok (cr_hash cr x) = true.
  Hypothesis Hsig64 : forall sk m, length (cr_sign cr sk m) = 64%nat.
  Hypothesis Hsigbytes : forall sk m, bytes_ok (cr_sign cr sk m) = true.

  (* C01: Unified2.append_FInv concluding the Ok branch.  A batch of at most MAX_BATCH = 10737384 (> 2^23) blocks
     -- empty batches and empty blocks included, every flush decision -- is never answered by the frame panic:
     core_append returns the new length and byte length and the unified invariant holds for the longer log *)
  Theorem append_FInv_no_panic f batch c d j ev bs cl sk c' w' r :
    FInv cr c d bs cl -> kp_secret (c_keypair c) = Some sk ->
    sumN (map len (bs ++ batch)) <= u64_max ->
    NODE_SIZE * (2 * N.of_nat (length (bs ++ batch))) <= u64_max ->
    N.of_nat (length batch) <= MAX_BATCH ->
    core_append cr f batch c (mkWorld d j ev) = (c', w', r) ->
    r = Ok (N.of_nat (length (bs ++ batch)), sumN (map len (bs ++ batch))) /\
    FInv cr c' (w_disk w') (bs ++ batch) (cl_mask cl (N.of_nat (length bs))) /\ c_keypair c' = c_keypair c.
  Proof.
    intros D Hsk Hfit Hidx Hmax H.
    destruct (Unified2.append_FInv cr Hcrc Hhash32 Hnonblank Hhashbytes Hsig64 Hsigbytes f batch c d j ev bs cl sk c' w' r
                D Hsk Hfit Hidx H) as [P|Good]; [|exact Good].
    exfalso. subst r.
    destruct (append_frame_cause cr f batch c _ c' w' H) as (sk' & cs1 & Hsk' & A & Hc). cbv zeta in Hc.
    rewrite Hsk in Hsk'. injection Hsk' as <-.
    pose proof D as (W & s0 & s1 & body & st0 & st1 & hf & l & kf & _ & _ & _ & _ & _ & Hhc & _).
    pose proof W as ((HL & HB & HF & HR & _) & _).
    destruct Hhc as (Hok & _ & _ & _ & Hrh & Hsg).
    set (cs := cs_hash_and_sign cr cs1 sk) in *.
    assert (Hs64 : forall sg, cs_upgraded cs = true -> cs_signature cs = Some sg -> len sg <= 64).
    { intros sg _ E. unfold cs, cs_hash_and_sign, cs_set_hash_sig in E. cbn [cs_signature] in E.
      injection E as <-. unfold len. rewrite Hsig64. lia. }
    assert (Hh32 : forall hash, cs_upgraded cs = true -> cs_hash cs = Some hash -> len hash <= 32).
    { intros hash _ E. unfold cs, cs_hash_and_sign, cs_set_hash_sig in E. cbn [cs_hash] in E.
      injection E as <-. unfold cs_tree_hash, tree_hash, len. rewrite Hhash32. lia. }
    destruct Hc as [(e & h & bb & He & Hbb & L)|(e & h & cg & He & L)].
    - pose proof (changeset_entry_len cs _ _ e h bb He Hbb Hs64) as L2.
      destruct (cs_append_all_node_count cr (c_tree c) batch cs1 sk A) as [_ L3]. fold cs in L3.
      assert (L4 : (length (t_roots (c_tree c)) <= 64)%nat).
      { rewrite HR, length_ref_roots. apply rrl_length_64. rewrite app_length in Hidx.
        unfold NODE_SIZE, u64_max in Hidx. change (2 ^ 64) with 18446744073709551616. lia. }
      pose proof MAX_BATCH_fits as F. unfold FRAME_LIMIT, MAX_BATCH in F, L, Hmax. lia.
    - assert (Hfits : Crash.hdr_fits false (c_header c)).
      { apply Crash.hdr_fits_real; [exact Hok|exact Hrh|].
        destruct Hsg as [->|Hsg']; unfold len; [cbn [length]; lia|rewrite Hsg'; lia]. }
      destruct Hfits as [F|F]; [discriminate F|].
      pose proof (header_after_commit_len cs _ (c_header c) e h (set_contig h cg) He Hh32 Hs64
                    (or_intror (ex_intro _ cg eq_refl))) as L2.
      unfold HEADER_SIZE in F. unfold HEADER_GROWTH in L2. unfold FRAME_LIMIT in L. lia.
  Qed.
End AppendNoPanic.

(* ---------- the converse: the guard is real, a bound on the batch is necessary ---------- *)

Section GuardIsReal.
  Variable cr : crypto.
  Hypothesis Hhash32 : forall x, length (cr_hash cr x) = 32%nat.

  Definition h32 (n : node) : Prop := length (n_hash n) = 32%nat.

  Lemma merge_roots_h32 fuel : forall rr nr it rr' nr' it',
    merge_roots cr fuel rr nr it = Ok (rr', nr', it') -> Forall h32 nr -> Forall h32 nr'.
  Proof.
    induction fuel as [|f IH]; intros rr nr it rr' nr' it' H F; cbn [merge_roots] in H; [discriminate H|].
    destruct rr as [|a [|b rest]].
    - injection H as _ <- _. exact F.
    - injection H as _ <- _. exact F.
    - destruct (negb (it_index (it_sibling it) =? n_index b)).
      + injection H as _ <- _. exact F.
      + apply bind_ok in H. destruct H as (l & _ & H). apply IH in H; [exact H|].
        constructor; [|exact F]. unfold h32, parent_hash. cbn [n_hash]. apply Hhash32.
  Qed.

  Lemma cs_append_all_h32 batch : forall c c',
    cs_append_all cr c batch = Ok c' -> Forall h32 (cs_rnodes c) -> Forall h32 (cs_rnodes c').
  Proof.
    induction batch as [|d r IH]; intros c c' H F; cbn [cs_append_all] in H.
    - injection H as <-. exact F.
    - apply bind_ok in H. destruct H as (c1 & H1 & H). apply (IH c1 c' H).
      unfold cs_append in H1. apply bind_ok in H1. destruct H1 as ([c2 it2] & Ha & H1). injection H1 as <-.
      cbn [cs_rnodes]. unfold append_root in Ha. apply bind_ok in Ha. destruct Ha as (bl & _ & Ha).
      apply bind_ok in Ha. destruct Ha as ([[rr nr] it'] & Hm & Ha). injection Ha as <- _. cbn [cs_rnodes].
      apply (merge_roots_h32 _ _ _ _ _ _ _ Hm). constructor; [|exact F].
      unfold h32, block_node, leaf_hash. cbn [n_hash]. apply Hhash32.
  Qed.

  (* a batch of 31580643 blocks or more (each logs at least one node of at least 34 bytes) IS answered by the
     frame panic: the data has been written to the data store, nothing else has happened.  The only premises
     are a writable core and a changeset arithmetic that does not overflow (both hold under FInv). *)
  Theorem append_guard_is_real f batch c w sk cs1 :
    kp_secret (c_keypair c) = Some sk ->
    cs_append_all cr (tree_changeset (c_tree c)) batch = Ok cs1 ->
    31580643 <= N.of_nat (length batch) ->
    core_append cr f batch c w =
      (c, mkWorld (d_set (w_disk w) Data (f_write (d_data (w_disk w)) (t_byte_length (c_tree c)) (concat batch)))
                  (SW Data (t_byte_length (c_tree c)) (concat batch) :: w_journal w) (w_events w),
       Panic frame_msg).
  Proof.
    intros Hsk A Hn. unfold core_append. rewrite mbind_get_core, Hsk.
    destruct batch as [|b0 rest]; [cbn [length] in Hn; lia|].
    apply mbind_panic. rewrite mbind_lift, A. cbv zeta. rewrite mbind_emit_SW. cbn [d_get].
    apply mbind_panic.
    set (cs := cs_hash_and_sign cr cs1 sk).
    set (bu := mkBfUpdate false (cs_ancestors cs) (cs_batch_length cs)).
    unfold log_and_commit. rewrite mbind_get_core, mbind_lift.
    assert (He : exists e h, entry_of_changeset cs (Some bu) (c_header c) = Ok (e, h) /\ e_nodes e = cs_nodes cs).
    { unfold entry_of_changeset. destruct (cs_upgraded cs); unfold cs, cs_hash_and_sign, cs_set_hash_sig;
        cbn [cs_hash cs_signature]; do 2 eexists; split; reflexivity. }
    destruct He as (e & h & -> & En). rewrite mbind_lift.
    assert (OA : oplog_append cr (c_oplog c) e = Panic frame_msg).
    { apply oplog_append_guard_is_real.
      - intros x Hx. rewrite En in Hx. apply in_cs_nodes in Hx.
        pose proof (cs_append_all_h32 _ _ _ A (Forall_nil _)) as F. rewrite Forall_forall in F.
        apply (F x). exact Hx.
      - rewrite En. destruct (cs_append_all_node_count cr (c_tree c) _ cs1 sk A) as [L _]. fold cs in L. lia. }
    rewrite OA. reflexivity.
  Qed.

  (* the header frame: a header of 2^30 bytes or more is answered by the panic when it is flushed *)
  Lemma oplog_flush_guard_fires o h ct :
    FRAME_LIMIT <= len (enc_header h) -> oplog_flush cr o h ct = Panic frame_msg.
  Proof.
    intros L. unfold oplog_flush, insert_header. destruct (next_slot (ol_bits o)) as [[slot bit] bits'].
    rewrite (frame_guard_fires cr bit false _ L). destruct ct; reflexivity.
  Qed.
End GuardIsReal.

(* the frame alternative of Unified2.append_FInv (props/C01.v C01_unified_invariant_append) is inhabited: under
   the very premises of append_FInv a batch of 31580643 blocks or more is answered by the panic *)
Theorem append_FInv_guard_fires cr
        (Hcrc : crc_ok cr) (Hhash32 : forall x, length (cr_hash cr x) = 32%nat)
        (Hnonblank : forall x, all_zero (cr_hash cr x) = false) (Hhashbytes : forall x, bytes_ok (cr_hash cr x) = true)
        (Hsig64 : forall sk m, length (cr_sign cr sk m) = 64%nat) (Hsigbytes : forall sk m, bytes_ok (cr_sign cr sk m) = true)
        f batch c d j ev bs cl sk c' w' r :
  FInv cr c d bs cl -> kp_secret (c_keypair c) = Some sk ->
  sumN (map len (bs ++ batch)) <= u64_max ->
  NODE_SIZE * (2 * N.of_nat (length (bs ++ batch))) <= u64_max ->
  31580643 <= N.of_nat (length batch) ->
  core_append cr f batch c (mkWorld d j ev) = (c', w', r) ->
  r = Panic frame_msg.
Proof.
  intros D Hsk Hfit Hidx Hbig H.
  destruct (cs_append_all cr (tree_changeset (c_tree c)) batch) as [cs1|er|s|] eqn:A.
  { rewrite (append_guard_is_real cr Hhash32 f batch c _ sk cs1 Hsk A Hbig) in H. injection H as _ _ <-. reflexivity. }
  all: exfalso;
    pose proof (append_FInv cr Hcrc Hhash32 Hnonblank Hhashbytes Hsig64 Hsigbytes f batch c d j ev bs cl sk c' w' r
                  D Hsk Hfit Hidx H) as Hdis;
    unfold core_append in H; rewrite mbind_get_core, Hsk in H;
    (destruct batch as [|b0 rest]; [cbn [length] in Hbig; lia|]);
    apply mbind_inv in H; destruct H as (c1 & w1 & r1 & Hbody & H);
    rewrite mbind_lift, A in Hbody; injection Hbody as _ _ <-; destruct H as (_ & _ & ->).
  - destruct Hdis as [Hd|(Hd & _)]; discriminate Hd.
  - destruct Hdis as [Hd|(Hd & _)]; [|discriminate Hd]. injection Hd as ->.
    apply (cs_append_all_panic_site cr _ _ _ A). reflexivity.
  - destruct Hdis as [Hd|(Hd & _)]; discriminate Hd.
Qed.

Print Assumptions apply_frame_cause.
Print Assumptions accepted_entry_len.
Print Assumptions frame_guard_of_counts.
Print Assumptions apply_any_returns_no_panic.
Print Assumptions apply_any_outcome_no_panic.
Print Assumptions any_history_apply_returns_no_panic.
Print Assumptions header_room_of_ok.
Print Assumptions frame_guard_discharged.
Print Assumptions honest_round_no_guard.
Print Assumptions honest_replicas_converge_no_guard.
Print Assumptions honest_fresh_replicas_converge_no_guard.
Print Assumptions append_frame_cause.
Print Assumptions append_FInv_no_panic.
Print Assumptions append_guard_is_real.
Print Assumptions append_FInv_guard_fires.

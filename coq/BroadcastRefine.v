(* BroadcastRefine.v — the abstract reading of the event channel and the proof that Broadcast.v (the model of
   async-broadcast 0.7.2 as /repo configures it) refines it.

   Abstract state (`spec`): the capacity, the list of ALL messages sent so far, and per subscriber a cursor into that
   list (plus ghost data used only to state the facts of BroadcastFacts.v: where it subscribed and what it was
   answered).  No queue, no head position, no per-message waiter counts: the head of the queue is DEFINED as
   max (smallest live cursor, tail - capacity).

   Main results: `step_refines` / `run_refines` (every observable answer of every operation list is the one the
   abstract reading gives, for any capacity > 0) and `run_no_panic` (none of the panic sites of the crate code that
   Broadcast.v marks — assert_eq!(i, 0), the waiter-count underflow, assert!(inactive_receiver_count != 0) — is
   reachable). *)
From HC Require Import Base Broadcast BroadcastLib.
From Coq Require Import ZifyN ZifyNat ZifyBool.
Ltac Zify.zify_post_hook ::= Z.div_mod_to_equations.
Arguments N.add : simpl never.
Arguments N.sub : simpl never.
Arguments N.mul : simpl never.
Arguments N.div : simpl never.
Arguments N.modulo : simpl never.
Arguments N.pow : simpl never.
Arguments N.eqb : simpl never.
Arguments N.ltb : simpl never.
Arguments N.leb : simpl never.
Arguments N.max : simpl never.
Arguments N.min : simpl never.
Arguments N.of_nat : simpl never.
Arguments N.to_nat : simpl never.
Arguments N.iter : simpl never.

Section Spec.
  Variable A : Type.

  (* ---------- the abstract reading ---------- *)

  (* a subscriber: still alive?, the number of messages sent before it subscribed, its cursor (number of the next
     message it will be given), and the answers its try_recv calls got so far other than Empty (newest first) *)
  Record srcv := mkSrcv { sr_live : bool; sr_sub : N; sr_pos : N; sr_log : list (@bobs A) }.

  Record spec := mkSpec { sp_cap : N; sp_sent : list A; sp_rcv : list srcv }.

  Definition cpos (r : srcv) : option N := if sr_live r then Some (sr_pos r) else None.
  Definition sp_cur (s : spec) : list (option N) := map cpos (sp_rcv s).
  Definition sp_tail (s : spec) : N := N.of_nat (length (sp_sent s)).
  (* the oldest message still held: nobody alive waits for an older one, and at most `cap` are held *)
  Definition sp_head (s : spec) : N := N.max (minpos (sp_cur s) (sp_tail s)) (sp_tail s - sp_cap s).
  Definition sp_len (s : spec) : N := sp_tail s - sp_head s.

  Definition spec_new (cap : N) : spec := mkSpec cap [] [].

  Definition spec_step (s : spec) (o : bop A) : spec * bobs A :=
    match o with
    | BSend m =>
        if nlive (sp_cur s) =? 0 then (s, BoInactive)
        else (mkSpec (sp_cap s) (sp_sent s ++ [m]) (sp_rcv s),
              BoSent (if sp_len s =? sp_cap s then nth_error (sp_sent s) (N.to_nat (sp_tail s - sp_cap s)) else None))
    | BNew =>
        (mkSpec (sp_cap s) (sp_sent s) (sp_rcv s ++ [mkSrcv true (sp_tail s) (sp_tail s) []]),
         BoNew (N.of_nat (length (sp_rcv s))))
    | BRecv k =>
        match nth_error (sp_rcv s) (N.to_nat k) with
        | Some r =>
            if sr_live r then
              if sr_pos r + sp_cap s <? sp_tail s then
                (* more than the capacity behind: the oldest ones are lost, the cursor moves to the oldest one kept *)
                let n := sp_tail s - sp_cap s - sr_pos r in
                (mkSpec (sp_cap s) (sp_sent s)
                        (l_set (sp_rcv s) (N.to_nat k)
                               (mkSrcv true (sr_sub r) (sp_tail s - sp_cap s) (BoOverflowed n :: sr_log r))),
                 BoOverflowed n)
              else
                match nth_error (sp_sent s) (N.to_nat (sr_pos r)) with
                | Some a =>
                    (mkSpec (sp_cap s) (sp_sent s)
                            (l_set (sp_rcv s) (N.to_nat k) (mkSrcv true (sr_sub r) (sr_pos r + 1) (BoMsg a :: sr_log r))),
                     BoMsg a)
                | None => (s, BoEmpty)
                end
            else (s, BoNoReceiver)
        | None => (s, BoNoReceiver)
        end
    | BDrop k =>
        match nth_error (sp_rcv s) (N.to_nat k) with
        | Some r =>
            if sr_live r then
              (mkSpec (sp_cap s) (sp_sent s)
                      (l_set (sp_rcv s) (N.to_nat k) (mkSrcv false (sr_sub r) (sr_pos r) (sr_log r))),
               BoDropped)
            else (s, BoNoReceiver)
        | None => (s, BoNoReceiver)
        end
    | BLen => (s, BoLen (sp_len s) (nlive (sp_cur s)))
    end.

  Fixpoint spec_steps (s : spec) (ops : list (bop A)) : list (bobs A) * spec :=
    match ops with
    | [] => ([], s)
    | o :: rest => let so := spec_step s o in
                   let k := spec_steps (fst so) rest in
                   (snd so :: fst k, snd k)
    end.

  (* ---------- the representation invariant of the crate's state ---------- *)

  Definition tail_of (sent : list A) : N := N.of_nat (length sent).

  Record cinv (c : inner A) (rcv : list (option N)) (sent : list A) : Prop := mkCinv {
    ci_cap : 0 < bi_capacity c;
    ci_rc : bi_receiver_count c = nlive rcv;
    ci_irc : bi_inactive_receiver_count c = 1;
    ci_ovf : bi_overflow c = true;
    ci_open : bi_is_closed c = false;
    ci_head : bi_head_pos c <= tail_of sent;
    ci_queue : bi_queue c = qimg rcv (skipn (N.to_nat (bi_head_pos c)) sent) (bi_head_pos c);
    (* every queued message is awaited by somebody *)
    ci_wait : forall q, bi_head_pos c <= q < tail_of sent -> 1 <= waiting rcv q;
    ci_len : tail_of sent - bi_head_pos c <= bi_capacity c;
    (* a subscriber whose next message was dropped: the queue is (and stays) full *)
    ci_lag : forall p, In (Some p) rcv -> p < bi_head_pos c -> tail_of sent - bi_head_pos c = bi_capacity c;
    ci_pos : forall p, In (Some p) rcv -> p <= tail_of sent }.

  Lemma cinv_qlen c rcv sent : cinv c rcv sent -> N.of_nat (length (bi_queue c)) = tail_of sent - bi_head_pos c.
  Proof.
    intros I. rewrite (ci_queue _ _ _ I), qimg_length, skipn_length. pose proof (ci_head _ _ _ I). unfold tail_of in *. lia.
  Qed.

  (* the head position is the one the abstract reading defines *)
  Lemma cinv_head c rcv sent :
    cinv c rcv sent -> bi_head_pos c = N.max (minpos rcv (tail_of sent)) (tail_of sent - bi_capacity c).
  Proof.
    intros I. pose proof (ci_head _ _ _ I) as Hh. pose proof (ci_len _ _ _ I) as Hl. pose proof (ci_cap _ _ _ I) as Hc.
    pose proof (minpos_le_t rcv (tail_of sent)) as Hm.
    destruct (N.eq_dec (bi_head_pos c) (tail_of sent)) as [E|E].
    - (* empty queue: every live cursor is at the tail *)
      destruct (N.eq_dec (minpos rcv (tail_of sent)) (tail_of sent)) as [E2|E2]; [lia|].
      assert (L : minpos rcv (tail_of sent) < tail_of sent) by lia.
      apply minpos_attained in L. pose proof (ci_lag _ _ _ I _ L). lia.
    - assert (W : 1 <= waiting rcv (bi_head_pos c)) by (apply (ci_wait _ _ _ I); lia).
      destruct (waiting_pos _ _ W) as (p & Hin & Hp).
      pose proof (minpos_le_in rcv (tail_of sent) p Hin) as Hmp.
      destruct (N.eq_dec (minpos rcv (tail_of sent)) (bi_head_pos c)) as [E2|E2]; [lia|].
      assert (L : minpos rcv (tail_of sent) < tail_of sent) by lia.
      apply minpos_attained in L. pose proof (ci_lag _ _ _ I _ L). lia.
  Qed.

  (* Events::new() *)
  Lemma events_new_eq cap : events_new cap = mkInner (@nil (A * N)) cap 0 1 1 0 true false false.
  Proof. reflexivity. Qed.

  Lemma cinv_new cap : 0 < cap -> cinv (events_new cap) [] [].
  Proof.
    intros H. rewrite events_new_eq.
    constructor; cbn [bi_capacity bi_receiver_count bi_inactive_receiver_count bi_overflow bi_is_closed bi_head_pos
                      bi_queue nlive]; unfold tail_of; cbn [length]; try reflexivity; try lia.
    intros p [].
  Qed.

  (* ---------- try_broadcast ---------- *)

  Lemma send_sim c rcv sent m :
    cinv c rcv sent ->
    if nlive rcv =? 0 then bc_try_broadcast c m = (c, SInactive)
    else exists c',
        bc_try_broadcast c m =
          (c', SOk (if tail_of sent - bi_head_pos c =? bi_capacity c
                    then nth_error sent (N.to_nat (tail_of sent - bi_capacity c)) else None)) /\
        bi_capacity c' = bi_capacity c /\
        cinv c' rcv (sent ++ [m]).
  Proof.
    intros I. pose proof (cinv_qlen _ _ _ I) as QL.
    pose proof (ci_head _ _ _ I) as Hh. pose proof (ci_len _ _ _ I) as Hl. pose proof (ci_cap _ _ _ I) as Hc.
    unfold bc_try_broadcast. rewrite (ci_open _ _ _ I), (ci_rc _ _ _ I), (ci_irc _ _ _ I), (ci_ovf _ _ _ I).
    destruct (nlive rcv =? 0) eqn:EL.
    - change (1 =? 0) with false. reflexivity.
    - cbn [negb]. rewrite andb_false_r. rewrite QL.
      assert (TL : tail_of (sent ++ [m]) = tail_of sent + 1) by (unfold tail_of; rewrite app_length; cbn [length]; lia).
      assert (WT : waiting rcv (tail_of sent) = nlive rcv) by (apply waiting_all; apply (ci_pos _ _ _ I)).
      destruct (tail_of sent - bi_head_pos c =? bi_capacity c) eqn:EF.
      + (* full: the oldest message is removed *)
        assert (HN : (N.to_nat (bi_head_pos c) < length sent)%nat) by (unfold tail_of in *; lia).
        destruct (nth_error sent (N.to_nat (bi_head_pos c))) as [a|] eqn:EN;
          [|apply nth_error_None in EN; lia].
        assert (HD : hd_error (bi_queue c) = Some (a, waiting rcv (bi_head_pos c))).
        { rewrite (ci_queue _ _ _ I). destruct (skipn (N.to_nat (bi_head_pos c)) sent) as [|b l] eqn:ES.
          - pose proof (skipn_hd sent (N.to_nat (bi_head_pos c))) as X. rewrite ES, EN in X. discriminate.
          - pose proof (skipn_hd sent (N.to_nat (bi_head_pos c))) as X. rewrite ES, EN in X. cbn [hd_error] in X.
            injection X as ->. reflexivity. }
        rewrite HD. cbn [option_map fst].
        replace (N.to_nat (tail_of sent - bi_capacity c)) with (N.to_nat (bi_head_pos c)) by lia. rewrite EN.
        eexists. split; [reflexivity|]. split; [reflexivity|].
        constructor; cbn [set_queue_head bi_capacity bi_receiver_count bi_inactive_receiver_count bi_overflow
                          bi_is_closed bi_head_pos bi_queue];
          try (first [exact (ci_rc _ _ _ I) | exact (ci_irc _ _ _ I) | exact (ci_ovf _ _ _ I) | exact (ci_open _ _ _ I)
                     | exact Hc]).
        * lia.
        * rewrite (ci_queue _ _ _ I).
          replace (N.to_nat (bi_head_pos c + 1)) with (S (N.to_nat (bi_head_pos c))) by lia.
          rewrite <- skipn_tl. rewrite skipn_snoc by lia.
          destruct (skipn (N.to_nat (bi_head_pos c)) sent) as [|b l] eqn:ES.
          { pose proof (skipn_hd sent (N.to_nat (bi_head_pos c))) as X. rewrite ES, EN in X. discriminate. }
          cbn [qimg tl app]. rewrite qimg_app. cbn [qimg]. f_equal. f_equal. f_equal.
          assert (N.of_nat (length (b :: l)) = tail_of sent - bi_head_pos c).
          { rewrite <- ES, skipn_length. unfold tail_of. lia. }
          cbn [length] in H. rewrite <- WT. f_equal. lia.
        * intros q Hq. destruct (N.eq_dec q (tail_of sent)) as [->|NE]; [lia|]. apply (ci_wait _ _ _ I). lia.
        * lia.
        * intros p Hp Hlt. lia.
        * intros p Hp. pose proof (ci_pos _ _ _ I _ Hp). lia.
      + (* room *)
        eexists. split; [reflexivity|]. split; [reflexivity|].
        constructor; cbn [set_queue_head bi_capacity bi_receiver_count bi_inactive_receiver_count bi_overflow
                          bi_is_closed bi_head_pos bi_queue];
          try (first [exact (ci_rc _ _ _ I) | exact (ci_irc _ _ _ I) | exact (ci_ovf _ _ _ I) | exact (ci_open _ _ _ I)
                     | exact Hc]).
        * lia.
        * rewrite (ci_queue _ _ _ I). rewrite skipn_snoc by (unfold tail_of in *; lia).
          rewrite qimg_app. cbn [qimg]. f_equal. f_equal. f_equal. rewrite <- WT. f_equal.
          rewrite skipn_length. unfold tail_of in *. lia.
        * intros q Hq. destruct (N.eq_dec q (tail_of sent)) as [->|NE]; [lia|]. apply (ci_wait _ _ _ I). lia.
        * lia.
        * intros p Hp Hlt. pose proof (ci_lag _ _ _ I _ Hp Hlt). lia.
        * intros p Hp. pose proof (ci_pos _ _ _ I _ Hp). lia.
  Qed.

  (* ---------- new_receiver ---------- *)

  Lemma new_sim c rcv sent :
    cinv c rcv sent ->
    exists c', bc_new_receiver c = (c', tail_of sent) /\ bi_capacity c' = bi_capacity c /\
               cinv c' (rcv ++ [Some (tail_of sent)]) sent.
  Proof.
    intros I. pose proof (cinv_qlen _ _ _ I) as QL. pose proof (ci_head _ _ _ I) as Hh.
    unfold bc_new_receiver. eexists. split; [f_equal; lia|]. split; [reflexivity|].
    assert (WQ : forall q, q < tail_of sent -> waiting (rcv ++ [Some (tail_of sent)]) q = waiting rcv q).
    { intros q Hq. rewrite waiting_app. cbn [waiting contrib]. destruct (tail_of sent <=? q) eqn:E; lia. }
    constructor; cbn [set_receiver_count bi_capacity bi_receiver_count bi_inactive_receiver_count bi_overflow
                      bi_is_closed bi_head_pos bi_queue];
      try (first [exact (ci_irc _ _ _ I) | exact (ci_ovf _ _ _ I) | exact (ci_open _ _ _ I) | exact (ci_cap _ _ _ I)
                 | exact (ci_head _ _ _ I) | exact (ci_len _ _ _ I)]).
    - rewrite nlive_app, (ci_rc _ _ _ I). cbn [nlive alive]. lia.
    - rewrite (ci_queue _ _ _ I) at 1. symmetry. apply qimg_ext. intros q Hq. apply WQ.
      rewrite skipn_length in Hq. unfold tail_of in *. lia.
    - intros q Hq. rewrite WQ by lia. apply (ci_wait _ _ _ I). exact Hq.
    - intros p Hp Hlt. apply in_app_or in Hp. destruct Hp as [Hp|[Hp|[]]].
      + exact (ci_lag _ _ _ I _ Hp Hlt).
      + injection Hp as <-. lia.
    - intros p Hp. apply in_app_or in Hp. destruct Hp as [Hp|[Hp|[]]].
      + exact (ci_pos _ _ _ I _ Hp).
      + injection Hp as <-. lia.
  Qed.

  (* ---------- try_recv ---------- *)

  Inductive recv_case (c : inner A) (sent : list A) (p : N) : inner A -> N -> rres A -> Prop :=
  | rc_over c' : p + bi_capacity c < tail_of sent ->
                 recv_case c sent p c' (tail_of sent - bi_capacity c) (ROverflowed (tail_of sent - bi_capacity c - p))
  | rc_msg c' a : tail_of sent <= p + bi_capacity c -> nth_error sent (N.to_nat p) = Some a ->
                  recv_case c sent p c' (p + 1) (RMsg a)
  | rc_empty : tail_of sent <= p + bi_capacity c -> nth_error sent (N.to_nat p) = None ->
               recv_case c sent p c p REmpty.

  Lemma recv_sim c rcv sent k p :
    cinv c rcv sent -> nth_error rcv k = Some (Some p) ->
    exists c' p' r,
      bc_try_recv_at c p = (c', p', r) /\ bi_capacity c' = bi_capacity c /\
      cinv c' (l_set rcv k (Some p')) sent /\ recv_case c sent p c' p' r.
  Proof.
    intros I Hk. pose proof (cinv_qlen _ _ _ I) as QL.
    pose proof (ci_head _ _ _ I) as Hh. pose proof (ci_len _ _ _ I) as Hl. pose proof (ci_cap _ _ _ I) as Hc.
    assert (Hin : In (Some p) rcv) by (eapply nth_error_In; exact Hk).
    pose proof (ci_pos _ _ _ I _ Hin) as Hpt.
    assert (INS : forall x p', In (Some x) (l_set rcv k (Some p')) -> x = p' \/ In (Some x) rcv).
    { intros x p' Hx. apply l_set_In in Hx. destruct Hx as [Hx|Hx]; [left; congruence|right; exact Hx]. }
    destruct (bc_try_recv_at c p) as [[c' p'] r] eqn:E. exists c', p', r. split; [reflexivity|].
    unfold bc_try_recv_at in E. destruct (p <? bi_head_pos c) eqn:ELT.
    - (* the next message of this subscriber was dropped *)
      pose proof (ci_lag _ _ _ I _ Hin ltac:(lia)) as FULL.
      injection E as <- <- <-. split; [reflexivity|]. split.
      2:{ assert (HE : bi_head_pos c = tail_of sent - bi_capacity c) by lia. rewrite HE. apply rc_over. lia. }
      assert (WQ : forall q, bi_head_pos c <= q -> waiting (l_set rcv k (Some (bi_head_pos c))) q = waiting rcv q).
      { intros q Hq. pose proof (waiting_set rcv k (Some p) (Some (bi_head_pos c)) q Hk) as X. cbn [contrib] in X.
        destruct (p <=? q) eqn:E1; destruct (bi_head_pos c <=? q) eqn:E2; lia. }
      constructor;
        try (first [exact (ci_irc _ _ _ I) | exact (ci_ovf _ _ _ I) | exact (ci_open _ _ _ I) | exact Hc | exact Hh | exact Hl]).
      + rewrite (ci_rc _ _ _ I). pose proof (nlive_set rcv k (Some p) (Some (bi_head_pos c)) Hk) as X. cbn [alive] in X. lia.
      + rewrite (ci_queue _ _ _ I) at 1. symmetry. apply qimg_ext. intros q Hq. apply WQ. lia.
      + intros q Hq. rewrite WQ by lia. apply (ci_wait _ _ _ I). exact Hq.
      + intros x Hx Hlt. exact FULL.
      + intros x Hx. destruct (INS _ _ Hx) as [->|Hx']; [lia|exact (ci_pos _ _ _ I _ Hx')].
    - assert (LS : p + bi_capacity c >= tail_of sent) by lia.
      set (i := N.to_nat (p - bi_head_pos c)) in *.
      assert (PI : p = bi_head_pos c + N.of_nat i) by (unfold i; lia).
      assert (QN : nth_error (bi_queue c) i = option_map (fun a => (a, waiting rcv p)) (nth_error sent (N.to_nat p))).
      { rewrite (ci_queue _ _ _ I) at 1. rewrite qimg_nth, skipn_nth.
        replace (N.to_nat (bi_head_pos c) + i)%nat with (N.to_nat p) by lia. rewrite <- PI. reflexivity. }
      rewrite QN in E.
      destruct (nth_error sent (N.to_nat p)) as [a|] eqn:EN; cbn [option_map] in E.
      + assert (PT : p < tail_of sent) by (apply nth_error_lt in EN; unfold tail_of; lia).
        assert (W1 : 1 <= waiting rcv p) by (apply (ci_wait _ _ _ I); lia).
        destruct (waiting rcv p =? 0) eqn:EW; [lia|].
        (* the cursors after the call *)
        assert (WS : forall q, waiting (l_set rcv k (Some (p + 1))) q + (if q =? p then 1 else 0) = waiting rcv q).
        { intros q. pose proof (waiting_set rcv k (Some p) (Some (p + 1)) q Hk) as X. cbn [contrib] in X.
          destruct (p <=? q) eqn:E1; destruct (p + 1 <=? q) eqn:E2; destruct (q =? p) eqn:E3; lia. }
        assert (WP : waiting (l_set rcv k (Some (p + 1))) p = waiting rcv p - 1).
        { pose proof (WS p) as X. rewrite N.eqb_refl in X. lia. }
        assert (WQ : forall q, q <> p -> waiting (l_set rcv k (Some (p + 1))) q = waiting rcv q).
        { intros q Hq. pose proof (WS q) as X. destruct (q =? p) eqn:E3; lia. }
        assert (NL : nlive (l_set rcv k (Some (p + 1))) = nlive rcv).
        { pose proof (nlive_set rcv k (Some p) (Some (p + 1)) Hk) as X. cbn [alive] in X. lia. }
        assert (ENS : nth_error (skipn (N.to_nat (bi_head_pos c)) sent) i = Some a).
        { rewrite skipn_nth. replace (N.to_nat (bi_head_pos c) + i)%nat with (N.to_nat p) by lia. exact EN. }
        assert (QS : l_set (bi_queue c) i (a, waiting rcv p - 1) =
                     qimg (l_set rcv k (Some (p + 1))) (skipn (N.to_nat (bi_head_pos c)) sent) (bi_head_pos c)).
        { rewrite (ci_queue _ _ _ I) at 1. rewrite <- WP.
          pose proof (qimg_set A rcv (l_set rcv k (Some (p + 1))) _ (bi_head_pos c) i a ENS) as X.
          rewrite <- PI in X. apply X. intros q Hq Hne. apply WQ. exact Hne. }
        destruct (waiting rcv p - 1 =? 0) eqn:EL.
        * (* last waiter: it must be the front of the queue *)
          destruct i as [|i'] eqn:EI.
          -- assert (PH : p = bi_head_pos c) by lia.
             injection E as <- <- <-. split; [reflexivity|]. split; [|apply rc_msg; [lia|exact EN]].
             constructor; cbn [set_queue_head bi_capacity bi_receiver_count bi_inactive_receiver_count bi_overflow
                               bi_is_closed bi_head_pos bi_queue];
               try (first [exact (ci_irc _ _ _ I) | exact (ci_ovf _ _ _ I) | exact (ci_open _ _ _ I) | exact Hc]).
             ++ rewrite NL. exact (ci_rc _ _ _ I).
             ++ lia.
             ++ rewrite QS. replace (N.to_nat (bi_head_pos c + 1)) with (S (N.to_nat (bi_head_pos c))) by lia.
                rewrite <- skipn_tl. destruct (skipn (N.to_nat (bi_head_pos c)) sent) as [|b l]; [discriminate|].
                reflexivity.
             ++ intros q Hq. rewrite WQ by lia. apply (ci_wait _ _ _ I). lia.
             ++ lia.
             ++ intros x Hx Hlt. exfalso.
                assert (Z : waiting (l_set rcv k (Some (p + 1))) p = 0) by lia.
                pose proof (waiting_zero _ _ _ Z Hx). lia.
             ++ intros x Hx. destruct (INS _ _ Hx) as [->|Hx']; [lia|exact (ci_pos _ _ _ I _ Hx')].
          -- exfalso.
             assert (W0 : 1 <= waiting rcv (bi_head_pos c)) by (apply (ci_wait _ _ _ I); lia).
             rewrite <- (WQ (bi_head_pos c)) in W0 by lia.
             pose proof (waiting_mono (l_set rcv k (Some (p + 1))) (bi_head_pos c) p ltac:(lia)). lia.
        * injection E as <- <- <-. split; [reflexivity|]. split; [|apply rc_msg; [lia|exact EN]].
          constructor; cbn [set_queue_head bi_capacity bi_receiver_count bi_inactive_receiver_count bi_overflow
                            bi_is_closed bi_head_pos bi_queue];
            try (first [exact (ci_irc _ _ _ I) | exact (ci_ovf _ _ _ I) | exact (ci_open _ _ _ I) | exact Hc | exact Hh
                       | exact Hl]).
          -- rewrite NL. exact (ci_rc _ _ _ I).
          -- exact QS.
          -- intros q Hq. destruct (N.eq_dec q p) as [->|NE]; [lia|]. rewrite WQ by exact NE. apply (ci_wait _ _ _ I). exact Hq.
          -- intros x Hx Hlt. destruct (INS _ _ Hx) as [->|Hx']; [lia|exact (ci_lag _ _ _ I _ Hx' Hlt)].
          -- intros x Hx. destruct (INS _ _ Hx) as [->|Hx']; [lia|exact (ci_pos _ _ _ I _ Hx')].
      + rewrite (ci_open _ _ _ I) in E. injection E as <- <- <-.
        split; [reflexivity|]. split; [|apply rc_empty; [lia|exact EN]].
        rewrite (l_set_same _ _ _ Hk). exact I.
  Qed.

  (* ---------- Drop for Receiver ---------- *)

  Lemma recv_head_mono (c : inner A) p :
    bi_head_pos c <= bi_head_pos (fst (fst (bc_try_recv_at c p))) <= bi_head_pos c + 1 /\
    ((p <? bi_head_pos c) = true -> fst (fst (bc_try_recv_at c p)) = c).
  Proof.
    unfold bc_try_recv_at. destruct (p <? bi_head_pos c) eqn:PH; cbn [fst]; [split; [lia|reflexivity]|].
    split; [|discriminate].
    destruct (nth_error (bi_queue c) (N.to_nat (p - bi_head_pos c))) as [[e w]|]; cbn [fst]; [|lia].
    destruct (w =? 0); cbn [fst]; [lia|].
    destruct (w - 1 =? 0); cbn [fst set_queue_head bi_head_pos]; [|lia].
    destruct (N.to_nat (p - bi_head_pos c)); cbn [fst set_queue_head bi_head_pos]; lia.
  Qed.

  Lemma drop_loop_sim fuel : forall c rcv sent k p,
    cinv c rcv sent -> nth_error rcv k = Some (Some p) ->
    (if p <? bi_head_pos c then N.of_nat (length (bi_queue c)) + 2 else tail_of sent - p + 1) <= N.of_nat fuel ->
    exists c', bc_drop_loop fuel c p = (c', tail_of sent, false) /\ bi_capacity c' = bi_capacity c /\
               cinv c' (l_set rcv k (Some (tail_of sent))) sent.
  Proof.
    induction fuel as [|f IH]; intros c rcv sent k p I Hk HF.
    - exfalso. destruct (p <? bi_head_pos c); lia.
    - cbn [bc_drop_loop].
      destruct (recv_sim c rcv sent k p I Hk) as (c' & p' & r & E & EC & I' & RC). rewrite E.
      pose proof (recv_head_mono c p) as (HM & HS). rewrite E in HM, HS. cbn [fst] in HM, HS.
      assert (Hk' : nth_error (l_set rcv k (Some p')) k = Some (Some p')).
      { apply l_set_nth_eq. eapply nth_error_lt; exact Hk. }
      pose proof (cinv_qlen _ _ _ I) as QL. pose proof (cinv_qlen _ _ _ I') as QL'.
      pose proof (ci_head _ _ _ I') as Hh'. pose proof (ci_len _ _ _ I) as Hl. pose proof (ci_cap _ _ _ I) as Hc.
      assert (Hin : In (Some p) rcv) by (eapply nth_error_In; exact Hk).
      pose proof (ci_pos _ _ _ I _ Hin) as Hpt.
      destruct RC as [c' OV|c' a LS EN|LS EN].
      + (* Overflowed: the cursor is now the head *)
        assert (PH : (p <? bi_head_pos c) = true) by lia.
        rewrite PH in HF. specialize (HS PH). subst c'.
        pose proof (ci_lag _ _ _ I _ Hin ltac:(lia)) as FULL.
        destruct (IH c _ sent k _ I' Hk') as (c'' & E2 & EC2 & I2).
        { destruct (tail_of sent - bi_capacity c <? bi_head_pos c) eqn:EP; lia. }
        exists c''. split; [exact E2|]. split; [congruence|]. rewrite l_set_twice in I2. exact I2.
      + assert (PT : p < tail_of sent) by (apply nth_error_lt in EN; unfold tail_of; lia).
        assert (PH : (p <? bi_head_pos c) = false).
        { destruct (p <? bi_head_pos c) eqn:EP; [|reflexivity]. pose proof (ci_lag _ _ _ I _ Hin ltac:(lia)). lia. }
        rewrite PH in HF.
        destruct (IH c' _ sent k _ I' Hk') as (c'' & E2 & EC2 & I2).
        { destruct (p + 1 <? bi_head_pos c') eqn:EP; lia. }
        exists c''. split; [exact E2|]. split; [congruence|]. rewrite l_set_twice in I2. exact I2.
      + assert (PT : p = tail_of sent).
        { apply nth_error_None in EN. unfold tail_of in *. lia. }
        exists c. split; [rewrite PT; reflexivity|]. split; [reflexivity|]. rewrite <- PT. exact I'.
  Qed.

  Lemma drop_sim c rcv sent k p :
    cinv c rcv sent -> nth_error rcv k = Some (Some p) ->
    exists c', bc_recv_drop c p = (c', false) /\ bi_capacity c' = bi_capacity c /\ cinv c' (l_set rcv k None) sent.
  Proof.
    intros I Hk. unfold bc_recv_drop.
    destruct (drop_loop_sim (S (S (length (bi_queue c)))) c rcv sent k p I Hk) as (c1 & E & EC & I1).
    { pose proof (cinv_qlen _ _ _ I) as QL. pose proof (ci_head _ _ _ I).
      destruct (p <? bi_head_pos c) eqn:EP; lia. }
    rewrite E.
    assert (Hk1 : nth_error (l_set rcv k (Some (tail_of sent))) k = Some (Some (tail_of sent))).
    { apply l_set_nth_eq. eapply nth_error_lt; exact Hk. }
    assert (NL : nlive (l_set rcv k None) + 1 = nlive (l_set rcv k (Some (tail_of sent)))).
    { pose proof (nlive_set _ k _ None Hk1) as X. rewrite l_set_twice in X. cbn [alive] in X. lia. }
    assert (WQ : forall q, q < tail_of sent -> waiting (l_set rcv k None) q = waiting (l_set rcv k (Some (tail_of sent))) q).
    { intros q Hq. pose proof (waiting_set _ k _ None q Hk1) as X. rewrite l_set_twice in X. cbn [contrib] in X.
      destruct (tail_of sent <=? q) eqn:E1; lia. }
    assert (INS : forall x, In (Some x) (l_set rcv k None) -> In (Some x) (l_set rcv k (Some (tail_of sent)))).
    { intros x Hx. apply In_nth_error in Hx. destruct Hx as (j & Hj).
      destruct (Nat.eq_dec j k) as [->|NE].
      - rewrite l_set_nth_eq in Hj by (eapply nth_error_lt; exact Hk). discriminate.
      - rewrite l_set_nth_ne in Hj by exact NE. eapply nth_error_In. rewrite l_set_nth_ne by exact NE. exact Hj. }
    unfold bc_close_channel. cbn [set_receiver_count bi_receiver_count bi_inactive_receiver_count].
    rewrite (ci_irc _ _ _ I1). change (1 =? 0) with false. rewrite andb_false_r.
    eexists. split; [reflexivity|]. split; [exact EC|].
    constructor; cbn [set_receiver_count bi_capacity bi_receiver_count bi_inactive_receiver_count bi_overflow
                      bi_is_closed bi_head_pos bi_queue];
      try (first [exact (ci_irc _ _ _ I1) | exact (ci_ovf _ _ _ I1) | exact (ci_open _ _ _ I1) | exact (ci_cap _ _ _ I1)
                 | exact (ci_head _ _ _ I1) | exact (ci_len _ _ _ I1)]).
    - rewrite (ci_rc _ _ _ I1). lia.
    - rewrite (ci_queue _ _ _ I1) at 1. symmetry. apply qimg_ext. intros q Hq. apply WQ.
      rewrite skipn_length in Hq. pose proof (ci_head _ _ _ I1). unfold tail_of in *. lia.
    - intros q Hq. rewrite WQ by lia. apply (ci_wait _ _ _ I1). exact Hq.
    - intros x Hx Hlt. exact (ci_lag _ _ _ I1 _ (INS _ Hx) Hlt).
    - intros x Hx. exact (ci_pos _ _ _ I1 _ (INS _ Hx)).
  Qed.

  (* ---------- the simulation ---------- *)

  Definition sim (c : bsys A) (s : spec) : Prop :=
    bs_rcv c = sp_cur s /\ bi_capacity (bs_inner c) = sp_cap s /\ cinv (bs_inner c) (bs_rcv c) (sp_sent s).

  Lemma sim_new cap : 0 < cap -> sim (bsys_new cap) (spec_new cap).
  Proof.
    intros H. split; [reflexivity|]. split; [reflexivity|]. exact (cinv_new cap H).
  Qed.

  Lemma sim_head c s : sim c s -> bi_head_pos (bs_inner c) = sp_head s.
  Proof.
    intros (R & C & I). unfold sp_head, sp_tail. rewrite <- R, <- C. exact (cinv_head _ _ _ I).
  Qed.

  Lemma cur_nth s k : nth_error (sp_cur s) k = option_map cpos (nth_error (sp_rcv s) k).
  Proof. unfold sp_cur. apply nth_error_map. Qed.

  Theorem step_refines c s o :
    sim c s -> snd (bsys_step c o) = snd (spec_step s o) /\ sim (fst (bsys_step c o)) (fst (spec_step s o)).
  Proof.
    intros S. pose proof (sim_head _ _ S) as HD. destruct S as (R & C & I).
    destruct c as [ci cr]. cbn [bs_rcv bs_inner] in *. subst cr.
    assert (S0 : sim (mkBsys ci (sp_cur s)) s) by (split; [reflexivity|split; [exact C|exact I]]).
    destruct o as [m| |k|k|].
    - (* send *)
      cbn [bsys_step spec_step bs_inner bs_rcv]. pose proof (send_sim _ _ _ m I) as X.
      destruct (nlive (sp_cur s) =? 0) eqn:EL.
      + rewrite X. cbn [fst snd]. split; [reflexivity|exact S0].
      + destruct X as (c' & E & EC & I'). rewrite E. cbn [fst snd]. split.
        * unfold sp_len. rewrite <- HD, <- C. reflexivity.
        * split; [reflexivity|]. split; [cbn [sp_cap bs_inner]; congruence|exact I'].
    - (* new_receiver *)
      cbn [bsys_step spec_step bs_inner bs_rcv]. destruct (new_sim _ _ _ I) as (c' & E & EC & I'). rewrite E.
      cbn [fst snd]. split.
      + unfold sp_cur. rewrite map_length. reflexivity.
      + split; [|split; [cbn [sp_cap bs_inner]; congruence|exact I']].
        cbn [bs_rcv]. unfold sp_cur. cbn [sp_rcv]. rewrite map_app. reflexivity.
    - (* try_recv *)
      cbn [bsys_step spec_step bs_inner bs_rcv]. rewrite cur_nth.
      destruct (nth_error (sp_rcv s) (N.to_nat k)) as [r|] eqn:EK; cbn [option_map];
        [|cbn [fst snd]; split; [reflexivity|exact S0]].
      unfold cpos. destruct (sr_live r) eqn:LV; [|cbn [fst snd]; split; [reflexivity|exact S0]].
      assert (Hk : nth_error (sp_cur s) (N.to_nat k) = Some (Some (sr_pos r))).
      { rewrite cur_nth, EK. cbn [option_map]. unfold cpos. rewrite LV. reflexivity. }
      destruct (recv_sim _ _ _ _ _ I Hk) as (c' & p' & rr & E & EC & I' & RC). rewrite E.
      unfold sp_tail. rewrite <- C. fold (tail_of (sp_sent s)).
      destruct RC as [c' OV|c' a LS EN|LS EN].
      + destruct (sr_pos r + bi_capacity ci <? tail_of (sp_sent s)) eqn:EO; [|lia].
        cbn [fst snd]. split; [reflexivity|]. split; [|split; [cbn [sp_cap bs_inner]; congruence|exact I']].
        cbn [bs_rcv]. unfold sp_cur. cbn [sp_rcv]. rewrite l_set_map. reflexivity.
      + destruct (sr_pos r + bi_capacity ci <? tail_of (sp_sent s)) eqn:EO; [lia|]. rewrite EN.
        cbn [fst snd]. split; [reflexivity|]. split; [|split; [cbn [sp_cap bs_inner]; congruence|exact I']].
        cbn [bs_rcv]. unfold sp_cur. cbn [sp_rcv]. rewrite l_set_map. reflexivity.
      + destruct (sr_pos r + bi_capacity ci <? tail_of (sp_sent s)) eqn:EO; [lia|]. rewrite EN.
        cbn [fst snd]. split; [reflexivity|]. rewrite (l_set_same _ _ _ Hk). exact S0.
    - (* drop *)
      cbn [bsys_step spec_step bs_inner bs_rcv]. rewrite cur_nth.
      destruct (nth_error (sp_rcv s) (N.to_nat k)) as [r|] eqn:EK; cbn [option_map];
        [|cbn [fst snd]; split; [reflexivity|exact S0]].
      unfold cpos. destruct (sr_live r) eqn:LV; [|cbn [fst snd]; split; [reflexivity|exact S0]].
      assert (Hk : nth_error (sp_cur s) (N.to_nat k) = Some (Some (sr_pos r))).
      { rewrite cur_nth, EK. cbn [option_map]. unfold cpos. rewrite LV. reflexivity. }
      destruct (drop_sim _ _ _ _ _ I Hk) as (c' & E & EC & I'). rewrite E.
      cbn [fst snd]. split; [reflexivity|]. split; [|split; [cbn [sp_cap bs_inner]; congruence|exact I']].
      cbn [bs_rcv]. unfold sp_cur. cbn [sp_rcv]. rewrite l_set_map. reflexivity.
    - (* len *)
      cbn [bsys_step spec_step fst snd bs_inner]. split; [|exact S0].
      unfold bc_len. rewrite (cinv_qlen _ _ _ I), (ci_rc _ _ _ I). unfold sp_len. rewrite <- HD. reflexivity.
  Qed.

  Theorem steps_refine ops : forall c s,
    sim c s -> fst (bsys_steps c ops) = fst (spec_steps s ops) /\ sim (snd (bsys_steps c ops)) (snd (spec_steps s ops)).
  Proof.
    induction ops as [|o rest IH]; intros c s S; cbn [bsys_steps spec_steps fst snd]; [split; [reflexivity|exact S]|].
    destruct (step_refines c s o S) as (E1 & S1). destruct (IH _ _ S1) as (E2 & S2).
    split; [rewrite E1, E2; reflexivity|exact S2].
  Qed.

  (* every answer of every operation list, on a fresh channel configured as Events::new() configures it *)
  Theorem run_refines cap (ops : list (bop A)) : 0 < cap -> run_bc cap ops = fst (spec_steps (spec_new cap) ops).
  Proof. intros H. unfold run_bc. apply steps_refine. apply sim_new. exact H. Qed.

  (* ---------- the abstract reading never answers a panic: the crate's assertions cannot fail ---------- *)

  Lemma spec_step_no_panic s o : snd (spec_step s o) <> BoPanic.
  Proof.
    destruct o as [m| |k|k|]; cbn [spec_step].
    - destruct (nlive (sp_cur s) =? 0); cbn [snd]; discriminate.
    - cbn [snd]. discriminate.
    - destruct (nth_error (sp_rcv s) (N.to_nat k)) as [r|]; [|cbn [snd]; discriminate].
      destruct (sr_live r); [|cbn [snd]; discriminate].
      destruct (sr_pos r + sp_cap s <? sp_tail s); [cbn [snd]; discriminate|].
      destruct (nth_error (sp_sent s) (N.to_nat (sr_pos r))); cbn [snd]; discriminate.
    - destruct (nth_error (sp_rcv s) (N.to_nat k)) as [r|]; [|cbn [snd]; discriminate].
      destruct (sr_live r); cbn [snd]; discriminate.
    - cbn [snd]. discriminate.
  Qed.

  Lemma spec_steps_no_panic ops : forall s, ~ In BoPanic (fst (spec_steps s ops)).
  Proof.
    induction ops as [|o rest IH]; intros s; cbn [spec_steps fst]; [intros []|].
    intros [H|H]; [exact (spec_step_no_panic s o H)|exact (IH _ H)].
  Qed.

  Theorem run_no_panic cap (ops : list (bop A)) : 0 < cap -> ~ In BoPanic (run_bc cap ops).
  Proof. intros H. rewrite (run_refines cap ops H). apply spec_steps_no_panic. Qed.
End Spec.

Arguments mkSrcv {A}.
Arguments sr_live {A}.
Arguments sr_sub {A}.
Arguments sr_pos {A}.
Arguments sr_log {A}.
Arguments mkSpec {A}.
Arguments sp_cap {A}.
Arguments sp_sent {A}.
Arguments sp_rcv {A}.
Arguments cpos {A}.
Arguments sp_cur {A}.
Arguments sp_tail {A}.
Arguments sp_head {A}.
Arguments sp_len {A}.
Arguments spec_new {A}.
Arguments spec_step {A}.
Arguments spec_steps {A}.
Arguments tail_of {A}.
Arguments cinv {A}.
Arguments sim {A}.

Print Assumptions step_refines.
Print Assumptions run_refines.
Print Assumptions run_no_panic.

(* SharedMoreEx.v -- non-vacuity of SharedMore.v on the toy crypto instance.

   Two tasks share one writer core: task 0 appends twice and clears block 0, task 1 calls create_proof (three
   times), missing_nodes and key_pair.  The schedule interleaves them at micro-step granularity (append = six
   micro-steps, create_proof = two).  The run is computed; then the THEOREMS of SharedMore.v (not a computation)
   are applied to it: their hypotheses are met by this concrete, non-trivial run. *)
From HC Require Import Base NMap Codec CodecFacts Crypto FlatTree Storage Bitfield Oplog Merkle Core.
From HC Require Import FlatTreeFacts StorageFacts BitfieldFacts OplogFacts TreeRef OffsetFacts CoreFacts Crash Refine.
From HC Require Import ClearRefine Reopen ContigBridge Unified1 Unified2 Unified3.
From HC Require Import Replicate Replicate2D ProofContent.
From HC Require Shared.
From HC Require Import SharedInst SharedMore.
From Coq Require Import FMapPositive ZifyN ZifyNat ZifyBool.
Ltac Zify.zify_post_hook ::= Z.div_mod_to_equations.
Arguments N.add : simpl never.
Arguments N.sub : simpl never.
Arguments N.mul : simpl never.
Arguments N.div : simpl never.
Arguments N.modulo : simpl never.
Arguments N.pow : simpl never.
Arguments N.eqb : simpl never.
Arguments N.ltb : simpl never.
Arguments N.leb : simpl never.
Arguments N.of_nat : simpl never.
Arguments N.to_nat : simpl never.

Definition ex_req0 : option req_block := Some (mkReqBlock 0 0).

Definition ex_progs : list (list xcall) :=
  [[XOld (SAppend (Some false) [[1; 2; 3]; []]); XOld (SAppend None [[4]]); XOld (SClear (Some true) 0 1)];
   [SCreateProof ex_req0 None None None;                               (* on the empty core *)
    SMissingNodes 0; SKeyPair;
    SCreateProof ex_req0 None None (Some (mkReqUpgrade 0 3));           (* block 0 and the whole log *)
    SCreateProof ex_req0 None None None]].                              (* block 0 again, after the clear *)

Definition ex_sched : list nat :=
  ([1; 1; 1; 0; 1; 1] ++               (* t1: create_proof on the empty core; t0 starts its append in between *)
   [0; 0; 0; 1; 0; 0; 0; 0; 0] ++      (* t0: append 1 (six micro-steps); t1 starts missing_nodes in between *)
   [1; 1; 1] ++                        (* t1: missing_nodes *)
   [0; 1; 1; 1; 1] ++                  (* t0 starts append 2; t1: key_pair *)
   [0; 0; 0; 0; 0; 0; 0; 0] ++         (* t0: append 2 *)
   [1; 1; 1; 0; 1; 1] ++               (* t1: create_proof (block 0 + upgrade); t0 starts its clear in between *)
   [0; 0; 0] ++                        (* t0: clear [0, 1) *)
   [1; 1; 1; 1; 1])%nat.               (* t1: create_proof for the cleared block *)

Definition ex_h7 : bytes := repeat 7 32%nat.

(* the proof task 1 receives for (block 0, upgrade [0, 3)) *)
Definition ex_pf : proof :=
  mkProof 0 (Some (mkDataBlock 0 [1; 2; 3] [mkNode 2 0 ex_h7])) None None
          (Some (mkDataUpgrade 0 3 [mkNode 4 1 ex_h7] [] (repeat 1 64%nat))).

Definition ex_expected_log : list (nat * xcall * xobs) :=
  [(1%nat, SCreateProof ex_req0 None None None, XOProof (Err InvalidOperation));
   (0%nat, XOld (SAppend (Some false) [[1; 2; 3]; []]), XOOld (UOAppend (Ok (2, 3))));
   (1%nat, SMissingNodes 0, XOMissing (Ok 0));
   (1%nat, SKeyPair, XOKeyPair toy_keypair);
   (0%nat, XOld (SAppend None [[4]]), XOOld (UOAppend (Ok (3, 4))));
   (1%nat, SCreateProof ex_req0 None None (Some (mkReqUpgrade 0 3)), XOProof (Ok (Some ex_pf)));
   (0%nat, XOld (SClear (Some true) 0 1), XOOld (UOClear (Ok tt)));
   (1%nat, SCreateProof ex_req0 None None None, XOProof (Ok None))].

(* the run, by computation: the log is the expected one, all tasks are done, the lock is free, and the events are
   those of the two appends plus the single EvGet of the last create_proof (newest first) *)
Example ex_split_run :
  match core_open toy_cr (Some toy_keypair) false disk_empty with
  | (d0, _, Ok c0) =>
      match Shared.run_sched xsplit_l0 (xsplit_body toy_cr) xsplit_res ex_sched
                             (Shared.init (c0, mkWorld d0 [] []) ex_progs) with
      | Some cfg =>
          Shared.holder cfg = None /\ all_done cfg = true /\ Shared.log cfg = ex_expected_log /\
          w_events (snd (Shared.shared cfg)) = [EvGet 0; EvHave 2 1 false; EvUpgrade; EvHave 0 2 false; EvUpgrade] /\
          map (@Shared.out _ _ _ _) (Shared.tasks cfg) =
            [[XOOld (UOAppend (Ok (2, 3))); XOOld (UOAppend (Ok (3, 4))); XOOld (UOClear (Ok tt))];
             [XOProof (Err InvalidOperation); XOMissing (Ok 0); XOKeyPair toy_keypair;
              XOProof (Ok (Some ex_pf)); XOProof (Ok None)]]
      | None => False
      end
  | _ => False
  end.
Proof. vm_compute. repeat split. Qed.

(* the same programs with one micro-step per call (every call is start, acquire, micro, finish) give the same
   results when the calls complete in the same order *)
Definition ex_sched1 : list nat :=
  ([1; 1; 1; 1] ++ [0; 0; 0; 0] ++ [1; 1; 1; 1] ++ [1; 1; 1; 1] ++ [0; 0; 0; 0] ++ [1; 1; 1; 1] ++ [0; 0; 0; 0] ++
   [1; 1; 1; 1])%nat.

Example ex_one_run :
  match core_open toy_cr (Some toy_keypair) false disk_empty with
  | (d0, _, Ok c0) =>
      match Shared.run_sched xone_l0 (xone_body toy_cr) xone_res ex_sched1
                             (Shared.init (c0, mkWorld d0 [] []) ex_progs) with
      | Some cfg => Shared.holder cfg = None /\ all_done cfg = true /\ Shared.log cfg = ex_expected_log
      | None => False
      end
  | _ => False
  end.
Proof. vm_compute. repeat split. Qed.

(* create_proof is really interleaved and really protected: after task 1's first micro-step (the valueless proof
   is built, the block is not yet read) task 1 holds the lock in local state XLVp, and task 0 -- which has started
   its clear -- cannot move; block 0 is still held at this point, so the proof will carry it *)
(* what the example below looks at: who holds the lock; the call task 1 is running, whether its local state is
   XLVp (valueless proof built, block not yet read) and how many micro-steps are left; whether block 0 is held;
   whether task 0 can move *)
Definition midway_view (cfg : Shared.config sstate xlocal xobs xcall)
  : option nat * option (xcall * bool * nat) * bool * bool :=
  (Shared.holder cfg,
   match nth_error (Shared.tasks cfg) 1 with
   | Some tk => match Shared.st tk with
                | Shared.Running c l rest =>
                    Some (c, match l with XLVp _ => true | _ => false end, length rest)
                | _ => None
                end
   | None => None
   end,
   core_has (fst (Shared.shared cfg)) 0,
   match Shared.fire xsplit_l0 (xsplit_body toy_cr) xsplit_res 0 cfg with None => false | Some _ => true end).

Example ex_create_proof_midway :
  match core_open toy_cr (Some toy_keypair) false disk_empty with
  | (d0, _, Ok c0) =>
      match Shared.run_sched xsplit_l0 (xsplit_body toy_cr) xsplit_res (firstn 34 ex_sched ++ [0%nat])
                             (Shared.init (c0, mkWorld d0 [] []) ex_progs) with
      | Some cfg =>
          midway_view cfg =
          (Some 1%nat, Some (SCreateProof ex_req0 None None (Some (mkReqUpgrade 0 3)), true, 1%nat), true, false)
      | None => False
      end
  | _ => False
  end.
Proof. vm_compute. reflexivity. Qed.

Lemma ex_progs_wf : Forall (fun p => wf_u (map xto_uop p) 0) ex_progs.
Proof.
  unfold ex_progs. repeat constructor; cbn [map xto_uop xto_scall to_uop wf_u length]; unfold u64_max; lia.
Qed.

(* The hypotheses of the theorems are met, and the theorems yield their conclusions for the concrete interleaved
   run: the final shared state satisfies the invariant (FInv and PInv) for the model state of the serialization;
   the proof returned by the 6th completed call is the honest proof of the model state [[1;2;3]; []; [4]] reached
   by the five calls completed before it; the last create_proof, for the block cleared just before it, returns
   Ok None with exactly the event EvGet 0; missing_nodes returned 0 and key_pair the initial key pair. *)
Example ex_end_to_end :
  exists d0 ops0 c0 cfg,
    core_open toy_cr (Some toy_keypair) false disk_empty = (d0, ops0, Ok c0) /\
    XInv toy_cr toy_sk c0 d0 [] (fun _ => false) /\
    kp_secret (c_keypair c0) = Some toy_sk /\
    Forall (fun p => wf_u (map xto_uop p) (N.of_nat (length (@nil bytes)))) ex_progs /\
    Shared.run_sched xsplit_l0 (xsplit_body toy_cr) xsplit_res ex_sched
                     (Shared.init (c0, mkWorld d0 [] []) ex_progs) = Some cfg /\
    Shared.holder cfg = None /\
    xmodel_end toy_cr toy_sk c0 (Shared.shared cfg) (Shared.calls (Shared.log cfg)) [] (fun _ => false) /\
    fst (ustate (map xto_uop (Shared.calls (Shared.log cfg))) [] (fun _ => false)) = [[1; 2; 3]; []; [4]] /\
    (* the 6th completed call *)
    xblocks_of (Shared.log cfg) [] 5 = [[1; 2; 3]; []; [4]] /\
    nth_error (Shared.results (Shared.log cfg)) 5 = Some (XOProof (Ok (Some ex_pf))) /\
    proof_honest toy_cr toy_sk (xblocks_of (Shared.log cfg) [] 5) (xcleared_of (Shared.log cfg) [] (fun _ => false) 5)
                 ex_req0 (Some (mkReqUpgrade 0 3)) (Ok (Some ex_pf)) /\
    (* the 8th completed call *)
    nth_error (Shared.results (Shared.log cfg)) 7 = Some (XOProof (Ok None)) /\
    held (N.of_nat (length (xblocks_of (Shared.log cfg) [] 7))) (xcleared_of (Shared.log cfg) [] (fun _ => false) 7) 0
      = false /\
    (exists ci wi, xrun toy_cr (c0, mkWorld d0 [] []) (firstn 7 (Shared.calls (Shared.log cfg))) =
                     ((ci, wi), firstn 7 (Shared.results (Shared.log cfg))) /\
                   xnew_events (SCreateProof ex_req0 None None None) (ci, wi) = [EvGet 0]) /\
    (* the 3rd and 4th *)
    nth_error (Shared.results (Shared.log cfg)) 2 = Some (XOMissing (Ok 0)) /\
    nth_error (Shared.results (Shared.log cfg)) 3 = Some (XOKeyPair (c_keypair c0)).
Proof.
  destruct (init_PInv toy_cr toy_sk toy_crc_ok' Refine.toy_hash32 toy_nonblank toy_hashbytes toy_keypair eq_refl)
    as (d0 & ops0 & c0 & Ho & D0 & P0 & K).
  { intros k Hk. injection Hk as <-. reflexivity. }
  assert (Hsk : kp_secret (c_keypair c0) = Some toy_sk) by (rewrite K; reflexivity).
  pose proof Ho as Ho'. vm_compute in Ho'. injection Ho' as Ed _ Ec.
  destruct (Shared.run_sched xsplit_l0 (xsplit_body toy_cr) xsplit_res ex_sched
              (Shared.init (c0, mkWorld d0 [] []) ex_progs)) as [cfg|] eqn:E;
    [|rewrite <- Ec, <- Ed in E; vm_compute in E; discriminate E].
  pose proof (Shared.run_sched_sound _ _ _ _ _ _ _ _ _ _ E) as Hst.
  assert (Hdone : Shared.holder cfg = None /\ Shared.log cfg = ex_expected_log).
  { pose proof E as E'. rewrite <- Ec, <- Ed in E'. vm_compute in E'. injection E' as E'. rewrite <- E'.
    vm_compute. split; reflexivity. }
  destruct Hdone as (Hfree & Hlog).
  assert (Hnp : forall i k, (k < i)%nat -> nth_error (Shared.results (Shared.log cfg)) k <> Some xframe_panic).
  { intros i k _ Hk. apply nth_error_In in Hk. rewrite Hlog in Hk. vm_compute in Hk.
    repeat (destruct Hk as [Hk|Hk]; [discriminate Hk|]). exact Hk. }
  assert (Hfit : sumN (map len ([] ++ uappended (map xto_uop (concat ex_progs)))) <= u64_max)
    by (vm_compute; discriminate).
  assert (Hidx : NODE_SIZE * (2 * N.of_nat (length ([] ++ uappended (map xto_uop (concat ex_progs))))) <= u64_max)
    by (vm_compute; discriminate).
  pose proof (conj D0 P0 : XInv toy_cr toy_sk c0 d0 [] (fun _ => false)) as X0.
  (* the final state, by the theorem *)
  destruct (xcore_split_unified toy_cr toy_sk toy_crc_ok' Refine.toy_hash32 toy_nonblank toy_hashbytes toy_sig64
              toy_sigbytes ex_progs c0 d0 [] [] [] (fun _ => false) X0 Hsk ex_progs_wf Hfit Hidx cfg Hst)
    as (s1 & Hs1 & [Hm|(k & f & b & _ & Hp)]); [|exfalso; exact (Hnp (Datatypes.S k) k ltac:(lia) Hp)].
  rewrite (Hs1 Hfree) in Hm.
  (* the 6th completed call, by the theorem *)
  assert (Hi5 : nth_error (Shared.log cfg) 5 =
                Some (1%nat, SCreateProof ex_req0 None None (Some (mkReqUpgrade 0 3)), XOProof (Ok (Some ex_pf))))
    by (rewrite Hlog; reflexivity).
  destruct (xcore_split_create_proof_outcome toy_cr toy_sk toy_crc_ok' Refine.toy_hash32 toy_nonblank toy_hashbytes
              toy_sig64 toy_sigbytes ex_progs c0 d0 [] [] [] (fun _ => false) X0 Hsk ex_progs_wf Hfit Hidx
              cfg 5%nat 1%nat _ _ _ _ _ Hst Hi5 (Hnp 5%nat))
    as (c5 & d5 & j5 & ev5 & r5 & Er5 & _ & _ & _ & Hhon5 & _).
  injection Er5 as <-.
  (* the 8th completed call, by the theorem *)
  assert (Hi7 : nth_error (Shared.log cfg) 7 = Some (1%nat, SCreateProof ex_req0 None None None, XOProof (Ok None)))
    by (rewrite Hlog; reflexivity).
  destruct (xcore_split_create_proof_outcome toy_cr toy_sk toy_crc_ok' Refine.toy_hash32 toy_nonblank toy_hashbytes
              toy_sig64 toy_sigbytes ex_progs c0 d0 [] [] [] (fun _ => false) X0 Hsk ex_progs_wf Hfit Hidx
              cfg 7%nat 1%nat _ _ _ _ _ Hst Hi7 (Hnp 7%nat))
    as (c7 & d7 & j7 & ev7 & r7 & Er7 & Hrun7 & _ & _ & _ & Hnone7 & _).
  injection Er7 as <-.
  destruct (Hnone7 eq_refl) as (rb & Hrb & Hh7 & Hev7). injection Hrb as <-. cbn [rb_index] in Hh7, Hev7.
  (* missing_nodes and key_pair, by the theorems *)
  assert (Hi2 : nth_error (Shared.log cfg) 2 = Some (1%nat, SMissingNodes 0, XOMissing (Ok 0)))
    by (rewrite Hlog; reflexivity).
  assert (Hi3 : nth_error (Shared.log cfg) 3 = Some (1%nat, SKeyPair, XOKeyPair toy_keypair))
    by (rewrite Hlog; reflexivity).
  pose proof (xcore_split_key_pair_outcome toy_cr toy_sk toy_crc_ok' Refine.toy_hash32 toy_nonblank toy_hashbytes
                toy_sig64 toy_sigbytes ex_progs c0 d0 [] [] [] (fun _ => false) X0 Hsk ex_progs_wf Hfit Hidx
                cfg 3%nat 1%nat _ Hst Hi3 (Hnp 3%nat)) as Hk3.
  pose proof (xcore_split_missing_nodes_outcome toy_cr toy_sk toy_crc_ok' Refine.toy_hash32 toy_nonblank toy_hashbytes
                toy_sig64 toy_sigbytes ex_progs c0 d0 [] [] [] (fun _ => false) X0 Hsk ex_progs_wf Hfit Hidx
                cfg 2%nat 1%nat _ _ Hst Hi2 (Hnp 2%nat)) as Hm2.
  exists d0, ops0, c0, cfg. split; [exact Ho|]. split; [exact X0|]. split; [exact Hsk|].
  split; [exact ex_progs_wf|]. split; [exact E|]. split; [exact Hfree|]. split; [exact Hm|].
  split; [rewrite Hlog; vm_compute; reflexivity|].
  split; [rewrite Hlog; vm_compute; reflexivity|].
  split; [unfold Shared.results; rewrite (map_nth_error _ _ _ Hi5); reflexivity|].
  split; [exact Hhon5|].
  split; [unfold Shared.results; rewrite (map_nth_error _ _ _ Hi7); reflexivity|].
  split; [exact Hh7|].
  split; [exists c7, (mkWorld d7 j7 ev7); split; [exact Hrun7|exact Hev7]|].
  split.
  - unfold Shared.results. rewrite (map_nth_error _ _ _ Hi2). reflexivity.
  - unfold Shared.results. rewrite (map_nth_error _ _ _ Hi3). cbn [snd]. rewrite K. reflexivity.
Qed.

(* the common set-up of the concrete run, for further applications of the theorems *)
Lemma ex_setup :
  exists d0 ops0 c0 cfg,
    core_open toy_cr (Some toy_keypair) false disk_empty = (d0, ops0, Ok c0) /\
    XInv toy_cr toy_sk c0 d0 [] (fun _ => false) /\
    kp_secret (c_keypair c0) = Some toy_sk /\
    Shared.steps xsplit_l0 (xsplit_body toy_cr) xsplit_res (Shared.init (c0, mkWorld d0 [] []) ex_progs) cfg /\
    Shared.holder cfg = None /\ Shared.log cfg = ex_expected_log.
Proof.
  destruct (init_PInv toy_cr toy_sk toy_crc_ok' Refine.toy_hash32 toy_nonblank toy_hashbytes toy_keypair eq_refl)
    as (d0 & ops0 & c0 & Ho & D0 & P0 & K).
  { intros k Hk. injection Hk as <-. reflexivity. }
  assert (Hsk : kp_secret (c_keypair c0) = Some toy_sk) by (rewrite K; reflexivity).
  pose proof Ho as Ho'. vm_compute in Ho'. injection Ho' as Ed _ Ec.
  destruct (Shared.run_sched xsplit_l0 (xsplit_body toy_cr) xsplit_res ex_sched
              (Shared.init (c0, mkWorld d0 [] []) ex_progs)) as [cfg|] eqn:E;
    [|rewrite <- Ec, <- Ed in E; vm_compute in E; discriminate E].
  pose proof (Shared.run_sched_sound _ _ _ _ _ _ _ _ _ _ E) as Hst.
  exists d0, ops0, c0, cfg. split; [exact Ho|]. split; [split; assumption|]. split; [exact Hsk|].
  split; [exact Hst|].
  pose proof E as E'. rewrite <- Ec, <- Ed in E'. vm_compute in E'. injection E' as E'. rewrite <- E'.
  vm_compute. split; reflexivity.
Qed.

(* (b) on the concrete run: the theorems about the OLD calls apply although create_proof / missing_nodes / key_pair
   calls are interleaved.  The second append (5th completed call) returned length 3 = 0 + 2 (the blocks appended
   before it) + 1; afterwards block 1 -- appended by the first append, whose outcome (2, 3) implies the indices 0
   and 1 -- is readable in the shared core (block 0 is not: the clear completed later covers it). *)
Example ex_old_results :
  exists cfg : Shared.config sstate xlocal xobs xcall,
    Shared.log cfg = ex_expected_log /\
    sumN (map xcblocks (firstn 4 (Shared.calls (Shared.log cfg)))) = 2 /\
    nth_error (Shared.results (Shared.log cfg)) 4 = Some (XOOld (UOAppend (Ok (0 + 2 + 1, 0 + 3 + 1)))) /\
    core_has (fst (Shared.shared cfg)) 1 = true /\
    covers (map xto_uop (skipn 2 (Shared.calls (Shared.log cfg)))) 0 = true.
Proof.
  destruct ex_setup as (d0 & ops0 & c0 & cfg & Ho & X0 & Hsk & Hst & Hfree & Hlog).
  assert (Hnp : ~ In xframe_panic (Shared.results (Shared.log cfg))).
  { rewrite Hlog. vm_compute. intros Hk. repeat (destruct Hk as [Hk|Hk]; [discriminate Hk|]). exact Hk. }
  assert (Hno : forall i k, (k < i)%nat -> nth_error (Shared.results (Shared.log cfg)) k <> Some xframe_panic).
  { intros i k _ Hk. apply Hnp. exact (nth_error_In _ _ Hk). }
  assert (Hfit : sumN (map len ([] ++ uappended (map xto_uop (concat ex_progs)))) <= u64_max)
    by (vm_compute; discriminate).
  assert (Hidx : NODE_SIZE * (2 * N.of_nat (length ([] ++ uappended (map xto_uop (concat ex_progs))))) <= u64_max)
    by (vm_compute; discriminate).
  exists cfg. split; [exact Hlog|]. split; [rewrite Hlog; vm_compute; reflexivity|].
  assert (Hi4 : nth_error (Shared.log cfg) 4 =
                Some (0%nat, XOld (SAppend None [[4]]), XOOld (UOAppend (Ok (3, 4)))))
    by (rewrite Hlog; reflexivity).
  assert (Hi1 : nth_error (Shared.log cfg) 1 =
                Some (0%nat, XOld (SAppend (Some false) [[1; 2; 3]; []]), XOOld (UOAppend (Ok (2, 3)))))
    by (rewrite Hlog; reflexivity).
  split.
  - (* by the theorem, not by looking at the log *)
    destruct (xcore_split_append_outcome toy_cr toy_sk toy_crc_ok' Refine.toy_hash32 toy_nonblank toy_hashbytes
                toy_sig64 toy_sigbytes ex_progs c0 d0 [] [] [] (fun _ => false) X0 Hsk ex_progs_wf Hfit Hidx
                cfg 4%nat 0%nat _ _ _ Hst Hi4 (Hno 4%nat)) as [Hr|Hr]; [|discriminate Hr].
    unfold Shared.results. rewrite (map_nth_error _ _ _ Hi4). cbn [snd]. rewrite Hr.
    rewrite Hlog. vm_compute. reflexivity.
  - split.
    + refine (proj1 (xcore_split_blocks_readable toy_cr toy_sk toy_crc_ok' Refine.toy_hash32 toy_nonblank toy_hashbytes
                toy_sig64 toy_sigbytes ex_progs c0 d0 [] [] [] (fun _ => false) X0 Hsk ex_progs_wf Hfit Hidx
                cfg 1%nat 0%nat _ _ 2 3 1%nat Hst Hfree Hnp Hi1 _ _)); [cbn [length]; lia|].
      rewrite Hlog. vm_compute. reflexivity.
    + rewrite Hlog. vm_compute. reflexivity.
Qed.

(* the hypothesis XInv is met by EVERY state a writer can reach (creation, appends, clears, reopens,
   make_read_only: ProofContent.wreach) *)
Lemma XInv_of_wreach cr kp sk :
  crc_ok cr -> (forall x, length (cr_hash cr x) = 32%nat) -> (forall x, all_zero (cr_hash cr x) = false) ->
  (forall x, bytes_ok (cr_hash cr x) = true) -> (forall k m, length (cr_sign cr k m) = 64%nat) ->
  (forall k m, bytes_ok (cr_sign cr k m) = true) -> keypair_ok kp = true -> kp_secret kp = Some sk ->
  forall c d bs cl, wreach cr kp c d bs cl -> XInv cr sk c d bs cl.
Proof.
  intros H1 H2 H3 H4 H5 H6 H7 H8 c d bs cl R.
  exact (wreach_inv cr kp sk H1 H2 H3 H4 H5 H6 H7 H8 c d bs cl R).
Qed.

(* the new calls leave core, disk and journal alone in the concrete run (theorem xshared_new_call_frame, which
   needs no invariant): the state after the 8th completed call is the state before it plus the event EvGet 0 *)
Example ex_new_call_frame :
  match core_open toy_cr (Some toy_keypair) false disk_empty with
  | (d0, _, Ok c0) =>
      forall cfg,
        Shared.run_sched xsplit_l0 (xsplit_body toy_cr) xsplit_res ex_sched
                         (Shared.init (c0, mkWorld d0 [] []) ex_progs) = Some cfg ->
        exists si si',
          xrun toy_cr (c0, mkWorld d0 [] []) (firstn 7 (Shared.calls (Shared.log cfg))) =
            (si, firstn 7 (Shared.results (Shared.log cfg))) /\
          xrun toy_cr (c0, mkWorld d0 [] []) (firstn 8 (Shared.calls (Shared.log cfg))) =
            (si', firstn 8 (Shared.results (Shared.log cfg))) /\
          fst si' = fst si /\ w_disk (snd si') = w_disk (snd si) /\ w_journal (snd si') = w_journal (snd si) /\
          w_events (snd si') = EvGet 0 :: w_events (snd si)
  | _ => False
  end.
Proof.
  destruct (core_open toy_cr (Some toy_keypair) false disk_empty) as [[d0 ops0] [c0|e|s|]] eqn:Ho;
    try (vm_compute in Ho; discriminate Ho).
  intros cfg E.
  pose proof (Shared.run_sched_sound _ _ _ _ _ _ _ _ _ _ E) as Hst.
  pose proof Ho as Ho'. vm_compute in Ho'. injection Ho' as Ed _ Ec.
  assert (Hlog : Shared.log cfg = ex_expected_log).
  { pose proof E as E'. rewrite <- Ec, <- Ed in E'. vm_compute in E'. injection E' as E'. rewrite <- E'.
    vm_compute. reflexivity. }
  assert (Hi7 : nth_error (Shared.log cfg) 7 = Some (1%nat, SCreateProof ex_req0 None None None, XOProof (Ok None)))
    by (rewrite Hlog; reflexivity).
  destruct (xshared_new_call_frame toy_cr _ _ _ _ (xsplit_atomic toy_cr) ex_progs cfg _ 7%nat 1%nat _ _ Hst Hi7 eq_refl)
    as (si & si' & R1 & R2 & _ & A & B & C & D).
  exists si, si'. split; [exact R1|]. split; [exact R2|]. split; [exact A|]. split; [exact B|]. split; [exact C|].
  rewrite D. f_equal.
  (* the event list of the theorem, computed on the concrete prefix state *)
  rewrite Hlog in R1. rewrite <- Ec, <- Ed in R1. vm_compute in R1. injection R1 as <-. vm_compute. reflexivity.
Qed.

Print Assumptions ex_split_run.
Print Assumptions ex_one_run.
Print Assumptions ex_create_proof_midway.
Print Assumptions ex_end_to_end.
Print Assumptions ex_old_results.
Print Assumptions XInv_of_wreach.
Print Assumptions ex_new_call_frame.
